/-
  CNF export by Tseitin transformation, part 2 (C19): the exported CNF `toCnf nodes n`.

  With `hnew` (some variable was introduced) and `hroot` (the literal of the root is the variable
  introduced last, executable as `rootIsLastVarB`):
  * `cnf_models_project`         : every model of the CNF is a model of the circuit
  * `cnf_model_unique_extension` : every model of the circuit has exactly one extension
  * `cnf_model_count`            : the CNF over `1..T` has exactly `specCount nodes n []` models
  * `cnf_header`                 : the header declares `T` variables and all of `1..T` occur
-/
import DdnnfVerif.Proofs.Cnf

namespace Ddnnf

/-- the root node is represented by the variable that was introduced last -/
def rootIsLastVarB (nodes : List NType) (n : Nat) : Bool :=
  (tseitin nodes n).nodeLits.getD (rootIx nodes) 0 == (((tseitin nodes n).next - 1 : Nat) : Int)

theorem rootIsLastVarB_spec (nodes : List NType) (n : Nat) (h : rootIsLastVarB nodes n = true) :
    (tseitin nodes n).nodeLits.getD (rootIx nodes) 0 = (((tseitin nodes n).next - 1 : Nat) : Int) := by
  simpa [rootIsLastVarB] using h

/-- every feature `1..n` occurs in some biconditional -/
def FeaturesOccur (nodes : List NType) (n : Nat) : Prop :=
  ∀ v, 1 ≤ v → v ≤ n → ∃ b ∈ (tseitin nodes n).biconds, ∃ l ∈ b.lits, l.natAbs = v

def featuresOccurB (nodes : List NType) (n : Nat) : Bool :=
  (List.range n).all fun i =>
    (tseitin nodes n).biconds.any fun b => b.lits.any fun l => l.natAbs == i + 1

theorem featuresOccurB_spec (nodes : List NType) (n : Nat) (h : featuresOccurB nodes n = true) :
    FeaturesOccur nodes n := by
  intro v h1 h2
  unfold featuresOccurB at h
  rw [List.all_eq_true] at h
  have := h (v - 1) (List.mem_range.mpr (by omega))
  rw [List.any_eq_true] at this
  obtain ⟨b, hb, hb'⟩ := this
  rw [List.any_eq_true] at hb'
  obtain ⟨l, hl, hl'⟩ := hb'
  refine ⟨b, hb, l, hl, ?_⟩
  have : l.natAbs = v - 1 + 1 := by simpa using hl'
  omega

/-- the clauses of the export when a variable was introduced -/
def cnfClauses (nodes : List NType) (n : Nat) : List (List Int) :=
  (tseitin nodes n).biconds.flatMap Bicond.clauses ++ [[(((tseitin nodes n).next - 1 : Nat) : Int)]]

theorem toCnf_of_new (nodes : List NType) (n : Nat) (hnew : (tseitin nodes n).next ≠ n + 1) :
    toCnf nodes n
      = ((dedupNat ((cnfClauses nodes n).flatMap (fun c => c.map Int.natAbs))).length,
          cnfClauses nodes n) := by
  unfold toCnf cnfClauses
  simp only [beq_iff_eq, hnew, if_false]

theorem toCnf_snd (nodes : List NType) (n : Nat) (hnew : (tseitin nodes n).next ≠ n + 1) :
    (toCnf nodes n).2 = cnfClauses nodes n := by rw [toCnf_of_new nodes n hnew]

/-- without a new variable the export is the empty CNF over 0 variables -/
theorem toCnf_of_not_new (nodes : List NType) (n : Nat) (h : (tseitin nodes n).next = n + 1) :
    toCnf nodes n = (0, []) := by
  unfold toCnf
  simp only [beq_iff_eq, h, if_true]

theorem satCnf_cnfClauses (nodes : List NType) (n : Nat) (τ : Assignment)
    (hT : 1 ≤ (tseitin nodes n).next - 1) :
    satCnf τ (cnfClauses nodes n)
      = (satCnf τ ((tseitin nodes n).biconds.flatMap Bicond.clauses)
          && τ ((tseitin nodes n).next - 1)) := by
  unfold cnfClauses
  rw [satCnf_append]
  congr 1
  simp only [satCnf, satClause, List.all_cons, List.all_nil, List.any_cons, List.any_nil,
    Bool.or_false, Bool.and_true]
  exact litTrue_ofNat τ _ hT

/-- `hnew` implies that there is a node -/
theorem nodes_ne_nil_of_new (nodes : List NType) (n : Nat) (hnew : (tseitin nodes n).next ≠ n + 1) :
    nodes ≠ [] := by
  rintro rfl
  exact hnew rfl

/-- under `hroot` the value of the last variable under the extension is the value of the root -/
theorem extend_last_eq_eval (nodes : List NType) (n : Nat) (htopo : Topo nodes)
    (hrange : LitRange nodes n) (hnew : (tseitin nodes n).next ≠ n + 1)
    (hroot : (tseitin nodes n).nodeLits.getD (rootIx nodes) 0
      = (((tseitin nodes n).next - 1 : Nat) : Int)) (σ : Assignment) :
    extend σ (tseitin nodes n).biconds ((tseitin nodes n).next - 1)
      = eval σ nodes (rootIx nodes) := by
  have hne := nodes_ne_nil_of_new nodes n hnew
  have hlen : 0 < nodes.length := List.length_pos_iff.mpr hne
  have h := nodeLit_iff_eval nodes n htopo hrange σ (rootIx nodes) (by unfold rootIx; omega)
  have hn := (tseitin_inv nodes n htopo hrange).next_eq
  rw [hroot, litTrue_ofNat _ _ (by omega)] at h
  exact h

/-- a model of the CNF gives the last variable the value of the root -/
theorem last_eq_eval_of_sat (nodes : List NType) (n : Nat) (htopo : Topo nodes)
    (hrange : LitRange nodes n) (hnew : (tseitin nodes n).next ≠ n + 1)
    (hroot : (tseitin nodes n).nodeLits.getD (rootIx nodes) 0
      = (((tseitin nodes n).next - 1 : Nat) : Int)) (τ : Assignment)
    (hsat : satCnf τ ((tseitin nodes n).biconds.flatMap Bicond.clauses) = true) :
    τ ((tseitin nodes n).next - 1) = eval τ nodes (rootIx nodes) := by
  have hn := (tseitin_inv nodes n htopo hrange).next_eq
  rw [← extend_last_eq_eval nodes n htopo hrange hnew hroot τ]
  exact extension_unique nodes n htopo hrange τ τ (fun _ _ _ => rfl) hsat _ (by omega) (by omega)

/-- **C19, soundness**: restricting a model of the exported CNF to the features gives a model of
the circuit (`eval` only reads the features `1..n` by `LitRange`). -/
theorem cnf_models_project (nodes : List NType) (n : Nat) (htopo : Topo nodes)
    (hrange : LitRange nodes n) (hnew : (tseitin nodes n).next ≠ n + 1)
    (hroot : (tseitin nodes n).nodeLits.getD (rootIx nodes) 0
      = (((tseitin nodes n).next - 1 : Nat) : Int)) (τ : Assignment) :
    satCnf τ (toCnf nodes n).2 = true → eval τ nodes (rootIx nodes) = true := by
  have hn := (tseitin_inv nodes n htopo hrange).next_eq
  rw [toCnf_snd nodes n hnew, satCnf_cnfClauses nodes n τ (by omega), Bool.and_eq_true]
  rintro ⟨h1, h2⟩
  rw [← last_eq_eval_of_sat nodes n htopo hrange hnew hroot τ h1]
  exact h2

/-- **C19, completeness and uniqueness**: a model `σ` of the circuit extends to a model of the
exported CNF, and every model of the CNF that agrees with `σ` on the features is that extension
on the Tseitin variables `n+1 .. T`. -/
theorem cnf_model_unique_extension (nodes : List NType) (n : Nat) (htopo : Topo nodes)
    (hrange : LitRange nodes n) (hnew : (tseitin nodes n).next ≠ n + 1)
    (hroot : (tseitin nodes n).nodeLits.getD (rootIx nodes) 0
      = (((tseitin nodes n).next - 1 : Nat) : Int))
    (σ : Assignment) (hσ : eval σ nodes (rootIx nodes) = true) :
    satCnf (extend σ (tseitin nodes n).biconds) (toCnf nodes n).2 = true
    ∧ ∀ τ : Assignment, (∀ v, 1 ≤ v → v ≤ n → τ v = σ v) →
        satCnf τ (toCnf nodes n).2 = true →
        ∀ v, n < v → v ≤ (tseitin nodes n).next - 1 →
          τ v = extend σ (tseitin nodes n).biconds v := by
  have hn := (tseitin_inv nodes n htopo hrange).next_eq
  rw [toCnf_snd nodes n hnew]
  constructor
  · rw [satCnf_cnfClauses nodes n _ (by omega), extension_satisfies nodes n htopo hrange σ,
      extend_last_eq_eval nodes n htopo hrange hnew hroot σ, hσ]
    rfl
  · intro τ hagree hsat v h1 h2
    rw [satCnf_cnfClauses nodes n _ (by omega), Bool.and_eq_true] at hsat
    exact extension_unique nodes n htopo hrange σ τ hagree hsat.1 v h1 (by omega)

/-! ### counting -/

/-- adding the variable `n+1` defined by a biconditional over `1..n` does not change the number of
models -/
theorem count_step (n : Nat) (b0 : Bicond) (hi : b0.index = n + 1)
    (hl : ∀ l ∈ b0.lits, l ≠ 0 ∧ l.natAbs ≤ n) (Q : Assignment → Bool)
    (hQ : ∀ τ τ' : Assignment, (∀ v, 1 ≤ v → v ≤ n → τ v = τ' v) → Q τ = Q τ') :
    (allBits (n + 1)).countP (fun b => satCnf (assignOf b) b0.clauses && Q (assignOf b))
      = (allBits n).countP (fun b => Q (assignOf b)) := by
  rw [allBits, List.countP_flatMap, countP_eq_sum_ite]
  congr 1
  apply List.map_congr_left
  intro b' hb'
  have hlen : b'.length = n := length_of_mem_allBits n b' hb'
  have key : ∀ x : Bool,
      (satCnf (assignOf (b' ++ [x])) b0.clauses && Q (assignOf (b' ++ [x])))
        = ((x == b0.val (assignOf b')) && Q (assignOf b')) := by
    intro x
    have hag : ∀ v, v ≤ n → assignOf (b' ++ [x]) v = assignOf b' v :=
      fun v hv => assignOf_snoc_le b' x v (by omega)
    rw [bicond_clauses_eq _ b0 (by omega) (fun l hl' => (hl l hl').1), hi]
    have e1 : assignOf (b' ++ [x]) (n + 1) = x := by
      rw [← hlen]; exact assignOf_snoc_last b' x
    have e2 : b0.val (assignOf (b' ++ [x])) = b0.val (assignOf b') :=
      Bicond.val_congr _ _ _ (fun l hl' => hag _ (hl l hl').2)
    have e3 : Q (assignOf (b' ++ [x])) = Q (assignOf b') := hQ _ _ (fun v _ hv => hag v hv)
    rw [e1, e2, e3]
  simp only [Function.comp_apply, List.countP_cons, List.countP_nil, key]
  cases b0.val (assignOf b') <;> cases Q (assignOf b') <;> rfl

/-- the biconditionals define their variables: counting models over `1 .. n + |bs|` of the
biconditional clauses together with a condition `Q` on the features is counting `Q` -/
theorem count_good {n : Nat} {bs : List Bicond} (h : GoodBiconds n bs) (Q : Assignment → Bool)
    (hQ : ∀ τ τ' : Assignment, (∀ v, 1 ≤ v → v ≤ n → τ v = τ' v) → Q τ = Q τ') :
    (allBits (n + bs.length)).countP
        (fun b => satCnf (assignOf b) (bs.flatMap Bicond.clauses) && Q (assignOf b))
      = (allBits n).countP (fun b => Q (assignOf b)) := by
  induction bs generalizing n Q with
  | nil => simp [satCnf]
  | cons b bs ih =>
    obtain ⟨h1, h2, h3⟩ := h
    have hlen : n + (b :: bs).length = n + 1 + bs.length := by rw [List.length_cons]; omega
    rw [hlen]
    have hQ' : ∀ τ τ' : Assignment, (∀ v, 1 ≤ v → v ≤ n + 1 → τ v = τ' v) →
        (satCnf τ b.clauses && Q τ) = (satCnf τ' b.clauses && Q τ') := by
      intro τ τ' hag
      have e1 : satCnf τ b.clauses = satCnf τ' b.clauses := by
        apply satCnf_congr
        intro c hc l hl
        rcases mem_bicond_clauses b c hc l hl with hx | ⟨l', hl', hx⟩
        · rw [hx]; exact hag _ (by omega) (by omega)
        · rw [hx]
          have := h2 l' hl'
          exact hag _ (by omega) (by omega)
      have e2 : Q τ = Q τ' := hQ τ τ' (fun v hv1 hv2 => hag v hv1 (by omega))
      rw [e1, e2]
    have := ih h3 (fun τ => satCnf τ b.clauses && Q τ) hQ'
    rw [← count_step n b h1 h2 Q hQ, ← this]
    congr 1
    funext bits
    rw [List.flatMap_cons, satCnf_append]
    cases satCnf (assignOf bits) b.clauses <;> cases satCnf (assignOf bits) (bs.flatMap Bicond.clauses)
      <;> rfl

/-- **C19, equi-countable**: the number of assignments to the variables `1..T` that satisfy the
exported CNF equals the number of assignments to the features `1..n` that satisfy the circuit
(which is `count nodes (rootIx nodes)` by `count_eq_specCount` when `WF nodes n`). -/
theorem cnf_model_count (nodes : List NType) (n : Nat) (htopo : Topo nodes)
    (hrange : LitRange nodes n) (hnew : (tseitin nodes n).next ≠ n + 1)
    (hroot : (tseitin nodes n).nodeLits.getD (rootIx nodes) 0
      = (((tseitin nodes n).next - 1 : Nat) : Int)) :
    ((allBits ((tseitin nodes n).next - 1)).filter
        (fun b => satCnf (assignOf b) (toCnf nodes n).2)).length
      = specCount nodes n [] := by
  have hinv := tseitin_inv nodes n htopo hrange
  have hn := hinv.next_eq
  have hT : (tseitin nodes n).next - 1 = n + (tseitin nodes n).biconds.length := by omega
  have hQ : ∀ τ τ' : Assignment, (∀ v, 1 ≤ v → v ≤ n → τ v = τ' v) →
      eval τ nodes (rootIx nodes) = eval τ' nodes (rootIx nodes) := by
    intro τ τ' hag
    apply eval_congr_leaves
    intro nd hnd l hl
    obtain ⟨h0, hle⟩ := hrange nd hnd l hl
    exact litTrue_congr _ _ _ (hag _ (by omega) hle)
  have hcount := count_good hinv.good (fun τ => eval τ nodes (rootIx nodes)) hQ
  unfold specCount
  rw [← List.countP_eq_length_filter, ← List.countP_eq_length_filter, toCnf_snd nodes n hnew]
  have e2 : (allBits n).countP
      (fun b => eval (assignOf b) nodes (rootIx nodes) && ([] : List Int).all (litTrue (assignOf b)))
      = (allBits n).countP (fun b => eval (assignOf b) nodes (rootIx nodes)) := by
    congr 1; funext b; simp
  rw [e2, ← hcount, ← hT]
  congr 1
  funext bits
  rw [satCnf_cnfClauses nodes n _ (by omega)]
  cases hs : satCnf (assignOf bits) ((tseitin nodes n).biconds.flatMap Bicond.clauses) with
  | false => rfl
  | true =>
    rw [last_eq_eval_of_sat nodes n htopo hrange hnew hroot _ hs]

/-- the same with `count`, for well-formed circuits -/
theorem cnf_model_count_wf (nodes : List NType) (n : Nat) (hwf : WF nodes n)
    (hrange : LitRange nodes n) (hnew : (tseitin nodes n).next ≠ n + 1)
    (hroot : (tseitin nodes n).nodeLits.getD (rootIx nodes) 0
      = (((tseitin nodes n).next - 1 : Nat) : Int)) :
    ((allBits ((tseitin nodes n).next - 1)).filter
        (fun b => satCnf (assignOf b) (toCnf nodes n).2)).length
      = count nodes (rootIx nodes) := by
  rw [cnf_model_count nodes n hwf.topo hrange hnew hroot, count_eq_specCount nodes n hwf]

/-! ### the header -/

theorem mem_dedupNat (xs : List Nat) (x : Nat) : x ∈ dedupNat xs ↔ x ∈ xs := by
  induction xs with
  | nil => simp [dedupNat]
  | cons y ys ih =>
    unfold dedupNat
    by_cases hc : ys.contains y = true
    · rw [if_pos hc, ih, List.mem_cons]
      have hy : y ∈ ys := by simpa using hc
      constructor
      · exact Or.inr
      · rintro (rfl | h)
        · exact hy
        · exact h
    · rw [if_neg hc, List.mem_cons, List.mem_cons, ih]

theorem nodup_dedupNat (xs : List Nat) : (dedupNat xs).Nodup := by
  induction xs with
  | nil => simp [dedupNat]
  | cons y ys ih =>
    unfold dedupNat
    by_cases hc : ys.contains y = true
    · rw [if_pos hc]; exact ih
    · rw [if_neg hc, List.nodup_cons]
      refine ⟨?_, ih⟩
      rw [mem_dedupNat]
      simpa using hc

/-- a duplicate free list whose members are exactly `1..T` has length `T` -/
theorem length_of_nodup_of_mem_iff (xs : List Nat) (T : Nat) (hnd : xs.Nodup)
    (hmem : ∀ v, v ∈ xs ↔ 1 ≤ v ∧ v ≤ T) : xs.length = T := by
  have hp : xs.Perm (List.range' 1 T) := by
    rw [List.perm_ext_iff_of_nodup hnd List.nodup_range']
    intro v
    rw [hmem, List.mem_range'_1]
    omega
  rw [hp.length_eq, List.length_range']

/-- the first clause of a biconditional mentions its variable and all variables of its literals -/
theorem bicond_first_clause (b : Bicond) :
    ∃ c ∈ b.clauses, (∃ l ∈ c, l.natAbs = b.index) ∧ ∀ l' ∈ b.lits, ∃ l ∈ c, l.natAbs = l'.natAbs := by
  obtain ⟨x, isAnd, lits⟩ := b
  cases isAnd with
  | true =>
    refine ⟨(x : Int) :: lits.map (fun l => -l), ?_, ⟨(x : Int), List.mem_cons_self .., by simp⟩, ?_⟩
    · simp [Bicond.clauses]
    · intro l' hl'
      exact ⟨-l', List.mem_cons_of_mem _ (List.mem_map.mpr ⟨l', hl', rfl⟩), by simp⟩
  | false =>
    refine ⟨-(x : Int) :: lits, ?_, ⟨-(x : Int), List.mem_cons_self .., by simp⟩, ?_⟩
    · simp [Bicond.clauses]
    · intro l' hl'
      exact ⟨l', List.mem_cons_of_mem _ hl', rfl⟩

/-- the variables of the exported clauses are exactly `1..T` -/
theorem cnfClauses_vars (nodes : List NType) (n : Nat) (htopo : Topo nodes)
    (hrange : LitRange nodes n) (hnew : (tseitin nodes n).next ≠ n + 1)
    (hocc : FeaturesOccur nodes n) (v : Nat) :
    (∃ c ∈ cnfClauses nodes n, ∃ l ∈ c, l.natAbs = v)
      ↔ (1 ≤ v ∧ v ≤ (tseitin nodes n).next - 1) := by
  have hinv := tseitin_inv nodes n htopo hrange
  have hn := hinv.next_eq
  constructor
  · rintro ⟨c, hc, l, hl, rfl⟩
    unfold cnfClauses at hc
    rcases List.mem_append.mp hc with hc | hc
    · obtain ⟨b, hb, hcb⟩ := List.mem_flatMap.mp hc
      obtain ⟨i1, i2, i3⟩ := hinv.good.mem hb
      rcases mem_bicond_clauses b c hcb l hl with hx | ⟨l', hl', hx⟩
      · omega
      · have := i3 l' hl'
        omega
    · rw [List.mem_singleton] at hc
      subst hc
      rw [List.mem_singleton] at hl
      subst hl
      rw [Int.natAbs_natCast]
      omega
  · rintro ⟨h1, h2⟩
    by_cases hv : v ≤ n
    · obtain ⟨b, hb, l', hl', rfl⟩ := hocc v h1 hv
      obtain ⟨c, hc, _, hc2⟩ := bicond_first_clause b
      obtain ⟨l, hl, hle⟩ := hc2 l' hl'
      exact ⟨c, List.mem_append_left _ (List.mem_flatMap.mpr ⟨b, hb, hc⟩), l, hl, hle⟩
    · obtain ⟨b, hb, rfl⟩ := hinv.good.exists_index v (by omega) (by omega)
      obtain ⟨c, hc, ⟨l, hl, hle⟩, _⟩ := bicond_first_clause b
      exact ⟨c, List.mem_append_left _ (List.mem_flatMap.mpr ⟨b, hb, hc⟩), l, hl, hle⟩

/-- **C19, header**: the exported CNF declares the number of variables it actually contains: the
header is `T = next - 1`, every variable `1..T` occurs in some clause, and no other variable
does.  (`FeaturesOccur`: every feature occurs in some biconditional — executable as
`featuresOccurB`; without it the header is smaller than the largest variable.) -/
theorem cnf_header (nodes : List NType) (n : Nat) (htopo : Topo nodes)
    (hrange : LitRange nodes n) (hnew : (tseitin nodes n).next ≠ n + 1)
    (hocc : FeaturesOccur nodes n) :
    (toCnf nodes n).1 = (tseitin nodes n).next - 1
    ∧ (∀ v, 1 ≤ v → v ≤ (tseitin nodes n).next - 1 →
        ∃ c ∈ (toCnf nodes n).2, ∃ l ∈ c, l.natAbs = v)
    ∧ (∀ c ∈ (toCnf nodes n).2, ∀ l ∈ c,
        1 ≤ l.natAbs ∧ l.natAbs ≤ (tseitin nodes n).next - 1) := by
  have hv := cnfClauses_vars nodes n htopo hrange hnew hocc
  rw [toCnf_of_new nodes n hnew]
  refine ⟨?_, fun v h1 h2 => (hv v).mpr ⟨h1, h2⟩, fun c hc l hl => (hv _).mp ⟨c, hc, l, hl, rfl⟩⟩
  apply length_of_nodup_of_mem_iff _ _ (nodup_dedupNat _)
  intro v
  rw [mem_dedupNat, ← hv v, List.mem_flatMap]
  constructor
  · rintro ⟨c, hc, hvc⟩
    obtain ⟨l, hl, rfl⟩ := List.mem_map.mp hvc
    exact ⟨c, hc, l, hl, rfl⟩
  · rintro ⟨c, hc, l, hl, rfl⟩
    exact ⟨c, hc, List.mem_map.mpr ⟨l, hl, rfl⟩⟩

end Ddnnf
