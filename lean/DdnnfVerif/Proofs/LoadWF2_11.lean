/-
  Well-formedness of the array the d4 loader produces (part 11): the composition of the phases.

  `D4WF s1 r`: the d4 conventions, stated on the state that phase 1 builds from the text.
  `final_graph`: for such a state (satisfiable, loader without error flag) the graph that is flattened is
  acyclic, decomposable, deterministic, smooth on the nodes the DFS emits, its literal leaves are not 0,
  and its root is satisfiable and mentions exactly the features `1..total`.
-/
import DdnnfVerif.Proofs.LoadWF2_10

namespace Ddnnf.D4

/-- The d4 conventions, on the state `s1` phase 1 builds from the text (`r` ranks the graph). -/
structure D4WF (s1 : LState) (r : Nat → Nat) : Prop where
  /-- the graph is acyclic -/
  acyclic : Acyclic s1.g r
  /-- literal leaves carry a variable in `1..total` (`total` = the feature count the loader reports) -/
  litRange : ∀ x l, s1.g.kindOf x = some (.lit l) → 1 ≤ l.natAbs ∧ l.natAbs ≤ s1.total
  /-- the variable of every literal leaf was seen on an edge (no literal nodes are declared by node lines) -/
  litOcc : ∀ x l, s1.g.kindOf x = some (.lit l) → s1.occurs.contains l.natAbs = true
  /-- literal leaves have no successors -/
  litSink : ∀ x l, s1.g.kindOf x = some (.lit l) → s1.g.outs.getD x [] = []
  /-- the successors of an and-node mention pairwise disjoint variables (by position) -/
  decomposable : GDec s1.g
  /-- at most one successor of an or-node is true under any assignment (with multiplicity) -/
  deterministic : ∀ (σ : Assignment) (x : Nat), s1.g.kindOf x = some .or →
    (s1.g.outs.getD x []).countP (sem σ s1.g r) ≤ 1

theorem wrapFold_err (skip : LState → Nat → Bool) (ks : List Nat) (s : LState) (root : Nat) :
    (ks.foldl (wrapFoldStep skip) (s, root)).1.g.err = s.g.err := by
  refine foldl_inv (fun (acc : LState × Nat) => acc.1.g.err = s.g.err) _ _ ?_ (s, root) rfl
  intro acc k _ hacc
  unfold wrapFoldStep
  split
  · exact hacc
  · rw [wrapTri_err]; exact hacc

theorem addVanished_err (s : LState) (root : Nat) : (addVanished s root).1.g.err = s.g.err := by
  rw [addVanished_eq_fold]; exact wrapFold_err _ _ _ _

/-- the error flag of the elimination is the error flag of the loader -/
theorem st4_err (sorted : Bool) (h : List Nat → List Nat) (s1 : LState) :
    (st4 sorted h s1).g.err = (afterElim s1).g.err := by
  unfold st4
  rw [smooth_err]
  exact addVanished_err _ _

theorem contains_iff_mem (l : List Nat) (f : Nat) : l.contains f = true ↔ f ∈ l := by simp

/-- **The graph that is flattened** for a phase-1 state that follows the d4 conventions. -/
theorem final_graph (s1 : LState) (r : Nat → Nat) (hp : PInv s1) (htri : s1.tri = [])
    (hpos : 0 < s1.g.kind.size) (hwf : D4WF s1 r) (hsat : ∃ σ, sem σ s1.g r 0 = true)
    (hok : (st4 true id s1).g.err = false) :
    ∃ r4, FCtx (st4 true id s1).g r4 ∧ (st3 s1).2 < (st4 true id s1).g.kind.size ∧
      LitNZ (st4 true id s1).g ∧ GDec (st4 true id s1).g ∧ GSmoothOn (st4 true id s1).g (st3 s1).2 ∧
      GDet (st4 true id s1).g ∧
      (∀ f, Mentions (st4 true id s1).g (st3 s1).2 f ↔ 1 ≤ f ∧ f ≤ s1.total) ∧
      (∃ σ, sem σ (st4 true id s1).g r4 (st3 s1).2 = true) := by
  obtain ⟨σ, hσ⟩ := hsat
  have hnz : LitNZ s1.g := by
    intro x l hk e
    have := (hwf.litRange x l hk).1
    rw [e] at this; simp at this
  -- phase 1
  have d1 : DInv s1 := ⟨⟨⟨hp.linv, hp.litK⟩, (by intro e he; rw [htri] at he; cases he), hwf.litRange,
    hwf.litSink⟩, hwf.decomposable⟩
  have gd1 : GDet s1.g := by
    intro σ' v hm x hk
    rw [List.countP_congr (fun c _ => by rw [hm.eq_sem r hwf.acyclic c])]
    exact hwf.deterministic σ' x hk
  have rk1 : RInv s1 (normRank s1 r) := normRank_rinv s1 r hp htri hwf.acyclic
    (fun e he => hwf.litSink _ _ (hp.litK e he))
  have c1 : CInv σ s1 (sem σ s1.g r) := ⟨hp.linv, sem_model σ s1.g r hwf.acyclic, hp.litK, hnz⟩
  have t1 : TriT s1 (sem σ s1.g r) := by intro e he; rw [htri] at he; cases he
  -- phase 2
  have H2 := wrapFold_dinv (fun t f => t.occurs.contains f) (fun f => s1.occurs.contains f) s1 0
    (List.range s1.total) (fun t ht f => by show t.occurs.contains f = _; rw [ht]) d1 hpos (Or.inl rfl)
    List.nodup_range (fun k hk => by have := List.mem_range.1 hk; omega)
    (fun f hm => by
      obtain ⟨y, l, hyl, e⟩ := hm.leaf
      rw [← e]; exact hwf.litOcc y l hyl)
  rw [← addFree_eq_fold] at H2
  obtain ⟨d2, rd2, w2, m2, nz2⟩ := H2
  have wf1 := hp.linv.wf
  have wf2 := d2.b.p.linv.wf
  have gd2 : GDet (addFree s1).1.g := gdet_wrapStep w2 d2.b wf1 (Or.inl rfl) gd1
  obtain ⟨ρ2, rk2, rh2, _⟩ := addFree_rank hpos rk1
  have i2 : IOK (addFree s1).1.g := addFree_iok s1 hp.linv hp.iok
  obtain ⟨v2, c2, t2, e2, _, hv2⟩ := addFree_sem hpos c1 t1
  have hpos2 : 0 < (addFree s1).1.g.kind.size := Nat.lt_of_lt_of_le hpos w2.size
  -- phase 3
  have herr3 : (afterElim s1).g.err = false := by rw [← st4_err true id s1]; exact hok
  have rel := erel2_eliminate (addFree s1).1.g (addFree s1).2
  have hsz3 : (afterElim s1).g.kind.size = (addFree s1).1.g.kind.size :=
    (eliminate_wfn _ (addFree s1).1.g (addFree s1).2 ⟨wf2, rfl⟩).2
  have d3 : DInv (afterElim s1) := elim_dinv (addFree s1).1 (addFree s1).2 d2
  have wf3 := d3.b.p.linv.wf
  have gd3 : GDet (afterElim s1).g := gdet_elim (addFree s1).2 ρ2 rk2.acyc i2.ins herr3 gd2
  have rk3 : RInv (afterElim s1) ρ2 := elim_rank (addFree s1).1 ρ2 (addFree s1).2 rk2
  have hm3 : Model σ (afterElim s1).g v2 := by
    rcases eliminate_sem (addFree s1).1.g (addFree s1).2 c2.model i2.ins with herr | ⟨h, _⟩
    · have : (afterElim s1).g.err = true := herr
      rw [herr3] at this; cases this
    · exact h
  have halive : (addFree s1).2 ≠ 0 → (afterElim s1).g.kindOf (addFree s1).2 = some .and := by
    intro h0
    have hk2 : (addFree s1).1.g.kindOf (addFree s1).2 = some .and := by
      rcases rd2 with e | h
      · exact absurd e h0
      · exact h.2.1
    rcases rel.base.kinds (addFree s1).2 with e | ⟨e, _⟩ | ⟨_, e⟩
    · exact e.trans hk2
    · have hf : v2 (addFree s1).2 = false := hm3.none e
      rw [hv2, hσ] at hf; cases hf
    · rw [hk2] at e; cases e
  have rd3 : RootD (afterElim s1) (addFree s1).2 := elim_rootD wf2 rd2 halive
  have hroot2 : (addFree s1).2 < (afterElim s1).g.kind.size := by
    rcases rd3 with e | h
    · rw [e, hsz3]; exact hpos2
    · exact h.1
  have hpos3 : 0 < (afterElim s1).g.kind.size := by rw [hsz3]; exact hpos2
  have htot3 : (afterElim s1).total = s1.total := w2.total
  have hpresent : ∀ f, ((varSets (afterElim s1).g (addFree s1).2).getD (addFree s1).2 []).contains f = true ↔
      Mentions (afterElim s1).g (addFree s1).2 f := by
    intro f
    rw [contains_iff_mem]
    exact mem_varSets_iff (afterElim s1).g (addFree s1).2 ρ2 wf3.edges rk3.acyc (addFree s1).2
      (postOrder_root _ _ hroot2) f
  -- phase 3b
  have H3 := wrapFold_dinv
    (fun t f => !(t.occurs.contains f) ||
      ((varSets (afterElim s1).g (addFree s1).2).getD (addFree s1).2 []).contains f)
    (fun f => !((afterElim s1).occurs.contains f) ||
      ((varSets (afterElim s1).g (addFree s1).2).getD (addFree s1).2 []).contains f)
    (afterElim s1) (addFree s1).2 (List.range (afterElim s1).total)
    (fun t ht f => by
      show (!(t.occurs.contains f) || _) = _
      rw [ht]) d3 hpos3 rd3 List.nodup_range
    (fun k hk => by have := List.mem_range.1 hk; omega)
    (fun f hm => by
      show (!((afterElim s1).occurs.contains f) || _) = true
      rw [(hpresent f).2 hm]; simp)
  rw [← addVanished_eq_fold] at H3
  obtain ⟨d3b, rd3b, w3b, m3b, _⟩ : DInv (st3 s1).1 ∧ RootD (st3 s1).1 (st3 s1).2 ∧
      WrapStep (afterElim s1) (addFree s1).2 (st3 s1).1 (st3 s1).2 ∧
      (∀ f', Mentions (st3 s1).1.g (st3 s1).2 f' ↔ Mentions (afterElim s1).g (addFree s1).2 f' ∨
        ∃ k ∈ List.range (afterElim s1).total,
          (!((afterElim s1).occurs.contains (k + 1)) ||
            ((varSets (afterElim s1).g (addFree s1).2).getD (addFree s1).2 []).contains (k + 1)) = false ∧
          f' = k + 1) ∧ _ := H3
  have hr3 : (addFree s1).2 = 0 ∨ ((addFree s1).2 < (afterElim s1).g.kind.size ∧
      (afterElim s1).g.kindOf (addFree s1).2 = some .and) := by
    rcases rd3 with e | h
    · exact Or.inl e
    · exact Or.inr ⟨h.1, h.2.1⟩
  have gd3b : GDet (st3 s1).1.g := gdet_wrapStep w3b d3b.b wf3 hr3 gd3
  have rh3 : RootHi (afterElim s1) ρ2 (addFree s1).2 := by
    rcases rh2 with e | h
    · exact Or.inl e
    · exact Or.inr ⟨by rw [hsz3]; exact h.1, h.2⟩
  obtain ⟨ρ3, rk3b, _, _⟩ := addVanished_rank (addFree s1).2 hpos3 rh3 rk3
  have rk3b' : RInv (st3 s1).1 ρ3 := rk3b
  have hroot3 : (st3 s1).2 < (st3 s1).1.g.kind.size := by
    rcases rd3b with e | h
    · rw [e]; exact Nat.lt_of_lt_of_le hpos3 w3b.size
    · exact h.1
  -- phase 4
  obtain ⟨d4, z4, _, m4, gsm4, tot4, gd4⟩ := smooth_dinv (st3 s1).1 (st3 s1).2 ρ3 d3b rk3b'.acyc gd3b hroot3
  obtain ⟨ρ4, rk4⟩ := smooth_rank true id (st3 s1).1 (st3 s1).2 ρ3 rk3b'
  have d4' : DInv (st4 true id s1) := d4
  have rk4' : RInv (st4 true id s1) ρ4 := rk4
  have hroot4 : (st3 s1).2 < (st4 true id s1).g.kind.size := Nat.lt_of_lt_of_le hroot3 z4
  refine ⟨ρ4, ⟨d4'.b.p.linv.wf.edges, rk4'.acyc⟩, hroot4, ?_, d4'.dec, gsm4, gd4, ?_, ?_⟩
  · intro x l hk e
    have := (d4'.b.litR x l hk).1
    rw [e] at this; simp at this
  · -- the variables of the root
    intro f
    have e4 : Mentions (st4 true id s1).g (st3 s1).2 f ↔ Mentions (st3 s1).1.g (st3 s1).2 f := m4 _ hroot3 f
    rw [e4, m3b f]
    constructor
    · rintro (h | ⟨k, hk, _, rfl⟩)
      · obtain ⟨y, l, hyl, e⟩ := h.leaf
        have := d3.b.litR y l hyl
        rw [htot3, e] at this
        exact this
      · have := List.mem_range.1 hk
        rw [htot3] at this
        omega
    · rintro ⟨h1, h2⟩
      by_cases hm : Mentions (afterElim s1).g (addFree s1).2 f
      · exact Or.inl hm
      · right
        have hpf : ((varSets (afterElim s1).g (addFree s1).2).getD (addFree s1).2 []).contains f = false := by
          cases hc : ((varSets (afterElim s1).g (addFree s1).2).getD (addFree s1).2 []).contains f with
          | false => rfl
          | true => exact absurd ((hpresent f).1 hc) hm
        have hocc : (afterElim s1).occurs = s1.occurs := w2.occurs
        refine ⟨f - 1, List.mem_range.2 (by rw [htot3]; omega), ?_, by omega⟩
        have e1 : f - 1 + 1 = f := by omega
        rw [e1, hpf, hocc]
        cases hc : s1.occurs.contains f with
        | true => rfl
        | false =>
          exfalso
          apply hm
          -- `f` is a free feature: its triangle hangs under the root since phase 2
          have hm2 : Mentions (addFree s1).1.g (addFree s1).2 f :=
            (m2 f).2 (Or.inr ⟨f - 1, List.mem_range.2 (by omega), by rw [e1]; exact hc, by omega⟩)
          have hne2 : (addFree s1).2 ≠ 0 :=
            nz2 ⟨f - 1, List.mem_range.2 (by omega), by rw [e1]; exact hc⟩
          have hk3 := halive hne2
          obtain ⟨_, c, hcm, hmc⟩ : _ ∧ ∃ c ∈ (addFree s1).1.g.outs.getD (addFree s1).2 [],
              Mentions (addFree s1).1.g c f := by
            rcases hm2.inv with ⟨l, hl, _⟩ | h
            · rcases rd2 with e | h'
              · exact absurd e hne2
              · rw [h'.2.1] at hl; cases hl
            · exact h
          rcases w2.rootOuts hne2 c hcm with ⟨h0, _⟩ | ⟨_, e0⟩ | ⟨e, he, ex⟩
          · exact absurd rfl h0
          · rw [e0, w2.ment 0 hpos (Or.inl rfl) f] at hmc
            obtain ⟨y, l, hyl, e⟩ := hmc.leaf
            have := hwf.litOcc y l hyl
            rw [e, hc] at this; cases this
          · have ht := d2.b.tri e he
            rw [ex] at ht
            have ef := (mentions_tri ht f).1 hmc
            rw [ef]
            exact elim_mentions_tri rel (Or.inl hk3) hcm ht
  · -- the root is satisfiable
    rcases pipeline_sem true id (fun _ _ h => h) s1 σ (sem σ s1.g r) hp htri hpos hnz
      (sem_model σ s1.g r hwf.acyclic) with herr | ⟨v4, c4, _, hv4⟩
    · rw [hok] at herr; cases herr
    · refine ⟨σ, ?_⟩
      rw [← c4.model.eq_sem ρ4 rk4'.acyc, hv4]; exact hσ

end Ddnnf.D4
