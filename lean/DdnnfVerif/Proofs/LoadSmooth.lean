/-
  Smoothing phase of the d4 loader (partial results for C01):
  * `varSets` satisfies its defining equation on every emitted node of an acyclic graph, and
    `v ∈ varSets x` iff a literal leaf of variable `v` is reachable from `x` through And/Or nodes;
  * `missing` lists, for every child of an Or node, exactly the variables mentioned by a sibling and
    not by the child; a child is left out iff it already mentions everything.  Hence `own ∪ missing`
    is the same set for every child: the variable set of the Or node.
-/
import DdnnfVerif.Proofs.LoadStruct

namespace Ddnnf.D4

/-! ### `varSets` -/

/-- the variable list `varSets` assigns to `x`, given the lists `vs` of the successors -/
def nodeV (g : G) (vs : Array (List Nat)) (x : Nat) : List Nat :=
  match g.kindOf x with
  | some (.lit l) => [l.natAbs]
  | some .and | some .or => (g.outs.getD x []).foldl (fun acc c => unionNat (vs.getD c []) acc) []
  | _ => []

theorem varSets_eq_foldl (g : G) (root : Nat) :
    varSets g root = (postOrder g root).foldl (fun vs x => vs.setIfInBounds x (nodeV g vs x))
      (Array.replicate g.kind.size []) := rfl

theorem mem_foldl_union (f : Nat → List Nat) (l : List Nat) (init : List Nat) (v : Nat) :
    v ∈ l.foldl (fun acc c => unionNat (f c) acc) init ↔ v ∈ init ∨ ∃ c ∈ l, v ∈ f c := by
  induction l generalizing init with
  | nil => simp
  | cons a l ih =>
    rw [List.foldl_cons, ih, mem_unionNat]
    constructor
    · rintro ((h | h) | ⟨c, hc, h⟩)
      · exact Or.inr ⟨a, List.mem_cons_self .., h⟩
      · exact Or.inl h
      · exact Or.inr ⟨c, List.mem_cons_of_mem _ hc, h⟩
    · rintro (h | ⟨c, hc, h⟩)
      · exact Or.inl (Or.inr h)
      · rcases List.mem_cons.1 hc with e | hc
        · subst e; exact Or.inl (Or.inl h)
        · exact Or.inr ⟨c, hc, h⟩

theorem foldl_union_congr (f f' : Nat → List Nat) (l : List Nat) (init : List Nat)
    (h : ∀ c ∈ l, f c = f' c) :
    l.foldl (fun acc c => unionNat (f c) acc) init = l.foldl (fun acc c => unionNat (f' c) acc) init := by
  induction l generalizing init with
  | nil => rfl
  | cons a l ih =>
    rw [List.foldl_cons, List.foldl_cons, h a (List.mem_cons_self ..)]
    exact ih _ (fun c hc => h c (List.mem_cons_of_mem _ hc))

/-- `nodeV` looks at `vs` only at the successors of `x` -/
theorem nodeV_congr (g : G) (vs vs' : Array (List Nat)) (x : Nat)
    (h : ∀ c ∈ g.outs.getD x [], vs.getD c [] = vs'.getD c []) : nodeV g vs x = nodeV g vs' x := by
  unfold nodeV
  split
  · rfl
  · exact foldl_union_congr _ _ _ _ h
  · exact foldl_union_congr _ _ _ _ h
  · rfl

theorem mem_nodeV (g : G) (vs : Array (List Nat)) (x v : Nat) :
    v ∈ nodeV g vs x ↔
      (∃ l, g.kindOf x = some (.lit l) ∧ v = l.natAbs) ∨
      ((g.kindOf x = some .and ∨ g.kindOf x = some .or) ∧ ∃ c ∈ g.outs.getD x [], v ∈ vs.getD c []) := by
  unfold nodeV
  split
  · rename_i l hk
    simp [hk]
  · rename_i hk
    rw [mem_foldl_union]; simp [hk]
  · rename_i hk
    rw [mem_foldl_union]; simp [hk]
  · rename_i h1 h2 h3
    constructor
    · intro h; cases h
    · rintro (⟨l, hk, _⟩ | ⟨hk | hk, _⟩)
      · exact absurd hk (h1 l)
      · exact absurd hk h2
      · exact absurd hk h3

theorem vfold_size (g : G) (l : List Nat) (a : Array (List Nat)) :
    (l.foldl (fun vs x => vs.setIfInBounds x (nodeV g vs x)) a).size = a.size := by
  induction l generalizing a with
  | nil => rfl
  | cons x l ih => rw [List.foldl_cons, ih, Array.size_setIfInBounds]

theorem vfold_getD_not_mem (g : G) (l : List Nat) (a : Array (List Nat)) (y : Nat) (hy : y ∉ l) :
    (l.foldl (fun vs x => vs.setIfInBounds x (nodeV g vs x)) a).getD y [] = a.getD y [] := by
  induction l generalizing a with
  | nil => rfl
  | cons x l ih =>
    rw [List.mem_cons, not_or] at hy
    rw [List.foldl_cons, ih _ hy.2, getD_setIfInBounds]
    have : ¬ (x = y ∧ y < a.size) := fun h => hy.1 h.1.symm
    rw [if_neg this]

/-- the fold behind `varSets`: on a duplicate-free order in which successors come first, the result
satisfies the defining equation at every listed node -/
theorem vfold_unfold (g : G) (order : List Nat) (a : Array (List Nat))
    (hnd : order.Nodup) (hlt : ∀ x ∈ order, x < a.size)
    (hcf : ∀ pre x post, order = pre ++ x :: post → ∀ c ∈ g.outs.getD x [], c ∈ pre)
    (x : Nat) (hx : x ∈ order) :
    (order.foldl (fun vs x => vs.setIfInBounds x (nodeV g vs x)) a).getD x [] =
      nodeV g (order.foldl (fun vs x => vs.setIfInBounds x (nodeV g vs x)) a) x := by
  obtain ⟨pre, post, e⟩ := List.append_of_mem hx
  have hch := hcf pre x post e
  subst e
  have hnd' := List.nodup_append.1 hnd
  have hnd2 := List.nodup_cons.1 hnd'.2.1
  have hxpost : x ∉ post := hnd2.1
  rw [List.foldl_append, List.foldl_cons]
  -- the value at `x` is written once
  have hxlt : x < (pre.foldl (fun vs x => vs.setIfInBounds x (nodeV g vs x)) a).size := by
    rw [vfold_size]; exact hlt x (by simp)
  rw [vfold_getD_not_mem g post _ x hxpost, getD_setIfInBounds, if_pos ⟨rfl, hxlt⟩]
  -- the successors are not written again
  apply nodeV_congr
  intro c hc
  have hcpre : c ∈ pre := hch c hc
  have hcn : c ∉ x :: post := fun hm => hnd'.2.2 c hcpre c hm rfl
  rw [List.mem_cons, not_or] at hcn
  rw [vfold_getD_not_mem g post _ c hcn.2, getD_setIfInBounds]
  have : ¬ (x = c ∧ c < (pre.foldl (fun vs x => vs.setIfInBounds x (nodeV g vs x)) a).size) :=
    fun h => hcn.1 h.1.symm
  rw [if_neg this]

/-- On an acyclic graph `varSets` satisfies its defining equation at every emitted node. -/
theorem varSets_unfold (g : G) (root : Nat) (r : Nat → Nat)
    (hwf : ∀ x, ∀ c ∈ g.outs.getD x [], c < g.kind.size)
    (hacyc : ∀ x, ∀ c ∈ g.outs.getD x [], r c < r x)
    (x : Nat) (hx : x ∈ postOrder g root) :
    (varSets g root).getD x [] = nodeV g (varSets g root) x := by
  rw [varSets_eq_foldl]
  exact vfold_unfold g _ _ (postOrder_nodup g root)
    (fun y hy => by simpa using postOrder_lt g root y hy)
    (postOrder_children_before g root r hwf hacyc) x hx

/-- `v` labels a literal leaf reachable from `x` through And/Or nodes -/
inductive Mentions (g : G) : Nat → Nat → Prop where
  | lit {x : Nat} {l : Int} : g.kindOf x = some (.lit l) → Mentions g x l.natAbs
  | inner {x c v : Nat} : (g.kindOf x = some .and ∨ g.kindOf x = some .or) → c ∈ g.outs.getD x [] →
      Mentions g c v → Mentions g x v

/-- the successors of an emitted node are emitted -/
theorem postOrder_succ_mem (g : G) (root : Nat) (r : Nat → Nat)
    (hwf : ∀ x, ∀ c ∈ g.outs.getD x [], c < g.kind.size)
    (hacyc : ∀ x, ∀ c ∈ g.outs.getD x [], r c < r x)
    (x : Nat) (hx : x ∈ postOrder g root) : ∀ c ∈ g.outs.getD x [], c ∈ postOrder g root := by
  intro c hc
  obtain ⟨pre, post, e, hm⟩ := postOrder_children_first g root r hwf hacyc x hx c hc
  rw [e]; exact List.mem_append_left _ hm

/-- On an acyclic graph `varSets` computes, for every emitted node, the variables of the literal
leaves below it. -/
theorem mem_varSets_iff (g : G) (root : Nat) (r : Nat → Nat)
    (hwf : ∀ x, ∀ c ∈ g.outs.getD x [], c < g.kind.size)
    (hacyc : ∀ x, ∀ c ∈ g.outs.getD x [], r c < r x)
    (x : Nat) (hx : x ∈ postOrder g root) (v : Nat) :
    v ∈ (varSets g root).getD x [] ↔ Mentions g x v := by
  constructor
  · -- by induction on the rank
    intro hv
    generalize hk : r x = k
    induction k using Nat.strongRecOn generalizing x with
    | _ k ih =>
      rw [varSets_unfold g root r hwf hacyc x hx, mem_nodeV] at hv
      rcases hv with ⟨l, hl, rfl⟩ | ⟨hkind, c, hc, hvc⟩
      · exact Mentions.lit hl
      · have hrc := hacyc x c hc
        exact Mentions.inner hkind hc
          (ih (r c) (by omega) c (postOrder_succ_mem g root r hwf hacyc x hx c hc) hvc rfl)
  · intro hm
    induction hm with
    | lit hl =>
      rw [varSets_unfold g root r hwf hacyc _ hx, mem_nodeV]
      exact Or.inl ⟨_, hl, rfl⟩
    | inner hkind hc _ ih =>
      rw [varSets_unfold g root r hwf hacyc _ hx, mem_nodeV]
      exact Or.inr ⟨hkind, _, hc, ih (postOrder_succ_mem g root r hwf hacyc _ hx _ hc)⟩

/-! ### `missing` -/

/-- the variables mentioned by a sibling of child `i` -/
theorem mem_others (cs : List (Nat × List Nat)) (i v : Nat) :
    v ∈ (List.range cs.length).foldl
        (fun acc j => if j == i then acc else unionNat (cs.getD j (0, [])).2 acc) [] ↔
      ∃ j, j < cs.length ∧ j ≠ i ∧ v ∈ (cs.getD j (0, [])).2 := by
  have gen : ∀ (l : List Nat) (init : List Nat),
      v ∈ l.foldl (fun acc j => if j == i then acc else unionNat (cs.getD j (0, [])).2 acc) init ↔
        v ∈ init ∨ ∃ j ∈ l, j ≠ i ∧ v ∈ (cs.getD j (0, [])).2 := by
    intro l
    induction l with
    | nil => intro init; simp
    | cons a l ih =>
      intro init
      rw [List.foldl_cons, ih]
      by_cases ha : a = i
      · subst ha
        simp
      · have : (a == i) = false := by simpa using ha
        simp only [this, Bool.false_eq_true, if_false, mem_unionNat]
        constructor
        · rintro ((h | h) | ⟨j, hj, hne, h⟩)
          · exact Or.inr ⟨a, List.mem_cons_self .., ha, h⟩
          · exact Or.inl h
          · exact Or.inr ⟨j, List.mem_cons_of_mem _ hj, hne, h⟩
        · rintro (h | ⟨j, hj, hne, h⟩)
          · exact Or.inl (Or.inr h)
          · rcases List.mem_cons.1 hj with e | hj
            · subst e; exact Or.inl (Or.inl h)
            · exact Or.inr ⟨j, hj, hne, h⟩
  rw [gen]
  simp [List.mem_range]

/-- the variables child `i` lacks -/
def missOf (cs : List (Nat × List Nat)) (i : Nat) : List Nat :=
  ((List.range cs.length).foldl
    (fun acc j => if j == i then acc else unionNat (cs.getD j (0, [])).2 acc) []).filter
    (fun v => !(cs.getD i (0, [])).2.contains v)

theorem mem_missOf (cs : List (Nat × List Nat)) (i v : Nat) :
    v ∈ missOf cs i ↔
      v ∉ (cs.getD i (0, [])).2 ∧ ∃ j, j < cs.length ∧ j ≠ i ∧ v ∈ (cs.getD j (0, [])).2 := by
  unfold missOf
  rw [List.mem_filter, mem_others]
  simp [and_comm]

/-- the entries of `missing`: one per child that lacks something, in child order -/
theorem missing_eq (cs : List (Nat × List Nat)) :
    missing cs = (List.range cs.length).filterMap fun i =>
      if (missOf cs i).isEmpty then none else some ((cs.getD i (0, [])).1, missOf cs i) := rfl

theorem mem_missing (cs : List (Nat × List Nat)) (w : Nat × List Nat) :
    w ∈ missing cs ↔
      ∃ i, i < cs.length ∧ missOf cs i ≠ [] ∧ w = ((cs.getD i (0, [])).1, missOf cs i) := by
  rw [missing_eq, List.mem_filterMap]
  constructor
  · rintro ⟨i, hi, h⟩
    split at h
    · cases h
    · rename_i hne
      refine ⟨i, List.mem_range.1 hi, ?_, ?_⟩
      · intro e; rw [e] at hne; exact hne rfl
      · cases h; rfl
  · rintro ⟨i, hi, hne, rfl⟩
    refine ⟨i, List.mem_range.2 hi, ?_⟩
    have : (missOf cs i).isEmpty = false := by
      cases h : missOf cs i with
      | nil => exact absurd h hne
      | cons _ _ => rfl
    simp [this]

/-- Every listed child together with its missing variables mentions exactly the variables of all
children: this is the variable set its replacement And node gets. -/
theorem missing_complete (cs : List (Nat × List Nat)) (i : Nat) (hi : i < cs.length) (v : Nat) :
    (v ∈ (cs.getD i (0, [])).2 ∨ v ∈ missOf cs i) ↔ ∃ j, j < cs.length ∧ v ∈ (cs.getD j (0, [])).2 := by
  rw [mem_missOf]
  constructor
  · rintro (h | ⟨_, j, hj, _, h⟩)
    · exact ⟨i, hi, h⟩
    · exact ⟨j, hj, h⟩
  · rintro ⟨j, hj, h⟩
    by_cases hv : v ∈ (cs.getD i (0, [])).2
    · exact Or.inl hv
    · refine Or.inr ⟨hv, j, hj, ?_, h⟩
      intro e; subst e; exact hv h

/-- A child that is not listed already mentions the variables of all children. -/
theorem missing_none (cs : List (Nat × List Nat)) (i : Nat) (hi : i < cs.length)
    (h : missOf cs i = []) (v : Nat) :
    v ∈ (cs.getD i (0, [])).2 ↔ ∃ j, j < cs.length ∧ v ∈ (cs.getD j (0, [])).2 := by
  rw [← missing_complete cs i hi v, h]
  simp

end Ddnnf.D4
