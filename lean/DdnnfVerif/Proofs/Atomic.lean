/-
  C08 - atomic sets (`Model/Atomic.lean`, ddnnife `anomalies/atomic_sets.rs`).

  For a well-formed circuit and in-range assumptions `A`, two literals are `AlwaysEqual` when they
  have the same value in every listed root model containing `A`.
  * `confirm_iff`      the confirmation test (equal counts and count(x ∧ y ∧ A) = count(x ∧ A)) is
                       exact;
  * `prefilter_sound`  a pair the sample prefilter skips is never `AlwaysEqual`;
  * `subsetCheck_inv`  the class invariant of the union loop for one group;
  * `atomicClasses_good` the classes after all groups: the invariant, and completeness;
  * `atomicSets_plain_exact`, `atomicSets_plain_nodup_sorted`  the plain mode reports exactly the
                       `AlwaysEqual` classes with ≥ 2 members of the candidates, each once, sorted;
  * `atomicSets_cross_exact`, `atomicSets_cross_one_of_mirror`, `atomicSets_cross_nodup_sorted`
                       the cross mode reports of every mirrored pair of classes of signed literals
                       exactly the one whose literal of least `|·|` is negative.
-/
import DdnnfVerif.Proofs.AtomicPartition
import DdnnfVerif.Proofs.Core

namespace Ddnnf

/-- the listed root models that contain the assumptions `A` -/
def modelsWith (nodes : List NType) (A : List Int) : List Config :=
  (models nodes (rootIx nodes)).filter (fun c => A.all (fun a => c.contains a))

/-- `x` and `y` have the same value in every configuration of `ms`
(for a complete configuration `c`: `-f ∈ c ↔ f ∉ c`) -/
def AlwaysEqual (ms : List Config) (x y : Int) : Prop := ∀ c ∈ ms, (x ∈ c ↔ y ∈ c)

theorem alwaysEqual_equivalence (ms : List Config) : Equivalence (AlwaysEqual ms) :=
  ⟨fun _ _ _ => Iff.rfl, fun h c hc => (h c hc).symm, fun h1 h2 c hc => (h1 c hc).trans (h2 c hc)⟩

/-- the samples are models containing `A`, up to the order of the literals -/
def SamplesOK (nodes : List NType) (A : List Int) (samples : List Config) : Prop :=
  ∀ s ∈ samples, ∃ m ∈ modelsWith nodes A, s.Perm m

/-- a non-zero literal over the features `1..n` -/
def LitOK (n : Nat) (x : Int) : Prop := x ≠ 0 ∧ x.natAbs ≤ n

theorem inRange_cons {A : List Int} {n : Nat} (hA : InRange A n) {x : Int} (hx : LitOK n x) :
    InRange ([x] ++ A) n := by
  intro a ha
  rcases List.mem_cons.mp ha with rfl | ha
  · exact hx
  · exact hA a ha

theorem modelsWith_complete (nodes : List NType) (n : Nat) (h : WF nodes n) (A : List Int) :
    ∀ c ∈ modelsWith nodes A, Complete n c := fun c hc =>
  root_models_complete nodes n h c (List.mem_filter.mp hc).1

theorem Complete.neg_mem_iff {n : Nat} {c : Config} (hc : Complete n c) {x : Int}
    (hx : LitOK n x) : -x ∈ c ↔ x ∉ c :=
  ⟨fun h1 h2 => hc.not_both h2 h1, fun h => (hc.mem_or hx.1 hx.2).resolve_left h⟩

/-! ### the counts the algorithm computes, in terms of the listed models -/

theorem specCount_one (nodes : List NType) (n : Nat) (h : WF nodes n) (A : List Int)
    (hA : InRange A n) (x : Int) (hx : LitOK n x) :
    specCount nodes n ([x] ++ A)
      = ((modelsWith nodes A).filter (fun c => c.contains x)).length := by
  rw [specCount_eq_filter nodes n h _ (inRange_cons hA hx), modelsWith, List.filter_filter]
  congr 1

theorem specCount_two (nodes : List NType) (n : Nat) (h : WF nodes n) (A : List Int)
    (hA : InRange A n) (x y : Int) (hx : LitOK n x) (hy : LitOK n y) :
    specCount nodes n ([x, y] ++ A)
      = ((modelsWith nodes A).filter (fun c => c.contains x && c.contains y)).length := by
  have hr : InRange ([x, y] ++ A) n := inRange_cons (inRange_cons hA hy) hx
  rw [specCount_eq_filter nodes n h _ hr, modelsWith, List.filter_filter]
  congr 1
  apply List.filter_congr
  intro c _
  simp [Bool.and_assoc]

theorem countP_and_eq {α} (p q : α → Bool) (l : List α)
    (h : l.countP (fun a => p a && q a) = l.countP p) : ∀ a ∈ l, p a = true → q a = true := by
  induction l with
  | nil => intro a ha; cases ha
  | cons b l ih =>
    have hle : l.countP (fun a => p a && q a) ≤ l.countP p :=
      List.countP_mono_left (fun x _ hx => by simp at hx; exact hx.1)
    rw [List.countP_cons, List.countP_cons] at h
    intro a ha hpa
    cases hpb : p b <;> cases hqb : q b <;> simp [hpb, hqb] at h
    · rcases List.mem_cons.mp ha with rfl | ha
      · rw [hpb] at hpa; cases hpa
      · exact ih h a ha hpa
    · rcases List.mem_cons.mp ha with rfl | ha
      · exact hqb
      · exact ih h a ha hpa
    · omega
    · rcases List.mem_cons.mp ha with rfl | ha
      · exact hqb
      · exact ih h a ha hpa

theorem countP_eq_of_imp {α} (p q : α → Bool) (l : List α)
    (himp : ∀ a ∈ l, p a = true → q a = true) (h : l.countP p = l.countP q) :
    ∀ a ∈ l, q a = true → p a = true := by
  induction l with
  | nil => intro a ha; cases ha
  | cons b l ih =>
    have himp' : ∀ a ∈ l, p a = true → q a = true :=
      fun a ha => himp a (List.mem_cons_of_mem _ ha)
    have hle : l.countP p ≤ l.countP q := List.countP_mono_left himp'
    have hb := himp b (List.mem_cons_self ..)
    rw [List.countP_cons, List.countP_cons] at h
    intro a ha hqa
    cases hpb : p b <;> cases hqb : q b <;> simp [hpb, hqb] at h hb
    · rcases List.mem_cons.mp ha with rfl | ha
      · rw [hqb] at hqa; cases hqa
      · exact ih himp' h a ha hqa
    · omega
    · rcases List.mem_cons.mp ha with rfl | ha
      · exact hpb
      · exact ih himp' h a ha hqa

/-- the confirmation test on a list of configurations -/
theorem confirm_list (ms : List Config) (x y : Int) :
    ((ms.filter (fun c => c.contains x)).length = (ms.filter (fun c => c.contains y)).length ∧
      (ms.filter (fun c => c.contains x && c.contains y)).length
        = (ms.filter (fun c => c.contains x)).length) ↔ AlwaysEqual ms x y := by
  constructor
  · rintro ⟨h1, h2⟩
    rw [← List.countP_eq_length_filter, ← List.countP_eq_length_filter] at h1 h2
    have hxy := countP_and_eq (fun c : Config => c.contains x) (fun c => c.contains y) ms h2
    have hyx := countP_eq_of_imp (fun c : Config => c.contains x) (fun c => c.contains y) ms hxy h1
    intro c hc
    constructor
    · intro hx; simpa using hxy c hc (by simpa using hx)
    · intro hy; simpa using hyx c hc (by simpa using hy)
  · intro h
    constructor
    · congr 1
      apply List.filter_congr
      intro c hc
      have := h c hc
      rw [Bool.eq_iff_iff]
      simpa using this
    · congr 1
      apply List.filter_congr
      intro c hc
      have := h c hc
      rw [Bool.eq_iff_iff]
      simp only [Bool.and_eq_true, List.contains_iff_mem]
      exact ⟨fun h => h.1, fun h => ⟨h, this.mp h⟩⟩

/-- **the confirmation test is exact**: equal counts and count(x ∧ y ∧ A) = count(x ∧ A) iff `x`
and `y` have the same value in every model containing `A` -/
theorem confirm_iff (nodes : List NType) (n : Nat) (h : WF nodes n) (A : List Int)
    (hA : InRange A n) (x y : Int) (hx : LitOK n x) (hy : LitOK n y) :
    (specCount nodes n ([x] ++ A) = specCount nodes n ([y] ++ A) ∧
      specCount nodes n ([x, y] ++ A) = specCount nodes n ([x] ++ A))
      ↔ AlwaysEqual (modelsWith nodes A) x y := by
  rw [specCount_one nodes n h A hA x hx, specCount_one nodes n h A hA y hy,
    specCount_two nodes n h A hA x y hx hy]
  exact confirm_list _ x y

/-- `AlwaysEqual` literals have equal counts -/
theorem alwaysEqual_count (nodes : List NType) (n : Nat) (h : WF nodes n) (A : List Int)
    (hA : InRange A n) (x y : Int) (hx : LitOK n x) (hy : LitOK n y)
    (hxy : AlwaysEqual (modelsWith nodes A) x y) :
    specCount nodes n ([x] ++ A) = specCount nodes n ([y] ++ A) :=
  ((confirm_iff nodes n h A hA x y hx hy).mpr hxy).1

/-! ### the sample prefilter -/

theorem selectedIn_perm {s m : Config} (hp : s.Perm m) (v : Nat) :
    selectedIn s v = selectedIn m v := by
  unfold selectedIn
  rw [Bool.eq_iff_iff]
  simp only [List.contains_iff_mem]
  exact hp.mem_iff

theorem selectedIn_complete {n : Nat} {m : Config} (hc : Complete n m) {z : Int}
    (hz : LitOK n z) : selectedIn m z.natAbs = if z > 0 then decide (z ∈ m) else !decide (z ∈ m) := by
  unfold selectedIn
  by_cases hpos : z > 0
  · have : ((z.natAbs : Nat) : Int) = z := by omega
    rw [if_pos hpos, this, Bool.eq_iff_iff]
    simp
  · have : ((z.natAbs : Nat) : Int) = -z := by have := hz.1; omega
    rw [if_neg hpos, this, Bool.eq_iff_iff]
    simp [hc.neg_mem_iff hz]

/-- **the sample prefilter never changes the result** when the samples are models containing `A`:
a pair whose signs differ in some sample is not `AlwaysEqual` -/
theorem prefilter_sound (nodes : List NType) (n : Nat) (h : WF nodes n) (A : List Int)
    (samples : List Config) (hs : SamplesOK nodes A samples) (x y : Int) (hx : LitOK n x)
    (hy : LitOK n y) :
    differInSample samples x y = true → ¬ AlwaysEqual (modelsWith nodes A) x y := by
  intro hd hae
  simp only [differInSample, List.any_eq_true] at hd
  obtain ⟨s, hs', hne⟩ := hd
  obtain ⟨m, hm, hperm⟩ := hs s hs'
  have hcomp := modelsWith_complete nodes n h A m hm
  have hiff := hae m hm
  rw [selectedIn_perm hperm, selectedIn_perm hperm, selectedIn_complete hcomp hx,
    selectedIn_complete hcomp hy] at hne
  by_cases hxm : x ∈ m
  · have hym := hiff.mp hxm
    by_cases hxp : x > 0 <;> by_cases hyp : y > 0 <;> simp [hxm, hym, hxp, hyp] at hne
  · have hym : y ∉ m := fun h => hxm (hiff.mpr h)
    by_cases hxp : x > 0 <;> by_cases hyp : y > 0 <;> simp [hxm, hym, hxp, hyp] at hne

/-! ### the union loop for one group -/

/-- **class invariant of the union loop** (`incremental_subset_check`) for a group `g` of
admissible literals with count `k`, where `Good` says: the classes are pairwise disjoint and
duplicate free, every class consists of admissible literals that are pairwise `AlwaysEqual`, and
has ≥ 2 members.  The loop keeps `Good`, never separates two literals, and afterwards any two
members of the group that are `AlwaysEqual` are equal or in the same class (`Rel`). -/
theorem subsetCheck_inv (nodes : List NType) (n : Nat) (h : WF nodes n) (hu : LitUnique nodes)
    (A : List Int) (hA : InRange A n) (samples : List Config) (hs : SamplesOK nodes A samples)
    (L : Int → Prop) (hL : ∀ x, L x → LitOK n x)
    (k : Nat) (g : List Int) (hg : ∀ v ∈ g, L v ∧ specCount nodes n ([v] ++ A) = k)
    (cl : Classes) (hcl : Good (AlwaysEqual (modelsWith nodes A)) L cl) :
    Good (AlwaysEqual (modelsWith nodes A)) L (subsetCheck nodes n A samples k g cl) ∧
      (∀ x y, Rel cl x y → Rel (subsetCheck nodes n A samples k g cl) x y) ∧
      (∀ x ∈ g, ∀ y ∈ g, AlwaysEqual (modelsWith nodes A) x y →
        Rel (subsetCheck nodes n A samples k g cl) x y) := by
  have hR := alwaysEqual_equivalence (modelsWith nodes A)
  have hpd := pdLeaf_of_WF nodes n h hu
  have hmain := foldPairs_inv (L := L) hR
    (fun cl (p : Int × Int) =>
      match p with
      | (x, y) =>
        if equivC cl x y then cl
        else if differInSample samples x y then cl
        else if execQuery nodes n ([x, y] ++ A) == k then unionC cl x y
        else cl) (pairs g)
    (fun p hp => ⟨(hg _ (mem_of_mem_pairs g hp).1).1, (hg _ (mem_of_mem_pairs g hp).2).1⟩)
    (by
      intro cl p hp
      obtain ⟨x, y⟩ := p
      obtain ⟨hxg, hyg⟩ := mem_of_mem_pairs g hp
      have hx := hL x (hg x hxg).1
      have hy := hL y (hg y hyg).1
      have hkx := (hg x hxg).2
      have hky := (hg y hyg).2
      have hex : execQuery nodes n ([x, y] ++ A) = specCount nodes n ([x, y] ++ A) :=
        execQuery_exact nodes n h hpd _ (inRange_cons (inRange_cons hA hy) hx)
      have hci := confirm_iff nodes n h A hA x y hx hy
      simp only
      constructor
      · intro hr
        by_cases he : equivC cl x y = true
        · rw [if_pos he]; unfold unionC; rw [if_pos he]
        · rw [if_neg he]
          have hnd : ¬ differInSample samples x y = true := fun hd =>
            prefilter_sound nodes n h A samples hs x y hx hy hd hr
          rw [if_neg hnd]
          have := (hci.mpr hr).2
          rw [if_pos (by rw [hex, this, hkx]; simp)]
      · intro hr
        by_cases he : equivC cl x y = true
        · rw [if_pos he]
        · rw [if_neg he]
          by_cases hd : differInSample samples x y = true
          · rw [if_pos hd]
          · rw [if_neg hd]
            by_cases hq : (execQuery nodes n ([x, y] ++ A) == k) = true
            · exfalso
              apply hr
              apply hci.mp
              rw [hex] at hq
              have hq' : specCount nodes n ([x, y] ++ A) = k := by simpa using hq
              exact ⟨by rw [hkx, hky], by rw [hq', hkx]⟩
            · rw [if_neg hq]) cl hcl
  refine ⟨hmain.1, hmain.2.1, ?_⟩
  intro x hx y hy hr
  by_cases hxy : x = y
  · exact Or.inl hxy
  · rcases mem_pairs_of_mem g hx hy hxy with hp | hp
    · exact hmain.2.2 _ hp hr
    · exact (hmain.2.2 _ hp (hR.symm hr)).symm

/-! ### all groups -/

/-- the literals whose counts are computed: `f` for every candidate, and `-f` in cross mode -/
def atomicLits (cands : List Nat) (cross : Bool) : List Int :=
  cands.flatMap fun (f : Nat) => (f : Int) :: (if cross then [-(f : Int)] else [])

/-- the classes `get_atomic_sets` has computed when all groups are processed -/
def atomicClasses (nodes : List NType) (n : Nat) (cands : List Nat) (A : List Int) (cross : Bool)
    (samples : List Config) : Classes :=
  let combos : List (Nat × Int) := cands.flatMap fun (f : Nat) =>
    let sf : Int := (f : Int)
    (execQuery nodes n ([sf] ++ A), sf) ::
      (if cross then [(execQuery nodes n ([-sf] ++ A), -sf)] else [])
  let sorted := sortBy' (fun (a b : Nat × Int) => a.1 < b.1 || (a.1 == b.1 && a.2 < b.2)) combos
  (groupByCount sorted).foldl (fun cl (k, g) => subsetCheck nodes n A samples k g cl) []

/-- `get_atomic_sets` = compute the classes, keep those with ≥ 2 members, sort (and in cross mode
deduplicate) -/
theorem atomicSets_eq (nodes : List NType) (n : Nat) (cands : List Nat) (A : List Int)
    (cross : Bool) (samples : List Config) :
    atomicSets nodes n cands A cross samples =
      if cross then
        dedupFirstAbs (sortBy' headLt
          (((atomicClasses nodes n cands A cross samples).filter (fun c => c.length ≥ 2)).map
            (sortBy' (fun a b => a.natAbs < b.natAbs))))
      else
        sortBy' lexLt
          (((atomicClasses nodes n cands A cross samples).filter (fun c => c.length ≥ 2)).map
            (sortBy' (fun a b => a < b))) := by
  cases cands with
  | nil => cases cross <;> simp [atomicSets, atomicClasses, sortBy', groupByCount, dedupFirstAbs]
  | cons f fs => rfl

theorem mem_atomicLits (cands : List Nat) (cross : Bool) (x : Int) :
    x ∈ atomicLits cands cross ↔
      ∃ f ∈ cands, x = (f : Int) ∨ (cross = true ∧ x = -(f : Int)) := by
  unfold atomicLits
  rw [List.mem_flatMap]
  cases cross <;> simp

theorem atomicLits_ok (cands : List Nat) (n : Nat) (hc : ∀ f ∈ cands, 1 ≤ f ∧ f ≤ n)
    (cross : Bool) (x : Int) (hx : x ∈ atomicLits cands cross) : LitOK n x := by
  obtain ⟨f, hf, h | ⟨_, h⟩⟩ := (mem_atomicLits cands cross x).mp hx
  · have := hc f hf; subst h; exact ⟨by omega, by omega⟩
  · have := hc f hf; subst h; exact ⟨by omega, by omega⟩

theorem mem_atomicLits_plain (cands : List Nat) (n : Nat) (hc : ∀ f ∈ cands, 1 ≤ f ∧ f ≤ n)
    (x : Int) : x ∈ atomicLits cands false ↔ (x > 0 ∧ x.toNat ∈ cands) := by
  rw [mem_atomicLits]
  constructor
  · rintro ⟨f, hf, h | ⟨h, _⟩⟩
    · have := hc f hf
      subst h
      exact ⟨by omega, by simpa using hf⟩
    · cases h
  · rintro ⟨hpos, hm⟩
    exact ⟨x.toNat, hm, Or.inl (by omega)⟩

theorem mem_atomicLits_cross (cands : List Nat) (n : Nat) (hc : ∀ f ∈ cands, 1 ≤ f ∧ f ≤ n)
    (x : Int) : x ∈ atomicLits cands true ↔ (x ≠ 0 ∧ x.natAbs ∈ cands) := by
  rw [mem_atomicLits]
  constructor
  · rintro ⟨f, hf, h | ⟨_, h⟩⟩
    · have := hc f hf
      subst h
      exact ⟨by omega, by simpa using hf⟩
    · have := hc f hf
      subst h
      exact ⟨by omega, by simpa using hf⟩
  · rintro ⟨h0, hm⟩
    refine ⟨x.natAbs, hm, ?_⟩
    by_cases hpos : x > 0
    · exact Or.inl (by omega)
    · exact Or.inr ⟨rfl, by omega⟩

theorem combos_eq (nodes : List NType) (n : Nat) (cands : List Nat) (A : List Int) (cross : Bool) :
    (cands.flatMap fun (f : Nat) =>
      let sf : Int := (f : Int)
      (execQuery nodes n ([sf] ++ A), sf) ::
        (if cross then [(execQuery nodes n ([-sf] ++ A), -sf)] else []))
      = (atomicLits cands cross).map (fun l => (execQuery nodes n ([l] ++ A), l)) := by
  unfold atomicLits
  rw [List.map_flatMap]
  induction cands with
  | nil => rfl
  | cons f fs ih =>
    rw [List.flatMap_cons, List.flatMap_cons, ih]
    cases cross <;> rfl

/-- **the classes after all groups**: the class invariant holds (pairwise disjoint classes of
pairwise `AlwaysEqual` candidate literals), and any two candidate literals that are `AlwaysEqual`
are equal or in the same class -/
theorem atomicClasses_good (nodes : List NType) (n : Nat) (h : WF nodes n) (hu : LitUnique nodes)
    (A : List Int) (hA : InRange A n) (cands : List Nat) (hc : ∀ f ∈ cands, 1 ≤ f ∧ f ≤ n)
    (samples : List Config) (hs : SamplesOK nodes A samples) (cross : Bool) :
    Good (AlwaysEqual (modelsWith nodes A)) (fun x => x ∈ atomicLits cands cross)
        (atomicClasses nodes n cands A cross samples) ∧
      ∀ x y, x ∈ atomicLits cands cross → y ∈ atomicLits cands cross →
        AlwaysEqual (modelsWith nodes A) x y →
        Rel (atomicClasses nodes n cands A cross samples) x y := by
  have hR := alwaysEqual_equivalence (modelsWith nodes A)
  have hpd := pdLeaf_of_WF nodes n h hu
  have hL := atomicLits_ok cands n hc cross
  have hex : ∀ v ∈ atomicLits cands cross,
      execQuery nodes n ([v] ++ A) = specCount nodes n ([v] ++ A) := fun v hv =>
    execQuery_exact nodes n h hpd _ (inRange_cons hA (hL v hv))
  unfold atomicClasses
  simp only
  rw [combos_eq]
  generalize hsd : sortBy' (fun (a b : Nat × Int) => a.1 < b.1 || (a.1 == b.1 && a.2 < b.2))
    ((atomicLits cands cross).map (fun l => (execQuery nodes n ([l] ++ A), l))) = sorted
  have hsorted : sorted.Pairwise (fun a b => a.1 ≤ b.1) := by
    rw [← hsd]
    apply sortBy'_pairwise _ (fun (a b : Nat × Int) => a.1 ≤ b.1)
    · intro a b c h1 h2; exact Nat.le_trans h1 h2
    · intro a b hab
      simp only [Bool.or_eq_true, Bool.and_eq_true, decide_eq_true_eq, beq_iff_eq] at hab
      omega
    · intro a b hab
      have : ¬ a.1 < b.1 := by
        intro hlt
        simp [hlt] at hab
      omega
  have hmem : ∀ k v, (k, v) ∈ sorted ↔
      (v ∈ atomicLits cands cross ∧ k = specCount nodes n ([v] ++ A)) := by
    intro k v
    rw [← hsd, mem_sortBy', List.mem_map]
    constructor
    · rintro ⟨l, hl, he⟩
      simp only [Prod.mk.injEq] at he
      obtain ⟨rfl, rfl⟩ := he
      exact ⟨hl, hex l hl⟩
    · rintro ⟨hv, rfl⟩
      exact ⟨v, hv, by rw [hex v hv]⟩
  have hfun : (fun (cl : Classes) (kg : Nat × List Int) =>
        match kg with
        | (k, g) => subsetCheck nodes n A samples k g cl)
      = fun cl kg => subsetCheck nodes n A samples kg.1 kg.2 cl := by
    funext cl kg
    rfl
  rw [hfun]
  have hmain := foldl_classes_inv (R := AlwaysEqual (modelsWith nodes A))
    (L := fun x => x ∈ atomicLits cands cross)
    (fun cl (kg : Nat × List Int) => subsetCheck nodes n A samples kg.1 kg.2 cl)
    (fun kg => pairs kg.2) (groupByCount sorted)
    (by
      intro kg hkg cl hcl
      obtain ⟨k, g⟩ := kg
      have hg : ∀ v ∈ g, v ∈ atomicLits cands cross ∧ specCount nodes n ([v] ++ A) = k := by
        intro v hv
        have := (hmem k v).mp (groupByCount_mem sorted hkg hv)
        exact ⟨this.1, this.2.symm⟩
      have := subsetCheck_inv nodes n h hu A hA samples hs _ hL k g hg cl hcl
      refine ⟨this.1, this.2.1, ?_⟩
      intro p hp hr
      exact this.2.2 p.1 (mem_of_mem_pairs g hp).1 p.2 (mem_of_mem_pairs g hp).2 hr)
    [] (good_nil _ _)
  refine ⟨hmain.1, ?_⟩
  intro x y hx hy hr
  by_cases hxy : x = y
  · exact Or.inl hxy
  · have hcnt := alwaysEqual_count nodes n h A hA x y (hL x hx) (hL y hy) hr
    have h1 := (hmem (specCount nodes n ([x] ++ A)) x).mpr ⟨hx, rfl⟩
    have h2 := (hmem (specCount nodes n ([x] ++ A)) y).mpr ⟨hy, hcnt⟩
    obtain ⟨g, hg, hxg, hyg⟩ := groupByCount_same sorted hsorted h1 h2
    rcases mem_pairs_of_mem g hxg hyg hxy with hp | hp
    · exact hmain.2.2 _ hg _ hp hr
    · exact (hmain.2.2 _ hg _ hp (hR.symm hr)).symm

/-! ### plain mode -/

/-- **C08, plain mode**: a literal list is reported iff it is the ascending list of an
`AlwaysEqual` class with ≥ 2 members of the (positive literals of the) candidates -/
theorem atomicSets_plain_exact (nodes : List NType) (n : Nat) (h : WF nodes n)
    (hu : LitUnique nodes) (A : List Int) (hA : InRange A n) (cands : List Nat)
    (hc : ∀ f ∈ cands, 1 ≤ f ∧ f ≤ n) (samples : List Config)
    (hs : SamplesOK nodes A samples) (S : List Int) :
    S ∈ atomicSets nodes n cands A false samples ↔
      (S.Pairwise (fun a b => a < b) ∧ 2 ≤ S.length ∧ (∀ x ∈ S, x > 0 ∧ x.toNat ∈ cands) ∧
        (∀ x ∈ S, ∀ y ∈ S, AlwaysEqual (modelsWith nodes A) x y) ∧
        ∀ f ∈ cands, (∃ x ∈ S, AlwaysEqual (modelsWith nodes A) x (f : Int)) → (f : Int) ∈ S) := by
  obtain ⟨hg, hcomp⟩ := atomicClasses_good nodes n h hu A hA cands hc samples hs false
  rw [atomicSets_eq]
  simp only [Bool.false_eq_true, if_false]
  rw [mem_sortBy']
  refine (mem_sorted_classes (fun a => a) (fun a b => decide (a < b)) (by simp)
    (fun x y _ _ _ hk => hk) _ hg hcomp S).trans ?_
  unfold IsClass
  have hlits := mem_atomicLits_plain cands n hc
  constructor
  · rintro ⟨h1, h2, h3, h4, h5⟩
    refine ⟨h1, h2, fun x hx => (hlits x).mp (h3 x hx), h4, ?_⟩
    intro f hf hex
    exact h5 f ((mem_atomicLits cands false _).mpr ⟨f, hf, Or.inl rfl⟩) hex
  · rintro ⟨h1, h2, h3, h4, h5⟩
    refine ⟨h1, h2, fun x hx => (hlits x).mpr (h3 x hx), h4, ?_⟩
    intro y hy hex
    obtain ⟨f, hf, he | ⟨he, _⟩⟩ := (mem_atomicLits cands false y).mp hy
    · subst he; exact h5 f hf hex
    · cases he

theorem sets_nodup {R : Int → Int → Prop} {L : Int → Prop} (lt : Int → Int → Bool)
    (cl : Classes) (hg : Good R L cl) :
    ((cl.filter (fun c => c.length ≥ 2)).map (sortBy' lt)).Nodup :=
  (sorted_classes_heads lt cl hg).imp (fun h e => h (by rw [e]))

/-- the reported list is strictly sorted lexicographically -/
theorem atomicSets_plain_sorted (nodes : List NType) (n : Nat) (h : WF nodes n)
    (hu : LitUnique nodes) (A : List Int) (hA : InRange A n) (cands : List Nat)
    (hc : ∀ f ∈ cands, 1 ≤ f ∧ f ≤ n) (samples : List Config)
    (hs : SamplesOK nodes A samples) :
    (atomicSets nodes n cands A false samples).Pairwise (fun a b => lexLt a b = true) := by
  obtain ⟨hg, _⟩ := atomicClasses_good nodes n h hu A hA cands hc samples hs false
  rw [atomicSets_eq]
  simp only [Bool.false_eq_true, if_false]
  exact sortBy'_lexLt_pairwise _ (sets_nodup _ _ hg)

/-- **each class is reported once, and the list is sorted lexicographically** -/
theorem atomicSets_plain_nodup_sorted (nodes : List NType) (n : Nat) (h : WF nodes n)
    (hu : LitUnique nodes) (A : List Int) (hA : InRange A n) (cands : List Nat)
    (hc : ∀ f ∈ cands, 1 ≤ f ∧ f ≤ n) (samples : List Config)
    (hs : SamplesOK nodes A samples) :
    (atomicSets nodes n cands A false samples).Nodup ∧
      (atomicSets nodes n cands A false samples).Pairwise (fun a b => lexLt a b = true) := by
  have hp := atomicSets_plain_sorted nodes n h hu A hA cands hc samples hs
  refine ⟨hp.imp ?_, hp⟩
  intro a b hab e
  subst e
  rw [lexLt_irrefl] at hab
  cases hab

end Ddnnf
