/-
  C08 - atomic sets, cross mode (`get_atomic_sets(candidates, assumptions, cross = true)`): the
  classes range over the signed literals `±f` of the candidates.  With satisfiable assumptions the
  mirror image (all members negated) of a class is a different class; the clean-up
  (`sort_and_clean_atomicsets`: members sorted by `|·|`, sets sorted by `(|first|, first)`,
  deduplicated by `|first|`) reports of the two exactly the one whose literal of least `|·|` is
  negative.
-/
import DdnnfVerif.Proofs.Atomic

namespace Ddnnf

/-! ### `dedupFirstAbs` returns a sublist, strictly sorted by `|first|` -/

theorem dedupFirstAbs_sublist : ∀ (m : Nat) (l : List (List Int)), l.length = m →
    (dedupFirstAbs l).Sublist l := by
  intro m
  induction m using Nat.strongRecOn with
  | _ m ih =>
    intro l hlen
    match l, hlen with
    | [], _ => simp [dedupFirstAbs]
    | [a], _ => simp [dedupFirstAbs]
    | a :: b :: rest, hlen =>
      rw [dedupFirstAbs_cons_cons]
      by_cases he : ((a.headD 0).natAbs == (b.headD 0).natAbs) = true
      · rw [if_pos he]
        exact (ih (a :: rest).length (by simp at hlen ⊢; omega) (a :: rest) rfl).trans
          ((List.Sublist.cons b (List.Sublist.refl rest)).cons_cons a)
      · rw [if_neg he]
        exact (ih (b :: rest).length (by simp at hlen ⊢; omega) (b :: rest) rfl).cons_cons a

theorem dedupFirstAbs_pairwise (l : List (List Int))
    (hs : l.Pairwise (fun a b => headLt a b = true)) :
    (dedupFirstAbs l).Pairwise (fun a b => (a.headD 0).natAbs < (b.headD 0).natAbs) := by
  have hsub := dedupFirstAbs_sublist _ l rfl
  apply (hs.sublist hsub).imp_of_mem
  intro a b ha hb hab
  rcases (headLt_iff a b).mp hab with h | ⟨h1, h2⟩
  · exact h
  · exact absurd h2 (((mem_dedupFirstAbs _ l rfl hs b).mp hb).2 a (hsub.subset ha) h1)

/-! ### the classes of signed literals -/

/-- `S` lists, in the order of `|·|`, an `AlwaysEqual` class with ≥ 2 members of the signed
literals `±f`, `f ∈ cands` -/
def IsCrossClass (nodes : List NType) (A : List Int) (cands : List Nat) (S : List Int) : Prop :=
  S.Pairwise (fun a b => a.natAbs < b.natAbs) ∧ 2 ≤ S.length ∧
    (∀ x ∈ S, x ≠ 0 ∧ x.natAbs ∈ cands) ∧
    (∀ x ∈ S, ∀ y ∈ S, AlwaysEqual (modelsWith nodes A) x y) ∧
    ∀ y, y ≠ 0 → y.natAbs ∈ cands → (∃ x ∈ S, AlwaysEqual (modelsWith nodes A) x y) → y ∈ S

theorem isCrossClass_iff (nodes : List NType) (n : Nat) (A : List Int) (cands : List Nat)
    (hc : ∀ f ∈ cands, 1 ≤ f ∧ f ≤ n) (S : List Int) :
    IsCrossClass nodes A cands S ↔
      IsClass (AlwaysEqual (modelsWith nodes A)) (fun x => x ∈ atomicLits cands true)
        (fun a => (a.natAbs : Int)) S := by
  have hl := mem_atomicLits_cross cands n hc
  unfold IsCrossClass IsClass
  constructor
  · rintro ⟨h1, h2, h3, h4, h5⟩
    exact ⟨h1.imp (fun h => by simp only; omega), h2, fun x hx => (hl x).mpr (h3 x hx), h4,
      fun y hy hex => h5 y ((hl y).mp hy).1 ((hl y).mp hy).2 hex⟩
  · rintro ⟨h1, h2, h3, h4, h5⟩
    exact ⟨h1.imp (fun h => by simp only at h; omega), h2, fun x hx => (hl x).mp (h3 x hx), h4,
      fun y hy0 hy hex => h5 y ((hl y).mpr ⟨hy0, hy⟩) hex⟩

theorem alwaysEqual_neg (nodes : List NType) (n : Nat) (h : WF nodes n) (A : List Int)
    (x y : Int) (hx : LitOK n x) (hy : LitOK n y)
    (hxy : AlwaysEqual (modelsWith nodes A) x y) : AlwaysEqual (modelsWith nodes A) (-x) (-y) := by
  intro c hc
  have hcomp := modelsWith_complete nodes n h A c hc
  rw [hcomp.neg_mem_iff hx, hcomp.neg_mem_iff hy]
  exact not_congr (hxy c hc)

/-- with satisfiable assumptions a literal and its complement are not `AlwaysEqual` -/
theorem not_alwaysEqual_neg (nodes : List NType) (n : Nat) (h : WF nodes n) (A : List Int)
    (hA : InRange A n) (hsat : 0 < specCount nodes n A) (x : Int) (hx : LitOK n x) :
    ¬ AlwaysEqual (modelsWith nodes A) x (-x) := by
  intro hae
  have hlen : 0 < (modelsWith nodes A).length := by
    rw [specCount_eq_filter nodes n h A hA] at hsat
    exact hsat
  obtain ⟨m, hm⟩ := List.exists_mem_of_length_pos hlen
  have hcomp := modelsWith_complete nodes n h A m hm
  have h1 := hae m hm
  rw [hcomp.neg_mem_iff hx] at h1
  by_cases hxm : x ∈ m
  · exact h1.mp hxm hxm
  · exact hxm (h1.mpr hxm)

/-- the mirror image of a class is a class -/
theorem isCrossClass_mirror (nodes : List NType) (n : Nat) (h : WF nodes n) (A : List Int)
    (cands : List Nat) (hc : ∀ f ∈ cands, 1 ≤ f ∧ f ≤ n) (S : List Int)
    (hS : IsCrossClass nodes A cands S) : IsCrossClass nodes A cands (S.map (fun a => -a)) := by
  have hl := mem_atomicLits_cross cands n hc
  have hL := atomicLits_ok cands n hc true
  rw [isCrossClass_iff nodes n A cands hc] at hS ⊢
  apply isClass_neg _ _ S hS
  · intro x hx
    rw [hl] at hx ⊢
    exact ⟨by omega, by simpa using hx.2⟩
  · intro x y hx hy hxy
    exact alwaysEqual_neg nodes n h A x y (hL x hx) (hL y hy) hxy

/-! ### C08, cross mode -/

/-- **C08, cross mode**: a literal list is reported iff it is the list (in the order of `|·|`) of
an `AlwaysEqual` class with ≥ 2 members of the signed literals `±f` of the candidates whose first
literal is negative -/
theorem atomicSets_cross_exact (nodes : List NType) (n : Nat) (h : WF nodes n)
    (hu : LitUnique nodes) (A : List Int) (hA : InRange A n) (hsat : 0 < specCount nodes n A)
    (cands : List Nat) (hc : ∀ f ∈ cands, 1 ≤ f ∧ f ≤ n) (samples : List Config)
    (hs : SamplesOK nodes A samples) (S : List Int) :
    S ∈ atomicSets nodes n cands A true samples ↔
      (IsCrossClass nodes A cands S ∧ S.headD 0 < 0) := by
  obtain ⟨hg, hcomp⟩ := atomicClasses_good nodes n h hu A hA cands hc samples hs true
  have hl := mem_atomicLits_cross cands n hc
  have hL := atomicLits_ok cands n hc true
  rw [atomicSets_eq, isCrossClass_iff nodes n A cands hc]
  simp only [if_true]
  refine mem_cross_out (L := fun x => x ∈ atomicLits cands true) ?_ ?_ ?_ ?_
    (fun a b => decide (a.natAbs < b.natAbs)) (by simp) _ hg hcomp S
  · intro h0
    exact (hL 0 h0).1 rfl
  · intro x hx
    rw [hl] at hx ⊢
    exact ⟨by omega, by simpa using hx.2⟩
  · intro x y hx hy hxy
    exact alwaysEqual_neg nodes n h A x y (hL x hx) (hL y hy) hxy
  · intro x hx
    exact not_alwaysEqual_neg nodes n h A hA hsat x (hL x hx)

/-- **of every class with ≥ 2 members and its mirror image exactly one is reported** -/
theorem atomicSets_cross_one_of_mirror (nodes : List NType) (n : Nat) (h : WF nodes n)
    (hu : LitUnique nodes) (A : List Int) (hA : InRange A n) (hsat : 0 < specCount nodes n A)
    (cands : List Nat) (hc : ∀ f ∈ cands, 1 ≤ f ∧ f ≤ n) (samples : List Config)
    (hs : SamplesOK nodes A samples) (C : List Int) (hC : IsCrossClass nodes A cands C) :
    (C ∈ atomicSets nodes n cands A true samples ∧
        C.map (fun a => -a) ∉ atomicSets nodes n cands A true samples) ∨
      (C ∉ atomicSets nodes n cands A true samples ∧
        C.map (fun a => -a) ∈ atomicSets nodes n cands A true samples) := by
  have hM := isCrossClass_mirror nodes n h A cands hc C hC
  rw [atomicSets_cross_exact nodes n h hu A hA hsat cands hc samples hs,
    atomicSets_cross_exact nodes n h hu A hA hsat cands hc samples hs]
  have hx := isClass_head_neg_xor (L := fun x => x ∈ atomicLits cands true)
    (fun h0 => (atomicLits_ok cands n hc true 0 h0).1 rfl) C
    ((isCrossClass_iff nodes n A cands hc C).mp hC)
  rcases hx with ⟨h1, h2⟩ | ⟨h1, h2⟩
  · exact Or.inl ⟨⟨hC, h1⟩, fun hm => h2 hm.2⟩
  · exact Or.inr ⟨fun hm => h1 hm.2, ⟨hM, h2⟩⟩

/-- the reported list is strictly sorted by `|first literal|`; in particular no set is reported
twice -/
theorem atomicSets_cross_nodup_sorted (nodes : List NType) (n : Nat) (h : WF nodes n)
    (hu : LitUnique nodes) (A : List Int) (hA : InRange A n) (cands : List Nat)
    (hc : ∀ f ∈ cands, 1 ≤ f ∧ f ≤ n) (samples : List Config)
    (hs : SamplesOK nodes A samples) :
    (atomicSets nodes n cands A true samples).Nodup ∧
      (atomicSets nodes n cands A true samples).Pairwise
        (fun a b => (a.headD 0).natAbs < (b.headD 0).natAbs) := by
  obtain ⟨hg, _⟩ := atomicClasses_good nodes n h hu A hA cands hc samples hs true
  rw [atomicSets_eq]
  simp only [if_true]
  have hp := dedupFirstAbs_pairwise _
    (sortBy'_headLt_pairwise _ (sorted_classes_heads (fun a b => decide (a.natAbs < b.natAbs)) _ hg))
  refine ⟨hp.imp ?_, hp⟩
  intro a b hab e
  subst e
  omega

end Ddnnf
