/-
  List and arithmetic lemmas behind the paged enumeration (`Proofs/Enum.lean`):
  prefixes of `flatMap`s with blocks of bounded size, ceilings of quotients, and the ordered
  product `prodConfigs` (neutral factor `[[]]`, prefixes).
-/
import DdnnfVerif.Proofs.Semantics

namespace Ddnnf

/-! ### prefixes of a `flatMap` -/

/-- with blocks of size at least `b`, the first `m` elements of a `flatMap` only depend on the
first `k` outer elements when `k * b ≥ m` -/
theorem take_flatMap_blocks {α β} (f : α → List β) (b : Nat) (P : List α)
    (hb : ∀ x ∈ P, b ≤ (f x).length) (k m : Nat) (hkm : m ≤ k * b) :
    (P.flatMap f).take m = ((P.take k).flatMap f).take m := by
  induction P generalizing k m with
  | nil => simp
  | cons x P ih =>
    cases k with
    | zero =>
      have : m = 0 := by omega
      subst this; simp
    | succ k =>
      simp only [List.take_succ_cons, List.flatMap_cons, List.take_append]
      congr 1
      apply ih (fun y hy => hb y (List.mem_cons_of_mem _ hy))
      have h1 := hb x (List.mem_cons_self ..)
      rw [Nat.succ_mul] at hkm
      omega

/-! ### ceilings -/

/-- `⌈x / c⌉ * c ≥ x` -/
theorem le_ceil_mul (x c : Nat) (hc : 1 ≤ c) : x ≤ (x + c - 1) / c * c := by
  have h1 := Nat.div_add_mod (x + c - 1) c
  have h2 := Nat.mod_lt (x + c - 1) (show c > 0 by omega)
  rw [Nat.mul_comm] at h1
  omega

/-- nested ceiling: `⌈⌈r / a⌉ / c⌉ = ⌈r / (a * c)⌉` -/
theorem ceil_div_div (r a c : Nat) (ha : 1 ≤ a) (hc : 1 ≤ c) :
    ((r + a - 1) / a + c - 1) / c = (r + a * c - 1) / (a * c) := by
  have hac : 1 ≤ a * c := Nat.mul_le_mul ha hc
  cases r with
  | zero =>
    have e1 : (0 + a - 1) / a = 0 := Nat.div_eq_of_lt (by omega)
    have e2 : (0 + c - 1) / c = 0 := Nat.div_eq_of_lt (by omega)
    have e3 : (0 + a * c - 1) / (a * c) = 0 := Nat.div_eq_of_lt (by omega)
    rw [e1, e2, e3]
  | succ r =>
    have e1 : (r + 1 + a - 1) / a = r / a + 1 := by
      rw [show r + 1 + a - 1 = r + a by omega]; exact Nat.add_div_right _ (by omega)
    have e2 : (r / a + 1 + c - 1) / c = r / a / c + 1 := by
      generalize r / a = q
      rw [show q + 1 + c - 1 = q + c by omega]; exact Nat.add_div_right _ (by omega)
    have e3 : (r + 1 + a * c - 1) / (a * c) = r / (a * c) + 1 := by
      rw [show r + 1 + a * c - 1 = r + a * c by omega]; exact Nat.add_div_right _ (by omega)
    rw [e1, e2, e3, Nat.div_div_eq_div_mul]

/-- `⌈r / a⌉ ≤ r` for `a ≥ 1` -/
theorem ceil_le_self (r a : Nat) (ha : 1 ≤ a) : (r + a - 1) / a ≤ r := by
  have : (r + a - 1) / a < r + 1 := by
    rw [Nat.div_lt_iff_lt_mul (by omega), Nat.succ_mul]
    have : r ≤ r * a := Nat.le_mul_of_pos_right r (by omega)
    omega
  omega

/-- `⌈r / a⌉ ≤ 1` for `a ≥ r` -/
theorem ceil_le_one (r a : Nat) (ha : 1 ≤ a) (hra : r ≤ a) : (r + a - 1) / a ≤ 1 := by
  have : (r + a - 1) / a < 2 := by
    rw [Nat.div_lt_iff_lt_mul (by omega)]
    omega
  omega

/-! ### the ordered product -/

/-- a factor `[[]]` (the model list of a `True` node) does not change the product -/
theorem prodConfigs_unit (rest : List (List Config)) : prodConfigs ([[]] :: rest) = prodConfigs rest := by
  simp only [prodConfigs, List.map_cons, List.map_nil, List.append_nil]
  generalize prodConfigs rest = P
  induction P with
  | nil => rfl
  | cons p ps ih => simp only [List.flatMap_cons, ih]; rfl

/-- `prodConfigs` is invariant under removing `[[]]` factors -/
theorem prodConfigs_filter_unit (ls : List (List Config)) :
    prodConfigs (ls.filter (fun l => l != [[]])) = prodConfigs ls := by
  induction ls with
  | nil => rfl
  | cons l rest ih =>
    by_cases h : l = [[]]
    · subst h
      rw [List.filter_cons_of_neg (by simp), ih, prodConfigs_unit]
    · rw [List.filter_cons_of_pos (by simpa using h)]
      simp only [prodConfigs, ih]

/-- the step of the and-node argument: the outer lists `X`, `Y` agree on their first `K` elements,
the fast list `L` is truncated to `ch` elements on the left; the first `N` elements of the two
products agree if `N ≤ K * ch` and either nothing was cut off or everything lies in the first
block -/
theorem take_flatMap_prefix (X Y : List Config) (L : List Config) (ch N K : Nat)
    (hXY : X.take K = Y.take K) (hch : ch ≤ L.length) (hN : N ≤ K * ch)
    (hcase : ch = L.length ∨ N ≤ ch) :
    (X.flatMap (fun tl => (L.take ch).map (fun hd => tl ++ hd))).take N
      = (Y.flatMap (fun tl => L.map (fun hd => tl ++ hd))).take N := by
  rw [take_flatMap_blocks _ ch X (by intro x _; simp; omega) K N hN,
    take_flatMap_blocks _ ch Y (by intro x _; simp; omega) K N hN, hXY]
  rcases hcase with h | h
  · rw [h, List.take_length]
  · generalize Y.take K = Z
    cases Z with
    | nil => rfl
    | cons z Z =>
      simp only [List.flatMap_cons, List.take_append, List.length_map, List.length_take]
      have z1 : N - min ch L.length = 0 := by omega
      have z2 : N - L.length = 0 := by omega
      rw [z1, z2, List.take_zero, List.take_zero, List.append_nil, List.append_nil,
        ← List.map_take, ← List.map_take, List.take_take]
      congr 2
      omega

end Ddnnf
