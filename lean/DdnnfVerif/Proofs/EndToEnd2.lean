/-
  End to end for d4 input, part 2: text -> loader model -> query for the remaining query kinds
  (enumeration C06, sampling C07, atomic sets C08, CNF export C19, best / top-k configurations C20).

  Every corollary is the property theorem at `nodes := (load lines total).2.1`, `n := (load lines total).1`;
  all hypotheses about the node array are obtained from `h : conventions2B lines total = true`
  (`1 ≤ n` where `C06.EnumOK` is needed, `2 ≤ n` where `C19.CnfOK` is needed — both bounds are necessary,
  `enumOK_needs_feature` / `cnfOK_needs_two_features`), and model counts are written as `textCount`.
-/
import DdnnfVerif.Proofs.EndToEnd
import DdnnfVerif.Proofs.LoadOK3
import DdnnfVerif.Props.C06
import DdnnfVerif.Props.C07
import DdnnfVerif.Props.C08
import DdnnfVerif.Props.C19
import DdnnfVerif.Props.C20
namespace Ddnnf.D4

/-! ### C06 enumeration -/

/-- **text → loader → the list a request pages through** (`C06.page_source_is_model_set`): complete
configurations that are models containing the assumptions, pairwise distinct, as many as the text has
models under the assumptions -/
theorem loaded_page_source (lines : List Line) (total : Nat) (h : conventions2B lines total = true)
    (key : List Int) (hA : InRange key (load lines total).1) :
    (∀ c ∈ enumList (load lines total).2.1 key,
        c ∈ models (load lines total).2.1 (rootIx (load lines total).2.1) ∧
          Complete (load lines total).1 c ∧ ∀ a ∈ key, a ∈ c)
    ∧ (enumList (load lines total).2.1 key).Nodup
    ∧ (enumList (load lines total).2.1 key).length = textCount lines total key := by
  obtain ⟨hwf, hu, _⟩ := conventions2B_sound lines total h
  rw [← specCount_eq_textCount lines total (conventions2B_left lines total h)]
  exact C06.page_source_is_model_set _ _ hwf hu key hA

/-- **text → loader → `enumerate` reports 'unsatisfiable'** (`C06.none_iff_unsat`) exactly when the text
has no model under the assumptions -/
theorem loaded_enum_none_iff_unsat (lines : List Line) (total : Nat)
    (h : conventions2B lines total = true) (cur : Cursor) (A : List Int) (k : Nat) (hk : 0 < k)
    (hA : InRange (sortAbs A) (load lines total).1)
    (hin : ∀ f ∈ A, f.natAbs ≤ (load lines total).1) :
    (enumerate (load lines total).2.1 (load lines total).1 cur A k).2 = none ↔
      textCount lines total (sortAbs A) = 0 := by
  obtain ⟨hwf, hu, _⟩ := conventions2B_sound lines total h
  rw [C06.none_iff_unsat _ _ hwf hu cur A k hk hA hin,
    specCount_eq_textCount lines total (conventions2B_left lines total h)]

/-- **text → loader → any history of enumeration requests** (`C06.paging_history`): on a freshly loaded
model with at least one feature, the requests for a satisfiable in-range `key` are answered with the
successive pages of `enumList _ key` (`loaded_page_source`), however they are interleaved with requests
for other assumption sets -/
theorem loaded_paging_history (lines : List Line) (total : Nat) (h : conventions2B lines total = true)
    (hn : 1 ≤ (load lines total).1)
    (key : List Int) (hA : InRange key (load lines total).1) (hsat : 0 < textCount lines total key)
    (reqs : List (List Int × Nat)) (hk : ∀ q ∈ reqs, sortAbs q.1 = key → 0 < q.2) :
    answersFor (load lines total).2.1 (load lines total).1 key [] reqs
        = (servePages (enumList (load lines total).2.1 key) 0 (amountsFor key reqs)).map some
      ∧ (runCursor (load lines total).2.1 (load lines total).1 [] reqs).get key
        = finalPos (enumList (load lines total).2.1 key) 0 (amountsFor key reqs) := by
  rw [← loaded_execQuery lines total h key hA] at hsat
  exact C06.paging_history _ _ (conventions2B_enumOK lines total h hn) key (fun f hf => (hA f hf).2)
    hsat reqs hk

/-- **text → loader → one cycle of pages** (`C06.one_cycle_is_a_partition`): the pages are pairwise
disjoint and together are the list of `loaded_page_source` -/
theorem loaded_one_cycle_is_a_partition (lines : List Line) (total : Nat)
    (h : conventions2B lines total = true) (key : List Int)
    (ks : List Nat) (hk : ∀ k ∈ ks, 0 < k) (hround : OneRound (enumList (load lines total).2.1 key) 0 ks) :
    (servePages (enumList (load lines total).2.1 key) 0 ks).flatten = enumList (load lines total).2.1 key ∧
      (servePages (enumList (load lines total).2.1 key) 0 ks).Pairwise (fun p q => ∀ x ∈ p, x ∉ q) :=
  C06.one_cycle_is_a_partition _ _ (conventions2B_sound lines total h).1 key ks hk hround

/-- `C06.page_size` for the list of a loaded model: a page holds min(k, models of the text under `key`
not yet returned in this cycle) configurations -/
theorem loaded_page_size (lines : List Line) (total : Nat) (h : conventions2B lines total = true)
    (key : List Int) (hA : InRange key (load lines total).1) (pos k : Nat) :
    (page (enumList (load lines total).2.1 key) pos k).length = min k (textCount lines total key - pos) := by
  rw [C06.page_size, (loaded_page_source lines total h key hA).2.2]

/-- `C06.next_position` for the list of a loaded model -/
theorem loaded_next_position (lines : List Line) (total : Nat) (h : conventions2B lines total = true)
    (key : List Int) (hA : InRange key (load lines total).1) (pos k : Nat) :
    nextPos (enumList (load lines total).2.1 key) pos k =
      if pos + k < textCount lines total key then pos + k else 0 := by
  rw [C06.next_position, (loaded_page_source lines total h key hA).2.2]

/-! ### C07 uniform random sampling -/

/-- the root of a loaded model with at least one feature is not `True` -/
theorem loaded_root_ne_tru (lines : List Line) (total : Nat) (h : conventions2B lines total = true)
    (hn : 1 ≤ (load lines total).1) : (load lines total).2.1.getLast? ≠ some .tru :=
  (conventions2B_enumOK lines total h hn).root

/-- **text → loader → samples** (`C07.samples_are_k_models_containing_A`): exactly `amount` samples, each
(up to the order of its literals) one of the models containing `A`, whatever the random source does -/
theorem loaded_samples_are_k_models_containing_A (lines : List Line) (total : Nat)
    (h : conventions2B lines total = true) (hn : 1 ≤ (load lines total).1)
    (A : List Int) (amount : Nat) (evs : List SEv) (samples : List Config)
    (hA : InRange A (load lines total).1)
    (hs : sampleAlong (load lines total).2.1 (load lines total).1 A amount evs = some (some samples)) :
    samples.length = amount ∧
      ∀ c ∈ samples, ∃ m ∈ modelsA (load lines total).2.1 (A.map (fun f => -f))
        (rootIx (load lines total).2.1), c.Perm m := by
  obtain ⟨hwf, hu, _⟩ := conventions2B_sound lines total h
  exact C07.samples_are_k_models_containing_A _ _ A amount evs samples hwf hu hA
    (loaded_root_ne_tru lines total h hn) hs

/-- **text → loader → what the samples range over** (`C07.samples_range_over_complete_models`, the same
list as `C20.candidates_are_models_containing_A`): complete configurations, pairwise distinct, as many as
the text has models under `A` -/
theorem loaded_models_containing_A (lines : List Line) (total : Nat)
    (h : conventions2B lines total = true) (A : List Int) (hA : InRange A (load lines total).1) :
    (∀ c ∈ modelsA (load lines total).2.1 (A.map (fun f => -f)) (rootIx (load lines total).2.1),
        c ∈ models (load lines total).2.1 (rootIx (load lines total).2.1) ∧
          Complete (load lines total).1 c ∧ ∀ a ∈ A, a ∈ c)
    ∧ (modelsA (load lines total).2.1 (A.map (fun f => -f)) (rootIx (load lines total).2.1)).Nodup
    ∧ (modelsA (load lines total).2.1 (A.map (fun f => -f)) (rootIx (load lines total).2.1)).length
        = textCount lines total A := by
  obtain ⟨hwf, hu, _⟩ := conventions2B_sound lines total h
  rw [← specCount_eq_textCount lines total (conventions2B_left lines total h)]
  exact C07.samples_range_over_complete_models _ _ hwf hu A hA

/-- **text → loader → the sampler reports 'unsatisfiable'** (`C07.none_iff_unsat`) exactly when the text
has no model under `A` -/
theorem loaded_sample_none_iff_unsat (lines : List Line) (total : Nat)
    (h : conventions2B lines total = true) (A : List Int) (hA : InRange A (load lines total).1)
    (amount : Nat) (evs : List SEv) :
    sampleAlong (load lines total).2.1 (load lines total).1 A amount evs = some none ↔
      textCount lines total A = 0 := by
  obtain ⟨hwf, hu, _⟩ := conventions2B_sound lines total h
  rw [C07.none_iff_unsat _ _ hwf hu A hA amount evs,
    specCount_eq_textCount lines total (conventions2B_left lines total h)]

/-! ### C08 atomic sets -/

/-- **text → loader → atomic sets, plain mode** (`C08.plain_report_is_exactly_the_classes`) -/
theorem loaded_plain_report_is_exactly_the_classes (lines : List Line) (total : Nat)
    (h : conventions2B lines total = true) (A : List Int) (hA : InRange A (load lines total).1)
    (cands : List Nat) (hc : ∀ f ∈ cands, 1 ≤ f ∧ f ≤ (load lines total).1) (samples : List Config)
    (hs : SamplesOK (load lines total).2.1 A samples) (S : List Int) :
    S ∈ atomicSets (load lines total).2.1 (load lines total).1 cands A false samples ↔
      (S.Pairwise (fun a b => a < b) ∧ 2 ≤ S.length ∧ (∀ x ∈ S, x > 0 ∧ x.toNat ∈ cands) ∧
        (∀ x ∈ S, ∀ y ∈ S, AlwaysEqual (modelsWith (load lines total).2.1 A) x y) ∧
        ∀ f ∈ cands, (∃ x ∈ S, AlwaysEqual (modelsWith (load lines total).2.1 A) x (f : Int)) →
          (f : Int) ∈ S) := by
  obtain ⟨hwf, hu, _⟩ := conventions2B_sound lines total h
  exact C08.plain_report_is_exactly_the_classes _ _ hwf hu A hA cands hc samples hs S

/-- (`C08.plain_report_lists_each_class_once`) -/
theorem loaded_plain_report_lists_each_class_once (lines : List Line) (total : Nat)
    (h : conventions2B lines total = true) (A : List Int) (hA : InRange A (load lines total).1)
    (cands : List Nat) (hc : ∀ f ∈ cands, 1 ≤ f ∧ f ≤ (load lines total).1) (samples : List Config)
    (hs : SamplesOK (load lines total).2.1 A samples) :
    (atomicSets (load lines total).2.1 (load lines total).1 cands A false samples).Nodup ∧
      (atomicSets (load lines total).2.1 (load lines total).1 cands A false samples).Pairwise
        (fun a b => lexLt a b = true) := by
  obtain ⟨hwf, hu, _⟩ := conventions2B_sound lines total h
  exact C08.plain_report_lists_each_class_once _ _ hwf hu A hA cands hc samples hs

/-- **text → loader → atomic sets, cross mode** (`C08.cross_report_is_exactly_the_classes`); the
assumptions have to be satisfiable for the text -/
theorem loaded_cross_report_is_exactly_the_classes (lines : List Line) (total : Nat)
    (h : conventions2B lines total = true) (A : List Int) (hA : InRange A (load lines total).1)
    (hsat : 0 < textCount lines total A)
    (cands : List Nat) (hc : ∀ f ∈ cands, 1 ≤ f ∧ f ≤ (load lines total).1) (samples : List Config)
    (hs : SamplesOK (load lines total).2.1 A samples) (S : List Int) :
    S ∈ atomicSets (load lines total).2.1 (load lines total).1 cands A true samples ↔
      (IsCrossClass (load lines total).2.1 A cands S ∧ S.headD 0 < 0) := by
  obtain ⟨hwf, hu, _⟩ := conventions2B_sound lines total h
  rw [← specCount_eq_textCount lines total (conventions2B_left lines total h)] at hsat
  exact C08.cross_report_is_exactly_the_classes _ _ hwf hu A hA hsat cands hc samples hs S

/-- (`C08.cross_report_once_up_to_negation`) -/
theorem loaded_cross_report_once_up_to_negation (lines : List Line) (total : Nat)
    (h : conventions2B lines total = true) (A : List Int) (hA : InRange A (load lines total).1)
    (hsat : 0 < textCount lines total A)
    (cands : List Nat) (hc : ∀ f ∈ cands, 1 ≤ f ∧ f ≤ (load lines total).1) (samples : List Config)
    (hs : SamplesOK (load lines total).2.1 A samples) (C : List Int)
    (hC : IsCrossClass (load lines total).2.1 A cands C) :
    (C ∈ atomicSets (load lines total).2.1 (load lines total).1 cands A true samples ∧
        C.map (fun a => -a) ∉ atomicSets (load lines total).2.1 (load lines total).1 cands A true samples) ∨
      (C ∉ atomicSets (load lines total).2.1 (load lines total).1 cands A true samples ∧
        C.map (fun a => -a) ∈ atomicSets (load lines total).2.1 (load lines total).1 cands A true samples) := by
  obtain ⟨hwf, hu, _⟩ := conventions2B_sound lines total h
  rw [← specCount_eq_textCount lines total (conventions2B_left lines total h)] at hsat
  exact C08.cross_report_once_up_to_negation _ _ hwf hu A hA hsat cands hc samples hs C hC

/-- (`C08.cross_report_lists_each_class_once`) -/
theorem loaded_cross_report_lists_each_class_once (lines : List Line) (total : Nat)
    (h : conventions2B lines total = true) (A : List Int) (hA : InRange A (load lines total).1)
    (cands : List Nat) (hc : ∀ f ∈ cands, 1 ≤ f ∧ f ≤ (load lines total).1) (samples : List Config)
    (hs : SamplesOK (load lines total).2.1 A samples) :
    (atomicSets (load lines total).2.1 (load lines total).1 cands A true samples).Nodup ∧
      (atomicSets (load lines total).2.1 (load lines total).1 cands A true samples).Pairwise
        (fun a b => (a.headD 0).natAbs < (b.headD 0).natAbs) := by
  obtain ⟨hwf, hu, _⟩ := conventions2B_sound lines total h
  exact C08.cross_report_lists_each_class_once _ _ hwf hu A hA cands hc samples hs

/-- the hypothesis `SamplesOK` of the atomic-set corollaries holds for whatever the sampler returns on a
loaded model with at least one feature (`C08.prefilter_samples_are_admissible`) -/
theorem loaded_prefilter_samples_are_admissible (lines : List Line) (total : Nat)
    (h : conventions2B lines total = true) (hn : 1 ≤ (load lines total).1)
    (A : List Int) (amount : Nat) (evs : List SEv) (samples : List Config)
    (hA : InRange A (load lines total).1)
    (hs : sampleAlong (load lines total).2.1 (load lines total).1 A amount evs = some (some samples)) :
    SamplesOK (load lines total).2.1 A samples := by
  obtain ⟨hwf, hu, _⟩ := conventions2B_sound lines total h
  exact C08.prefilter_samples_are_admissible _ _ A amount evs samples hwf hu hA
    (loaded_root_ne_tru lines total h hn) hs

/-- the transcription with the real union-find reports what the class model reports
(`C08.union_find_refines_the_class_model`) -/
theorem loaded_union_find_refines_the_class_model (lines : List Line) (total : Nat)
    (h : conventions2B lines total = true) (A : List Int) (hA : InRange A (load lines total).1)
    (cands : List Nat) (hc : ∀ f ∈ cands, 1 ≤ f ∧ f ≤ (load lines total).1) (samples : List Config)
    (hs : SamplesOK (load lines total).2.1 A samples)
    (cross : Bool) (hsat : cross = true → 0 < textCount lines total A) :
    UF.atomicSetsUF (load lines total).2.1 (load lines total).1 cands A cross samples =
      atomicSets (load lines total).2.1 (load lines total).1 cands A cross samples := by
  obtain ⟨hwf, hu, _⟩ := conventions2B_sound lines total h
  rw [← specCount_eq_textCount lines total (conventions2B_left lines total h)] at hsat
  exact C08.union_find_refines_the_class_model _ _ hwf hu A hA cands hc samples hs cross hsat

/-! ### C19 CNF export -/

/-- **text → loader → CNF export** (`C19.cnf_is_equicountable`): the exported CNF has, over its declared
variables 1..T, as many models as the text has over the features 1..n -/
theorem loaded_cnf_is_equicountable (lines : List Line) (total : Nat)
    (h : conventions2B lines total = true) (hn : 2 ≤ (load lines total).1) :
    ((allBits ((tseitin (load lines total).2.1 (load lines total).1).next - 1)).filter
        (fun b => satCnf (assignOf b) (toCnf (load lines total).2.1 (load lines total).1).2)).length
      = textCount lines total [] := by
  rw [C19.cnf_is_equicountable _ _ (conventions2B_sound lines total h).1
    (conventions2B_cnfOK lines total h hn), loaded_count lines total h]

/-- (`C19.cnf_models_project_to_models`) every model of the exported CNF makes the text true -/
theorem loaded_cnf_models_project_to_models (lines : List Line) (total : Nat)
    (h : conventions2B lines total = true) (hn : 2 ≤ (load lines total).1)
    (τ : Assignment) (hτ : satCnf τ (toCnf (load lines total).2.1 (load lines total).1).2 = true) :
    evalB τ (phase1B lines total).g ((phase1B lines total).g.kind.size + 1) 0 = true := by
  rw [← conventions_eval lines total (conventions2B_left lines total h) τ]
  exact C19.cnf_models_project_to_models _ _ (conventions2B_sound lines total h).1.topo
    (conventions2B_cnfOK lines total h hn) τ hτ

/-- (`C19.every_model_has_exactly_one_extension`) every assignment that makes the text true is extended
to a model of the exported CNF in exactly one way -/
theorem loaded_every_model_has_exactly_one_extension (lines : List Line) (total : Nat)
    (h : conventions2B lines total = true) (hn : 2 ≤ (load lines total).1)
    (σ : Assignment)
    (hσ : evalB σ (phase1B lines total).g ((phase1B lines total).g.kind.size + 1) 0 = true) :
    satCnf (extend σ (tseitin (load lines total).2.1 (load lines total).1).biconds)
        (toCnf (load lines total).2.1 (load lines total).1).2 = true
    ∧ ∀ τ : Assignment, (∀ v, 1 ≤ v → v ≤ (load lines total).1 → τ v = σ v) →
        satCnf τ (toCnf (load lines total).2.1 (load lines total).1).2 = true →
        ∀ v, (load lines total).1 < v →
          v ≤ (tseitin (load lines total).2.1 (load lines total).1).next - 1 →
          τ v = extend σ (tseitin (load lines total).2.1 (load lines total).1).biconds v := by
  rw [← conventions_eval lines total (conventions2B_left lines total h) σ] at hσ
  exact C19.every_model_has_exactly_one_extension _ _ (conventions2B_sound lines total h).1.topo
    (conventions2B_cnfOK lines total h hn) σ hσ

/-- (`C19.header_declares_what_the_cnf_contains`) -/
theorem loaded_header_declares_what_the_cnf_contains (lines : List Line) (total : Nat)
    (h : conventions2B lines total = true) (hn : 2 ≤ (load lines total).1) :
    (toCnf (load lines total).2.1 (load lines total).1).1
        = (tseitin (load lines total).2.1 (load lines total).1).next - 1
    ∧ (∀ v, 1 ≤ v → v ≤ (tseitin (load lines total).2.1 (load lines total).1).next - 1 →
        ∃ c ∈ (toCnf (load lines total).2.1 (load lines total).1).2, ∃ l ∈ c, l.natAbs = v)
    ∧ (∀ c ∈ (toCnf (load lines total).2.1 (load lines total).1).2, ∀ l ∈ c,
        1 ≤ l.natAbs ∧ l.natAbs ≤ (tseitin (load lines total).2.1 (load lines total).1).next - 1) :=
  C19.header_declares_what_the_cnf_contains _ _ (conventions2B_sound lines total h).1
    (conventions2B_cnfOK lines total h hn)

/-! ### C20 best / top-k configurations

The candidates are `modelsA _ (A.map (-·)) root`; what this list is for a loaded model is
`loaded_models_containing_A` above (= `C20.candidates_are_models_containing_A`). -/

/-- **text → loader → best configuration** (`C20.best_none_iff_unsat`): nothing is returned exactly when
the text has no model under `A` -/
theorem loaded_best_none_iff_unsat (lines : List Line) (total : Nat)
    (h : conventions2B lines total = true) (vals : Nat → Int) (A : List Int)
    (hA : InRange A (load lines total).1) :
    bestConfig (load lines total).2.1 vals A = none ↔ textCount lines total A = 0 := by
  rw [C20.best_none_iff_unsat, ← (loaded_models_containing_A lines total h A hA).2.2,
    List.length_eq_zero_iff]

/-- (`C20.best_is_optimal_model`; the candidate list is described by `loaded_models_containing_A`) -/
theorem loaded_best_is_optimal_model (lines : List Line) (total : Nat) (vals : Nat → Int) (A : List Int)
    (o : OC) (hb : bestConfig (load lines total).2.1 vals A = some o) :
    (o.value = cfgValue vals o.cfg ∧
        ∃ m ∈ modelsA (load lines total).2.1 (A.map (fun f => -f)) (rootIx (load lines total).2.1),
          o.cfg.Perm m)
    ∧ ∀ m ∈ modelsA (load lines total).2.1 (A.map (fun f => -f)) (rootIx (load lines total).2.1),
        cfgValue vals m ≤ o.value :=
  C20.best_is_optimal_model _ vals A o hb

/-- the best configuration of a loaded model is a complete configuration that is a model containing `A`,
up to the order of its literals (`C20.best_is_optimal_model` + `loaded_models_containing_A`) -/
theorem loaded_best_is_complete_model (lines : List Line) (total : Nat)
    (h : conventions2B lines total = true) (vals : Nat → Int) (A : List Int)
    (hA : InRange A (load lines total).1)
    (o : OC) (hb : bestConfig (load lines total).2.1 vals A = some o) :
    ∃ m, o.cfg.Perm m ∧ m ∈ models (load lines total).2.1 (rootIx (load lines total).2.1) ∧
      Complete (load lines total).1 m ∧ (∀ a ∈ A, a ∈ m) ∧ o.value = cfgValue vals o.cfg := by
  obtain ⟨⟨hv, m, hm, hp⟩, _⟩ := C20.best_is_optimal_model _ vals A o hb
  obtain ⟨h1, h2, h3⟩ := (loaded_models_containing_A lines total h A hA).1 m hm
  exact ⟨m, hp, h1, h2, h3, hv⟩

/-- (`C20.topk_is_a_top_k_selection`) -/
theorem loaded_topk_is_a_top_k_selection (lines : List Line) (total : Nat) (vals : Nat → Int)
    (A : List Int) (k : Nat) (hk : 0 < k) :
    IsTopK k ((modelsA (load lines total).2.1 (A.map (fun f => -f)) (rootIx (load lines total).2.1)).map
        (fun c => ⟨cfgValue vals c, c⟩))
      (topK (load lines total).2.1 vals A k) :=
  C20.topk_is_a_top_k_selection _ vals A k hk

/-- **text → loader → top-k**: min(k, number of models of the text under `A`) entries -/
theorem loaded_topk_length (lines : List Line) (total : Nat) (h : conventions2B lines total = true)
    (vals : Nat → Int) (A : List Int) (hA : InRange A (load lines total).1) (k : Nat) (hk : 0 < k) :
    (topK (load lines total).2.1 vals A k).length = min k (textCount lines total A) := by
  rw [(C20.topk_is_a_top_k_selection _ vals A k hk).2.1, List.length_map,
    (loaded_models_containing_A lines total h A hA).2.2]

/-- (`C20.topk_values_are_the_k_largest`) -/
theorem loaded_topk_values_are_the_k_largest (lines : List Line) (total : Nat) (vals : Nat → Int)
    (A : List Int) (k : Nat) (hk : 0 < k) :
    (topK (load lines total).2.1 vals A k).map (·.value)
      = (sortDesc ((modelsA (load lines total).2.1 (A.map (fun f => -f))
          (rootIx (load lines total).2.1)).map (cfgValue vals))).take k :=
  C20.topk_values_are_the_k_largest _ vals A k hk

end Ddnnf.D4
