/-
  The union-find structure of `Model/UnionFind.lean`, part 4: `subsets`.  It groups the keys of
  `rank` by their root; when `cl` abstracts the state (`Abs`), the reported sets are — up to the
  order of the sets — exactly the classes of `cl`, each sorted ascending (`subsets_perm`), and all
  classes of `cl` have at least two members, so this is `cl.filter (·.length ≥ 2)` of the abstract
  run.
-/
import DdnnfVerif.Proofs.UnionFind3

namespace Ddnnf.UF

/-! ### sorting lists with the same members -/

/-- insertion sort by an injective key only depends on the set of members -/
theorem sortBy'_eq_of_mem_iff (key : Int → Int) (lt : Int → Int → Bool)
    (hlt : ∀ a b, lt a b = true ↔ key a < key b) (l1 l2 : List Int) (hn1 : l1.Nodup)
    (hn2 : l2.Nodup) (hinj : ∀ x ∈ l1, ∀ y ∈ l1, key x = key y → x = y)
    (hm : ∀ z, z ∈ l1 ↔ z ∈ l2) : sortBy' lt l1 = sortBy' lt l2 := by
  have p1 := sortBy'_key_pairwise (R := fun _ _ => True) (L := fun x => x ∈ l1) key lt hlt
    (fun x y hx hy _ hk => hinj x hx y hy hk) l1 hn1 (fun _ h => h) (fun _ _ _ _ => trivial)
  have p2 := sortBy'_key_pairwise (R := fun _ _ => True) (L := fun x => x ∈ l1) key lt hlt
    (fun x y hx hy _ hk => hinj x hx y hy hk) l2 hn2 (fun z h => (hm z).mpr h)
    (fun _ _ _ _ => trivial)
  apply eq_of_pairwise_strict (fun a b => key a < key b) (fun a => by omega)
    (fun a b c h1 h2 => by omega) _ _ p1 p2
  intro z
  rw [mem_sortBy', mem_sortBy']
  exact hm z

/-! ### association lists, continued -/

theorem addTo_eq_ains (root node : Int) (res : List (Int × List Int)) :
    addTo root node res = ains root ((res.lookup root).getD [] ++ [node]) res := by
  induction res with
  | nil => rfl
  | cons a t ih =>
    obtain ⟨r, g⟩ := a
    simp only [addTo, ains, lookup_cons_if]
    by_cases h : r = root
    · subst h
      simp
    · have h' : (r == root) = false := by simpa using h
      have h'' : ¬ root = r := fun e => h e.symm
      rw [h']
      simp only [Bool.false_eq_true, if_false, if_neg h'', ih]

theorem mem_iff_lookup {β} (m : List (Int × β)) (hnd : (m.map (·.1)).Nodup) (k : Int) (v : β) :
    (k, v) ∈ m ↔ m.lookup k = some v := by
  induction m with
  | nil => simp
  | cons a t ih =>
    obtain ⟨k1, v1⟩ := a
    simp only [List.map_cons, List.nodup_cons] at hnd
    rw [lookup_cons_if, List.mem_cons]
    by_cases h : k = k1
    · subst h
      rw [if_pos rfl]
      constructor
      · rintro (h | h)
        · simp only [Prod.mk.injEq, true_and] at h
          rw [h]
        · exact absurd (List.mem_map.mpr ⟨(k, v), h, rfl⟩) hnd.1
      · intro h
        simp only [Option.some.injEq] at h
        exact Or.inl (by rw [h])
    · rw [if_neg h, ← ih hnd.2]
      constructor
      · rintro (h' | h')
        · simp only [Prod.mk.injEq] at h'
          exact absurd h'.1 h
        · exact h'
      · exact Or.inr

/-! ### grouping by a root function -/

/-- the loop of `subsets` for a fixed root function -/
def groupK (rt : Int → Int) (keys : List Int) (res : List (Int × List Int)) :
    List (Int × List Int) :=
  keys.foldl (fun res k => addTo (rt k) k res) res

/-- the keys with root `r`, in order -/
def withRoot (rt : Int → Int) (keys : List Int) (r : Int) : List Int :=
  keys.filter (fun k => rt k == r)

/-- an empty group stands for a missing entry -/
def optOf (g : List Int) : Option (List Int) := if g.isEmpty then none else some g

theorem getD_optOf (g : List Int) : (optOf g).getD [] = g := by
  unfold optOf
  cases g <;> rfl

theorem groupK_inv (rt : Int → Int) (keys : List Int) :
    ∀ (done : List Int) (res : List (Int × List Int)), (res.map (·.1)).Nodup →
      (∀ r, res.lookup r = optOf (withRoot rt done r)) →
      ((groupK rt keys res).map (·.1)).Nodup ∧
        ∀ r, (groupK rt keys res).lookup r = optOf (withRoot rt (done ++ keys) r) := by
  induction keys with
  | nil =>
    intro done res h1 h2
    simp only [groupK, List.foldl_nil, List.append_nil]
    exact ⟨h1, h2⟩
  | cons k ks ih =>
    intro done res h1 h2
    have e : groupK rt (k :: ks) res = groupK rt ks (addTo (rt k) k res) := rfl
    rw [e, show done ++ k :: ks = (done ++ [k]) ++ ks by simp]
    apply ih
    · rw [addTo_eq_ains, keys_ains]
      split
      · exact h1
      · rename_i hk
        rw [List.nodup_append]
        refine ⟨h1, by simp, ?_⟩
        intro a ha b hb hab
        simp only [List.mem_singleton] at hb
        subst hb
        subst hab
        exact hk ha
    · intro r
      rw [addTo_eq_ains, lookup_ains, h2, getD_optOf]
      by_cases hr : r = rt k
      · subst hr
        rw [if_pos rfl]
        simp only [withRoot, List.filter_append, List.filter_cons, BEq.rfl, if_true,
          List.filter_nil, optOf]
        simp
      · rw [if_neg hr, h2]
        have : (rt k == r) = false := by simpa using fun e => hr e.symm
        simp [withRoot, List.filter_append, this]

/-- the groups: one entry for every root of a key, holding the keys with that root -/
theorem mem_groupK (rt : Int → Int) (keys : List Int) (r : Int) (g : List Int) :
    (r, g) ∈ groupK rt keys [] ↔ (g = withRoot rt keys r ∧ g ≠ []) := by
  obtain ⟨h1, h2⟩ := groupK_inv rt keys [] [] List.nodup_nil (by intro r; rfl)
  rw [mem_iff_lookup _ h1, h2, List.nil_append]
  unfold optOf
  cases h : withRoot rt keys r with
  | nil =>
    simp only [List.isEmpty_nil, if_true]
    constructor
    · intro h'; cases h'
    · rintro ⟨rfl, h'⟩; exact absurd rfl h'
  | cons a t =>
    simp only [List.isEmpty_cons, Bool.false_eq_true, if_false, Option.some.injEq]
    constructor
    · rintro rfl; exact ⟨rfl, by simp⟩
    · rintro ⟨rfl, _⟩; rfl

theorem groupK_keys_nodup (rt : Int → Int) (keys : List Int) :
    ((groupK rt keys []).map (·.1)).Nodup :=
  (groupK_inv rt keys [] [] List.nodup_nil (by intro r; rfl)).1

/-! ### the loop of `subsets` -/

/-- the root `find` returns -/
def rootOf (s : State) (x : Int) : Int := (find s x).2

theorem rootOf_root (s : State) (hs : WF s) (x : Int) : Root (parent s) x (rootOf s x) :=
  find_root s hs x

theorem rootOf_eq_iff (s : State) (hs : WF s) (x y : Int) :
    rootOf s x = rootOf s y ↔ SameRoot (parent s) x y :=
  (sameRoot_iff (rootOf_root s hs x) (rootOf_root s hs y)).symm

theorem rootOf_congr {s t : State} (hs : WF s) (ht : WF t)
    (h : ∀ z r, Root (parent t) z r ↔ Root (parent s) z r) : rootOf t = rootOf s := by
  funext z
  exact ((h z _).mp (rootOf_root t ht z)).det (rootOf_root s hs z)

/-- the loop of `subsets` (which calls `find`, compressing paths) computes the grouping by the
roots of the state it starts in; it keeps the invariant, the roots and `rank` -/
theorem subsetsLoop_spec (keys : List Int) :
    ∀ (s : State) (res : List (Int × List Int)), WF s →
      (subsetsLoop keys s res).2 = groupK (rootOf s) keys res ∧ WF (subsetsLoop keys s res).1 ∧
        (∀ z r, Root (parent (subsetsLoop keys s res).1) z r ↔ Root (parent s) z r) ∧
        (subsetsLoop keys s res).1.rank = s.rank := by
  induction keys with
  | nil => intro s res hs; exact ⟨rfl, hs, fun _ _ => Iff.rfl, rfl⟩
  | cons k ks ih =>
    intro s res hs
    have e : subsetsLoop (k :: ks) s res
        = subsetsLoop ks (find s k).1 (addTo (find s k).2 k res) := rfl
    have hs1 := find_wf s hs k
    obtain ⟨i1, i2, i3, i4⟩ := ih (find s k).1 (addTo (find s k).2 k res) hs1
    rw [e]
    refine ⟨?_, i2, ?_, ?_⟩
    · rw [i1, rootOf_congr hs hs1 (find_root_iff s hs k)]
      rfl
    · intro z r
      rw [i3, find_root_iff s hs k]
    · rw [i4, find_rank s hs k]

/-- **`subsets`**: the keys of `rank`, grouped by root, each group sorted ascending -/
theorem subsets_eq (s : State) (hs : WF s) :
    (subsets s).2 = (groupK (rootOf s) (s.rank.map (·.1)) []).map
      (fun g => sortBy' (fun a b => decide (a < b)) g.2) := by
  have e : (subsets s).2 = (subsetsLoop (s.rank.map (·.1)) s []).2.map
      (fun g => sortBy' (fun a b => decide (a < b)) g.2) := rfl
  rw [e, (subsetsLoop_spec _ s [] hs).1]

/-! ### `subsets` against the abstraction -/

/-- the group of a member `k` of a class `c` has the members of `c` -/
theorem withRoot_mem_iff {s : State} {cl : Classes} (h : Abs s cl) {c : List Int} (hc : c ∈ cl)
    {k : Int} (hk : k ∈ c) (z : Int) :
    z ∈ withRoot (rootOf s) (s.rank.map (·.1)) (rootOf s k) ↔ z ∈ c := by
  have hcl : c = classOf cl k := classOf_absorb h.good.disj k hc hk (mem_classOf_self cl k)
  simp only [withRoot, List.mem_filter, beq_iff_eq]
  rw [rootOf_eq_iff s h.wf, h.keys]
  constructor
  · rintro ⟨_, hzk⟩
    have := (h.same k z).mp hzk.symm
    rw [equivC_iff_mem, ← hcl] at this
    exact this
  · intro hz
    refine ⟨⟨c, hc, hz⟩, SameRoot.symm ((h.same k z).mpr ?_)⟩
    rw [equivC_iff_mem, ← hcl]
    exact hz

theorem withRoot_nodup (rt : Int → Int) (keys : List Int) (hnd : keys.Nodup) (r : Int) :
    (withRoot rt keys r).Nodup := hnd.filter _

/-- the group of a member of a class `c`, sorted by an order that is injective on `c`, is the
sorted class -/
theorem sort_withRoot_eq {s : State} {cl : Classes} (h : Abs s cl) {c : List Int} (hc : c ∈ cl)
    {k : Int} (hk : k ∈ c) :
    sortBy' (fun a b => decide (a < b)) (withRoot (rootOf s) (s.rank.map (·.1)) (rootOf s k))
      = sortBy' (fun a b => decide (a < b)) c :=
  sortBy'_eq_of_mem_iff (fun a => a) _ (by simp) _ _ (withRoot_nodup _ _ h.nodup _)
    (h.good.nodup c hc) (fun _ _ _ _ e => e) (withRoot_mem_iff h hc hk)

theorem mem_subsets_iff {s : State} {cl : Classes} (h : Abs s cl) (S : List Int) :
    S ∈ (subsets s).2 ↔ S ∈ cl.map (sortBy' (fun a b => decide (a < b))) := by
  rw [subsets_eq s h.wf, List.mem_map, List.mem_map]
  constructor
  · rintro ⟨⟨r, g⟩, hg, rfl⟩
    rw [mem_groupK] at hg
    obtain ⟨rfl, hne⟩ := hg
    obtain ⟨k, hk⟩ := List.exists_mem_of_ne_nil _ hne
    have hk' := hk
    simp only [withRoot, List.mem_filter, beq_iff_eq] at hk'
    obtain ⟨hkk, rfl⟩ := hk'
    obtain ⟨c, hc, hkc⟩ := (h.keys k).mp hkk
    exact ⟨c, hc, (sort_withRoot_eq h hc hkc).symm⟩
  · rintro ⟨c, hc, rfl⟩
    have hlen := h.good.two c hc
    obtain ⟨k, hk⟩ := List.exists_mem_of_length_pos (by omega : 0 < c.length)
    refine ⟨(rootOf s k, withRoot (rootOf s) (s.rank.map (·.1)) (rootOf s k)), ?_,
      sort_withRoot_eq h hc hk⟩
    rw [mem_groupK]
    refine ⟨rfl, ?_⟩
    intro he
    have := (withRoot_mem_iff h hc hk k).mpr hk
    rw [he] at this
    cases this

theorem subsets_nodup (s : State) (hs : WF s) : (subsets s).2.Nodup := by
  rw [subsets_eq s hs]
  have hk := groupK_keys_nodup (rootOf s) (s.rank.map (·.1))
  have hmem := mem_groupK (rootOf s) (s.rank.map (·.1))
  generalize groupK (rootOf s) (s.rank.map (·.1)) [] = G at hk hmem
  rw [List.nodup_iff_pairwise_ne, List.pairwise_map] at hk ⊢
  have hk' : G.Pairwise (fun a b => a ∈ G ∧ b ∈ G ∧ a.1 ≠ b.1) :=
    hk.imp_of_mem (fun ha hb hab => ⟨ha, hb, hab⟩)
  apply hk'.imp
  rintro ⟨r1, g1⟩ ⟨r2, g2⟩ ⟨h1, h2, hne⟩ he
  rw [hmem] at h1 h2
  obtain ⟨rfl, hn1⟩ := h1
  obtain ⟨rfl, _⟩ := h2
  obtain ⟨k, hk1⟩ := List.exists_mem_of_ne_nil _ hn1
  have hk2 : k ∈ withRoot (rootOf s) (s.rank.map (·.1)) r2 := by
    rw [← mem_sortBy' (fun a b => decide (a < b)), ← he, mem_sortBy']
    exact hk1
  simp only [withRoot, List.mem_filter, beq_iff_eq] at hk1 hk2
  exact hne (hk1.2.symm.trans hk2.2)

theorem classes_filter_eq {cl : Classes} (hg : GoodC cl) :
    cl.filter (fun c => c.length ≥ 2) = cl := by
  rw [List.filter_eq_self]
  intro c hc
  simpa using hg.two c hc

theorem sorted_classes_nodup {cl : Classes} (hg : GoodC cl) (lt : Int → Int → Bool) :
    (cl.map (sortBy' lt)).Nodup := by
  have := sorted_classes_heads lt cl hg
  rw [classes_filter_eq hg] at this
  exact this.imp (fun h e => h (by rw [e]))

/-- **`subsets` refines "the classes with at least two members"**: up to the order of the sets,
`subsets` reports exactly the classes of the abstraction, each sorted ascending -/
theorem subsets_perm {s : State} {cl : Classes} (h : Abs s cl) :
    (subsets s).2.Perm ((cl.filter (fun c => c.length ≥ 2)).map
      (sortBy' (fun a b => decide (a < b)))) := by
  rw [classes_filter_eq h.good]
  exact (List.perm_ext_iff_of_nodup (subsets_nodup s h.wf)
    (sorted_classes_nodup h.good _)).mpr (mem_subsets_iff h)

end Ddnnf.UF
