/-
  Correctness of the reverse-mode pass (`annotatePD`, partial derivatives) of ddnnife:
  after the pass, the entry of the leaf of literal `l` is the number of listed root models that
  contain `l` (`pdLeaf_of_WF`).  This file only depends on `Keystone`; the connection with the
  specification (`cardPD_exact`) is in `Proofs/Features.lean`.
-/
import DdnnfVerif.Model.Features
import DdnnfVerif.Proofs.Keystone

namespace Ddnnf

/-- one leaf per literal (ddnnife keeps a map literal ↦ leaf index) -/
def LitUnique (nodes : List NType) : Prop :=
  ∀ i j (hi : i < nodes.length) (hj : j < nodes.length) (l : Int),
    nodes[i] = .lit l → nodes[j] = .lit l → i = j

/-- executable check of `LitUnique` -/
def litUniqueB : List NType → Bool
  | [] => true
  | nd :: rest => (match nd with | .lit _ => !rest.contains nd | _ => true) && litUniqueB rest

theorem litUniqueB_sound (nodes : List NType) : litUniqueB nodes = true → LitUnique nodes := by
  induction nodes with
  | nil => intro _ i j hi; cases hi
  | cons nd rest ih =>
    intro hb
    simp only [litUniqueB, Bool.and_eq_true] at hb
    obtain ⟨h1, h2⟩ := hb
    have hrest := ih h2
    have hhead : ∀ (j : Nat) (hj : j < rest.length) (l : Int), nd = .lit l → rest[j] = .lit l →
        False := by
      intro j hj l hnd hr
      subst hnd
      have hm : NType.lit l ∈ rest := hr ▸ List.getElem_mem hj
      simp at h1
      exact h1 hm
    intro i j hi hj l hil hjl
    cases i with
    | zero =>
      cases j with
      | zero => rfl
      | succ j =>
        exact (hhead j (by simpa using hj) l (by simpa using hil) (by simpa using hjl)).elim
    | succ i =>
      cases j with
      | zero =>
        exact (hhead i (by simpa using hi) l (by simpa using hjl) (by simpa using hil)).elim
      | succ j =>
        have := hrest i j (by simpa using hi) (by simpa using hj) l (by simpa using hil)
          (by simpa using hjl)
        omega

/-! ### finite sums -/

theorem sum_map_ite_eq (N c y : Nat) :
    ((List.range N).map (fun i => if i = c then y else 0)).sum = if c < N then y else 0 := by
  induction N with
  | zero => simp
  | succ N ih =>
    rw [List.range_succ, List.map_append, List.sum_append, ih]
    by_cases h1 : c < N
    · have h2 : N ≠ c := by omega
      have h3 : c < N + 1 := by omega
      simp [h1, h2, h3]
    · by_cases h2 : N = c
      · subst h2; simp
      · have h3 : ¬ c < N + 1 := by omega
        simp [h1, h2, h3]

theorem sum_map_mul_left {α} (xs : List α) (a : Nat) (f : α → Nat) :
    (xs.map (fun x => a * f x)).sum = a * (xs.map f).sum := by
  induction xs with
  | nil => simp
  | cons x xs ih => simp only [List.map_cons, List.sum_cons, ih, Nat.mul_add]

theorem sum_map_eq_zero {α} (xs : List α) (f : α → Nat) (h : ∀ x ∈ xs, f x = 0) :
    (xs.map f).sum = 0 := by
  induction xs with
  | nil => rfl
  | cons x xs ih =>
    simp only [List.map_cons, List.sum_cons, h x (List.mem_cons_self ..),
      ih (fun y hy => h y (List.mem_cons_of_mem _ hy))]

/-- weighted sum `Σ_{i<N} p i * w i` -/
def wsum (N : Nat) (p w : Nat → Nat) : Nat := ((List.range N).map (fun i => p i * w i)).sum

theorem wsum_congr (N : Nat) (p p' w w' : Nat → Nat)
    (h : ∀ i, i < N → p i * w i = p' i * w' i) : wsum N p w = wsum N p' w' := by
  unfold wsum
  congr 1
  apply List.map_congr_left
  intro i hi
  exact h i (List.mem_range.mp hi)

theorem wsum_add_p (N : Nat) (p w : Nat → Nat) (c x : Nat) (hc : c < N) :
    wsum N (fun i => p i + if i = c then x else 0) w = wsum N p w + x * w c := by
  unfold wsum
  have e : (List.range N).map (fun i => (p i + if i = c then x else 0) * w i)
      = (List.range N).map (fun i => p i * w i + if i = c then x * w c else 0) := by
    apply List.map_congr_left
    intro i _
    by_cases h : i = c
    · subst h; simp [Nat.add_mul]
    · simp [h]
  rw [e, sum_map_add', sum_map_ite_eq, if_pos hc]

theorem wsum_add_w (N : Nat) (p w : Nat → Nat) (c y : Nat) (hc : c < N) :
    wsum N p (fun i => w i + if i = c then y else 0) = wsum N p w + p c * y := by
  unfold wsum
  have e : (List.range N).map (fun i => p i * (w i + if i = c then y else 0))
      = (List.range N).map (fun i => p i * w i + if i = c then p c * y else 0) := by
    apply List.map_congr_left
    intro i _
    by_cases h : i = c
    · subst h; simp [Nat.mul_add]
    · simp [h]
  rw [e, sum_map_add', sum_map_ite_eq, if_pos hc]

/-! ### `addAt` and the inner loops of `pdStep` -/

theorem addAt_size (pd : Array Nat) (c x : Nat) : (addAt pd c x).size = pd.size := by
  simp [addAt]

theorem addAt_getD (pd : Array Nat) (c x i : Nat) (hc : c < pd.size) :
    (addAt pd c x).getD i 0 = pd.getD i 0 + if i = c then x else 0 := by
  unfold addAt
  by_cases h : i = c
  · subst h
    simp [Array.getD_eq_getD_getElem?, hc]
  · have h' : ¬ c = i := fun e => h e.symm
    simp [Array.getD_eq_getD_getElem?, h, h']

/-- the inner loop of `pdStep` for node `k`: the weighted sum grows by
`pd[k] * Σ_{c ∈ cs} f c * w c`; the entry of `k` itself is not touched -/
theorem foldl_addAt (w : Nat → Nat) (N k : Nat) (f : Nat → Nat) (cs : List Nat) (pd : Array Nat)
    (hN : pd.size = N) (hk : k < N) (hcs : ∀ c ∈ cs, c < k) :
    (cs.foldl (fun pd child => addAt pd child (pd.getD k 0 * f child)) pd).size = N ∧
    wsum N (fun i => (cs.foldl (fun pd child => addAt pd child (pd.getD k 0 * f child)) pd).getD i 0) w
      = wsum N (fun i => pd.getD i 0) w + pd.getD k 0 * (cs.map (fun c => f c * w c)).sum := by
  induction cs generalizing pd with
  | nil => simp [hN]
  | cons c cs ih =>
    have hck : c < k := hcs c (List.mem_cons_self ..)
    have hc : c < pd.size := by omega
    have hsz : (addAt pd c (pd.getD k 0 * f c)).size = N := by rw [addAt_size]; exact hN
    have hkk : (addAt pd c (pd.getD k 0 * f c)).getD k 0 = pd.getD k 0 := by
      rw [addAt_getD _ _ _ _ hc]
      have : k ≠ c := by omega
      simp [this]
    obtain ⟨h1, h2⟩ := ih (addAt pd c (pd.getD k 0 * f c)) hsz
      (fun c' hc' => hcs c' (List.mem_cons_of_mem _ hc'))
    refine ⟨by simpa [List.foldl_cons] using h1, ?_⟩
    rw [List.foldl_cons, h2, hkk]
    have e : (fun i => (addAt pd c (pd.getD k 0 * f c)).getD i 0)
        = (fun i => pd.getD i 0 + if i = c then pd.getD k 0 * f c else 0) := by
      funext i
      exact addAt_getD _ _ _ _ hc
    rw [e, wsum_add_p _ _ _ _ _ (by omega)]
    simp only [List.map_cons, List.sum_cons, Nat.mul_add, Nat.mul_assoc, Nat.add_assoc]

/-! ### listed models that contain a fixed literal -/

/-- number of listed models of node `i` that contain the literal `l` (the derivative of the
count of `i` with respect to the leaf `l`) -/
def bcount (nodes : List NType) (l : Int) (i : Nat) : Nat :=
  (models nodes i).countP (fun c => c.contains l)

theorem countP_not_of_countP_zero {α} (p : α → Bool) (xs : List α) (h : xs.countP p = 0) :
    xs.countP (fun a => !p a) = xs.length := by
  induction xs with
  | nil => rfl
  | cons x xs ih =>
    rw [List.countP_cons] at h
    have hx : p x = false := by
      cases hp : p x with
      | false => rfl
      | true => rw [hp] at h; simp at h
    have h' : xs.countP p = 0 := by omega
    simp [hx, ih h']

/-- product rule for one factor, for a predicate that holds on `a ++ b` iff it holds on `a` or
on `b` -/
theorem countP_prod_cons (p : Config → Bool) (hp : ∀ a b, p (a ++ b) = (p a || p b))
    (L : List Config) (rest : List (List Config)) :
    (prodConfigs (L :: rest)).countP p
      = (prodConfigs rest).countP p * L.length
        + (prodConfigs rest).countP (fun c => !p c) * L.countP p := by
  simp only [prodConfigs]
  generalize prodConfigs rest = P
  induction P with
  | nil => simp
  | cons t P ih =>
    simp only [List.flatMap_cons, List.countP_append, ih, List.countP_cons]
    have e : (L.map (fun hd => t ++ hd)).countP p = if p t then L.length else L.countP p := by
      rw [List.countP_map]
      by_cases ht : p t = true
      · simp only [ht, if_true]
        have : (p ∘ fun hd => t ++ hd) = fun _ => true := by
          funext hd; simp [Function.comp, hp, ht]
        rw [this]; simp
      · simp only [ht]
        have : (p ∘ fun hd => t ++ hd) = p := by
          funext hd; simp [Function.comp, hp, ht]
        rw [this]; simp
    rw [e]
    by_cases ht : p t = true
    · simp [ht, Nat.add_mul]; omega
    · simp [ht, Nat.add_mul]; omega

theorem countP_prod_zero (p : Config → Bool) (hp : ∀ a b, p (a ++ b) = (p a || p b))
    (hnil : p [] = false) (ls : List (List Config)) (h : ∀ L ∈ ls, L.countP p = 0) :
    (prodConfigs ls).countP p = 0 := by
  induction ls with
  | nil => simp [prodConfigs, hnil]
  | cons L ls ih =>
    rw [countP_prod_cons p hp, h L (List.mem_cons_self ..),
      ih (fun L' hL' => h L' (List.mem_cons_of_mem _ hL'))]
    simp

/-- if only one factor has configurations with the property, the product rule has one summand -/
theorem countP_prod_single (p : Config → Bool) (hp : ∀ a b, p (a ++ b) = (p a || p b))
    (hnil : p [] = false) (pre post : List (List Config)) (L0 : List Config)
    (h : ∀ L ∈ pre ++ post, L.countP p = 0) :
    (prodConfigs (pre ++ L0 :: post)).countP p
      = prodNat ((pre ++ post).map List.length) * L0.countP p := by
  induction pre with
  | nil =>
    rw [List.nil_append, countP_prod_cons p hp]
    have hz : (prodConfigs post).countP p = 0 :=
      countP_prod_zero p hp hnil post (fun L hL => h L (by simpa using hL))
    rw [hz, countP_not_of_countP_zero p _ hz, length_prodConfigs]
    simp
  | cons a pre ih =>
    rw [List.cons_append, countP_prod_cons p hp, h a (by simp),
      ih (fun L hL => h L (by
        rw [List.cons_append]; exact List.mem_cons_of_mem _ hL))]
    simp only [List.cons_append, List.map_cons, prodNat_cons, Nat.mul_zero, Nat.add_zero]
    rw [Nat.mul_comm, ← Nat.mul_assoc]

theorem models_and (nodes : List NType) (ht : Topo nodes) (k : Nat) (hk : k < nodes.length)
    (cs : List Nat) (hnd : nodes[k] = .and cs) :
    models nodes k = prodConfigs (cs.map (models nodes)) := by
  have hm : models nodes k = fModels nodes[k] (fun j => if j < k then models nodes j else []) :=
    val_eq [] fModels nodes k hk
  rw [hm, hnd]
  show prodConfigs (cs.map _) = _
  congr 1
  apply List.map_congr_left
  intro c hc
  have : c < k := by have := ht k hk c (by rw [hnd]; exact hc); exact this
  simp [this]

theorem models_or (nodes : List NType) (ht : Topo nodes) (k : Nat) (hk : k < nodes.length)
    (cs : List Nat) (hnd : nodes[k] = .or cs) :
    models nodes k = (cs.map (models nodes)).flatten := by
  have hm : models nodes k = fModels nodes[k] (fun j => if j < k then models nodes j else []) :=
    val_eq [] fModels nodes k hk
  rw [hm, hnd]
  show (cs.map _).flatten = _
  congr 1
  apply List.map_congr_left
  intro c hc
  have : c < k := by have := ht k hk c (by rw [hnd]; exact hc); exact this
  simp [this]

theorem models_leaf (nodes : List NType) (k : Nat) (hk : k < nodes.length) :
    models nodes k = fModels nodes[k] (fun j => if j < k then models nodes j else []) :=
  val_eq [] fModels nodes k hk

theorem bcount_or (nodes : List NType) (l : Int) (ht : Topo nodes) (k : Nat)
    (hk : k < nodes.length) (cs : List Nat) (hnd : nodes[k] = .or cs) :
    bcount nodes l k = (cs.map (bcount nodes l)).sum := by
  unfold bcount
  rw [models_or nodes ht k hk cs hnd, List.countP_flatten, List.map_map]
  rfl

theorem bcount_lit (nodes : List NType) (l : Int) (k : Nat) (hk : k < nodes.length) (l' : Int)
    (hnd : nodes[k] = .lit l') : bcount nodes l k = if l' = l then 1 else 0 := by
  unfold bcount
  rw [models_leaf nodes k hk, hnd]
  show ([[l']] : List Config).countP _ = _
  by_cases h : l' = l
  · subst h; simp
  · have h' : ¬ l = l' := fun e => h e.symm
    simp [h, h']

theorem bcount_tru (nodes : List NType) (l : Int) (k : Nat) (hk : k < nodes.length)
    (hnd : nodes[k] = .tru) : bcount nodes l k = 0 := by
  unfold bcount
  rw [models_leaf nodes k hk, hnd]
  show ([[]] : List Config).countP _ = _
  simp

theorem bcount_fls (nodes : List NType) (l : Int) (k : Nat) (hk : k < nodes.length)
    (hnd : nodes[k] = .fls) : bcount nodes l k = 0 := by
  unfold bcount
  rw [models_leaf nodes k hk, hnd]
  show ([] : List Config).countP _ = _
  simp

/-- a node with a listed model containing `l` mentions the variable of `l` -/
theorem mem_vars_of_bcount_ne_zero (nodes : List NType) (l : Int) (ht : Topo nodes)
    (hs : Smooth nodes) (a : Nat) (h : bcount nodes l a ≠ 0) : l.natAbs ∈ vars nodes a := by
  unfold bcount at h
  have hpos : 0 < (models nodes a).countP (fun c => c.contains l) := by omega
  rw [List.countP_pos_iff] at hpos
  obtain ⟨c, hc, hl⟩ := hpos
  have hl' : l ∈ c := List.contains_iff_mem.mp hl
  exact (models_vars' nodes ht hs a c hc).mem_iff.mp (List.mem_map.mpr ⟨l, hl', rfl⟩)

/-- the product rule at an and-node, in the form in which ddnnife evaluates it: by decomposability
at most one child contributes, and that child occurs only once among the children -/
theorem bcount_and (nodes : List NType) (l : Int) (ht : Topo nodes) (hd : Decomposable nodes)
    (hs : Smooth nodes) (k : Nat) (hk : k < nodes.length) (cs : List Nat)
    (hnd : nodes[k] = .and cs) :
    (cs.map (fun c => prodNat ((cs.filter (fun o => o != c)).map (count nodes))
        * bcount nodes l c)).sum = bcount nodes l k := by
  have hp : ∀ a b : Config, (a ++ b).contains l = (a.contains l || b.contains l) :=
    fun a b => List.contains_append
  have hnil : ([] : Config).contains l = false := rfl
  have hmk : bcount nodes l k
      = (prodConfigs (cs.map (models nodes))).countP (fun c => c.contains l) := by
    unfold bcount; rw [models_and nodes ht k hk cs hnd]
  by_cases hall : ∀ c ∈ cs, bcount nodes l c = 0
  · rw [sum_map_eq_zero _ _ (fun c hc => by rw [hall c hc, Nat.mul_zero]), hmk,
      countP_prod_zero _ hp hnil]
    intro L hL
    rw [List.mem_map] at hL
    obtain ⟨c, hc, rfl⟩ := hL
    exact hall c hc
  · have hex : ∃ c0, c0 ∈ cs ∧ bcount nodes l c0 ≠ 0 := by
      apply Classical.byContradiction
      intro hne
      apply hall
      intro c hc
      apply Classical.byContradiction
      intro h0
      exact hne ⟨c, hc, h0⟩
    obtain ⟨c0, hc0, hb0⟩ := hex
    obtain ⟨pre, post, hsplit⟩ := List.append_of_mem hc0
    have hv0 : l.natAbs ∈ vars nodes c0 := mem_vars_of_bcount_ne_zero nodes l ht hs c0 hb0
    have hnodup := hd k hk cs hnd
    rw [hsplit, List.map_append, List.map_cons, List.flatten_append, List.flatten_cons,
      List.nodup_append] at hnodup
    obtain ⟨_, hn2, hn3⟩ := hnodup
    rw [List.nodup_append] at hn2
    obtain ⟨_, _, hn4⟩ := hn2
    have hothers : ∀ a ∈ pre ++ post, bcount nodes l a = 0 := by
      intro a ha
      apply Classical.byContradiction
      intro hne
      have hva : l.natAbs ∈ vars nodes a := mem_vars_of_bcount_ne_zero nodes l ht hs a hne
      rw [List.mem_append] at ha
      cases ha with
      | inl ha =>
        have hin : l.natAbs ∈ (pre.map (vars nodes)).flatten :=
          List.mem_flatten.mpr ⟨_, List.mem_map.mpr ⟨a, ha, rfl⟩, hva⟩
        exact hn3 _ hin _ (List.mem_append_left _ hv0) rfl
      | inr ha =>
        have hin : l.natAbs ∈ (post.map (vars nodes)).flatten :=
          List.mem_flatten.mpr ⟨_, List.mem_map.mpr ⟨a, ha, rfl⟩, hva⟩
        exact hn4 _ hv0 _ hin rfl
    have hne : ∀ a ∈ pre ++ post, (a != c0) = true := by
      intro a ha
      have := hothers a ha
      simp only [bne_iff_ne, ne_eq]
      intro e
      rw [e] at this
      exact hb0 this
    have hfilter : cs.filter (fun o => o != c0) = pre ++ post := by
      rw [hsplit, List.filter_append, List.filter_cons]
      simp only [bne_self_eq_false, Bool.false_eq_true, if_false]
      rw [← List.filter_append]
      exact List.filter_eq_self.mpr hne
    -- left-hand side: only the summand of `c0` survives
    have hL : (cs.map (fun c => prodNat ((cs.filter (fun o => o != c)).map (count nodes))
        * bcount nodes l c)).sum
        = prodNat ((pre ++ post).map (count nodes)) * bcount nodes l c0 := by
      rw [← hfilter]
      generalize hF : (fun c => prodNat ((cs.filter (fun o => o != c)).map (count nodes))
        * bcount nodes l c) = F
      have hF0 : F c0 = prodNat ((cs.filter (fun o => o != c0)).map (count nodes))
          * bcount nodes l c0 := by rw [← hF]
      have hFz : ∀ a ∈ pre ++ post, F a = 0 := by
        intro a ha; rw [← hF]; simp only []; rw [hothers a ha, Nat.mul_zero]
      rw [hsplit, List.map_append, List.map_cons, List.sum_append, List.sum_cons,
        sum_map_eq_zero pre F (fun a ha => hFz a (List.mem_append_left _ ha)),
        sum_map_eq_zero post F (fun a ha => hFz a (List.mem_append_right _ ha)), ← hsplit, hF0]
      omega
    have hR : (prodConfigs ((pre ++ c0 :: post).map (models nodes))).countP (fun c => c.contains l)
        = prodNat (((pre.map (models nodes)) ++ (post.map (models nodes))).map List.length)
          * (models nodes c0).countP (fun c => c.contains l) := by
      rw [List.map_append, List.map_cons]
      apply countP_prod_single _ hp hnil
      intro L hL
      rw [← List.map_append, List.mem_map] at hL
      obtain ⟨a, ha, rfl⟩ := hL
      exact hothers a ha
    rw [hL, hmk, hsplit, hR, ← List.map_append, List.map_map]
    congr 2
    apply List.map_congr_left
    intro c _
    exact (count_eq_length_models nodes c)

/-! ### the invariant of the downward loop -/

/-- weight of the entry `pd[i]` when the nodes with index `≥ k` have been processed: an unprocessed
node weighs `bcount`, a processed node weighs 1 if it is a leaf `l` and 0 otherwise -/
def wgt (nodes : List NType) (l : Int) (k i : Nat) : Nat :=
  if i < k then bcount nodes l i else if nodes[i]? = some (.lit l) then 1 else 0

theorem wgt_lt (nodes : List NType) (l : Int) (k i : Nat) (h : i < k) :
    wgt nodes l k i = bcount nodes l i := by
  simp [wgt, h]

theorem wgt_self (nodes : List NType) (l : Int) (k : Nat) :
    wgt nodes l k k = if nodes[k]? = some (.lit l) then 1 else 0 := by
  simp [wgt]

theorem wgt_succ_ne (nodes : List NType) (l : Int) (k i : Nat) (h : i ≠ k) :
    wgt nodes l (k + 1) i = wgt nodes l k i := by
  unfold wgt
  by_cases h1 : i < k
  · have : i < k + 1 := by omega
    simp [h1, this]
  · have : ¬ i < k + 1 := by omega
    simp [h1, this]

theorem wsum_wgt_succ (nodes : List NType) (l : Int) (N k : Nat) (p : Nat → Nat) (hk : k < N)
    (h0 : wgt nodes l k k = 0) :
    wsum N p (wgt nodes l (k + 1)) = wsum N p (wgt nodes l k) + p k * bcount nodes l k := by
  rw [← wsum_add_w N p (wgt nodes l k) k (bcount nodes l k) hk]
  apply wsum_congr
  intro i _
  by_cases h : i = k
  · subst h
    rw [wgt_lt nodes l (i + 1) i (by omega), h0]; simp
  · rw [wgt_succ_ne nodes l k i h]; simp [h]

theorem wsum_wgt_succ_eq (nodes : List NType) (l : Int) (N k : Nat) (p : Nat → Nat)
    (h0 : wgt nodes l k k = bcount nodes l k) :
    wsum N p (wgt nodes l (k + 1)) = wsum N p (wgt nodes l k) := by
  apply wsum_congr
  intro i _
  by_cases h : i = k
  · subst h
    rw [wgt_lt nodes l (i + 1) i (by omega), h0]
  · rw [wgt_succ_ne nodes l k i h]

/-- processing node `k` turns the invariant for `k + 1` into the invariant for `k` -/
theorem pdStep_wsum (nodes : List NType) (l : Int) (ht : Topo nodes) (hd : Decomposable nodes)
    (hs : Smooth nodes) (k : Nat) (hk : k < nodes.length) (pd : Array Nat)
    (hsz : pd.size = nodes.length) :
    (pdStep (count nodes) pd k nodes[k]).size = nodes.length ∧
    wsum nodes.length (fun i => (pdStep (count nodes) pd k nodes[k]).getD i 0) (wgt nodes l k)
      = wsum nodes.length (fun i => pd.getD i 0) (wgt nodes l (k + 1)) := by
  have hget : nodes[k]? = some nodes[k] := List.getElem?_eq_getElem hk
  have hch : ∀ c ∈ children nodes[k], c < k := ht k hk
  cases hnd : nodes[k] with
  | and cs =>
    rw [hnd] at hch hget
    have h0 : wgt nodes l k k = 0 := by rw [wgt_self, hget]; simp
    obtain ⟨h1, h2⟩ := foldl_addAt (wgt nodes l k) nodes.length k
      (fun c => prodNat ((cs.filter (fun o => o != c)).map (count nodes))) cs pd hsz hk hch
    refine ⟨h1, ?_⟩
    rw [wsum_wgt_succ nodes l _ k _ hk h0]
    refine Eq.trans h2 ?_
    congr 2
    rw [← bcount_and nodes l ht hd hs k hk cs hnd]
    congr 1
    apply List.map_congr_left
    intro c hc
    show _ * wgt nodes l k c = _
    rw [wgt_lt nodes l k c (hch c hc)]
  | or cs =>
    rw [hnd] at hch hget
    have h0 : wgt nodes l k k = 0 := by rw [wgt_self, hget]; simp
    have hfun : (fun (pd : Array Nat) child => addAt pd child (pd.getD k 0 * (fun _ => 1) child))
        = (fun (pd : Array Nat) child => addAt pd child (pd.getD k 0)) := by
      funext pd child; simp
    have := foldl_addAt (wgt nodes l k) nodes.length k (fun _ => 1) cs pd hsz hk hch
    rw [hfun] at this
    obtain ⟨h1, h2⟩ := this
    refine ⟨h1, ?_⟩
    rw [wsum_wgt_succ nodes l _ k _ hk h0]
    refine Eq.trans h2 ?_
    congr 2
    rw [bcount_or nodes l ht k hk cs hnd]
    congr 1
    apply List.map_congr_left
    intro c hc
    simp only [Nat.one_mul]
    rw [wgt_lt nodes l k c (hch c hc)]
  | lit l' =>
    rw [hnd] at hget
    refine ⟨hsz, ?_⟩
    rw [wsum_wgt_succ_eq]
    · rfl
    · rw [wgt_self, hget, bcount_lit nodes l k hk l' hnd]
      by_cases h : l' = l <;> simp [h]
  | tru =>
    rw [hnd] at hget
    refine ⟨hsz, ?_⟩
    rw [wsum_wgt_succ_eq]
    · rfl
    · rw [wgt_self, hget, bcount_tru nodes l k hk hnd]; simp
  | fls =>
    rw [hnd] at hget
    refine ⟨hsz, ?_⟩
    rw [wsum_wgt_succ_eq]
    · rfl
    · rw [wgt_self, hget, bcount_fls nodes l k hk hnd]; simp

/-- the loop invariant: processing the nodes `k-1, …, 0` -/
theorem pdLoop_wsum (nodes : List NType) (l : Int) (ht : Topo nodes) (hd : Decomposable nodes)
    (hs : Smooth nodes) (k : Nat) (hk : k ≤ nodes.length) (pd : Array Nat)
    (hsz : pd.size = nodes.length) :
    (pdLoop (count nodes) (nodes.take k).reverse pd).size = nodes.length ∧
    wsum nodes.length (fun i => (pdLoop (count nodes) (nodes.take k).reverse pd).getD i 0)
        (wgt nodes l 0)
      = wsum nodes.length (fun i => pd.getD i 0) (wgt nodes l k) := by
  induction k generalizing pd with
  | zero => simp [pdLoop, hsz]
  | succ k ih =>
    have hk' : k < nodes.length := by omega
    have hlen : (List.take k nodes).reverse.length = k := by
      rw [List.length_reverse, List.length_take]; omega
    have hrev : (nodes.take (k + 1)).reverse = nodes[k] :: (nodes.take k).reverse := by
      rw [List.take_succ_eq_append_getElem hk', List.reverse_append]; rfl
    rw [hrev]
    simp only [pdLoop]
    rw [hlen]
    obtain ⟨s1, s2⟩ := pdStep_wsum nodes l ht hd hs k hk' pd hsz
    obtain ⟨i1, i2⟩ := ih (by omega) _ s1
    exact ⟨i1, i2.trans s2⟩

theorem wsum_zero (N : Nat) (w : Nat → Nat) : wsum N (fun _ => 0) w = 0 := by
  unfold wsum
  apply sum_map_eq_zero
  intro i _; simp

/-- after the whole pass, the entries of the leaves `l` sum up to the number of listed root
models that contain `l` -/
theorem annotatePD_wsum (nodes : List NType) (l : Int) (hne : nodes ≠ []) (ht : Topo nodes)
    (hd : Decomposable nodes) (hs : Smooth nodes) :
    wsum nodes.length (fun i => (annotatePD nodes).getD i 0) (wgt nodes l 0)
      = bcount nodes l (rootIx nodes) := by
  have hpos : 0 < nodes.length := List.length_pos_iff.mpr hne
  have hinit_sz : ((Array.replicate nodes.length 0).setIfInBounds (nodes.length - 1) 1).size
      = nodes.length := by simp
  have hann : annotatePD nodes = pdLoop (count nodes) (nodes.take nodes.length).reverse
      ((Array.replicate nodes.length 0).setIfInBounds (nodes.length - 1) 1) := by
    rw [List.take_length]; rfl
  rw [hann, (pdLoop_wsum nodes l ht hd hs nodes.length (Nat.le_refl _) _ hinit_sz).2]
  have hfun : (fun i => ((Array.replicate nodes.length 0).setIfInBounds (nodes.length - 1) 1).getD i 0)
      = (fun i => (fun _ => 0) i + if i = nodes.length - 1 then 1 else 0) := by
    funext i
    by_cases h : i = nodes.length - 1
    · subst h
      have : nodes.length - 1 < nodes.length := by omega
      simp [Array.getD_eq_getD_getElem?, this]
    · have h' : ¬ nodes.length - 1 = i := fun e => h e.symm
      by_cases hi : i < nodes.length
      · simp [Array.getD_eq_getD_getElem?, h, h', hi]
      · simp [Array.getD_eq_getD_getElem?, h, hi]
  rw [hfun, wsum_add_p _ _ _ _ _ (by omega), wsum_zero, wgt_lt _ _ _ _ (by omega)]
  simp [rootIx]

/-! ### the leaf index -/

theorem leafIx_go_some (l : Int) (xs : List NType) (i : Nat) (acc : Option Nat) (j : Nat)
    (h : leafIx.go l xs i acc = some j) :
    acc = some j ∨ (i ≤ j ∧ xs[j - i]? = some (.lit l)) := by
  induction xs generalizing i acc with
  | nil => left; simpa [leafIx.go] using h
  | cons nd rest ih =>
    simp only [leafIx.go] at h
    rcases ih _ _ h with h1 | ⟨h1, h2⟩
    · by_cases hnd : nd = .lit l
      · simp only [hnd, beq_self_eq_true, if_true, Option.some.injEq] at h1
        right
        subst h1
        simp [hnd]
      · have : (nd == NType.lit l) = false := by simpa using hnd
        rw [this] at h1
        left; simpa using h1
    · right
      refine ⟨by omega, ?_⟩
      have : j - i = (j - (i + 1)) + 1 := by omega
      rw [this, List.getElem?_cons_succ]
      exact h2

theorem leafIx_go_none (l : Int) (xs : List NType) (i : Nat) (acc : Option Nat)
    (h : leafIx.go l xs i acc = none) : acc = none ∧ ∀ x ∈ xs, x ≠ .lit l := by
  induction xs generalizing i acc with
  | nil => exact ⟨by simpa [leafIx.go] using h, by intro x hx; cases hx⟩
  | cons nd rest ih =>
    simp only [leafIx.go] at h
    obtain ⟨h1, h2⟩ := ih _ _ h
    by_cases hnd : nd = .lit l
    · simp [hnd] at h1
    · have : (nd == NType.lit l) = false := by simpa using hnd
      rw [this] at h1
      refine ⟨by simpa using h1, ?_⟩
      intro x hx
      rcases List.mem_cons.mp hx with rfl | hx'
      · exact hnd
      · exact h2 x hx'

theorem leafIx_some (nodes : List NType) (l : Int) (j : Nat) (h : leafIx nodes l = some j) :
    nodes[j]? = some (.lit l) := by
  unfold leafIx at h
  rcases leafIx_go_some l nodes 0 none j h with h1 | ⟨_, h2⟩
  · cases h1
  · simpa using h2

theorem leafIx_none (nodes : List NType) (l : Int) (h : leafIx nodes l = none) :
    ∀ i : Nat, nodes[i]? ≠ some (NType.lit l) := by
  unfold leafIx at h
  intro i hi
  exact (leafIx_go_none l nodes 0 none h).2 (NType.lit l) (List.mem_of_getElem? hi) rfl

/-- with one leaf per literal, the entry that `cardPD` reads is the number of listed root models
containing the literal -/
theorem cardPD_entry (nodes : List NType) (l : Int) (hne : nodes ≠ []) (ht : Topo nodes)
    (hd : Decomposable nodes) (hs : Smooth nodes) (hu : LitUnique nodes) :
    (match leafIx nodes l with
      | some i => (annotatePD nodes).getD i 0
      | none => 0) = bcount nodes l (rootIx nodes) := by
  rw [← annotatePD_wsum nodes l hne ht hd hs]
  cases hli : leafIx nodes l with
  | none =>
    have hw : ∀ i, wgt nodes l 0 i = 0 := by
      intro i
      have := leafIx_none nodes l hli i
      simp [wgt, this]
    show 0 = _
    unfold wsum
    rw [sum_map_eq_zero]
    intro i _
    rw [hw i]; simp
  | some j =>
    have hj := leafIx_some nodes l j hli
    have hjlt : j < nodes.length := by
      apply Classical.byContradiction
      intro hge
      rw [List.getElem?_eq_none (by omega)] at hj
      cases hj
    have hw : wgt nodes l 0 = fun i => (fun _ => 0) i + if i = j then 1 else 0 := by
      funext i
      by_cases hij : i = j
      · subst hij; simp [wgt, hj]
      · have : nodes[i]? ≠ some (.lit l) := by
          intro hi
          have hilt : i < nodes.length := by
            apply Classical.byContradiction
            intro hge
            rw [List.getElem?_eq_none (by omega)] at hi
            cases hi
          rw [List.getElem?_eq_getElem hilt] at hi
          rw [List.getElem?_eq_getElem hjlt] at hj
          exact hij (hu i j hilt hjlt l (Option.some.inj hi) (Option.some.inj hj))
        simp [wgt, this, hij]
    show (annotatePD nodes).getD j 0 = _
    rw [hw, wsum_add_w _ _ _ _ _ hjlt]
    have hz : wsum nodes.length (fun i => (annotatePD nodes).getD i 0) (fun _ => 0) = 0 := by
      unfold wsum
      apply sum_map_eq_zero
      intro i _; simp
    rw [hz]; simp

/-- the partial derivative at the leaf of literal `l` is the number of listed root models
containing `l` -/
def PDLeaf (nodes : List NType) : Prop :=
  ∀ l i, leafIx nodes l = some i →
    (annotatePD nodes).getD i 0
      = ((models nodes (rootIx nodes)).filter (fun c => c.contains l)).length

theorem pdLeaf_of_WF (nodes : List NType) (n : Nat) (h : WF nodes n) (hu : LitUnique nodes) :
    PDLeaf nodes := by
  intro l i hli
  have := cardPD_entry nodes l h.nonempty h.topo h.decomposable h.smooth hu
  rw [hli] at this
  rw [← List.countP_eq_length_filter]
  exact this

/-- a literal without a leaf occurs in no listed root model -/
theorem no_models_of_leafIx_none (nodes : List NType) (n : Nat) (h : WF nodes n) (l : Int)
    (hli : leafIx nodes l = none) :
    ((models nodes (rootIx nodes)).filter (fun c => c.contains l)).length = 0 := by
  rw [← List.countP_eq_length_filter]
  show bcount nodes l (rootIx nodes) = 0
  rw [← annotatePD_wsum nodes l h.nonempty h.topo h.decomposable h.smooth]
  unfold wsum
  apply sum_map_eq_zero
  intro i _
  have := leafIx_none nodes l hli i
  simp [wgt, this]

/-! ### the result -/

theorem cardPD_length (nodes : List NType) (n : Nat) : (cardPD nodes n).length = n := by
  simp [cardPD]

theorem cardPD_getD (nodes : List NType) (n k : Nat) (hk : k < n) :
    (cardPD nodes n).getD k 0
      = count nodes (rootIx nodes)
        - (match leafIx nodes (-((k : Int) + 1)) with
            | some i => (annotatePD nodes).getD i 0
            | none => 0) := by
  unfold cardPD
  simp only [List.getD_eq_getElem?_getD, List.getElem?_map, List.getElem?_range hk, Option.map_some,
    Option.getD_some]
  cases leafIx nodes (-((k : Int) + 1)) <;> simp

end Ddnnf
