/-
  Well-formedness of the array the d4 loader produces (part 7): the True/False elimination keeps the
  decomposability invariant `DInv`.

  * `elim_dinv`          `DInv s → DInv { s with g := eliminate s.g root }` (no hypothesis on the error flag);
  * `elim_mentions_tri`  a surviving inner node still mentions the feature of a triangle below it;
  * `elim_rootD`         a root without predecessors stays one (if it survives).
-/
import DdnnfVerif.Proofs.LoadWF2_6

namespace Ddnnf.D4

theorem TriShape.elim {g g' : G} (h : ERel2 g g') {f o : Nat} (ht : TriShape g f o) : TriShape g' f o := by
  obtain ⟨k', o'⟩ := h.stable o ht.2.1 ht.litKids
  obtain ⟨h1, _, pos, neg, ho, hp, hn⟩ := ht
  exact ⟨h1, k', pos, neg, by rw [o', ho], h.base.lit_fwd hp, h.base.lit_fwd hn⟩

theorem elim_dinv (s : LState) (root : Nat) (hd : DInv s) : DInv { s with g := eliminate s.g root } := by
  have rel := erel2_eliminate s.g root
  have hwfn := eliminate_wfn s.g.kind.size s.g root ⟨hd.b.p.linv.wf, rfl⟩
  refine ⟨⟨⟨hd.b.p.linv.setG _ hwfn.1 (by rw [hwfn.2]; exact Nat.le_refl _), ?_⟩, ?_, ?_, ?_⟩, ?_⟩
  · intro e he; exact rel.base.lit_fwd (hd.b.p.litK e he)
  · intro e he; exact (hd.b.tri e he).elim rel
  · intro x l hk
    exact hd.b.litR x l (rel.base.kind_back hk (by intro e; cases e))
  · intro x l hk
    have h0 := hd.b.litSink x l (rel.base.kind_back hk (by intro e; cases e))
    have hs := rel.sub x
    rw [h0] at hs
    exact List.eq_nil_of_sublist_nil hs
  · intro x hk
    have hk' := rel.base.kind_back hk (by decide)
    refine List.Pairwise.imp ?_ ((hd.dec x hk').sublist (rel.sub x))
    intro c d hdis f h1 h2
    exact hdis f (mentions_sub_of_erel rel.base h1) (mentions_sub_of_erel rel.base h2)

/-- a surviving inner node still mentions the feature of a triangle below it -/
theorem elim_mentions_tri {g g' : G} (h : ERel2 g g') {x o f : Nat}
    (hx : g'.kindOf x = some .and ∨ g'.kindOf x = some .or) (ho : o ∈ g.outs.getD x [])
    (ht : TriShape g f o) : Mentions g' x f := by
  have ht' := ht.elim h
  exact .inner hx (h.survive x o ho hx (Or.inr (Or.inl ht'.2.1))) ((mentions_tri ht' f).2 rfl)

theorem elim_rootD {s : LState} {root : Nat} (hw : WFG s.g) (hr : RootD s root)
    (halive : root ≠ 0 → (eliminate s.g root).kindOf root = some .and) :
    RootD { s with g := eliminate s.g root } root := by
  have rel := erel2_eliminate s.g root
  rcases hr with e | ⟨hlt, _, hnp⟩
  · exact Or.inl e
  · by_cases h0 : root = 0
    · exact Or.inl h0
    · refine Or.inr ⟨?_, halive h0, ?_⟩
      · show root < (eliminate s.g root).kind.size
        rw [(eliminate_wfn _ s.g root ⟨hw, rfl⟩).2]; exact hlt
      · intro y hy; exact hnp y (rel.base.outs y root hy)

end Ddnnf.D4
