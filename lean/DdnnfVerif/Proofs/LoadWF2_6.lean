/-
  Well-formedness of the array the d4 loader produces (part 6): a finer description of the True/False
  elimination (`ERel2`, refining `ERel` of `LoadSem6`).

    * `sub`      successor lists only lose elements (as sublists: order and multiplicities);
    * `stable`   an or-node all of whose successors are literal leaves (a triangle) is not touched;
    * `survive`  an edge `x → c` is only removed together with `x` (removed / resolved to True) or because
                 `c` is True, False or removed.

  `erel2_eliminate : ERel2 g (eliminate g root)`.
-/
import DdnnfVerif.Proofs.LoadWF2_5

namespace Ddnnf.D4

/-- the node is still an inner node or a literal leaf -/
def Alive (g : G) (c : Nat) : Prop :=
  g.kindOf c = some .and ∨ g.kindOf c = some .or ∨ ∃ l, g.kindOf c = some (.lit l)

structure ERel2 (g g' : G) : Prop where
  base : ERel g g'
  sub : ∀ x, (g'.outs.getD x []).Sublist (g.outs.getD x [])
  stable : ∀ x, g.kindOf x = some .or → LitKids g x →
    g'.kindOf x = some .or ∧ g'.outs.getD x [] = g.outs.getD x []
  survive : ∀ x c, c ∈ g.outs.getD x [] → (g'.kindOf x = some .and ∨ g'.kindOf x = some .or) →
    Alive g' c → c ∈ g'.outs.getD x []

theorem ERel2.refl (g : G) : ERel2 g g :=
  ⟨ERel.refl g, fun _ => List.Sublist.refl _, fun _ hk _ => ⟨hk, rfl⟩, fun _ _ hc _ _ => hc⟩

/-- kinds that the elimination never changes into -/
theorem ERel.kind_back {g g' : G} (h : ERel g g') {x : Nat} {k : GK} (hk : g'.kindOf x = some k)
    (hne : k ≠ .tru) : g.kindOf x = some k := by
  rcases h.kinds x with e | ⟨e, _⟩ | ⟨e, _⟩
  · rw [← e]; exact hk
  · rw [e] at hk; cases hk
  · rw [e] at hk; cases hk; exact absurd rfl hne

theorem ERel.lit_fwd {g g' : G} (h : ERel g g') {x : Nat} {l : Int} (hk : g.kindOf x = some (.lit l)) :
    g'.kindOf x = some (.lit l) := by
  rcases h.kinds x with e | ⟨_, e⟩ | ⟨_, e⟩
  · rw [e]; exact hk
  · rw [hk] at e; cases e
  · rw [hk] at e; cases e

theorem Alive.back {g g' : G} (h : ERel g g') {c : Nat} (ha : Alive g' c) : Alive g c := by
  rcases ha with hk | hk | ⟨l, hk⟩
  · exact Or.inl (h.kind_back hk (by decide))
  · exact Or.inr (Or.inl (h.kind_back hk (by decide)))
  · exact Or.inr (Or.inr ⟨l, h.kind_back hk (by intro e; cases e)⟩)

theorem ERel2.trans {g g' g'' : G} (h1 : ERel2 g g') (h2 : ERel2 g' g'') : ERel2 g g'' := by
  refine ⟨h1.base.trans h2.base, fun x => (h2.sub x).trans (h1.sub x), ?_, ?_⟩
  · intro x hk hl
    obtain ⟨k1, o1⟩ := h1.stable x hk hl
    have hl' : LitKids g' x := by
      intro c hc
      rw [o1] at hc
      obtain ⟨l, hcl⟩ := hl c hc
      exact ⟨l, h1.base.lit_fwd hcl⟩
    obtain ⟨k2, o2⟩ := h2.stable x k1 hl'
    exact ⟨k2, o2.trans o1⟩
  · intro x c hc hx hal
    have hx' : g'.kindOf x = some .and ∨ g'.kindOf x = some .or := by
      rcases hx with hx | hx
      · exact Or.inl (h2.base.kind_back hx (by decide))
      · exact Or.inr (h2.base.kind_back hx (by decide))
    exact h2.survive x c (h1.survive x c hc hx' (hal.back h2.base)) hx hal

theorem erel2_err (g : G) : ERel2 g { g with err := true } :=
  ⟨erel_err g, fun _ => List.Sublist.refl _, fun _ hk _ => ⟨hk, rfl⟩, fun _ _ hc _ _ => hc⟩

theorem not_alive_of {g : G} {b : Nat} (hb : g.kindOf b = some .tru ∨ g.kindOf b = some .fls) : ¬ Alive g b := by
  rintro (h | h | ⟨l, h⟩) <;> rcases hb with hb | hb <;> (rw [hb] at h; cases h)

theorem erel2_removeEdge (g : G) (a b : Nat) (hb : g.kindOf b = some .tru ∨ g.kindOf b = some .fls) :
    ERel2 g (g.removeEdge a b) := by
  refine ⟨erel_removeEdge g a b, ?_, ?_, ?_⟩
  · intro x
    rw [outs_removeEdge]
    split
    · rename_i h; rw [h.1]; exact List.erase_sublist
    · exact List.Sublist.refl _
  · intro x hk hl
    refine ⟨hk, ?_⟩
    rw [outs_removeEdge]
    split
    · rename_i h
      rw [h.1]
      apply List.erase_of_not_mem
      intro hm
      obtain ⟨l, hbl⟩ := hl b hm
      rcases hb with hb | hb <;> (rw [hb] at hbl; cases hbl)
    · rfl
  · intro x c hc _ hal
    rw [outs_removeEdge]
    split
    · rename_i h
      rw [h.1]
      have hcb : c ≠ b := by
        intro e; subst e
        exact not_alive_of hb hal
      exact (List.mem_erase_of_ne hcb).2 hc
    · exact hc

theorem filter_ne_eq_self {l : List Nat} {x : Nat} (h : x ∉ l) : l.filter (· != x) = l := by
  apply List.filter_eq_self.2
  intro a ha
  have : a ≠ x := fun e => h (e ▸ ha)
  simpa using this

theorem erel2_removeNode (g : G) (x : Nat) (hk : g.kindOf x = some .and) : ERel2 g (g.removeNode x) := by
  refine ⟨erel_removeNode g x hk, ?_, ?_, ?_⟩
  · intro y
    rw [removeNode_outs]
    split
    · exact List.nil_sublist _
    · split
      · exact List.filter_sublist
      · exact List.Sublist.refl _
  · intro y hky hl
    have hyx : y ≠ x := by intro e; rw [e, hk] at hky; cases hky
    refine ⟨by rw [removeNode_kindOf, if_neg hyx]; exact hky, ?_⟩
    rw [removeNode_outs, if_neg hyx]
    split
    · apply filter_ne_eq_self
      intro hm
      obtain ⟨l, hxl⟩ := hl x hm
      rw [hk] at hxl; cases hxl
    · rfl
  · intro y c hc hy hal
    have hyx : y ≠ x := by
      intro e
      rw [e, removeNode_kindOf, if_pos rfl] at hy
      rcases hy with h | h <;> cases h
    have hcx : c ≠ x := by
      intro e
      have : (g.removeNode x).kindOf c = none := by rw [e, removeNode_kindOf, if_pos rfl]
      rcases hal with h | h | ⟨l, h⟩ <;> (rw [this] at h; cases h)
    rw [removeNode_outs, if_neg hyx]
    split
    · exact List.mem_filter.2 ⟨hc, by simpa using hcx⟩
    · exact hc

theorem erel2_makeTrue (g : G) (x : Nat) (hk : g.kindOf x = some .or)
    (hc : ∃ c ∈ g.outs.getD x [], g.kindOf c = some .tru) : ERel2 g (g.makeTrue x) := by
  have hx : x < g.kind.size := kindOf_lt hk
  refine ⟨erel_makeTrue g x hk, ?_, ?_, ?_⟩
  · intro y
    rw [makeTrue_outs]
    split
    · exact List.nil_sublist _
    · exact List.Sublist.refl _
  · intro y hky hl
    have hyx : y ≠ x := by
      intro e; subst e
      obtain ⟨c, hcm, hct⟩ := hc
      obtain ⟨l, hcl⟩ := hl c hcm
      rw [hct] at hcl; cases hcl
    exact ⟨by rw [makeTrue_kindOf g x y hx, if_neg hyx]; exact hky, by rw [makeTrue_outs, if_neg hyx]⟩
  · intro y c hcm hy _
    have hyx : y ≠ x := by
      intro e
      rw [e, makeTrue_kindOf g x x hx, if_pos rfl] at hy
      rcases hy with h | h <;> cases h
    rw [makeTrue_outs, if_neg hyx]; exact hcm

theorem erel2_deleteChain : ∀ (fuel : Nat) (g : G) (current : Nat) (pending : List Nat),
    ERel2 g (deleteChain g fuel current pending) := by
  intro fuel
  induction fuel with
  | zero => intro g _ _; exact ERel2.refl g
  | succ fuel ih =>
    intro g current pending
    have next : ∀ g' p, ERel2 g' (chainNext g' fuel p) := by
      intro g' p
      rcases List.eq_nil_or_concat p with e | ⟨l, b, e⟩
      · subst e; exact ERel2.refl g'
      · rw [List.concat_eq_append] at e; subst e; rw [chainNext_concat]; exact ih g' b l
    cases hk : g.kindOf current with
    | none => rw [deleteChain_none g fuel current pending hk]; exact erel2_err g
    | some k =>
      by_cases hand : k = .and
      · subst hand
        rw [deleteChain_and g fuel current pending hk]
        exact (erel2_removeNode g current hk).trans (next _ _)
      · rw [deleteChain_other g fuel current pending k hk hand]; exact next _ _

theorem erel2_go (nx : Nat) : ∀ (cs : List Nat) (g : G),
    (∀ c, cs.count c ≤ (g.outs.getD nx []).count c) → ERel2 g (elimNode.go nx cs g) := by
  intro cs
  induction cs with
  | nil => intro g _; exact ERel2.refl g
  | cons c cs ih =>
    intro g hcnt
    have hc : c ∈ g.outs.getD nx [] := by
      apply List.count_pos_iff.1
      have := hcnt c
      rw [List.count_cons_self] at this
      omega
    have hcnt' : ∀ c', cs.count c' ≤ (g.outs.getD nx []).count c' :=
      fun c' => Nat.le_trans List.count_le_count_cons (hcnt c')
    have hcntE : ∀ c', cs.count c' ≤ ((g.removeEdge nx c).outs.getD nx []).count c' := by
      intro c'
      rw [outs_removeEdge_self g nx c hc, List.count_erase]
      have h0 := hcnt c'
      rw [List.count_cons] at h0
      by_cases hcc : c = c'
      · have hb : (c == c') = true := by simpa using hcc
        simp only [hb, if_true] at h0 ⊢
        omega
      · have hb : (c == c') = false := by simpa using hcc
        simp only [hb, Bool.false_eq_true, if_false] at h0 ⊢
        omega
    unfold elimNode.go
    split
    · exact ih g hcnt'
    · rename_i hkc
      split
      · exact (erel2_removeEdge g nx c (Or.inl hkc)).trans (ih _ hcntE)
      · rename_i hk; exact erel2_makeTrue g nx hk ⟨c, hc, hkc⟩
      · exact erel2_err g
      · exact erel2_err g
    · rename_i hkc
      split
      · exact (erel2_removeEdge g nx c (Or.inr hkc)).trans (ih _ hcntE)
      · exact erel2_deleteChain _ g nx []
      · exact erel2_err g
      · exact erel2_err g
    · exact ih g hcnt'

theorem erel2_elimNode (g : G) (nx : Nat) : ERel2 g (elimNode g nx) :=
  erel2_go nx _ g (fun _ => Nat.le_refl _)

theorem erel2_eliminate (g : G) (root : Nat) : ERel2 g (eliminate g root) := by
  unfold eliminate
  exact foldl_inv (fun g' => ERel2 g g') elimNode _ (fun g' nx _ h => h.trans (erel2_elimNode g' nx)) g
    (ERel2.refl g)

end Ddnnf.D4
