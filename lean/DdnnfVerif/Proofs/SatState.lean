/-
  The imperative SAT propagation with its caller-owned mark vector (`Model/SatState.lean`:
  `propagateMark`, `propagateAll`, `satPropagate`, `sat`, `satChunks`) computes the marks of the
  pure bottom-up pass (`Model/Query.lean`: `fSatMark`, `satMarks`, `satQuery`).

  * `pureMark_eq`, `rule_unique`, `marks_unique`: the pure marks are the unique solution of the
    local rule on a topologically ordered array;
  * `propagateMark_step`: one call of `propagate_mark` on the leaf of `l` turns the pure marking
    for `S` into the pure marking for `l :: S`;
  * `sat_eq_satQuery`, `satChunks_spec`: the answers of `sat` and of a kept vector.
-/
import DdnnfVerif.Model.SatState
import DdnnfVerif.Proofs.MarkState
import DdnnfVerif.Proofs.Sat

namespace Ddnnf.SatS
open Ddnnf.MS (parentsOf mem_parentsOf parent_gt getD_eq)

/-! ### the pure marks and their local rule -/

/-- the mark of node `i` in the pure pass of `Model/Query.lean` -/
def pureMark (nodes : List NType) (negs : List Int) (i : Nat) : Bool :=
  ((satMarks nodes negs).getD i (false, 0)).1

/-- the local rule read off `fSatMark`; `g` gives the marks of the children -/
def rule (nodes : List NType) (negs : List Int) (g : Nat → Bool) : NType → Bool
  | .lit l => negs.contains l
  | .and cs => cs.any g
  | .or cs => cs.any g && cs.all (fun c => g c || count nodes c == 0)
  | .tru => false
  | .fls => false

/-- the rule is monotone in the literal set and in the marks of the children -/
theorem rule_mono (nodes : List NType) (S T : List Int) (g g' : Nat → Bool) (nd : NType)
    (hl : ∀ x, nd = .lit x → S.contains x = true → T.contains x = true)
    (hg : ∀ c ∈ children nd, g c = true → g' c = true)
    (h : rule nodes S g nd = true) : rule nodes T g' nd = true := by
  cases nd with
  | lit x => exact hl x rfl h
  | tru => exact h
  | fls => exact h
  | and cs =>
    have h' : cs.any g = true := h
    show cs.any g' = true
    rw [List.any_eq_true] at h' ⊢
    obtain ⟨c, hc, hgc⟩ := h'
    exact ⟨c, hc, hg c hc hgc⟩
  | or cs =>
    have h' : (cs.any g && cs.all (fun c => g c || count nodes c == 0)) = true := h
    show (cs.any g' && cs.all (fun c => g' c || count nodes c == 0)) = true
    rw [Bool.and_eq_true, List.any_eq_true, List.all_eq_true] at h' ⊢
    obtain ⟨⟨c, hc, hgc⟩, hall⟩ := h'
    refine ⟨⟨c, hc, hg c hc hgc⟩, fun x hx => ?_⟩
    have := hall x hx
    rw [Bool.or_eq_true] at this ⊢
    exact this.imp (hg x hx) id

/-- the rule only reads the marks of the children (and, at a leaf, the literal of the leaf) -/
theorem rule_congr (nodes : List NType) (S T : List Int) (g g' : Nat → Bool) (nd : NType)
    (hl : ∀ x, nd = .lit x → S.contains x = T.contains x)
    (hg : ∀ c ∈ children nd, g c = g' c) : rule nodes S g nd = rule nodes T g' nd := by
  rw [Bool.eq_iff_iff]
  constructor
  · exact rule_mono nodes S T g g' nd (fun x hx h => by rw [← hl x hx]; exact h)
      (fun c hc h => by rw [← hg c hc]; exact h)
  · exact rule_mono nodes T S g' g nd (fun x hx h => by rw [hl x hx]; exact h)
      (fun c hc h => by rw [hg c hc]; exact h)

theorem pureMark_of_ge (nodes : List NType) (negs : List Int) (i : Nat) (hi : nodes.length ≤ i) :
    pureMark nodes negs i = false := by
  unfold pureMark
  rw [satMarks_getD, val_of_ge _ _ nodes i hi]

theorem pureMark_lt (nodes : List NType) (negs : List Int) (i : Nat)
    (h : pureMark nodes negs i = true) : i < nodes.length := by
  by_cases hi : i < nodes.length
  · exact hi
  · rw [pureMark_of_ge nodes negs i (by omega)] at h; cases h

theorem fSatMark_fst (nodes : List NType) (negs : List Int) (nd : NType) (g : Nat → Bool × Nat)
    (hg : ∀ c ∈ children nd, g c = (satMarks nodes negs).getD c (false, 0)) :
    (fSatMark negs nd g).1 = rule nodes negs (pureMark nodes negs) nd := by
  have h1 : ∀ c ∈ children nd, (g c).1 = pureMark nodes negs c := fun c hc => by
    rw [hg c hc]; rfl
  have h2 : ∀ c ∈ children nd, (g c).2 = count nodes c := fun c hc => by
    rw [hg c hc]; exact satMark_snd nodes negs c
  cases nd with
  | lit l => rfl
  | tru => rfl
  | fls => rfl
  | and cs =>
    show cs.any (fun c => (g c).1) = cs.any (pureMark nodes negs)
    rw [Bool.eq_iff_iff, List.any_eq_true, List.any_eq_true]
    constructor
    · rintro ⟨c, hc, h⟩; exact ⟨c, hc, by rw [← h1 c hc]; exact h⟩
    · rintro ⟨c, hc, h⟩; exact ⟨c, hc, by rw [h1 c hc]; exact h⟩
  | or cs =>
    show (cs.any (fun c => (g c).1) && cs.all (fun c => (g c).1 || (g c).2 == 0))
      = (cs.any (pureMark nodes negs)
          && cs.all (fun c => pureMark nodes negs c || count nodes c == 0))
    have e1 : cs.any (fun c => (g c).1) = cs.any (pureMark nodes negs) := by
      rw [Bool.eq_iff_iff, List.any_eq_true, List.any_eq_true]
      constructor
      · rintro ⟨c, hc, h⟩; exact ⟨c, hc, by rw [← h1 c hc]; exact h⟩
      · rintro ⟨c, hc, h⟩; exact ⟨c, hc, by rw [h1 c hc]; exact h⟩
    have e2 : cs.all (fun c => (g c).1 || (g c).2 == 0)
        = cs.all (fun c => pureMark nodes negs c || count nodes c == 0) := by
      rw [Bool.eq_iff_iff, List.all_eq_true, List.all_eq_true]
      constructor
      · intro h c hc; rw [← h1 c hc, ← h2 c hc]; exact h c hc
      · intro h c hc; rw [h1 c hc, h2 c hc]; exact h c hc
    rw [e1, e2]

/-- the pure marks satisfy the local rule: a leaf `lit l` is marked iff `negs.contains l`, an
and-node iff some child is marked, an or-node iff some child is marked and every child is marked
or has count 0, `tru` / `fls` never -/
theorem pureMark_eq (nodes : List NType) (htopo : Topo nodes) (negs : List Int) (i : Nat)
    (hi : i < nodes.length) :
    pureMark nodes negs i = rule nodes negs (pureMark nodes negs) nodes[i] := by
  show (val (false, 0) (fSatMark negs) nodes i).1 = _
  rw [val_eq _ _ nodes i hi]
  apply fSatMark_fst
  intro c hc
  rw [if_pos (htopo i hi c hc)]
  rfl

/-- uniqueness: a marking that satisfies the local rule at every index is the pure marking -/
theorem rule_unique (nodes : List NType) (htopo : Topo nodes) (negs : List Int) (g : Nat → Bool)
    (hg : ∀ i (h : i < nodes.length), g i = rule nodes negs g nodes[i]) :
    ∀ i, i < nodes.length → g i = pureMark nodes negs i := by
  intro i
  induction i using Nat.strongRecOn with
  | _ i ih =>
    intro hi
    rw [hg i hi, pureMark_eq nodes htopo negs i hi]
    apply rule_congr nodes negs negs _ _ _ (fun _ _ => rfl)
    intro c hc
    have hci : c < i := htopo i hi c hc
    exact ih c hci (by omega)

theorem markOf_of_ge (m : Array Bool) (j : Nat) (h : m.size ≤ j) : markOf m j = false :=
  getD_of_ge m false j h

/-- … as a statement about vectors: the vector is the first component of `satMarks` -/
theorem marks_unique (nodes : List NType) (htopo : Topo nodes) (negs : List Int) (m : Array Bool)
    (hs : m.size = nodes.length)
    (hm : ∀ i (h : i < nodes.length), markOf m i = rule nodes negs (markOf m) nodes[i]) :
    (∀ i, markOf m i = pureMark nodes negs i) ∧ m = (satMarks nodes negs).map (·.1) := by
  have hall : ∀ i, markOf m i = pureMark nodes negs i := by
    intro i
    by_cases hi : i < nodes.length
    · exact rule_unique nodes htopo negs (markOf m) hm i hi
    · rw [markOf_of_ge m i (by omega), pureMark_of_ge nodes negs i (by omega)]
  refine ⟨hall, ?_⟩
  have hsz : (satMarks nodes negs).size = nodes.length := table_size _ _ _
  apply Array.ext
  · rw [Array.size_map, hsz, hs]
  · intro i h1 h2
    have := hall i
    unfold markOf pureMark at this
    simp only [Array.getD_eq_getD_getElem?] at this
    rw [Array.size_map] at h2
    simpa [h1, h2] using this

/-! ### the vector layer -/

theorem markOf_set (m : Array Bool) (i j : Nat) :
    markOf (m.setIfInBounds i true) j = if j = i ∧ i < m.size then true else markOf m j := by
  unfold markOf
  simp only [Array.getD_eq_getD_getElem?, Array.getElem?_setIfInBounds]
  by_cases hji : j = i
  · subst hji
    by_cases hj : j < m.size
    · simp [hj]
    · simp [hj]
  · have : ¬ i = j := fun h => hji h.symm
    simp [hji, this]

theorem markOf_replicate (n j : Nat) : markOf (Array.replicate n false) j = false := by
  unfold markOf
  by_cases hj : j < n
  · simp [Array.getD_eq_getD_getElem?, hj]
  · simp [Array.getD_eq_getD_getElem?, hj]

/-- the or-test of `propagate_mark` -/
def blockedAt (nodes : List NType) (m : Array Bool) (i : Nat) : Bool :=
  match nodes.getD i .tru with
  | .or cs => !(cs.all fun c => markOf m c || count nodes c == 0)
  | _ => false

theorem propagateMark_succ (nodes : List NType) (fuel : Nat) (m : Array Bool) (i : Nat) :
    propagateMark nodes (fuel + 1) m i
      = if markOf m i then m
        else if blockedAt nodes m i then m
        else (parentsOf nodes i).foldl (fun m p => propagateMark nodes fuel m p)
          (m.setIfInBounds i true) := rfl

/-- `m'` has the size of `m` and contains its marks -/
def Grows (m m' : Array Bool) : Prop :=
  m'.size = m.size ∧ ∀ j, markOf m j = true → markOf m' j = true

theorem Grows.refl (m : Array Bool) : Grows m m := ⟨rfl, fun _ h => h⟩

theorem Grows.trans {m m' m'' : Array Bool} (h1 : Grows m m') (h2 : Grows m' m'') : Grows m m'' :=
  ⟨h2.1.trans h1.1, fun j h => h2.2 j (h1.2 j h)⟩

theorem grows_set (m : Array Bool) (i : Nat) : Grows m (m.setIfInBounds i true) := by
  refine ⟨by simp, fun j h => ?_⟩
  rw [markOf_set]; split
  · rfl
  · exact h

theorem fold_grows (F : Array Bool → Nat → Array Bool) (hF : ∀ m q, Grows m (F m q)) :
    ∀ (ps : List Nat) (m : Array Bool), Grows m (ps.foldl F m) := by
  intro ps
  induction ps with
  | nil => intro m; exact Grows.refl m
  | cons q rest ih => intro m; rw [List.foldl_cons]; exact (hF m q).trans (ih _)

/-- marks are only added -/
theorem propagateMark_grows (nodes : List NType) :
    ∀ (fuel : Nat) (m : Array Bool) (p : Nat), Grows m (propagateMark nodes fuel m p) := by
  intro fuel
  induction fuel with
  | zero => intro m p; exact Grows.refl m
  | succ fuel ih =>
    intro m p
    rw [propagateMark_succ]
    split
    · exact Grows.refl m
    · split
      · exact Grows.refl m
      · exact (grows_set m p).trans (fold_grows _ (fun m q => ih m q) _ _)

/-! ### soundness: every mark set by the recursion is a mark of the pure pass -/

/-- every mark of the vector is a pure mark for the literal list `T` -/
def Sound (nodes : List NType) (T : List Int) (m : Array Bool) : Prop :=
  ∀ j, markOf m j = true → pureMark nodes T j = true

theorem blockedAt_or (nodes : List NType) (m : Array Bool) (p : Nat) (hp : p < nodes.length)
    (cs : List Nat) (hnd : nodes[p] = .or cs) :
    blockedAt nodes m p = !(cs.all fun c => markOf m c || count nodes c == 0) := by
  unfold blockedAt
  rw [getD_eq nodes p hp, hnd]

theorem fold_sound (nodes : List NType) (T : List Int) (F : Array Bool → Nat → Array Bool) (p : Nat)
    (hgrow : ∀ m q, Grows m (F m q))
    (hF : ∀ m q, m.size = nodes.length → Sound nodes T m →
      (∃ h : q < nodes.length, p ∈ children nodes[q]) → markOf m p = true → Sound nodes T (F m q)) :
    ∀ (ps : List Nat) (m : Array Bool), (∀ q ∈ ps, ∃ h : q < nodes.length, p ∈ children nodes[q]) →
      m.size = nodes.length → Sound nodes T m → markOf m p = true →
      Sound nodes T (ps.foldl F m) := by
  intro ps
  induction ps with
  | nil => intro m _ _ h _; exact h
  | cons q rest ih =>
    intro m hps hsz hs hp
    rw [List.foldl_cons]
    exact ih _ (fun x hx => hps x (List.mem_cons_of_mem _ hx)) ((hgrow m q).1.trans hsz)
      (hF m q hsz hs (hps q (List.mem_cons_self ..)) hp) ((hgrow m q).2 p hp)

/-- a call of `propagate_mark` on a node that is a pure mark itself, or has a marked child, only
sets pure marks: at an and-node a marked child suffices, at an or-node the test of the algorithm
shows that every child is marked or has count 0 -/
theorem propagateMark_sound (nodes : List NType) (htopo : Topo nodes) (T : List Int) :
    ∀ (fuel : Nat) (m : Array Bool) (p : Nat) (hp : p < nodes.length), m.size = nodes.length →
      Sound nodes T m →
      (pureMark nodes T p = true ∨ ∃ c ∈ children nodes[p], markOf m c = true) →
      Sound nodes T (propagateMark nodes fuel m p) := by
  intro fuel
  induction fuel with
  | zero => intro m p _ _ hs _; exact hs
  | succ fuel ih =>
    intro m p hp hsz hs hjust
    rw [propagateMark_succ]
    by_cases hm : markOf m p = true
    · rw [if_pos hm]; exact hs
    · rw [if_neg hm]
      by_cases hb : blockedAt nodes m p = true
      · rw [if_pos hb]; exact hs
      · rw [if_neg hb]
        have hpure : pureMark nodes T p = true := by
          rcases hjust with h | ⟨c, hc, hmc⟩
          · exact h
          · rw [pureMark_eq nodes htopo T p hp]
            cases hnd : nodes[p] with
            | lit l => rw [hnd] at hc; cases hc
            | tru => rw [hnd] at hc; cases hc
            | fls => rw [hnd] at hc; cases hc
            | and cs =>
              rw [hnd] at hc
              show cs.any (pureMark nodes T) = true
              rw [List.any_eq_true]
              exact ⟨c, hc, hs c hmc⟩
            | or cs =>
              rw [hnd] at hc
              rw [blockedAt_or nodes m p hp cs hnd] at hb
              have hall : (cs.all fun c => markOf m c || count nodes c == 0) = true := by
                cases h : (cs.all fun c => markOf m c || count nodes c == 0) with
                | true => rfl
                | false => rw [h] at hb; exact absurd rfl hb
              show (cs.any (pureMark nodes T)
                && cs.all (fun c => pureMark nodes T c || count nodes c == 0)) = true
              rw [Bool.and_eq_true, List.any_eq_true, List.all_eq_true]
              rw [List.all_eq_true] at hall
              refine ⟨⟨c, hc, hs c hmc⟩, fun x hx => ?_⟩
              have := hall x hx
              rw [Bool.or_eq_true] at this ⊢
              exact this.imp (hs x) id
        have hs1 : Sound nodes T (m.setIfInBounds p true) := by
          intro j hj
          rw [markOf_set] at hj
          by_cases hc : j = p ∧ p < m.size
          · rw [hc.1]; exact hpure
          · rw [if_neg hc] at hj; exact hs j hj
        apply fold_sound nodes T _ p (fun m q => propagateMark_grows nodes fuel m q)
        · intro m' q hsz' hs' hq hp'
          obtain ⟨hq1, hq2⟩ := hq
          exact ih m' q hq1 hsz' hs' (Or.inr ⟨p, hq2, hp'⟩)
        · intro q hq; exact (mem_parentsOf nodes p q).mp hq
        · simpa using hsz
        · exact hs1
        · rw [markOf_set]; simp [hsz, hp]

/-! ### completeness: the final vector is closed under the rule -/

/-- the vector is closed under the rule at node `q`: if the rule fires, `q` is marked -/
def ClosedAt (nodes : List NType) (T : List Int) (m : Array Bool) (q : Nat) : Prop :=
  rule nodes T (markOf m) (nodes.getD q .tru) = true → markOf m q = true

/-- the worklist invariant: every parent of a node marked on the way from `m` to `m'` has been
re-examined, i.e. is closed in `m'` -/
def NewClosed (nodes : List NType) (T : List Int) (m m' : Array Bool) : Prop :=
  ∀ j, markOf m' j = true → markOf m j = false → ∀ q ∈ parentsOf nodes j, ClosedAt nodes T m' q

theorem NewClosed.refl (nodes : List NType) (T : List Int) (m : Array Bool) :
    NewClosed nodes T m m := by
  intro j h1 h2; rw [h1] at h2; cases h2

/-- closedness at `q` survives later marks: if a child of `q` gets marked later, `q` is one of
the parents that are re-examined -/
theorem closedAt_lift (nodes : List NType) (T : List Int) (m m' : Array Bool) (q : Nat)
    (hg : Grows m m') (hn : NewClosed nodes T m m') (hc : ClosedAt nodes T m q) :
    ClosedAt nodes T m' q := by
  intro hr
  by_cases hall : ∀ c ∈ children (nodes.getD q .tru), markOf m c = markOf m' c
  · apply hg.2 q
    apply hc
    rw [rule_congr nodes T T (markOf m) (markOf m') _ (fun _ _ => rfl) hall]
    exact hr
  · have hex : ∃ c, c ∈ children (nodes.getD q .tru) ∧ markOf m c ≠ markOf m' c := by
      apply Classical.byContradiction
      intro hne
      apply hall
      intro c hc
      apply Classical.byContradiction
      intro hcn
      exact hne ⟨c, hc, hcn⟩
    obtain ⟨c, hcq, hcne⟩ := hex
    have hq : q < nodes.length := by
      apply Classical.byContradiction
      intro hq
      have : nodes.getD q .tru = .tru := by
        simp [List.getD_eq_getElem?_getD, Nat.le_of_not_lt hq]
      rw [this] at hcq
      cases hcq
    rw [getD_eq nodes q hq] at hcq
    have hmc : markOf m c = false := by
      cases h : markOf m c with
      | false => rfl
      | true => rw [h, hg.2 c h] at hcne; exact absurd rfl hcne
    have hmc' : markOf m' c = true := by
      cases h : markOf m' c with
      | true => rfl
      | false => rw [h, hmc] at hcne; exact absurd rfl hcne
    exact hn c hmc' hmc q ((mem_parentsOf nodes c q).mpr ⟨hq, hcq⟩) hr

theorem NewClosed.trans {nodes : List NType} {T : List Int} {m m' m'' : Array Bool}
    (h1 : NewClosed nodes T m m') (h2 : NewClosed nodes T m' m'') (hg : Grows m' m'') :
    NewClosed nodes T m m'' := by
  intro j hj hnj q hq
  by_cases hm : markOf m' j = true
  · exact closedAt_lift nodes T m' m'' q hg h2 (h1 j hm hnj q hq)
  · exact h2 j hj (by simpa using hm) q hq

theorem fold_closed (nodes : List NType) (T : List Int) (F : Array Bool → Nat → Array Bool)
    (P : Nat → Prop) (hgrow : ∀ m q, Grows m (F m q))
    (hF : ∀ m q, m.size = nodes.length → P q →
      ClosedAt nodes T (F m q) q ∧ NewClosed nodes T m (F m q)) :
    ∀ (ps : List Nat) (m : Array Bool), m.size = nodes.length → (∀ q ∈ ps, P q) →
      (∀ q ∈ ps, ClosedAt nodes T (ps.foldl F m) q) ∧ NewClosed nodes T m (ps.foldl F m) := by
  intro ps
  induction ps with
  | nil => intro m _ _; exact ⟨fun q hq => (by cases hq), NewClosed.refl nodes T m⟩
  | cons q rest ih =>
    intro m hsz hP
    rw [List.foldl_cons]
    obtain ⟨hq1, hq2⟩ := hF m q hsz (hP q (List.mem_cons_self ..))
    obtain ⟨h1, h2⟩ := ih (F m q) ((hgrow m q).1.trans hsz)
      (fun x hx => hP x (List.mem_cons_of_mem _ hx))
    have hg : Grows (F m q) (rest.foldl F (F m q)) := fold_grows F hgrow rest _
    refine ⟨?_, hq2.trans h2 hg⟩
    intro x hx
    rcases List.mem_cons.mp hx with hx | hx
    · subst hx; exact closedAt_lift nodes T _ _ x hg h2 hq1
    · exact h1 x hx

theorem rule_of_blocked (nodes : List NType) (T : List Int) (m : Array Bool) (p : Nat)
    (hb : blockedAt nodes m p = true) :
    rule nodes T (markOf m) (nodes.getD p .tru) = false := by
  unfold blockedAt at hb
  cases hnd : nodes.getD p .tru with
  | lit l => rw [hnd] at hb; cases hb
  | tru => rfl
  | fls => rfl
  | and cs => rw [hnd] at hb; cases hb
  | or cs =>
    rw [hnd] at hb
    have hb' : (!(cs.all fun c => markOf m c || count nodes c == 0)) = true := hb
    show (cs.any (markOf m) && cs.all (fun c => markOf m c || count nodes c == 0)) = false
    cases h : (cs.all fun c => markOf m c || count nodes c == 0) with
    | true => rw [h] at hb'; cases hb'
    | false => simp

/-- the recursion re-examines exactly the parents of the nodes it marks; parents have larger
indices, so the fuel `nodes.length` suffices -/
theorem propagateMark_closed (nodes : List NType) (htopo : Topo nodes) (T : List Int) :
    ∀ (fuel : Nat) (m : Array Bool) (p : Nat), m.size = nodes.length → p < nodes.length →
      nodes.length ≤ fuel + p →
      ClosedAt nodes T (propagateMark nodes fuel m p) p ∧
      NewClosed nodes T m (propagateMark nodes fuel m p) := by
  intro fuel
  induction fuel with
  | zero => intro m p _ hp hf; omega
  | succ fuel ih =>
    intro m p hsz hp hf
    rw [propagateMark_succ]
    by_cases hm : markOf m p = true
    · rw [if_pos hm]; exact ⟨fun _ => hm, NewClosed.refl nodes T m⟩
    · rw [if_neg hm]
      by_cases hb : blockedAt nodes m p = true
      · rw [if_pos hb]
        refine ⟨?_, NewClosed.refl nodes T m⟩
        intro hr
        rw [rule_of_blocked nodes T m p hb] at hr
        cases hr
      · rw [if_neg hb]
        have hsz1 : (m.setIfInBounds p true).size = nodes.length := by simpa using hsz
        have hfold := fold_closed nodes T (fun m q => propagateMark nodes fuel m q)
          (fun q => p < q ∧ q < nodes.length) (fun m q => propagateMark_grows nodes fuel m q)
          (fun m' q hm' hq => ih m' q hm' hq.2 (by omega))
          (parentsOf nodes p) _ hsz1 (fun q hq => parent_gt nodes htopo p q hq)
        have hg := fold_grows (fun m q => propagateMark nodes fuel m q)
          (fun m q => propagateMark_grows nodes fuel m q) (parentsOf nodes p)
          (m.setIfInBounds p true)
        have hp1 : markOf (m.setIfInBounds p true) p = true := by
          rw [markOf_set]; simp [hsz, hp]
        refine ⟨fun _ => hg.2 p hp1, ?_⟩
        intro j hj hnj q hq
        by_cases hjp : j = p
        · subst hjp; exact hfold.1 q hq
        · refine hfold.2 j hj ?_ q hq
          rw [markOf_set, if_neg (fun h => hjp h.1)]; exact hnj

/-! ### the pure marks as a function of the literal list -/

/-- monotone in the literals, and only the literals of existing leaves matter -/
theorem pureMark_mono (nodes : List NType) (htopo : Topo nodes) (S T : List Int)
    (h : ∀ j (hj : j < nodes.length) (x : Int), nodes[j] = .lit x → x ∈ S → x ∈ T) :
    ∀ j, pureMark nodes S j = true → pureMark nodes T j = true := by
  intro j
  induction j using Nat.strongRecOn with
  | _ j ih =>
    intro hm
    have hj := pureMark_lt nodes S j hm
    rw [pureMark_eq nodes htopo S j hj] at hm
    rw [pureMark_eq nodes htopo T j hj]
    refine rule_mono nodes S T _ _ _ ?_ ?_ hm
    · intro x hx hc
      rw [List.contains_iff_mem] at hc ⊢
      exact h j hj x hx hc
    · intro c hc hcm
      exact ih c (htopo j hj c hc) hcm

/-- the pure marks depend only on which literals of existing leaves are in the list -/
theorem pureMark_congr (nodes : List NType) (htopo : Topo nodes) (S T : List Int)
    (h : ∀ j (hj : j < nodes.length) (x : Int), nodes[j] = .lit x → (x ∈ S ↔ x ∈ T)) :
    pureMark nodes S = pureMark nodes T := by
  funext j
  rw [Bool.eq_iff_iff]
  exact ⟨pureMark_mono nodes htopo S T (fun j hj x hx => (h j hj x hx).mp) j,
    pureMark_mono nodes htopo T S (fun j hj x hx => (h j hj x hx).mpr) j⟩

theorem pureMark_perm (nodes : List NType) (htopo : Topo nodes) (S T : List Int)
    (h : ∀ x, x ∈ S ↔ x ∈ T) : pureMark nodes S = pureMark nodes T :=
  pureMark_congr nodes htopo S T (fun _ _ x _ => h x)

/-- a literal without a leaf changes nothing -/
theorem pureMark_cons_absent (nodes : List NType) (htopo : Topo nodes) (l : Int) (S : List Int)
    (hl : MS.leafIx nodes l = none) : pureMark nodes (l :: S) = pureMark nodes S := by
  apply pureMark_congr nodes htopo
  intro j hj x hx
  have hne : x ≠ l := by
    intro hxl
    subst hxl
    have := MS.leafIx_none nodes x hl
    rw [(hasLit_iff nodes x).mpr ⟨j, hj, hx⟩] at this
    cases this
  simp [hne]

/-- nothing is marked without assumptions -/
theorem pureMark_nil (nodes : List NType) (htopo : Topo nodes) :
    ∀ j, pureMark nodes [] j = false := by
  intro j
  induction j using Nat.strongRecOn with
  | _ j ih =>
    by_cases hj : j < nodes.length
    · rw [pureMark_eq nodes htopo [] j hj]
      have hch : ∀ c ∈ children nodes[j], pureMark nodes [] c = false :=
        fun c hc => ih c (htopo j hj c hc)
      cases hnd : nodes[j] with
      | lit l => rfl
      | tru => rfl
      | fls => rfl
      | and cs =>
        rw [hnd] at hch
        show cs.any (pureMark nodes []) = false
        rw [List.any_eq_false]
        intro c hc; rw [hch c hc]; simp
      | or cs =>
        rw [hnd] at hch
        show (cs.any (pureMark nodes [])
          && cs.all (fun c => pureMark nodes [] c || count nodes c == 0)) = false
        have : cs.any (pureMark nodes []) = false := by
          rw [List.any_eq_false]
          intro c hc; rw [hch c hc]; simp
        rw [this]; rfl
    · exact pureMark_of_ge nodes [] j (by omega)

/-! ### one call of `propagate_mark` on a literal leaf -/

/-- the vector is the pure marking for the literal list `S` -/
def IsPure (nodes : List NType) (S : List Int) (m : Array Bool) : Prop :=
  m.size = nodes.length ∧ ∀ j, j < nodes.length → markOf m j = pureMark nodes S j

/-- One propagation step: if the vector is the pure marking for `S` and `i` is the leaf of `l`,
then after `propagate_mark(i)` the vector is the pure marking for `l :: S`. -/
theorem propagateMark_step (nodes : List NType) (htopo : Topo nodes) (hu : LitUnique nodes)
    (S : List Int) (m : Array Bool) (hsz : m.size = nodes.length)
    (hm : ∀ j, j < nodes.length → markOf m j = pureMark nodes S j)
    (i : Nat) (hi : i < nodes.length) (l : Int) (hl : nodes[i] = .lit l) :
    (propagateMark nodes nodes.length m i).size = nodes.length ∧
    ∀ j, j < nodes.length →
      markOf (propagateMark nodes nodes.length m i) j = pureMark nodes (l :: S) j := by
  have hgrow := propagateMark_grows nodes nodes.length m i
  -- soundness
  have hs0 : Sound nodes (l :: S) m := by
    intro j hj
    have hjl : j < nodes.length := by
      apply Classical.byContradiction
      intro hn
      rw [markOf_of_ge m j (by omega)] at hj
      cases hj
    rw [hm j hjl] at hj
    exact pureMark_mono nodes htopo S (l :: S) (fun _ _ x _ hx => List.mem_cons_of_mem _ hx) j hj
  have hpi : pureMark nodes (l :: S) i = true := by
    rw [pureMark_eq nodes htopo (l :: S) i hi, hl]
    show (l :: S).contains l = true
    simp
  have hsound := propagateMark_sound nodes htopo (l :: S) nodes.length m i hi hsz hs0 (Or.inl hpi)
  -- closedness
  have hc0 : ∀ j, j ≠ i → ClosedAt nodes (l :: S) m j := by
    intro j hji hr
    by_cases hj : j < nodes.length
    · rw [getD_eq nodes j hj] at hr
      rw [hm j hj, pureMark_eq nodes htopo S j hj]
      rw [← hr]
      symm
      apply rule_congr
      · intro x hx
        have hne : x ≠ l := fun hxl => hji (hu j i hj hi l (hxl ▸ hx) hl)
        simp [hne]
      · intro c hc
        exact hm c (by have := htopo j hj c hc; omega)
    · have : nodes.getD j .tru = .tru := by
        simp [List.getD_eq_getElem?_getD, Nat.le_of_not_lt hj]
      rw [this] at hr
      cases hr
  obtain ⟨hci, hnew⟩ := propagateMark_closed nodes htopo (l :: S) nodes.length m i hsz hi (by omega)
  have hclosed : ∀ j, ClosedAt nodes (l :: S) (propagateMark nodes nodes.length m i) j := by
    intro j
    by_cases hji : j = i
    · subst hji; exact hci
    · exact closedAt_lift nodes (l :: S) m _ j hgrow hnew (hc0 j hji)
  refine ⟨hgrow.1.trans hsz, ?_⟩
  intro j
  induction j using Nat.strongRecOn with
  | _ j ih =>
    intro hj
    have hrule : rule nodes (l :: S) (markOf (propagateMark nodes nodes.length m i)) nodes[j]
        = pureMark nodes (l :: S) j := by
      rw [pureMark_eq nodes htopo (l :: S) j hj]
      apply rule_congr nodes _ _ _ _ _ (fun _ _ => rfl)
      intro c hc
      have hcj := htopo j hj c hc
      exact ih c hcj (by omega)
    cases hp : pureMark nodes (l :: S) j with
    | true =>
      apply hclosed j
      rw [getD_eq nodes j hj, hrule, hp]
    | false =>
      cases hmj : markOf (propagateMark nodes nodes.length m i) j with
      | false => rfl
      | true => rw [hsound j hmj] at hp; cases hp

theorem IsPure.step {nodes : List NType} (htopo : Topo nodes) (hu : LitUnique nodes)
    {S : List Int} {m : Array Bool} (h : IsPure nodes S m) (i : Nat) (hi : i < nodes.length)
    (l : Int) (hl : nodes[i] = .lit l) :
    IsPure nodes (l :: S) (propagateMark nodes nodes.length m i) :=
  propagateMark_step nodes htopo hu S m h.1 h.2 i hi l hl

/-- a literal that is already in the list: the call returns the vector unchanged -/
theorem propagateMark_of_mem (nodes : List NType) (htopo : Topo nodes) (S : List Int)
    (m : Array Bool) (h : IsPure nodes S m) (i : Nat) (hi : i < nodes.length) (l : Int)
    (hl : nodes[i] = .lit l) (hmem : l ∈ S) (fuel : Nat) :
    propagateMark nodes fuel m i = m ∧ pureMark nodes (l :: S) = pureMark nodes S := by
  constructor
  · cases fuel with
    | zero => rfl
    | succ fuel =>
      rw [propagateMark_succ]
      have : markOf m i = true := by
        rw [h.2 i hi, pureMark_eq nodes htopo S i hi, hl]
        show S.contains l = true
        simpa using hmem
      rw [if_pos this]
  · apply pureMark_perm nodes htopo
    intro x
    simp only [List.mem_cons]
    constructor
    · rintro (h | h)
      · exact h ▸ hmem
      · exact h
    · exact Or.inr

/-! ### the loop over the features -/

theorem propagateAll_nil (nodes : List NType) (root : Nat) (m : Array Bool) :
    propagateAll nodes root m [] = (m, !markOf m root) := rfl

theorem propagateAll_cons_none (nodes : List NType) (root : Nat) (m : Array Bool) (f : Int)
    (rest : List Int) (h : MS.leafIx nodes (-f) = none) :
    propagateAll nodes root m (f :: rest) = propagateAll nodes root m rest := by
  simp only [propagateAll, h]

theorem propagateAll_cons_some (nodes : List NType) (root : Nat) (m : Array Bool) (f : Int)
    (rest : List Int) (i : Nat) (h : MS.leafIx nodes (-f) = some i) :
    propagateAll nodes root m (f :: rest)
      = if markOf (propagateMark nodes nodes.length m i) root
        then (propagateMark nodes nodes.length m i, false)
        else propagateAll nodes root (propagateMark nodes nodes.length m i) rest := by
  simp only [propagateAll, h]

theorem rootIx_lt (nodes : List NType) (hne : nodes ≠ []) : rootIx nodes < nodes.length := by
  have : 0 < nodes.length := List.length_pos_iff.mpr hne
  unfold rootIx; omega

/-- The loop: started on the pure marking for `S`, the answer is the negated pure root mark for
the complements of `A` together with `S` (the early exit does not matter: the root stays marked),
and when the answer is `true` the vector left behind is the pure marking for all of them. -/
theorem propagateAll_spec (nodes : List NType) (htopo : Topo nodes) (hne : nodes ≠ [])
    (hu : LitUnique nodes) :
    ∀ (A : List Int) (m : Array Bool) (S : List Int), IsPure nodes S m →
      (propagateAll nodes (rootIx nodes) m A).2
        = !pureMark nodes (A.map (fun f => -f) ++ S) (rootIx nodes) ∧
      ((propagateAll nodes (rootIx nodes) m A).2 = true →
        IsPure nodes (A.map (fun f => -f) ++ S) (propagateAll nodes (rootIx nodes) m A).1) := by
  have hroot := rootIx_lt nodes hne
  intro A
  induction A with
  | nil =>
    intro m S hm
    rw [propagateAll_nil]
    exact ⟨by rw [hm.2 _ hroot]; rfl, fun _ => hm⟩
  | cons f rest ih =>
    intro m S hm
    cases hl : MS.leafIx nodes (-f) with
    | none =>
      rw [propagateAll_cons_none nodes _ m f rest hl]
      have hfun : pureMark nodes ((f :: rest).map (fun f => -f) ++ S)
          = pureMark nodes (rest.map (fun f => -f) ++ S) :=
        pureMark_cons_absent nodes htopo (-f) _ hl
      obtain ⟨h1, h2⟩ := ih m S hm
      refine ⟨by rw [hfun]; exact h1, fun hb => ?_⟩
      obtain ⟨h3, h4⟩ := h2 hb
      exact ⟨h3, fun j hj => by rw [hfun]; exact h4 j hj⟩
    | some i =>
      obtain ⟨hi, hie⟩ := MS.leafIx_some nodes (-f) i hl
      rw [propagateAll_cons_some nodes _ m f rest i hl]
      have hstep := hm.step htopo hu i hi (-f) hie
      have hfun : pureMark nodes ((f :: rest).map (fun f => -f) ++ S)
          = pureMark nodes (rest.map (fun f => -f) ++ (-f) :: S) := by
        apply pureMark_perm nodes htopo
        intro x
        simp only [List.map_cons, List.cons_append, List.mem_cons, List.mem_append]
        constructor
        · rintro (h | h | h)
          · exact Or.inr (Or.inl h)
          · exact Or.inl h
          · exact Or.inr (Or.inr h)
        · rintro (h | h | h)
          · exact Or.inr (Or.inl h)
          · exact Or.inl h
          · exact Or.inr (Or.inr h)
      by_cases hr : markOf (propagateMark nodes nodes.length m i) (rootIx nodes) = true
      · rw [if_pos hr]
        refine ⟨?_, fun hb => by cases hb⟩
        rw [hstep.2 _ hroot] at hr
        have : pureMark nodes ((f :: rest).map (fun f => -f) ++ S) (rootIx nodes) = true := by
          rw [hfun]
          exact pureMark_mono nodes htopo _ _
            (fun _ _ x _ hx => List.mem_append_right _ hx) _ hr
        rw [this]; rfl
      · rw [if_neg hr]
        obtain ⟨h1, h2⟩ := ih _ ((-f) :: S) hstep
        refine ⟨by rw [hfun]; exact h1, fun hb => ?_⟩
        obtain ⟨h3, h4⟩ := h2 hb
        exact ⟨h3, fun j hj => by rw [hfun]; exact h4 j hj⟩

/-! ### `sat_propagate`, `sat` and the kept vector -/

theorem satQuery_eq (nodes : List NType) (n : Nat) (A : List Int) :
    satQuery nodes n A
      = if A.any (fun f => (coreOf nodes n).contains (-f)) then false
        else !pureMark nodes (A.map (fun f => -f)) (rootIx nodes) := rfl

theorem satPropagate_eq (nodes : List NType) (n : Nat) (m : Array Bool) (A : List Int) :
    satPropagate nodes n m A
      = if A.any (fun f => (coreOf nodes n).contains (-f)) then (m, false)
        else propagateAll nodes (rootIx nodes) m A := rfl

theorem isPure_replicate (nodes : List NType) (htopo : Topo nodes) :
    IsPure nodes [] (Array.replicate nodes.length false) :=
  ⟨by simp, fun j _ => by rw [markOf_replicate, pureMark_nil nodes htopo]⟩

/-- `sat_propagate` on a vector that is the pure marking for the complements of the literals `P`
passed so far, none of which is excluded by the core: the answer is the answer of a fresh query
for `P ++ A`; if it is `true`, the vector left behind is the pure marking for `P ++ A` and no
literal of `A` is excluded by the core -/
theorem satPropagate_spec (nodes : List NType) (n : Nat) (htopo : Topo nodes) (hne : nodes ≠ [])
    (hu : LitUnique nodes) (P A : List Int) (m : Array Bool)
    (hm : IsPure nodes (P.map (fun f => -f)) m)
    (hP : P.any (fun f => (coreOf nodes n).contains (-f)) = false) :
    (satPropagate nodes n m A).2 = satQuery nodes n (P ++ A) ∧
    ((satPropagate nodes n m A).2 = true →
      IsPure nodes ((P ++ A).map (fun f => -f)) (satPropagate nodes n m A).1 ∧
      (P ++ A).any (fun f => (coreOf nodes n).contains (-f)) = false) := by
  rw [satPropagate_eq, satQuery_eq, List.any_append, hP, Bool.false_or]
  by_cases hany : A.any (fun f => (coreOf nodes n).contains (-f)) = true
  · rw [if_pos hany, if_pos hany]
    exact ⟨rfl, fun h => by cases h⟩
  · rw [if_neg hany, if_neg hany]
    have hfun : pureMark nodes ((P ++ A).map (fun f => -f))
        = pureMark nodes (A.map (fun f => -f) ++ P.map (fun f => -f)) := by
      apply pureMark_perm nodes htopo
      intro x
      simp only [List.map_append, List.mem_append]
      exact Or.comm
    obtain ⟨h1, h2⟩ := propagateAll_spec nodes htopo hne hu A m _ hm
    refine ⟨by rw [hfun]; exact h1, fun hb => ⟨?_, by simpa using hany⟩⟩
    obtain ⟨h3, h4⟩ := h2 hb
    exact ⟨h3, fun j hj => by rw [hfun]; exact h4 j hj⟩

/-- The imperative propagation on a fresh vector answers like the pure fixpoint model. -/
theorem sat_eq_satQuery (nodes : List NType) (n : Nat) (htopo : Topo nodes) (hne : nodes ≠ [])
    (hu : LitUnique nodes) (A : List Int) : sat nodes n A = satQuery nodes n A :=
  (satPropagate_spec nodes n htopo hne hu [] A _ (isPure_replicate nodes htopo) rfl).1

theorem satChunks_cons (nodes : List NType) (n : Nat) (m : Array Bool) (A : List Int)
    (rest : List (List Int)) :
    satChunks nodes n m (A :: rest)
      = ((satChunks nodes n (satPropagate nodes n m A).1 rest).1,
         (satPropagate nodes n m A).2 :: (satChunks nodes n (satPropagate nodes n m A).1 rest).2) :=
  rfl

theorem satChunks_gen (nodes : List NType) (n : Nat) (htopo : Topo nodes) (hne : nodes ≠ [])
    (hu : LitUnique nodes) :
    ∀ (chunks : List (List Int)) (P : List Int) (m : Array Bool),
      IsPure nodes (P.map (fun f => -f)) m →
      P.any (fun f => (coreOf nodes n).contains (-f)) = false →
      ∀ k, k < chunks.length →
        (∀ j, j < k → ((satChunks nodes n m chunks).2).getD j false = true) →
        ((satChunks nodes n m chunks).2).getD k false
          = satQuery nodes n (P ++ (chunks.take (k + 1)).flatten) := by
  intro chunks
  induction chunks with
  | nil => intro P m _ _ k hk; cases hk
  | cons A rest ih =>
    intro P m hm hP k hk hprev
    obtain ⟨h1, h2⟩ := satPropagate_spec nodes n htopo hne hu P A m hm hP
    rw [satChunks_cons] at hprev ⊢
    cases k with
    | zero =>
      show (satPropagate nodes n m A).2 = _
      rw [h1]
      simp
    | succ k =>
      have hb : (satPropagate nodes n m A).2 = true := hprev 0 (by omega)
      obtain ⟨h3, h4⟩ := h2 hb
      have := ih (P ++ A) _ h3 h4 k (by simpa using hk) (fun j hj => hprev (j + 1) (by omega))
      show ((satChunks nodes n (satPropagate nodes n m A).1 rest).2).getD k false = _
      rw [this]
      simp [List.append_assoc]

/-- kept vector: as long as all earlier answers were `true`, the k-th call answers like a fresh
query for all literals passed so far (and the kept vector is the pure marking for them:
`satPropagate_spec`) -/
theorem satChunks_spec (nodes : List NType) (n : Nat) (htopo : Topo nodes) (hne : nodes ≠ [])
    (hu : LitUnique nodes) (chunks : List (List Int)) (k : Nat) (hk : k < chunks.length)
    (hprev : ∀ j, j < k →
      ((satChunks nodes n (Array.replicate nodes.length false) chunks).2).getD j false = true) :
    ((satChunks nodes n (Array.replicate nodes.length false) chunks).2).getD k false
      = satQuery nodes n ((chunks.take (k + 1)).flatten) :=
  satChunks_gen nodes n htopo hne hu chunks [] _ (isPure_replicate nodes htopo) rfl k hk hprev

/-- … and when every answer was `true`, the vector left behind is the pure marking for (the
complements of) all literals passed -/
theorem satChunks_kept (nodes : List NType) (n : Nat) (htopo : Topo nodes) (hne : nodes ≠ [])
    (hu : LitUnique nodes) :
    ∀ (chunks : List (List Int)) (P : List Int) (m : Array Bool),
      IsPure nodes (P.map (fun f => -f)) m →
      P.any (fun f => (coreOf nodes n).contains (-f)) = false →
      (∀ j, j < chunks.length → ((satChunks nodes n m chunks).2).getD j false = true) →
      IsPure nodes ((P ++ chunks.flatten).map (fun f => -f)) (satChunks nodes n m chunks).1 := by
  intro chunks
  induction chunks with
  | nil =>
    intro P m hm _ _
    show IsPure nodes ((P ++ ([] : List (List Int)).flatten).map (fun f => -f)) m
    simpa using hm
  | cons A rest ih =>
    intro P m hm hP hall
    obtain ⟨_, h2⟩ := satPropagate_spec nodes n htopo hne hu P A m hm hP
    rw [satChunks_cons] at hall ⊢
    have hb : (satPropagate nodes n m A).2 = true := hall 0 (by simp)
    obtain ⟨h3, h4⟩ := h2 hb
    have := ih (P ++ A) _ h3 h4 (fun j hj => hall (j + 1) (by simpa using hj))
    simpa [List.append_assoc] using this

end Ddnnf.SatS
