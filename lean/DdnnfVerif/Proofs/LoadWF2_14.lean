/-
  Well-formedness of the array the d4 loader produces (part 14): the hypotheses of `load_wf'` are
  satisfiable — a worked example.

  The text `o 1 0 / t 2 0 / 1 2 1 0 / 1 2 -1 0` (the formula `x1 ∨ ¬x1`) with two features (feature 2 is
  free): all hypotheses of `load_wf'` / `load_count'` hold, so the loaded array (an and-root over the
  triangle of feature 2 and the or-node of the file) is well formed and its count is the number of
  models over two features.
-/
import DdnnfVerif.Proofs.LoadWF2_13

namespace Ddnnf.D4

def exLines : List Line := [.node .or, .node .tru, .edge 1 2 [1], .edge 1 2 [-1]]

/-- a rank for the graph of the example -/
def exR : Nat → Nat := fun x => if x = 0 then 2 else if x = 3 ∨ x = 5 then 1 else 0

theorem ex_kind : (phase1 exLines 2).g.kind =
    #[some .or, some .tru, some (.lit 1), some .and, some (.lit (-1)), some .and] := by decide

theorem ex_outs : (phase1 exLines 2).g.outs = #[[5, 3], [], [], [1, 2], [], [1, 4]] := by decide

theorem ex_kindOf (x : Nat) : (phase1 exLines 2).g.kindOf x =
    (#[some .or, some .tru, some (.lit 1), some .and, some (.lit (-1)), some .and] :
      Array (Option GK)).getD x none := by
  unfold G.kindOf; rw [ex_kind]

theorem ex_outsOf (x : Nat) : (phase1 exLines 2).g.outs.getD x [] =
    (#[[5, 3], [], [], [1, 2], [], [1, 4]] : Array (List Nat)).getD x [] := by
  rw [ex_outs]

theorem ex_acyclic : Acyclic (phase1 exLines 2).g exR := by
  intro x c hc
  rw [ex_outsOf] at hc
  match x with
  | 0 => simp at hc; rcases hc with rfl | rfl <;> decide
  | 1 => simp at hc
  | 2 => simp at hc
  | 3 => simp at hc; rcases hc with rfl | rfl <;> decide
  | 4 => simp at hc
  | 5 => simp at hc; rcases hc with rfl | rfl <;> decide
  | n + 6 => simp at hc

theorem ex_litnz : LitNZ (phase1 exLines 2).g := by
  intro x l hk
  rw [ex_kindOf] at hk
  match x with
  | 0 => simp at hk
  | 1 => simp at hk
  | 2 => simp at hk; rw [← hk]; decide
  | 3 => simp at hk
  | 4 => simp at hk; rw [← hk]; decide
  | 5 => simp at hk
  | n + 6 => simp at hk

theorem ex_no_mention_tru (f : Nat) : ¬ Mentions (phase1 exLines 2).g 1 f := by
  intro h
  rcases h.kind with ⟨l, hk⟩ | hk | hk <;> (rw [ex_kindOf] at hk; simp at hk)

theorem ex_dec : GDec (phase1 exLines 2).g := by
  intro x hk
  rw [ex_kindOf] at hk
  rw [ex_outsOf]
  match x with
  | 0 => simp at hk
  | 1 => simp at hk
  | 2 => simp at hk
  | 3 =>
    show List.Pairwise _ [1, 2]
    rw [List.pairwise_cons]
    exact ⟨fun d _ f h => absurd h (ex_no_mention_tru f), List.pairwise_singleton _ _⟩
  | 4 => simp at hk
  | 5 =>
    show List.Pairwise _ [1, 4]
    rw [List.pairwise_cons]
    exact ⟨fun d _ f h => absurd h (ex_no_mention_tru f), List.pairwise_singleton _ _⟩
  | n + 6 => simp at hk

theorem ex_sem3 (σ : Assignment) : sem σ (phase1 exLines 2).g exR 3 = σ 1 := by
  rw [sem_and σ _ exR ex_acyclic 3 (by rw [ex_kindOf]; rfl), ex_outsOf]
  show ([1, 2] : List Nat).all _ = _
  simp only [List.all_cons, List.all_nil, Bool.and_true]
  rw [sem_tru σ _ exR 1 (by rw [ex_kindOf]; rfl), sem_lit σ _ exR 2 1 (by rw [ex_kindOf]; rfl)]
  simp [litTrue]

theorem ex_sem5 (σ : Assignment) : sem σ (phase1 exLines 2).g exR 5 = !σ 1 := by
  rw [sem_and σ _ exR ex_acyclic 5 (by rw [ex_kindOf]; rfl), ex_outsOf]
  show ([1, 4] : List Nat).all _ = _
  simp only [List.all_cons, List.all_nil, Bool.and_true]
  rw [sem_tru σ _ exR 1 (by rw [ex_kindOf]; rfl), sem_lit σ _ exR 4 (-1) (by rw [ex_kindOf]; rfl)]
  simp [litTrue]

theorem ex_det (σ : Assignment) (x : Nat) (hk : (phase1 exLines 2).g.kindOf x = some .or) :
    ((phase1 exLines 2).g.outs.getD x []).countP (sem σ (phase1 exLines 2).g exR) ≤ 1 := by
  rw [ex_kindOf] at hk
  rw [ex_outsOf]
  match x with
  | 0 =>
    show ([5, 3] : List Nat).countP _ ≤ 1
    simp only [List.countP_cons, List.countP_nil, ex_sem3, ex_sem5]
    cases σ 1 <;> simp
  | 1 => simp at hk
  | 2 => simp at hk
  | 3 => simp at hk
  | 4 => simp at hk
  | 5 => simp at hk
  | n + 6 => simp at hk

theorem ex_sat : ∃ σ, sem σ (phase1 exLines 2).g exR 0 = true := by
  refine ⟨fun _ => true, ?_⟩
  rw [sem_or _ _ exR ex_acyclic 0 (by rw [ex_kindOf]; rfl), ex_outsOf]
  show ([5, 3] : List Nat).any _ = true
  simp only [List.any_cons, List.any_nil, ex_sem3, ex_sem5]
  rfl

theorem ex_decl : ∀ l, Line.node (.lit l) ∉ exLines := by
  intro l h
  simp [exLines] at h

/-- the hypotheses of `load_wf'` hold for the example: its loaded array is well formed -/
theorem ex_wf : WF (load exLines 2).2.1 (load exLines 2).1 :=
  load_wf' exLines 2 ⟨.or, by decide⟩ ex_decl exR ex_acyclic ex_litnz ex_dec ex_det (by decide) ex_sat

/-- … and its count is the number of models of `x1 ∨ ¬x1` over two features -/
theorem ex_count : count (load exLines 2).2.1 (rootIx (load exLines 2).2.1) =
    ((allBits (load exLines 2).1).filter fun b => sem (assignOf b) (phase1 exLines 2).g exR 0).length :=
  load_count' exLines 2 ⟨.or, by decide⟩ ex_decl exR ex_acyclic ex_litnz ex_dec ex_det (by decide) ex_sat

end Ddnnf.D4
