/-
  Well-formedness of the array the d4 loader produces (part 7b): determinism, stated without reference
  to a particular denotation.

  `GDet g`: under every assignment and every model `v` of the graph (`Model σ g v`, on acyclic graphs the
  only model is `sem`), at most one successor of every or-node is true (with multiplicities).

  The adding phases only extend the graph: a model of the new graph, cut off at the old size (`cut n v`),
  is a model of the old graph (`model_cut_addStep`, `model_cut_wrapStep`, `model_cut_insertAnd`), so the
  old or-nodes are still deterministic; the new or-nodes are triangles (`tri_det`).
  The elimination: `gdet_elim` (acyclic graph, consistent predecessor lists, no error flag).
-/
import DdnnfVerif.Proofs.LoadWF2_7

namespace Ddnnf.D4

def GDet (g : G) : Prop :=
  ∀ (σ : Assignment) (v : Nat → Bool), Model σ g v → ∀ x, g.kindOf x = some .or →
    (g.outs.getD x []).countP v ≤ 1

/-- a valuation cut off at `n` -/
def cut (n : Nat) (v : Nat → Bool) : Nat → Bool := fun x => decide (x < n) && v x

theorem cut_lt {n : Nat} (v : Nat → Bool) {x : Nat} (h : x < n) : cut n v x = v x := by
  simp [cut, h]

theorem cut_ge {n : Nat} (v : Nat → Bool) {x : Nat} (h : n ≤ x) : cut n v x = false := by
  have : ¬ x < n := by omega
  simp [cut, this]

theorem cut_cut {n m : Nat} (h : n ≤ m) (v : Nat → Bool) : cut n (cut m v) = cut n v := by
  funext x
  by_cases hx : x < n
  · rw [cut_lt _ hx, cut_lt _ hx, cut_lt _ (by omega)]
  · rw [cut_ge _ (by omega), cut_ge _ (by omega)]

/-- a triangle is true -/
theorem tri_true {σ : Assignment} {g : G} {v : Nat → Bool} (hm : Model σ g v) {f o : Nat}
    (ht : TriShape g f o) : v o = true := by
  obtain ⟨hf, hk, pos, neg, ho, hp, hn⟩ := ht
  rw [hm.or hk, ho]
  simp only [List.any_cons, List.any_nil, Bool.or_false]
  rw [hm.lit hp, hm.lit hn, Bool.or_comm]
  exact litTrue_tri σ f hf

/-- a triangle is deterministic -/
theorem tri_det {σ : Assignment} {g : G} {v : Nat → Bool} (hm : Model σ g v) {f o : Nat}
    (ht : TriShape g f o) : (g.outs.getD o []).countP v ≤ 1 := by
  obtain ⟨hf, hk, pos, neg, ho, hp, hn⟩ := ht
  rw [ho]
  have h1 : v pos = litTrue σ (f : Int) := hm.lit hp
  have h2 : v neg = litTrue σ (-(f : Int)) := hm.lit hn
  have hp1 : (f : Int) > 0 := by omega
  have hn1 : ¬ (-(f : Int) > 0) := by omega
  have hn2 : -(f : Int) < 0 := by omega
  simp only [List.countP_cons, List.countP_nil, h1, h2, litTrue, hp1, hn1, hn2, if_true, if_false,
    Int.natAbs_neg, Int.natAbs_natCast]
  cases σ f <;> simp

theorem all_eq_of_mem {l l' : List Nat} {v v' : Nat → Bool}
    (hfw : (∀ c ∈ l, v c = true) → ∀ c ∈ l', v' c = true)
    (hbw : (∀ c ∈ l', v' c = true) → ∀ c ∈ l, v c = true) : l.all v = l'.all v' := by
  cases h : l.all v with
  | true =>
    symm; rw [List.all_eq_true]
    exact hfw (List.all_eq_true.1 h)
  | false =>
    symm
    cases h' : l'.all v' with
    | false => rfl
    | true =>
      have := hbw (List.all_eq_true.1 h')
      rw [← List.all_eq_true, h] at this
      cases this

/-- hanging triangles under an and-node: a model of the new graph, cut off, is a model of the old one -/
theorem model_cut_addStep {s s' : LState} {A : Nat} (ha : AddStep s s' A) (hb' : BInv s') (hw : WFG s.g)
    (hA : A < s.g.kind.size) (hAk : s.g.kindOf A = some .and) {σ : Assignment} {v' : Nat → Bool}
    (hm : Model σ s'.g v') : Model σ s.g (cut s.g.kind.size v') := by
  intro x
  by_cases hx : x < s.g.kind.size
  · rw [cut_lt _ hx, hm x]
    by_cases hxa : x = A
    · subst hxa
      have hk' : s'.g.kindOf x = some .and := by rw [ha.kinds x hx]; exact hAk
      simp only [stepV, hk', hAk]
      symm
      apply all_eq_of_mem
      · intro h c hc
        rcases ha.attachSub c hc with hc' | ⟨e, he, ex⟩
        · have := h c hc'
          rw [cut_lt _ (hw.edges x c hc')] at this
          exact this
        · rw [← ex]; exact tri_true hm (hb'.tri e he)
      · intro h c hc
        rw [cut_lt _ (hw.edges x c hc)]
        exact h c (ha.attachSup c hc)
    · exact stepV_congr_g σ s.g s'.g (cut s.g.kind.size v') v' x (ha.kinds x hx) (ha.outs x hx hxa)
        (fun c hc => (cut_lt _ (hw.edges x c hc)).symm)
  · rw [cut_ge _ (by omega)]
    simp only [stepV, kindOf_of_ge s.g x (by omega)]

theorem gdet_of_cut {s s' : LState} (hb' : BInv s') (hw : WFG s.g)
    (hkinds : ∀ x, x < s.g.kind.size → s'.g.kindOf x = s.g.kindOf x)
    (houts : ∀ x, x < s.g.kind.size → s.g.kindOf x = some .or → s'.g.outs.getD x [] = s.g.outs.getD x [])
    (hnew : ∀ x, s.g.kind.size ≤ x → s'.g.kindOf x = some .or → ∃ e ∈ s'.tri, e.2 = x)
    (hcut : ∀ (σ : Assignment) (v' : Nat → Bool), Model σ s'.g v' → Model σ s.g (cut s.g.kind.size v'))
    (hg : GDet s.g) : GDet s'.g := by
  intro σ v' hm x hk
  by_cases hx : x < s.g.kind.size
  · have hk0 : s.g.kindOf x = some .or := by rw [← hkinds x hx]; exact hk
    rw [houts x hx hk0]
    have := hg σ _ (hcut σ v' hm) x hk0
    rw [List.countP_congr (fun c hc => by rw [cut_lt _ (hw.edges x c hc)])] at this
    exact this
  · obtain ⟨e, he, ex⟩ := hnew x (by omega) hk
    rw [← ex]
    exact tri_det hm (hb'.tri e he)

theorem gdet_addStep {s s' : LState} {A : Nat} (ha : AddStep s s' A) (hb' : BInv s') (hw : WFG s.g)
    (hA : A < s.g.kind.size) (hAk : s.g.kindOf A = some .and) (hg : GDet s.g) : GDet s'.g :=
  gdet_of_cut hb' hw ha.kinds
    (fun x hx hk => ha.outs x hx (by intro e; rw [e, hAk] at hk; cases hk)) ha.newOr
    (fun _ _ hm => model_cut_addStep ha hb' hw hA hAk hm) hg

/-- the folds of `addFree` / `addVanished` -/
theorem model_cut_wrapStep {s s' : LState} {root root' : Nat} (w : WrapStep s root s' root') (hb' : BInv s')
    (hw : WFG s.g) (hr : root = 0 ∨ (root < s.g.kind.size ∧ s.g.kindOf root = some .and))
    {σ : Assignment} {v' : Nat → Bool} (hm : Model σ s'.g v') : Model σ s.g (cut s.g.kind.size v') := by
  intro x
  by_cases hx : x < s.g.kind.size
  · rw [cut_lt _ hx, hm x]
    by_cases hxr : root = 0 ∨ x ≠ root
    · exact stepV_congr_g σ s.g s'.g (cut s.g.kind.size v') v' x (w.kinds x hx) (w.outs x hx hxr)
        (fun c hc => (cut_lt _ (hw.edges x c hc)).symm)
    · have h0 : root ≠ 0 := fun e => hxr (Or.inl e)
      have hxe : x = root := Classical.byContradiction fun e => hxr (Or.inr e)
      subst hxe
      have hrk : s.g.kindOf x = some .and := by
        rcases hr with e | h
        · exact absurd e h0
        · exact h.2
      have e' : root' = x := by
        rcases w.rootEq with e | ⟨e, _⟩
        · exact e
        · exact absurd e h0
      have hk' : s'.g.kindOf x = some .and := by rw [w.kinds x hx]; exact hrk
      simp only [stepV, hk', hrk]
      symm
      apply all_eq_of_mem
      · intro h c hc
        rw [← e'] at hc
        rcases w.rootOuts (by rw [e']; exact h0) c hc with ⟨_, hc'⟩ | ⟨e0, _⟩ | ⟨e, he, ex⟩
        · have := h c hc'
          rw [cut_lt _ (hw.edges x c hc')] at this
          exact this
        · exact absurd e0 h0
        · rw [← ex]; exact tri_true hm (hb'.tri e he)
      · intro h c hc
        rw [cut_lt _ (hw.edges x c hc)]
        exact h c (w.rootSup h0 c hc)
  · rw [cut_ge _ (by omega)]
    simp only [stepV, kindOf_of_ge s.g x (by omega)]

theorem gdet_wrapStep {s s' : LState} {root root' : Nat} (w : WrapStep s root s' root') (hb' : BInv s')
    (hw : WFG s.g) (hr : root = 0 ∨ (root < s.g.kind.size ∧ s.g.kindOf root = some .and))
    (hg : GDet s.g) : GDet s'.g :=
  gdet_of_cut hb' hw w.kinds
    (fun x hx hk => w.outs x hx (by
      rcases hr with e | h
      · exact Or.inl e
      · right; intro e; rw [e, h.2] at hk; cases hk)) w.newOr
    (fun _ _ hm => model_cut_wrapStep w hb' hw hr hm) hg

/-- a new and-node between `nx` and `child` -/
theorem model_cut_insertAnd {g : G} {nx child : Nat} (hw : WFG g) (hnx : nx < g.kind.size)
    (hk : g.kindOf nx = some .or) (hch : child ∈ g.outs.getD nx []) {σ : Assignment} {w : Nat → Bool}
    (hm : Model σ (insertAnd g nx child) w) : Model σ g (cut g.kind.size w) := by
  have hoi := fun x => insertAnd_outs g nx child x hw hnx
  have hwn : w g.kind.size = w child := by
    rw [hm g.kind.size]
    simp only [stepV, insertAnd_kindOf, if_true, hoi, List.all_cons, List.all_nil, Bool.and_true]
  intro x
  by_cases hx : x < g.kind.size
  · rw [cut_lt _ hx, hm x]
    have hkx : (insertAnd g nx child).kindOf x = g.kindOf x := by
      rw [insertAnd_kindOf, if_neg (Nat.ne_of_lt hx)]
    by_cases hxn : x = nx
    · subst hxn
      have hox : (insertAnd g x child).outs.getD x [] = g.kind.size :: (g.outs.getD x []).erase child := by
        rw [hoi, if_neg (Nat.ne_of_lt hx), if_pos rfl]
      simp only [stepV, hkx, hk, hox, List.any_cons]
      rw [hwn, ← any_erase_mem hch]
      exact any_congr_mem (fun c hc => (cut_lt _ (hw.edges x c hc)).symm)
    · have hox : (insertAnd g nx child).outs.getD x [] = g.outs.getD x [] := by
        rw [hoi, if_neg (Nat.ne_of_lt hx), if_neg hxn]
      exact stepV_congr_g σ g _ (cut g.kind.size w) w x hkx hox
        (fun c hc => (cut_lt _ (hw.edges x c hc)).symm)
  · rw [cut_ge _ (by omega)]
    simp only [stepV, kindOf_of_ge g x (by omega)]

/-- the elimination keeps determinism (acyclic graph, consistent predecessor lists, no error) -/
theorem gdet_elim {g : G} (root : Nat) (ρ : Nat → Nat) (hacyc : Acyclic g ρ) (hi : InsOK g)
    (hne : (eliminate g root).err = false) (hg : GDet g) : GDet (eliminate g root) := by
  have rel := erel2_eliminate g root
  have hacyc3 : Acyclic (eliminate g root) ρ := fun x c hc => hacyc x c (rel.base.outs x c hc)
  intro σ v' hm' x hk
  have hm2 : Model σ g (sem σ g ρ) := sem_model σ g ρ hacyc
  have hm3 : Model σ (eliminate g root) (sem σ g ρ) := by
    rcases eliminate_sem g root hm2 hi with herr | ⟨h, _⟩
    · rw [hne] at herr; cases herr
    · exact h
  have heq : ∀ y, v' y = sem σ g ρ y := fun y =>
    (hm'.eq_sem ρ hacyc3 y).trans (hm3.eq_sem ρ hacyc3 y).symm
  rw [List.countP_congr (fun c _ => by rw [heq c])]
  exact Nat.le_trans (rel.sub x).countP_le (hg σ _ hm2 x (rel.base.kind_back hk (by decide)))

end Ddnnf.D4
