/-
  `prepareConfigs` (Model/MarkState.lean): the state `enumerate` / `uniform_random_sampling` read after
  `preprocess_config_creation` + `execute_query` does not depend on what earlier requests left in the
  `temp` fields, and it is clean again.
-/
import DdnnfVerif.Proofs.MarkState

namespace Ddnnf.MS

/-- first step of `prepareConfigs`: every `temp` is reset to the cached count -/
def resetTemps (s : St) : St := { s with ns := s.ns.map fun x => { x with temp := x.count } }

/-- the two leaf-zeroing steps of `prepareConfigs` -/
def zeroLeaves (nodes : List NType) (A : List Int) (s : St) : St :=
  let s := A.foldl (fun s f => match leafIx nodes (-f) with | some i => setTemp s i 0 | none => s) s
  (List.range nodes.length).foldl (fun s i => if nodes.getD i .fls == .tru then setTemp s i 0 else s) s

theorem prepareConfigs_eq (nodes : List NType) (n : Nat) (s : St) (A : List Int) :
    prepareConfigs nodes n s A =
      if A.any (fun f => f.natAbs > n) then none
      else some (execQuerySt nodes n (zeroLeaves nodes A (resetTemps s)) A) := rfl

theorem getD_of_lt (s : St) (i : Nat) (h : i < s.ns.size) : s.ns.getD i default = s.ns[i] := by
  simp [Array.getD_eq_getD_getElem?, h]

theorem resetTemps_eq (nodes : List NType) (s₁ s₂ : St) (h₁ : Clean s₁) (h₂ : Clean s₂)
    (c₁ : CountsOK nodes s₁) (c₂ : CountsOK nodes s₂) : resetTemps s₁ = resetTemps s₂ := by
  have hns : (resetTemps s₁).ns = (resetTemps s₂).ns := by
    unfold resetTemps
    apply Array.ext
    · simp [c₁.1, c₂.1]
    · intro i hi₁ hi₂
      have hi₁' : i < s₁.ns.size := by simpa using hi₁
      have hi₂' : i < s₂.ns.size := by simpa using hi₂
      have hlen : i < nodes.length := c₁.1 ▸ hi₁'
      have hc : s₁.ns[i].count = s₂.ns[i].count := by
        have e₁ := c₁.2 i hlen
        have e₂ := c₂.2 i hlen
        unfold countOf at e₁ e₂
        rw [getD_of_lt s₁ i hi₁'] at e₁
        rw [getD_of_lt s₂ i hi₂'] at e₂
        rw [e₁, e₂]
      have hm : s₁.ns[i].marker = s₂.ns[i].marker := by
        have e₁ := h₁.2 i
        have e₂ := h₂.2 i
        unfold markerOf at e₁ e₂
        rw [getD_of_lt s₁ i hi₁'] at e₁
        rw [getD_of_lt s₂ i hi₂'] at e₂
        rw [e₁, e₂]
      simp only [Array.getElem_map]
      rw [hc, hm]
  have hmd : (resetTemps s₁).md = (resetTemps s₂).md := by
    show s₁.md = s₂.md
    rw [h₁.1, h₂.1]
  cases hs₁ : resetTemps s₁ with
  | mk ns₁ md₁ =>
    cases hs₂ : resetTemps s₂ with
    | mk ns₂ md₂ =>
      rw [hs₁, hs₂] at hns hmd
      simp only at hns hmd
      rw [hns, hmd]

/-- whatever earlier requests left in the `temp` fields, the state that enumeration / sampling read
afterwards (and the count) is the same -/
theorem prepareConfigs_state_independent (nodes : List NType) (n : Nat) (s₁ s₂ : St)
    (h₁ : Clean s₁) (h₂ : Clean s₂) (c₁ : CountsOK nodes s₁) (c₂ : CountsOK nodes s₂)
    (A : List Int) : prepareConfigs nodes n s₁ A = prepareConfigs nodes n s₂ A := by
  rw [prepareConfigs_eq, prepareConfigs_eq, resetTemps_eq nodes s₁ s₂ h₁ h₂ c₁ c₂]

/-! ### the preparation steps keep the invariant -/

/-- `Clean` and `CountsOK` together -/
def Inv (nodes : List NType) (s : St) : Prop := Clean s ∧ CountsOK nodes s

theorem Inv.setTemp {nodes : List NType} {s : St} (h : Inv nodes s) (i t : Nat) :
    Inv nodes (setTemp s i t) :=
  ⟨⟨by simpa using h.1.1, fun j => by simpa using h.1.2 j⟩,
   ⟨by simpa using h.2.1, fun j hj => by simpa using h.2.2 j hj⟩⟩

theorem getD_map_reset (s : St) (i : Nat) :
    ((s.ns.map fun x => { x with temp := x.count }).getD i default : NodeSt) =
      { s.ns.getD i default with temp := (s.ns.getD i default).count } := by
  by_cases h : i < s.ns.size
  · simp [Array.getD_eq_getD_getElem?, h]
  · simp [Array.getD_eq_getD_getElem?, h]
    rfl

theorem Inv.resetTemps {nodes : List NType} {s : St} (h : Inv nodes s) : Inv nodes (resetTemps s) := by
  refine ⟨⟨h.1.1, fun j => ?_⟩, ⟨?_, fun j hj => ?_⟩⟩
  · have := h.1.2 j
    unfold markerOf at this ⊢
    unfold MS.resetTemps
    rw [getD_map_reset]
    exact this
  · unfold MS.resetTemps
    simpa using h.2.1
  · have := h.2.2 j hj
    unfold countOf at this ⊢
    unfold MS.resetTemps
    rw [getD_map_reset]
    exact this

theorem foldl_inv {α} {nodes : List NType} (f : St → α → St)
    (hf : ∀ s a, Inv nodes s → Inv nodes (f s a)) (xs : List α) (s : St) (h : Inv nodes s) :
    Inv nodes (xs.foldl f s) := by
  induction xs generalizing s with
  | nil => exact h
  | cons a rest ih => exact ih _ (hf s a h)

theorem Inv.zeroLeaves {nodes : List NType} {s : St} (h : Inv nodes s) (A : List Int) :
    Inv nodes (zeroLeaves nodes A s) := by
  unfold MS.zeroLeaves
  apply foldl_inv
  · intro s i hs
    split
    · exact hs.setTemp i 0
    · exact hs
  · apply foldl_inv
    · intro s f hs
      split
      · exact hs.setTemp _ 0
      · exact hs
    · exact h

/-- the count is `execute_query`'s, and the state enumeration / sampling leave to later requests is
clean with the cached counts untouched -/
theorem prepareConfigs_spec (nodes : List NType) (n : Nat) (htopo : Topo nodes) (hne : nodes ≠ [])
    (hu : LitUnique nodes) (hpar : HasParents nodes)
    (s : St) (hclean : Clean s) (hcnt : CountsOK nodes s) (A : List Int) (s' : St) (r : Nat)
    (h : prepareConfigs nodes n s A = some (s', r)) :
    r = execQuery nodes n A ∧ Clean s' ∧ CountsOK nodes s' := by
  rw [prepareConfigs_eq] at h
  split at h
  · cases h
  · have hinv : Inv nodes (zeroLeaves nodes A (resetTemps s)) :=
      (Inv.resetTemps ⟨hclean, hcnt⟩).zeroLeaves A
    have hspec := execQuerySt_spec nodes n htopo hne hu hpar _ hinv.1 hinv.2 A
    have he := Option.some.inj h
    rw [he] at hspec
    exact ⟨hspec.1, hspec.2.1, hspec.2.2⟩

/-- the preparation is refused exactly when an assumption is out of range -/
theorem prepareConfigs_none_iff (nodes : List NType) (n : Nat) (s : St) (A : List Int) :
    prepareConfigs nodes n s A = none ↔ A.any (fun f => f.natAbs > n) = true := by
  rw [prepareConfigs_eq]
  split <;> simp_all

end Ddnnf.MS
