/-
  Denotation of the graphs of the d4 loader (part 9): acyclicity is kept by the adding phases, with
  explicit rank functions.

  `RInv s ρ`: `ρ` decreases along every edge of the graph of `s`; literal leaves of the table have rank 0
  (so they are sinks), registered triangles have rank 1 and only literal leaves of their variable as
  successors, everything else has rank `≥ 2`.

  * new literal leaf: rank 0; new triangle: rank 1; new root: `max 2 (ρ 0 + 1)`;
  * `getLit_rank`, `addTriangle_rank`, `wrapTri_rank`, `addFree_rank`, `addVanished_rank`.
-/
import DdnnfVerif.Proofs.LoadSem7

namespace Ddnnf.D4

def updN (ρ : Nat → Nat) (n k : Nat) : Nat → Nat := fun x => if x = n then k else ρ x

theorem updN_self (ρ : Nat → Nat) (n k : Nat) : updN ρ n k n = k := by simp [updN]
theorem updN_ne (ρ : Nat → Nat) (n k x : Nat) (h : x ≠ n) : updN ρ n k x = ρ x := by simp [updN, h]

theorem acyclic_addNode {g : G} {ρ : Nat → Nat} (h : Acyclic g ρ) (hw : WFG g) (k : GK) (m : Nat) :
    Acyclic (g.addNode k).1 (updN ρ g.kind.size m) := by
  intro x c hc
  rw [outs_addNode] at hc
  have hcl := hw.edges x c hc
  have hx : x ≠ g.kind.size := by
    intro e
    rw [e, outs_of_ge g _ (by rw [hw.osz]; exact Nat.le_refl _)] at hc
    cases hc
  rw [updN_ne _ _ _ _ hx, updN_ne _ _ _ _ (Nat.ne_of_lt hcl)]
  exact h x c hc

theorem mem_outs_addEdge {g : G} {a b x c : Nat} (hc : c ∈ (g.addEdge a b).outs.getD x []) :
    (x = a ∧ c = b) ∨ c ∈ g.outs.getD x [] := by
  rw [outs_addEdge] at hc
  split at hc
  · rename_i hh
    rcases List.mem_cons.1 hc with e | hc
    · exact Or.inl ⟨hh.1.symm, e⟩
    · right; rw [← hh.1]; exact hc
  · exact Or.inr hc

theorem mem_outs_removeEdge {g : G} {a b x c : Nat} (hc : c ∈ (g.removeEdge a b).outs.getD x []) :
    c ∈ g.outs.getD x [] := by
  rw [outs_removeEdge] at hc
  split at hc
  · rename_i hh; rw [← hh.1]; exact List.mem_of_mem_erase hc
  · exact hc

theorem acyclic_addEdge {g : G} {ρ : Nat → Nat} (h : Acyclic g ρ) (a b : Nat) (hr : ρ b < ρ a) :
    Acyclic (g.addEdge a b) ρ := by
  intro x c hc
  rcases mem_outs_addEdge hc with ⟨e1, e2⟩ | hc
  · rw [e1, e2]; exact hr
  · exact h x c hc

theorem acyclic_removeEdge {g : G} {ρ : Nat → Nat} (h : Acyclic g ρ) (a b : Nat) :
    Acyclic (g.removeEdge a b) ρ := fun x c hc => h x c (mem_outs_removeEdge hc)

/-! ### the rank invariant -/

structure RInv (s : LState) (ρ : Nat → Nat) : Prop where
  linv : LInv s
  litK : ∀ e ∈ s.litNx, s.g.kindOf e.2 = some (.lit e.1)
  acyc : Acyclic s.g ρ
  leaf : ∀ e ∈ s.litNx, ρ e.2 = 0
  tri : ∀ e ∈ s.tri, ρ e.2 = 1
  low : ∀ x, ρ x ≤ 1 → (∃ e ∈ s.litNx, e.2 = x) ∨ (∃ e ∈ s.tri, e.2 = x)
  triOuts : ∀ e ∈ s.tri, ∀ c ∈ s.g.outs.getD e.2 [], ∃ l, s.g.kindOf c = some (.lit l) ∧ l.natAbs = e.1

/-- a node of rank `≥ 2` is not a registered triangle -/
theorem RInv.not_tri {s : LState} {ρ : Nat → Nat} (h : RInv s ρ) {a : Nat} (ha : 2 ≤ ρ a) :
    ∀ e ∈ s.tri, e.2 ≠ a := by
  intro e he e'
  have := h.tri e he
  rw [e'] at this; omega

theorem RInv.addEdge {s : LState} {ρ : Nat → Nat} (h : RInv s ρ) (a b : Nat)
    (hb : b < s.g.kind.size) (hr : ρ b < ρ a)
    (htri : ∀ e ∈ s.tri, e.2 = a → ∃ l, s.g.kindOf b = some (.lit l) ∧ l.natAbs = e.1) :
    RInv { s with g := s.g.addEdge a b } ρ := by
  refine ⟨h.linv.setG _ (addEdge_wf _ _ _ h.linv.wf (fun _ => hb)) (Nat.le_refl _), h.litK,
    acyclic_addEdge h.acyc a b hr, h.leaf, h.tri, h.low, ?_⟩
  intro e he c hc
  rcases mem_outs_addEdge hc with ⟨e1, e2⟩ | hc
  · rw [e2]; exact htri e he e1
  · exact h.triOuts e he c hc

theorem RInv.removeEdge {s : LState} {ρ : Nat → Nat} (h : RInv s ρ) (a b : Nat) :
    RInv { s with g := s.g.removeEdge a b } ρ :=
  ⟨h.linv.setG _ (removeEdge_wf _ _ _ h.linv.wf) (Nat.le_refl _), h.litK,
    acyclic_removeEdge h.acyc a b, h.leaf, h.tri, h.low,
    fun e he c hc => h.triOuts e he c (mem_outs_removeEdge hc)⟩

theorem linv_addNode {s : LState} (h : LInv s) (k : GK) : LInv { s with g := (s.g.addNode k).1 } :=
  h.setG _ (addNode_wf _ _ h.wf) (by rw [addNode_size]; exact Nat.le_succ _)

/-- a new node of rank `≥ 2` -/
theorem RInv.addNodeHigh {s : LState} {ρ : Nat → Nat} (h : RInv s ρ) (k : GK) (m : Nat) (hm : 2 ≤ m) :
    RInv { s with g := (s.g.addNode k).1 } (updN ρ s.g.kind.size m) := by
  have hold : ∀ x, x < s.g.kind.size → (s.g.addNode k).1.kindOf x = s.g.kindOf x := by
    intro x hx; rw [kindOf_addNode, if_neg (Nat.ne_of_lt hx)]
  refine ⟨linv_addNode h.linv k, ?_, acyclic_addNode h.acyc h.linv.wf k m, ?_, ?_, ?_, ?_⟩
  · intro e he; exact (hold _ (h.linv.lit e he)).trans (h.litK e he)
  · intro e he; rw [updN_ne _ _ _ _ (Nat.ne_of_lt (h.linv.lit e he))]; exact h.leaf e he
  · intro e he; rw [updN_ne _ _ _ _ (Nat.ne_of_lt (h.linv.tri e he))]; exact h.tri e he
  · intro x hx
    by_cases e : x = s.g.kind.size
    · rw [e, updN_self] at hx; omega
    · rw [updN_ne _ _ _ _ e] at hx; exact h.low x hx
  · intro e he c hc
    have hc' : c ∈ s.g.outs.getD e.2 [] := by rw [← outs_addNode s.g k]; exact hc
    obtain ⟨l, hl, hn⟩ := h.triOuts e he c hc'
    exact ⟨l, (hold c (h.linv.wf.edges _ c hc')).trans hl, hn⟩

/-- a new (still empty) triangle node of rank 1 -/
theorem RInv.addTriNode {s : LState} {ρ : Nat → Nat} (h : RInv s ρ) (f : Nat) :
    RInv { s with g := (s.g.addNode .or).1, tri := (f, s.g.kind.size) :: s.tri } (updN ρ s.g.kind.size 1) := by
  have hsz := addNode_size s.g .or
  have hold : ∀ x, x < s.g.kind.size → (s.g.addNode .or).1.kindOf x = s.g.kindOf x := by
    intro x hx; rw [kindOf_addNode, if_neg (Nat.ne_of_lt hx)]
  have h1 : LInv { s with g := (s.g.addNode .or).1, tri := (f, s.g.kind.size) :: s.tri } := by
    refine ⟨addNode_wf _ _ h.linv.wf, ?_, ?_, ?_⟩
    · intro i hi; show i < (s.g.addNode .or).1.kind.size; rw [hsz]; exact Nat.lt_succ_of_lt (h.linv.idx i hi)
    · intro e he; show e.2 < (s.g.addNode .or).1.kind.size; rw [hsz]; exact Nat.lt_succ_of_lt (h.linv.lit e he)
    · intro e he
      show e.2 < (s.g.addNode .or).1.kind.size
      rw [hsz]
      rcases List.mem_cons.1 he with e' | he
      · rw [e']; exact Nat.lt_succ_self _
      · exact Nat.lt_succ_of_lt (h.linv.tri e he)
  refine ⟨h1, ?_, acyclic_addNode h.acyc h.linv.wf .or 1, ?_, ?_, ?_, ?_⟩
  · intro e he; exact (hold _ (h.linv.lit e he)).trans (h.litK e he)
  · intro e he; rw [updN_ne _ _ _ _ (Nat.ne_of_lt (h.linv.lit e he))]; exact h.leaf e he
  · intro e he
    rcases List.mem_cons.1 he with e' | he
    · rw [e']; exact updN_self _ _ _
    · rw [updN_ne _ _ _ _ (Nat.ne_of_lt (h.linv.tri e he))]; exact h.tri e he
  · intro x hx
    by_cases e : x = s.g.kind.size
    · right; exact ⟨(f, s.g.kind.size), List.mem_cons_self .., e.symm⟩
    · rw [updN_ne _ _ _ _ e] at hx
      rcases h.low x hx with ⟨e', he', hx'⟩ | ⟨e', he', hx'⟩
      · exact Or.inl ⟨e', he', hx'⟩
      · exact Or.inr ⟨e', List.mem_cons_of_mem _ he', hx'⟩
  · intro e he c hc
    have hc' : c ∈ s.g.outs.getD e.2 [] := by rw [← outs_addNode s.g .or]; exact hc
    rcases List.mem_cons.1 he with e' | he
    · rw [e', outs_of_ge s.g _ (by rw [h.linv.wf.osz]; exact Nat.le_refl _)] at hc'
      cases hc'
    · obtain ⟨l, hl, hn⟩ := h.triOuts e he c hc'
      exact ⟨l, (hold c (h.linv.wf.edges _ c hc')).trans hl, hn⟩

/-- `getLit`: a new literal leaf gets rank 0 -/
theorem getLit_rank {s : LState} {ρ : Nat → Nat} (l : Int) (h : RInv s ρ) :
    ∃ ρ', RInv (s.getLit l).1 ρ' ∧ (∀ x, x < s.g.kind.size → ρ' x = ρ x) ∧
      ρ' (s.getLit l).2 = 0 ∧ (s.getLit l).1.g.kindOf (s.getLit l).2 = some (.lit l) ∧
      (s.getLit l).2 < (s.getLit l).1.g.kind.size ∧ s.g.kind.size ≤ (s.getLit l).1.g.kind.size ∧
      (s.getLit l).1.tri = s.tri ∧
      (∀ x, x < s.g.kind.size → (s.getLit l).1.g.kindOf x = s.g.kindOf x) := by
  have hsp := getLit_spec s l h.linv
  cases hf : s.litNx.find? (·.1 == l) with
  | some e =>
    rw [getLit_found s l e hf] at hsp ⊢
    have he : e.1 = l := by simpa using List.find?_some hf
    have hm := List.mem_of_find?_eq_some hf
    exact ⟨ρ, h, fun _ _ => rfl, h.leaf e hm, by rw [← he]; exact h.litK e hm, hsp.2.2, Nat.le_refl _, rfl,
      fun _ _ => rfl⟩
  | none =>
    rw [getLit_new s l hf] at hsp ⊢
    have hold : ∀ x, x < s.g.kind.size → (s.g.addNode (.lit l)).1.kindOf x = s.g.kindOf x := by
      intro x hx; rw [kindOf_addNode, if_neg (Nat.ne_of_lt hx)]
    refine ⟨updN ρ s.g.kind.size 0, ⟨hsp.1, ?_, acyclic_addNode h.acyc h.linv.wf _ 0, ?_, ?_, ?_, ?_⟩,
      fun x hx => updN_ne _ _ _ _ (Nat.ne_of_lt hx), updN_self _ _ _, ?_, hsp.2.2, hsp.2.1, rfl, hold⟩
    · intro e he
      rcases List.mem_cons.1 he with e' | he
      · rw [e']
        show (s.g.addNode (.lit l)).1.kindOf s.g.kind.size = _
        rw [kindOf_addNode, if_pos rfl]
      · exact (hold _ (h.linv.lit e he)).trans (h.litK e he)
    · intro e he
      rcases List.mem_cons.1 he with e' | he
      · rw [e']; exact updN_self _ _ _
      · rw [updN_ne _ _ _ _ (Nat.ne_of_lt (h.linv.lit e he))]; exact h.leaf e he
    · intro e he; rw [updN_ne _ _ _ _ (Nat.ne_of_lt (h.linv.tri e he))]; exact h.tri e he
    · intro x hx
      by_cases e : x = s.g.kind.size
      · left; exact ⟨(l, s.g.kind.size), List.mem_cons_self .., e.symm⟩
      · rw [updN_ne _ _ _ _ e] at hx
        rcases h.low x hx with ⟨e', he', hx'⟩ | ⟨e', he', hx'⟩
        · exact Or.inl ⟨e', List.mem_cons_of_mem _ he', hx'⟩
        · exact Or.inr ⟨e', he', hx'⟩
    · intro e he c hc
      have hc' : c ∈ s.g.outs.getD e.2 [] := by rw [← outs_addNode s.g (.lit l)]; exact hc
      obtain ⟨l', hl, hn⟩ := h.triOuts e he c hc'
      exact ⟨l', (hold c (h.linv.wf.edges _ c hc')).trans hl, hn⟩
    · show (s.g.addNode (.lit l)).1.kindOf s.g.kind.size = _
      rw [kindOf_addNode, if_pos rfl]

/-- a triangle hangs under a node of rank `≥ 2`: the triangle node gets rank 1 -/
theorem addTriangle_rank {s : LState} {ρ : Nat → Nat} (f attach : Nat) (ha : attach < s.g.kind.size)
    (hr : 2 ≤ ρ attach) (h : RInv s ρ) :
    ∃ ρ', RInv (s.addTriangle f attach) ρ' ∧ (∀ x, x < s.g.kind.size → ρ' x = ρ x) ∧
      s.g.kind.size ≤ (s.addTriangle f attach).g.kind.size := by
  cases hfind : s.tri.find? (·.1 == f) with
  | some e =>
    rw [addTriangle_found s f attach e hfind]
    have hm := List.mem_of_find?_eq_some hfind
    refine ⟨ρ, h.addEdge attach e.2 (h.linv.tri e hm) (by rw [h.tri e hm]; omega) ?_, fun _ _ => rfl,
      Nat.le_refl _⟩
    intro e' he' heq
    exact absurd heq (h.not_tri hr e' he')
  | none =>
    rw [addTriangle_new s f attach hfind]
    have r1 := h.addTriNode f
    have hsz := addNode_size s.g .or
    unfold triNew
    dsimp only
    rw [addNode_snd]
    generalize hs1 : ({ s with g := (s.g.addNode .or).1, tri := (f, s.g.kind.size) :: s.tri } : LState)
      = s1 at r1 ⊢
    have s1sz : s1.g.kind.size = s.g.kind.size + 1 := by rw [← hs1]; exact hsz
    have s1tri : s1.tri = (f, s.g.kind.size) :: s.tri := by rw [← hs1]
    obtain ⟨ρ2, r2, a2, z2, k2, lt2, sz2, tri2, kd2⟩ := getLit_rank (f : Int) r1
    obtain ⟨ρ3, r3, a3, z3, k3, lt3, sz3, tri3, kd3⟩ := getLit_rank (-(f : Int)) r2
    generalize s1.getLit (f : Int) = p2 at r2 a2 z2 k2 lt2 sz2 tri2 kd2 r3 a3 z3 k3 lt3 sz3 tri3 kd3 ⊢
    obtain ⟨s2, pos⟩ := p2
    dsimp only at r2 a2 z2 k2 lt2 sz2 tri2 kd2 r3 a3 z3 k3 lt3 sz3 tri3 kd3 ⊢
    generalize s2.getLit (-(f : Int)) = p3 at r3 a3 z3 k3 lt3 sz3 tri3 kd3 ⊢
    obtain ⟨s3, neg⟩ := p3
    dsimp only at r3 a3 z3 k3 lt3 sz3 tri3 kd3 ⊢
    have hn3 : s.g.kind.size < s3.g.kind.size := by omega
    have tri3' : s3.tri = (f, s.g.kind.size) :: s.tri := by rw [tri3, tri2, s1tri]
    have hρn : ρ3 s.g.kind.size = 1 := r3.tri (f, s.g.kind.size) (by rw [tri3']; exact List.mem_cons_self ..)
    have hρold : ∀ x, x < s.g.kind.size → ρ3 x = ρ x := by
      intro x hx
      rw [a3 x (by omega), a2 x (by omega), updN_ne _ _ _ _ (Nat.ne_of_lt hx)]
    have hρpos : ρ3 pos = 0 := by rw [a3 pos lt2]; exact z2
    have kpos : s3.g.kindOf pos = some (.lit (f : Int)) := by rw [kd3 pos lt2]; exact k2
    -- a triangle entry whose node is the new node is the new entry
    have hentry : ∀ e ∈ s3.tri, e.2 = s.g.kind.size → e.1 = f := by
      intro e he heq
      rw [tri3'] at he
      rcases List.mem_cons.1 he with e' | he
      · rw [e']
      · have := h.linv.tri e he; omega
    have rA := r3.addEdge attach s.g.kind.size hn3 (by rw [hρn, hρold attach ha]; omega)
      (fun e he heq => absurd heq (r3.not_tri (by rw [hρold attach ha]; exact hr) e he))
    have rB := rA.addEdge s.g.kind.size pos (Nat.lt_of_lt_of_le lt2 sz3) (by rw [hρpos, hρn]; omega)
      (fun e he heq => ⟨(f : Int), kpos, by rw [hentry e he heq]; simp⟩)
    have rC := rB.addEdge s.g.kind.size neg lt3 (by rw [z3, hρn]; omega)
      (fun e he heq => ⟨-(f : Int), k3, by rw [hentry e he heq]; simp⟩)
    exact ⟨ρ3, rC, hρold, Nat.le_of_lt hn3⟩

/-! ### a new root -/

/-- the root a fold of `wrapTri` carries: 0 (no root yet) or a node of rank `≥ 2` -/
def RootHi (s : LState) (ρ : Nat → Nat) (root : Nat) : Prop :=
  root = 0 ∨ (root < s.g.kind.size ∧ 2 ≤ ρ root)

/-- a new root gets the rank `max 2 (ρ 0 + 1)` -/
theorem wrapTri_rank {s : LState} {ρ : Nat → Nat} (root f : Nat) (hpos : 0 < s.g.kind.size)
    (hr : RootHi s ρ root) (h : RInv s ρ) :
    ∃ ρ', RInv (wrapTri s root f).1 ρ' ∧ RootHi (wrapTri s root f).1 ρ' (wrapTri s root f).2 ∧
      s.g.kind.size ≤ (wrapTri s root f).1.g.kind.size := by
  by_cases h0 : root = 0
  · subst h0
    rw [wrapTri_zero]
    have rN := h.addNodeHigh .and (max 2 (ρ 0 + 1)) (Nat.le_max_left _ _)
    have hsz : ({ s with g := (s.g.addNode .and).1 } : LState).g.kind.size = s.g.kind.size + 1 :=
      addNode_size s.g .and
    have hρn : updN ρ s.g.kind.size (max 2 (ρ 0 + 1)) s.g.kind.size = max 2 (ρ 0 + 1) := updN_self _ _ _
    have hρ0 : updN ρ s.g.kind.size (max 2 (ρ 0 + 1)) 0 = ρ 0 := updN_ne _ _ _ _ (by omega)
    have rE : RInv { s with g := (s.g.addNode .and).1.addEdge s.g.kind.size 0 }
        (updN ρ s.g.kind.size (max 2 (ρ 0 + 1))) :=
      rN.addEdge s.g.kind.size 0 (by rw [hsz]; omega) (by rw [hρn, hρ0]; omega)
        (fun e he heq => absurd heq (rN.not_tri (by rw [hρn]; omega) e he))
    have hsz' : ({ s with g := (s.g.addNode .and).1.addEdge s.g.kind.size 0 } : LState).g.kind.size
        = s.g.kind.size + 1 := addNode_size s.g .and
    obtain ⟨ρ', r', a', z'⟩ := addTriangle_rank f s.g.kind.size (by rw [hsz']; exact Nat.lt_succ_self _)
      (by rw [hρn]; omega) rE
    refine ⟨ρ', r', Or.inr ⟨Nat.lt_of_lt_of_le (by rw [hsz']; exact Nat.lt_succ_self _) z', ?_⟩,
      Nat.le_trans (by rw [hsz']; exact Nat.le_succ _) z'⟩
    rw [a' _ (by rw [hsz']; exact Nat.lt_succ_self _), hρn]; omega
  · rw [wrapTri_ne s root f h0]
    rcases hr with hr | ⟨hlt, hr⟩
    · exact absurd hr h0
    · obtain ⟨ρ', r', a', z'⟩ := addTriangle_rank f root hlt hr h
      exact ⟨ρ', r', Or.inr ⟨Nat.lt_of_lt_of_le hlt z', by rw [a' _ hlt]; exact hr⟩, z'⟩

def FoldR (n : Nat) (acc : LState × Nat) : Prop :=
  ∃ ρ', RInv acc.1 ρ' ∧ RootHi acc.1 ρ' acc.2 ∧ n ≤ acc.1.g.kind.size

theorem FoldR.step {n : Nat} (hn : 0 < n) (s' : LState) (root' k : Nat) (h : FoldR n (s', root')) :
    FoldR n (wrapTri s' root' (k + 1)) := by
  obtain ⟨ρ', r', hr', hsz⟩ := h
  obtain ⟨ρ'', r'', hr'', hsz'⟩ := wrapTri_rank root' (k + 1) (Nat.lt_of_lt_of_le hn hsz) hr' r'
  exact ⟨ρ'', r'', hr'', Nat.le_trans hsz hsz'⟩

/-- phase 2 keeps the graph acyclic -/
theorem addFree_rank {s : LState} {ρ : Nat → Nat} (hpos : 0 < s.g.kind.size) (h : RInv s ρ) :
    ∃ ρ', RInv (addFree s).1 ρ' ∧ RootHi (addFree s).1 ρ' (addFree s).2 ∧
      s.g.kind.size ≤ (addFree s).1.g.kind.size := by
  unfold addFree
  refine foldl_inv (FoldR s.g.kind.size) _ _ ?_ (s, 0) ⟨ρ, h, Or.inl rfl, Nat.le_refl _⟩
  intro acc k _ hacc
  obtain ⟨s', root'⟩ := acc
  dsimp only
  split
  · exact hacc
  · exact FoldR.step hpos s' root' k hacc

/-- phase 3b keeps the graph acyclic -/
theorem addVanished_rank {s : LState} {ρ : Nat → Nat} (root : Nat) (hpos : 0 < s.g.kind.size)
    (hr : RootHi s ρ root) (h : RInv s ρ) :
    ∃ ρ', RInv (addVanished s root).1 ρ' ∧ RootHi (addVanished s root).1 ρ' (addVanished s root).2 ∧
      s.g.kind.size ≤ (addVanished s root).1.g.kind.size := by
  unfold addVanished
  dsimp only
  refine foldl_inv (FoldR s.g.kind.size) _ _ ?_ (s, root) ⟨ρ, h, hr, Nat.le_refl _⟩
  intro acc k _ hacc
  obtain ⟨s', root'⟩ := acc
  dsimp only
  split
  · exact hacc
  · exact FoldR.step hpos s' root' k hacc

end Ddnnf.D4
