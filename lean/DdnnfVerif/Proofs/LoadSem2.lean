/-
  Denotation of the graphs of the d4 loader (part 2, phase 5): `flattenGraph` is correct.

  * `postOrder_getLast`: the DFS emits its root last (every graph, root inside the node array);
  * `flattenGraph_eval`: in the flattened array of an acyclic graph, position `i` has the value of the
    `i`-th emitted node;
  * `flattenGraph_root`: the last position has the value of the root.
-/
import DdnnfVerif.Proofs.LoadSem1
import DdnnfVerif.Proofs.Table

namespace Ddnnf.D4

/-! ### the root is emitted last -/

/-- the root sits at the bottom of the stack until it is emitted; then the stack is empty -/
def RootLast (root : Nat) (d : Dfs) : Prop :=
  (∃ above, d.stack = above ++ [root] ∧ root ∉ above ∧ d.finished.getD root true = false ∧
      (above ≠ [] → d.discovered.getD root true = true)) ∨
  (d.stack = [] ∧ d.order.toList.getLast? = some root)

theorem rootLast_step (outs : Array (List Nat)) (root : Nat) (d : Dfs) (nx : Nat) (rest : List Nat)
    (hs : d.stack = nx :: rest) (h : RootLast root d) : RootLast root (dfsStep outs d) := by
  have h' : ∃ above, d.stack = above ++ [root] ∧ root ∉ above ∧ d.finished.getD root true = false ∧
      (above ≠ [] → d.discovered.getD root true = true) := by
    rcases h with h | ⟨hst, _⟩
    · exact h
    · rw [hs] at hst; cases hst
  obtain ⟨above, hst, hna, hfin, hdisc⟩ := h'
  rw [hs] at hst
  rcases dfsStep_cases outs d nx rest hs with ⟨hw, e⟩ | ⟨_, _, e⟩ | ⟨_, hf, e⟩ <;> rw [e]
  · -- discovery of `nx`
    left
    have hroot : (d.discovered.setIfInBounds nx true).getD root true = true := by
      rw [getD_setIfInBounds]
      split
      · rfl
      · rename_i hne
        cases above with
        | nil =>
          simp at hst
          have hlt : nx < d.discovered.size := getD_lt_of_ne (b := true) hw
          exact absurd ⟨hst.1, by rw [← hst.1]; exact hlt⟩ hne
        | cons a as => exact hdisc (by simp)
    refine ⟨pushed outs d.discovered nx ++ above, ?_, ?_, hfin, fun _ => hroot⟩
    · show pushed outs d.discovered nx ++ nx :: rest = _
      rw [hst, List.append_assoc]
    · intro hm
      rcases List.mem_append.1 hm with hm | hm
      · rw [mem_pushed, hroot] at hm
        exact absurd hm.2 (by simp)
      · exact hna hm
  · -- `nx` is emitted
    cases above with
    | nil =>
      right
      simp at hst
      refine ⟨hst.2, ?_⟩
      show (d.order.push nx).toList.getLast? = some root
      rw [Array.toList_push, hst.1]; simp
    | cons a as =>
      left
      simp only [List.cons_append, List.cons.injEq] at hst
      have hane : a ≠ root := fun e => hna (by rw [e]; exact List.mem_cons_self ..)
      refine ⟨as, hst.2, fun hm => hna (List.mem_cons_of_mem _ hm), ?_, fun _ => hdisc (by simp)⟩
      show (d.finished.setIfInBounds nx true).getD root true = false
      rw [getD_setIfInBounds, if_neg (fun h => hane (by rw [← hst.1]; exact h.1)), hfin]
  · -- stale entry
    cases above with
    | nil =>
      simp at hst
      rw [hst.1] at hf; rw [hf] at hfin; cases hfin
    | cons a as =>
      left
      simp only [List.cons_append, List.cons.injEq] at hst
      exact ⟨as, hst.2, fun hm => hna (List.mem_cons_of_mem _ hm), hfin, fun _ => hdisc (by simp)⟩

/-- the DFS emits its root last -/
theorem postOrder_getLast (g : G) (root : Nat) (hroot : root < g.kind.size) :
    (postOrder g root).getLast? = some root := by
  have key := dfsLoop_inv g.outs (RootLast root) (rootLast_step g.outs root)
    (2 * (g.kind.size + edgeCount g) + 2) (dfsInit g.kind.size root)
    (Or.inl ⟨[], rfl, by simp, by simp [dfsInit, hroot], fun h => absurd rfl h⟩)
  rcases key with ⟨above, hst, _⟩ | ⟨_, h⟩
  · rw [postOrder_stack_empty] at hst
    cases above <;> cases hst
  · rw [postOrder_eq]; exact h

theorem postOrder_last_getElem (g : G) (root : Nat) (hroot : root < g.kind.size) :
    ∃ h : (postOrder g root).length - 1 < (postOrder g root).length,
      (postOrder g root)[(postOrder g root).length - 1] = root := by
  have h := postOrder_getLast g root hroot
  rw [List.getLast?_eq_getElem?] at h
  have hlt : (postOrder g root).length - 1 < (postOrder g root).length := by
    apply Classical.byContradiction
    intro hn
    rw [List.getElem?_eq_none (by omega)] at h
    cases h
  refine ⟨hlt, ?_⟩
  rw [List.getElem?_eq_getElem hlt] at h
  exact Option.some.inj h

/-! ### values in the flattened array -/

theorem fEval_flatNode (σ : Assignment) (g : G) (newIx : Array Nat) (x : Nat) (w : Nat → Bool) :
    fEval σ (flatNode g newIx x) w = stepV σ g (fun c => w (newIx.getD c 0)) x := by
  unfold flatNode stepV
  cases hk : g.kindOf x with
  | none => simp [fEval]
  | some k => cases k <;> simp [fEval, List.all_map, List.any_map, Function.comp_def]

/-- phase 5: position `i` of the flattened array has the value of the `i`-th emitted node -/
theorem flattenGraph_eval (σ : Assignment) (g : G) (root : Nat) (r : Nat → Nat)
    (hwf : ∀ x, ∀ c ∈ g.outs.getD x [], c < g.kind.size) (hacyc : Acyclic g r) :
    ∀ (i : Nat) (hi : i < (postOrder g root).length),
      eval σ (flattenGraph g root) i = sem σ g r (postOrder g root)[i] := by
  intro i
  induction i using Nat.strongRecOn with
  | _ i ih =>
    intro hi
    have hi' : i < (flattenGraph g root).length := by rw [flattenGraph_length]; exact hi
    unfold eval
    rw [val_eq false (fEval σ) _ i hi', flattenGraph_getElem g root i hi', fEval_flatNode,
      sem_eq σ g r hacyc]
    apply stepV_congr
    intro c hc
    obtain ⟨j, hj, hji, e⟩ := postOrder_children_index g root r hwf hacyc i hi c hc
    have hnew : (newIxOf g root).getD c 0 = j := by
      rw [← e]
      exact newIx_spec _ _ (postOrder_nodup g root) (postOrder_lt g root) j hj
    simp only [hnew, hji, if_true]
    have := ih j hji hj
    unfold eval at this
    rw [this, e]

/-- phase 5: the root of the flattened array has the value of the root of the graph.  Removed
nodes are flattened to `.fls`, in agreement with `evalG`; no assumption on the error flag. -/
theorem flattenGraph_root (σ : Assignment) (g : G) (root : Nat) (r : Nat → Nat)
    (hwf : ∀ x, ∀ c ∈ g.outs.getD x [], c < g.kind.size) (hacyc : Acyclic g r)
    (hroot : root < g.kind.size) :
    eval σ (flattenGraph g root) (rootIx (flattenGraph g root)) = sem σ g r root := by
  obtain ⟨hlt, e⟩ := postOrder_last_getElem g root hroot
  unfold rootIx
  rw [flattenGraph_length, flattenGraph_eval σ g root r hwf hacyc _ hlt, e]

end Ddnnf.D4
