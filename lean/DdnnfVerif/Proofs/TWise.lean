/-
  Soundness of the t-wise sample checker `TWise.check` (C09).

  * `check_valid`   : an accepted sample consists of complete configurations that are listed models
  * `check_covers`  : every set of `t` literals over distinct features of `1..n` that is contained in
                      at least one model is contained in a configuration of an accepted sample
  * `verdict_ok_iff`: the diagnostic form prints "ok" exactly when the checker accepts
-/
import DdnnfVerif.Model.TWise
import DdnnfVerif.Proofs.SameFunction

namespace Ddnnf.TWise

/-! ### complete configurations -/

/-- a duplicate free list that is contained in a list that is not longer is a permutation of it -/
theorem perm_of_nodup_subset_length_le {a b : List Nat} (ha : a.Nodup) (hsub : a ⊆ b)
    (hlen : b.length ≤ a.length) : a.Perm b := by
  induction a generalizing b with
  | nil =>
    have : b = [] := by simpa using hlen
    subst this; exact List.Perm.refl _
  | cons x a ih =>
    rw [List.nodup_cons] at ha
    have hxb : x ∈ b := hsub (List.mem_cons_self ..)
    have hpb : b.Perm (x :: b.erase x) := List.perm_cons_erase hxb
    have hl' : (b.erase x).length ≤ a.length := by
      have := hpb.length_eq
      simp only [List.length_cons] at this hlen
      omega
    have hsub' : a ⊆ b.erase x := by
      intro y hy
      have hyx : y ≠ x := by intro e; subst e; exact ha.1 hy
      exact (List.mem_erase_of_ne hyx).2 (hsub (List.mem_cons_of_mem _ hy))
    exact ((ih ha.2 hsub' hl').cons x).trans hpb.symm

theorem complete_of_completeB (n : Nat) (c : Config) (h : completeB n c = true) :
    Complete n c := by
  unfold completeB at h
  rw [Bool.and_eq_true, beq_iff_eq, List.all_eq_true] at h
  obtain ⟨hlen, hall⟩ := h
  have hsub : ((List.range n).map (· + 1)) ⊆ c.map Int.natAbs := by
    intro v hv
    rw [List.mem_map] at hv
    obtain ⟨k, hk, rfl⟩ := hv
    have hk' : (c.contains ((k + 1 : Nat) : Int) != c.contains (-((k + 1 : Nat) : Int))) = true :=
      hall k hk
    rw [List.mem_map]
    cases h1 : c.contains ((k + 1 : Nat) : Int) with
    | true => exact ⟨_, List.contains_iff_mem.mp h1, by omega⟩
    | false =>
      rw [h1] at hk'
      have h2 : c.contains (-((k + 1 : Nat) : Int)) = true := by simpa using hk'
      exact ⟨_, List.contains_iff_mem.mp h2, by omega⟩
  have hp : ((List.range n).map (· + 1)).Perm (c.map Int.natAbs) :=
    perm_of_nodup_subset_length_le (nodup_range_succ n) hsub (by simp [hlen])
  refine ⟨hp.symm, ?_⟩
  intro l hl h0
  have hm : l.natAbs ∈ (List.range n).map (· + 1) :=
    hp.mem_iff.mpr (List.mem_map.mpr ⟨l, hl, rfl⟩)
  rw [List.mem_map] at hm
  obtain ⟨k, _, hk⟩ := hm
  subst h0
  simp at hk

/-- an accepted sample consists of complete configurations that are listed models -/
theorem check_valid (nodes : List NType) (n t : Nat) (h : WF nodes n) (sample : List Config)
    (hc : check nodes n t sample = true) :
    ∀ c ∈ sample, Complete n c ∧ ∃ m ∈ models nodes (rootIx nodes), m.Perm c := by
  intro c hcs
  unfold check at hc
  rw [Bool.and_eq_true, List.all_eq_true] at hc
  have h1 := hc.1 c hcs
  unfold cfgIsModel at h1
  rw [Bool.and_eq_true] at h1
  have hcomp := complete_of_completeB n c h1.1
  exact ⟨hcomp, (listed_iff_eval nodes n h c hcomp).mpr h1.2⟩

/-! ### the enumeration of interactions is exhaustive -/

theorem mem_combos {s xs : List Nat} (h : s.Sublist xs) : s ∈ combos s.length xs := by
  induction h with
  | slnil => simp [combos]
  | @cons s xs a _ ih =>
    cases s with
    | nil => simp [combos]
    | cons y s' =>
      simp only [List.length_cons, combos] at ih ⊢
      exact List.mem_append_right _ ih
  | @cons_cons s xs a _ ih =>
    simp only [List.length_cons, combos]
    exact List.mem_append_left _ (List.mem_map.mpr ⟨_, ih, rfl⟩)

theorem mem_signings (J : List Int) (h : ∀ l ∈ J, l ≠ 0) : J ∈ signings (J.map Int.natAbs) := by
  induction J with
  | nil => simp [signings]
  | cons l J ih =>
    simp only [List.map_cons, signings, List.mem_flatMap]
    refine ⟨J, ih (fun x hx => h x (List.mem_cons_of_mem _ hx)), ?_⟩
    have := h l (List.mem_cons_self ..)
    simp only [List.mem_cons, List.cons.injEq, and_true, List.not_mem_nil, or_false]
    omega

theorem mem_interactions (n : Nat) (J : List Int) (hnz : ∀ l ∈ J, l ≠ 0)
    (hsub : (J.map Int.natAbs).Sublist ((List.range n).map (· + 1))) :
    J ∈ interactions n J.length := by
  unfold interactions
  rw [List.mem_flatMap]
  refine ⟨J.map Int.natAbs, ?_, mem_signings J hnz⟩
  have := mem_combos hsub
  rwa [List.length_map] at this

/-! ### the canonical form of an interaction: features ascending -/

/-- the literals of `I`, features ascending -/
def canon (n : Nat) (I : List Int) : List Int :=
  ((List.range n).map (· + 1)).filterMap (fun v => I.find? (fun l => l.natAbs == v))

theorem canon_map_aux (R : List Nat) (I : List Int) :
    (R.filterMap (fun v => I.find? (fun l => l.natAbs == v))).map Int.natAbs
      = R.filter (fun v => (I.map Int.natAbs).contains v) := by
  induction R with
  | nil => rfl
  | cons v R ih =>
    cases hf : I.find? (fun l => l.natAbs == v) with
    | none =>
      have hnot : (I.map Int.natAbs).contains v = false := by
        rw [List.find?_eq_none] at hf
        cases hc : (I.map Int.natAbs).contains v with
        | false => rfl
        | true =>
          have := List.contains_iff_mem.mp hc
          rw [List.mem_map] at this
          obtain ⟨l, hl, hlv⟩ := this
          exact absurd (by simp [hlv]) (hf l hl)
      rw [List.filterMap_cons_none (f := fun v => I.find? (fun l => l.natAbs == v)) hf,
        List.filter_cons_of_neg (by rw [hnot]; exact Bool.false_ne_true), ih]
    | some l =>
      have hl : l ∈ I := List.mem_of_find?_eq_some hf
      have hv : l.natAbs = v := by simpa using List.find?_some hf
      have hyes : (I.map Int.natAbs).contains v = true :=
        List.contains_iff_mem.mpr (List.mem_map.mpr ⟨l, hl, hv⟩)
      rw [List.filterMap_cons_some (f := fun v => I.find? (fun l => l.natAbs == v)) hf,
        List.filter_cons_of_pos hyes, List.map_cons, ih, hv]

theorem canon_sublist (n : Nat) (I : List Int) :
    ((canon n I).map Int.natAbs).Sublist ((List.range n).map (· + 1)) := by
  unfold canon
  rw [canon_map_aux]
  exact List.filter_sublist

theorem mem_canon (n : Nat) (I : List Int) (hrange : ∀ l ∈ I, l ≠ 0 ∧ l.natAbs ≤ n)
    (hdistinct : (I.map Int.natAbs).Nodup) (l : Int) : l ∈ canon n I ↔ l ∈ I := by
  unfold canon
  rw [List.mem_filterMap]
  constructor
  · rintro ⟨v, _, hf⟩
    exact List.mem_of_find?_eq_some hf
  · intro hl
    have hr := hrange l hl
    refine ⟨l.natAbs, ?_, ?_⟩
    · rw [List.mem_map]
      exact ⟨l.natAbs - 1, List.mem_range.mpr (by omega), by omega⟩
    · cases hf : I.find? (fun x => x.natAbs == l.natAbs) with
      | none =>
        rw [List.find?_eq_none] at hf
        exact absurd (by simp) (hf l hl)
      | some l' =>
        have hl' : l' ∈ I := List.mem_of_find?_eq_some hf
        have hv : l'.natAbs = l.natAbs := by simpa using List.find?_some hf
        rw [nodup_map_inj Int.natAbs I hdistinct hl' hl hv]

theorem length_canon (n : Nat) (I : List Int) (hrange : ∀ l ∈ I, l ≠ 0 ∧ l.natAbs ≤ n)
    (hdistinct : (I.map Int.natAbs).Nodup) : (canon n I).length = I.length := by
  have h1 : (canon n I).length = ((canon n I).map Int.natAbs).length := by rw [List.length_map]
  rw [h1, ← List.length_map (f := Int.natAbs) (as := I)]
  apply List.Perm.length_eq
  rw [List.perm_ext_iff_of_nodup ((canon_sublist n I).nodup (nodup_range_succ n)) hdistinct]
  intro a
  constructor
  · intro ha
    rw [List.mem_map] at ha ⊢
    obtain ⟨l, hl, hla⟩ := ha
    exact ⟨l, (mem_canon n I hrange hdistinct l).mp hl, hla⟩
  · intro ha
    rw [List.mem_map] at ha ⊢
    obtain ⟨l, hl, hla⟩ := ha
    exact ⟨l, (mem_canon n I hrange hdistinct l).mpr hl, hla⟩

/-! ### the specification count only depends on the set of assumed literals -/

theorem specCount_congr (nodes : List NType) (n : Nat) (A B : List Int)
    (h : ∀ l, l ∈ A ↔ l ∈ B) : specCount nodes n A = specCount nodes n B := by
  have hall : ∀ σ : Assignment, A.all (litTrue σ) = B.all (litTrue σ) := by
    intro σ
    rw [Bool.eq_iff_iff, List.all_eq_true, List.all_eq_true]
    exact ⟨fun H l hl => H l ((h l).mpr hl), fun H l hl => H l ((h l).mp hl)⟩
  unfold specCount
  simp only [hall]

/-- every set of `t` literals over distinct features that is contained in at least one model is
contained in at least one configuration of an accepted sample -/
theorem check_covers (nodes : List NType) (n t : Nat) (h : WF nodes n) (hu : LitUnique nodes)
    (sample : List Config) (hc : check nodes n t sample = true)
    (I : List Int) (hlen : I.length = t) (hrange : ∀ l ∈ I, l ≠ 0 ∧ l.natAbs ≤ n)
    (hdistinct : (I.map Int.natAbs).Nodup) (hsat : 0 < specCount nodes n I) :
    ∃ c ∈ sample, ∀ l ∈ I, l ∈ c := by
  have hpd := pdLeaf_of_WF nodes n h hu
  have hmem := mem_canon n I hrange hdistinct
  have hJ : canon n I ∈ interactions n t := by
    have := mem_interactions n (canon n I) (fun l hl => (hrange l ((hmem l).mp hl)).1)
      (canon_sublist n I)
    rwa [length_canon n I hrange hdistinct, hlen] at this
  unfold check at hc
  rw [Bool.and_eq_true, List.all_eq_true, List.all_eq_true] at hc
  have hJc : (execQuery nodes n (canon n I) == 0 || coveredBy sample (canon n I)) = true :=
    hc.2 _ hJ
  have hq : execQuery nodes n (canon n I) = specCount nodes n I := by
    rw [execQuery_exact nodes n h hpd (canon n I) (fun a ha => hrange a ((hmem a).mp ha))]
    exact specCount_congr nodes n _ _ hmem
  rw [hq, Bool.or_eq_true, beq_iff_eq] at hJc
  have hcov : coveredBy sample (canon n I) = true := by
    rcases hJc with h0 | h1
    · omega
    · exact h1
  unfold coveredBy at hcov
  rw [List.any_eq_true] at hcov
  obtain ⟨c, hcs, hall⟩ := hcov
  rw [List.all_eq_true] at hall
  exact ⟨c, hcs, fun l hl => List.contains_iff_mem.mp (hall l ((hmem l).mpr hl))⟩

/-! ### the diagnostic form -/

theorem invalid_ne_ok (s : String) : "invalid-configuration " ++ s ≠ "ok" := by
  intro h
  have := congrArg String.toList h
  simp [String.toList_append] at this

theorem uncovered_ne_ok (s : String) : "uncovered-interaction " ++ s ≠ "ok" := by
  intro h
  have := congrArg String.toList h
  simp [String.toList_append] at this

theorem verdict_ok_iff (nodes : List NType) (n t : Nat) (sample : List Config) :
    verdict nodes n t sample = "ok" ↔ check nodes n t sample = true := by
  unfold verdict check
  cases h1 : sample.find? (fun c => !cfgIsModel nodes n c) with
  | some c =>
    simp only
    constructor
    · intro h; exact absurd h (invalid_ne_ok _)
    · intro h
      rw [Bool.and_eq_true, List.all_eq_true] at h
      have hm := h.1 c (List.mem_of_find?_eq_some h1)
      have hn := List.find?_some h1
      rw [hm] at hn
      cases hn
  | none =>
    simp only
    have hall : sample.all (cfgIsModel nodes n) = true := by
      rw [List.find?_eq_none] at h1
      rw [List.all_eq_true]
      intro c hc
      have := h1 c hc
      simpa using this
    rw [hall, Bool.true_and]
    cases h2 : (interactions n t).find?
        (fun I => !(execQuery nodes n I == 0 || coveredBy sample I)) with
    | some I =>
      simp only
      constructor
      · intro h; exact absurd h (uncovered_ne_ok _)
      · intro h
        rw [List.all_eq_true] at h
        have hm := h I (List.mem_of_find?_eq_some h2)
        have hn := List.find?_some h2
        rw [hm] at hn
        cases hn
    | none =>
      simp only [true_iff]
      rw [List.find?_eq_none] at h2
      rw [List.all_eq_true]
      intro I hI
      have hn := h2 I hI
      cases hb : (execQuery nodes n I == 0 || coveredBy sample I) with
      | true => rfl
      | false => rw [hb] at hn; exact absurd rfl hn

/-! ### the checker is not vacuous -/

example :
    check [.lit 1, .lit (-1), .or [1, 0], .lit 2, .lit (-2), .or [4, 3], .and [5, 2]] 2 2
      [[1, 2], [1, -2], [-1, 2], [-1, -2]] = true := by decide

example :
    check [.lit 1, .lit (-1), .or [1, 0], .lit 2, .lit (-2), .or [4, 3], .and [5, 2]] 2 2
      [[1, 2], [1, -2], [-1, 2]] = false := by decide

end Ddnnf.TWise
