/-
  Semantics of the listed models: `count` is the length of `models`, `eval` is "some listed
  model is satisfied", and under determinism every assignment satisfies at most one listed model.
-/
import DdnnfVerif.Proofs.Table

namespace Ddnnf

/-! ### `prodNat`, `sumNat` -/

@[simp] theorem prodNat_nil : prodNat [] = 1 := rfl
@[simp] theorem prodNat_cons (x : Nat) (xs : List Nat) : prodNat (x :: xs) = x * prodNat xs := rfl
@[simp] theorem sumNat_nil : sumNat [] = 0 := rfl
@[simp] theorem sumNat_cons (x : Nat) (xs : List Nat) : sumNat (x :: xs) = x + sumNat xs := rfl

theorem sumNat_eq_sum (xs : List Nat) : sumNat xs = xs.sum := by
  induction xs with
  | nil => rfl
  | cons x xs ih => simp [ih]

/-- a product of 0/1 indicators is the indicator of the conjunction -/
theorem prodNat_ite (cs : List Nat) (g : Nat → Bool) :
    prodNat (cs.map (fun c => if g c then 1 else 0)) = if cs.all g then 1 else 0 := by
  induction cs with
  | nil => simp
  | cons c cs ih =>
    simp only [List.map_cons, prodNat_cons, ih, List.all_cons]
    by_cases h : g c = true <;> simp [h]

/-- a sum of 0/1 indicators is `countP` -/
theorem sumNat_ite (cs : List Nat) (g : Nat → Bool) :
    sumNat (cs.map (fun c => if g c then 1 else 0)) = cs.countP g := by
  induction cs with
  | nil => simp
  | cons c cs ih =>
    simp only [List.map_cons, sumNat_cons, ih, List.countP_cons]
    by_cases h : g c = true <;> simp [h] <;> omega

/-! ### satisfaction of configurations -/

theorem satCfg_append (σ) (a b : Config) : satCfg σ (a ++ b) = (satCfg σ a && satCfg σ b) := by
  simp [satCfg, List.all_append]

@[simp] theorem satCfg_nil (σ) : satCfg σ [] = true := rfl

/-! ### the product of configuration lists -/

theorem mem_prodConfigs_cons (l : List Config) (rest : List (List Config)) (c : Config) :
    c ∈ prodConfigs (l :: rest) ↔ ∃ tl ∈ prodConfigs rest, ∃ hd ∈ l, c = tl ++ hd := by
  simp only [prodConfigs, List.mem_flatMap, List.mem_map]
  constructor
  · rintro ⟨tl, htl, hd, hhd, rfl⟩; exact ⟨tl, htl, hd, hhd, rfl⟩
  · rintro ⟨tl, htl, hd, hhd, rfl⟩; exact ⟨tl, htl, hd, hhd, rfl⟩

theorem length_prodConfigs (ls : List (List Config)) :
    (prodConfigs ls).length = prodNat (ls.map List.length) := by
  induction ls with
  | nil => simp [prodConfigs]
  | cons l rest ih =>
    simp only [prodConfigs, List.map_cons, prodNat_cons]
    rw [← ih]
    generalize prodConfigs rest = P
    induction P with
    | nil => simp
    | cons p ps ihp =>
      simp only [List.flatMap_cons, List.length_append, List.length_map, ihp, List.length_cons,
        Nat.mul_succ]
      omega

theorem count_eq_length_models (nodes : List NType) (j : Nat) :
    count nodes j = (models nodes j).length := by
  unfold count models
  apply table_rel (fun (a : Nat) (b : List Config) => a = b.length) 0 [] fCount fModels rfl
  intro nd ga gb h
  cases nd with
  | and cs =>
    simp only [fCount, fModels, length_prodConfigs, List.map_map]
    congr 1
    apply List.map_congr_left
    intro c _; simp [h c]
  | or cs =>
    simp only [fCount, fModels, List.length_flatten, List.map_map, sumNat_eq_sum]
    congr 1
    apply List.map_congr_left
    intro c _; simp [h c]
  | lit l => simp [fCount, fModels]
  | tru => simp [fCount, fModels]
  | fls => simp [fCount, fModels]

/-- a configuration of the product is satisfied iff every factor has a satisfied configuration -/
theorem exists_sat_prod (σ) (ls : List (List Config)) :
    (∃ c ∈ prodConfigs ls, satCfg σ c = true) ↔ ∀ l ∈ ls, ∃ c ∈ l, satCfg σ c = true := by
  induction ls with
  | nil => simp [prodConfigs]
  | cons l rest ih =>
    simp only [List.forall_mem_cons]
    constructor
    · rintro ⟨c, hc, hs⟩
      obtain ⟨tl, htl, hd, hhd, rfl⟩ := (mem_prodConfigs_cons _ _ _).mp hc
      rw [satCfg_append, Bool.and_eq_true] at hs
      exact ⟨⟨hd, hhd, hs.2⟩, ih.mp ⟨tl, htl, hs.1⟩⟩
    · rintro ⟨⟨hd, hhd, hs1⟩, hrest⟩
      obtain ⟨tl, htl, hs2⟩ := ih.mpr hrest
      exact ⟨tl ++ hd, (mem_prodConfigs_cons _ _ _).mpr ⟨tl, htl, hd, hhd, rfl⟩,
        by simp [satCfg_append, hs1, hs2]⟩

theorem eval_iff_models (σ : Assignment) (nodes : List NType) (j : Nat) :
    eval σ nodes j = true ↔ ∃ c ∈ models nodes j, satCfg σ c = true := by
  unfold eval models
  apply table_rel (fun (b : Bool) (ms : List Config) => b = true ↔ ∃ c ∈ ms, satCfg σ c = true)
    false [] (fEval σ) fModels (by simp)
  intro nd ga gb h
  cases nd with
  | and cs =>
    simp only [fEval, fModels]
    rw [exists_sat_prod]
    simp only [List.all_eq_true, List.mem_map, forall_exists_index, and_imp,
      forall_apply_eq_imp_iff₂]
    exact forall_congr' fun c => imp_congr_right fun _ => h c
  | or cs =>
    simp only [fEval, fModels, List.any_eq_true, List.mem_flatten, List.mem_map]
    constructor
    · rintro ⟨c, hc, hg⟩
      obtain ⟨cfg, hcfg, hs⟩ := (h c).mp hg
      exact ⟨cfg, ⟨gb c, ⟨c, hc, rfl⟩, hcfg⟩, hs⟩
    · rintro ⟨cfg, ⟨l, ⟨c, hc, rfl⟩, hcfg⟩, hs⟩
      exact ⟨c, hc, (h c).mpr ⟨cfg, hcfg, hs⟩⟩
  | lit l => simp [fEval, fModels, satCfg]
  | tru => simp [fEval, fModels]
  | fls => simp [fEval, fModels]

theorem countP_prod (σ) (ls : List (List Config)) :
    (prodConfigs ls).countP (satCfg σ) = prodNat (ls.map (List.countP (satCfg σ))) := by
  induction ls with
  | nil => simp [prodConfigs]
  | cons l rest ih =>
    simp only [prodConfigs, List.map_cons, prodNat_cons]
    rw [← ih]
    generalize prodConfigs rest = P
    induction P with
    | nil => simp
    | cons p ps ihp =>
      simp only [List.flatMap_cons, List.countP_append, List.countP_cons, ihp]
      have : (l.map (fun hd => p ++ hd)).countP (satCfg σ)
          = if satCfg σ p then l.countP (satCfg σ) else 0 := by
        rw [List.countP_map]
        by_cases hp : satCfg σ p = true
        · simp only [hp, if_true]; congr 1; funext x; simp [Function.comp, satCfg_append, hp]
        · simp only [hp]
          rw [List.countP_eq_zero.mpr]
          · simp
          · intro a _; simp [satCfg_append, hp]
      rw [this]
      by_cases hp : satCfg σ p = true <;> simp [hp, Nat.mul_add, Nat.add_comm]

/-! ### determinism: at most one listed model is satisfied -/

/-- one step of the pass: if every child list contains at most one satisfied model, and this is
recorded by the Boolean child value, the same holds for the node -/
theorem countP_fModels_step (σ : Assignment) (nd : NType) (gm : Nat → List Config)
    (ge : Nat → Bool) (hch : ∀ c, (gm c).countP (satCfg σ) = if ge c then 1 else 0)
    (hdet : ∀ cs, nd = .or cs → cs.countP ge ≤ 1) :
    (fModels nd gm).countP (satCfg σ) = if fEval σ nd ge then 1 else 0 := by
  cases nd with
  | and cs =>
    show (prodConfigs (cs.map gm)).countP (satCfg σ) = if cs.all ge then 1 else 0
    rw [countP_prod, List.map_map, ← prodNat_ite]
    congr 1
    apply List.map_congr_left
    intro c _
    exact hch c
  | or cs =>
    show ((cs.map gm).flatten).countP (satCfg σ) = if cs.any ge then 1 else 0
    rw [List.countP_flatten, List.map_map]
    have e1 : cs.map (List.countP (satCfg σ) ∘ gm) = cs.map (fun c => if ge c then 1 else 0) := by
      apply List.map_congr_left
      intro c _
      exact hch c
    rw [e1, ← sumNat_eq_sum, sumNat_ite]
    have hle := hdet cs rfl
    by_cases hany : cs.any ge = true
    · have hpos : 0 < cs.countP ge := by
        rw [List.countP_pos_iff]
        simpa [List.any_eq_true] using hany
      rw [hany, if_pos rfl]
      omega
    · have hz : cs.countP ge = 0 := by
        rw [List.countP_eq_zero]
        intro c hc hcc
        exact hany (List.any_eq_true.mpr ⟨c, hc, hcc⟩)
      rw [hz, if_neg hany]
  | lit l =>
    show ([[l]] : List Config).countP (satCfg σ) = if litTrue σ l then 1 else 0
    simp [satCfg]
  | tru =>
    show ([[]] : List Config).countP (satCfg σ) = if true then 1 else 0
    simp
  | fls =>
    show ([] : List Config).countP (satCfg σ) = if false then 1 else 0
    simp

/-- with determinism every assignment satisfies at most one listed model -/
theorem countP_models (nodes : List NType) (hdet : Deterministic nodes) (σ : Assignment) (i : Nat) :
    (models nodes i).countP (satCfg σ) = if eval σ nodes i then 1 else 0 := by
  induction i using Nat.strongRecOn with
  | _ i ih =>
    by_cases h : i < nodes.length
    · have hm : models nodes i
          = fModels nodes[i] (fun j => if j < i then models nodes j else []) :=
        val_eq [] fModels nodes i h
      have he : eval σ nodes i
          = fEval σ nodes[i] (fun j => if j < i then eval σ nodes j else false) :=
        val_eq false (fEval σ) nodes i h
      rw [hm, he]
      apply countP_fModels_step
      · intro c
        by_cases hc : c < i
        · simp only [hc, if_true]; exact ih c hc
        · simp [hc]
      · intro cs hnd
        refine Nat.le_trans (List.countP_mono_left ?_) (hdet i h cs hnd σ)
        intro c _ hc
        by_cases hci : c < i
        · simpa [hci] using hc
        · simp [hci] at hc
    · have h1 : models nodes i = [] := val_of_ge _ _ _ _ (by omega)
      have h2 : eval σ nodes i = false := val_of_ge _ _ _ _ (by omega)
      simp [h1, h2]

end Ddnnf
