/-
  Denotation of the graphs of the d4 loader (part 11): smoothing and the elimination keep the rank
  invariant `RInv` (hence acyclicity).

  * `tri_no_work`: a registered triangle `or(f, -f)` is never balanced (both children mention exactly `f`);
  * `smooth_rank`; `elim_rank` (the elimination only removes edges: the same rank works).
-/
import DdnnfVerif.Proofs.LoadSem10

namespace Ddnnf.D4

/-- the body of the fold of `smooth` -/
def smoothStep (sorted : Bool) (h : List Nat → List Nat) (vs : Array (List Nat)) (acc : LState) (nx : Nat) :
    LState :=
  match acc.g.kindOf nx with
  | some .or => balance sorted h acc nx (missing ((acc.g.outs.getD nx []).map fun c => (c, vs.getD c [])))
  | _ => acc

theorem smooth_eq (sorted : Bool) (h : List Nat → List Nat) (s : LState) (root : Nat) :
    smooth sorted h s root = (postOrder s.g root).foldl (smoothStep sorted h (varSets s.g root)) s := rfl

theorem smoothStep_or (sorted : Bool) (h : List Nat → List Nat) (vs : Array (List Nat)) (acc : LState)
    (nx : Nat) (hk : acc.g.kindOf nx = some .or) :
    smoothStep sorted h vs acc nx =
      balance sorted h acc nx (missing ((acc.g.outs.getD nx []).map fun c => (c, vs.getD c []))) := by
  unfold smoothStep; rw [hk]

theorem smoothStep_other (sorted : Bool) (h : List Nat → List Nat) (vs : Array (List Nat)) (acc : LState)
    (nx : Nat) (hk : acc.g.kindOf nx ≠ some .or) : smoothStep sorted h vs acc nx = acc := by
  unfold smoothStep
  split
  · rename_i hk'; exact absurd hk' hk
  · rfl

/-- the variable list of an emitted literal leaf -/
theorem varSets_lit (g : G) (root : Nat) (r : Nat → Nat)
    (hwf : ∀ x, ∀ c ∈ g.outs.getD x [], c < g.kind.size) (hacyc : Acyclic g r)
    (c : Nat) (hc : c ∈ postOrder g root) (l : Int) (hk : g.kindOf c = some (.lit l)) :
    (varSets g root).getD c [] = [l.natAbs] := by
  rw [varSets_unfold g root r hwf hacyc c hc]
  unfold nodeV
  rw [hk]

/-- a node all of whose successors are literal leaves of the variable `f` is not balanced -/
theorem tri_no_work (g : G) (root : Nat) (r : Nat → Nat)
    (hwf : ∀ x, ∀ c ∈ g.outs.getD x [], c < g.kind.size) (hacyc : Acyclic g r)
    (nx : Nat) (hnx : nx ∈ postOrder g root) (f : Nat)
    (hch : ∀ c ∈ g.outs.getD nx [], ∃ l, g.kindOf c = some (.lit l) ∧ l.natAbs = f) :
    missing ((g.outs.getD nx []).map fun c => (c, (varSets g root).getD c [])) = [] := by
  apply List.eq_nil_iff_forall_not_mem.2
  intro w hw
  rw [mem_missing] at hw
  obtain ⟨i, hi, hne, _⟩ := hw
  obtain ⟨v, hv⟩ := List.exists_mem_of_ne_nil _ hne
  rw [mem_missOf] at hv
  obtain ⟨hnot, j, hj, _, hvj⟩ := hv
  rw [List.length_map] at hi hj
  have hvs : ∀ k (hk : k < (g.outs.getD nx []).length),
      ((g.outs.getD nx []).map fun c => (c, (varSets g root).getD c [])).getD k (0, [])
        = ((g.outs.getD nx [])[k], [f]) := by
    intro k hk
    rw [getD_map_pair _ _ k hk]
    have hm : (g.outs.getD nx [])[k] ∈ g.outs.getD nx [] := List.getElem_mem hk
    obtain ⟨l, hl, hlf⟩ := hch _ hm
    rw [varSets_lit g root r hwf hacyc _ (postOrder_succ_mem g root r hwf hacyc nx hnx _ hm) l hl, hlf]
  rw [hvs j hj] at hvj
  rw [hvs i hi] at hnot
  exact hnot hvj

theorem smooth_fold_rank (sorted : Bool) (h : List Nat → List Nat) (s : LState) (root : Nat)
    (ρ0 : Nat → Nat) (hs : RInv s ρ0) :
    ∀ (todo : List Nat) (acc : LState), todo.Nodup → (∀ x ∈ todo, x ∈ postOrder s.g root) →
      (∃ ρ, RInv acc ρ) → s.g.kind.size ≤ acc.g.kind.size →
      (∀ x, x < s.g.kind.size → acc.g.kindOf x = s.g.kindOf x) →
      (∀ x ∈ todo, acc.g.outs.getD x [] = s.g.outs.getD x []) →
      ∃ ρ', RInv (todo.foldl (smoothStep sorted h (varSets s.g root)) acc) ρ' := by
  intro todo
  induction todo with
  | nil => intro acc _ _ hr _ _ _; exact hr
  | cons nx rest ih =>
    intro acc hnd hmem hr hsz hkinds houts
    obtain ⟨ρ, r⟩ := hr
    have hnd' := List.nodup_cons.1 hnd
    have hnxo : nx ∈ postOrder s.g root := hmem nx (List.mem_cons_self ..)
    have hnx : nx < s.g.kind.size := postOrder_lt s.g root nx hnxo
    have hnx' : nx < acc.g.kind.size := Nat.lt_of_lt_of_le hnx hsz
    have hrest : ∀ x ∈ rest, x ∈ postOrder s.g root := fun x hx => hmem x (List.mem_cons_of_mem _ hx)
    have same : ∃ ρ', RInv (rest.foldl (smoothStep sorted h (varSets s.g root)) acc) ρ' :=
      ih acc hnd'.2 hrest ⟨ρ, r⟩ hsz hkinds (fun x hx => houts x (List.mem_cons_of_mem _ hx))
    rw [List.foldl_cons]
    by_cases hk : acc.g.kindOf nx = some .or
    · rw [smoothStep_or sorted h _ acc nx hk]
      by_cases htri : ∃ e ∈ acc.tri, e.2 = nx
      · -- a triangle: nothing to do
        obtain ⟨e, he, henx⟩ := htri
        have hout := houts nx (List.mem_cons_self ..)
        have hwork : missing ((acc.g.outs.getD nx []).map fun c => (c, (varSets s.g root).getD c [])) = [] := by
          rw [hout]
          apply tri_no_work s.g root ρ0 hs.linv.wf.edges hs.acyc nx hnxo e.1
          intro c hc
          have hc' : c ∈ acc.g.outs.getD e.2 [] := by rw [henx, hout]; exact hc
          obtain ⟨l, hl, hlf⟩ := r.triOuts e he c hc'
          exact ⟨l, by rw [← hkinds c (hs.linv.wf.edges nx c hc)]; exact hl, hlf⟩
        rw [hwork]
        exact same
      · -- an ordinary `or`: its rank is at least 2
        have hr2 : 2 ≤ ρ nx := by
          apply Classical.byContradiction
          intro hlt
          rcases r.low nx (by omega) with ⟨e, he, henx⟩ | ⟨e, he, henx⟩
          · have := r.litK e he
            rw [henx, hk] at this; cases this
          · exact htri ⟨e, he, henx⟩
        obtain ⟨ρ', r', z, k, o⟩ := balance_rank sorted h nx
          (missing ((acc.g.outs.getD nx []).map fun c => (c, (varSets s.g root).getD c []))) acc ρ hnx' hr2 (by
            intro c
            have hsub := missing_fst_sublist
              ((acc.g.outs.getD nx []).map fun c => (c, (varSets s.g root).getD c []))
            have hm : ((acc.g.outs.getD nx []).map fun c => (c, (varSets s.g root).getD c [])).map Prod.fst
                = acc.g.outs.getD nx [] := by
              rw [List.map_map]
              exact List.map_id' _
            rw [hm] at hsub
            exact hsub.count_le c) r
        apply ih _ hnd'.2 hrest ⟨ρ', r'⟩ (Nat.le_trans hsz z)
        · intro x hx
          rw [k x (Nat.lt_of_lt_of_le hx hsz)]; exact hkinds x hx
        · intro x hx
          have hxs : x < s.g.kind.size := postOrder_lt s.g root x (hrest x hx)
          have hxn : x ≠ nx := fun e => hnd'.1 (e ▸ hx)
          rw [o x (Nat.lt_of_lt_of_le hxs hsz) hxn]
          exact houts x (List.mem_cons_of_mem _ hx)
    · rw [smoothStep_other sorted h _ acc nx hk]
      exact same

/-- phase 4 keeps the graph acyclic -/
theorem smooth_rank (sorted : Bool) (h : List Nat → List Nat) (s : LState) (root : Nat) (ρ : Nat → Nat)
    (hs : RInv s ρ) : ∃ ρ', RInv (smooth sorted h s root) ρ' := by
  rw [smooth_eq]
  exact smooth_fold_rank sorted h s root ρ hs _ s (postOrder_nodup s.g root) (fun _ hx => hx) ⟨ρ, hs⟩
    (Nat.le_refl _) (fun _ _ => rfl) (fun _ _ => rfl)

/-- phase 3 keeps the rank invariant, with the same rank -/
theorem elim_rank (s : LState) (ρ : Nat → Nat) (root : Nat) (h : RInv s ρ) :
    RInv { s with g := eliminate s.g root } ρ := by
  have hrel := erel_eliminate s.g root
  have hwfn := eliminate_wfn s.g.kind.size s.g root ⟨h.linv.wf, rfl⟩
  have hkeep : ∀ x l, s.g.kindOf x = some (.lit l) → (eliminate s.g root).kindOf x = some (.lit l) := by
    intro x l hk
    rcases hrel.kinds x with e | ⟨_, e⟩ | ⟨_, e⟩
    · exact e.trans hk
    · rw [hk] at e; cases e
    · rw [hk] at e; cases e
  refine ⟨h.linv.setG _ hwfn.1 (by rw [hwfn.2]; exact Nat.le_refl _), fun e he => hkeep _ _ (h.litK e he),
    fun x c hc => h.acyc x c (hrel.outs x c hc), h.leaf, h.tri, h.low, ?_⟩
  intro e he c hc
  obtain ⟨l, hl, hlf⟩ := h.triOuts e he c (hrel.outs _ c hc)
  exact ⟨l, hkeep c l hl, hlf⟩

end Ddnnf.D4
