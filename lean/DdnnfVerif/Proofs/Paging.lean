/-
  C06: paged enumeration.  Successive `enumerate(A, k)` requests for the same assumption set `A`
  return consecutive slices of one fixed list `ms` (the listed models of the root compatible with
  `A`), `min k remaining` each; after the list is exhausted the next request restarts at 0;
  requests for other assumption sets do not move the position of this one; permuting `A` does
  not change the cursor key.

  Model: `Model/Enum.lean` (`enumerate`, `Cursor`, `sortAbs`).
  The prefix theorem `enumNode_eq_slice` is in `Proofs/Enum.lean`.
-/
import DdnnfVerif.Proofs.Enum

namespace Ddnnf

/-! ### the cursor key: `sortAbs` -/

theorem insertAbs_perm (x : Int) (xs : List Int) : (insertAbs x xs).Perm (x :: xs) := by
  induction xs with
  | nil => exact List.Perm.refl _
  | cons y ys ih =>
    unfold insertAbs
    by_cases h : x.natAbs < y.natAbs
    · rw [if_pos h]
    · rw [if_neg h]
      exact (List.Perm.cons y ih).trans (List.Perm.swap x y ys)

/-- the cursor key is a permutation of the assumptions -/
theorem sortAbs_perm (xs : List Int) : (sortAbs xs).Perm xs := by
  induction xs with
  | nil => exact List.Perm.refl _
  | cons x xs ih =>
    show (insertAbs x (sortAbs xs)).Perm (x :: xs)
    exact (insertAbs_perm x _).trans (List.Perm.cons x ih)

theorem insertAbs_sorted (x : Int) (xs : List Int)
    (h : xs.Pairwise (fun a b => a.natAbs ≤ b.natAbs)) :
    (insertAbs x xs).Pairwise (fun a b => a.natAbs ≤ b.natAbs) := by
  induction xs with
  | nil => simp [insertAbs]
  | cons y ys ih =>
    rw [List.pairwise_cons] at h
    unfold insertAbs
    by_cases hxy : x.natAbs < y.natAbs
    · rw [if_pos hxy]
      refine List.Pairwise.cons ?_ (List.Pairwise.cons h.1 h.2)
      intro z hz
      rcases List.mem_cons.mp hz with rfl | hz
      · omega
      · have := h.1 z hz; omega
    · rw [if_neg hxy]
      refine List.Pairwise.cons ?_ (ih h.2)
      intro z hz
      rcases List.mem_cons.mp ((insertAbs_perm x ys).mem_iff.mp hz) with rfl | hz
      · omega
      · exact h.1 z hz

theorem sortAbs_sorted (xs : List Int) :
    (sortAbs xs).Pairwise (fun a b => a.natAbs ≤ b.natAbs) := by
  induction xs with
  | nil => exact List.Pairwise.nil
  | cons x xs ih => exact insertAbs_sorted x _ ih

/-- permuting the assumptions between two calls does not change the cursor key (for assumption
lists that mention every variable at most once) -/
theorem sortAbs_eq_of_perm (xs ys : List Int) (h : xs.Perm ys) (hd : (xs.map Int.natAbs).Nodup) :
    sortAbs xs = sortAbs ys := by
  have hp : (sortAbs xs).Perm (sortAbs ys) :=
    (sortAbs_perm xs).trans (h.trans (sortAbs_perm ys).symm)
  apply List.Perm.eq_of_pairwise _ (sortAbs_sorted xs) (sortAbs_sorted ys) hp
  intro a b ha hb hab hba
  have ha' : a ∈ xs := (sortAbs_perm xs).mem_iff.mp ha
  have hb' : b ∈ xs := h.mem_iff.mpr ((sortAbs_perm ys).mem_iff.mp hb)
  have hab' : a.natAbs = b.natAbs := by omega
  clear hp ha hb hab hba h
  induction xs with
  | nil => cases ha'
  | cons z zs ih =>
    rw [List.map_cons, List.nodup_cons] at hd
    rcases List.mem_cons.mp ha' with rfl | ha'' <;> rcases List.mem_cons.mp hb' with rfl | hb''
    · rfl
    · exact absurd (List.mem_map.mpr ⟨b, hb'', hab'.symm⟩) hd.1
    · exact absurd (List.mem_map.mpr ⟨a, ha'', hab'⟩) hd.1
    · exact ih hd.2 ha'' hb''

/-! ### the cursor is a map -/

theorem Cursor.get_set_same (c : Cursor) (k : List Int) (v : Nat) : (c.set k v).get k = v := by
  simp [Cursor.get, Cursor.set]

theorem Cursor.get_set_other (c : Cursor) (k k' : List Int) (v : Nat) (h : k' ≠ k) :
    (c.set k v).get k' = c.get k' := by
  have hkk : (k == k') = false := by simpa using fun e => h e.symm
  have : (c.filter (fun e => !(e.1 == k))).find? (fun e => e.1 == k')
      = c.find? (fun e => e.1 == k') := by
    induction c with
    | nil => rfl
    | cons e c ih =>
      by_cases hek : e.1 = k
      · have h1 : (e.1 == k) = true := by simpa using hek
        have h2 : (e.1 == k') = false := by simpa [hek] using fun e' => h e'.symm
        rw [List.filter_cons_of_neg (by simp [h1]), List.find?_cons_of_neg (by simp [h2]), ih]
      · have h1 : (e.1 == k) = false := by simpa using hek
        rw [List.filter_cons_of_pos (by simp [h1])]
        by_cases hek' : e.1 = k'
        · have h2 : (e.1 == k') = true := by simpa using hek'
          rw [List.find?_cons_of_pos (by simp [h2]), List.find?_cons_of_pos (by simp [h2])]
        · have h2 : (e.1 == k') = false := by simpa using hek'
          rw [List.find?_cons_of_neg (by simp [h2]), List.find?_cons_of_neg (by simp [h2]), ih]
  unfold Cursor.get Cursor.set
  rw [List.find?_cons_of_neg (by simp [hkk]), this]

/-! ### the specification: pages of a fixed list -/

/-- the page served at position `pos` for a request of `k` elements: the slice
`[pos, min |ms| (pos + k))` of `ms` -/
def page {α} (ms : List α) (pos k : Nat) : List α :=
  (ms.take (min ms.length (pos + k))).drop pos

/-- the position after that request: the end of the slice, 0 if the end of `ms` was reached -/
def nextPos {α} (ms : List α) (pos k : Nat) : Nat :=
  min ms.length (pos + k) % ms.length

/-- the pages served for the successive amounts `ks`, starting at position `pos` -/
def servePages {α} (ms : List α) : Nat → List Nat → List (List α)
  | _, [] => []
  | pos, k :: ks => page ms pos k :: servePages ms (nextPos ms pos k) ks

/-- the position after the successive amounts `ks` -/
def finalPos {α} (ms : List α) : Nat → List Nat → Nat
  | pos, [] => pos
  | pos, k :: ks => finalPos ms (nextPos ms pos k) ks

/-- `m` copies of `ms` -/
def cycle {α} (ms : List α) (m : Nat) : List α := (List.replicate m ms).flatten

theorem page_eq {α} (ms : List α) (pos k : Nat) : page ms pos k = (ms.drop pos).take k := by
  unfold page
  rw [List.drop_take]
  by_cases h : pos + k ≤ ms.length
  · rw [Nat.min_eq_right h, Nat.add_sub_cancel_left]
  · rw [Nat.min_eq_left (by omega)]
    rw [List.take_of_length_le (by simp), List.take_of_length_le (by simp; omega)]

/-- a page has `min k remaining` elements -/
theorem length_page {α} (ms : List α) (pos k : Nat) :
    (page ms pos k).length = min k (ms.length - pos) := by
  rw [page_eq]; simp

/-- a page never wraps around: the next position is the end of the page, or 0 if the page reached
the end of the list -/
theorem nextPos_eq {α} (ms : List α) (pos k : Nat) :
    nextPos ms pos k = if pos + k < ms.length then pos + k else 0 := by
  unfold nextPos
  by_cases h : pos + k < ms.length
  · rw [if_pos h, Nat.min_eq_right (by omega), Nat.mod_eq_of_lt h]
  · rw [if_neg h, Nat.min_eq_left (by omega), Nat.mod_self]

theorem nextPos_lt {α} (ms : List α) (pos k : Nat) (h : 0 < ms.length) :
    nextPos ms pos k < ms.length := by
  rw [nextPos_eq]; split <;> omega

/-- positions stay below the length of the list -/
theorem finalPos_lt {α} (ms : List α) (pos : Nat) (ks : List Nat) (hpos : pos < ms.length) :
    finalPos ms pos ks < ms.length := by
  induction ks generalizing pos with
  | nil => exact hpos
  | cons k ks ih => exact ih _ (nextPos_lt ms pos k (by omega))

theorem cycle_succ {α} (ms : List α) (q : Nat) : cycle ms (q + 1) = ms ++ cycle ms q := by
  simp [cycle, List.replicate_succ]

/-- what has been served so far, preceded by the part of the list before the start position, is a
number of complete copies of `ms` followed by the part of `ms` before the final position -/
theorem servePages_flatten_from {α} (ms : List α) (pos : Nat) (ks : List Nat) :
    ∃ q, q ≤ ks.length ∧
      ms.take pos ++ (servePages ms pos ks).flatten = cycle ms q ++ ms.take (finalPos ms pos ks) := by
  induction ks generalizing pos with
  | nil => exact ⟨0, Nat.le_refl _, by simp [servePages, finalPos, cycle]⟩
  | cons k ks ih =>
    obtain ⟨q, hq, ih⟩ := ih (nextPos ms pos k)
    simp only [servePages, finalPos, List.flatten_cons]
    rw [nextPos_eq] at ih ⊢
    by_cases h : pos + k < ms.length
    · rw [if_pos h] at ih ⊢
      refine ⟨q, by simp; omega, ?_⟩
      rw [← ih, ← List.append_assoc, page_eq, ← List.take_add]
    · rw [if_neg h] at ih ⊢
      refine ⟨q + 1, by simp; omega, ?_⟩
      rw [List.take_zero, List.nil_append] at ih
      rw [ih, ← List.append_assoc, page_eq,
        List.take_of_length_le (i := k) (l := ms.drop pos) (by rw [List.length_drop]; omega),
        List.take_append_drop, cycle_succ, List.append_assoc]

/-- starting at position 0, the concatenation of the pages is a number of complete copies of `ms`
followed by the part of `ms` before the final position -/
theorem servePages_flatten {α} (ms : List α) (ks : List Nat) :
    ∃ q, q ≤ ks.length ∧
      (servePages ms 0 ks).flatten = cycle ms q ++ ms.take (finalPos ms 0 ks) := by
  simpa using servePages_flatten_from ms 0 ks

theorem cycle_add {α} (ms : List α) (q d : Nat) : cycle ms (q + d) = cycle ms q ++ cycle ms d := by
  induction q with
  | zero => simp [cycle]
  | succ q ih => rw [Nat.succ_add, cycle_succ, cycle_succ, ih, List.append_assoc]

/-- starting at position 0, the concatenation of the pages is a prefix of `ms ++ ms ++ …` -/
theorem servePages_prefix_cycle {α} (ms : List α) (ks : List Nat) :
    (servePages ms 0 ks).flatten <+: cycle ms (ks.length + 1) := by
  obtain ⟨q, hq, h⟩ := servePages_flatten ms ks
  rw [h]
  obtain ⟨d, hd⟩ : ∃ d, ks.length = q + d := ⟨ks.length - q, by omega⟩
  rw [hd, Nat.add_assoc, cycle_add]
  apply (List.prefix_append_right_inj _).mpr
  rw [cycle_succ]
  exact (List.take_prefix _ _).trans (List.prefix_append _ _)

/-- the requests between two visits of position 0: the run ends at position 0 and no earlier
request of the run did -/
def OneRound {α} (ms : List α) (pos : Nat) (ks : List Nat) : Prop :=
  ks ≠ [] ∧ finalPos ms pos ks = 0 ∧
    ∀ ks₁ ks₂, ks = ks₁ ++ ks₂ → ks₁ ≠ [] → ks₂ ≠ [] → finalPos ms pos ks₁ ≠ 0

/-- the pages served until position 0 is reached again are exactly the rest of the list -/
theorem servePages_round_from {α} (ms : List α) (pos : Nat) (ks : List Nat)
    (hk : ∀ k ∈ ks, 0 < k) (hround : OneRound ms pos ks) :
    (servePages ms pos ks).flatten = ms.drop pos := by
  induction ks generalizing pos with
  | nil => exact absurd rfl hround.1
  | cons k ks ih =>
    obtain ⟨_, hfin, hpre⟩ := hround
    have hk0 : 0 < k := hk k (List.mem_cons_self ..)
    simp only [servePages, finalPos, List.flatten_cons] at hfin ⊢
    cases ks with
    | nil =>
      simp only [finalPos, nextPos_eq] at hfin
      have hge : ¬ pos + k < ms.length := by
        intro h; rw [if_pos h] at hfin; omega
      simp only [servePages, List.flatten_nil, List.append_nil]
      rw [page_eq,
        List.take_of_length_le (i := k) (l := ms.drop pos) (by rw [List.length_drop]; omega)]
    | cons k' ks' =>
      have hnz : nextPos ms pos k ≠ 0 := by
        have := hpre [k] (k' :: ks') rfl (by simp) (by simp)
        simpa [finalPos] using this
      rw [nextPos_eq] at hnz hfin ⊢
      have hlt : pos + k < ms.length := by
        apply Classical.byContradiction; intro h; rw [if_neg h] at hnz; exact hnz rfl
      rw [if_pos hlt] at hfin ⊢
      rw [ih (pos + k) (fun x hx => hk x (List.mem_cons_of_mem _ hx)), page_eq,
        ← List.drop_drop, List.take_append_drop]
      refine ⟨by simp, hfin, ?_⟩
      intro a b hab ha hb
      have := hpre (k :: a) b (by rw [hab]; rfl) (by simp) hb
      simpa [finalPos, nextPos_eq, hlt] using this

/-- the pages served between two visits of position 0 concatenate to `ms`; if `ms` has no
duplicates they are pairwise disjoint -/
theorem pages_disjoint_within_cycle {α} (ms : List α) (ks : List Nat) (hk : ∀ k ∈ ks, 0 < k)
    (hround : OneRound ms 0 ks) :
    (servePages ms 0 ks).flatten = ms ∧
      (ms.Nodup → (servePages ms 0 ks).Pairwise (fun p q => ∀ x ∈ p, x ∉ q)) := by
  have h := servePages_round_from ms 0 ks hk hround
  rw [List.drop_zero] at h
  refine ⟨h, fun hnd => ?_⟩
  rw [← h, List.Nodup, List.pairwise_flatten] at hnd
  refine hnd.2.imp ?_
  intro p q hpq x hx hxq
  exact hpq x hx x hxq rfl

/-! ### one request -/

/-- the list a cursor key pages through: the listed models of the root that are compatible with
the assumptions -/
def enumList (nodes : List NType) (key : List Int) : List Config :=
  modelsA nodes (key.map (fun f => -f)) (rootIx nodes)

theorem enumerate_zero (nodes : List NType) (n : Nat) (cur : Cursor) (A : List Int) :
    enumerate nodes n cur A 0 = (cur, some []) := rfl

/-- one request: the page is the slice `[last, min rt (last + k))` of `ms`, the new position is
the end of the slice modulo `rt` -/
theorem enumerate_step (nodes : List NType) (n : Nat) (htopo : Topo nodes)
    (hnt : NoTruUnderOr nodes) (hroot : nodes.getLast? ≠ some .tru) (hne : nodes ≠ [])
    (cur : Cursor) (A : List Int) (k : Nat) (hk : 0 < k) (hin : ∀ f ∈ A, f.natAbs ≤ n)
    (hsat : 0 < execQuery nodes n (sortAbs A)) :
    let ms := enumList nodes (sortAbs A)
    let rt := ms.length
    let last := cur.get (sortAbs A)
    enumerate nodes n cur A k
      = (cur.set (sortAbs A) (min rt (last + k) % rt),
         some ((ms.take (min rt (last + k))).drop last)) := by
  intro ms rt last
  have hk' : (k == 0) = false := by simp; omega
  have hany : A.any (fun f => f.natAbs > n) = false := by
    rw [List.any_eq_false]
    intro f hf
    have := hin f hf
    simp; omega
  unfold enumerate
  rw [hk', hany]
  simp only [Bool.false_eq_true, if_false]
  rw [if_pos hsat, enum_countA_eq_length, enumNode_eq_slice nodes _ htopo hnt hroot hne]
  rfl

/-- the same in terms of `page` / `nextPos` -/
theorem enumerate_step' (nodes : List NType) (n : Nat) (htopo : Topo nodes)
    (hnt : NoTruUnderOr nodes) (hroot : nodes.getLast? ≠ some .tru) (hne : nodes ≠ [])
    (cur : Cursor) (A : List Int) (k : Nat) (hk : 0 < k) (hin : ∀ f ∈ A, f.natAbs ≤ n)
    (hsat : 0 < execQuery nodes n (sortAbs A)) :
    enumerate nodes n cur A k
      = (cur.set (sortAbs A) (nextPos (enumList nodes (sortAbs A)) (cur.get (sortAbs A)) k),
         some (page (enumList nodes (sortAbs A)) (cur.get (sortAbs A)) k)) :=
  enumerate_step nodes n htopo hnt hroot hne cur A k hk hin hsat

/-- a request never moves the position of another key -/
theorem enumerate_other_key (nodes : List NType) (n : Nat) (cur : Cursor) (B : List Int) (k : Nat)
    (key : List Int) (h : sortAbs B ≠ key) :
    (enumerate nodes n cur B k).1.get key = cur.get key := by
  unfold enumerate
  split
  · rfl
  · split
    · rfl
    · simp only []
      split
      · exact Cursor.get_set_other cur (sortAbs B) key _ (fun e => h e.symm)
      · rfl

/-! ### histories of requests -/

/-- the cursor after a history of requests `(assumptions, amount)` -/
def runCursor (nodes : List NType) (n : Nat) : Cursor → List (List Int × Nat) → Cursor
  | cur, [] => cur
  | cur, (A, k) :: rest => runCursor nodes n (enumerate nodes n cur A k).1 rest

/-- the answers to those requests of a history whose cursor key is `key`, in order -/
def answersFor (nodes : List NType) (n : Nat) (key : List Int) :
    Cursor → List (List Int × Nat) → List (Option (List Config))
  | _, [] => []
  | cur, (A, k) :: rest =>
    if sortAbs A = key then
      (enumerate nodes n cur A k).2 :: answersFor nodes n key (enumerate nodes n cur A k).1 rest
    else answersFor nodes n key (enumerate nodes n cur A k).1 rest

/-- the amounts of those requests of a history whose cursor key is `key`, in order -/
def amountsFor (key : List Int) (reqs : List (List Int × Nat)) : List Nat :=
  (reqs.filter (fun q => sortAbs q.1 = key)).map (·.2)

/-- C06.  In any history of requests, the requests with cursor key `key` (a satisfiable set of
assumptions over the features `1..n`, positive amounts) are answered with the successive pages of
the fixed list `enumList nodes key`, starting from the position the cursor had for `key`; requests
with other keys are irrelevant.  The pages are described by `servePages`: see `length_page`
(`min k remaining` elements), `nextPos_eq` (no wrap-around, restart at 0), `finalPos_lt`,
`servePages_flatten`, `servePages_prefix_cycle`, `pages_disjoint_within_cycle`. -/
theorem enumerate_history (nodes : List NType) (n : Nat) (htopo : Topo nodes)
    (hnt : NoTruUnderOr nodes) (hroot : nodes.getLast? ≠ some .tru) (hne : nodes ≠ [])
    (key : List Int) (hin : ∀ f ∈ key, f.natAbs ≤ n) (hsat : 0 < execQuery nodes n key)
    (cur : Cursor) (reqs : List (List Int × Nat))
    (hk : ∀ q ∈ reqs, sortAbs q.1 = key → 0 < q.2) :
    answersFor nodes n key cur reqs
        = (servePages (enumList nodes key) (cur.get key) (amountsFor key reqs)).map some
      ∧ (runCursor nodes n cur reqs).get key
        = finalPos (enumList nodes key) (cur.get key) (amountsFor key reqs) := by
  induction reqs generalizing cur with
  | nil => exact ⟨rfl, rfl⟩
  | cons q reqs ih =>
    obtain ⟨A, k⟩ := q
    have hk' : ∀ q ∈ reqs, sortAbs q.1 = key → 0 < q.2 :=
      fun q hq => hk q (List.mem_cons_of_mem _ hq)
    by_cases hA : sortAbs A = key
    · have hk0 : 0 < k := hk (A, k) (List.mem_cons_self ..) hA
      have hinA : ∀ f ∈ A, f.natAbs ≤ n := by
        intro f hf
        exact hin f (hA ▸ (sortAbs_perm A).mem_iff.mpr hf)
      have hstep := enumerate_step' nodes n htopo hnt hroot hne cur A k hk0 hinA (hA ▸ hsat)
      rw [hA] at hstep
      have hget : (enumerate nodes n cur A k).1.get key
          = nextPos (enumList nodes key) (cur.get key) k := by
        rw [hstep]; exact Cursor.get_set_same _ _ _
      have ham : amountsFor key ((A, k) :: reqs) = k :: amountsFor key reqs := by
        simp [amountsFor, hA]
      obtain ⟨ih1, ih2⟩ := ih (enumerate nodes n cur A k).1 hk'
      rw [hget] at ih1 ih2
      constructor
      · simp only [answersFor, if_pos hA, ham, servePages, List.map_cons, ih1]
        rw [hstep]
      · simp only [runCursor, ham, finalPos, ih2]
    · have hget := enumerate_other_key nodes n cur A k key hA
      have ham : amountsFor key ((A, k) :: reqs) = amountsFor key reqs := by
        simp [amountsFor, hA]
      obtain ⟨ih1, ih2⟩ := ih (enumerate nodes n cur A k).1 hk'
      rw [hget] at ih1 ih2
      constructor
      · simp only [answersFor, if_neg hA, ham, ih1]
      · simp only [runCursor, ham, ih2]

theorem Cursor.get_nil (key : List Int) : Cursor.get [] key = 0 := rfl

/-- C06 for a fresh cursor: the requests with key `key` are answered with the successive pages of
`enumList nodes key` starting at position 0 -/
theorem enumerate_history_fresh (nodes : List NType) (n : Nat) (htopo : Topo nodes)
    (hnt : NoTruUnderOr nodes) (hroot : nodes.getLast? ≠ some .tru) (hne : nodes ≠ [])
    (key : List Int) (hin : ∀ f ∈ key, f.natAbs ≤ n) (hsat : 0 < execQuery nodes n key)
    (reqs : List (List Int × Nat)) (hk : ∀ q ∈ reqs, sortAbs q.1 = key → 0 < q.2) :
    answersFor nodes n key [] reqs
        = (servePages (enumList nodes key) 0 (amountsFor key reqs)).map some
      ∧ (runCursor nodes n [] reqs).get key
        = finalPos (enumList nodes key) 0 (amountsFor key reqs) :=
  enumerate_history nodes n htopo hnt hroot hne key hin hsat [] reqs hk

end Ddnnf
