/-
  C01, for EVERY input file: the graph the d4 loader flattens has all its edges inside the node
  array (`loadGraph_edges`).  With `flattenGraph_topo` this leaves acyclicity of that graph as the only
  hypothesis of `load_topo`.  Also: the loaded array is not empty as soon as the file has a node line.
-/
import DdnnfVerif.Proofs.LoadSmooth

namespace Ddnnf.D4

theorem getD_push {α : Type} (a : Array α) (v d : α) (j : Nat) :
    (a.push v).getD j d = if j = a.size then v else a.getD j d := by
  simp only [Array.getD_eq_getD_getElem?, Array.getElem?_push]
  split <;> rfl

theorem getD_mem_or_default (a : Array Nat) (i d : Nat) : a.getD i d = d ∨ a.getD i d ∈ a.toList := by
  rw [Array.getD_eq_getD_getElem?]
  cases h : a[i]? with
  | none => left; rfl
  | some v => right; exact Array.mem_toList_iff.2 (Array.mem_of_getElem? h)

theorem foldl_inv {α β : Type} (P : β → Prop) (f : β → α → β) (l : List α)
    (h : ∀ b a, a ∈ l → P b → P (f b a)) (b : β) (hb : P b) : P (l.foldl f b) := by
  induction l generalizing b with
  | nil => exact hb
  | cons a l ih =>
    exact ih (fun b' a' ha' => h b' a' (List.mem_cons_of_mem _ ha')) _ (h b a (List.mem_cons_self ..) hb)

/-! ### graphs whose edges stay inside the node array -/

structure WFG (g : G) : Prop where
  osz : g.outs.size = g.kind.size
  edges : ∀ x, ∀ c ∈ g.outs.getD x [], c < g.kind.size

theorem addNode_size (g : G) (k : GK) : (g.addNode k).1.kind.size = g.kind.size + 1 := by
  simp [G.addNode]

theorem addNode_snd (g : G) (k : GK) : (g.addNode k).2 = g.kind.size := rfl

theorem addNode_wf (g : G) (k : GK) (h : WFG g) : WFG (g.addNode k).1 := by
  refine ⟨by simp [G.addNode, h.osz], ?_⟩
  intro x c hc
  rw [addNode_size]
  have hc' : c ∈ (g.outs.push []).getD x [] := hc
  rw [getD_push] at hc'
  split at hc'
  · cases hc'
  · exact Nat.lt_succ_of_lt (h.edges x c hc')

theorem addEdge_size (g : G) (a b : Nat) : (g.addEdge a b).kind.size = g.kind.size := rfl

theorem addEdge_wf (g : G) (a b : Nat) (h : WFG g) (hb : a < g.kind.size → b < g.kind.size) :
    WFG (g.addEdge a b) := by
  refine ⟨by simp [G.addEdge, h.osz], ?_⟩
  intro x c hc
  rw [addEdge_size]
  have hc' : c ∈ (g.outs.setIfInBounds a (b :: g.outs.getD a [])).getD x [] := hc
  rw [getD_setIfInBounds] at hc'
  split at hc'
  · rename_i hx
    rcases List.mem_cons.1 hc' with e | hc'
    · rw [e]; exact hb (by rw [hx.1, ← h.osz]; exact hx.2)
    · exact h.edges a c hc'
  · exact h.edges x c hc'

theorem removeEdge_size (g : G) (a b : Nat) : (g.removeEdge a b).kind.size = g.kind.size := rfl

theorem removeEdge_wf (g : G) (a b : Nat) (h : WFG g) : WFG (g.removeEdge a b) := by
  refine ⟨by simp [G.removeEdge, h.osz], ?_⟩
  intro x c hc
  rw [removeEdge_size]
  have hc' : c ∈ (g.outs.setIfInBounds a ((g.outs.getD a []).erase b)).getD x [] := hc
  rw [getD_setIfInBounds] at hc'
  split at hc'
  · exact h.edges a c (List.mem_of_mem_erase hc')
  · exact h.edges x c hc'

/-- well formed, with a given number of nodes -/
def WFn (n : Nat) (g : G) : Prop := WFG g ∧ g.kind.size = n

theorem removeNode_fold1 (x n : Nat) (l : List Nat) (g : G) (h : WFn n g) :
    WFn n (l.foldl (fun g b =>
      { g with ins := g.ins.setIfInBounds b ((g.ins.getD b []).filter (· != x)) }) g) := by
  refine foldl_inv (WFn n) _ _ ?_ g h
  intro g' _ _ hg'
  exact ⟨⟨hg'.1.osz, hg'.1.edges⟩, hg'.2⟩

theorem removeNode_fold2 (x n : Nat) (l : List Nat) (g : G) (h : WFn n g) :
    WFn n (l.foldl (fun g a =>
      { g with outs := g.outs.setIfInBounds a ((g.outs.getD a []).filter (· != x)) }) g) := by
  refine foldl_inv (WFn n) _ _ ?_ g h
  intro g' a _ hg'
  refine ⟨⟨?_, ?_⟩, hg'.2⟩
  · show (g'.outs.setIfInBounds a _).size = g'.kind.size
    rw [Array.size_setIfInBounds]; exact hg'.1.osz
  · intro y c hc
    have hc' : c ∈ (g'.outs.setIfInBounds a ((g'.outs.getD a []).filter (· != x))).getD y [] := hc
    rw [getD_setIfInBounds] at hc'
    split at hc'
    · exact hg'.1.edges a c (List.mem_filter.1 hc').1
    · exact hg'.1.edges y c hc'

theorem removeNode_final (x n : Nat) (g2 : G) (h2 : WFn n g2) :
    WFn n { g2 with kind := g2.kind.setIfInBounds x none, outs := g2.outs.setIfInBounds x [],
                    ins := g2.ins.setIfInBounds x [] } := by
  have hsz : (g2.kind.setIfInBounds x none).size = g2.kind.size := by simp
  refine ⟨⟨?_, ?_⟩, ?_⟩
  · show (g2.outs.setIfInBounds x []).size = (g2.kind.setIfInBounds x none).size
    rw [hsz, Array.size_setIfInBounds]; exact h2.1.osz
  · intro y c hc
    have hc' : c ∈ (g2.outs.setIfInBounds x []).getD y [] := hc
    show c < (g2.kind.setIfInBounds x none).size
    rw [hsz]
    rw [getD_setIfInBounds] at hc'
    split at hc'
    · cases hc'
    · exact h2.1.edges y c hc'
  · show (g2.kind.setIfInBounds x none).size = n
    rw [hsz]; exact h2.2

theorem removeNode_wfn (g : G) (x n : Nat) (h : WFn n g) : WFn n (g.removeNode x) :=
  removeNode_final x n _ (removeNode_fold2 x n _ _ (removeNode_fold1 x n _ g h))

theorem makeTrue_wfn (g : G) (x n : Nat) (h : WFn n g) : WFn n (g.makeTrue x) := by
  have h1 := removeNode_fold1 x n (g.outs.getD x []) g h
  unfold G.makeTrue
  generalize (g.outs.getD x []).foldl (fun g b => { g with ins := g.ins.setIfInBounds b ((g.ins.getD b []).filter (· != x)) }) g = g1 at h1
  have hsz : (g1.kind.setIfInBounds x (some GK.tru)).size = g1.kind.size := by simp
  refine ⟨⟨?_, ?_⟩, ?_⟩
  · show (g1.outs.setIfInBounds x []).size = (g1.kind.setIfInBounds x (some GK.tru)).size
    rw [hsz, Array.size_setIfInBounds]; exact h1.1.osz
  · intro y c hc
    have hc' : c ∈ (g1.outs.setIfInBounds x []).getD y [] := hc
    show c < (g1.kind.setIfInBounds x (some GK.tru)).size
    rw [hsz]
    rw [getD_setIfInBounds] at hc'
    split at hc'
    · cases hc'
    · exact h1.1.edges y c hc'
  · show (g1.kind.setIfInBounds x (some GK.tru)).size = n
    rw [hsz]; exact h1.2

theorem err_wfn (g : G) (n : Nat) (h : WFn n g) : WFn n { g with err := true } :=
  ⟨⟨h.1.osz, h.1.edges⟩, h.2⟩

theorem deleteChain_wfn (n : Nat) : ∀ (fuel : Nat) (g : G) (current : Nat) (pending : List Nat),
    WFn n g → WFn n (deleteChain g fuel current pending) := by
  intro fuel
  induction fuel with
  | zero => intro g _ _ h; exact h
  | succ fuel ih =>
    intro g current pending h
    unfold deleteChain
    split
    · exact err_wfn g n h
    · rename_i k hk
      by_cases hand : (k == GK.and) = true
      · simp only [hand, if_true]
        split
        · exact removeNode_wfn g current n h
        · exact ih _ _ _ (removeNode_wfn g current n h)
      · simp only [hand]
        split
        · exact h
        · exact ih _ _ _ h

theorem elimNode_go_wfn (n nx : Nat) : ∀ (cs : List Nat) (g : G), WFn n g → WFn n (elimNode.go nx cs g) := by
  intro cs
  induction cs with
  | nil => intro g h; exact h
  | cons c cs ih =>
    intro g h
    unfold elimNode.go
    split
    · exact ih g h
    · split
      · exact ih _ ⟨removeEdge_wf g nx c h.1, h.2⟩
      · exact makeTrue_wfn g nx n h
      · exact err_wfn g n h
      · exact err_wfn g n h
    · split
      · exact ih _ ⟨removeEdge_wf g nx c h.1, h.2⟩
      · exact deleteChain_wfn n _ g nx [] h
      · exact err_wfn g n h
      · exact err_wfn g n h
    · exact ih g h

theorem elimNode_wfn (n : Nat) (g : G) (nx : Nat) (h : WFn n g) : WFn n (elimNode g nx) :=
  elimNode_go_wfn n nx _ g h

theorem eliminate_wfn (n : Nat) (g : G) (root : Nat) (h : WFn n g) : WFn n (eliminate g root) :=
  foldl_inv (WFn n) elimNode _ (fun g' nx _ hg' => elimNode_wfn n g' nx hg') g h

/-! ### the loader state -/

structure LInv (s : LState) : Prop where
  wf : WFG s.g
  idx : ∀ i ∈ s.indices.toList, i < s.g.kind.size
  lit : ∀ e ∈ s.litNx, e.2 < s.g.kind.size
  tri : ∀ e ∈ s.tri, e.2 < s.g.kind.size

theorem LInv.setG {s : LState} (h : LInv s) (g' : G) (hg : WFG g') (hsz : s.g.kind.size ≤ g'.kind.size) :
    LInv { s with g := g' } :=
  ⟨hg, fun i hi => Nat.lt_of_lt_of_le (h.idx i hi) hsz, fun e he => Nat.lt_of_lt_of_le (h.lit e he) hsz,
    fun e he => Nat.lt_of_lt_of_le (h.tri e he) hsz⟩

theorem getLit_spec (s : LState) (l : Int) (h : LInv s) :
    LInv (s.getLit l).1 ∧ s.g.kind.size ≤ (s.getLit l).1.g.kind.size ∧
      (s.getLit l).2 < (s.getLit l).1.g.kind.size := by
  unfold LState.getLit
  split
  · rename_i e he
    exact ⟨h, Nat.le_refl _, h.lit e (List.mem_of_find?_eq_some he)⟩
  · have hw := addNode_wf s.g (.lit l) h.wf
    have hsz := addNode_size s.g (.lit l)
    refine ⟨⟨hw, ?_, ?_, ?_⟩, ?_, ?_⟩
    · intro i hi; show i < (s.g.addNode (.lit l)).1.kind.size; rw [hsz]; exact Nat.lt_succ_of_lt (h.idx i hi)
    · intro e he
      show e.2 < (s.g.addNode (.lit l)).1.kind.size
      rw [hsz]
      rcases List.mem_cons.1 he with e' | he
      · rw [e']; exact Nat.lt_succ_self _
      · exact Nat.lt_succ_of_lt (h.lit e he)
    · intro e he; show e.2 < (s.g.addNode (.lit l)).1.kind.size; rw [hsz]; exact Nat.lt_succ_of_lt (h.tri e he)
    · show s.g.kind.size ≤ (s.g.addNode (.lit l)).1.kind.size; rw [hsz]; exact Nat.le_succ _
    · show s.g.kind.size < (s.g.addNode (.lit l)).1.kind.size; rw [hsz]; exact Nat.lt_succ_self _

theorem getLits_spec (s : LState) (ls : List Int) (h : LInv s) :
    LInv (s.getLits ls).1 ∧ s.g.kind.size ≤ (s.getLits ls).1.g.kind.size ∧
      ∀ x ∈ (s.getLits ls).2, x < (s.getLits ls).1.g.kind.size := by
  unfold LState.getLits
  refine foldl_inv (fun (acc : LState × List Nat) => LInv acc.1 ∧ s.g.kind.size ≤ acc.1.g.kind.size ∧
    ∀ x ∈ acc.2, x < acc.1.g.kind.size) _ _ ?_ (s, []) ⟨h, Nat.le_refl _, by intro x hx; cases hx⟩
  intro acc l _ hacc
  have hl := getLit_spec acc.1 l hacc.1
  show LInv (acc.1.getLit l).1 ∧ s.g.kind.size ≤ (acc.1.getLit l).1.g.kind.size ∧
    ∀ x ∈ acc.2 ++ [(acc.1.getLit l).2], x < (acc.1.getLit l).1.g.kind.size
  refine ⟨hl.1, Nat.le_trans hacc.2.1 hl.2.1, ?_⟩
  intro x hx
  rcases List.mem_append.1 hx with hx | hx
  · exact Nat.lt_of_lt_of_le (hacc.2.2 x hx) hl.2.1
  · rw [List.mem_singleton.1 hx]; exact hl.2.2

theorem addEdge_wfn (n : Nat) (g : G) (a b : Nat) (h : WFn n g) (hb : b < n) : WFn n (g.addEdge a b) :=
  ⟨addEdge_wf g a b h.1 (fun _ => by rw [h.2]; exact hb), h.2⟩

/-- the edge case of `stepLine`, after the bookkeeping of `occurs` and `total` -/
def edgeStep (s : LState) (a b : Nat) (lits : List Int) : LState :=
  let fromN := s.indices.getD (a - 1) 0
  let toN := s.indices.getD (b - 1) 0
  if lits.isEmpty then { s with g := s.g.addEdge fromN toN }
  else
    let (s, litNodes) := s.getLits lits
    let (g, andN) := s.g.addNode .and
    let g := g.addEdge fromN andN
    let g := litNodes.foldl (fun (g : G) (x : Nat) => g.addEdge andN x) g
    let g := g.addEdge andN toN
    { s with g := g }

theorem stepLine_edge (s : LState) (a b : Nat) (lits : List Int) :
    stepLine s (.edge a b lits) =
      edgeStep { s with occurs := lits.foldl (fun (o : List Nat) (l : Int) =>
                          if o.contains l.natAbs then o else l.natAbs :: o) s.occurs,
                        total := lits.foldl (fun (t : Nat) (l : Int) => max t l.natAbs) s.total }
        a b lits := rfl

theorem edgeStep_spec (s : LState) (a b : Nat) (lits : List Int) (h : LInv s) :
    LInv (edgeStep s a b lits) ∧ s.g.kind.size ≤ (edgeStep s a b lits).g.kind.size := by
  have hto : ∀ n, 0 < n → s.g.kind.size ≤ n → s.indices.getD (b - 1) 0 < n := by
    intro n hn hle
    rcases getD_mem_or_default s.indices (b - 1) 0 with e | hm
    · rw [e]; exact hn
    · exact Nat.lt_of_lt_of_le (h.idx _ hm) hle
  unfold edgeStep
  dsimp only
  split
  · refine ⟨h.setG _ (addEdge_wf _ _ _ h.wf (fun hf => hto _ (by omega) (Nat.le_refl _))) (Nat.le_refl _),
      Nat.le_refl _⟩
  · have hl := getLits_spec s lits h
    show LInv { (s.getLits lits).1 with g :=
        (((s.getLits lits).2.foldl (fun (g : G) (x : Nat) => g.addEdge ((s.getLits lits).1.g.addNode .and).2 x)
          ((((s.getLits lits).1.g.addNode .and).1).addEdge (s.indices.getD (a - 1) 0)
            ((s.getLits lits).1.g.addNode .and).2)).addEdge ((s.getLits lits).1.g.addNode .and).2
              (s.indices.getD (b - 1) 0)) } ∧ _
    generalize s.getLits lits = p at hl ⊢
    obtain ⟨s1, litNodes⟩ := p
    dsimp only at hl ⊢
    have hsz := addNode_size s1.g .and
    rw [addNode_snd]
    have w1 : WFn (s1.g.kind.size + 1) (s1.g.addNode .and).1 := ⟨addNode_wf _ _ hl.1.wf, hsz⟩
    have w2 := addEdge_wfn _ _ (s.indices.getD (a - 1) 0) s1.g.kind.size w1 (Nat.lt_succ_self _)
    have w3 : WFn (s1.g.kind.size + 1) (litNodes.foldl (fun (g : G) (x : Nat) => g.addEdge s1.g.kind.size x)
        ((s1.g.addNode .and).1.addEdge (s.indices.getD (a - 1) 0) s1.g.kind.size)) := by
      refine foldl_inv (WFn (s1.g.kind.size + 1)) _ _ ?_ _ w2
      intro g' x hx hg'
      exact addEdge_wfn _ _ _ _ hg' (Nat.lt_succ_of_lt (hl.2.2 x hx))
    have w4 := addEdge_wfn _ _ s1.g.kind.size (s.indices.getD (b - 1) 0) w3
      (hto _ (Nat.succ_pos _) (Nat.le_succ_of_le hl.2.1))
    exact ⟨hl.1.setG _ w4.1 (by rw [w4.2]; exact Nat.le_succ _),
      Nat.le_trans (Nat.le_succ_of_le hl.2.1) (Nat.le_of_eq w4.2.symm)⟩

theorem stepLine_spec (s : LState) (line : Line) (h : LInv s) :
    LInv (stepLine s line) ∧ s.g.kind.size ≤ (stepLine s line).g.kind.size := by
  cases line with
  | node k =>
    have hw := addNode_wf s.g k h.wf
    have hsz := addNode_size s.g k
    show LInv { s with g := (s.g.addNode k).1, indices := s.indices.push (s.g.addNode k).2 } ∧
      s.g.kind.size ≤ (s.g.addNode k).1.kind.size
    refine ⟨⟨hw, ?_, ?_, ?_⟩, by rw [hsz]; exact Nat.le_succ _⟩
    · intro i hi
      show i < (s.g.addNode k).1.kind.size
      rw [hsz]
      have hi' : i ∈ (s.indices.push (s.g.addNode k).2).toList := hi
      rw [Array.toList_push, List.mem_append, List.mem_singleton] at hi'
      rcases hi' with hi' | hi'
      · exact Nat.lt_succ_of_lt (h.idx i hi')
      · rw [hi', addNode_snd]; exact Nat.lt_succ_self _
    · intro e he; show e.2 < (s.g.addNode k).1.kind.size; rw [hsz]; exact Nat.lt_succ_of_lt (h.lit e he)
    · intro e he; show e.2 < (s.g.addNode k).1.kind.size; rw [hsz]; exact Nat.lt_succ_of_lt (h.tri e he)
  | edge a b lits =>
    rw [stepLine_edge]
    exact edgeStep_spec _ a b lits ⟨h.wf, h.idx, h.lit, h.tri⟩

/-- the branch of `addTriangle` that builds a new triangle -/
def triNew (s : LState) (f attach : Nat) : LState :=
  let s1 : LState := { s with g := (s.g.addNode .or).1, tri := (f, (s.g.addNode .or).2) :: s.tri }
  let p2 := s1.getLit (f : Int)
  let p3 := p2.1.getLit (-(f : Int))
  let g := p3.1.g.addEdge attach (s.g.addNode .or).2
  let g := g.addEdge (s.g.addNode .or).2 p2.2
  let g := g.addEdge (s.g.addNode .or).2 p3.2
  { p3.1 with g := g }

theorem triNew_spec (s : LState) (f attach : Nat) (h : LInv s) (_ha : attach < s.g.kind.size) :
    LInv (triNew s f attach) ∧ s.g.kind.size ≤ (triNew s f attach).g.kind.size := by
  have hsz := addNode_size s.g .or
  have h1 : LInv { s with g := (s.g.addNode .or).1, tri := (f, (s.g.addNode .or).2) :: s.tri } := by
    refine ⟨addNode_wf _ _ h.wf, ?_, ?_, ?_⟩
    · intro i hi; show i < (s.g.addNode .or).1.kind.size; rw [hsz]; exact Nat.lt_succ_of_lt (h.idx i hi)
    · intro e he; show e.2 < (s.g.addNode .or).1.kind.size; rw [hsz]; exact Nat.lt_succ_of_lt (h.lit e he)
    · intro e he
      show e.2 < (s.g.addNode .or).1.kind.size
      rw [hsz]
      rcases List.mem_cons.1 he with e' | he
      · rw [e']; exact Nat.lt_succ_self _
      · exact Nat.lt_succ_of_lt (h.tri e he)
  unfold triNew
  dsimp only
  generalize hs1 : ({ s with g := (s.g.addNode .or).1, tri := (f, (s.g.addNode .or).2) :: s.tri } : LState)
    = s1 at h1 ⊢
  have hs1sz : s1.g.kind.size = s.g.kind.size + 1 := by rw [← hs1]; exact hsz
  have h2 := getLit_spec s1 (f : Int) h1
  have h3 := getLit_spec (s1.getLit (f : Int)).1 (-(f : Int)) h2.1
  generalize s1.getLit (f : Int) = p2 at h2 h3 ⊢
  obtain ⟨s2, pos⟩ := p2
  dsimp only at h2 h3 ⊢
  generalize s2.getLit (-(f : Int)) = p3 at h3 ⊢
  obtain ⟨s3, neg⟩ := p3
  dsimp only at h3 ⊢
  rw [addNode_snd]
  have ho : s.g.kind.size < s3.g.kind.size := by omega
  have w0 : WFn s3.g.kind.size s3.g := ⟨h3.1.wf, rfl⟩
  have w1 := addEdge_wfn _ _ attach s.g.kind.size w0 ho
  have w2 := addEdge_wfn _ _ s.g.kind.size pos w1 (by omega)
  have w3 := addEdge_wfn _ _ s.g.kind.size neg w2 h3.2.2
  exact ⟨h3.1.setG _ w3.1 (by rw [w3.2]; exact Nat.le_refl _),
    Nat.le_trans (by omega) (Nat.le_of_eq w3.2.symm)⟩

theorem addTriangle_spec (s : LState) (f attach : Nat) (h : LInv s) (_ha : attach < s.g.kind.size) :
    LInv (s.addTriangle f attach) ∧ s.g.kind.size ≤ (s.addTriangle f attach).g.kind.size := by
  unfold LState.addTriangle
  split
  · rename_i e he
    exact ⟨h.setG _ (addEdge_wf _ _ _ h.wf (fun _ => h.tri e (List.mem_of_find?_eq_some he))) (Nat.le_refl _),
      Nat.le_refl _⟩
  · exact triNew_spec s f attach h _ha

/-- the step shared by `addFree` and `addVanished`: wrap node 0 in a new And root if there is no
root yet, then hang the triangle of `f` under the root -/
def wrapTri (s : LState) (root f : Nat) : LState × Nat :=
  let (s, root) :=
    if root == 0 then
      let (g, r) := s.g.addNode .and
      ({ s with g := g.addEdge r 0 }, r)
    else (s, root)
  (s.addTriangle f root, root)

/-- the invariant of the folds of `addFree` and `addVanished` (`n` = number of nodes at the start) -/
def RootInv (n : Nat) (acc : LState × Nat) : Prop :=
  LInv acc.1 ∧ n ≤ acc.1.g.kind.size ∧ (acc.2 = 0 ∨ acc.2 < acc.1.g.kind.size)

theorem wrapTri_spec (n : Nat) (s' : LState) (root f : Nat) (hacc : RootInv n (s', root)) :
    RootInv n (wrapTri s' root f) := by
  unfold wrapTri RootInv at *
  dsimp only at hacc ⊢
  by_cases hr : (root == 0) = true
  · simp only [hr, if_true]
    have hsz := addNode_size s'.g .and
    have hw : WFn (s'.g.kind.size + 1) ((s'.g.addNode .and).1.addEdge (s'.g.addNode .and).2 0) :=
      addEdge_wfn _ _ _ _ ⟨addNode_wf _ _ hacc.1.wf, hsz⟩ (Nat.succ_pos _)
    have h1 : LInv { s' with g := (s'.g.addNode .and).1.addEdge (s'.g.addNode .and).2 0 } :=
      hacc.1.setG _ hw.1 (by rw [hw.2]; exact Nat.le_succ _)
    have hlt : s'.g.kind.size < ((s'.g.addNode .and).1.addEdge (s'.g.addNode .and).2 0).kind.size := by
      rw [hw.2]; exact Nat.lt_succ_self _
    have ht := addTriangle_spec _ f (s'.g.addNode .and).2 h1 hlt
    refine ⟨ht.1, ?_, Or.inr ?_⟩
    · exact Nat.le_trans hacc.2.1 (Nat.le_trans (Nat.le_of_lt hlt) ht.2)
    · exact Nat.lt_of_lt_of_le hlt ht.2
  · simp only [hr]
    have hroot : root < s'.g.kind.size := by
      rcases hacc.2.2 with e | h'
      · subst e; simp at hr
      · exact h'
    have ht := addTriangle_spec s' f root hacc.1 hroot
    exact ⟨ht.1, Nat.le_trans hacc.2.1 ht.2, Or.inr (Nat.lt_of_lt_of_le hroot ht.2)⟩

theorem addFree_spec (s : LState) (h : LInv s) :
    LInv (addFree s).1 ∧ s.g.kind.size ≤ (addFree s).1.g.kind.size ∧
      ((addFree s).2 = 0 ∨ (addFree s).2 < (addFree s).1.g.kind.size) := by
  unfold addFree
  refine foldl_inv (RootInv s.g.kind.size) _ _ ?_ (s, 0) ⟨h, Nat.le_refl _, Or.inl rfl⟩
  intro acc k _ hacc
  obtain ⟨s', root⟩ := acc
  dsimp only
  split
  · exact hacc
  · exact wrapTri_spec _ s' root (k + 1) hacc

/-- `addVanished` keeps the invariant of the loader state; the root it returns is 0 or a node -/
theorem addVanished_spec (s : LState) (root : Nat) (h : LInv s) (hr : root = 0 ∨ root < s.g.kind.size) :
    LInv (addVanished s root).1 ∧ s.g.kind.size ≤ (addVanished s root).1.g.kind.size ∧
      ((addVanished s root).2 = 0 ∨ (addVanished s root).2 < (addVanished s root).1.g.kind.size) := by
  unfold addVanished
  dsimp only
  refine foldl_inv (RootInv s.g.kind.size) _ _ ?_ (s, root) ⟨h, Nat.le_refl _, hr⟩
  intro acc k _ hacc
  obtain ⟨s', root'⟩ := acc
  dsimp only
  split
  · exact hacc
  · exact wrapTri_spec _ s' root' (k + 1) hacc

theorem balance_spec (sorted : Bool) (h : List Nat → List Nat) (s : LState) (nx : Nat)
    (work : List (Nat × List Nat)) (hs : LInv s) (_hnx : nx < s.g.kind.size)
    (hw : ∀ w ∈ work, w.1 < s.g.kind.size) :
    LInv (balance sorted h s nx work) ∧ s.g.kind.size ≤ (balance sorted h s nx work).g.kind.size := by
  unfold balance
  refine foldl_inv (fun (acc : LState) => LInv acc ∧ s.g.kind.size ≤ acc.g.kind.size) _ _ ?_ s
    ⟨hs, Nat.le_refl _⟩
  intro acc w hwm hacc
  obtain ⟨child, miss⟩ := w
  have hchild : child < s.g.kind.size := hw _ hwm
  dsimp only
  have hsz := addNode_size acc.g .and
  have w1 : WFn (acc.g.kind.size + 1) (acc.g.addNode .and).1 := ⟨addNode_wf _ _ hacc.1.wf, hsz⟩
  have w2 : WFn (acc.g.kind.size + 1) ((acc.g.addNode .and).1.removeEdge nx child) :=
    ⟨removeEdge_wf _ _ _ w1.1, w1.2⟩
  have w3 := addEdge_wfn _ _ nx (acc.g.addNode .and).2 w2 (Nat.lt_succ_self _)
  have w4 := addEdge_wfn _ _ (acc.g.addNode .and).2 child w3 (by omega)
  have h1 : LInv { acc with g := ((((acc.g.addNode .and).1.removeEdge nx child).addEdge nx
      (acc.g.addNode .and).2).addEdge (acc.g.addNode .and).2 child) } :=
    hacc.1.setG _ w4.1 (by rw [w4.2]; exact Nat.le_succ _)
  refine foldl_inv (fun (t : LState) => LInv t ∧ s.g.kind.size ≤ t.g.kind.size ∧
      acc.g.kind.size + 1 ≤ t.g.kind.size) _ _ ?_ _ ⟨h1, ?_, ?_⟩ |> fun r => ⟨r.1, r.2.1⟩
  · intro t f _ ht
    have := addTriangle_spec t f (acc.g.addNode .and).2 ht.1
      (by rw [addNode_snd]; exact Nat.lt_of_lt_of_le (Nat.lt_succ_self _) ht.2.2)
    exact ⟨this.1, Nat.le_trans ht.2.1 this.2, Nat.le_trans ht.2.2 this.2⟩
  · exact Nat.le_trans (Nat.le_succ_of_le hacc.2) (Nat.le_of_eq w4.2.symm)
  · exact Nat.le_of_eq w4.2.symm

theorem smooth_spec (sorted : Bool) (h : List Nat → List Nat) (s : LState) (root : Nat) (hs : LInv s) :
    LInv (smooth sorted h s root) ∧ s.g.kind.size ≤ (smooth sorted h s root).g.kind.size := by
  unfold smooth
  dsimp only
  refine foldl_inv (fun (acc : LState) => LInv acc ∧ s.g.kind.size ≤ acc.g.kind.size) _ _ ?_ s
    ⟨hs, Nat.le_refl _⟩
  intro acc nx hnx hacc
  have hnx' : nx < acc.g.kind.size := Nat.lt_of_lt_of_le (postOrder_lt _ _ nx hnx) hacc.2
  split
  · have := balance_spec sorted h acc nx _ hacc.1 hnx' (by
      intro w hw
      rw [mem_missing] at hw
      obtain ⟨i, hi, _, rfl⟩ := hw
      rw [List.length_map] at hi
      have : ((acc.g.outs.getD nx []).map fun c => (c, (varSets s.g root).getD c [])).getD i (0, [])
          = ((acc.g.outs.getD nx [])[i], (varSets s.g root).getD (acc.g.outs.getD nx [])[i] []) := by
        rw [List.getD_eq_getElem?_getD, List.getElem?_map, List.getElem?_eq_getElem hi]; rfl
      rw [this]
      exact hacc.1.wf.edges nx _ (List.getElem_mem hi))
    exact ⟨this.1, Nat.le_trans hacc.2 this.2⟩
  · exact hacc

/-! ### the graph that is flattened -/

/-- the graph after all phases, and the root the flattening starts from (the root `addVanished` returns) -/
def loadGraph (sorted : Bool) (h : List Nat → List Nat) (lines : List Line) (totalFeatures : Nat) : G × Nat :=
  let s0 : LState := { total := totalFeatures }
  let s1 := lines.foldl stepLine s0
  let (s2, root) := addFree s1
  let g3 := eliminate s2.g root
  let (s3, root) := addVanished { s2 with g := g3 } root
  let s4 := smooth sorted h s3 root
  (s4.g, root)

theorem loadWith_nodes (sorted : Bool) (h : List Nat → List Nat) (lines : List Line) (total : Nat) :
    (loadWith sorted h lines total).2.1 =
      flattenGraph (loadGraph sorted h lines total).1 (loadGraph sorted h lines total).2 := by
  unfold loadWith loadGraph
  dsimp only

theorem linv_init (total : Nat) : LInv { total := total } := by
  refine ⟨⟨rfl, ?_⟩, ?_, ?_, ?_⟩
  · intro x c hc; simp [Array.getD] at hc
  · intro i hi; simp at hi
  · intro e he; cases he
  · intro e he; cases he

theorem lines_spec (lines : List Line) (s : LState) (h : LInv s) :
    LInv (lines.foldl stepLine s) ∧ s.g.kind.size ≤ (lines.foldl stepLine s).g.kind.size :=
  foldl_inv (fun (acc : LState) => LInv acc ∧ s.g.kind.size ≤ acc.g.kind.size) stepLine lines
    (fun acc line _ hacc => ⟨(stepLine_spec acc line hacc.1).1,
      Nat.le_trans hacc.2 (stepLine_spec acc line hacc.1).2⟩) s ⟨h, Nat.le_refl _⟩

/-- the facts about `loadGraph` that hold for every input -/
theorem loadGraph_spec (sorted : Bool) (h : List Nat → List Nat) (lines : List Line) (total : Nat) :
    WFG (loadGraph sorted h lines total).1 ∧
      (lines.foldl stepLine { total := total }).g.kind.size ≤ (loadGraph sorted h lines total).1.kind.size ∧
      ((loadGraph sorted h lines total).2 = 0 ∨
        (loadGraph sorted h lines total).2 < (loadGraph sorted h lines total).1.kind.size) := by
  have h1 := lines_spec lines { total := total } (linv_init total)
  have h2 := addFree_spec _ h1.1
  unfold loadGraph
  dsimp only
  generalize lines.foldl stepLine { total := total } = s1 at h1 h2 ⊢
  generalize addFree s1 = p at h2 ⊢
  obtain ⟨s2, root⟩ := p
  dsimp only at h2 ⊢
  have h3 := eliminate_wfn s2.g.kind.size s2.g root ⟨h2.1.wf, rfl⟩
  have h3' : LInv { s2 with g := eliminate s2.g root } := h2.1.setG _ h3.1 (by rw [h3.2]; exact Nat.le_refl _)
  have h3sz : ({ s2 with g := eliminate s2.g root } : LState).g.kind.size = s2.g.kind.size := h3.2
  have h3b := addVanished_spec _ root h3' (by rw [h3sz]; exact h2.2.2)
  rw [h3sz] at h3b
  generalize addVanished { s2 with g := eliminate s2.g root } root = q at h3b ⊢
  obtain ⟨s3, root'⟩ := q
  dsimp only at h3b ⊢
  have h4 := smooth_spec sorted h s3 root' h3b.1
  have h4sz : s2.g.kind.size ≤ (smooth sorted h s3 root').g.kind.size := Nat.le_trans h3b.2.1 h4.2
  refine ⟨h4.1.wf, Nat.le_trans h2.2.1 h4sz, ?_⟩
  rcases h3b.2.2 with e | hlt
  · exact Or.inl e
  · exact Or.inr (Nat.lt_of_lt_of_le hlt h4.2)

/-- C01, every input: all edges of the graph that is flattened point into the node array -/
theorem loadGraph_edges (sorted : Bool) (h : List Nat → List Nat) (lines : List Line) (total : Nat) :
    ∀ x, ∀ c ∈ (loadGraph sorted h lines total).1.outs.getD x [],
      c < (loadGraph sorted h lines total).1.kind.size :=
  (loadGraph_spec sorted h lines total).1.edges

/-- C01: children before parents in the loaded array, for every input whose final graph is acyclic
(`r` is a rank that decreases along every edge) -/
theorem load_topo (sorted : Bool) (h : List Nat → List Nat) (lines : List Line) (total : Nat)
    (r : Nat → Nat)
    (hacyc : ∀ x, ∀ c ∈ (loadGraph sorted h lines total).1.outs.getD x [], r c < r x) :
    Topo (loadWith sorted h lines total).2.1 := by
  rw [loadWith_nodes]
  exact flattenGraph_topo _ _ r (loadGraph_edges sorted h lines total) hacyc

theorem lines_size_pos (lines : List Line) (s : LState) (h : LInv s)
    (hp : 0 < s.g.kind.size ∨ ∃ k, Line.node k ∈ lines) : 0 < (lines.foldl stepLine s).g.kind.size := by
  induction lines generalizing s with
  | nil =>
    rcases hp with hp | ⟨k, hk⟩
    · exact hp
    · cases hk
  | cons line rest ih =>
    rw [List.foldl_cons]
    have hstep := stepLine_spec s line h
    apply ih _ hstep.1
    rcases hp with hp | ⟨k, hk⟩
    · exact Or.inl (Nat.lt_of_lt_of_le hp hstep.2)
    · rcases List.mem_cons.1 hk with e | hk
      · left
        subst e
        show 0 < (s.g.addNode k).1.kind.size
        rw [addNode_size]; exact Nat.succ_pos _
      · exact Or.inr ⟨k, hk⟩

/-- C01: a file with at least one node line loads to a non-empty array -/
theorem load_nonempty (sorted : Bool) (h : List Nat → List Nat) (lines : List Line) (total : Nat)
    (hn : ∃ k, Line.node k ∈ lines) : (loadWith sorted h lines total).2.1 ≠ [] := by
  rw [loadWith_nodes]
  have hs := loadGraph_spec sorted h lines total
  have hpos := lines_size_pos lines { total := total } (linv_init total) (Or.inr hn)
  apply flattenGraph_ne_nil
  rcases hs.2.2 with e | hlt
  · rw [e]; exact Nat.lt_of_lt_of_le hpos hs.2.1
  · exact hlt

/-- the length of the loaded array is the number of nodes the final DFS emits; they are distinct
nodes of the final graph -/
theorem load_length (sorted : Bool) (h : List Nat → List Nat) (lines : List Line) (total : Nat) :
    (loadWith sorted h lines total).2.1.length =
      (postOrder (loadGraph sorted h lines total).1 (loadGraph sorted h lines total).2).length := by
  rw [loadWith_nodes, flattenGraph_length]

end Ddnnf.D4
