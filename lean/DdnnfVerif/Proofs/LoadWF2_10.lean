/-
  Well-formedness of the array the d4 loader produces (part 10): phase 4 (`smooth`) keeps decomposability
  and makes every or-node that the final DFS emits smooth.

  * `postOrder_closed`  the DFS only emits nodes of any successor-closed set that contains the root;
  * `smooth_dinv`       for an acyclic graph with `DInv`: after `smooth true id s root`
      - `DInv` and `GDet` hold,
      - every old node keeps its kind and mentions exactly the variables it mentioned before,
      - every or-node the DFS of the new graph emits from `root` is smooth (`GSmoothOn`).
-/
import DdnnfVerif.Proofs.LoadWF2_9

namespace Ddnnf.D4

/-- the DFS only emits nodes of a successor-closed set that contains the root -/
theorem postOrder_closed (g : G) (root : Nat) (P : Nat → Prop) (hroot : P root)
    (hcl : ∀ x, P x → ∀ c ∈ g.outs.getD x [], P c) : ∀ x ∈ postOrder g root, P x := by
  have key := dfsLoop_inv g.outs
    (fun d => (∀ x ∈ d.stack, P x) ∧ (∀ x ∈ d.order.toList, P x))
    (fun d nx rest hs h => by
      obtain ⟨h1, h2⟩ := h
      rw [hs] at h1
      rcases dfsStep_cases g.outs d nx rest hs with ⟨_, e⟩ | ⟨_, _, e⟩ | ⟨_, _, e⟩ <;> rw [e] <;> dsimp only
      · refine ⟨?_, h2⟩
        intro x hx
        rcases List.mem_append.1 hx with hx | hx
        · exact hcl nx (h1 nx (List.mem_cons_self ..)) x ((mem_pushed _ _ _ _).1 hx).1
        · exact h1 x hx
      · refine ⟨fun x hx => h1 x (List.mem_cons_of_mem _ hx), ?_⟩
        intro x hx
        rw [Array.toList_push] at hx
        rcases List.mem_append.1 hx with hx | hx
        · exact h2 x hx
        · rw [List.mem_singleton.1 hx]; exact h1 nx (List.mem_cons_self ..)
      · exact ⟨fun x hx => h1 x (List.mem_cons_of_mem _ hx), h2⟩)
    (2 * (g.kind.size + edgeCount g) + 2) (dfsInit g.kind.size root)
    ⟨by intro x hx; simp [dfsInit] at hx; rw [hx]; exact hroot, by intro x hx; simp [dfsInit] at hx⟩
  exact key.2

/-- the invariant of the fold of `smooth` (`pre` = the or-nodes processed so far) -/
structure SmInv (s : LState) (root : Nat) (pre : List Nat) (acc : LState) : Prop where
  dinv : DInv acc
  size : s.g.kind.size ≤ acc.g.kind.size
  kinds : ∀ x, x < s.g.kind.size → acc.g.kindOf x = s.g.kindOf x
  ment : ∀ x, x < s.g.kind.size → ∀ f, Mentions acc.g x f ↔ Mentions s.g x f
  outsU : ∀ x, x < s.g.kind.size → (x ∉ pre ∨ s.g.kindOf x ≠ some .or) →
    acc.g.outs.getD x [] = s.g.outs.getD x []
  smooth : ∀ x ∈ pre, s.g.kindOf x = some .or → SmoothAt acc.g x
  newOr : ∀ x, s.g.kind.size ≤ x → acc.g.kindOf x = some .or → ∃ e ∈ acc.tri, e.2 = x
  closedP : ∀ x ∈ pre, s.g.kindOf x = some .or → ∀ c ∈ acc.g.outs.getD x [],
    s.g.kind.size ≤ c ∨ c ∈ s.g.outs.getD x []
  closedN : ∀ x, s.g.kind.size ≤ x → ∀ c ∈ acc.g.outs.getD x [],
    c ∈ postOrder s.g root ∨ s.g.kind.size ≤ c ∨ (∃ l, acc.g.kindOf c = some (.lit l)) ∨ ∃ e ∈ acc.tri, e.2 = c
  triMono : ∀ e ∈ s.tri, e ∈ acc.tri
  total : acc.total = s.total
  gdet : GDet acc.g

theorem smooth_fold_inv (s : LState) (root : Nat) (r : Nat → Nat) (hd : DInv s) (hacyc : Acyclic s.g r)
    (hg : GDet s.g) :
    SmInv s root (postOrder s.g root) (smooth true id s root) := by
  have hwf := hd.b.p.linv.wf
  rw [smooth_eq]
  refine foldl_inv_prefix (SmInv s root) (smoothStep true id (varSets s.g root)) (postOrder s.g root) ?_ s ?_
  · intro pre nx post acc e K
    have hnxo : nx ∈ postOrder s.g root := by rw [e]; simp
    have hnx : nx < s.g.kind.size := postOrder_lt s.g root nx hnxo
    have hnpre : nx ∉ pre := by
      have hnd := postOrder_nodup s.g root
      rw [e] at hnd
      have := (List.nodup_append.1 hnd).2.2
      intro hk
      exact this nx hk nx (List.mem_cons_self ..) rfl
    have hnx' : nx < acc.g.kind.size := Nat.lt_of_lt_of_le hnx K.size
    by_cases hk : acc.g.kindOf nx = some .or
    · have hk0 : s.g.kindOf nx = some .or := by rw [← K.kinds nx hnx]; exact hk
      have houts : acc.g.outs.getD nx [] = s.g.outs.getD nx [] := K.outsU nx hnx (Or.inl hnpre)
      rw [smoothStep_or true id _ acc nx hk]
      have hvs : ∀ c ∈ acc.g.outs.getD nx [], ∀ f,
          f ∈ (fun c => (varSets s.g root).getD c []) c ↔ Mentions acc.g c f := by
        intro c hc f
        rw [houts] at hc
        have hco := postOrder_succ_mem s.g root r hwf.edges hacyc nx hnxo c hc
        show f ∈ (varSets s.g root).getD c [] ↔ _
        rw [mem_varSets_iff s.g root r hwf.edges hacyc c hco f, K.ment c (hwf.edges nx c hc) f]
      obtain ⟨d', b, sm⟩ := balance_dinv acc nx (fun c => (varSets s.g root).getD c []) K.dinv hnx' hk hvs
      have hwfa := K.dinv.b.p.linv.wf
      refine ⟨d', Nat.le_trans K.size b.size, ?_, ?_, ?_, ?_, ?_, ?_, ?_, fun e he => b.triMono e (K.triMono e he),
        b.total.trans K.total, gdet_balStep b d'.b hwfa K.gdet⟩
      · intro x hx; rw [b.kinds x (Nat.lt_of_lt_of_le hx K.size), K.kinds x hx]
      · intro x hx f; rw [b.ment x (Nat.lt_of_lt_of_le hx K.size), K.ment x hx]
      · intro x hx hxp
        have hxn : x ≠ nx := by
          intro e1
          rcases hxp with h | h
          · exact h (by rw [e1]; simp)
          · rw [e1] at h; exact h hk0
        rw [b.outs x (Nat.lt_of_lt_of_le hx K.size) hxn]
        refine K.outsU x hx (hxp.imp (fun h hm => h (List.mem_append_left _ hm)) id)
      · intro x hx hkx
        rcases List.mem_append.1 hx with hx | hx
        · have hxn : x ≠ nx := fun e1 => hnpre (e1 ▸ hx)
          have hxs : x < s.g.kind.size := kindOf_lt hkx
          have hxa : x < acc.g.kind.size := Nat.lt_of_lt_of_le hxs K.size
          intro c hc f hf
          rw [b.outs x hxa hxn] at hc
          have hca : c < acc.g.kind.size := hwfa.edges x c hc
          rw [b.ment c hca f]
          rw [b.ment x hxa f] at hf
          exact K.smooth x hx hkx c hc f hf
        · rw [List.mem_singleton.1 hx]; exact sm
      · intro x hx hkx
        by_cases hx' : acc.g.kind.size ≤ x
        · exact b.newOr x hx' hkx
        · have hlt : x < acc.g.kind.size := by omega
          rw [b.kinds x hlt] at hkx
          obtain ⟨e, he, ex⟩ := K.newOr x hx hkx
          exact ⟨e, b.triMono e he, ex⟩
      · intro x hx hkx c hc
        rcases List.mem_append.1 hx with hx | hx
        · have hxn : x ≠ nx := fun e1 => hnpre (e1 ▸ hx)
          have hxs : x < s.g.kind.size := kindOf_lt hkx
          rw [b.outs x (Nat.lt_of_lt_of_le hxs K.size) hxn] at hc
          exact K.closedP x hx hkx c hc
        · rw [List.mem_singleton.1 hx] at hc ⊢
          rcases b.nxOuts c hc with h | h
          · exact Or.inl (Nat.le_trans K.size h)
          · rw [houts] at h; exact Or.inr h
      · intro x hx c hc
        by_cases hx' : acc.g.kind.size ≤ x
        · rcases b.newOuts x hx' c hc with h | h | h | h
          · exact Or.inr (Or.inl (Nat.le_trans K.size h))
          · rw [houts] at h
            exact Or.inl (postOrder_succ_mem s.g root r hwf.edges hacyc nx hnxo c h)
          · exact Or.inr (Or.inr (Or.inl h))
          · exact Or.inr (Or.inr (Or.inr h))
        · have hlt : x < acc.g.kind.size := by omega
          rw [b.outs x hlt (by omega)] at hc
          rcases K.closedN x hx c hc with h | h | ⟨l, hl⟩ | ⟨e, he, ex⟩
          · exact Or.inl h
          · exact Or.inr (Or.inl h)
          · exact Or.inr (Or.inr (Or.inl ⟨l, by rw [b.kinds c (kindOf_lt hl)]; exact hl⟩))
          · exact Or.inr (Or.inr (Or.inr ⟨e, b.triMono e he, ex⟩))
    · have hk0 : s.g.kindOf nx ≠ some .or := by rw [← K.kinds nx hnx]; exact hk
      rw [smoothStep_other true id _ acc nx hk]
      refine ⟨K.dinv, K.size, K.kinds, K.ment, ?_, ?_, K.newOr, ?_, K.closedN, K.triMono, K.total, K.gdet⟩
      · intro x hx hxp
        refine K.outsU x hx (hxp.imp (fun h hm => h (List.mem_append_left _ hm)) id)
      · intro x hx hkx
        rcases List.mem_append.1 hx with hx | hx
        · exact K.smooth x hx hkx
        · rw [List.mem_singleton.1 hx] at hkx; exact absurd hkx hk0
      · intro x hx hkx
        rcases List.mem_append.1 hx with hx | hx
        · exact K.closedP x hx hkx
        · rw [List.mem_singleton.1 hx] at hkx; exact absurd hkx hk0
  · refine ⟨hd, Nat.le_refl _, fun _ _ => rfl, fun _ _ _ => Iff.rfl, fun _ _ _ => rfl, ?_, ?_, ?_, ?_,
      fun _ h => h, rfl, hg⟩
    · intro x hx; cases hx
    · intro x hx hk; rw [kindOf_of_ge s.g x hx] at hk; cases hk
    · intro x hx; cases hx
    · intro x hx c hc; rw [outs_of_ge s.g x (by rw [hwf.osz]; exact hx)] at hc; cases hc

/-- **Phase 4**: `smooth` keeps `DInv`, keeps the variables of all old nodes, and every or-node the DFS of
the new graph emits is smooth. -/
theorem smooth_dinv (s : LState) (root : Nat) (r : Nat → Nat) (hd : DInv s) (hacyc : Acyclic s.g r)
    (hg : GDet s.g) (hroot : root < s.g.kind.size) :
    DInv (smooth true id s root) ∧ s.g.kind.size ≤ (smooth true id s root).g.kind.size ∧
    (∀ x, x < s.g.kind.size → (smooth true id s root).g.kindOf x = s.g.kindOf x) ∧
    (∀ x, x < s.g.kind.size → ∀ f, Mentions (smooth true id s root).g x f ↔ Mentions s.g x f) ∧
    GSmoothOn (smooth true id s root).g root ∧ (smooth true id s root).total = s.total ∧
    GDet (smooth true id s root).g := by
  have hwf := hd.b.p.linv.wf
  have K := smooth_fold_inv s root r hd hacyc hg
  refine ⟨K.dinv, K.size, K.kinds, K.ment, ?_, K.total, K.gdet⟩
  -- the set of nodes the final DFS can reach
  have hclosed := postOrder_closed (smooth true id s root).g root
    (fun x => x ∈ postOrder s.g root ∨ s.g.kind.size ≤ x ∨
      (∃ l, (smooth true id s root).g.kindOf x = some (.lit l)) ∨ ∃ e ∈ (smooth true id s root).tri, e.2 = x)
    (Or.inl (postOrder_root s.g root hroot)) (by
      intro x hx c hc
      rcases hx with hx | hx | ⟨l, hl⟩ | ⟨e, he, ex⟩
      · have hxs : x < s.g.kind.size := postOrder_lt s.g root x hx
        by_cases hkx : s.g.kindOf x = some .or
        · rcases K.closedP x hx hkx c hc with h | h
          · exact Or.inr (Or.inl h)
          · exact Or.inl (postOrder_succ_mem s.g root r hwf.edges hacyc x hx c h)
        · rw [K.outsU x hxs (Or.inr hkx)] at hc
          exact Or.inl (postOrder_succ_mem s.g root r hwf.edges hacyc x hx c hc)
      · exact K.closedN x hx c hc
      · rw [K.dinv.b.litSink x l hl] at hc; cases hc
      · have ht := K.dinv.b.tri e he
        rw [ex] at ht
        obtain ⟨l, hl⟩ := ht.litKids c hc
        exact Or.inr (Or.inr (Or.inl ⟨l, hl⟩)))
  -- registered triangles are smooth
  have htriS : ∀ e ∈ (smooth true id s root).tri, ∀ c ∈ (smooth true id s root).g.outs.getD e.2 [],
      ∀ d ∈ (smooth true id s root).g.outs.getD e.2 [], ∀ f,
      Mentions (smooth true id s root).g c f → Mentions (smooth true id s root).g d f := by
    intro e he c hc d hd' f hf
    have ht := K.dinv.b.tri e he
    exact (ht.kids d hd' f).2 ((ht.kids c hc f).1 hf)
  intro x hx hkx c hc d hd' f hf
  rcases hclosed x hx with hxo | hxn | ⟨l, hl⟩ | ⟨e, he, ex⟩
  · have hxs : x < s.g.kind.size := postOrder_lt s.g root x hxo
    have hk0 : s.g.kindOf x = some .or := by rw [← K.kinds x hxs]; exact hkx
    exact K.smooth x hxo hk0 d hd' f (.inner (Or.inr hkx) hc hf)
  · obtain ⟨e, he, ex⟩ := K.newOr x hxn hkx
    rw [← ex] at hc hd'
    exact htriS e he c hc d hd' f hf
  · rw [hl] at hkx; cases hkx
  · rw [← ex] at hc hd'
    exact htriS e he c hc d hd' f hf

end Ddnnf.D4
