/-
  Concurrent enumeration requests on one cursor (model: `Model/Concurrency.lean`, namespace
  `Ddnnf.EnumLock`).  With the lock held from the read of the cursor position to the write of the
  new position, every accepted schedule produces exactly the pages of processing the requests one
  after another, in the order in which they acquired the lock.  With two separate lock
  acquisitions (the code before the repair) a schedule exists in which two requests get the same
  page.
-/
import DdnnfVerif.Model.Concurrency
import DdnnfVerif.Proofs.Paging

namespace Ddnnf
namespace EnumLock

/-! ### sequential processing -/

/-- the cursor position after processing the requests `ts` one after another -/
def posAfter {α} (ms : List α) (amount : Nat → Nat) : Nat → List Nat → Nat
  | pos, [] => pos
  | pos, t :: rest => posAfter ms amount (nextOf ms pos (amount t)) rest

theorem serial_snoc {α} (ms : List α) (amount : Nat → Nat) (pos : Nat) (ts : List Nat) (t : Nat) :
    serial ms amount pos (ts ++ [t])
      = serial ms amount pos ts ++ [(t, pageOf ms (posAfter ms amount pos ts) (amount t))] := by
  induction ts generalizing pos with
  | nil => rfl
  | cons u ts ih => simp only [List.cons_append, serial, posAfter, ih]

theorem posAfter_snoc {α} (ms : List α) (amount : Nat → Nat) (pos : Nat) (ts : List Nat) (t : Nat) :
    posAfter ms amount pos (ts ++ [t]) = nextOf ms (posAfter ms amount pos ts) (amount t) := by
  induction ts generalizing pos with
  | nil => rfl
  | cons u ts ih => simp only [List.cons_append, posAfter, ih]

theorem map_fst_serial {α} (ms : List α) (amount : Nat → Nat) (pos : Nat) (ts : List Nat) :
    (serial ms amount pos ts).map (·.1) = ts := by
  induction ts generalizing pos with
  | nil => rfl
  | cons u ts ih => simp only [serial, List.map_cons, ih]

/-- connection to the paging spec of `Proofs/Paging.lean`: the pages of sequential processing are
the pages served for the successive amounts -/
theorem serial_eq_servePages {α} (ms : List α) (amount : Nat → Nat) (pos : Nat) (ts : List Nat) :
    (serial ms amount pos ts).map (·.2) = servePages ms pos (ts.map amount) := by
  induction ts generalizing pos with
  | nil => rfl
  | cons u ts ih =>
    simp only [serial, List.map_cons, servePages, ih]
    rfl

theorem posAfter_eq_finalPos {α} (ms : List α) (amount : Nat → Nat) (pos : Nat) (ts : List Nat) :
    posAfter ms amount pos ts = finalPos ms pos (ts.map amount) := by
  induction ts generalizing pos with
  | nil => rfl
  | cons u ts ih =>
    simp only [posAfter, List.map_cons, finalPos, ih]
    rfl

/-! ### the bookkeeping of phases -/

/-- the position request `t` read last -/
def lookup (rv : List (Nat × Nat)) (t : Nat) : Nat := ((rv.find? (·.1 == t)).map (·.2)).getD 0

theorem phaseOf_setPhase_same {α} (s : S α) (t p : Nat) : phaseOf (setPhase s t p) t = p := by
  simp [phaseOf, setPhase]

private theorem find_filter_ne (l : List (Nat × Nat)) (t t' : Nat) (h : t' ≠ t) :
    (l.filter (fun e => e.1 != t)).find? (·.1 == t') = l.find? (·.1 == t') := by
  induction l with
  | nil => rfl
  | cons e l ih =>
    by_cases h1 : e.1 = t
    · have h2 : (e.1 == t') = false := by simp; omega
      have h3 : (e.1 != t) = false := by simp [h1]
      rw [List.filter_cons_of_neg (by simp [h3]), List.find?_cons_of_neg (by simp [h2]), ih]
    · have h3 : (e.1 != t) = true := by simp [h1]
      rw [List.filter_cons_of_pos (by simp [h3])]
      by_cases h2 : e.1 = t'
      · have h4 : (e.1 == t') = true := by simp [h2]
        rw [List.find?_cons_of_pos (by simp [h4]), List.find?_cons_of_pos (by simp [h4])]
      · have h4 : (e.1 == t') = false := by simp [h2]
        rw [List.find?_cons_of_neg (by simp [h4]), List.find?_cons_of_neg (by simp [h4]), ih]

theorem phaseOf_setPhase_other {α} (s : S α) (t p t' : Nat) (h : t' ≠ t) :
    phaseOf (setPhase s t p) t' = phaseOf s t' := by
  have h2 : (t == t') = false := by simp; omega
  unfold phaseOf setPhase
  simp only
  rw [List.find?_cons_of_neg (by simp [h2]), find_filter_ne _ _ _ h]

/-- the events of a schedule that acquire the lock, in order -/
def acqOf : Ev → List Nat
  | .acquire t => [t]
  | _ => []

def acquires (es : List Ev) : List Nat := es.flatMap acqOf

/-- the request that holds the lock and has not written its page yet -/
def pending {α} (s : S α) : List Nat :=
  match s.holder with
  | some t => if phaseOf s t < 3 then [t] else []
  | none => []

/-! ### the invariant of the locked protocol -/

/-- `acq` is the list of requests that acquired the lock so far, in this order -/
structure LInv {α} (ms : List α) (amount : Nat → Nat) (acq : List Nat) (s : S α) : Prop where
  /-- the pages are those of processing the completed requests one after another -/
  pages_serial : s.pages = serial ms amount 0 (s.pages.map (·.1))
  /-- the cursor is where sequential processing of the completed requests leaves it -/
  pos_eq : s.pos = posAfter ms amount 0 (s.pages.map (·.1))
  /-- between its read and its write the holder knows the current position -/
  read_fresh : ∀ t, s.holder = some t → phaseOf s t = 2 → lookup s.readVal t = s.pos
  /-- the holder is inside its critical section -/
  holder_phase : ∀ t, s.holder = some t → 1 ≤ phaseOf s t ∧ phaseOf s t ≤ 3
  /-- everybody else has not started or is finished -/
  others_phase : ∀ t, s.holder ≠ some t → phaseOf s t = 0 ∨ phaseOf s t = 4
  /-- the requests that have a page are those that did their write -/
  pages_phase : ∀ t, t ∈ s.pages.map (·.1) ↔ 3 ≤ phaseOf s t
  /-- every request is answered at most once -/
  pages_nodup : (s.pages.map (·.1)).Nodup
  /-- the completed requests are, in this order, those that acquired the lock, except for the
  holder if it has not written yet -/
  acq_eq : acq = s.pages.map (·.1) ++ pending s

theorem linv_init {α} (ms : List α) (amount : Nat → Nat) : LInv ms amount [] ({} : S α) := by
  refine ⟨rfl, rfl, ?_, ?_, ?_, ?_, List.nodup_nil, rfl⟩
  · intro t h; cases h
  · intro t h; cases h
  · intro t _; left; rfl
  · intro t; simp [phaseOf]

theorem linv_step {α} (ms : List α) (amount : Nat → Nat) (acq : List Nat) (s s' : S α) (e : Ev)
    (h : LInv ms amount acq s) (hs : stepLocked ms amount s e = some s') :
    LInv ms amount (acq ++ acqOf e) s' := by
  obtain ⟨hser, hpos, hfresh, hhold, hoth, hpp, hnd, hacq⟩ := h
  cases e with
  | acquire t =>
    simp only [stepLocked] at hs
    split at hs
    · rename_i hc
      simp only [Bool.and_eq_true, Option.isNone_iff_eq_none, beq_iff_eq] at hc
      obtain ⟨hnone, hph⟩ := hc
      cases hs
      have hpend : pending s = [] := by simp [pending, hnone]
      refine ⟨hser, hpos, ?_, ?_, ?_, ?_, hnd, ?_⟩
      · intro t' ht' hp2
        cases ht'
        rw [phaseOf_setPhase_same] at hp2; cases hp2
      · intro t' ht'
        cases ht'
        rw [phaseOf_setPhase_same]; omega
      · intro t' ht'
        have hne : t' ≠ t := fun e => ht' (by rw [e]; rfl)
        rw [phaseOf_setPhase_other _ _ _ _ hne]
        exact hoth t' (by rw [hnone]; intro h; cases h)
      · intro t'
        by_cases hne : t' = t
        · subst hne
          rw [phaseOf_setPhase_same]
          have := hpp t'
          show t' ∈ s.pages.map (·.1) ↔ 3 ≤ 1
          rw [this]; omega
        · rw [phaseOf_setPhase_other _ _ _ _ hne]; exact hpp t'
      · show acq ++ [t] = s.pages.map (·.1) ++ pending (setPhase { s with holder := some t } t 1)
        have : pending (setPhase { s with holder := some t } t 1) = [t] := by
          show (if phaseOf (setPhase { s with holder := some t } t 1) t < 3 then [t] else []) = [t]
          rw [phaseOf_setPhase_same]; rfl
        rw [this, hacq, hpend, List.append_nil]
    · cases hs
  | read t =>
    simp only [stepLocked] at hs
    split at hs
    · rename_i hc
      simp only [Bool.and_eq_true, beq_iff_eq] at hc
      obtain ⟨hh, hph⟩ := hc
      cases hs
      refine ⟨hser, hpos, ?_, ?_, ?_, ?_, hnd, ?_⟩
      · intro t' ht' _
        have : t' = t := by
          have : some t' = some t := ht'.symm.trans hh
          cases this; rfl
        subst this
        simp [lookup, setPhase]
      · intro t' ht'
        have : t' = t := by
          have : some t' = some t := ht'.symm.trans hh
          cases this; rfl
        subst this
        rw [phaseOf_setPhase_same]; omega
      · intro t' ht'
        have ht'' : s.holder ≠ some t' := ht'
        have hne : t' ≠ t := fun e => ht'' (by rw [e]; exact hh)
        rw [phaseOf_setPhase_other _ _ _ _ hne]
        exact hoth t' ht''
      · intro t'
        by_cases hne : t' = t
        · subst hne
          rw [phaseOf_setPhase_same]
          have := hpp t'
          show t' ∈ s.pages.map (·.1) ↔ 3 ≤ 2
          rw [this]; omega
        · rw [phaseOf_setPhase_other _ _ _ _ hne]; exact hpp t'
      · show acq ++ [] = s.pages.map (·.1)
            ++ pending (setPhase { s with readVal := (t, s.pos) :: s.readVal } t 2)
        have h1 : pending (setPhase { s with readVal := (t, s.pos) :: s.readVal } t 2) = [t] := by
          show (match s.holder with
            | some t' => if phaseOf (setPhase { s with readVal := (t, s.pos) :: s.readVal } t 2) t' < 3
                then [t'] else []
            | none => []) = [t]
          rw [hh]
          show (if phaseOf (setPhase { s with readVal := (t, s.pos) :: s.readVal } t 2) t < 3
                then [t] else []) = [t]
          rw [phaseOf_setPhase_same]; rfl
        have h2 : pending s = [t] := by
          unfold pending; rw [hh]
          show (if phaseOf s t < 3 then [t] else []) = [t]
          rw [hph]; rfl
        rw [h1, List.append_nil, hacq, h2]
    · cases hs
  | write t =>
    simp only [stepLocked] at hs
    split at hs
    · rename_i hc
      simp only [Bool.and_eq_true, beq_iff_eq] at hc
      obtain ⟨hh, hph⟩ := hc
      cases hs
      have hlast : ((s.readVal.find? (·.1 == t)).map (·.2)).getD 0 = s.pos := hfresh t hh hph
      have hnotin : t ∉ s.pages.map (·.1) := by
        rw [hpp t]; omega
      have hmap : (s.pages ++ [(t, pageOf ms s.pos (amount t))]).map (·.1)
          = s.pages.map (·.1) ++ [t] := by
        rw [List.map_append]; rfl
      refine ⟨?_, ?_, ?_, ?_, ?_, ?_, ?_, ?_⟩
      · show s.pages ++ [(t, pageOf ms (((s.readVal.find? (·.1 == t)).map (·.2)).getD 0) (amount t))]
          = serial ms amount 0
              ((s.pages ++ [(t, pageOf ms (((s.readVal.find? (·.1 == t)).map (·.2)).getD 0)
                (amount t))]).map (·.1))
        rw [hlast, hmap, serial_snoc, ← hser, ← hpos]
      · show nextOf ms (((s.readVal.find? (·.1 == t)).map (·.2)).getD 0) (amount t)
          = posAfter ms amount 0
              ((s.pages ++ [(t, pageOf ms (((s.readVal.find? (·.1 == t)).map (·.2)).getD 0)
                (amount t))]).map (·.1))
        rw [hlast, hmap, posAfter_snoc, ← hpos]
      · intro t' ht' hp2
        have : t' = t := by
          have : some t' = some t := ht'.symm.trans hh
          cases this; rfl
        subst this
        rw [phaseOf_setPhase_same] at hp2; cases hp2
      · intro t' ht'
        have : t' = t := by
          have : some t' = some t := ht'.symm.trans hh
          cases this; rfl
        subst this
        rw [phaseOf_setPhase_same]; omega
      · intro t' ht'
        have ht'' : s.holder ≠ some t' := ht'
        have hne : t' ≠ t := fun e => ht'' (by rw [e]; exact hh)
        rw [phaseOf_setPhase_other _ _ _ _ hne]
        exact hoth t' ht''
      · intro t'
        show t' ∈ (s.pages ++ [(t, pageOf ms (((s.readVal.find? (·.1 == t)).map (·.2)).getD 0)
                (amount t))]).map (·.1) ↔ _
        rw [hlast, hmap, List.mem_append, List.mem_singleton]
        by_cases hne : t' = t
        · subst hne
          rw [phaseOf_setPhase_same]
          exact ⟨fun _ => Nat.le_refl _, fun _ => .inr rfl⟩
        · rw [phaseOf_setPhase_other _ _ _ _ hne]
          show _ ↔ 3 ≤ phaseOf s t'
          rw [← hpp t']
          exact ⟨fun h => h.elim id (fun h => absurd h hne), .inl⟩
      · show ((s.pages ++ [(t, pageOf ms (((s.readVal.find? (·.1 == t)).map (·.2)).getD 0)
                (amount t))]).map (·.1)).Nodup
        rw [hlast, hmap]
        rw [List.nodup_append]
        refine ⟨hnd, by simp, ?_⟩
        intro a ha b hb
        rw [List.mem_singleton] at hb
        subst hb
        intro hab; subst hab; exact hnotin ha
      · show acq ++ [] = (s.pages ++ [(t, pageOf ms (((s.readVal.find? (·.1 == t)).map (·.2)).getD 0)
                (amount t))]).map (·.1) ++ _
        have h2 : pending s = [t] := by
          unfold pending; rw [hh]
          show (if phaseOf s t < 3 then [t] else []) = [t]
          rw [hph]; rfl
        have h1 : pending (setPhase { s with
              pos := nextOf ms (((s.readVal.find? (·.1 == t)).map (·.2)).getD 0) (amount t),
              pages := s.pages ++ [(t, pageOf ms (((s.readVal.find? (·.1 == t)).map (·.2)).getD 0)
                (amount t))] } t 3) = [] := by
          show (match s.holder with
            | some t' => if phaseOf (setPhase { s with
              pos := nextOf ms (((s.readVal.find? (·.1 == t)).map (·.2)).getD 0) (amount t),
              pages := s.pages ++ [(t, pageOf ms (((s.readVal.find? (·.1 == t)).map (·.2)).getD 0)
                (amount t))] } t 3) t' < 3
                then [t'] else []
            | none => []) = []
          rw [hh]
          show (if phaseOf (setPhase _ t 3) t < 3 then [t] else []) = []
          rw [phaseOf_setPhase_same]; rfl
        rw [h1, hlast, hmap, List.append_nil, List.append_nil, hacq, h2]
    · cases hs
  | release t =>
    simp only [stepLocked] at hs
    split at hs
    · rename_i hc
      simp only [Bool.and_eq_true, beq_iff_eq] at hc
      obtain ⟨hh, hph⟩ := hc
      cases hs
      refine ⟨hser, hpos, ?_, ?_, ?_, ?_, hnd, ?_⟩
      · intro t' ht'; cases ht'
      · intro t' ht'; cases ht'
      · intro t' _
        by_cases hne : t' = t
        · subst hne; rw [phaseOf_setPhase_same]; right; rfl
        · rw [phaseOf_setPhase_other _ _ _ _ hne]
          exact hoth t' (fun e => hne (by
            have : some t' = some t := e.symm.trans hh
            cases this; rfl))
      · intro t'
        by_cases hne : t' = t
        · subst hne
          rw [phaseOf_setPhase_same]
          have := hpp t'
          show t' ∈ s.pages.map (·.1) ↔ 3 ≤ 4
          rw [this]; omega
        · rw [phaseOf_setPhase_other _ _ _ _ hne]; exact hpp t'
      · show acq ++ [] = s.pages.map (·.1) ++ []
        have h2 : pending s = [] := by
          unfold pending; rw [hh]
          show (if phaseOf s t < 3 then [t] else []) = []
          rw [hph]; rfl
        rw [hacq, h2, List.append_nil]
    · cases hs

theorem acquires_cons (e : Ev) (es : List Ev) : acquires (e :: es) = acqOf e ++ acquires es := by
  simp [acquires]

theorem linv_run {α} (ms : List α) (amount : Nat → Nat) (acq : List Nat) (s s' : S α)
    (es : List Ev) (h : LInv ms amount acq s)
    (hr : runWith (stepLocked ms amount) s es = some s') :
    LInv ms amount (acq ++ acquires es) s' := by
  induction es generalizing s acq with
  | nil =>
    simp only [runWith] at hr; cases hr
    simpa [acquires] using h
  | cons e es ih =>
    simp only [runWith] at hr
    split at hr
    · rename_i s1 hs1
      have := ih _ s1 (linv_step ms amount acq s s1 e h hs1) hr
      rwa [acquires_cons, ← List.append_assoc]
    · cases hr

theorem linv_reachable {α} (ms : List α) (amount : Nat → Nat) (es : List Ev) (s : S α)
    (hr : runWith (stepLocked ms amount) {} es = some s) : LInv ms amount (acquires es) s := by
  simpa using linv_run ms amount [] {} s es (linv_init ms amount) hr

/-! ### the theorems -/

/-- with the lock held from read to write, every accepted schedule of the events of the requests
produces exactly the pages of processing the requests one after another in the order in which
they completed.  (This holds in every reachable state, the lock need not be free: a page and the
new position are written in one step.) -/
theorem locked_is_serial_always {α} (ms : List α) (amount : Nat → Nat) (es : List Ev) (s : S α)
    (hr : runWith (stepLocked ms amount) {} es = some s) :
    s.pages = serial ms amount 0 (s.pages.map (·.1))
      ∧ s.pos = posAfter ms amount 0 (s.pages.map (·.1)) :=
  ⟨(linv_reachable ms amount es s hr).pages_serial, (linv_reachable ms amount es s hr).pos_eq⟩

/-- when the lock is free the completed requests are, in this order, exactly the requests that
acquired the lock -/
theorem completed_eq_acquires {α} (ms : List α) (amount : Nat → Nat) (es : List Ev) (s : S α)
    (hr : runWith (stepLocked ms amount) {} es = some s) (hidle : s.holder = none) :
    s.pages.map (·.1) = acquires es := by
  have := (linv_reachable ms amount es s hr).acq_eq
  rw [this]; simp [pending, hidle]

/-- with the lock held from read to write, every accepted schedule of the events of the requests
produces exactly the pages of processing the requests one after another in the order in which
they acquired the lock -/
theorem locked_is_serial {α} (ms : List α) (amount : Nat → Nat) (es : List Ev) (s : S α)
    (hr : runWith (stepLocked ms amount) {} es = some s) (_hidle : s.holder = none) :
    s.pages = serial ms amount 0 (s.pages.map (·.1)) :=
  (locked_is_serial_always ms amount es s hr).1

/-- the same with the order made explicit -/
theorem locked_is_serial_acquires {α} (ms : List α) (amount : Nat → Nat) (es : List Ev) (s : S α)
    (hr : runWith (stepLocked ms amount) {} es = some s) (hidle : s.holder = none) :
    s.pages = serial ms amount 0 (acquires es)
      ∧ s.pos = posAfter ms amount 0 (acquires es) := by
  rw [← completed_eq_acquires ms amount es s hr hidle]
  exact locked_is_serial_always ms amount es s hr

/-- in terms of the paging spec: the answers are the pages served for the amounts of the requests in
the order of lock acquisition, so everything proved about `servePages` (consecutive slices, no
overlap within a round, …) holds for concurrent requests -/
theorem locked_pages_eq_servePages {α} (ms : List α) (amount : Nat → Nat) (es : List Ev) (s : S α)
    (hr : runWith (stepLocked ms amount) {} es = some s) (hidle : s.holder = none) :
    s.pages.map (·.2) = servePages ms 0 ((acquires es).map amount)
      ∧ s.pos = finalPos ms 0 ((acquires es).map amount) := by
  obtain ⟨h1, h2⟩ := locked_is_serial_acquires ms amount es s hr hidle
  rw [h1, h2, serial_eq_servePages, posAfter_eq_finalPos]
  exact ⟨rfl, rfl⟩

/-- every request is answered at most once, and when the lock is free every request is either
untouched or finished -/
theorem locked_once {α} (ms : List α) (amount : Nat → Nat) (es : List Ev) (s : S α)
    (hr : runWith (stepLocked ms amount) {} es = some s) :
    (s.pages.map (·.1)).Nodup
      ∧ (s.holder = none → ∀ t, (phaseOf s t = 0 ∧ t ∉ s.pages.map (·.1))
            ∨ (phaseOf s t = 4 ∧ t ∈ s.pages.map (·.1))) := by
  have h := linv_reachable ms amount es s hr
  refine ⟨h.pages_nodup, fun hidle t => ?_⟩
  have hp := h.pages_phase t
  rcases h.others_phase t (by rw [hidle]; intro h; cases h) with h0 | h4
  · left; refine ⟨h0, ?_⟩; rw [hp]; omega
  · right; refine ⟨h4, ?_⟩; rw [hp]; omega

/-! ### before the repair -/

/-- before the repair (two separate lock acquisitions) a schedule exists in which two requests get
the same page -/
theorem split_race :
    ∃ es s, runWith (stepSplit [0, 1, 2, 3] (fun _ => 2)) {} es = some s
      ∧ s.pages = [(0, [0, 1]), (1, [0, 1])] :=
  ⟨[.acquire 0, .read 0, .release 0, .acquire 1, .read 1, .release 1,
    .acquire 0, .write 0, .release 0, .acquire 1, .write 1, .release 1], _, rfl, by decide⟩

/-- the same schedule is rejected by the repaired protocol, and the repaired protocol gives the two
requests consecutive pages -/
example : (runWith (stepLocked [0, 1, 2, 3] (fun _ => 2)) {}
    [.acquire 0, .read 0, .release 0]).isNone = true := by decide

example : (runWith (stepLocked [0, 1, 2, 3] (fun _ => 2)) {}
    [.acquire 1, .read 1, .write 1, .release 1, .acquire 0, .read 0, .write 0, .release 0]).map
      (·.pages) = some [(1, [0, 1]), (0, [2, 3])] := by decide

end EnumLock
end Ddnnf
