/-
  Well-formedness of the array the d4 loader produces (part 12): the final statements.

  * `load_wf`     **the loaded array is well formed** (`WF`, the hypothesis of the counting theorem
                  `count_eq_specCount`) for every d4 text that follows the d4 conventions `D4WF`, declares a
                  node, is satisfiable, and on which the loader does not raise its error flag;
  * `load_count`  hence the count the loader reports is the number of assignments to the features
                  `1..n` that satisfy the denotation of the text.

  `D4WF` (see `LoadWF2_11`) is a condition on the state phase 1 builds from the text only; nothing is
  assumed about the later phases.
-/
import DdnnfVerif.Proofs.LoadWF2_11
import DdnnfVerif.Proofs.Keystone

namespace Ddnnf.D4

theorem addTriangle_total (s : LState) (f A : Nat) : (s.addTriangle f A).total = s.total := by
  cases hfind : s.tri.find? (·.1 == f) with
  | some e => rw [addTriangle_found s f A e hfind]
  | none =>
    rw [addTriangle_new s f A hfind]
    show ((({ s with g := (s.g.addNode .or).1, tri := (f, (s.g.addNode .or).2) :: s.tri } : LState).getLit
      (f : Int)).1.getLit (-(f : Int))).1.total = s.total
    rw [getLit_total, getLit_total]

theorem wrapTri_total (s : LState) (root f : Nat) : (wrapTri s root f).1.total = s.total := by
  by_cases h0 : root = 0
  · subst h0; rw [wrapTri_zero, addTriangle_total]
  · rw [wrapTri_ne s root f h0, addTriangle_total]

theorem addFree_total (s : LState) : (addFree s).1.total = s.total := by
  rw [addFree_eq_fold]
  refine foldl_inv (fun (acc : LState × Nat) => acc.1.total = s.total) _ _ ?_ (s, 0) rfl
  intro acc k _ hacc
  unfold wrapFoldStep
  split
  · exact hacc
  · rw [wrapTri_total]; exact hacc

/-- the feature count the loader reports is the `total` of the phase-1 state -/
theorem load_fst (lines : List Line) (total : Nat) : (load lines total).1 = (phase1 lines total).total :=
  addFree_total (phase1 lines total)

/-- **The loaded array is well formed.** -/
theorem load_wf (lines : List Line) (total : Nat) (hnode : ∃ k, Line.node k ∈ lines) (r : Nat → Nat)
    (h : D4WF (phase1 lines total) r) (hok : (load lines total).2.2 = false)
    (hsat : ∃ σ, sem σ (phase1 lines total).g r 0 = true) :
    WF (load lines total).2.1 (load lines total).1 := by
  obtain ⟨hp, htri⟩ := lines_p lines total
  have hpos : 0 < (phase1 lines total).g.kind.size :=
    lines_size_pos lines { total := total } (linv_init total) (Or.inr hnode)
  have hok' : (st4 true id (phase1 lines total)).g.err = false := hok
  obtain ⟨r4, hc, hroot, hnz, hdec, hsm, hdet, hvars, hsat4⟩ :=
    final_graph (phase1 lines total) r hp htri hpos h hsat hok'
  rw [load_fst]
  show WF (loadWith true id lines total).2.1 _
  rw [loadWith_nodes, loadGraph_eq]
  exact flattenGraph_WF hc _ hroot _ hnz (fun x _ hk => hdec x hk) hsm
    (fun σ x _ hk => hdet σ _ (sem_model σ _ r4 hc.acyc) x hk) hvars hsat4

/-- a well-formed array that denotes `den` counts the models of `den` -/
theorem count_of_wf_den (nodes : List NType) (n : Nat) (den : Assignment → Bool) (h : WF nodes n)
    (hden : ∀ σ, eval σ nodes (rootIx nodes) = den σ) :
    count nodes (rootIx nodes) = ((allBits n).filter (fun b => den (assignOf b))).length := by
  rw [count_eq_specCount nodes n h]
  simp [specCount, hden]

/-- **The count the d4 loader reports is the number of models of the text**: the number of assignments
to the features `1..n` (`n` = the reported feature count) under which the first node of the file is true
in the graph that phase 1 builds from the text. -/
theorem load_count (lines : List Line) (total : Nat) (hnode : ∃ k, Line.node k ∈ lines) (r : Nat → Nat)
    (h : D4WF (phase1 lines total) r) (hok : (load lines total).2.2 = false)
    (hsat : ∃ σ, sem σ (phase1 lines total).g r 0 = true) :
    count (load lines total).2.1 (rootIx (load lines total).2.1) =
      ((allBits (load lines total).1).filter fun b =>
        sem (assignOf b) (phase1 lines total).g r 0).length := by
  have hwf := load_wf lines total hnode r h hok hsat
  have hnz : LitNZ (phase1 lines total).g := by
    intro x l hk e
    have := (h.litRange x l hk).1
    rw [e] at this; simp at this
  exact count_of_wf_den _ _ _ hwf
    (fun σ => load_preserves_denotation lines total hnode hnz r h.acyclic hok σ)

end Ddnnf.D4
