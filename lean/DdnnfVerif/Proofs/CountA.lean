/-
  Counting under assumptions.
  * default strategy: `countA` is the number of listed models that avoid the complements of the
    assumptions; for a well-formed circuit this is the number of satisfying assignments that
    contain the assumptions (`specCount`);
  * marking strategy (`marking.rs`): recompute only the ancestors of the touched leaves, with the
    divide trick for and-nodes with few marked children - equal to the default pass;
  `execute_query` itself is in `Proofs/ExecQuery.lean`.
-/
import DdnnfVerif.Model.Query
import DdnnfVerif.Proofs.Keystone

namespace Ddnnf

/-- the assumptions are non-zero literals over the features `1..n` -/
def InRange (A : List Int) (n : Nat) : Prop := ∀ a ∈ A, a ≠ 0 ∧ a.natAbs ≤ n

/-- the filter a set `negs` of forbidden leaves induces on configurations -/
def avoids (negs : List Int) (c : Config) : Bool := c.all (fun l => !negs.contains l)

theorem avoids_append (negs : List Int) (a b : Config) :
    avoids negs (a ++ b) = (avoids negs a && avoids negs b) := by
  simp [avoids, List.all_append]

/-! ### `modelsA` is a filter of `models` -/

theorem filter_flatMap' {α β} (p : β → Bool) (f : α → List β) (xs : List α) :
    (xs.flatMap f).filter p = xs.flatMap (fun x => (f x).filter p) := by
  induction xs with
  | nil => rfl
  | cons x xs ih => simp only [List.flatMap_cons, List.filter_append, ih]

theorem prodConfigs_filter (p : Config → Bool) (hp0 : p [] = true)
    (hp : ∀ a b, p (a ++ b) = (p a && p b)) (ls : List (List Config)) :
    prodConfigs (ls.map (List.filter p)) = (prodConfigs ls).filter p := by
  induction ls with
  | nil =>
    simp [prodConfigs, hp0]
  | cons l rest ih =>
    simp only [List.map_cons, prodConfigs, ih, filter_flatMap']
    generalize prodConfigs rest = P
    induction P with
    | nil => rfl
    | cons t ts iht =>
      by_cases ht : p t = true
      · simp only [List.filter_cons, ht, if_true, List.flatMap_cons, iht]
        congr 1
        rw [List.filter_map]
        congr 1
        apply List.filter_congr
        intro x _
        simp [Function.comp, hp, ht]
      · have ht' : p t = false := by simpa using ht
        simp only [List.filter_cons, ht', List.flatMap_cons]
        rw [if_neg (by simp), iht]
        have : (l.map (fun hd => t ++ hd)).filter p = [] := by
          rw [List.filter_eq_nil_iff]
          intro c hc
          rw [List.mem_map] at hc
          obtain ⟨x, _, rfl⟩ := hc
          simp [hp, ht']
        rw [this]
        rfl

theorem modelsA_eq_filter (nodes : List NType) (negs : List Int) (i : Nat) :
    modelsA nodes negs i
      = (models nodes i).filter (fun c => c.all (fun l => !negs.contains l)) := by
  unfold modelsA models
  apply table_rel (fun (a b : List Config) => a = b.filter (avoids negs)) [] []
    (fModelsA negs) fModels rfl
  intro nd ga gb h
  have hga : ga = fun j => (gb j).filter (avoids negs) := funext h
  subst hga
  cases nd with
  | and cs =>
    show prodConfigs (cs.map _) = (prodConfigs (cs.map gb)).filter _
    rw [← prodConfigs_filter _ rfl (avoids_append negs), List.map_map]
    rfl
  | or cs =>
    show (cs.map _).flatten = ((cs.map gb).flatten).filter _
    rw [List.filter_flatten, List.map_map]
    rfl
  | lit l =>
    show (if negs.contains l then [] else [[l]]) = ([[l]] : List Config).filter (avoids negs)
    by_cases hl : l ∈ negs <;> simp [avoids, hl]
  | tru => rfl
  | fls => rfl

theorem countA_eq_length_modelsA (nodes : List NType) (negs : List Int) (i : Nat) :
    countA nodes negs i = (modelsA nodes negs i).length := by
  unfold countA modelsA
  apply table_rel (fun (a : Nat) (b : List Config) => a = b.length) 0 []
    (fCountA negs) (fModelsA negs) rfl
  intro nd ga gb h
  cases nd with
  | and cs =>
    show prodNat (cs.map ga) = (prodConfigs (cs.map gb)).length
    rw [length_prodConfigs, List.map_map]
    congr 1
    apply List.map_congr_left
    intro c _; simp [h c]
  | or cs =>
    show sumNat (cs.map ga) = ((cs.map gb).flatten).length
    rw [List.length_flatten, List.map_map, sumNat_eq_sum]
    congr 1
    apply List.map_congr_left
    intro c _; simp [h c]
  | lit l =>
    show (if negs.contains l then 0 else 1) = (if negs.contains l then [] else [[l]]).length
    by_cases hl : l ∈ negs <;> simp [hl]
  | tru => rfl
  | fls => rfl

/-! ### complete configurations -/

/-- a configuration that mentions exactly the features `1..n`, with non-zero literals -/
def Complete (n : Nat) (c : Config) : Prop :=
  (c.map Int.natAbs).Perm ((List.range n).map (· + 1)) ∧ ∀ l ∈ c, l ≠ 0

/-- the listed models of the root of a well-formed circuit are complete -/
theorem root_models_complete (nodes : List NType) (n : Nat) (h : WF nodes n) :
    ∀ c ∈ models nodes (rootIx nodes), Complete n c := fun c hc =>
  ⟨(models_vars' nodes h.topo h.smooth _ c hc).trans h.rootComplete,
   models_lit_nonzero nodes h.litnz _ c hc⟩

theorem nodup_map_inj {α β} (f : α → β) (c : List α) (h : (c.map f).Nodup) {x y : α}
    (hx : x ∈ c) (hy : y ∈ c) (hxy : f x = f y) : x = y := by
  induction c with
  | nil => cases hx
  | cons z c ih =>
    rw [List.map_cons, List.nodup_cons] at h
    rcases List.mem_cons.mp hx with rfl | hx' <;> rcases List.mem_cons.mp hy with rfl | hy'
    · rfl
    · exact absurd (List.mem_map.mpr ⟨y, hy', hxy.symm⟩) h.1
    · exact absurd (List.mem_map.mpr ⟨x, hx', hxy⟩) h.1
    · exact ih h.2 hx' hy'

theorem nodup_range_succ (n : Nat) : ((List.range n).map (· + 1)).Nodup := by
  rw [List.Nodup, List.pairwise_map]
  exact List.nodup_range.imp (fun h => by omega)

theorem Complete.natAbs_le {n : Nat} {c : Config} (hc : Complete n c) {l : Int} (hl : l ∈ c) :
    l.natAbs ≤ n := by
  have : l.natAbs ∈ (List.range n).map (· + 1) :=
    hc.1.mem_iff.mp (List.mem_map.mpr ⟨l, hl, rfl⟩)
  rw [List.mem_map] at this
  obtain ⟨k, hk, hke⟩ := this
  rw [List.mem_range] at hk
  omega

/-- a complete configuration decides every feature in `1..n` -/
theorem Complete.mem_or {n : Nat} {c : Config} (hc : Complete n c) {a : Int} (ha0 : a ≠ 0)
    (han : a.natAbs ≤ n) : a ∈ c ∨ -a ∈ c := by
  have : a.natAbs ∈ c.map Int.natAbs := by
    rw [hc.1.mem_iff, List.mem_map]
    exact ⟨a.natAbs - 1, by rw [List.mem_range]; omega, by omega⟩
  rw [List.mem_map] at this
  obtain ⟨l, hl, hle⟩ := this
  rcases Int.natAbs_eq_natAbs_iff.mp hle with h | h
  · left; exact h ▸ hl
  · right; exact h ▸ hl

/-- a complete configuration never contains a literal and its complement -/
theorem Complete.not_both {n : Nat} {c : Config} (hc : Complete n c) {a : Int} (h1 : a ∈ c)
    (h2 : -a ∈ c) : False := by
  have hnd : (c.map Int.natAbs).Nodup := hc.1.nodup_iff.mpr (nodup_range_succ n)
  have := nodup_map_inj Int.natAbs c hnd h1 h2 (by simp)
  have := hc.2 a h1
  omega

/-! ### the specification with assumptions counts the listed models containing the assumptions -/

theorem litTrue_neg (σ : Assignment) (a : Int) (ha : a ≠ 0) :
    litTrue σ (-a) = !litTrue σ a := by
  unfold litTrue
  rw [Int.natAbs_neg]
  by_cases hpos : a > 0
  · have h1 : ¬ (-a > 0) := by omega
    have h2 : -a < 0 := by omega
    rw [if_pos hpos, if_neg h1, if_pos h2]
  · have h1 : -a > 0 := by omega
    have h2 : a < 0 := by omega
    rw [if_pos h1, if_neg hpos, if_pos h2, Bool.not_not]

/-- for an assignment satisfying a complete configuration `c`, the in-range literals that are
true are exactly the members of `c` -/
theorem litTrue_iff_mem_complete {n : Nat} {c : Config} (hc : Complete n c) (σ : Assignment)
    (hs : satCfg σ c = true) {a : Int} (ha0 : a ≠ 0) (han : a.natAbs ≤ n) :
    litTrue σ a = true ↔ a ∈ c := by
  have hall : ∀ l ∈ c, litTrue σ l = true := by simpa [satCfg] using hs
  constructor
  · intro ht
    rcases hc.mem_or ha0 han with h | h
    · exact h
    · have := hall _ h
      rw [litTrue_neg σ a ha0, ht] at this
      cases this
  · exact hall a

theorem all_litTrue_eq_contains {n : Nat} {c : Config} (hc : Complete n c) (σ : Assignment)
    (hs : satCfg σ c = true) (A : List Int) (hA : InRange A n) :
    A.all (litTrue σ) = A.all (fun a => c.contains a) := by
  rw [Bool.eq_iff_iff, List.all_eq_true, List.all_eq_true]
  apply forall_congr'
  intro a
  apply imp_congr_right
  intro ha
  rw [litTrue_iff_mem_complete hc σ hs (hA a ha).1 (hA a ha).2]
  simp

/-- generalisation of the keystone: the spec with assumptions counts the listed models
containing `A` -/
theorem specCount_eq_filter (nodes : List NType) (n : Nat) (h : WF nodes n) (A : List Int)
    (hA : InRange A n) :
    specCount nodes n A
      = ((models nodes (rootIx nodes)).filter (fun c => A.all (fun a => c.contains a))).length := by
  have hcomp := root_models_complete nodes n h
  have hspec : specCount nodes n A = (allBits n).countP
      (fun b => eval (assignOf b) nodes (rootIx nodes) && A.all (litTrue (assignOf b))) := by
    unfold specCount
    rw [List.countP_eq_length_filter]
  rw [hspec, countP_eq_sum_ite]
  have e1 : (allBits n).map (fun b =>
        if (eval (assignOf b) nodes (rootIx nodes) && A.all (litTrue (assignOf b))) then 1 else 0)
      = (allBits n).map (fun b => (models nodes (rootIx nodes)).countP
          (fun c => satCfg (assignOf b) c && A.all (litTrue (assignOf b)))) := by
    apply List.map_congr_left
    intro b _
    have hm := countP_models nodes h.deterministic (assignOf b) (rootIx nodes)
    by_cases hP : A.all (litTrue (assignOf b)) = true
    · simp only [hP, Bool.and_true]
      exact hm.symm
    · have hP' : A.all (litTrue (assignOf b)) = false := by simpa using hP
      simp only [hP', Bool.and_false]
      simp
  rw [e1, sum_countP_comm (fun b c => satCfg (assignOf b) c && A.all (litTrue (assignOf b)))]
  have e2 : ∀ c ∈ models nodes (rootIx nodes),
      (allBits n).countP (fun b => satCfg (assignOf b) c && A.all (litTrue (assignOf b)))
        = if A.all (fun a => c.contains a) then 1 else 0 := by
    intro c hc
    have e3 : (allBits n).countP (fun b => satCfg (assignOf b) c && A.all (litTrue (assignOf b)))
        = (allBits n).countP (fun b => satCfg (assignOf b) c && A.all (fun a => c.contains a)) := by
      apply List.countP_congr
      intro b _
      by_cases hs : satCfg (assignOf b) c = true
      · rw [all_litTrue_eq_contains (hcomp c hc) _ hs A hA]
      · simp [hs]
    rw [e3]
    by_cases hQ : A.all (fun a => c.contains a) = true
    · simp only [hQ, Bool.and_true, if_true]
      exact countP_allBits_one n c (hcomp c hc).1 (hcomp c hc).2
    · have hQ' : A.all (fun a => c.contains a) = false := by simpa using hQ
      simp only [hQ', Bool.and_false]
      simp
  rw [List.map_congr_left e2, ← countP_eq_sum_ite, List.countP_eq_length_filter]

/-! ### the default strategy is exact -/

/-- general form: it is enough to zero the complements of those assumptions that are not already
contained in every listed model of the root -/
theorem countA_negs_exact (nodes : List NType) (n : Nat) (h : WF nodes n) (A : List Int)
    (hA : InRange A n) (negs : List Int) (hsub : ∀ l ∈ negs, -l ∈ A)
    (hcov : ∀ a ∈ A, -a ∈ negs ∨ ∀ c ∈ models nodes (rootIx nodes), a ∈ c) :
    countA nodes negs (rootIx nodes) = specCount nodes n A := by
  rw [countA_eq_length_modelsA, modelsA_eq_filter, specCount_eq_filter nodes n h A hA]
  congr 1
  apply List.filter_congr
  intro c hc
  have hcomp := root_models_complete nodes n h c hc
  rw [Bool.eq_iff_iff, List.all_eq_true, List.all_eq_true]
  constructor
  · intro h1 a ha
    have hin : a ∈ c := by
      rcases hcov a ha with hn | hall
      · rcases hcomp.mem_or (hA a ha).1 (hA a ha).2 with h2 | h2
        · exact h2
        · have := h1 _ h2
          simp [hn] at this
      · exact hall c hc
    simpa using hin
  · intro h2 l hl
    by_cases hn : l ∈ negs
    · have := h2 _ (hsub l hn)
      exact (hcomp.not_both hl (by simpa using this)).elim
    · simpa using hn

theorem countA_exact (nodes : List NType) (n : Nat) (h : WF nodes n) (A : List Int)
    (hA : InRange A n) :
    countA nodes (A.map (fun f => -f)) (rootIx nodes) = specCount nodes n A := by
  apply countA_negs_exact nodes n h A hA
  · intro l hl
    rw [List.mem_map] at hl
    obtain ⟨a, ha, rfl⟩ := hl
    simpa using ha
  · intro a ha
    exact Or.inl (List.mem_map.mpr ⟨a, ha, rfl⟩)

/-- with no forbidden leaf the default pass is the cached count -/
theorem countA_nil (nodes : List NType) (i : Nat) : countA nodes [] i = count nodes i := by
  rw [countA_eq_length_modelsA, modelsA_eq_filter, count_eq_length_models]
  congr 1
  rw [List.filter_eq_self]
  intro c _
  simp

/-! ### the core literals occur in every listed model -/

/-- every literal of every listed model is the literal of some leaf -/
theorem models_hasLit (nodes : List NType) (i : Nat) :
    ∀ c ∈ models nodes i, ∀ l ∈ c, hasLit nodes l = true := by
  unfold models
  apply table_inv_mem (fun ms : List Config => ∀ c ∈ ms, ∀ l ∈ c, hasLit nodes l = true) []
    fModels (by intro c hc; cases hc) nodes
  intro nd hnd g hg
  cases nd with
  | and cs =>
    show ∀ c ∈ prodConfigs (cs.map g), ∀ l ∈ c, hasLit nodes l = true
    apply prodConfigs_forall
    intro L hL
    rw [List.mem_map] at hL
    obtain ⟨x, _, rfl⟩ := hL
    exact hg x
  | or cs =>
    show ∀ c ∈ (cs.map g).flatten, ∀ l ∈ c, hasLit nodes l = true
    intro c hc
    rw [List.mem_flatten] at hc
    obtain ⟨L, hL, hcL⟩ := hc
    rw [List.mem_map] at hL
    obtain ⟨x, _, rfl⟩ := hL
    exact hg x c hcL
  | lit l =>
    show ∀ c ∈ [[l]], ∀ l' ∈ c, hasLit nodes l' = true
    intro c hc l' hl'
    rw [List.mem_singleton] at hc
    subst hc
    rw [List.mem_singleton] at hl'
    subst hl'
    simpa [hasLit] using hnd
  | tru =>
    show ∀ c ∈ [[]], ∀ l' ∈ c, hasLit nodes l' = true
    intro c hc l' hl'
    rw [List.mem_singleton] at hc
    subst hc
    cases hl'
  | fls =>
    show ∀ c ∈ ([] : List Config), ∀ l' ∈ c, hasLit nodes l' = true
    intro c hc
    cases hc

theorem hasLit_iff (nodes : List NType) (l : Int) :
    hasLit nodes l = true ↔ ∃ j, ∃ h : j < nodes.length, nodes[j] = .lit l := by
  simp only [hasLit, List.contains_iff_mem, List.mem_iff_getElem]

theorem hasLit_ne_zero (nodes : List NType) (hnz : LitNonzero nodes) (l : Int)
    (h : hasLit nodes l = true) : l ≠ 0 := by
  obtain ⟨j, hj, he⟩ := (hasLit_iff nodes l).mp h
  exact hnz j hj l he

theorem mem_coreSynOf (nodes : List NType) (n : Nat) (l : Int) :
    l ∈ coreSynOf nodes n ↔ l.natAbs ≤ n ∧ hasLit nodes l = true ∧ hasLit nodes (-l) = false := by
  unfold coreSynOf
  rw [List.mem_filter, List.mem_map]
  simp only [List.mem_range, Bool.and_eq_true, Bool.not_eq_true']
  constructor
  · rintro ⟨⟨k, hk, rfl⟩, h1, h2⟩
    exact ⟨by omega, h1, h2⟩
  · rintro ⟨hn, h1, h2⟩
    exact ⟨⟨(l + n).toNat, by omega, by omega⟩, h1, h2⟩

/-- a list of literals that are contained in every listed model of the root -/
def CoreSound (core : List Int) (nodes : List NType) : Prop :=
  ∀ l ∈ core, ∀ c ∈ models nodes (rootIx nodes), l ∈ c

/-- the syntactic core (leaf exists, complementary leaf does not) is sound -/
theorem coreSyn_sound (nodes : List NType) (n : Nat) (h : WF nodes n) :
    CoreSound (coreSynOf nodes n) nodes := by
  intro l hl c hc
  obtain ⟨hn, h1, h2⟩ := (mem_coreSynOf nodes n l).mp hl
  have hcomp := root_models_complete nodes n h c hc
  rcases hcomp.mem_or (hasLit_ne_zero nodes h.litnz l h1) hn with h3 | h3
  · exact h3
  · have := models_hasLit nodes _ c hc _ h3
    rw [h2] at this
    cases this


/-! ## the marking strategy -/

theorem prodNat_le (cs : List Nat) (f g : Nat → Nat) (h : ∀ c ∈ cs, f c ≤ g c) :
    prodNat (cs.map f) ≤ prodNat (cs.map g) := by
  induction cs with
  | nil => exact Nat.le_refl _
  | cons c cs ih =>
    simp only [List.map_cons, prodNat_cons]
    exact Nat.mul_le_mul (h c (List.mem_cons_self ..))
      (ih (fun x hx => h x (List.mem_cons_of_mem _ hx)))

theorem sumNat_le (cs : List Nat) (f g : Nat → Nat) (h : ∀ c ∈ cs, f c ≤ g c) :
    sumNat (cs.map f) ≤ sumNat (cs.map g) := by
  induction cs with
  | nil => exact Nat.le_refl _
  | cons c cs ih =>
    simp only [List.map_cons, sumNat_cons]
    exact Nat.add_le_add (h c (List.mem_cons_self ..))
      (ih (fun x hx => h x (List.mem_cons_of_mem _ hx)))

/-- the divide trick: starting from `Q * ∏ count`, dividing by the cached count of every marked
child and multiplying by its temp yields `Q * ∏ sel` -/
theorem foldl_divStep (g : Nat → MK) (cs : List Nat)
    (h0 : ∀ c ∈ cs, (g c).marked = true → (g c).count = 0 → (g c).temp = 0) (Q : Nat) :
    (cs.filter fun c => (g c).marked).foldl (divStep g)
        (Q * prodNat (cs.map fun c => (g c).count))
      = Q * prodNat (cs.map fun c => (g c).sel) := by
  induction cs generalizing Q with
  | nil => rfl
  | cons c cs ih =>
    have ih' := ih (fun x hx => h0 x (List.mem_cons_of_mem _ hx))
    simp only [List.map_cons, prodNat_cons]
    by_cases hm : (g c).marked = true
    · have hsel : (g c).sel = (g c).temp := by simp [MK.sel, hm]
      rw [List.filter_cons_of_pos (by simpa using hm), List.foldl_cons, hsel]
      by_cases hc : (g c).count = 0
      · have ht := h0 c (List.mem_cons_self ..) hm hc
        have e : divStep g (Q * ((g c).count * prodNat (cs.map fun c => (g c).count))) c
            = 0 * prodNat (cs.map fun c => (g c).count) := by
          simp [divStep, ht]
        rw [e, ih' 0, ht]
        simp
      · have e : divStep g (Q * ((g c).count * prodNat (cs.map fun c => (g c).count))) c
            = (Q * (g c).temp) * prodNat (cs.map fun c => (g c).count) := by
          have hpos : 0 < (g c).count := Nat.pos_of_ne_zero hc
          have e1 : Q * ((g c).count * prodNat (cs.map fun c => (g c).count))
              = (g c).count * (Q * prodNat (cs.map fun c => (g c).count)) := by
            rw [Nat.mul_left_comm]
          simp only [divStep, bne_iff_ne, ne_eq, hc, not_false_eq_true, if_true]
          rw [e1, Nat.mul_div_cancel_left _ hpos, Nat.mul_right_comm]
        rw [e, ih' (Q * (g c).temp), Nat.mul_assoc]
    · have hm' : (g c).marked = false := by simpa using hm
      have hsel : (g c).sel = (g c).count := by simp [MK.sel, hm']
      rw [List.filter_cons_of_neg (by simpa using hm), hsel, ← Nat.mul_assoc, ih' (Q * (g c).count),
        Nat.mul_assoc]

/-- the relation between a marker entry and the value of the default pass -/
def MKRel (m : MK) (a : Nat) : Prop :=
  (m.marked = false → a = m.count) ∧ (m.marked = true → m.temp = a) ∧ a ≤ m.count

theorem MKRel.sel_eq {m : MK} {a : Nat} (h : MKRel m a) : m.sel = a := by
  unfold MK.sel
  by_cases hm : m.marked = true
  · rw [if_pos hm]; exact h.2.1 hm
  · rw [if_neg hm]; exact (h.1 (by simpa using hm)).symm

theorem fMarker_rel (negs : List Int) (nd : NType) (gm : Nat → MK) (ga : Nat → Nat)
    (h : ∀ j, MKRel (gm j) (ga j)) : MKRel (fMarker negs nd gm) (fCountA negs nd ga) := by
  have hsel : ∀ j, (gm j).sel = ga j := fun j => (h j).sel_eq
  cases nd with
  | lit l =>
    show MKRel (if negs.contains l then ⟨1, true, 0⟩ else ⟨1, false, 1⟩)
      (if negs.contains l then 0 else 1)
    by_cases hl : negs.contains l = true
    · rw [if_pos hl, if_pos hl]; simp [MKRel]
    · rw [if_neg hl, if_neg hl]; simp [MKRel]
  | tru => simp [fMarker, fCountA, fCount, MKRel]
  | fls => simp [fMarker, fCountA, fCount, MKRel]
  | and cs =>
    have hle : prodNat (cs.map ga) ≤ prodNat (cs.map fun c => (gm c).count) :=
      prodNat_le cs _ _ (fun c _ => (h c).2.2)
    have hselmap : prodNat (cs.map fun c => (gm c).sel) = prodNat (cs.map ga) := by
      congr 1; exact List.map_congr_left (fun c _ => hsel c)
    show MKRel (fMarker negs (.and cs) gm) (prodNat (cs.map ga))
    simp only [fMarker]
    by_cases he : (cs.filter fun c => (gm c).marked).isEmpty = true
    · rw [if_pos he]
      have hall : ∀ c ∈ cs, (gm c).marked = false := by
        intro c hc
        rw [List.isEmpty_iff, List.filter_eq_nil_iff] at he
        simpa using he c hc
      have : prodNat (cs.map ga) = prodNat (cs.map fun c => (gm c).count) := by
        congr 1; exact List.map_congr_left (fun c hc => (h c).1 (hall c hc))
      simp [MKRel, this]
    · rw [if_neg he]
      by_cases hfew : (cs.filter fun c => (gm c).marked).length ≤ cs.length / 2
      · rw [if_pos hfew]
        have hdiv := foldl_divStep gm cs (fun c _ hm hc => by
          have h1 := (h c).2.1 hm
          have h2 := (h c).2.2
          omega) 1
        rw [Nat.one_mul, Nat.one_mul, hselmap] at hdiv
        exact ⟨by simp, fun _ => hdiv, hle⟩
      · rw [if_neg hfew]
        exact ⟨by simp, fun _ => hselmap, hle⟩
  | or cs =>
    have hle : sumNat (cs.map ga) ≤ sumNat (cs.map fun c => (gm c).count) :=
      sumNat_le cs _ _ (fun c _ => (h c).2.2)
    have hselmap : sumNat (cs.map fun c => (gm c).sel) = sumNat (cs.map ga) := by
      congr 1; exact List.map_congr_left (fun c _ => hsel c)
    show MKRel (fMarker negs (.or cs) gm) (sumNat (cs.map ga))
    simp only [fMarker]
    by_cases he : (cs.filter fun c => (gm c).marked).isEmpty = true
    · rw [if_pos he]
      have hall : ∀ c ∈ cs, (gm c).marked = false := by
        intro c hc
        rw [List.isEmpty_iff, List.filter_eq_nil_iff] at he
        simpa using he c hc
      have : sumNat (cs.map ga) = sumNat (cs.map fun c => (gm c).count) := by
        congr 1; exact List.map_congr_left (fun c hc => (h c).1 (hall c hc))
      simp [MKRel, this]
    · rw [if_neg he]
      exact ⟨by simp, fun _ => hselmap, hle⟩

/-- the marking strategy (recompute only ancestors of the touched leaves, divide trick) equals
the default pass -/
theorem marker_eq_countA (nodes : List NType) (negs : List Int) :
    markerCount nodes negs = countA nodes negs (rootIx nodes) := by
  unfold markerCount countA
  apply MKRel.sel_eq
  exact table_rel MKRel ⟨0, false, 0⟩ 0 (fMarker negs) (fCountA negs) (by simp [MKRel])
    (fMarker_rel negs) nodes (rootIx nodes)

end Ddnnf
