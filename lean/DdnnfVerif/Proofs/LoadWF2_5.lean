/-
  Well-formedness of the array the d4 loader produces (part 5): the new root of phases 2 and 3b
  (`addFree`, `addVanished`) keeps decomposability, and the variables of the root are known exactly.

  * `wrap_dinv`      node 0 is wrapped in a fresh and-node;
  * `wrapTri_dinv`   one step of the folds: the triangle of a feature the root does not mention yet;
  * `wrapFold_dinv`  the folds of `addFree` / `addVanished` for an arbitrary "skip" test that only depends
                     on `occurs`: afterwards the root mentions what the old root mentioned plus exactly the
                     features that were not skipped;
  * `addFree_eq_fold`, `addVanished_eq_fold`.
-/
import DdnnfVerif.Proofs.LoadWF2_4

namespace Ddnnf.D4

/-- a fold invariant that knows the prefix processed so far -/
theorem foldl_inv_prefix {α β : Type} (P : List α → β → Prop) (f : β → α → β) (l : List α)
    (h : ∀ pre a post b, l = pre ++ a :: post → P pre b → P (pre ++ [a]) (f b a)) (b : β) (hb : P [] b) :
    P l (l.foldl f b) := by
  have key : ∀ (rest pre : List α) (b : β), l = pre ++ rest → P pre b → P l (rest.foldl f b) := by
    intro rest
    induction rest with
    | nil => intro pre b e hp; rw [List.append_nil] at e; rw [e]; exact hp
    | cons a rest ih =>
      intro pre b e hp
      rw [List.foldl_cons]
      exact ih (pre ++ [a]) (f b a) (by rw [e, List.append_assoc]; rfl) (h pre a rest b e hp)
  exact key l [] b rfl hb

/-- the root the folds carry: 0 (no root yet) or an and-node without predecessors -/
def RootD (s : LState) (root : Nat) : Prop :=
  root = 0 ∨ (root < s.g.kind.size ∧ s.g.kindOf root = some .and ∧ ∀ y, root ∉ s.g.outs.getD y [])

/-- the frame of the folds of `addFree` / `addVanished` -/
structure WrapStep (s : LState) (root : Nat) (s' : LState) (root' : Nat) : Prop where
  size : s.g.kind.size ≤ s'.g.kind.size
  rootEq : root' = root ∨ (root = 0 ∧ s.g.kind.size ≤ root')
  kinds : ∀ x, x < s.g.kind.size → s'.g.kindOf x = s.g.kindOf x
  outs : ∀ x, x < s.g.kind.size → (root = 0 ∨ x ≠ root) → s'.g.outs.getD x [] = s.g.outs.getD x []
  ment : ∀ x, x < s.g.kind.size → (root = 0 ∨ x ≠ root) → ∀ f, Mentions s'.g x f ↔ Mentions s.g x f
  rootSup : root ≠ 0 → ∀ c ∈ s.g.outs.getD root [], c ∈ s'.g.outs.getD root []
  rootOuts : root' ≠ 0 → ∀ c ∈ s'.g.outs.getD root' [],
    (root ≠ 0 ∧ c ∈ s.g.outs.getD root []) ∨ (root = 0 ∧ c = 0) ∨ ∃ e ∈ s'.tri, e.2 = c
  newOr : ∀ x, s.g.kind.size ≤ x → s'.g.kindOf x = some .or → ∃ e ∈ s'.tri, e.2 = x
  triMono : ∀ e ∈ s.tri, e ∈ s'.tri
  total : s'.total = s.total
  occurs : s'.occurs = s.occurs
  err : s'.g.err = s.g.err

theorem WrapStep.refl (s : LState) (root : Nat) : WrapStep s root s root :=
  ⟨Nat.le_refl _, Or.inl rfl, fun _ _ => rfl, fun _ _ _ => rfl, fun _ _ _ _ => Iff.rfl, fun _ _ h => h,
    fun hne c hc => Or.inl ⟨hne, hc⟩,
    fun x hx hk => (by rw [kindOf_of_ge s.g x hx] at hk; cases hk), fun _ h => h, rfl, rfl, rfl⟩

theorem WrapStep.trans {s s' s'' : LState} {root root' root'' : Nat} (_hr : root = 0 ∨ root < s.g.kind.size)
    (h1 : WrapStep s root s' root') (h2 : WrapStep s' root' s'' root'') : WrapStep s root s'' root'' := by
  -- an old node that is not the root is not the intermediate root either
  have hside : ∀ x, x < s.g.kind.size → (root = 0 ∨ x ≠ root) → (root' = 0 ∨ x ≠ root') := by
    intro x hx hxr
    rcases h1.rootEq with e | ⟨e, hge⟩
    · rw [e]; exact hxr
    · right; omega
  refine ⟨Nat.le_trans h1.size h2.size, ?_, ?_, ?_, ?_, ?_, ?_, ?_, fun e he => h2.triMono e (h1.triMono e he),
    h2.total.trans h1.total, h2.occurs.trans h1.occurs, h2.err.trans h1.err⟩
  · rcases h1.rootEq with e1 | ⟨e1, hge1⟩
    · rcases h2.rootEq with e2 | ⟨e2, hge2⟩
      · left; rw [e2, e1]
      · right; exact ⟨by rw [← e1]; exact e2, Nat.le_trans h1.size hge2⟩
    · rcases h2.rootEq with e2 | ⟨e2, hge2⟩
      · right; exact ⟨e1, by rw [e2]; exact hge1⟩
      · right; exact ⟨e1, Nat.le_trans h1.size hge2⟩
  · intro x hx; rw [h2.kinds x (Nat.lt_of_lt_of_le hx h1.size), h1.kinds x hx]
  · intro x hx hxr
    rw [h2.outs x (Nat.lt_of_lt_of_le hx h1.size) (hside x hx hxr), h1.outs x hx hxr]
  · intro x hx hxr f
    rw [h2.ment x (Nat.lt_of_lt_of_le hx h1.size) (hside x hx hxr), h1.ment x hx hxr]
  · intro hne c hc
    have e1 : root' = root := by
      rcases h1.rootEq with e | ⟨e, _⟩
      · exact e
      · exact absurd e hne
    have := h1.rootSup hne c hc
    rw [← e1] at this
    have := h2.rootSup (by rw [e1]; exact hne) c this
    rw [e1] at this
    exact this
  · intro hne c hc
    rcases h2.rootOuts hne c hc with ⟨hne', hc'⟩ | ⟨e', ec⟩ | hreg
    · rcases h1.rootOuts hne' c hc' with h | h | ⟨e, he, ex⟩
      · exact Or.inl h
      · exact Or.inr (Or.inl h)
      · exact Or.inr (Or.inr ⟨e, h2.triMono e he, ex⟩)
    · refine Or.inr (Or.inl ⟨?_, ec⟩)
      rcases h1.rootEq with e | ⟨e, _⟩
      · rw [← e]; exact e'
      · exact e
    · exact Or.inr (Or.inr hreg)
  · intro x hx hk
    by_cases hx' : s'.g.kind.size ≤ x
    · exact h2.newOr x hx' hk
    · have hlt : x < s'.g.kind.size := by omega
      rw [h2.kinds x hlt] at hk
      obtain ⟨e, he, ex⟩ := h1.newOr x hx hk
      exact ⟨e, h2.triMono e he, ex⟩

/-- predecessors of an and-node stay the same when something is hung under it -/
theorem AddStep.noParents {s s' : LState} {A : Nat} (h : AddStep s s' A) (hb : BInv s') (hA : A < s.g.kind.size)
    (hAk : s.g.kindOf A = some .and) (hnp : ∀ y, A ∉ s.g.outs.getD y []) : ∀ y, A ∉ s'.g.outs.getD y [] := by
  have hAk' : s'.g.kindOf A = some .and := by rw [h.kinds A hA]; exact hAk
  intro y hy
  by_cases hys : y < s.g.kind.size
  · by_cases hya : y = A
    · subst hya
      rcases h.attachSub _ hy with h1 | ⟨e, he, ex⟩
      · exact hnp _ h1
      · have := (hb.tri e he).2.1
        rw [ex, hAk'] at this; cases this
    · rw [h.outs y hys hya] at hy; exact hnp y hy
  · obtain ⟨l, hl⟩ := h.newOuts y (by omega) A hy
    rw [hAk'] at hl; cases hl

/-! ### wrapping node 0 -/

/-- the state after node 0 was wrapped in a fresh and-node -/
def wrapSt (s : LState) : LState := { s with g := (s.g.addNode .and).1.addEdge s.g.kind.size 0 }

theorem wrap_dinv (s : LState) (hd : DInv s) (hpos : 0 < s.g.kind.size) :
    DInv (wrapSt s) ∧ (wrapSt s).g.kind.size = s.g.kind.size + 1 ∧
    (∀ x, x < s.g.kind.size → (wrapSt s).g.kindOf x = s.g.kindOf x) ∧
    (∀ x, x < s.g.kind.size → (wrapSt s).g.outs.getD x [] = s.g.outs.getD x []) ∧
    (wrapSt s).g.kindOf s.g.kind.size = some .and ∧
    (wrapSt s).g.outs.getD s.g.kind.size [] = [0] ∧
    (∀ x, x < s.g.kind.size → ∀ f, Mentions (wrapSt s).g x f ↔ Mentions s.g x f) ∧
    (∀ f, Mentions (wrapSt s).g s.g.kind.size f ↔ Mentions s.g 0 f) ∧
    (∀ y, s.g.kind.size ∉ (wrapSt s).g.outs.getD y []) := by
  have hsz := addNode_size s.g .and
  have hwf := hd.b.p.linv.wf
  have hw : WFn (s.g.kind.size + 1) ((s.g.addNode .and).1.addEdge s.g.kind.size 0) :=
    addEdge_wfn _ _ _ _ ⟨addNode_wf _ _ hwf, hsz⟩ (Nat.succ_pos _)
  have hlinv : LInv (wrapSt s) := hd.b.p.linv.setG _ hw.1 (by rw [hw.2]; exact Nat.le_succ _)
  have hk : ∀ x, (wrapSt s).g.kindOf x = if x = s.g.kind.size then some .and else s.g.kindOf x := by
    intro x
    show ((s.g.addNode .and).1.addEdge s.g.kind.size 0).kindOf x = _
    rw [kindOf_addEdge, kindOf_addNode]
  have hkold : ∀ x, x < s.g.kind.size → (wrapSt s).g.kindOf x = s.g.kindOf x := by
    intro x hx; rw [hk, if_neg (Nat.ne_of_lt hx)]
  have hkmono : ∀ x k, s.g.kindOf x = some k → (wrapSt s).g.kindOf x = some k := by
    intro x k h; rw [hkold x (kindOf_lt h)]; exact h
  have hosz : (s.g.addNode .and).1.outs.size = s.g.kind.size + 1 := by
    rw [outsSize_addNode, hwf.osz]
  have ho : ∀ x, (wrapSt s).g.outs.getD x [] = if x = s.g.kind.size then [0] else s.g.outs.getD x [] := by
    intro x
    show ((s.g.addNode .and).1.addEdge s.g.kind.size 0).outs.getD x [] = _
    rw [outs_addEdge]
    by_cases hx : x = s.g.kind.size
    · subst hx
      rw [if_pos ⟨rfl, by rw [hosz]; exact Nat.lt_succ_self _⟩, if_pos rfl, outs_addNode,
        outs_of_ge s.g _ (by rw [hwf.osz]; exact Nat.le_refl _)]
    · rw [if_neg (fun hh => hx hh.1.symm), if_neg hx, outs_addNode]
  have hoold : ∀ x, x < s.g.kind.size → (wrapSt s).g.outs.getD x [] = s.g.outs.getD x [] := by
    intro x hx; rw [ho, if_neg (Nat.ne_of_lt hx)]
  have hedges : ∀ x, x < s.g.kind.size → ∀ c ∈ s.g.outs.getD x [], c < s.g.kind.size :=
    fun x _ c hc => hwf.edges x c hc
  have hment := mentions_old (g := s.g) (g' := (wrapSt s).g) hedges hkold hoold
  have hkn : (wrapSt s).g.kindOf s.g.kind.size = some .and := by rw [hk, if_pos rfl]
  have hon : (wrapSt s).g.outs.getD s.g.kind.size [] = [0] := by rw [ho, if_pos rfl]
  have hmn : ∀ f, Mentions (wrapSt s).g s.g.kind.size f ↔ Mentions s.g 0 f := by
    intro f
    rw [mentions_inner_iff (Or.inl hkn), hon]
    constructor
    · rintro ⟨c, hc, hm⟩
      rcases List.mem_cons.1 hc with e | hc
      · subst e; exact (hment 0 hpos f).1 hm
      · cases hc
    · intro hm; exact ⟨0, List.mem_cons_self .., (hment 0 hpos f).2 hm⟩
  refine ⟨⟨⟨⟨hlinv, ?_⟩, ?_, ?_, ?_⟩, ?_⟩, hw.2, hkold, hoold, hkn, hon, hment, hmn, ?_⟩
  · intro e he; exact hkmono _ _ (hd.b.p.litK e he)
  · intro e he
    exact (hd.b.tri e he).congr hkmono (hoold _ (hd.b.p.linv.tri e he))
  · intro x l hkx
    rw [hk] at hkx
    split at hkx
    · cases hkx
    · exact hd.b.litR x l hkx
  · intro x l hkx
    rw [hk] at hkx
    split at hkx
    · cases hkx
    · rename_i hx
      rw [ho, if_neg hx]; exact hd.b.litSink x l hkx
  · -- decomposability
    intro x hkx
    rw [hk] at hkx
    split at hkx
    · rename_i hx; subst hx; rw [hon]; exact List.pairwise_singleton _ _
    · have hx : x < s.g.kind.size := kindOf_lt hkx
      rw [hoold x hx]
      refine List.Pairwise.imp_of_mem ?_ (hd.dec x hkx)
      intro c d hcm hdm hdis f h1 h2
      exact hdis f ((hment c (hedges x hx c hcm) f).1 h1) ((hment d (hedges x hx d hdm) f).1 h2)
  · intro y hy
    rw [ho] at hy
    split at hy
    · rcases List.mem_cons.1 hy with e | hy
      · omega
      · cases hy
    · by_cases hys : y < s.g.kind.size
      · have := hedges y hys _ hy; omega
      · rw [outs_of_ge s.g y (by rw [hwf.osz]; omega)] at hy; cases hy

/-! ### one step of the folds -/

theorem wrapTri_dinv (s : LState) (root f : Nat) (hd : DInv s) (hf : 1 ≤ f ∧ f ≤ s.total)
    (hpos : 0 < s.g.kind.size) (hr : RootD s root) (hnm : ¬ Mentions s.g root f) :
    DInv (wrapTri s root f).1 ∧ RootD (wrapTri s root f).1 (wrapTri s root f).2 ∧ (wrapTri s root f).2 ≠ 0 ∧
    WrapStep s root (wrapTri s root f).1 (wrapTri s root f).2 ∧
    (∀ f', Mentions (wrapTri s root f).1.g (wrapTri s root f).2 f' ↔ Mentions s.g root f' ∨ f' = f) := by
  by_cases h0 : root = 0
  · subst h0
    have e0 : wrapTri s 0 f = ((wrapSt s).addTriangle f s.g.kind.size, s.g.kind.size) := rfl
    rw [e0]
    dsimp only
    obtain ⟨dw, zw, kw, ow, kn, on, mw, mn, npw⟩ := wrap_dinv s hd hpos
    have hA : s.g.kind.size < (wrapSt s).g.kind.size := by rw [zw]; exact Nat.lt_succ_self _
    obtain ⟨d1, a1, m1⟩ := addTriangle_dinv (wrapSt s) f s.g.kind.size dw hf hA kn
      (fun h => hnm ((mn f).1 h)) (fun y hy => absurd hy (npw y))
    have np1 := a1.noParents d1.b hA kn npw
    refine ⟨d1, Or.inr ⟨Nat.lt_of_lt_of_le hA a1.size, by rw [a1.kinds _ hA]; exact kn, np1⟩,
      Nat.pos_iff_ne_zero.1 hpos, ?_, ?_⟩
    · refine ⟨Nat.le_trans (by rw [zw]; exact Nat.le_succ _) a1.size, Or.inr ⟨rfl, Nat.le_refl _⟩, ?_, ?_, ?_,
        fun h => absurd rfl h, ?_, ?_, a1.triMono, a1.total, a1.occurs, a1.err⟩
      · intro x hx; rw [a1.kinds x (by rw [zw]; omega), kw x hx]
      · intro x hx _; rw [a1.outs x (by rw [zw]; omega) (by omega), ow x hx]
      · intro x hx _ f'
        rw [m1 x (by rw [zw]; omega) f', mw x hx f']
        constructor
        · rintro (h | ⟨e, _⟩)
          · exact h
          · omega
        · exact Or.inl
      · intro _ c hc
        rcases a1.attachSub c hc with h | h
        · rw [on] at h
          rcases List.mem_cons.1 h with e | h
          · exact Or.inr (Or.inl ⟨rfl, e⟩)
          · cases h
        · exact Or.inr (Or.inr h)
      · intro x hx hk
        by_cases hxn : x = s.g.kind.size
        · rw [hxn, a1.kinds _ hA, kn] at hk; cases hk
        · exact a1.newOr x (by rw [zw]; omega) hk
    · intro f'
      rw [m1 _ hA f', mn f']
      constructor
      · rintro (h | ⟨_, e⟩)
        · exact Or.inl h
        · exact Or.inr e
      · rintro (h | e)
        · exact Or.inl h
        · exact Or.inr ⟨rfl, e⟩
  · rw [wrapTri_ne s root f h0]
    obtain ⟨hlt, hk, hnp⟩ : root < s.g.kind.size ∧ s.g.kindOf root = some .and ∧
        ∀ y, root ∉ s.g.outs.getD y [] := by
      rcases hr with e | h
      · exact absurd e h0
      · exact h
    obtain ⟨d1, a1, m1⟩ := addTriangle_dinv s f root hd hf hlt hk hnm (fun y hy => absurd hy (hnp y))
    refine ⟨d1, Or.inr ⟨Nat.lt_of_lt_of_le hlt a1.size, by rw [a1.kinds _ hlt]; exact hk,
      a1.noParents d1.b hlt hk hnp⟩, h0, ?_, ?_⟩
    · refine ⟨a1.size, Or.inl rfl, a1.kinds, ?_, ?_, fun _ => a1.attachSup,
        fun hne c hc => (a1.attachSub c hc).imp (fun h => ⟨hne, h⟩) Or.inr, a1.newOr, a1.triMono, a1.total,
        a1.occurs, a1.err⟩
      · intro x hx hxr
        rcases hxr with e | hxr
        · exact absurd e h0
        · exact a1.outs x hx hxr
      · intro x hx hxr f'
        rcases hxr with e | hxr
        · exact absurd e h0
        · rw [m1 x hx f']
          constructor
          · rintro (h | ⟨e, _⟩)
            · exact h
            · exact absurd e hxr
          · exact Or.inl
    · intro f'
      rw [m1 _ hlt f']
      constructor
      · rintro (h | ⟨_, e⟩)
        · exact Or.inl h
        · exact Or.inr e
      · rintro (h | e)
        · exact Or.inl h
        · exact Or.inr ⟨rfl, e⟩

/-! ### the folds -/

/-- the body of the folds of `addFree` and `addVanished` -/
def wrapFoldStep (skip : LState → Nat → Bool) : LState × Nat → Nat → LState × Nat :=
  fun acc k => if skip acc.1 (k + 1) then acc else wrapTri acc.1 acc.2 (k + 1)

theorem addFree_eq_fold (s : LState) :
    addFree s = (List.range s.total).foldl (wrapFoldStep fun t f => t.occurs.contains f) (s, 0) := by
  rfl

theorem addVanished_eq_fold (s : LState) (root : Nat) :
    addVanished s root = (List.range s.total).foldl
      (wrapFoldStep fun t f => !(t.occurs.contains f) || ((varSets s.g root).getD root []).contains f)
      (s, root) := by
  rfl

theorem wrapFold_dinv (skip : LState → Nat → Bool) (sk0 : Nat → Bool) (s0 : LState) (root0 : Nat)
    (ks : List Nat) (hsk : ∀ t : LState, t.occurs = s0.occurs → ∀ f, skip t f = sk0 f)
    (hd : DInv s0) (hpos : 0 < s0.g.kind.size) (hr : RootD s0 root0) (hks : ks.Nodup)
    (hrange : ∀ k ∈ ks, k + 1 ≤ s0.total) (hm0 : ∀ f, Mentions s0.g root0 f → sk0 f = true) :
    DInv (ks.foldl (wrapFoldStep skip) (s0, root0)).1 ∧
    RootD (ks.foldl (wrapFoldStep skip) (s0, root0)).1 (ks.foldl (wrapFoldStep skip) (s0, root0)).2 ∧
    WrapStep s0 root0 (ks.foldl (wrapFoldStep skip) (s0, root0)).1 (ks.foldl (wrapFoldStep skip) (s0, root0)).2 ∧
    (∀ f', Mentions (ks.foldl (wrapFoldStep skip) (s0, root0)).1.g (ks.foldl (wrapFoldStep skip) (s0, root0)).2 f' ↔
      Mentions s0.g root0 f' ∨ ∃ k ∈ ks, sk0 (k + 1) = false ∧ f' = k + 1) ∧
    ((∃ k ∈ ks, sk0 (k + 1) = false) → (ks.foldl (wrapFoldStep skip) (s0, root0)).2 ≠ 0) := by
  have hr0 : root0 = 0 ∨ root0 < s0.g.kind.size := by
    rcases hr with e | h
    · exact Or.inl e
    · exact Or.inr h.1
  refine foldl_inv_prefix (fun pre (acc : LState × Nat) =>
    DInv acc.1 ∧ RootD acc.1 acc.2 ∧ WrapStep s0 root0 acc.1 acc.2 ∧
    (∀ f', Mentions acc.1.g acc.2 f' ↔ Mentions s0.g root0 f' ∨ ∃ k ∈ pre, sk0 (k + 1) = false ∧ f' = k + 1) ∧
    ((∃ k ∈ pre, sk0 (k + 1) = false) → acc.2 ≠ 0)) (wrapFoldStep skip) ks ?_ (s0, root0)
    ⟨hd, hr, WrapStep.refl s0 root0, fun f' => by simp, fun ⟨k, hk, _⟩ => by cases hk⟩
  intro pre k post acc e ⟨d, r, w, m, nz⟩
  obtain ⟨t, root⟩ := acc
  dsimp only at d r w m nz
  have hkmem : k ∈ ks := by rw [e]; simp
  have hknot : k ∉ pre := by
    rw [e] at hks
    have := (List.nodup_append.1 hks).2.2
    intro hk
    exact this k hk k (List.mem_cons_self ..) rfl
  unfold wrapFoldStep
  dsimp only
  rw [hsk t w.occurs]
  cases hs : sk0 (k + 1) with
  | true =>
    simp only [if_true]
    refine ⟨d, r, w, ?_, ?_⟩
    · intro f'
      rw [m f']
      constructor
      · rintro (h | ⟨k', hk', h1, h2⟩)
        · exact Or.inl h
        · exact Or.inr ⟨k', List.mem_append_left _ hk', h1, h2⟩
      · rintro (h | ⟨k', hk', h1, h2⟩)
        · exact Or.inl h
        · rcases List.mem_append.1 hk' with hk' | hk'
          · exact Or.inr ⟨k', hk', h1, h2⟩
          · rw [List.mem_singleton.1 hk', hs] at h1; cases h1
    · rintro ⟨k', hk', h1⟩
      rcases List.mem_append.1 hk' with hk' | hk'
      · exact nz ⟨k', hk', h1⟩
      · rw [List.mem_singleton.1 hk', hs] at h1; cases h1
  | false =>
    simp only [Bool.false_eq_true, if_false]
    have hpos' : 0 < t.g.kind.size := Nat.lt_of_lt_of_le hpos w.size
    have hnm : ¬ Mentions t.g root (k + 1) := by
      intro h
      rcases (m _).1 h with h | ⟨k', hk', _, h2⟩
      · rw [hm0 _ h] at hs; cases hs
      · have : k' = k := by omega
        rw [this] at hk'; exact hknot hk'
    obtain ⟨d1, r1, nz1, w1, m1⟩ := wrapTri_dinv t root (k + 1)
      d ⟨Nat.succ_pos _, by rw [w.total]; exact hrange k hkmem⟩ hpos' r hnm
    refine ⟨d1, r1, w.trans hr0 w1, ?_, fun _ => nz1⟩
    intro f'
    rw [m1 f', m f']
    constructor
    · rintro ((h | ⟨k', hk', h1, h2⟩) | h)
      · exact Or.inl h
      · exact Or.inr ⟨k', List.mem_append_left _ hk', h1, h2⟩
      · exact Or.inr ⟨k, List.mem_append_right _ (List.mem_singleton.2 rfl), hs, h⟩
    · rintro (h | ⟨k', hk', h1, h2⟩)
      · exact Or.inl (Or.inl h)
      · rcases List.mem_append.1 hk' with hk' | hk'
        · exact Or.inl (Or.inr ⟨k', hk', h1, h2⟩)
        · rw [List.mem_singleton.1 hk'] at h2; exact Or.inr h2

end Ddnnf.D4
