/-
  The clause cache (`Model/ClauseCache.lean`) refines the abstract clause-set machine `CC.Spec`:
  same verdicts, and after every command sequence the stored clause set / feature count and the
  ghost records of the live and the old model are the abstract machine's current / previous CNF.

  The clause sets are lists; the concrete and the abstract machine keep them in different orders,
  so they are compared as sets (`SameSet`).  The invariant `Inv` carries, besides `Agrees`, the
  bookkeeping that makes `undo` work: the recorded edit (`editAdd`, `editRmv`) is duplicate free,
  `editAdd` is inside and `editRmv` is (up to re-added clauses) outside the stored set, and undoing
  the recorded edit gives the abstract machine's previous clause set.
-/
import DdnnfVerif.Model.ClauseCache
import DdnnfVerif.Proofs.AtomicLists

namespace Ddnnf.CC

def SameSet (a b : ClauseSet) : Prop := ∀ x, x ∈ a ↔ x ∈ b

def Agrees (c : Cache) (s : Spec) : Prop :=
  SameSet c.clauses s.cur.1 ∧ c.total = s.cur.2 ∧ SameSet c.cur.1 s.cur.1 ∧ c.cur.2 = s.cur.2 ∧
  (match c.old, s.prev with
   | some o, some p => SameSet o.1 p.1 ∧ o.2 = p.2
   | none, none => True
   | _, _ => False)

theorem SameSet.refl (a : ClauseSet) : SameSet a a := fun _ => Iff.rfl

/-! ### `removeAll` -/

theorem removeAll_nil (cs : ClauseSet) : removeAll cs [] = some cs := rfl

theorem removeAll_cons (cs : ClauseSet) (r : Clause) (rest : List Clause) :
    removeAll cs (r :: rest) = if cs.contains r then removeAll (cs.erase r) rest else none := rfl

theorem removeAll_some {cs cs' : ClauseSet} {rs : List Clause} (hnd : cs.Nodup)
    (h : removeAll cs rs = some cs') :
    rs.Nodup ∧ (∀ r ∈ rs, r ∈ cs) ∧ cs'.Nodup ∧ ∀ x, x ∈ cs' ↔ x ∈ cs ∧ x ∉ rs := by
  induction rs generalizing cs with
  | nil =>
    rw [removeAll_nil] at h
    cases h
    simp [hnd]
  | cons r rest ih =>
    rw [removeAll_cons] at h
    by_cases hr : cs.contains r = true
    · rw [if_pos hr] at h
      have hrm : r ∈ cs := List.contains_iff_mem.mp hr
      obtain ⟨h1, h2, h3, h4⟩ := ih (hnd.erase r) h
      have hme : ∀ x, x ∈ cs.erase r ↔ x ≠ r ∧ x ∈ cs := fun x => hnd.mem_erase_iff
      refine ⟨?_, ?_, h3, ?_⟩
      · rw [List.nodup_cons]
        exact ⟨fun hin => ((hme r).mp (h2 r hin)).1 rfl, h1⟩
      · intro x hx
        rcases List.mem_cons.mp hx with rfl | hx
        · exact hrm
        · exact ((hme x).mp (h2 x hx)).2
      · intro x
        rw [h4 x, hme x, List.mem_cons]
        constructor
        · rintro ⟨⟨a, b⟩, c⟩
          exact ⟨b, fun h => h.elim a c⟩
        · rintro ⟨a, b⟩
          exact ⟨⟨fun h => b (Or.inl h), a⟩, fun h => b (Or.inr h)⟩
    · rw [if_neg hr] at h
      cases h

theorem removeAll_exists {cs : ClauseSet} {rs : List Clause} (hnd : cs.Nodup) (hr : rs.Nodup)
    (hsub : ∀ r ∈ rs, r ∈ cs) : ∃ cs', removeAll cs rs = some cs' := by
  induction rs generalizing cs with
  | nil => exact ⟨cs, rfl⟩
  | cons r rest ih =>
    rw [removeAll_cons]
    have hrm : r ∈ cs := hsub r List.mem_cons_self
    rw [if_pos (List.contains_iff_mem.mpr hrm)]
    rw [List.nodup_cons] at hr
    apply ih (hnd.erase r) hr.2
    intro x hx
    rw [hnd.mem_erase_iff]
    exact ⟨fun h => hr.1 (h ▸ hx), hsub x (List.mem_cons_of_mem _ hx)⟩

theorem removeAll_eq_none_iff {cs : ClauseSet} {rs : List Clause} (hnd : cs.Nodup) :
    removeAll cs rs = none ↔ ¬ (rs.Nodup ∧ ∀ r ∈ rs, r ∈ cs) := by
  constructor
  · rintro h ⟨h1, h2⟩
    obtain ⟨cs', h'⟩ := removeAll_exists hnd h1 h2
    rw [h] at h'
    cases h'
  · intro h
    cases h' : removeAll cs rs with
    | none => rfl
    | some cs' => exact absurd ⟨(removeAll_some hnd h').1, (removeAll_some hnd h').2.1⟩ h

/-- `removeAll` respects `SameSet`: failure -/
theorem removeAll_none_congr {a b : ClauseSet} (ha : a.Nodup) (hb : b.Nodup) (hab : SameSet a b)
    (rs : List Clause) : removeAll a rs = none ↔ removeAll b rs = none := by
  rw [removeAll_eq_none_iff ha, removeAll_eq_none_iff hb]
  constructor
  · intro h ⟨h1, h2⟩
    exact h ⟨h1, fun r hr => (hab r).mpr (h2 r hr)⟩
  · intro h ⟨h1, h2⟩
    exact h ⟨h1, fun r hr => (hab r).mp (h2 r hr)⟩

/-- `removeAll` respects `SameSet`: results -/
theorem removeAll_some_congr {a b a' b' : ClauseSet} (ha : a.Nodup) (hb : b.Nodup) (hab : SameSet a b)
    {rs : List Clause} (h1 : removeAll a rs = some a') (h2 : removeAll b rs = some b') :
    SameSet a' b' := by
  intro x
  rw [(removeAll_some ha h1).2.2.2 x, (removeAll_some hb h2).2.2.2 x, hab x]

/-! ### `insertAll` -/

theorem insertAll_nil (cs : ClauseSet) : insertAll cs [] = (cs, []) := rfl

theorem insertAll_cons (cs : ClauseSet) (a : Clause) (rest : List Clause) :
    insertAll cs (a :: rest) =
      if cs.contains a then insertAll cs rest
      else ((insertAll (cs ++ [a]) rest).1, a :: (insertAll (cs ++ [a]) rest).2) := rfl

theorem mem_insertAll_fst (cs : ClauseSet) (add : List Clause) (x : Clause) :
    x ∈ (insertAll cs add).1 ↔ x ∈ cs ∨ x ∈ add := by
  induction add generalizing cs with
  | nil => simp [insertAll_nil]
  | cons a rest ih =>
    rw [insertAll_cons]
    by_cases h : cs.contains a = true
    · rw [if_pos h, ih]
      have ha : a ∈ cs := List.contains_iff_mem.mp h
      constructor
      · rintro (h | h)
        · exact Or.inl h
        · exact Or.inr (List.mem_cons_of_mem _ h)
      · rintro (h | h)
        · exact Or.inl h
        · rcases List.mem_cons.mp h with rfl | h
          · exact Or.inl ha
          · exact Or.inr h
    · rw [if_neg h]
      show x ∈ (insertAll (cs ++ [a]) rest).1 ↔ _
      rw [ih]
      simp [or_assoc]

theorem insertAll_fst_nodup {cs : ClauseSet} (hnd : cs.Nodup) (add : List Clause) :
    (insertAll cs add).1.Nodup := by
  induction add generalizing cs with
  | nil => exact hnd
  | cons a rest ih =>
    rw [insertAll_cons]
    by_cases h : cs.contains a = true
    · rw [if_pos h]
      exact ih hnd
    · rw [if_neg h]
      have hna : a ∉ cs := fun hm => h (List.contains_iff_mem.mpr hm)
      apply ih
      rw [List.nodup_append]
      refine ⟨hnd, by simp, ?_⟩
      intro x hx y hy hxy
      rw [List.mem_singleton] at hy
      subst hy
      subst hxy
      exact hna hx

theorem mem_insertAll_snd (cs : ClauseSet) (add : List Clause) (x : Clause) :
    x ∈ (insertAll cs add).2 ↔ x ∈ add ∧ x ∉ cs := by
  induction add generalizing cs with
  | nil => simp [insertAll_nil]
  | cons a rest ih =>
    rw [insertAll_cons]
    by_cases h : cs.contains a = true
    · rw [if_pos h, ih]
      have ha : a ∈ cs := List.contains_iff_mem.mp h
      constructor
      · rintro ⟨h1, h2⟩
        exact ⟨List.mem_cons_of_mem _ h1, h2⟩
      · rintro ⟨h1, h2⟩
        rcases List.mem_cons.mp h1 with rfl | h1
        · exact absurd ha h2
        · exact ⟨h1, h2⟩
    · rw [if_neg h]
      have hna : a ∉ cs := fun hm => h (List.contains_iff_mem.mpr hm)
      show x ∈ a :: (insertAll (cs ++ [a]) rest).2 ↔ _
      rw [List.mem_cons, ih, List.mem_cons, List.mem_append, List.mem_singleton]
      constructor
      · rintro (rfl | ⟨h1, h2⟩)
        · exact ⟨Or.inl rfl, hna⟩
        · exact ⟨Or.inr h1, fun h => h2 (Or.inl h)⟩
      · rintro ⟨h1 | h1, h2⟩
        · exact Or.inl h1
        · by_cases hxa : x = a
          · exact Or.inl hxa
          · exact Or.inr ⟨h1, fun h => h.elim h2 hxa⟩

theorem insertAll_snd_nodup (cs : ClauseSet) (add : List Clause) : (insertAll cs add).2.Nodup := by
  induction add generalizing cs with
  | nil => simp [insertAll_nil]
  | cons a rest ih =>
    rw [insertAll_cons]
    by_cases h : cs.contains a = true
    · rw [if_pos h]
      exact ih cs
    · rw [if_neg h]
      show (a :: (insertAll (cs ++ [a]) rest).2).Nodup
      rw [List.nodup_cons]
      refine ⟨?_, ih _⟩
      rw [mem_insertAll_snd]
      rintro ⟨_, h2⟩
      exact h2 (by simp)

/-- the recorded insertions only depend on the clause set as a set -/
theorem insertAll_snd_congr {a b : ClauseSet} (hab : SameSet a b) (add : List Clause) :
    (insertAll a add).2 = (insertAll b add).2 := by
  induction add generalizing a b with
  | nil => rfl
  | cons x rest ih =>
    rw [insertAll_cons, insertAll_cons]
    by_cases h : a.contains x = true
    · have h' : b.contains x = true := List.contains_iff_mem.mpr ((hab x).mp (List.contains_iff_mem.mp h))
      rw [if_pos h, if_pos h']
      exact ih hab
    · have h' : ¬ b.contains x = true := fun hb =>
        h (List.contains_iff_mem.mpr ((hab x).mpr (List.contains_iff_mem.mp hb)))
      rw [if_neg h, if_neg h']
      show x :: (insertAll (a ++ [x]) rest).2 = x :: (insertAll (b ++ [x]) rest).2
      rw [ih (a := a ++ [x]) (b := b ++ [x])]
      intro y
      rw [List.mem_append, List.mem_append, hab y]

theorem insertAll_fst_congr {a b : ClauseSet} (hab : SameSet a b) (add : List Clause) :
    SameSet (insertAll a add).1 (insertAll b add).1 := by
  intro x
  rw [mem_insertAll_fst, mem_insertAll_fst, hab x]

/-! ### the literal checks -/

/-- some literal of some clause is beyond `n` -/
def big (L : List Clause) (n : Nat) : Bool := L.any fun cl => cl.any fun l => l.natAbs > n

def tConflict (cs : ClauseSet) : Option Nat → Bool
  | some t' => big cs t'
  | none => false

theorem big_eq_false_iff (L : List Clause) (n : Nat) :
    big L n = false ↔ ∀ cl ∈ L, ∀ l ∈ cl, l.natAbs ≤ n := by
  simp [big, List.any_eq_false, Nat.not_lt]

theorem big_congr {a b : ClauseSet} (hab : SameSet a b) (n : Nat) : big a n = big b n := by
  rw [Bool.eq_iff_iff]
  simp only [big, List.any_eq_true]
  constructor
  · rintro ⟨cl, hcl, h⟩
    exact ⟨cl, (hab cl).mp hcl, h⟩
  · rintro ⟨cl, hcl, h⟩
    exact ⟨cl, (hab cl).mpr hcl, h⟩

theorem tConflict_congr {a b : ClauseSet} (hab : SameSet a b) (t : Option Nat) :
    tConflict a t = tConflict b t := by
  cases t with
  | none => rfl
  | some t' => exact big_congr hab t'

theorem tConflict_eq_false_iff (cs : ClauseSet) (t : Option Nat) :
    tConflict cs t = false ↔ ∀ t', t = some t' → ∀ cl ∈ cs, ∀ l ∈ cl, l.natAbs ≤ t' := by
  cases t with
  | none => simp [tConflict]
  | some t0 =>
    show big cs t0 = false ↔ _
    rw [big_eq_false_iff]
    constructor
    · intro h t' ht'
      cases ht'
      exact h
    · intro h
      exact h t0 rfl

/-! ### the steps, case by case -/

/-- the cache after an effective `setup_for_edit` -/
def edited (c : Cache) (cs1 : ClauseSet) (add rmv : List Clause) (total : Nat) : Cache :=
  { c with clauses := (insertAll cs1 add).1, editAdd := (insertAll cs1 add).2, editRmv := rmv,
           oldTotal := c.total, total := total }

theorem setupForEdit_of_some {c : Cache} {rmv : List Clause} {cs1 : ClauseSet}
    (h : removeAll c.clauses rmv = some cs1) (add : List Clause) (total : Nat) :
    setupForEdit c add rmv total = some (edited c cs1 add rmv total) := by
  unfold setupForEdit
  rw [h]
  rfl

theorem setupForEdit_of_none {c : Cache} {rmv : List Clause}
    (h : removeAll c.clauses rmv = none) (add : List Clause) (total : Nat) :
    setupForEdit c add rmv total = none := by
  unfold setupForEdit
  rw [h]

theorem update_def (c : Cache) (t : Option Nat) (add rmv : List Clause) :
    update c t add rmv =
      if tConflict c.clauses t then (c, .conflict)
      else if big (add ++ rmv) (t.getD c.cur.2) then (c, .boundary)
      else match setupForEdit c add rmv (t.getD c.cur.2) with
        | none => (c, .rejected)
        | some c' => ({ c' with cur := (c'.clauses, t.getD c.cur.2), old := some c.cur }, .ok) := by
  cases t <;> rfl

theorem spec_update_def (s : Spec) (t : Option Nat) (add rmv : List Clause) :
    s.step (.update t add rmv) =
      if tConflict s.cur.1 t then (s, .conflict)
      else if big (add ++ rmv) (t.getD s.cur.2) then (s, .boundary)
      else match removeAll s.cur.1 rmv with
        | none => (s, .rejected)
        | some cs1 => ({ cur := ((insertAll cs1 add).1, t.getD s.cur.2), prev := some s.cur }, .ok) := by
  cases t <;> rfl

theorem spec_undo_some {s : Spec} {p : ClauseSet × Nat} (h : s.prev = some p) :
    s.step .undo = ({ cur := p, prev := some s.cur }, .ok) := by
  simp only [Spec.step, h]

theorem spec_undo_none {s : Spec} (h : s.prev = none) : s.step .undo = (s, .ok) := by
  simp only [Spec.step, h]

theorem undo_some {c : Cache} {cs1 : ClauseSet} {o : ClauseSet × Nat}
    (h : removeAll c.clauses c.editAdd = some cs1) (ho : c.old = some o) :
    undo c = ({ edited c cs1 c.editRmv c.editAdd c.oldTotal with cur := o, old := some c.cur }, .ok) := by
  simp only [undo, setupForEdit_of_some h, ho, Option.getD_some]

theorem undo_none {c : Cache} {cs1 : ClauseSet}
    (h : removeAll c.clauses c.editAdd = some cs1) (ho : c.old = none) :
    undo c = (edited c cs1 c.editRmv c.editAdd c.oldTotal, .ok) := by
  simp only [undo, setupForEdit_of_some h, ho, Option.getD_some]

/-! ### the invariant -/

structure Inv (c : Cache) (s : Spec) : Prop where
  agrees : Agrees c s
  ndC : c.clauses.Nodup
  ndS : s.cur.1.Nodup
  ndP : ∀ p, s.prev = some p → p.1.Nodup
  ndA : c.editAdd.Nodup
  ndR : c.editRmv.Nodup
  addSub : ∀ a ∈ c.editAdd, a ∈ c.clauses
  rmvSub : ∀ r ∈ c.editRmv, r ∈ c.clauses → r ∈ c.editAdd
  prevSome : ∀ p, s.prev = some p →
    (∀ x, x ∈ p.1 ↔ (x ∈ c.clauses ∧ x ∉ c.editAdd) ∨ x ∈ c.editRmv) ∧ p.2 = c.oldTotal
  prevNone : s.prev = none → c.editAdd = [] ∧ c.editRmv = [] ∧ c.oldTotal = c.total

theorem Agrees.old_of_prev_some {c : Cache} {s : Spec} (h : Agrees c s) {p : ClauseSet × Nat}
    (hp : s.prev = some p) : ∃ o, c.old = some o ∧ SameSet o.1 p.1 ∧ o.2 = p.2 := by
  obtain ⟨_, _, _, _, h5⟩ := h
  rw [hp] at h5
  cases ho : c.old with
  | none => rw [ho] at h5; exact h5.elim
  | some o => rw [ho] at h5; exact ⟨o, rfl, h5⟩

theorem Agrees.old_of_prev_none {c : Cache} {s : Spec} (h : Agrees c s) (hp : s.prev = none) :
    c.old = none := by
  obtain ⟨_, _, _, _, h5⟩ := h
  rw [hp] at h5
  cases ho : c.old with
  | none => rfl
  | some o => rw [ho] at h5; exact h5.elim

theorem init_inv (cs : ClauseSet) (n : Nat) (hnd : cs.Nodup) : Inv (init cs n) { cur := (cs, n) } where
  agrees := ⟨SameSet.refl _, rfl, SameSet.refl _, rfl, trivial⟩
  ndC := hnd
  ndS := hnd
  ndP := fun p hp => by cases hp
  ndA := List.nodup_nil
  ndR := List.nodup_nil
  addSub := fun a ha => by cases ha
  rmvSub := fun r hr => by cases hr
  prevSome := fun p hp => by cases hp
  prevNone := fun _ => ⟨rfl, rfl, rfl⟩

/-- an accepted update keeps the invariant -/
theorem inv_update_ok {c : Cache} {s : Spec} (h : Inv c s) {add rmv : List Clause}
    {cs1 cs1' : ClauseSet} (hc : removeAll c.clauses rmv = some cs1)
    (hs : removeAll s.cur.1 rmv = some cs1') (total : Nat) :
    Inv { edited c cs1 add rmv total with cur := ((edited c cs1 add rmv total).clauses, total),
                                           old := some c.cur }
        { cur := ((insertAll cs1' add).1, total), prev := some s.cur } := by
  obtain ⟨hcl, htot, hcur1, hcur2, _⟩ := h.agrees
  obtain ⟨hrnd, hrsub, hnd1, hm1⟩ := removeAll_some h.ndC hc
  obtain ⟨_, _, hnd1', _⟩ := removeAll_some h.ndS hs
  have h11 : SameSet cs1 cs1' := removeAll_some_congr h.ndC h.ndS hcl hc hs
  have hfst : SameSet (insertAll cs1 add).1 (insertAll cs1' add).1 := insertAll_fst_congr h11 add
  refine
    { agrees := ⟨hfst, rfl, hfst, rfl, hcur1, hcur2⟩
      ndC := insertAll_fst_nodup hnd1 add
      ndS := insertAll_fst_nodup hnd1' add
      ndP := ?_
      ndA := insertAll_snd_nodup cs1 add
      ndR := hrnd
      addSub := ?_
      rmvSub := ?_
      prevSome := ?_
      prevNone := fun hp => by cases hp }
  · intro p hp
    cases hp
    exact h.ndS
  · intro a ha
    show a ∈ (insertAll cs1 add).1
    have ha' : a ∈ (insertAll cs1 add).2 := ha
    rw [mem_insertAll_snd] at ha'
    rw [mem_insertAll_fst]
    exact Or.inr ha'.1
  · intro r hr hrc
    have hr' : r ∈ rmv := hr
    have hrc' : r ∈ (insertAll cs1 add).1 := hrc
    show r ∈ (insertAll cs1 add).2
    rw [mem_insertAll_fst] at hrc'
    rw [mem_insertAll_snd]
    have hn1 : r ∉ cs1 := fun hin => ((hm1 r).mp hin).2 hr'
    rcases hrc' with hin | hin
    · exact absurd hin hn1
    · exact ⟨hin, hn1⟩
  · intro p hp
    cases hp
    refine ⟨?_, htot.symm⟩
    intro x
    show x ∈ s.cur.1 ↔ (x ∈ (insertAll cs1 add).1 ∧ x ∉ (insertAll cs1 add).2) ∨ x ∈ rmv
    rw [← hcl x, mem_insertAll_fst, mem_insertAll_snd]
    constructor
    · intro hx
      by_cases hxr : x ∈ rmv
      · exact Or.inr hxr
      · have hx1 : x ∈ cs1 := (hm1 x).mpr ⟨hx, hxr⟩
        exact Or.inl ⟨Or.inl hx1, fun hh => hh.2 hx1⟩
    · rintro (⟨hx1 | hxa, hna⟩ | hxr)
      · exact ((hm1 x).mp hx1).1
      · by_cases hx1 : x ∈ cs1
        · exact ((hm1 x).mp hx1).1
        · exact absurd ⟨hxa, hx1⟩ hna
      · exact hrsub x hxr

/-- facts about the edit that `undo` replays -/
theorem undo_edit_facts {c : Cache} {s : Spec} (h : Inv c s) :
    ∃ cs1, removeAll c.clauses c.editAdd = some cs1 ∧
      (insertAll cs1 c.editRmv).1.Nodup ∧
      (∀ x, x ∈ (insertAll cs1 c.editRmv).1 ↔ (x ∈ c.clauses ∧ x ∉ c.editAdd) ∨ x ∈ c.editRmv) ∧
      (∀ x, x ∈ (insertAll cs1 c.editRmv).2 ↔ x ∈ c.editRmv) := by
  obtain ⟨cs1, hcs1⟩ := removeAll_exists h.ndC h.ndA h.addSub
  obtain ⟨_, _, hnd1, hm1⟩ := removeAll_some h.ndC hcs1
  refine ⟨cs1, hcs1, insertAll_fst_nodup hnd1 _, ?_, ?_⟩
  · intro x
    rw [mem_insertAll_fst, hm1 x]
  · intro x
    rw [mem_insertAll_snd, hm1 x]
    constructor
    · exact fun hh => hh.1
    · intro hx
      exact ⟨hx, fun hh => hh.2 (h.rmvSub x hx hh.1)⟩

/-- the second half of the invariant after `undo` (the recorded edit is now the inverse one) -/
theorem undo_bookkeeping {c : Cache} {s : Spec} (h : Inv c s) {cs1 : ClauseSet}
    (hm : ∀ x, x ∈ (insertAll cs1 c.editRmv).1 ↔ (x ∈ c.clauses ∧ x ∉ c.editAdd) ∨ x ∈ c.editRmv)
    (ha : ∀ x, x ∈ (insertAll cs1 c.editRmv).2 ↔ x ∈ c.editRmv) :
    (∀ a ∈ (insertAll cs1 c.editRmv).2, a ∈ (insertAll cs1 c.editRmv).1) ∧
    (∀ r ∈ c.editAdd, r ∈ (insertAll cs1 c.editRmv).1 → r ∈ (insertAll cs1 c.editRmv).2) ∧
    (∀ x, x ∈ c.clauses ↔
      (x ∈ (insertAll cs1 c.editRmv).1 ∧ x ∉ (insertAll cs1 c.editRmv).2) ∨ x ∈ c.editAdd) := by
  refine ⟨?_, ?_, ?_⟩
  · intro a haa
    rw [hm a]
    exact Or.inr ((ha a).mp haa)
  · intro r hr hrc
    rw [ha r]
    rcases (hm r).mp hrc with hh | hh
    · exact absurd hr hh.2
    · exact hh
  · intro x
    rw [hm x, ha x]
    constructor
    · intro hx
      by_cases hxa : x ∈ c.editAdd
      · exact Or.inr hxa
      · refine Or.inl ⟨Or.inl ⟨hx, hxa⟩, fun hxr => hxa (h.rmvSub x hxr hx)⟩
    · rintro (⟨hh | hh, hn⟩ | hxa)
      · exact hh.1
      · exact absurd hh hn
      · exact h.addSub x hxa

theorem update_inv {c : Cache} {s : Spec} (h : Inv c s) (t : Option Nat) (add rmv : List Clause) :
    (update c t add rmv).2 = (s.step (.update t add rmv)).2 ∧
      Inv (update c t add rmv).1 (s.step (.update t add rmv)).1 := by
  obtain ⟨hcl, _, _, hcur2, _⟩ := h.agrees
  rw [update_def, spec_update_def, tConflict_congr hcl, hcur2]
  by_cases h1 : tConflict s.cur.1 t = true
  · rw [if_pos h1, if_pos h1]
    exact ⟨rfl, h⟩
  rw [if_neg h1, if_neg h1]
  by_cases h2 : big (add ++ rmv) (t.getD s.cur.2) = true
  · rw [if_pos h2, if_pos h2]
    exact ⟨rfl, h⟩
  rw [if_neg h2, if_neg h2]
  cases hc : removeAll c.clauses rmv with
  | none =>
    rw [setupForEdit_of_none hc, (removeAll_none_congr h.ndC h.ndS hcl rmv).mp hc]
    exact ⟨rfl, h⟩
  | some cs1 =>
    cases hs : removeAll s.cur.1 rmv with
    | none =>
      rw [(removeAll_none_congr h.ndC h.ndS hcl rmv).mpr hs] at hc
      cases hc
    | some cs1' =>
      rw [setupForEdit_of_some hc]
      exact ⟨rfl, inv_update_ok h hc hs _⟩

theorem undo_inv {c : Cache} {s : Spec} (h : Inv c s) :
    (undo c).2 = (s.step .undo).2 ∧ Inv (undo c).1 (s.step .undo).1 := by
  obtain ⟨hcl, htot, hcur1, hcur2, _⟩ := h.agrees
  obtain ⟨cs1, hcs1, hnd2, hm2, ha2⟩ := undo_edit_facts h
  obtain ⟨hb1, hb2, hb3⟩ := undo_bookkeeping h hm2 ha2
  cases hp : s.prev with
  | some p =>
    obtain ⟨o, ho, ho1, ho2⟩ := h.agrees.old_of_prev_some hp
    obtain ⟨hp1, hp2⟩ := h.prevSome p hp
    rw [undo_some hcs1 ho, spec_undo_some hp]
    refine ⟨rfl, ?_⟩
    refine
      { agrees := ⟨?_, hp2.symm, ho1, ho2, hcur1, hcur2⟩
        ndC := hnd2
        ndS := h.ndP p hp
        ndP := ?_
        ndA := insertAll_snd_nodup cs1 _
        ndR := h.ndA
        addSub := hb1
        rmvSub := hb2
        prevSome := ?_
        prevNone := fun hp' => by cases hp' }
    · intro x
      show x ∈ (insertAll cs1 c.editRmv).1 ↔ x ∈ p.1
      rw [hm2 x, hp1 x]
    · intro q hq
      cases hq
      exact h.ndS
    · intro q hq
      cases hq
      refine ⟨?_, htot.symm⟩
      intro x
      show x ∈ s.cur.1 ↔ _
      rw [← hcl x]
      exact hb3 x
  | none =>
    have ho := h.agrees.old_of_prev_none hp
    obtain ⟨he1, he2, he3⟩ := h.prevNone hp
    rw [undo_none hcs1 ho, spec_undo_none hp]
    refine ⟨rfl, ?_⟩
    have hnil : (insertAll cs1 c.editRmv).2 = [] := by
      rw [List.eq_nil_iff_forall_not_mem]
      intro a haa
      rw [ha2 a, he2] at haa
      cases haa
    refine
      { agrees := ⟨?_, he3.trans htot, hcur1, hcur2, ?_⟩
        ndC := hnd2
        ndS := h.ndS
        ndP := fun q hq => by rw [hp] at hq; cases hq
        ndA := insertAll_snd_nodup cs1 _
        ndR := h.ndA
        addSub := hb1
        rmvSub := hb2
        prevSome := fun q hq => by rw [hp] at hq; cases hq
        prevNone := fun _ => ⟨hnil, he1, he3.symm⟩ }
    · intro x
      show x ∈ (insertAll cs1 c.editRmv).1 ↔ x ∈ s.cur.1
      rw [hm2 x, ← hcl x, he1, he2]
      simp
    · show (match c.old, s.prev with
        | some o, some p => SameSet o.1 p.1 ∧ o.2 = p.2
        | none, none => True
        | _, _ => False)
      rw [ho, hp]
      trivial

theorem step_inv {c : Cache} {s : Spec} (h : Inv c s) (cmd : Cmd) :
    (step c cmd).2 = (s.step cmd).2 ∧ Inv (step c cmd).1 (s.step cmd).1 := by
  cases cmd with
  | update t add rmv => exact update_inv h t add rmv
  | undo => exact undo_inv h

theorem run_cons (c : Cache) (cmd : Cmd) (rest : List Cmd) :
    run c (cmd :: rest) =
      ((run (step c cmd).1 rest).1, (step c cmd).2 :: (run (step c cmd).1 rest).2) := rfl

theorem spec_run_cons (s : Spec) (cmd : Cmd) (rest : List Cmd) :
    Spec.run s (cmd :: rest) =
      ((Spec.run (s.step cmd).1 rest).1, (s.step cmd).2 :: (Spec.run (s.step cmd).1 rest).2) := rfl

theorem run_inv {c : Cache} {s : Spec} (h : Inv c s) (cmds : List Cmd) :
    (run c cmds).2 = (Spec.run s cmds).2 ∧ Inv (run c cmds).1 (Spec.run s cmds).1 := by
  induction cmds generalizing c s with
  | nil => exact ⟨rfl, h⟩
  | cons cmd rest ih =>
    obtain ⟨hv, hi⟩ := step_inv h cmd
    obtain ⟨hvs, his⟩ := ih hi
    rw [run_cons, spec_run_cons]
    refine ⟨?_, his⟩
    show (step c cmd).2 :: (run (step c cmd).1 rest).2 = (s.step cmd).2 :: (Spec.run (s.step cmd).1 rest).2
    rw [hv, hvs]

/-! ### the interface of `Props/C12` -/

theorem run_refines (cs : ClauseSet) (n : Nat) (hnd : cs.Nodup) (cmds : List Cmd) :
    (run (init cs n) cmds).2 = (Spec.run { cur := (cs, n) } cmds).2 ∧
      Agrees (run (init cs n) cmds).1 (Spec.run { cur := (cs, n) } cmds).1 :=
  ⟨(run_inv (init_inv cs n hnd) cmds).1, (run_inv (init_inv cs n hnd) cmds).2.agrees⟩

theorem spec_update_accepted_iff (s : Spec) (hnd : s.cur.1.Nodup) (t : Option Nat)
    (add rmv : List Clause) :
    (s.step (.update t add rmv)).2 = .ok ↔
      ((∀ t', t = some t' → ∀ cl ∈ s.cur.1, ∀ l ∈ cl, l.natAbs ≤ t') ∧
       (∀ cl ∈ add ++ rmv, ∀ l ∈ cl, l.natAbs ≤ t.getD s.cur.2) ∧
       rmv.Nodup ∧ ∀ r ∈ rmv, r ∈ s.cur.1) := by
  rw [spec_update_def, ← tConflict_eq_false_iff, ← big_eq_false_iff]
  by_cases h1 : tConflict s.cur.1 t = true
  · rw [if_pos h1]
    constructor
    · intro h
      cases h
    · rintro ⟨h, _⟩
      rw [h] at h1
      cases h1
  rw [if_neg h1]
  by_cases h2 : big (add ++ rmv) (t.getD s.cur.2) = true
  · rw [if_pos h2]
    constructor
    · intro h
      cases h
    · rintro ⟨_, h, _⟩
      rw [h] at h2
      cases h2
  rw [if_neg h2]
  have h1' : tConflict s.cur.1 t = false := by simpa using h1
  have h2' : big (add ++ rmv) (t.getD s.cur.2) = false := by simpa using h2
  cases hs : removeAll s.cur.1 rmv with
  | none =>
    constructor
    · intro h
      cases h
    · rintro ⟨_, _, h3, h4⟩
      exact absurd ⟨h3, h4⟩ ((removeAll_eq_none_iff hnd).mp hs)
  | some cs1 =>
    constructor
    · intro _
      exact ⟨h1', h2', (removeAll_some hnd hs).1, (removeAll_some hnd hs).2.1⟩
    · intro _
      rfl

theorem spec_update_result (s : Spec) (hnd : s.cur.1.Nodup) (t : Option Nat) (add rmv : List Clause)
    (h : (s.step (.update t add rmv)).2 = .ok) :
    (∀ x, x ∈ (s.step (.update t add rmv)).1.cur.1 ↔ (x ∈ s.cur.1 ∧ x ∉ rmv) ∨ x ∈ add) ∧
      (s.step (.update t add rmv)).1.cur.2 = t.getD s.cur.2 ∧
      (s.step (.update t add rmv)).1.prev = some s.cur := by
  rw [spec_update_def] at h ⊢
  by_cases h1 : tConflict s.cur.1 t = true
  · rw [if_pos h1] at h
    cases h
  rw [if_neg h1] at h ⊢
  by_cases h2 : big (add ++ rmv) (t.getD s.cur.2) = true
  · rw [if_pos h2] at h
    cases h
  rw [if_neg h2] at h ⊢
  cases hs : removeAll s.cur.1 rmv with
  | none =>
    rw [hs] at h
    cases h
  | some cs1 =>
    refine ⟨?_, rfl, rfl⟩
    intro x
    show x ∈ (insertAll cs1 add).1 ↔ _
    rw [mem_insertAll_fst, (removeAll_some hnd hs).2.2.2 x]

theorem update_rejected_unchanged (c : Cache) (t : Option Nat) (add rmv : List Clause)
    (h : (update c t add rmv).2 ≠ .ok) : (update c t add rmv).1 = c := by
  rw [update_def] at h ⊢
  by_cases h1 : tConflict c.clauses t = true
  · rw [if_pos h1]
  rw [if_neg h1] at h ⊢
  by_cases h2 : big (add ++ rmv) (t.getD c.cur.2) = true
  · rw [if_pos h2]
  rw [if_neg h2] at h ⊢
  cases hs : setupForEdit c add rmv (t.getD c.cur.2) with
  | none => rfl
  | some c' =>
    rw [hs] at h
    exact absurd rfl h

theorem spec_undo_redo (s : Spec) (t : Option Nat) (add rmv : List Clause)
    (h : (s.step (.update t add rmv)).2 = .ok) :
    let s1 := (s.step (.update t add rmv)).1
    ((s1.step .undo).1.cur = s.cur) ∧ (((s1.step .undo).1.step .undo).1.cur = s1.cur) := by
  intro s1
  have hprev : s1.prev = some s.cur := by
    show (s.step (.update t add rmv)).1.prev = some s.cur
    rw [spec_update_def] at h ⊢
    by_cases h1 : tConflict s.cur.1 t = true
    · rw [if_pos h1] at h
      cases h
    rw [if_neg h1] at h ⊢
    by_cases h2 : big (add ++ rmv) (t.getD s.cur.2) = true
    · rw [if_pos h2] at h
      cases h
    rw [if_neg h2] at h ⊢
    cases hs : removeAll s.cur.1 rmv with
    | none =>
      rw [hs] at h
      cases h
    | some cs1 => rfl
  rw [spec_undo_some hprev]
  refine ⟨rfl, ?_⟩
  rw [spec_undo_some (p := s1.cur) rfl]

theorem saved_is_current (cs : ClauseSet) (n : Nat) (hnd : cs.Nodup) (cmds : List Cmd) :
    let c := (run (init cs n) cmds).1
    let s := (Spec.run { cur := (cs, n) } cmds).1
    (saved c).1 = s.cur.2 ∧ (∀ x, x ∈ (saved c).2 ↔ x ∈ s.cur.1) ∧ (saved c).2.Nodup := by
  intro c s
  have hinv : Inv c s := (run_inv (init_inv cs n hnd) cmds).2
  obtain ⟨hcl, _, _, hcur2, _⟩ := hinv.agrees
  refine ⟨hcur2, ?_, ?_⟩
  · intro x
    show x ∈ sortBy' lexLt c.clauses ↔ _
    rw [mem_sortBy', hcl x]
  · show (sortBy' lexLt c.clauses).Nodup
    exact (sortBy'_perm lexLt c.clauses).nodup_iff.mpr hinv.ndC

theorem live_model_correct {M D : Type} (compile : ClauseSet × Nat → M) (den : M → D)
    (cnfDen : ClauseSet × Nat → D)
    (hcorrect : ∀ cnf, den (compile cnf) = cnfDen cnf)
    (hset : ∀ a b : ClauseSet, (∀ x, x ∈ a ↔ x ∈ b) → ∀ n, cnfDen (a, n) = cnfDen (b, n))
    (cs : ClauseSet) (n : Nat) (hnd : cs.Nodup) (cmds : List Cmd) :
    den (compile (run (init cs n) cmds).1.cur) = cnfDen (Spec.run { cur := (cs, n) } cmds).1.cur := by
  obtain ⟨_, _, hcur1, hcur2, _⟩ := (run_refines cs n hnd cmds).2
  rw [hcorrect]
  have e1 : (run (init cs n) cmds).1.cur = ((run (init cs n) cmds).1.cur.1, (run (init cs n) cmds).1.cur.2) := rfl
  have e2 : (Spec.run { cur := (cs, n) } cmds).1.cur =
      ((Spec.run { cur := (cs, n) } cmds).1.cur.1, (Spec.run { cur := (cs, n) } cmds).1.cur.2) := rfl
  rw [e1, e2, hcur2]
  exact hset _ _ hcur1 _

/-! ### non-vacuity -/

/-- the history that went wrong before the repair: adding a stored clause and undoing keeps it -/
example : (run (init [[1], [2]] 2) [.update none [[1]] [], .undo]).1.clauses = [[1], [2]] := by decide

example : SameSet (run (init [[1], [2]] 2) [.update none [[1]] [], .undo]).1.clauses [[1], [2]] := by
  have e : (run (init [[1], [2]] 2) [.update none [[1]] [], .undo]).1.clauses = [[1], [2]] := by decide
  rw [e]
  exact SameSet.refl _

example : (run (init [[1], [2]] 2) [.update none [[1]] [], .undo]).2 = [.ok, .ok] := by decide

/-- an update that removes a clause which is not stored is rejected -/
example : (update (init [[1], [2]] 3) none [] [[3]]).2 = .rejected := by decide

example : (run (init [[1], [2]] 3) [.update none [] [[3]]]).2 = [.rejected] := by decide

/-- an accepted update followed by undo and redo -/
example : (run (init [[1], [2]] 3) [.update none [[3]] [[1]], .undo, .undo]).1.clauses = [[2], [3]] := by
  decide

end Ddnnf.CC
