import DdnnfVerif.Proofs.Enum
import DdnnfVerif.Proofs.WFCheck
namespace Ddnnf

theorem noTruUnderOrB_sound (nodes : List NType) (h : noTruUnderOrB nodes = true) : NoTruUnderOr nodes := by
  intro i hi cs hnode c hc hlt htru
  unfold noTruUnderOrB at h
  rw [List.all_eq_true] at h
  have := h nodes[i] (List.getElem_mem hi)
  rw [hnode] at this
  simp only [List.all_eq_true] at this
  have h2 := this c hc
  rw [List.getD_eq_getElem?_getD, List.getElem?_eq_getElem hlt] at h2
  simp [htru] at h2

theorem enumOkB_sound (nodes : List NType) (h : enumOkB nodes = true) :
    Topo nodes ∧ NoTruUnderOr nodes ∧ nodes.getLast? ≠ some .tru ∧ nodes ≠ [] := by
  unfold enumOkB at h
  simp only [Bool.and_eq_true, bne_iff_ne, ne_eq, Bool.not_eq_true', List.isEmpty_eq_false_iff] at h
  obtain ⟨⟨⟨h1, h2⟩, h3⟩, h4⟩ := h
  exact ⟨topoB_sound nodes h1, noTruUnderOrB_sound nodes h2, h3, h4⟩

end Ddnnf
