/-
  The c2d combinators on canonical (writer-produced) character streams.
-/
import DdnnfVerif.Proofs.Lex0
namespace Ddnnf.Lex

/-- `rest` does not begin with a digit -/
def NoDigitHead (rest : List Char) : Prop := ∀ c r, rest = c :: r → c.isDigit = false

theorem noDigitHead_nil : NoDigitHead [] := by intro c r h; cases h

theorem noDigitHead_cons {c : Char} {r : List Char} (h : c.isDigit = false) : NoDigitHead (c :: r) := by
  intro c' r' e; cases e; exact h

theorem takeWhile_noDigitHead {rest : List Char} (h : NoDigitHead rest) :
    rest.takeWhile Char.isDigit = [] ∧ rest.dropWhile Char.isDigit = rest := by
  cases rest with
  | nil => simp
  | cons c r => have := h c r rfl; simp [List.takeWhile, List.dropWhile, this]

theorem digit1_append {ds rest : List Char} (hne : ds ≠ []) (hd : ∀ c ∈ ds, c.isDigit = true)
    (hr : NoDigitHead rest) : digit1 (ds ++ rest) = some (ds, rest) := by
  obtain ⟨h1, h2⟩ := takeWhile_noDigitHead hr
  unfold digit1
  rw [List.takeWhile_append_of_pos hd, List.dropWhile_append_of_pos hd, h1, h2]
  simp [hne]

theorem digit1_renderNat (k : Nat) {rest : List Char} (hr : NoDigitHead rest) :
    digit1 (renderNat k ++ rest) = some (renderNat k, rest) :=
  digit1_append (renderNat_ne_nil k) (renderNat_digits k) hr

theorem digit1_renderNat_nil (k : Nat) : digit1 (renderNat k) = some (renderNat k, []) := by
  have := digit1_renderNat k noDigitHead_nil
  simpa using this

theorem digit1_noDigitHead {cs : List Char} (h : NoDigitHead cs) : digit1 cs = none := by
  unfold digit1; simp [(takeWhile_noDigitHead h).1]

/-- the rendering of a list of numbers, each preceded by a blank -/
def spaced (ks : List Nat) : List Char := ks.flatMap fun k => ' ' :: renderNat k

theorem spaced_nil : spaced [] = [] := rfl
theorem spaced_cons (k : Nat) (ks : List Nat) : spaced (k :: ks) = ' ' :: (renderNat k ++ spaced ks) := by
  simp [spaced]

theorem noDigitHead_spaced (ks : List Nat) : NoDigitHead (spaced ks) := by
  cases ks with
  | nil => exact noDigitHead_nil
  | cons k ks => rw [spaced_cons]; exact noDigitHead_cons (by decide)

theorem length_le_spaced (ks : List Nat) : ks.length ≤ (spaced ks).length := by
  induction ks with
  | nil => simp
  | cons k ks ih => rw [spaced_cons]; simp; omega

theorem spaceNums_spaced (ks : List Nat) (fuel : Nat) (h : ks.length ≤ fuel) :
    spaceNums fuel (spaced ks) = ks.map renderNat := by
  induction ks generalizing fuel with
  | nil => cases fuel <;> simp [spaceNums, spaced_nil]
  | cons k ks ih =>
    cases fuel with
    | zero => simp at h
    | succ fuel =>
      rw [spaced_cons]
      show (match digit1 (renderNat k ++ spaced ks) with
        | some (ds, rest') => ds :: spaceNums fuel rest'
        | none => []) = _
      rw [digit1_renderNat k (noDigitHead_spaced ks)]
      simp [ih fuel (by simpa using h)]

theorem parseUsize_renderNat {k : Nat} (h : k < 2 ^ 64) : parseUsize (renderNat k) = some k := by
  simp [parseUsize, natOf_renderNat, h]

theorem mapM_parseUsize (ks : List Nat) (h : ∀ k ∈ ks, k < 2 ^ 64) :
    (ks.map renderNat).mapM parseUsize = some ks := by
  induction ks with
  | nil => rfl
  | cons k ks ih =>
    have hk := parseUsize_renderNat (h k (by simp))
    have := ih fun x hx => h x (by simp [hx])
    simp [List.mapM_cons, hk, this]

theorem numbersAfter_spaced (k : Nat) (ks : List Nat) (h : ∀ x ∈ k :: ks, x < 2 ^ 64) :
    numbersAfter (spaced (k :: ks)) = .ok (k :: ks) := by
  have hm := mapM_parseUsize _ h
  unfold numbersAfter
  rw [spaceNums_spaced _ _ (length_le_spaced _)]
  rw [List.map_cons] at hm ⊢
  simp only [hm]

/-! ### the alternatives on node lines -/

theorem lexHeader_fail (c : Char) (cs : List Char) (h : c ≠ 'n') : lexHeader (c :: cs) = .fail := by
  have : stripPrefix "nnf".toList (c :: cs) = none := by
    simp [stripPrefix, List.isPrefixOf, Ne.symm h]
  unfold lexHeader; rw [this]

theorem lexAnd_fail (c : Char) (cs : List Char) (h : c ≠ 'A') : lexAnd (c :: cs) = .fail := by
  unfold lexAnd; split
  · next e => cases e; exact absurd rfl h
  · rfl

theorem lexOr_fail (c : Char) (cs : List Char) (h : c ≠ 'O') : lexOr (c :: cs) = .fail := by
  unfold lexOr; split
  · next e => cases e; exact absurd rfl h
  · rfl

theorem parseI32_nonneg {l : Int} (h0 : 0 ≤ l) (h : l < 2 ^ 31) :
    parseI32 false (renderNat l.toNat) = some l := by
  have : l.toNat < 2 ^ 31 := by omega
  simp [parseI32, natOf_renderNat, this]; omega

theorem parseI32_neg {l : Int} (h0 : l < 0) (h : -(2 ^ 31 : Int) ≤ l) :
    parseI32 true (renderNat (-l).toNat) = some l := by
  have : (-l).toNat ≤ 2 ^ 31 := by omega
  simp [parseI32, natOf_renderNat, this]; omega

theorem lexLit_render (l : Int) (h : -(2 ^ 31 : Int) ≤ l ∧ l < 2 ^ 31) :
    lexLit ('L' :: ' ' :: renderInt l) = .ok (.node (.lit l)) := by
  have hs : stripPrefix "L ".toList ('L' :: ' ' :: renderInt l) = some (renderInt l) := by
    simp [stripPrefix, List.isPrefixOf]
  unfold lexLit
  rw [hs]
  by_cases h0 : 0 ≤ l
  · rw [renderInt_nonneg h0]
    simp only [digit1_renderNat_nil, parseI32_nonneg h0 h.2]
  · have h0' : l < 0 := by omega
    rw [renderInt_neg h0']
    have : digit1 ('-' :: renderNat (-l).toNat) = none := digit1_noDigitHead (noDigitHead_cons (by decide))
    simp only [this, digit1_renderNat_nil, parseI32_neg h0' h.1]

end Ddnnf.Lex
