/-
  The keystone: for a well-formed circuit the computed count of the root equals the number of
  satisfying assignments over the features `1..n`.
-/
import DdnnfVerif.Proofs.Semantics

namespace Ddnnf

/-! ### every listed model mentions exactly the variables of its node -/

theorem prodConfigs_vars (cs : List Nat) (m : Nat → List Config) (v : Nat → List Nat)
    (h : ∀ x ∈ cs, ∀ c ∈ m x, (c.map Int.natAbs).Perm (v x)) :
    ∀ c ∈ prodConfigs (cs.map m), (c.map Int.natAbs).Perm ((cs.map v).flatten) := by
  induction cs with
  | nil => intro c hc; simp [prodConfigs] at hc; subst hc; simp
  | cons x cs ih =>
    intro c hc
    rw [List.map_cons, mem_prodConfigs_cons] at hc
    obtain ⟨tl, htl, hd, hhd, rfl⟩ := hc
    rw [List.map_append, List.map_cons, List.flatten_cons]
    refine List.Perm.trans List.perm_append_comm ?_
    exact List.Perm.append (h x (List.mem_cons_self ..) hd hhd)
      (ih (fun y hy => h y (List.mem_cons_of_mem _ hy)) tl htl)

/-- every listed model of a node mentions exactly the variables of that node
(decomposability is not needed for this) -/
theorem models_vars' (nodes : List NType) (htopo : Topo nodes) (hsm : Smooth nodes) (i : Nat) :
    ∀ c ∈ models nodes i, (c.map Int.natAbs).Perm (vars nodes i) := by
  induction i using Nat.strongRecOn with
  | _ i ih =>
    by_cases h : i < nodes.length
    · have hm : models nodes i
          = fModels nodes[i] (fun j => if j < i then models nodes j else []) :=
        val_eq [] fModels nodes i h
      have hv : vars nodes i
          = fVars (count nodes) nodes[i] (fun j => if j < i then vars nodes j else []) :=
        val_eq [] (fVars (count nodes)) nodes i h
      have hlt : ∀ x ∈ children nodes[i], x < i := htopo i h
      cases hnd : nodes[i] with
      | and cs =>
        rw [hnd] at hm hv hlt
        rw [hm, hv]
        show ∀ c ∈ prodConfigs (cs.map _), (c.map Int.natAbs).Perm ((cs.map _).flatten)
        apply prodConfigs_vars
        intro x hx c hc
        have hxi : x < i := hlt x hx
        simp only [hxi, if_true] at hc ⊢
        exact ih x hxi c hc
      | or cs =>
        rw [hnd] at hm hlt
        intro c hc
        rw [hm] at hc
        change c ∈ (cs.map _).flatten at hc
        rw [List.mem_flatten] at hc
        obtain ⟨L, hL, hcL⟩ := hc
        rw [List.mem_map] at hL
        obtain ⟨x, hx, rfl⟩ := hL
        have hxi : x < i := hlt x hx
        simp only [hxi, if_true] at hcL
        have hcnt : count nodes x ≠ 0 := by
          rw [count_eq_length_models]
          intro h0
          rw [List.length_eq_zero_iff] at h0
          rw [h0] at hcL
          cases hcL
        exact (ih x hxi c hcL).trans (hsm i h cs hnd x hx hcnt)
      | lit l =>
        rw [hnd] at hm hv
        rw [hm, hv]
        intro c hc
        change c ∈ [[l]] at hc
        rw [List.mem_singleton] at hc
        subst hc
        exact List.Perm.refl _
      | tru =>
        rw [hnd] at hm hv
        rw [hm, hv]
        intro c hc
        change c ∈ [[]] at hc
        rw [List.mem_singleton] at hc
        subst hc
        exact List.Perm.refl _
      | fls =>
        rw [hnd] at hm
        rw [hm]
        intro c hc
        cases hc
    · have h1 : models nodes i = [] := val_of_ge _ _ _ _ (by omega)
      rw [h1]
      intro c hc
      cases hc

/-- every listed model of a node mentions exactly the variables of that node -/
theorem models_vars (nodes : List NType) (htopo : Topo nodes) (_hdec : Decomposable nodes)
    (hsm : Smooth nodes) (i : Nat) :
    ∀ c ∈ models nodes i, (c.map Int.natAbs).Perm (vars nodes i) :=
  models_vars' nodes htopo hsm i

/-! ### literals in listed models are non-zero -/

theorem prodConfigs_forall (Q : Int → Prop) (ls : List (List Config))
    (h : ∀ L ∈ ls, ∀ c ∈ L, ∀ l ∈ c, Q l) : ∀ c ∈ prodConfigs ls, ∀ l ∈ c, Q l := by
  induction ls with
  | nil => intro c hc l hl; simp [prodConfigs] at hc; subst hc; cases hl
  | cons L ls ih =>
    intro c hc l hl
    rw [mem_prodConfigs_cons] at hc
    obtain ⟨tl, htl, hd, hhd, rfl⟩ := hc
    rw [List.mem_append] at hl
    cases hl with
    | inl hl => exact ih (fun L' hL' => h L' (List.mem_cons_of_mem _ hL')) tl htl l hl
    | inr hl => exact h L (List.mem_cons_self ..) hd hhd l hl

theorem models_lit_nonzero (nodes : List NType) (hnz : LitNonzero nodes) (i : Nat) :
    ∀ c ∈ models nodes i, ∀ l ∈ c, l ≠ 0 := by
  unfold models
  apply table_inv_mem (fun ms : List Config => ∀ c ∈ ms, ∀ l ∈ c, l ≠ 0) [] fModels
    (by intro c hc; cases hc) nodes
  intro nd hnd g hg
  cases nd with
  | and cs =>
    show ∀ c ∈ prodConfigs (cs.map g), ∀ l ∈ c, l ≠ 0
    apply prodConfigs_forall
    intro L hL
    rw [List.mem_map] at hL
    obtain ⟨x, _, rfl⟩ := hL
    exact hg x
  | or cs =>
    show ∀ c ∈ (cs.map g).flatten, ∀ l ∈ c, l ≠ 0
    intro c hc
    rw [List.mem_flatten] at hc
    obtain ⟨L, hL, hcL⟩ := hc
    rw [List.mem_map] at hL
    obtain ⟨x, _, rfl⟩ := hL
    exact hg x c hcL
  | lit l =>
    show ∀ c ∈ [[l]], ∀ l' ∈ c, l' ≠ 0
    intro c hc l' hl'
    rw [List.mem_singleton] at hc
    subst hc
    rw [List.mem_singleton] at hl'
    subst hl'
    obtain ⟨k, hk, hke⟩ := List.getElem_of_mem hnd
    exact hnz k hk l' hke
  | tru =>
    show ∀ c ∈ [[]], ∀ l' ∈ c, l' ≠ 0
    intro c hc l' hl'
    rw [List.mem_singleton] at hc
    subst hc
    cases hl'
  | fls =>
    show ∀ c ∈ ([] : List Config), ∀ l' ∈ c, l' ≠ 0
    intro c hc
    cases hc

/-! ### bit vectors and assignments -/

theorem length_of_mem_allBits (n : Nat) : ∀ b ∈ allBits n, b.length = n := by
  induction n with
  | zero => intro b hb; simp [allBits] at hb; subst hb; rfl
  | succ n ih =>
    intro b hb
    simp only [allBits, List.mem_flatMap, List.mem_cons, List.not_mem_nil, or_false] at hb
    obtain ⟨b', hb', rfl | rfl⟩ := hb <;> simp [ih b' hb']

theorem assignOf_snoc_le (b : List Bool) (x : Bool) (v : Nat) (hv : v ≤ b.length) :
    assignOf (b ++ [x]) v = assignOf b v := by
  unfold assignOf
  by_cases h0 : v ≥ 1
  · have : v - 1 < b.length := by omega
    simp [List.getD_eq_getElem?_getD, List.getElem?_append_left this]
  · have : v = 0 := by omega
    subst this; simp

theorem assignOf_snoc_last (b : List Bool) (x : Bool) :
    assignOf (b ++ [x]) (b.length + 1) = x := by
  unfold assignOf
  simp [List.getD_eq_getElem?_getD]

theorem litTrue_congr (σ τ : Assignment) (l : Int) (h : σ l.natAbs = τ l.natAbs) :
    litTrue σ l = litTrue τ l := by
  simp [litTrue, h]

theorem satCfg_congr (σ τ : Assignment) (c : Config) (h : ∀ l ∈ c, σ l.natAbs = τ l.natAbs) :
    satCfg σ c = satCfg τ c := by
  induction c with
  | nil => rfl
  | cons l c ih =>
    have h1 := litTrue_congr σ τ l (h l (List.mem_cons_self ..))
    have h2 := ih (fun l' hl' => h l' (List.mem_cons_of_mem _ hl'))
    simp only [satCfg, List.all_cons] at h2 ⊢
    rw [h1, h2]

theorem countP_eq_sum_ite {α} (p : α → Bool) (xs : List α) :
    xs.countP p = (xs.map (fun x => if p x then 1 else 0)).sum := by
  induction xs with
  | nil => rfl
  | cons x xs ih =>
    simp only [List.countP_cons, List.map_cons, List.sum_cons, ih]
    by_cases h : p x = true <;> simp [h] <;> omega

/-- a configuration over exactly the features `1..n` with non-zero literals is satisfied by
exactly one bit vector of length `n` -/
theorem countP_allBits_one (n : Nat) (c : Config)
    (hp : (c.map Int.natAbs).Perm ((List.range n).map (· + 1))) (hnz : ∀ l ∈ c, l ≠ 0) :
    (allBits n).countP (fun b => satCfg (assignOf b) c) = 1 := by
  induction n generalizing c with
  | zero =>
    have : c = [] := by simpa using hp.length_eq
    subst this
    simp [allBits]
  | succ n ih =>
    -- the literal of feature `n+1`
    have hmem : n + 1 ∈ c.map Int.natAbs := by
      rw [hp.mem_iff]; simp [List.mem_map, List.mem_range]
    rw [List.mem_map] at hmem
    obtain ⟨l, hl, hln⟩ := hmem
    have hperm : c.Perm (l :: c.erase l) := List.perm_cons_erase hl
    have hp' : ((c.erase l).map Int.natAbs).Perm ((List.range n).map (· + 1)) := by
      have h1 : ((n + 1) :: (c.erase l).map Int.natAbs).Perm
          ((List.range (n + 1)).map (· + 1)) := by
        have := (hperm.map Int.natAbs).symm.trans hp
        rwa [List.map_cons, hln] at this
      rw [List.range_succ, List.map_append, List.map_cons, List.map_nil] at h1
      exact (h1.trans List.perm_append_comm).cons_inv
    have hnz' : ∀ l' ∈ c.erase l, l' ≠ 0 := fun l' hl' => hnz l' (List.mem_of_mem_erase hl')
    have hle : ∀ l' ∈ c.erase l, l'.natAbs ≤ n := by
      intro l' hl'
      have : l'.natAbs ∈ (List.range n).map (· + 1) :=
        hp'.mem_iff.mp (List.mem_map.mpr ⟨l', hl', rfl⟩)
      rw [List.mem_map] at this
      obtain ⟨k, hk, hke⟩ := this
      rw [List.mem_range] at hk
      omega
    have hl0 : l ≠ 0 := hnz l hl
    -- satisfaction by an extended bit vector
    have hsnoc : ∀ b ∈ allBits n, ∀ x : Bool,
        satCfg (assignOf (b ++ [x])) c
          = ((if l > 0 then x else !x) && satCfg (assignOf b) (c.erase l)) := by
      intro b hb x
      have hbl : b.length = n := length_of_mem_allBits n b hb
      have e1 : satCfg (assignOf (b ++ [x])) c = satCfg (assignOf (b ++ [x])) (l :: c.erase l) :=
        hperm.all_eq
      have e2 : satCfg (assignOf (b ++ [x])) (c.erase l) = satCfg (assignOf b) (c.erase l) := by
        apply satCfg_congr
        intro l' hl'
        exact assignOf_snoc_le b x _ (by rw [hbl]; exact hle l' hl')
      have e3 : litTrue (assignOf (b ++ [x])) l = (if l > 0 then x else !x) := by
        have : assignOf (b ++ [x]) l.natAbs = x := by
          rw [hln, ← hbl]; exact assignOf_snoc_last b x
        unfold litTrue
        rw [this]
        by_cases hpos : l > 0
        · simp [hpos]
        · have : l < 0 := by omega
          simp [hpos, this]
      rw [e1]
      show (litTrue _ l && satCfg _ (c.erase l)) = _
      rw [e2, e3]
    have hstep : ∀ b ∈ allBits n,
        (List.countP (fun b => satCfg (assignOf b) c) ∘ fun b => [b ++ [false], b ++ [true]]) b
          = (fun b => if satCfg (assignOf b) (c.erase l) then 1 else 0) b := by
      intro b hb
      simp only [Function.comp, List.countP_cons, List.countP_nil, hsnoc b hb]
      by_cases hpos : l > 0 <;> by_cases hs : satCfg (assignOf b) (c.erase l) = true <;>
        simp [hpos, hs]
    show (List.flatMap _ (allBits n)).countP _ = 1
    rw [List.countP_flatMap, List.map_congr_left hstep, ← countP_eq_sum_ite]
    exact ih (c.erase l) hp' hnz'

/-! ### double counting -/

theorem sum_map_zero {α} (xs : List α) : (xs.map (fun _ => 0)).sum = 0 := by
  induction xs with
  | nil => rfl
  | cons x xs ih => simp [ih]

theorem sum_map_add' {α} (xs : List α) (f g : α → Nat) :
    (xs.map (fun x => f x + g x)).sum = (xs.map f).sum + (xs.map g).sum := by
  induction xs with
  | nil => rfl
  | cons x xs ih => simp only [List.map_cons, List.sum_cons, ih]; omega

theorem sum_countP_comm {α β} (p : α → β → Bool) (xs : List α) (ys : List β) :
    (xs.map (fun x => ys.countP (p x))).sum
      = (ys.map (fun y => xs.countP (fun x => p x y))).sum := by
  induction xs with
  | nil => simp [sum_map_zero]
  | cons x xs ih =>
    simp only [List.map_cons, List.sum_cons, ih, List.countP_cons]
    rw [countP_eq_sum_ite, ← sum_map_add']
    congr 1
    apply List.map_congr_left
    intro y _
    omega

theorem sum_map_one {α} (xs : List α) : (xs.map (fun _ => 1)).sum = xs.length := by
  induction xs with
  | nil => rfl
  | cons x xs ih => simp [ih]; omega

/-! ### the keystone -/

theorem count_eq_specCount (nodes : List NType) (n : Nat) (h : WF nodes n) :
    count nodes (rootIx nodes) = specCount nodes n [] := by
  have hspec : specCount nodes n []
      = (allBits n).countP (fun b => eval (assignOf b) nodes (rootIx nodes)) := by
    unfold specCount
    rw [List.countP_eq_length_filter]
    congr 2
    funext b
    simp
  have hone : ∀ c ∈ models nodes (rootIx nodes),
      (allBits n).countP (fun b => satCfg (assignOf b) c) = 1 := by
    intro c hc
    apply countP_allBits_one
    · exact (models_vars' nodes h.topo h.smooth _ c hc).trans h.rootComplete
    · exact models_lit_nonzero nodes h.litnz _ c hc
  rw [hspec, countP_eq_sum_ite]
  have e1 : (allBits n).map (fun b => if eval (assignOf b) nodes (rootIx nodes) then 1 else 0)
      = (allBits n).map
          (fun b => (models nodes (rootIx nodes)).countP (fun c => satCfg (assignOf b) c)) := by
    apply List.map_congr_left
    intro b _
    exact (countP_models nodes h.deterministic (assignOf b) (rootIx nodes)).symm
  rw [e1, sum_countP_comm (fun b c => satCfg (assignOf b) c), List.map_congr_left hone,
    sum_map_one, count_eq_length_models]

end Ddnnf
