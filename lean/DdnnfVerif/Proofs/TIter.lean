/-
  The state machine of `t_iterator.rs` (`Model/TIter.lean`) enumerates exactly the list the t-wise model
  uses (`TW.tIter`).  The work is in `TIterAux1` (one `advance` = the pure successor `nextAux`) and
  `TIterAux2` (the target list is a chain of successors).
-/
import DdnnfVerif.Model.TIter
import DdnnfVerif.Proofs.TIterAux2
namespace Ddnnf.TI

/-- `TIndicesIter::new(n, t)` yields the `t`-subsets of `0..n` in lexicographic order of their ascending
listing, each listed from the largest index down, and then stops -/
theorem indices_eq (n t : Nat) (h : t ≤ n) :
    indices n t = (TW.combos t (List.range n)).map List.reverse := by
  obtain ⟨tl, e, seg⟩ := combos_seg n n t 0 (by simp) h []
  rw [← List.range_eq_range'] at e
  have hlen : tl.length < 2 ^ n := by
    have h1 := combos_length_le (List.range n) t
    have h2 := congrArg List.length e
    simp only [List.length_map, List.length_cons, List.length_range] at h1 h2
    omega
  have hval : ∀ x ∈ dec t 0 :: tl, x.Pairwise (· > ·) ∧ x.length = t := by
    intro x hx
    rw [← e, List.mem_map] at hx
    obtain ⟨J, hJ, rfl⟩ := hx
    obtain ⟨h1, h2⟩ := (TW.mem_combos t _ J).1 hJ
    refine ⟨?_, by simpa using h2⟩
    rw [List.pairwise_reverse]
    exact List.pairwise_lt_range.sublist h1
  have hseg : Seg (nextAux n 0) (dec t 0) tl (dec t (n - t)) := by
    simpa using seg
  unfold indices
  rw [drain_new, e, drain_seg n t tl (dec t 0) (dec t (n - t)) (2 ^ n) hseg (nextAux_last n t h) hval hlen]

/-- `TInteractionIter::new(literals, t)` yields `TW.tIter literals t` -/
theorem interactions_eq (lits : List Int) (t : Nat) (h : t ≤ lits.length) :
    interactions lits t = TW.tIter lits t := by
  have hl : lits = (List.range lits.length).map (fun i => lits.getD i 0) := by
    apply List.ext_getElem
    · simp
    · intro i h1 h2; simp [List.getD_eq_getElem?_getD, h1]
  have hc : TW.combos t lits
      = (TW.combos t (List.range lits.length)).map (List.map fun i => lits.getD i 0) := by
    rw [← combos_map, ← hl]
  unfold interactions TW.tIter
  rw [indices_eq _ _ h, hc]
  simp [List.map_map, Function.comp_def]

end Ddnnf.TI
