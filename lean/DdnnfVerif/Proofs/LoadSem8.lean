/-
  Denotation of the graphs of the d4 loader (part 8): the composition of the phases.

  `pipeline_sem`: for every model `v` of the graph built in phase 1, the graph that is flattened has a
  model `v4` (or the error flag is raised) whose value at the final root is `v 0`, the value of the first
  node of the file.  `loadWith_denotation_of_acyclic`: with acyclicity of the flattened graph this is the
  value the loaded array computes at its root.
-/
import DdnnfVerif.Proofs.LoadSem2
import DdnnfVerif.Proofs.LoadSem4
import DdnnfVerif.Proofs.LoadSem7

namespace Ddnnf.D4

/-- the state after phase 1 -/
def phase1 (lines : List Line) (total : Nat) : LState := lines.foldl stepLine { total := total }

/-- the state after the elimination (phase 3) -/
def afterElim (s1 : LState) : LState :=
  { (addFree s1).1 with g := eliminate (addFree s1).1.g (addFree s1).2 }

/-- the state and the root after phase 3b -/
def st3 (s1 : LState) : LState × Nat := addVanished (afterElim s1) (addFree s1).2

/-- the state after smoothing -/
def st4 (sorted : Bool) (h : List Nat → List Nat) (s1 : LState) : LState :=
  smooth sorted h (st3 s1).1 (st3 s1).2

theorem loadGraph_eq (sorted : Bool) (h : List Nat → List Nat) (lines : List Line) (total : Nat) :
    loadGraph sorted h lines total =
      ((st4 sorted h (phase1 lines total)).g, (st3 (phase1 lines total)).2) := rfl

theorem loadWith_err (sorted : Bool) (h : List Nat → List Nat) (lines : List Line) (total : Nat) :
    (loadWith sorted h lines total).2.2 = (loadGraph sorted h lines total).1.err := rfl

/-! ### the adding phases do not touch the error flag -/

theorem getLit_err (s : LState) (l : Int) : (s.getLit l).1.g.err = s.g.err := by
  cases hf : s.litNx.find? (·.1 == l) with
  | some e => rw [getLit_found s l e hf]
  | none => rw [getLit_new s l hf]; rfl

theorem addTriangle_err (s : LState) (f attach : Nat) : (s.addTriangle f attach).g.err = s.g.err := by
  cases hfind : s.tri.find? (·.1 == f) with
  | some e => rw [addTriangle_found s f attach e hfind]; rfl
  | none =>
    rw [addTriangle_new s f attach hfind]
    have : (triNew s f attach).g.err =
        ((({ s with g := (s.g.addNode .or).1, tri := (f, (s.g.addNode .or).2) :: s.tri } : LState).getLit
          (f : Int)).1.getLit (-(f : Int))).1.g.err := rfl
    rw [this, getLit_err, getLit_err]; rfl

theorem wrapTri_err (s : LState) (root f : Nat) : (wrapTri s root f).1.g.err = s.g.err := by
  by_cases h0 : root = 0
  · subst h0; rw [wrapTri_zero, addTriangle_err]; rfl
  · rw [wrapTri_ne s root f h0, addTriangle_err]

theorem addTriangles_err (a : Nat) (order : List Nat) :
    ∀ s : LState, (order.foldl (fun t f => t.addTriangle f a) s).g.err = s.g.err := by
  induction order with
  | nil => intro s; rfl
  | cons f fs ih => intro s; rw [List.foldl_cons, ih, addTriangle_err]

theorem balance_err (sorted : Bool) (h : List Nat → List Nat) (nx : Nat) (work : List (Nat × List Nat)) :
    ∀ s : LState, (balance sorted h s nx work).g.err = s.g.err := by
  induction work with
  | nil => intro s; rfl
  | cons w ws ih =>
    intro s
    obtain ⟨child, miss⟩ := w
    rw [balance_eq, List.foldl_cons, ← balance_eq, ih, balanceStep_eq, addTriangles_err]; rfl

theorem smooth_err (sorted : Bool) (h : List Nat → List Nat) (s : LState) (root : Nat) :
    (smooth sorted h s root).g.err = s.g.err := by
  unfold smooth
  dsimp only
  refine foldl_inv (fun acc : LState => acc.g.err = s.g.err) _ _ ?_ s rfl
  intro acc nx _ hacc
  split
  · rw [balance_err]; exact hacc
  · exact hacc

/-- literals of the graph are not 0 -/
def LitNZ (g : G) : Prop := ∀ x l, g.kindOf x = some (.lit l) → l ≠ 0

theorem pipeline_sem (sorted : Bool) (h : List Nat → List Nat) (hh : ∀ xs f, f ∈ h xs → f ∈ xs)
    (s1 : LState) (σ : Assignment) (v : Nat → Bool) (hp : PInv s1) (htri : s1.tri = [])
    (hpos : 0 < s1.g.kind.size) (hnz : LitNZ s1.g) (hm : Model σ s1.g v) :
    (st4 sorted h s1).g.err = true ∨
      ∃ v4, CInv σ (st4 sorted h s1) v4 ∧ (st3 s1).2 < (st4 sorted h s1).g.kind.size ∧
        v4 (st3 s1).2 = v 0 := by
  have c1 : CInv σ s1 v := ⟨hp.linv, hm, hp.litK, hnz⟩
  have t1 : TriT s1 v := by intro e he; rw [htri] at he; cases he
  -- phase 2
  obtain ⟨v2, c2, t2, e2, r2, hv2⟩ := addFree_sem hpos c1 t1
  have i2 : IOK (addFree s1).1.g := addFree_iok s1 hp.linv hp.iok
  have hpos2 : 0 < (addFree s1).1.g.kind.size := Nat.lt_of_lt_of_le hpos e2.size
  -- phase 3
  have hrel := erel_eliminate (addFree s1).1.g (addFree s1).2
  have hwfn := eliminate_wfn (addFree s1).1.g.kind.size (addFree s1).1.g (addFree s1).2 ⟨c2.linv.wf, rfl⟩
  have hsz3 : (afterElim s1).g.kind.size = (addFree s1).1.g.kind.size := hwfn.2
  have l3 : LInv (afterElim s1) := c2.linv.setG _ hwfn.1 (by rw [hwfn.2]; exact Nat.le_refl _)
  have hkeep : ∀ x l, (addFree s1).1.g.kindOf x = some (.lit l) → (afterElim s1).g.kindOf x = some (.lit l) := by
    intro x l hk
    rcases hrel.kinds x with e | ⟨_, e⟩ | ⟨_, e⟩
    · exact e.trans hk
    · rw [hk] at e; cases e
    · rw [hk] at e; cases e
  have hback : ∀ x l, (afterElim s1).g.kindOf x = some (.lit l) → (addFree s1).1.g.kindOf x = some (.lit l) := by
    intro x l hk
    rcases hrel.kinds x with e | ⟨e, _⟩ | ⟨e, _⟩
    · exact e.symm.trans hk
    · have : (afterElim s1).g.kindOf x = none := e
      rw [hk] at this; cases this
    · have : (afterElim s1).g.kindOf x = some .tru := e
      rw [hk] at this; cases this
  rcases eliminate_sem (addFree s1).1.g (addFree s1).2 c2.model i2.ins with herr | ⟨hm3, _⟩
  · -- the error flag is raised: it is still raised at the end
    left
    have hr3 : RootInv (afterElim s1).g.kind.size (st3 s1) ∧
        (st3 s1).1.g.err = (afterElim s1).g.err := by
      unfold st3 addVanished
      dsimp only
      refine foldl_inv (fun acc => RootInv (afterElim s1).g.kind.size acc ∧
          acc.1.g.err = (afterElim s1).g.err) _ _ ?_ _
        ⟨⟨l3, Nat.le_refl _, by
            rcases r2 with e | ⟨hlt, _⟩
            · exact Or.inl e
            · exact Or.inr (by rw [hsz3]; exact hlt)⟩, rfl⟩
      intro acc k _ hacc
      obtain ⟨s', root'⟩ := acc
      dsimp only
      split
      · exact hacc
      · exact ⟨wrapTri_spec _ s' root' (k + 1) hacc.1, (wrapTri_err s' root' (k + 1)).trans hacc.2⟩
    have h4 : (st4 sorted h s1).g.err = (st3 s1).1.g.err := smooth_err sorted h _ _
    rw [h4, hr3.2]
    exact herr
  · right
    have c3 : CInv σ (afterElim s1) v2 :=
      ⟨l3, hm3, fun e he => hkeep _ _ (c2.litK e he), fun x l hk => c2.litnz x l (hback x l hk)⟩
    have t3 : TriT (afterElim s1) v2 := t2
    have r3 : RootOK (afterElim s1) (addFree s1).2 := by
      rcases r2 with e | ⟨hlt, hk⟩
      · exact Or.inl e
      · refine Or.inr ⟨by rw [hsz3]; exact hlt, ?_⟩
        intro hor
        rcases hrel.kinds (addFree s1).2 with e | ⟨e, _⟩ | ⟨e, _⟩
        · exact hk (e.symm.trans hor)
        · have : (afterElim s1).g.kindOf (addFree s1).2 = none := e
          rw [hor] at this; cases this
        · have : (afterElim s1).g.kindOf (addFree s1).2 = some .tru := e
          rw [hor] at this; cases this
    -- phase 3b
    obtain ⟨v3, c3', t3', e3, r3', hv3⟩ : ∃ v3, CInv σ (st3 s1).1 v3 ∧ TriT (st3 s1).1 v3 ∧
        CExt (afterElim s1) v2 (st3 s1).1 v3 ∧ RootOK (st3 s1).1 (st3 s1).2 ∧
        v3 (st3 s1).2 = v2 (addFree s1).2 :=
      addVanished_sem (addFree s1).2 (by rw [hsz3]; exact hpos2) r3 c3 t3
    -- phase 4
    obtain ⟨v4, c4, _, e4⟩ : ∃ v4, CInv σ (st4 sorted h s1) v4 ∧ TriT (st4 sorted h s1) v4 ∧
        CExt (st3 s1).1 v3 (st4 sorted h s1) v4 := smooth_sem sorted h hh (st3 s1).2 c3' t3'
    have hpos3 : 0 < (st3 s1).1.g.kind.size :=
      Nat.lt_of_lt_of_le (by rw [hsz3]; exact hpos2) e3.size
    have hroot : (st3 s1).2 < (st3 s1).1.g.kind.size := by
      rcases r3' with e | ⟨hlt, _⟩
      · rw [e]; exact hpos3
      · exact hlt
    refine ⟨v4, c4, Nat.lt_of_lt_of_le hroot e4.size, ?_⟩
    rw [e4.agree _ hroot]
    exact hv3.trans hv2

/-- The loader preserves the denotation, stated with models: if the flattened graph is acyclic (the
hypothesis of `load_topo`), the file declares a node, no literal is 0 and the loader does not raise its
error flag, then the root of the loaded array has the value that *any* model of the phase-1 graph
gives to node 0 (the first node of the file). -/
theorem loadWith_denotation_of_acyclic (sorted : Bool) (h : List Nat → List Nat)
    (hh : ∀ xs f, f ∈ h xs → f ∈ xs) (lines : List Line) (total : Nat)
    (hnode : ∃ k, Line.node k ∈ lines) (hnz : LitNZ (phase1 lines total).g)
    (r4 : Nat → Nat) (hacyc4 : Acyclic (loadGraph sorted h lines total).1 r4)
    (hok : (loadWith sorted h lines total).2.2 = false)
    (σ : Assignment) (v : Nat → Bool) (hm : Model σ (phase1 lines total).g v) :
    eval σ (loadWith sorted h lines total).2.1 (rootIx (loadWith sorted h lines total).2.1) = v 0 := by
  obtain ⟨hp, htri⟩ := lines_p lines total
  have hpos : 0 < (phase1 lines total).g.kind.size :=
    lines_size_pos lines { total := total } (linv_init total) (Or.inr hnode)
  rw [loadWith_err, loadGraph_eq] at hok
  rw [loadGraph_eq] at hacyc4
  rw [loadWith_nodes, loadGraph_eq]
  rcases pipeline_sem sorted h hh (phase1 lines total) σ v hp htri hpos hnz hm with herr | ⟨v4, c4, hroot, hv4⟩
  · rw [hok] at herr; cases herr
  · show eval σ (flattenGraph (st4 sorted h (phase1 lines total)).g (st3 (phase1 lines total)).2)
      (rootIx (flattenGraph (st4 sorted h (phase1 lines total)).g (st3 (phase1 lines total)).2)) = v 0
    rw [flattenGraph_root σ _ _ r4 c4.linv.wf.edges hacyc4 hroot, ← c4.model.eq_sem r4 hacyc4, hv4]

/-- the same with the denotation `sem` of the (acyclic) phase-1 graph -/
theorem loadWith_sem_of_acyclic (sorted : Bool) (h : List Nat → List Nat)
    (hh : ∀ xs f, f ∈ h xs → f ∈ xs) (lines : List Line) (total : Nat)
    (hnode : ∃ k, Line.node k ∈ lines) (hnz : LitNZ (phase1 lines total).g)
    (r : Nat → Nat) (hacyc : Acyclic (phase1 lines total).g r)
    (r4 : Nat → Nat) (hacyc4 : Acyclic (loadGraph sorted h lines total).1 r4)
    (hok : (loadWith sorted h lines total).2.2 = false) (σ : Assignment) :
    eval σ (loadWith sorted h lines total).2.1 (rootIx (loadWith sorted h lines total).2.1) =
      sem σ (phase1 lines total).g r 0 :=
  loadWith_denotation_of_acyclic sorted h hh lines total hnode hnz r4 hacyc4 hok σ _
    (sem_model σ _ r hacyc)

end Ddnnf.D4
