/-
  `execute_query` (dispatch on the length of the assumption list, core shortcut, marking or
  default strategy) returns the number of satisfying assignments that contain the assumptions,
  for every sound core list; the repaired `calculate_core` (leaf exists, complementary leaf does
  not exist or has partial derivative 0) is sound.
-/
import DdnnfVerif.Proofs.CountA
import DdnnfVerif.Proofs.PDLeaf

namespace Ddnnf

/-! ## `execute_query` -/

/-- if the complement of an assumption is contained in every listed model, nothing is counted -/
theorem specCount_eq_zero_of_neg (nodes : List NType) (n : Nat) (h : WF nodes n) (A : List Int)
    (hA : InRange A n) (f : Int) (hf : f ∈ A)
    (hall : ∀ c ∈ models nodes (rootIx nodes), -f ∈ c) : specCount nodes n A = 0 := by
  rw [specCount_eq_filter nodes n h A hA, List.length_eq_zero_iff, List.filter_eq_nil_iff]
  intro c hc hall'
  rw [List.all_eq_true] at hall'
  have h1 : f ∈ c := by simpa using hall' f hf
  exact (root_models_complete nodes n h c hc).not_both h1 (hall c hc)

/-- a literal whose complementary leaf does not exist is contained in every listed model -/
theorem mem_of_not_hasLit_neg (nodes : List NType) (n : Nat) (h : WF nodes n) (a : Int)
    (ha0 : a ≠ 0) (han : a.natAbs ≤ n) (hno : hasLit nodes (-a) = false) :
    ∀ c ∈ models nodes (rootIx nodes), a ∈ c := by
  intro c hc
  rcases (root_models_complete nodes n h c hc).mem_or ha0 han with h1 | h1
  · exact h1
  · have := models_hasLit nodes _ c hc _ h1
    rw [hno] at this
    cases this

/-- the cached count is exact when every assumption is contained in every listed model -/
theorem count_eq_specCount_of_all (nodes : List NType) (n : Nat) (h : WF nodes n) (A : List Int)
    (hA : InRange A n) (hall : ∀ a ∈ A, ∀ c ∈ models nodes (rootIx nodes), a ∈ c) :
    count nodes (rootIx nodes) = specCount nodes n A := by
  rw [← countA_nil]
  apply countA_negs_exact nodes n h A hA
  · intro l hl; cases hl
  · intro a ha; exact Or.inr (hall a ha)

/-- the general branch of `execute_query` (both strategies) -/
theorem execQuery_general (nodes : List NType) (n : Nat) (h : WF nodes n) (core : List Int)
    (hcs : CoreSound core nodes) (A : List Int) (hA : InRange A n) :
    (if A.any (fun f => core.contains (-f)) then 0
      else
        if A.length ≤ 20 then
          if (((A.filter (fun f => !core.contains f)).map (fun f => -f)).filter
              (hasLit nodes)).isEmpty then count nodes (rootIx nodes)
          else markerCount nodes
            (((A.filter (fun f => !core.contains f)).map (fun f => -f)).filter
              (hasLit nodes))
        else
          countA nodes ((A.filter (fun f => !core.contains f)).map (fun f => -f))
            (rootIx nodes))
      = specCount nodes n A := by
  by_cases hany : A.any (fun f => core.contains (-f)) = true
  · rw [if_pos hany]
    rw [List.any_eq_true] at hany
    obtain ⟨f, hf, hcore⟩ := hany
    exact (specCount_eq_zero_of_neg nodes n h A hA f hf
      (hcs (-f) (by simpa using hcore))).symm
  · rw [if_neg hany]
    -- the two candidate sets of zeroed leaves
    have hsub1 : ∀ l ∈ (A.filter (fun f => !core.contains f)).map (fun f => -f),
        -l ∈ A := by
      intro l hl
      rw [List.mem_map] at hl
      obtain ⟨a, ha, rfl⟩ := hl
      rw [Int.neg_neg]
      exact (List.mem_filter.mp ha).1
    have hcov2 : ∀ a ∈ A,
        -a ∈ ((A.filter (fun f => !core.contains f)).map (fun f => -f)).filter
            (hasLit nodes)
          ∨ ∀ c ∈ models nodes (rootIx nodes), a ∈ c := by
      intro a ha
      by_cases hc : a ∈ core
      · exact Or.inr (hcs a hc)
      · by_cases hl : hasLit nodes (-a) = true
        · left
          rw [List.mem_filter]
          refine ⟨List.mem_map.mpr ⟨a, List.mem_filter.mpr ⟨ha, by simpa using hc⟩, rfl⟩, hl⟩
        · exact Or.inr (mem_of_not_hasLit_neg nodes n h a (hA a ha).1 (hA a ha).2
            (by simpa using hl))
    by_cases hlen : A.length ≤ 20
    · rw [if_pos hlen]
      have hmain := countA_negs_exact nodes n h A hA _
        (fun l hl => hsub1 l (List.mem_filter.mp hl).1) hcov2
      by_cases hemp : (((A.filter (fun f => !core.contains f)).map
          (fun f => -f)).filter (hasLit nodes)).isEmpty = true
      · rw [if_pos hemp]
        rw [List.isEmpty_iff] at hemp
        rw [hemp, countA_nil] at hmain
        exact hmain
      · rw [if_neg hemp, marker_eq_countA]
        exact hmain
    · rw [if_neg hlen]
      apply countA_negs_exact nodes n h A hA _ hsub1
      intro a ha
      rcases hcov2 a ha with h1 | h1
      · exact Or.inl (List.mem_filter.mp h1).1
      · exact Or.inr h1

/-- `execute_query` is exact for every sound core list -/
theorem execQueryCore_exact (nodes : List NType) (n : Nat) (h : WF nodes n) (core : List Int)
    (hcs : CoreSound core nodes) (A : List Int) (hA : InRange A n) :
    execQueryCore core nodes A = specCount nodes n A := by
  match A, hA with
  | [], _ => exact count_eq_specCount nodes n h
  | [f], hA =>
    have hf := hA f (List.mem_singleton.mpr rfl)
    show (if core.contains f then count nodes (rootIx nodes)
      else if core.contains (-f) then 0
      else if hasLit nodes (-f) then markerCount nodes [-f] else count nodes (rootIx nodes))
      = specCount nodes n [f]
    by_cases h1 : core.contains f = true
    · rw [if_pos h1]
      apply count_eq_specCount_of_all nodes n h [f] hA
      intro a ha
      rw [List.mem_singleton] at ha
      subst ha
      exact hcs a (by simpa using h1)
    · rw [if_neg h1]
      by_cases h2 : core.contains (-f) = true
      · rw [if_pos h2]
        exact (specCount_eq_zero_of_neg nodes n h [f] hA f (List.mem_singleton.mpr rfl)
          (hcs (-f) (by simpa using h2))).symm
      · rw [if_neg h2]
        by_cases h3 : hasLit nodes (-f) = true
        · rw [if_pos h3, marker_eq_countA]
          exact countA_exact nodes n h [f] hA
        · rw [if_neg h3]
          apply count_eq_specCount_of_all nodes n h [f] hA
          intro a ha
          rw [List.mem_singleton] at ha
          subst ha
          exact mem_of_not_hasLit_neg nodes n h a hf.1 hf.2 (by simpa using h3)
  | f :: g :: t, hA => exact execQuery_general nodes n h core hcs (f :: g :: t) hA

/-! ### the repaired `calculate_core` -/

theorem leafIx_go_eq_none (l : Int) (ns : List NType) (i : Nat) (acc : Option Nat) :
    leafIx.go l ns i acc = none ↔ acc = none ∧ NType.lit l ∉ ns := by
  induction ns generalizing i acc with
  | nil => simp [leafIx.go]
  | cons nd rest ih =>
    rw [leafIx.go, ih]
    by_cases hnd : nd = .lit l
    · subst hnd
      simp
    · have hne : (nd == NType.lit l) = false := by simpa using hnd
      rw [hne]
      have hne' : ¬ NType.lit l = nd := fun h' => hnd h'.symm
      simp [hne']

theorem leafIx_eq_none_iff (nodes : List NType) (l : Int) :
    leafIx nodes l = none ↔ hasLit nodes l = false := by
  unfold leafIx hasLit
  rw [leafIx_go_eq_none]
  simp

/- `PDLeaf nodes` (the reverse-mode lemma: the partial derivative of the leaf of literal `l` is the
number of listed root models containing `l`) is defined and proved from `WF` + `LitUnique` in
`Proofs/PDLeaf.lean` (`pdLeaf_of_WF`). -/

theorem mem_coreOf (nodes : List NType) (n : Nat) (l : Int) :
    l ∈ coreOf nodes n ↔ l.natAbs ≤ n ∧ hasLit nodes l = true ∧
      (leafIx nodes (-l) = none ∨ ∃ i, leafIx nodes (-l) = some i ∧ (annotatePD nodes).getD i 0 = 0) := by
  unfold coreOf
  simp only []
  rw [List.mem_filter, List.mem_map]
  simp only [List.mem_range, Bool.and_eq_true]
  have hrange : (∃ a, a < 2 * n + 1 ∧ (a : Int) - (n : Int) = l) ↔ l.natAbs ≤ n := by
    constructor
    · rintro ⟨k, hk, rfl⟩; omega
    · intro hn; exact ⟨(l + n).toNat, by omega, by omega⟩
  rw [hrange]
  cases leafIx nodes (-l) with
  | none => simp
  | some i => simp

/-- with the reverse-mode lemma: the partial derivative of the leaf `-l` is 0 iff no listed model
of the root contains `-l` -/
theorem coreOf_sound (nodes : List NType) (n : Nat) (h : WF nodes n) (hpd : PDLeaf nodes) :
    CoreSound (coreOf nodes n) nodes := by
  intro l hl c hc
  obtain ⟨hn, h1, h2⟩ := (mem_coreOf nodes n l).mp hl
  have hcomp := root_models_complete nodes n h c hc
  rcases hcomp.mem_or (hasLit_ne_zero nodes h.litnz l h1) hn with h3 | h3
  · exact h3
  · exfalso
    rcases h2 with h2 | ⟨i, hi, hz⟩
    · have := models_hasLit nodes _ c hc _ h3
      rw [(leafIx_eq_none_iff nodes (-l)).mp h2] at this
      cases this
    · rw [hpd (-l) i hi, List.length_eq_zero_iff, List.filter_eq_nil_iff] at hz
      exact hz c hc (by simpa using h3)

theorem execQuery_exact (nodes : List NType) (n : Nat) (h : WF nodes n) (hpd : PDLeaf nodes)
    (A : List Int) (hA : InRange A n) : execQuery nodes n A = specCount nodes n A :=
  execQueryCore_exact nodes n h _ (coreOf_sound nodes n h hpd) A hA

end Ddnnf
