/-
  The prefix theorem of the paged enumeration (model: `Model/Enum.lean`):
  `enumerate_node((0, r), i)` returns the first `r` listed models of node `i` that are compatible
  with the assumptions, and `enumerate_node((r0, r1), root)` returns the slice `[r0, r1)`.

  The bounded evaluation of and-nodes (children are asked for `min r temp` configurations while the
  accumulated product is `< r`, afterwards for one) and of or-nodes (children are concatenated
  while the accumulated sum is `< r`) does not change the first `r` elements.
-/
import DdnnfVerif.Model.Enum
import DdnnfVerif.Proofs.EnumLists

namespace Ddnnf

/-- no or-node has a `True` node as a child (`models` of a `True` node is `[[]]` while the
enumeration hides `True` nodes; inside and-nodes this is harmless because `tl ++ [] = tl`) -/
def NoTruUnderOr (nodes : List NType) : Prop :=
  ∀ i (h : i < nodes.length) cs, nodes[i] = .or cs →
    ∀ c ∈ cs, ∀ (hc : c < nodes.length), nodes[c] ≠ .tru

/-! ### `temp` and `isTru` -/

theorem enum_temp (nodes : List NType) (negs : List Int) (i : Nat) :
    (val default (fEnum negs) nodes i).temp = countA nodes negs i := by
  unfold countA
  apply table_rel (fun (a : EV) (b : Nat) => a.temp = b) default 0 (fEnum negs) (fCountA negs) rfl
  intro nd ga gb h
  cases nd with
  | and cs =>
    show prodNat (cs.map fun c => (ga c).temp) = prodNat (cs.map gb)
    congr 1
    exact List.map_congr_left (fun c _ => h c)
  | or cs =>
    show sumNat (cs.map fun c => (ga c).temp) = sumNat (cs.map gb)
    congr 1
    exact List.map_congr_left (fun c _ => h c)
  | lit l => rfl
  | tru => rfl
  | fls => rfl

theorem enum_temp_eq_length (nodes : List NType) (negs : List Int) (i : Nat) :
    (val default (fEnum negs) nodes i).temp = (modelsA nodes negs i).length := by
  unfold modelsA
  apply table_rel (fun (a : EV) (b : List Config) => a.temp = b.length) default []
    (fEnum negs) (fModelsA negs) rfl
  intro nd ga gb h
  cases nd with
  | and cs =>
    show prodNat (cs.map fun c => (ga c).temp) = (prodConfigs (cs.map gb)).length
    rw [length_prodConfigs, List.map_map]
    congr 1
    exact List.map_congr_left (fun c _ => h c)
  | or cs =>
    show sumNat (cs.map fun c => (ga c).temp) = ((cs.map gb).flatten).length
    rw [List.length_flatten, List.map_map, sumNat_eq_sum]
    congr 1
    exact List.map_congr_left (fun c _ => h c)
  | lit l =>
    show (if negs.contains l then 0 else 1) = (if negs.contains l then [] else [[l]]).length
    by_cases hl : l ∈ negs <;> simp [hl]
  | tru => rfl
  | fls => rfl

/-- `countA` is the number of listed models compatible with the assumptions
(also in `Proofs/CountA.lean`; repeated here to keep this file independent of it) -/
theorem enum_countA_eq_length (nodes : List NType) (negs : List Int) (i : Nat) :
    countA nodes negs i = (modelsA nodes negs i).length := by
  rw [← enum_temp, enum_temp_eq_length]

theorem enum_isTru (nodes : List NType) (negs : List Int) (i : Nat) (hi : i < nodes.length) :
    (val default (fEnum negs) nodes i).isTru = true ↔ nodes[i] = .tru := by
  rw [val_eq _ _ _ _ hi]
  cases nodes[i] <;> simp [fEnum]

/-! ### what the pass knows about a child -/

/-- the enumeration value `g c` of a child agrees with the model list `m c` -/
def ChildOK (g : Nat → EV) (m : Nat → List Config) (c : Nat) : Prop :=
  (g c).temp = (m c).length ∧
    (if (g c).isTru then m c = [[]] else ∀ r, (g c).pre r = (m c).take r)

/-! ### and-nodes -/

/-- the list of child lists an and-node builds, as a recursive function (fast list first) -/
def andLists (g : Nat → EV) (r : Nat) : Nat → List Nat → List (List Config)
  | _, [] => []
  | a, c :: cs =>
    if (g c).isTru then andLists g r a cs
    else if a < r then
      (g c).pre (min r (g c).temp) :: andLists g r (a * min r (g c).temp) cs
    else ((g c).pre 1).take 1 :: andLists g r a cs

theorem andStep_tru (g : Nat → EV) (r : Nat) (st : Nat × List (List Config)) (c : Nat)
    (h : (g c).isTru = true) : andStep g r st c = st := by
  simp [andStep, h]

theorem andStep_lt (g : Nat → EV) (r a : Nat) (acc : List (List Config)) (c : Nat)
    (h : ¬ (g c).isTru = true) (ha : a < r) :
    andStep g r (a, acc) c
      = (a * min r (g c).temp, acc ++ [(g c).pre (min r (g c).temp)]) := by
  simp [andStep, h, ha]

theorem andStep_ge (g : Nat → EV) (r a : Nat) (acc : List (List Config)) (c : Nat)
    (h : ¬ (g c).isTru = true) (ha : ¬ a < r) :
    andStep g r (a, acc) c = (a, acc ++ [((g c).pre 1).take 1]) := by
  simp [andStep, h, ha]

theorem foldl_andStep (g : Nat → EV) (r : Nat) (cs : List Nat) (a : Nat)
    (acc : List (List Config)) :
    (cs.foldl (andStep g r) (a, acc)).2 = acc ++ andLists g r a cs := by
  induction cs generalizing a acc with
  | nil => simp [andLists]
  | cons c cs ih =>
    rw [List.foldl_cons]
    by_cases ht : (g c).isTru = true
    · rw [andStep_tru g r _ c ht]
      simp only [ht, if_true, andLists]
      exact ih a acc
    · by_cases ha : a < r
      · rw [andStep_lt g r a acc c ht ha, ih]
        simp [andLists, ht, ha]
      · rw [andStep_ge g r a acc c ht ha, ih]
        simp [andLists, ht, ha]

/-- the first `⌈r / a⌉` elements of the product of the truncated child lists are the first
`⌈r / a⌉` elements of the full product (`a` = the amount accumulated so far) -/
theorem and_prefix (g : Nat → EV) (m : Nat → List Config) (r : Nat) (hr : 1 ≤ r)
    (cs : List Nat) (hok : ∀ c ∈ cs, ChildOK g m c) (hne : ∀ c ∈ cs, m c ≠ [])
    (a : Nat) (ha : 1 ≤ a) :
    (prodConfigs (andLists g r a cs)).take ((r + a - 1) / a)
      = (prodConfigs (cs.map m)).take ((r + a - 1) / a) := by
  induction cs generalizing a with
  | nil => rfl
  | cons c cs ih =>
    have hokc := hok c (List.mem_cons_self ..)
    have hok' : ∀ c' ∈ cs, ChildOK g m c' := fun c' h => hok c' (List.mem_cons_of_mem _ h)
    have hne' : ∀ c' ∈ cs, m c' ≠ [] := fun c' h => hne c' (List.mem_cons_of_mem _ h)
    have hlen : 1 ≤ (m c).length := by
      have := hne c (List.mem_cons_self ..)
      cases hm : m c with
      | nil => exact absurd hm this
      | cons x xs => simp
    unfold andLists
    rw [List.map_cons]
    by_cases ht : (g c).isTru = true
    · have hmc : m c = [[]] := by simpa [ChildOK, ht] using hokc.2
      simp only [ht, if_true]
      rw [hmc, prodConfigs_unit]
      exact ih hok' hne' a ha
    · have hpre : ∀ r', (g c).pre r' = (m c).take r' := by simpa [ChildOK, ht] using hokc.2
      have htemp : (g c).temp = (m c).length := hokc.1
      by_cases har : a < r
      · simp only [ht, har, if_true, Bool.false_eq_true, if_false]
        rw [hpre, htemp]
        have hch1 : 1 ≤ min r (m c).length := by omega
        have ha' : 1 ≤ a * min r (m c).length := Nat.mul_le_mul ha hch1
        have hIH := ih hok' hne' (a * min r (m c).length) ha'
        show ((prodConfigs _).flatMap _).take _ = ((prodConfigs _).flatMap _).take _
        apply take_flatMap_prefix _ _ _ _ _ _ hIH (by omega)
        · rw [← ceil_div_div r a _ ha hch1]
          exact le_ceil_mul _ _ hch1
        · by_cases hc : (m c).length ≤ r
          · left; omega
          · right
            have := ceil_le_self r a ha
            omega
      · simp only [ht, har, Bool.false_eq_true, if_false]
        rw [hpre, List.take_take]
        have hIH := ih hok' hne' a ha
        show ((prodConfigs _).flatMap _).take _ = ((prodConfigs _).flatMap _).take _
        have h1 := ceil_le_one r a ha (by omega)
        apply take_flatMap_prefix _ _ _ _ _ _ hIH (by omega)
        · rw [Nat.min_self, Nat.mul_one]; exact Nat.le_refl _
        · right; simpa using h1

theorem prodNat_ne_zero (xs : List Nat) (h : prodNat xs ≠ 0) : ∀ x ∈ xs, x ≠ 0 := by
  induction xs with
  | nil => intro x hx; cases hx
  | cons y ys ih =>
    rw [prodNat_cons] at h
    intro x hx
    rcases List.mem_cons.mp hx with rfl | hx
    · intro h0; rw [h0] at h; simp at h
    · exact ih (fun h0 => h (by rw [h0]; simp)) x hx

/-! ### or-nodes -/

theorem orStep_stopped (g : Nat → EV) (r a : Nat) (out : List Config) (c : Nat) :
    orStep g r (a, out, true) c = (a, out, true) := by
  simp [orStep]

theorem orStep_skip (g : Nat → EV) (r a : Nat) (out : List Config) (c : Nat)
    (h : (g c).temp = 0) : orStep g r (a, out, false) c = (a, out, false) := by
  simp [orStep, h]

theorem orStep_lt (g : Nat → EV) (r a : Nat) (out : List Config) (c : Nat)
    (h : (g c).temp ≠ 0) (ht : (g c).isTru = false) (ha : a < r) :
    orStep g r (a, out, false) c
      = (a + min r (g c).temp, out ++ (g c).pre (min r (g c).temp), false) := by
  simp [orStep, h, ht, ha]

theorem orStep_ge (g : Nat → EV) (r a : Nat) (out : List Config) (c : Nat)
    (h : (g c).temp ≠ 0) (ht : (g c).isTru = false) (ha : ¬ a < r) :
    orStep g r (a, out, false) c = (a, out, true) := by
  simp [orStep, h, ht, ha]

theorem foldl_orStep_stopped (g : Nat → EV) (r : Nat) (cs : List Nat) (a : Nat)
    (out : List Config) : cs.foldl (orStep g r) (a, out, true) = (a, out, true) := by
  induction cs with
  | nil => rfl
  | cons c cs ih => rw [List.foldl_cons, orStep_stopped]; exact ih

/-- the first `r` elements of the concatenation of the truncated child lists are the first `r`
elements of the full concatenation -/
theorem or_prefix (g : Nat → EV) (m : Nat → List Config) (r : Nat) (cs : List Nat)
    (hok : ∀ c ∈ cs, ChildOK g m c) (hnt : ∀ c ∈ cs, (g c).isTru = false) (out : List Config) :
    ((cs.foldl (orStep g r) (out.length, out, false)).2.1).take r
      = (out ++ (cs.map m).flatten).take r := by
  induction cs generalizing out with
  | nil => simp
  | cons c cs ih =>
    have hokc := hok c (List.mem_cons_self ..)
    have htc := hnt c (List.mem_cons_self ..)
    have hok' : ∀ c' ∈ cs, ChildOK g m c' := fun c' h => hok c' (List.mem_cons_of_mem _ h)
    have hnt' : ∀ c' ∈ cs, (g c').isTru = false := fun c' h => hnt c' (List.mem_cons_of_mem _ h)
    have hpre : ∀ r', (g c).pre r' = (m c).take r' := by simpa [ChildOK, htc] using hokc.2
    have htemp : (g c).temp = (m c).length := hokc.1
    rw [List.foldl_cons, List.map_cons, List.flatten_cons]
    by_cases h0 : (g c).temp = 0
    · have : m c = [] := List.length_eq_zero_iff.mp (by omega)
      rw [orStep_skip g r _ out c h0, this, List.nil_append]
      exact ih hok' hnt' out
    · by_cases hlt : out.length < r
      · rw [orStep_lt g r _ out c h0 htc hlt, hpre, htemp]
        have hl : out.length + min r (m c).length
            = (out ++ (m c).take (min r (m c).length)).length := by
          simp
        rw [hl, ih hok' hnt']
        by_cases hc : (m c).length ≤ r
        · rw [Nat.min_eq_right hc, List.take_length, List.append_assoc]
        · have hmin : min r (m c).length = r := by omega
          rw [hmin]
          simp only [List.take_append, List.length_append, List.length_take, List.take_take]
          have z1 : r - (out.length + min r (m c).length) = 0 := by omega
          have z2 : r - out.length - (m c).length = 0 := by omega
          have z3 : min (r - out.length) r = r - out.length := by omega
          rw [z1, z2, z3, List.append_assoc]
      · rw [orStep_ge g r _ out c h0 htc hlt, foldl_orStep_stopped]
        show out.take r = _
        rw [List.take_append]
        have : r - out.length = 0 := by omega
        rw [this]; simp

/-! ### one step of the pass -/

theorem fEnum_pre_step (negs : List Int) (nd : NType) (g : Nat → EV) (m : Nat → List Config)
    (hok : ∀ c ∈ children nd, ChildOK g m c)
    (hor : ∀ cs, nd = .or cs → ∀ c ∈ cs, (g c).isTru = false)
    (hnd : nd ≠ .tru) (r : Nat) :
    (fEnum negs nd g).pre r = (fModelsA negs nd m).take r := by
  cases nd with
  | and cs =>
    have hok : ∀ c ∈ cs, ChildOK g m c := hok
    have ht : prodNat (cs.map fun c => (g c).temp) = (prodConfigs (cs.map m)).length := by
      rw [length_prodConfigs, List.map_map]
      congr 1
      exact List.map_congr_left (fun c hc => (hok c hc).1)
    show (if (r == 0 || prodNat (cs.map fun c => (g c).temp) == 0) = true then []
      else ((prodConfigs (cs.foldl (andStep g r) (1, [])).2).take r))
      = (prodConfigs (cs.map m)).take r
    by_cases hr : r = 0
    · subst hr; simp
    · by_cases h0 : prodNat (cs.map fun c => (g c).temp) = 0
      · have : prodConfigs (cs.map m) = [] := List.length_eq_zero_iff.mp (by omega)
        rw [this]; simp [h0]
      · have hne : ∀ c ∈ cs, m c ≠ [] := by
          intro c hc hmc
          have := prodNat_ne_zero _ h0 (g c).temp (List.mem_map.mpr ⟨c, hc, rfl⟩)
          rw [(hok c hc).1, hmc] at this
          exact this rfl
        have hcond : (r == 0 || prodNat (cs.map fun c => (g c).temp) == 0) = false := by
          simp [hr, h0]
        rw [hcond, if_neg (by simp), foldl_andStep, List.nil_append]
        have := and_prefix g m r (by omega) cs hok hne 1 (Nat.le_refl 1)
        simpa using this
  | or cs =>
    have hok : ∀ c ∈ cs, ChildOK g m c := hok
    have ht : sumNat (cs.map fun c => (g c).temp) = ((cs.map m).flatten).length := by
      rw [List.length_flatten, List.map_map, sumNat_eq_sum]
      congr 1
      exact List.map_congr_left (fun c hc => (hok c hc).1)
    show (if (r == 0 || sumNat (cs.map fun c => (g c).temp) == 0) = true then []
      else ((cs.foldl (orStep g r) (0, [], false)).2.1.take r))
      = ((cs.map m).flatten).take r
    by_cases hr : r = 0
    · subst hr; simp
    · by_cases h0 : sumNat (cs.map fun c => (g c).temp) = 0
      · have : (cs.map m).flatten = [] := List.length_eq_zero_iff.mp (by omega)
        rw [this]; simp [h0]
      · have hcond : (r == 0 || sumNat (cs.map fun c => (g c).temp) == 0) = false := by
          simp [hr, h0]
        rw [hcond, if_neg (by simp)]
        have := or_prefix g m r cs hok (hor cs rfl) []
        simpa using this
  | lit l =>
    show (if (r == 0 || (if negs.contains l then 0 else 1) == 0) = true then [] else [[l]])
      = (if negs.contains l then [] else [[l]]).take r
    by_cases hl : l ∈ negs
    · simp [hl]
    · cases r with
      | zero => simp
      | succ r => simp [hl]
  | tru => exact absurd rfl hnd
  | fls =>
    show ([] : List Config) = ([] : List Config).take r
    simp

/-! ### the prefix theorem -/

/-- `enumerate_node((0, r), i)` returns the first `r` listed models of node `i` that are
compatible with the assumptions -/
theorem enumPre_eq_take (nodes : List NType) (negs : List Int) (htopo : Topo nodes)
    (hnt : NoTruUnderOr nodes) (i : Nat) (hi : i < nodes.length) (hnotTru : nodes[i] ≠ .tru)
    (r : Nat) :
    enumPre nodes negs i r = (modelsA nodes negs i).take r := by
  induction i using Nat.strongRecOn generalizing r with
  | _ i ih =>
    have hm : modelsA nodes negs i
        = fModelsA negs nodes[i] (fun j => if j < i then modelsA nodes negs j else []) :=
      val_eq [] (fModelsA negs) nodes i hi
    have he : val default (fEnum negs) nodes i
        = fEnum negs nodes[i] (fun j => if j < i then val default (fEnum negs) nodes j else default) :=
      val_eq default (fEnum negs) nodes i hi
    have hlt : ∀ x ∈ children nodes[i], x < i := htopo i hi
    unfold enumPre
    rw [he, hm]
    apply fEnum_pre_step
    · intro c hc
      have hci : c < i := hlt c hc
      have hcl : c < nodes.length := by omega
      unfold ChildOK
      simp only [hci, if_true]
      refine ⟨enum_temp_eq_length nodes negs c, ?_⟩
      by_cases hct : nodes[c] = .tru
      · rw [if_pos ((enum_isTru nodes negs c hcl).mpr hct)]
        have : modelsA nodes negs c = fModelsA negs nodes[c] _ := val_eq [] (fModelsA negs) nodes c hcl
        rw [this, hct]
        rfl
      · rw [if_neg (fun h => hct ((enum_isTru nodes negs c hcl).mp h))]
        intro r'
        exact ih c hci hcl hct r'
    · intro cs hcs c hc
      have hci : c < i := hlt c (by rw [hcs]; exact hc)
      have hcl : c < nodes.length := by omega
      simp only [hci, if_true]
      have := hnt i hi cs hcs c hc hcl
      cases hb : (val default (fEnum negs) nodes c).isTru with
      | false => rfl
      | true => exact absurd ((enum_isTru nodes negs c hcl).mp hb) this
    · exact hnotTru

theorem rootIx_lt (nodes : List NType) (hne : nodes ≠ []) : rootIx nodes < nodes.length := by
  unfold rootIx
  have : nodes.length ≠ 0 := fun h => hne (List.length_eq_zero_iff.mp h)
  omega

theorem getElem_rootIx (nodes : List NType) (hne : nodes ≠ []) :
    nodes.getLast? = some (nodes[rootIx nodes]'(rootIx_lt nodes hne)) := by
  rw [List.getLast?_eq_getElem?]
  exact List.getElem?_eq_getElem (rootIx_lt nodes hne)

/-- `enumerate_node((r0, r1), root)` returns the slice `[r0, r1)` of the listed models of the
root that are compatible with the assumptions -/
theorem enumNode_eq_slice (nodes : List NType) (negs : List Int) (htopo : Topo nodes)
    (hnt : NoTruUnderOr nodes) (hroot : nodes.getLast? ≠ some .tru) (hne : nodes ≠ [])
    (r0 r1 : Nat) :
    enumNode nodes negs r0 r1 = ((modelsA nodes negs (rootIx nodes)).take r1).drop r0 := by
  unfold enumNode
  rw [enumPre_eq_take nodes negs htopo hnt (rootIx nodes) (rootIx_lt nodes hne)]
  intro h
  apply hroot
  rw [getElem_rootIx nodes hne, h]

end Ddnnf
