/-
  Top-k configurations, part 1: the specification `IsTopK`, generic facts about it (the
  "dominating sub-multiset" argument that shows that truncating the child lists to k entries is
  harmless), the k-way merge `mergeOr`, and the sorted list of values `sortDesc`.
-/
import DdnnfVerif.Model.Optimal
import DdnnfVerif.Proofs.Best

namespace Ddnnf

/-! ### specification -/

/-- sorted non-increasingly by value -/
def Desc (l : List OC) : Prop := l.Pairwise (fun a b => b.value ≤ a.value)

/-- two entries with the same value whose configurations contain the same literals -/
def OC.Equiv (a b : OC) : Prop := a.value = b.value ∧ a.cfg.Perm b.cfg

/-- pointwise relation of two lists (`List.Forall₂`) -/
inductive PW {α β} (R : α → β → Prop) : List α → List β → Prop
  | nil : PW R [] []
  | cons {a b as bs} : R a b → PW R as bs → PW R (a :: as) (b :: bs)

/-- `a` is a rearrangement of `b` up to the order of the literals inside the configurations -/
def PermE (a b : List OC) : Prop := ∃ b', a.Perm b' ∧ PW OC.Equiv b' b

/-- `out` is a top-k selection of the value/config list `all`: it is sorted non-increasingly by
value, has length `min k |all|`, it is (up to the order of the literals inside a configuration)
a sub-multiset of `all` (`out ++ rest` is a rearrangement of `all`) and nothing omitted (`rest`)
has a larger value than anything included. -/
def IsTopK (k : Nat) (all out : List OC) : Prop :=
  Desc out ∧ out.length = min k all.length ∧
  ∃ rest, PermE (out ++ rest) all ∧ ∀ x ∈ out, ∀ y ∈ rest, y.value ≤ x.value

/-- the same with an exact sub-multiset (used for the intermediate results) -/
def IsTopKS (k : Nat) (all out : List OC) : Prop :=
  Desc out ∧ out.length = min k all.length ∧
  ∃ rest, (out ++ rest).Perm all ∧ ∀ x ∈ out, ∀ y ∈ rest, y.value ≤ x.value

theorem PW.length_eq {α β} {R : α → β → Prop} {a : List α} {b : List β} (h : PW R a b) :
    a.length = b.length := by
  induction h with
  | nil => rfl
  | cons _ _ ih => simp [ih]

theorem PW.map_eq {α β γ} {R : α → β → Prop} {a : List α} {b : List β} (f : α → γ) (g : β → γ)
    (h : PW R a b) (hfg : ∀ x y, R x y → f x = g y) : a.map f = b.map g := by
  induction h with
  | nil => rfl
  | cons hr _ ih => simp [ih, hfg _ _ hr]

theorem PermE.length_eq {a b : List OC} (h : PermE a b) : a.length = b.length := by
  obtain ⟨b', h1, h2⟩ := h
  rw [h1.length_eq, h2.length_eq]

theorem PermE.values {a b : List OC} (h : PermE a b) :
    (a.map (·.value)).Perm (b.map (·.value)) := by
  obtain ⟨b', h1, h2⟩ := h
  rw [← h2.map_eq (·.value) (·.value) (fun x y hxy => hxy.1)]
  exact h1.map _

theorem IsTopKS.isTopK {k all out} (h : IsTopKS k all out) : IsTopK k all out := by
  obtain ⟨h1, h2, rest, h3, h4⟩ := h
  refine ⟨h1, h2, rest, ⟨all, h3, ?_⟩, h4⟩
  clear h3 h2
  induction all with
  | nil => exact .nil
  | cons a as ih => exact .cons ⟨rfl, List.Perm.refl _⟩ ih

/-- transfer of a strict top-k along a pointwise equivalence of the full lists -/
theorem IsTopKS.transfer {k all all' out} (h : IsTopKS k all out) (he : PW OC.Equiv all all') :
    IsTopK k all' out := by
  obtain ⟨h1, h2, rest, h3, h4⟩ := h
  exact ⟨h1, by rw [h2, he.length_eq], rest, ⟨all, h3, he⟩, h4⟩

theorem isTopKS_nil (k : Nat) : IsTopKS k [] [] :=
  ⟨List.Pairwise.nil, by simp, [], by simp, by intro x hx; cases hx⟩

theorem isTopKS_zero (all : List OC) : IsTopKS 0 all [] :=
  ⟨List.Pairwise.nil, by simp, all, by simp, by intro x hx; cases hx⟩

theorem IsTopKS.desc {k all out} (h : IsTopKS k all out) : Desc out := h.1

theorem IsTopKS.of_min {n k all out} (h : IsTopKS n all out)
    (hk : min n all.length = min k all.length) : IsTopKS k all out :=
  ⟨h.1, h.2.1.trans hk, h.2.2⟩

theorem IsTopKS.mem {k all out} (h : IsTopKS k all out) {x : OC} (hx : x ∈ out) : x ∈ all := by
  obtain ⟨_, _, rest, h3, _⟩ := h
  exact h3.subset (List.mem_append_left _ hx)

/-- one step of a selection procedure: take a maximum, then a top-n of the remainder -/
theorem isTopKS_cons {n : Nat} {all all' out : List OC} {x : OC} (hp : all.Perm (x :: all'))
    (hmax : ∀ y ∈ all', y.value ≤ x.value) (h : IsTopKS n all' out) :
    IsTopKS (n + 1) all (x :: out) := by
  obtain ⟨h1, h2, rest, h3, h4⟩ := h
  refine ⟨?_, ?_, rest, ?_, ?_⟩
  · refine List.Pairwise.cons ?_ h1
    intro y hy
    exact hmax y (h3.subset (List.mem_append_left _ hy))
  · have := hp.length_eq
    simp only [List.length_cons] at this ⊢
    omega
  · exact ((List.Perm.cons x h3).trans hp.symm)
  · intro x' hx' y hy
    rcases List.mem_cons.mp hx' with rfl | hx''
    · exact hmax y (h3.subset (List.mem_append_right _ hy))
    · exact h4 x' hx'' y hy

theorem Desc.head_max {y : OC} {ys : List OC} (h : Desc (y :: ys)) :
    ∀ z ∈ y :: ys, z.value ≤ y.value := by
  intro z hz
  rcases List.mem_cons.mp hz with rfl | hz
  · exact Int.le_refl _
  · exact List.rel_of_pairwise_cons h hz

theorem Desc.tail {y : OC} {ys : List OC} (h : Desc (y :: ys)) : Desc ys :=
  List.Pairwise.of_cons h

/-! ### dominating sub-multisets

`Dom k all sub`: `sub` is a sub-multiset of `all` and every omitted element is dominated by at
least `k` elements of `sub`.  A top-k of `sub` is then a top-k of `all`.  `Dom` is reflexive,
transitive, holds for a top-k selection, and is compatible with concatenation and with the
product of two lists - this is why the child lists may be truncated to `k` entries. -/

def Dom (k : Nat) (all sub : List OC) : Prop :=
  ∃ others, (sub ++ others).Perm all ∧
    ∀ t ∈ others, k ≤ sub.countP (fun s => decide (t.value ≤ s.value))

theorem Dom.refl (k : Nat) (a : List OC) : Dom k a a :=
  ⟨[], by simp, by intro t ht; cases ht⟩

theorem IsTopKS.dom {k all out} (h : IsTopKS k all out) : Dom k all out := by
  obtain ⟨_, h2, rest, h3, h4⟩ := h
  refine ⟨rest, h3, ?_⟩
  intro t ht
  have hlen := h3.length_eq
  rw [List.length_append] at hlen
  have hpos : 0 < rest.length := List.length_pos_of_mem ht
  have hall : out.countP (fun s => decide (t.value ≤ s.value)) = out.length := by
    rw [List.countP_eq_length]
    intro s hs
    simpa using h4 s hs t ht
  rw [hall]
  omega

theorem Dom.trans {k a a' a''} (h1 : Dom k a a') (h2 : Dom k a' a'') : Dom k a a'' := by
  obtain ⟨o1, hp1, hd1⟩ := h1
  obtain ⟨o2, hp2, hd2⟩ := h2
  refine ⟨o2 ++ o1, ?_, ?_⟩
  · rw [← List.append_assoc]
    exact (hp2.append_right o1).trans hp1
  · intro t ht
    rcases List.mem_append.mp ht with ht | ht
    · exact hd2 t ht
    · have hk := hd1 t ht
      rw [← hp2.countP_eq, List.countP_append] at hk
      by_cases hz : o2.countP (fun s => decide (t.value ≤ s.value)) = 0
      · omega
      · have hpos : 0 < o2.countP (fun s => decide (t.value ≤ s.value)) := Nat.pos_of_ne_zero hz
        rw [List.countP_pos_iff] at hpos
        obtain ⟨u, hu, htu⟩ := hpos
        have htu' : t.value ≤ u.value := by simpa using htu
        refine Nat.le_trans (hd2 u hu) (List.countP_mono_left ?_)
        intro s _ hs
        have : u.value ≤ s.value := by simpa using hs
        simp only [decide_eq_true_eq]
        omega

/-- a top-k of a dominating sub-multiset is a top-k of the whole list -/
theorem Dom.isTopKS {k all sub r} (hd : Dom k all sub) (h : IsTopKS k sub r) : IsTopKS k all r := by
  obtain ⟨others, hp, hdom⟩ := hd
  obtain ⟨h1, h2, rest, h3, h4⟩ := h
  have hlen := hp.length_eq
  rw [List.length_append] at hlen
  refine ⟨h1, ?_, rest ++ others, ?_, ?_⟩
  · cases others with
    | nil => simp only [List.length_nil] at hlen; rw [h2]; omega
    | cons t ts =>
      have hk := hdom t List.mem_cons_self
      have := List.countP_le_length (p := fun s => decide (t.value ≤ s.value)) (l := sub)
      simp only [List.length_cons] at hlen
      rw [h2]; omega
  · rw [← List.append_assoc]
    exact (h3.append_right others).trans hp
  · intro x hx y hy
    rcases List.mem_append.mp hy with hy | hy
    · exact h4 x hx y hy
    · have hk := hdom y hy
      rw [← h3.countP_eq, List.countP_append] at hk
      apply Decidable.byContradiction
      intro hlt
      have hlt' : x.value < y.value := by omega
      have hz : rest.countP (fun s => decide (y.value ≤ s.value)) = 0 := by
        rw [List.countP_eq_zero]
        intro s hs
        have := h4 x hx s hs
        simp only [decide_eq_true_eq]
        omega
      have hlt2 : r.countP (fun s => decide (y.value ≤ s.value)) < r.length := by
        have e1 : r.countP (fun s => decide (y.value ≤ s.value)) ≤ r.length := List.countP_le_length
        by_cases hne : r.countP (fun s => decide (y.value ≤ s.value)) = r.length
        · rw [List.countP_eq_length] at hne
          have := hne x hx
          simp only [decide_eq_true_eq] at this
          omega
        · omega
      omega

theorem Dom.append {k a a' b b'} (h1 : Dom k a a') (h2 : Dom k b b') :
    Dom k (a ++ b) (a' ++ b') := by
  obtain ⟨oa, hpa, hda⟩ := h1
  obtain ⟨ob, hpb, hdb⟩ := h2
  refine ⟨oa ++ ob, ?_, ?_⟩
  · refine List.Perm.trans ?_ (hpa.append hpb)
    simp only [List.append_assoc]
    apply List.Perm.append_left
    rw [← List.append_assoc, ← List.append_assoc]
    exact List.Perm.append_right _ List.perm_append_comm
  · intro t ht
    rw [List.countP_append]
    rcases List.mem_append.mp ht with ht | ht
    · have := hda t ht; omega
    · have := hdb t ht; omega

theorem Dom.flatten {k : Nat} {ι} (cs : List ι) (f g : ι → List OC) (h : ∀ c ∈ cs, Dom k (f c) (g c)) :
    Dom k (cs.map f).flatten (cs.map g).flatten := by
  induction cs with
  | nil => exact Dom.refl _ _
  | cons c cs ih =>
    simp only [List.map_cons, List.flatten_cons]
    exact Dom.append (h c List.mem_cons_self) (ih (fun x hx => h x (List.mem_cons_of_mem _ hx)))

/-! ### the product of two lists of candidates -/

/-- all unions of an element of `a` with an element of `b` (outer loop over `b`) -/
def pairOC (a b : List OC) : List OC := b.flatMap (fun tl => a.map (fun hd => hd.unify tl))

theorem mem_pairOC {a b : List OC} {t : OC} :
    t ∈ pairOC a b ↔ ∃ y ∈ b, ∃ x ∈ a, t = x.unify y := by
  simp only [pairOC, List.mem_flatMap, List.mem_map]
  constructor
  · rintro ⟨y, hy, x, hx, rfl⟩; exact ⟨y, hy, x, hx, rfl⟩
  · rintro ⟨y, hy, x, hx, rfl⟩; exact ⟨y, hy, x, hx, rfl⟩

theorem pairOC_cons_right (a : List OC) (z : OC) (b : List OC) :
    pairOC a (z :: b) = a.map (fun hd => hd.unify z) ++ pairOC a b := by
  simp [pairOC]

theorem pairOC_append_right (a b1 b2 : List OC) :
    pairOC a (b1 ++ b2) = pairOC a b1 ++ pairOC a b2 := by
  simp [pairOC]

theorem pairOC_append_left (a1 a2 b : List OC) :
    (pairOC (a1 ++ a2) b).Perm (pairOC a1 b ++ pairOC a2 b) := by
  induction b with
  | nil => simp [pairOC]
  | cons z b ih =>
    simp only [pairOC_cons_right, List.map_append]
    refine List.Perm.trans (List.Perm.append_left _ ih) ?_
    simp only [List.append_assoc]
    apply List.Perm.append_left
    rw [← List.append_assoc, ← List.append_assoc]
    exact List.Perm.append_right _ List.perm_append_comm

theorem pairOC_perm_right (a : List OC) {b b' : List OC} (h : b.Perm b') :
    (pairOC a b).Perm (pairOC a b') := List.Perm.flatMap_right _ h

theorem pairOC_perm_left {a a' : List OC} (h : a.Perm a') (b : List OC) :
    (pairOC a b).Perm (pairOC a' b) := by
  induction b with
  | nil => simp [pairOC]
  | cons z b ih =>
    simp only [pairOC_cons_right]
    exact (h.map _).append ih

theorem unify_value (a b : OC) : (a.unify b).value = a.value + b.value := rfl
theorem unify_cfg (a b : OC) : (a.unify b).cfg = a.cfg ++ b.cfg := rfl

theorem countP_pairOC_left (a : List OC) {b : List OC} {y : OC} (hy : y ∈ b) (o : OC) :
    a.countP (fun s => decide (o.value ≤ s.value))
      ≤ (pairOC a b).countP (fun s => decide ((o.unify y).value ≤ s.value)) := by
  induction b with
  | nil => cases hy
  | cons z b ih =>
    rw [pairOC_cons_right, List.countP_append]
    rcases List.mem_cons.mp hy with rfl | hy'
    · rw [List.countP_map]
      refine Nat.le_trans (List.countP_mono_left ?_) (Nat.le_add_right _ _)
      intro s _ hs
      have hs' : o.value ≤ s.value := by simpa using hs
      have : (o.unify y).value ≤ (s.unify y).value := by simp only [unify_value]; omega
      simpa using this
    · exact Nat.le_trans (ih hy') (Nat.le_add_left _ _)

theorem countP_pairOC_right {a : List OC} {x : OC} (hx : x ∈ a) (b : List OC) (u : OC) :
    b.countP (fun s => decide (u.value ≤ s.value))
      ≤ (pairOC a b).countP (fun s => decide ((x.unify u).value ≤ s.value)) := by
  induction b with
  | nil => simp [pairOC]
  | cons z b ih =>
    rw [pairOC_cons_right, List.countP_append, List.countP_cons]
    by_cases hz : u.value ≤ z.value
    · have hpos : 0 < (a.map (fun hd => hd.unify z)).countP
          (fun s => decide ((x.unify u).value ≤ s.value)) := by
        rw [List.countP_pos_iff]
        have : (x.unify u).value ≤ (x.unify z).value := by simp only [unify_value]; omega
        exact ⟨x.unify z, List.mem_map.mpr ⟨x, hx, rfl⟩, by simpa using this⟩
      simp only [hz, decide_true, if_true]
      omega
    · simp only [hz, decide_false]
      simp only [Bool.false_eq_true, if_false]
      omega

theorem Dom.pair_left {k a a'} (h : Dom k a a') (b : List OC) : Dom k (pairOC a b) (pairOC a' b) := by
  obtain ⟨oa, hp, hd⟩ := h
  refine ⟨pairOC oa b, ?_, ?_⟩
  · exact (pairOC_append_left a' oa b).symm.trans (pairOC_perm_left hp b)
  · intro t ht
    obtain ⟨y, hy, o, ho, rfl⟩ := mem_pairOC.mp ht
    exact Nat.le_trans (hd o ho) (countP_pairOC_left a' hy o)

theorem Dom.pair_right {k b b'} (a : List OC) (h : Dom k b b') : Dom k (pairOC a b) (pairOC a b') := by
  obtain ⟨ob, hp, hd⟩ := h
  refine ⟨pairOC a ob, ?_, ?_⟩
  · rw [← pairOC_append_right]
    exact pairOC_perm_right a hp
  · intro t ht
    obtain ⟨u, hu, x, hx, rfl⟩ := mem_pairOC.mp ht
    exact Nat.le_trans (hd u hu) (countP_pairOC_right hx b' u)

theorem Dom.pair {k a a' b b'} (h1 : Dom k a a') (h2 : Dom k b b') :
    Dom k (pairOC a b) (pairOC a' b') :=
  (h1.pair_left b).trans (Dom.pair_right a' h2)

/-- n-ary product of candidate lists, in the order of `prodConfigs` -/
def prodOC : List (List OC) → List OC
  | [] => [OC.empty]
  | l :: rest => pairOC l (prodOC rest)

theorem Dom.prod {k : Nat} {ι} (cs : List ι) (f g : ι → List OC) (h : ∀ c ∈ cs, Dom k (f c) (g c)) :
    Dom k (prodOC (cs.map f)) (prodOC (cs.map g)) := by
  induction cs with
  | nil => exact Dom.refl _ _
  | cons c cs ih =>
    simp only [List.map_cons, prodOC]
    exact Dom.pair (h c List.mem_cons_self) (ih (fun x hx => h x (List.mem_cons_of_mem _ hx)))

/-! ### `mergeOr`: k-way merge of descending lists -/

theorem bestHead_go_spec (ls : List (List OC)) (i : Nat) (acc : Option (Nat × Int)) :
    (bestHead.go ls i acc = none → acc = none ∧ ∀ l ∈ ls, l = []) ∧
    (∀ j v, bestHead.go ls i acc = some (j, v) →
        (acc = some (j, v) ∨ (i ≤ j ∧ ∃ x xs, ls[j - i]? = some (x :: xs) ∧ x.value = v)) ∧
        (∀ j' v', acc = some (j', v') → v' ≤ v) ∧
        ∀ l ∈ ls, ∀ x xs, l = x :: xs → x.value ≤ v) := by
  induction ls generalizing i acc with
  | nil =>
    simp only [bestHead.go]
    refine ⟨fun h => ⟨h, by intro l hl; cases hl⟩, ?_⟩
    intro j v h
    refine ⟨Or.inl h, ?_, by intro l hl; cases hl⟩
    intro j' v' h'
    rw [h] at h'
    simp only [Option.some.injEq, Prod.mk.injEq] at h'
    omega
  | cons l rest ih =>
    cases l with
    | nil =>
      simp only [bestHead.go]
      obtain ⟨ih1, ih2⟩ := ih (i + 1) acc
      constructor
      · intro h
        refine ⟨(ih1 h).1, ?_⟩
        intro l hl
        rcases List.mem_cons.mp hl with rfl | hl
        · rfl
        · exact (ih1 h).2 l hl
      · intro j v h
        obtain ⟨h1, h2, h3⟩ := ih2 j v h
        refine ⟨?_, h2, ?_⟩
        · rcases h1 with h1 | ⟨hij, x, xs, hx, hv⟩
          · exact Or.inl h1
          · right
            refine ⟨by omega, x, xs, ?_, hv⟩
            have : j - i = (j - (i + 1)) + 1 := by omega
            rw [this, List.getElem?_cons_succ]
            exact hx
        · intro l hl x xs hlx
          rcases List.mem_cons.mp hl with rfl | hl
          · cases hlx
          · exact h3 l hl x xs hlx
    | cons x xs =>
      have key : ∀ j0 v0,
          (((acc = some (j0, v0)) ∨ (j0 = i ∧ v0 = x.value)) ∧ x.value ≤ v0 ∧
            ∀ j'' v'', acc = some (j'', v'') → v'' ≤ v0) →
          (bestHead.go rest (i + 1) (some (j0, v0)) = none → acc = none ∧ ∀ l ∈ (x :: xs) :: rest, l = []) ∧
          (∀ j v, bestHead.go rest (i + 1) (some (j0, v0)) = some (j, v) →
            (acc = some (j, v) ∨ (i ≤ j ∧ ∃ y ys, ((x :: xs) :: rest)[j - i]? = some (y :: ys) ∧
                y.value = v)) ∧
            (∀ j' v', acc = some (j', v') → v' ≤ v) ∧
            ∀ l ∈ (x :: xs) :: rest, ∀ y ys, l = y :: ys → y.value ≤ v) := by
        intro j0 v0 h0
        obtain ⟨ih1, ih2⟩ := ih (i + 1) (some (j0, v0))
        constructor
        · intro h
          have := (ih1 h).1
          cases this
        · intro j v h
          obtain ⟨h1, h2, h3⟩ := ih2 j v h
          have hv0 := h2 j0 v0 rfl
          refine ⟨?_, ?_, ?_⟩
          · rcases h1 with h1 | ⟨hij, y, ys, hy, hyv⟩
            · simp only [Option.some.injEq, Prod.mk.injEq] at h1
              obtain ⟨rfl, rfl⟩ := h1
              rcases h0.1 with h | ⟨rfl, rfl⟩
              · exact Or.inl h
              · right
                exact ⟨Nat.le_refl _, x, xs, by simp, rfl⟩
            · right
              refine ⟨by omega, y, ys, ?_, hyv⟩
              have : j - i = (j - (i + 1)) + 1 := by omega
              rw [this, List.getElem?_cons_succ]
              exact hy
          · intro j' v' h
            have := h0.2.2 j' v' h
            omega
          · intro l hl y ys hly
            rcases List.mem_cons.mp hl with rfl | hl
            · simp only [List.cons.injEq] at hly
              obtain ⟨rfl, _⟩ := hly
              have := h0.2.1
              omega
            · exact h3 l hl y ys hly
      cases acc with
      | none =>
        have e : bestHead.go ((x :: xs) :: rest) i none
            = bestHead.go rest (i + 1) (some (i, x.value)) := by simp only [bestHead.go]
        rw [e]
        apply key
        exact ⟨Or.inr ⟨rfl, rfl⟩, Int.le_refl _, by intro _ _ h; cases h⟩
      | some p =>
        obtain ⟨j0, v0⟩ := p
        have e : bestHead.go ((x :: xs) :: rest) i (some (j0, v0))
            = bestHead.go rest (i + 1) (if v0 ≤ x.value then some (i, x.value) else some (j0, v0)) := by
          simp only [bestHead.go]
        rw [e]
        by_cases hle : v0 ≤ x.value
        · rw [if_pos hle]
          apply key
          refine ⟨Or.inr ⟨rfl, rfl⟩, Int.le_refl _, ?_⟩
          intro j'' v'' h
          simp only [Option.some.injEq, Prod.mk.injEq] at h
          omega
        · rw [if_neg hle]
          apply key
          refine ⟨Or.inl rfl, by omega, ?_⟩
          intro j'' v'' h
          simp only [Option.some.injEq, Prod.mk.injEq] at h
          omega

theorem bestHead_none {lists : List (List OC)} (h : bestHead lists = none) : ∀ l ∈ lists, l = [] := by
  unfold bestHead at h
  have := (bestHead_go_spec lists 0 none).1
  cases hg : bestHead.go lists 0 none with
  | none => exact (this hg).2
  | some p => rw [hg] at h; simp at h

theorem bestHead_some {lists : List (List OC)} {j : Nat} (h : bestHead lists = some j) :
    ∃ x xs, lists[j]? = some (x :: xs) ∧ ∀ l ∈ lists, ∀ y ys, l = y :: ys → y.value ≤ x.value := by
  unfold bestHead at h
  cases hg : bestHead.go lists 0 none with
  | none => rw [hg] at h; simp at h
  | some p =>
    obtain ⟨j', v⟩ := p
    rw [hg] at h
    simp only [Option.map_some, Option.some.injEq] at h
    subst h
    obtain ⟨h1, _, h3⟩ := (bestHead_go_spec lists 0 none).2 j' v hg
    rcases h1 with h1 | ⟨_, x, xs, hx, hv⟩
    · cases h1
    · refine ⟨x, xs, by simpa using hx, ?_⟩
      intro l hl y ys hly
      rw [hv]
      exact h3 l hl y ys hly

theorem popAt_spec (lists : List (List OC)) (j : Nat) (x : OC) (xs : List OC)
    (h : lists[j]? = some (x :: xs)) :
    ∃ lists', popAt lists j = some (x, lists') ∧ lists.flatten.Perm (x :: lists'.flatten) ∧
      ∀ l' ∈ lists', l' ∈ lists ∨ (x :: l') ∈ lists := by
  induction lists generalizing j with
  | nil => simp at h
  | cons l rest ih =>
    cases j with
    | zero =>
      simp only [List.getElem?_cons_zero, Option.some.injEq] at h
      subst h
      refine ⟨xs :: rest, rfl, by simp, ?_⟩
      intro l' hl'
      rcases List.mem_cons.mp hl' with rfl | hl'
      · right; exact List.mem_cons_self
      · left; exact List.mem_cons_of_mem _ hl'
    | succ j =>
      rw [List.getElem?_cons_succ] at h
      obtain ⟨lists', h1, h2, h3⟩ := ih j h
      refine ⟨l :: lists', by simp [popAt, h1], ?_, ?_⟩
      · simp only [List.flatten_cons]
        exact (List.Perm.append_left l h2).trans List.perm_middle
      · intro l' hl'
        rcases List.mem_cons.mp hl' with rfl | hl'
        · left; exact List.mem_cons_self
        · rcases h3 l' hl' with h | h
          · left; exact List.mem_cons_of_mem _ h
          · right; exact List.mem_cons_of_mem _ h

/-- the k-way merge of descending lists yields the top-`fuel` of their concatenation -/
theorem mergeOr_correct (fuel : Nat) (lists : List (List OC)) (hd : ∀ l ∈ lists, Desc l) :
    IsTopKS fuel lists.flatten (mergeOr fuel lists) := by
  induction fuel generalizing lists with
  | zero => exact isTopKS_zero _
  | succ fuel ih =>
    simp only [mergeOr]
    cases hb : bestHead lists with
    | none =>
      have hnil : lists.flatten = [] := by
        rw [List.flatten_eq_nil_iff]
        exact bestHead_none hb
      rw [hnil]
      exact isTopKS_nil _
    | some j =>
      obtain ⟨x, xs, hx, hmax⟩ := bestHead_some hb
      obtain ⟨lists', h1, h2, h3⟩ := popAt_spec lists j x xs hx
      simp only [h1]
      have hd' : ∀ l' ∈ lists', Desc l' := by
        intro l' hl'
        rcases h3 l' hl' with h | h
        · exact hd l' h
        · exact (hd _ h).tail
      refine isTopKS_cons h2 ?_ (ih lists' hd')
      intro y hy
      have hy' : y ∈ lists.flatten := h2.symm.subset (List.mem_cons_of_mem _ hy)
      rw [List.mem_flatten] at hy'
      obtain ⟨l, hl, hyl⟩ := hy'
      cases l with
      | nil => cases hyl
      | cons z zs =>
        have := (hd _ hl).head_max y hyl
        have := hmax _ hl z zs rfl
        omega

/-! ### the sorted list of values -/

def insDesc (x : Int) : List Int → List Int
  | [] => [x]
  | y :: ys => if y ≤ x then x :: y :: ys else y :: insDesc x ys

/-- insertion sort, non-increasing -/
def sortDesc : List Int → List Int
  | [] => []
  | x :: xs => insDesc x (sortDesc xs)

theorem insDesc_perm (x : Int) (l : List Int) : (insDesc x l).Perm (x :: l) := by
  induction l with
  | nil => exact List.Perm.refl _
  | cons y ys ih =>
    simp only [insDesc]
    by_cases h : y ≤ x
    · rw [if_pos h]
    · rw [if_neg h]
      exact (List.Perm.cons y ih).trans (List.Perm.swap x y ys)

theorem sortDesc_perm (l : List Int) : (sortDesc l).Perm l := by
  induction l with
  | nil => exact List.Perm.refl _
  | cons x xs ih => exact (insDesc_perm x _).trans (List.Perm.cons x ih)

theorem insDesc_sorted (x : Int) (l : List Int) (h : l.Pairwise (fun a b => b ≤ a)) :
    (insDesc x l).Pairwise (fun a b => b ≤ a) := by
  induction l with
  | nil => simp [insDesc]
  | cons y ys ih =>
    simp only [insDesc]
    by_cases hyx : y ≤ x
    · rw [if_pos hyx]
      refine List.Pairwise.cons ?_ h
      intro z hz
      rcases List.mem_cons.mp hz with rfl | hz
      · exact hyx
      · have := List.rel_of_pairwise_cons h hz
        omega
    · rw [if_neg hyx]
      refine List.Pairwise.cons ?_ (ih (List.Pairwise.of_cons h))
      intro z hz
      have hz' := (insDesc_perm x ys).subset hz
      rcases List.mem_cons.mp hz' with rfl | hz'
      · omega
      · exact List.rel_of_pairwise_cons h hz'

theorem sortDesc_sorted (l : List Int) : (sortDesc l).Pairwise (fun a b => b ≤ a) := by
  induction l with
  | nil => exact List.Pairwise.nil
  | cons x xs ih => exact insDesc_sorted x _ ih

/-- a non-increasing list is determined by its multiset of elements -/
theorem sorted_perm_eq {a b : List Int} (ha : a.Pairwise (fun x y => y ≤ x))
    (hb : b.Pairwise (fun x y => y ≤ x)) (h : a.Perm b) : a = b :=
  List.Perm.eq_of_pairwise (le := fun x y => y ≤ x) (fun x y _ _ h1 h2 => by omega) ha hb h

theorem sortDesc_eq_of_perm {a b : List Int} (h : a.Perm b) : sortDesc a = sortDesc b :=
  sorted_perm_eq (sortDesc_sorted a) (sortDesc_sorted b)
    ((sortDesc_perm a).trans (h.trans (sortDesc_perm b).symm))

/-- the value sequence of a top-k selection is the sequence of the k largest values -/
theorem IsTopK.values {k all out} (h : IsTopK k all out) :
    out.map (·.value) = (sortDesc (all.map (·.value))).take k := by
  obtain ⟨h1, h2, rest, h3, h4⟩ := h
  have hv := h3.values
  have hlen := h3.length_eq
  rw [List.length_append] at hlen
  rw [List.map_append] at hv
  have hsorted : (out.map (·.value) ++ sortDesc (rest.map (·.value))).Pairwise (fun x y => y ≤ x) := by
    rw [List.pairwise_append]
    refine ⟨?_, sortDesc_sorted _, ?_⟩
    · rw [List.pairwise_map]
      exact h1
    · intro a ha b hb
      rw [List.mem_map] at ha
      obtain ⟨x, hx, rfl⟩ := ha
      have hb' := (sortDesc_perm _).subset hb
      rw [List.mem_map] at hb'
      obtain ⟨y, hy, rfl⟩ := hb'
      exact h4 x hx y hy
  have heq : sortDesc (all.map (·.value)) = out.map (·.value) ++ sortDesc (rest.map (·.value)) := by
    apply sorted_perm_eq (sortDesc_sorted _) hsorted
    refine (sortDesc_perm _).trans (hv.symm.trans ?_)
    exact List.Perm.append_left _ (sortDesc_perm _).symm
  rw [heq]
  by_cases hk : k ≤ all.length
  · have : (out.map (·.value)).length = k := by rw [List.length_map, h2]; omega
    rw [List.take_append_of_le_length (by omega), List.take_of_length_le (by omega)]
  · have hr : rest = [] := by
      apply List.eq_nil_of_length_eq_zero
      omega
    rw [hr]
    simp only [List.map_nil, sortDesc, List.append_nil]
    rw [List.take_of_length_le (by rw [List.length_map]; omega)]

end Ddnnf
