/-
  Two structural facts about the array the d4 loader produces (part 3): **every node but the root has a
  parent**.

  `SrcInner g` (only and / or nodes have successors) is assumed for the graph of phase 1 — d4 texts have
  no edges that leave a `t` / `f` node — and kept by all later phases, provided the And root of phase 2
  survives the True/False elimination (`st4_srcInner`).  The root survives when the text is satisfiable
  (`root_alive`).  With `flattenGraph_hasParents` this gives `load_hasParents`.

  Both extra assumptions are necessary (`hasParents_needs_srcInner`, `hasParents_needs_sat`): without
  them the loader produces arrays with nodes that no later node refers to.
-/
import DdnnfVerif.Proofs.LoadUniq2
import DdnnfVerif.Proofs.LoadWF2_13
import DdnnfVerif.Proofs.PDLeaf
import DdnnfVerif.Proofs.MarkState

namespace Ddnnf.D4

/-! ### the graph operations -/

/-- an inner node -/
def Inner (g : G) (x : Nat) : Prop := g.kindOf x = some .and ∨ g.kindOf x = some .or

theorem Inner.lt {g : G} {x : Nat} (h : Inner g x) : x < g.kind.size := by
  rcases h with h | h <;> exact kindOf_lt h

theorem srcInner_addNode {g : G} (h : SrcInner g) (k : GK) : SrcInner (g.addNode k).1 := by
  intro x c hc
  rw [outs_addNode] at hc
  have hk : Inner g x := h x c hc
  rw [kindOf_addNode, if_neg (Nat.ne_of_lt hk.lt)]
  exact hk

theorem inner_addNode {g : G} {x : Nat} (h : Inner g x) (k : GK) : Inner (g.addNode k).1 x := by
  unfold Inner
  rw [kindOf_addNode, if_neg (Nat.ne_of_lt h.lt)]
  exact h

theorem srcInner_addEdge {g : G} (h : SrcInner g) (a b : Nat) (ha : Inner g a) :
    SrcInner (g.addEdge a b) := by
  intro x c hc
  show g.kindOf x = some .and ∨ g.kindOf x = some .or
  rcases mem_outs_addEdge hc with ⟨e, _⟩ | hc
  · rw [e]; exact ha
  · exact h x c hc

theorem srcInner_removeEdge {g : G} (h : SrcInner g) (a b : Nat) : SrcInner (g.removeEdge a b) :=
  fun x c hc => h x c (mem_outs_removeEdge hc)

theorem srcInner_removeNode {g : G} (h : SrcInner g) (x : Nat) : SrcInner (g.removeNode x) := by
  intro y c hc
  rw [removeNode_outs] at hc
  rw [removeNode_kindOf]
  by_cases hy : y = x
  · rw [if_pos hy] at hc; cases hc
  · rw [if_neg hy] at hc ⊢
    apply h y c
    split at hc
    · exact (List.mem_filter.1 hc).1
    · exact hc

theorem srcInner_makeTrue {g : G} (h : SrcInner g) (x : Nat) (hk : g.kindOf x = some .or) :
    SrcInner (g.makeTrue x) := by
  intro y c hc
  rw [makeTrue_outs] at hc
  rw [makeTrue_kindOf g x y (kindOf_lt hk)]
  by_cases hy : y = x
  · rw [if_pos hy] at hc; cases hc
  · rw [if_neg hy] at hc ⊢
    exact h y c hc

/-- the True/False elimination removes successors only -/
theorem srcInner_eliminate {g : G} (h : SrcInner g) (root : Nat) : SrcInner (eliminate g root) :=
  eliminate_closed SrcInner (fun _ a b h => srcInner_removeEdge h a b)
    (fun _ x _ h => srcInner_removeNode h x) (fun _ x hk h => srcInner_makeTrue h x hk)
    (fun _ h => fun x c hc => h x c hc) g root h

/-! ### literals and triangles -/

theorem getLit_srcInner (s : LState) (l : Int) (h : SrcInner s.g) : SrcInner (s.getLit l).1.g := by
  cases hf : s.litNx.find? (·.1 == l) with
  | some e => rw [getLit_found s l e hf]; exact h
  | none => rw [getLit_new s l hf]; exact srcInner_addNode h _

theorem getLit_inner (s : LState) (l : Int) {x : Nat} (h : Inner s.g x) : Inner (s.getLit l).1.g x := by
  unfold Inner
  rw [getLit_kindOf_old s l x h.lt]
  exact h

theorem addTriangle_srcInner (s : LState) (f A : Nat) (h : SrcInner s.g) (hA : Inner s.g A) :
    SrcInner (s.addTriangle f A).g := by
  cases hfind : s.tri.find? (·.1 == f) with
  | some e =>
    rw [addTriangle_found s f A e hfind]
    exact srcInner_addEdge h A e.2 hA
  | none =>
    rw [addTriangle_new s f A hfind]
    unfold triNew
    dsimp only
    have h1 : SrcInner ({ s with g := (s.g.addNode .or).1, tri := (f, (s.g.addNode .or).2) :: s.tri } : LState).g :=
      srcInner_addNode h .or
    have hA1 : Inner ({ s with g := (s.g.addNode .or).1, tri := (f, (s.g.addNode .or).2) :: s.tri } : LState).g A :=
      inner_addNode hA .or
    have ho1 : Inner ({ s with g := (s.g.addNode .or).1, tri := (f, (s.g.addNode .or).2) :: s.tri } : LState).g
        (s.g.addNode .or).2 := by
      right
      show (s.g.addNode .or).1.kindOf s.g.kind.size = some .or
      rw [kindOf_addNode, if_pos rfl]
    have h3 := getLit_srcInner _ (-(f : Int)) (getLit_srcInner _ (f : Int) h1)
    have hA3 := getLit_inner _ (-(f : Int)) (getLit_inner _ (f : Int) hA1)
    have ho3 := getLit_inner _ (-(f : Int)) (getLit_inner _ (f : Int) ho1)
    exact srcInner_addEdge (srcInner_addEdge (srcInner_addEdge h3 A _ hA3) _ _ ho3) _ _ ho3

theorem addTriangle_inner (s : LState) (f A : Nat) {x : Nat} (h : Inner s.g x) :
    Inner (s.addTriangle f A).g x := by
  unfold Inner
  rw [(addTriangle_frame s f A).2.1 x h.lt]
  exact h

theorem addTriangles_srcInner (A : Nat) : ∀ (order : List Nat) (s : LState), SrcInner s.g → Inner s.g A →
    SrcInner (order.foldl (fun t f => t.addTriangle f A) s).g := by
  intro order
  induction order with
  | nil => intro s h _; exact h
  | cons f fs ih =>
    intro s h hA
    rw [List.foldl_cons]
    exact ih _ (addTriangle_srcInner s f A h hA) (addTriangle_inner s f A hA)

/-! ### phases 2 and 3b -/

theorem wrapTri_srcInner (s : LState) (root f : Nat) (h : SrcInner s.g)
    (hr : root = 0 ∨ s.g.kindOf root = some .and) :
    SrcInner (wrapTri s root f).1.g ∧ (wrapTri s root f).1.g.kindOf (wrapTri s root f).2 = some .and := by
  by_cases h0 : root = 0
  · subst h0
    rw [wrapTri_zero]
    dsimp only
    have hk : ({ s with g := (s.g.addNode .and).1.addEdge s.g.kind.size 0 } : LState).g.kindOf s.g.kind.size
        = some .and := by
      show (s.g.addNode .and).1.kindOf s.g.kind.size = _
      rw [kindOf_addNode, if_pos rfl]
    have hw : SrcInner ({ s with g := (s.g.addNode .and).1.addEdge s.g.kind.size 0 } : LState).g :=
      srcInner_addEdge (srcInner_addNode h .and) _ _ (Or.inl hk)
    refine ⟨addTriangle_srcInner _ f _ hw (Or.inl hk), ?_⟩
    rw [(addTriangle_frame _ f _).2.1 _ (kindOf_lt hk)]
    exact hk
  · rw [wrapTri_ne s root f h0]
    have hk := hr.resolve_left h0
    refine ⟨addTriangle_srcInner s f root h (Or.inl hk), ?_⟩
    show (s.addTriangle f root).g.kindOf root = _
    rw [(addTriangle_frame s f root).2.1 _ (kindOf_lt hk)]
    exact hk

theorem wrapFold_srcInner (skip : LState → Nat → Bool) (ks : List Nat) (s : LState) (root : Nat)
    (h : SrcInner s.g) (hr : root = 0 ∨ s.g.kindOf root = some .and) :
    SrcInner (ks.foldl (wrapFoldStep skip) (s, root)).1.g ∧
      ((ks.foldl (wrapFoldStep skip) (s, root)).2 = 0 ∨
        (ks.foldl (wrapFoldStep skip) (s, root)).1.g.kindOf (ks.foldl (wrapFoldStep skip) (s, root)).2
          = some .and) := by
  refine foldl_inv (fun (acc : LState × Nat) => SrcInner acc.1.g ∧
    (acc.2 = 0 ∨ acc.1.g.kindOf acc.2 = some .and)) _ _ ?_ (s, root) ⟨h, hr⟩
  intro acc k _ hacc
  unfold wrapFoldStep
  split
  · exact hacc
  · have := wrapTri_srcInner acc.1 acc.2 (k + 1) hacc.1 hacc.2
    exact ⟨this.1, Or.inr this.2⟩

theorem addFree_srcInner (s : LState) (h : SrcInner s.g) :
    SrcInner (addFree s).1.g ∧ ((addFree s).2 = 0 ∨ (addFree s).1.g.kindOf (addFree s).2 = some .and) := by
  rw [addFree_eq_fold]; exact wrapFold_srcInner _ _ _ _ h (Or.inl rfl)

theorem addVanished_srcInner (s : LState) (root : Nat) (h : SrcInner s.g)
    (hr : root = 0 ∨ s.g.kindOf root = some .and) : SrcInner (addVanished s root).1.g := by
  rw [addVanished_eq_fold]; exact (wrapFold_srcInner _ _ _ _ h hr).1

/-! ### phase 4 -/

theorem insertAnd_srcInner (g : G) (nx child : Nat) (h : SrcInner g) (hnx : g.kindOf nx = some .or) :
    SrcInner (insertAnd g nx child) := by
  unfold insertAnd
  have hnx1 : Inner (g.addNode .and).1 nx := inner_addNode (Or.inr hnx) .and
  have hk2 : Inner (g.addNode .and).1 g.kind.size := by
    left; rw [kindOf_addNode, if_pos rfl]
  exact srcInner_addEdge (srcInner_addEdge (srcInner_removeEdge (srcInner_addNode h .and) nx child) nx _ hnx1)
    _ _ hk2

theorem balanceStep_srcInner (sorted : Bool) (h : List Nat → List Nat) (nx : Nat) (s : LState)
    (w : Nat × List Nat) (hs : SrcInner s.g) (hnx : s.g.kindOf nx = some .or) :
    SrcInner (balanceStep sorted h nx s w).g ∧ (balanceStep sorted h nx s w).g.kindOf nx = some .or := by
  obtain ⟨child, miss⟩ := w
  rw [balanceStep_eq]
  have hlt : nx < s.g.kind.size := kindOf_lt hnx
  have hsz : ({ s with g := insertAnd s.g nx child } : LState).g.kind.size = s.g.kind.size + 1 :=
    insertAnd_size s.g nx child
  have hkA : ({ s with g := insertAnd s.g nx child } : LState).g.kindOf s.g.kind.size = some .and := by
    show (insertAnd s.g nx child).kindOf s.g.kind.size = _
    rw [insertAnd_kindOf, if_pos rfl]
  refine ⟨addTriangles_srcInner _ _ _ (insertAnd_srcInner s.g nx child hs hnx) (Or.inl hkA), ?_⟩
  rw [(addTriangles_frame s.g.kind.size _ { s with g := insertAnd s.g nx child }).2.1 nx (by omega)]
  show (insertAnd s.g nx child).kindOf nx = _
  rw [insertAnd_kindOf, if_neg (Nat.ne_of_lt hlt)]
  exact hnx

theorem balance_srcInner (sorted : Bool) (h : List Nat → List Nat) (s : LState) (nx : Nat)
    (work : List (Nat × List Nat)) (hs : SrcInner s.g) (hnx : s.g.kindOf nx = some .or) :
    SrcInner (balance sorted h s nx work).g := by
  rw [balance_eq]
  exact (foldl_inv (fun (acc : LState) => SrcInner acc.g ∧ acc.g.kindOf nx = some .or) _ _
    (fun acc w _ hacc => balanceStep_srcInner sorted h nx acc w hacc.1 hacc.2) s ⟨hs, hnx⟩).1

theorem smoothStep_srcInner (sorted : Bool) (h : List Nat → List Nat) (vs : Array (List Nat))
    (acc : LState) (nx : Nat) (hs : SrcInner acc.g) : SrcInner (smoothStep sorted h vs acc nx).g := by
  unfold smoothStep
  split
  · rename_i hk
    exact balance_srcInner sorted h acc nx _ hs hk
  · exact hs

theorem smooth_srcInner (sorted : Bool) (h : List Nat → List Nat) (s : LState) (root : Nat)
    (hs : SrcInner s.g) : SrcInner (smooth sorted h s root).g := by
  rw [smooth_eq]
  exact foldl_inv (fun (acc : LState) => SrcInner acc.g) _ _
    (fun acc nx _ hacc => smoothStep_srcInner sorted h _ acc nx hacc) s hs

/-! ### the pipeline -/

/-- the And root of phase 2 (if there is one) survives the True/False elimination -/
def RootAlive (s1 : LState) : Prop :=
  (addFree s1).2 = 0 ∨ (afterElim s1).g.kindOf (addFree s1).2 = some .and

theorem st4_srcInner (sorted : Bool) (h : List Nat → List Nat) (s1 : LState) (h1 : SrcInner s1.g)
    (hroot : RootAlive s1) : SrcInner (st4 sorted h s1).g := by
  unfold st4 st3
  apply smooth_srcInner
  refine addVanished_srcInner _ _ ?_ hroot
  unfold afterElim
  exact srcInner_eliminate (addFree_srcInner s1 h1).1 _

/-- the root survives when the text is satisfiable (and the loader does not raise its error flag) -/
theorem root_alive (s1 : LState) (r : Nat → Nat) (hp : PInv s1) (htri : s1.tri = [])
    (hpos : 0 < s1.g.kind.size) (hacyc : Acyclic s1.g r) (hnz : LitNZ s1.g) (hsrc : SrcInner s1.g)
    (hok : (afterElim s1).g.err = false) (hsat : ∃ σ, sem σ s1.g r 0 = true) : RootAlive s1 := by
  rcases (addFree_srcInner s1 hsrc).2 with e | hk2
  · exact Or.inl e
  · right
    obtain ⟨σ, hσ⟩ := hsat
    have c1 : CInv σ s1 (sem σ s1.g r) := ⟨hp.linv, sem_model σ s1.g r hacyc, hp.litK, hnz⟩
    have t1 : TriT s1 (sem σ s1.g r) := by intro e he; rw [htri] at he; cases he
    obtain ⟨v2, c2, _, _, _, hv2⟩ := addFree_sem hpos c1 t1
    have i2 : IOK (addFree s1).1.g := addFree_iok s1 hp.linv hp.iok
    have hm3 : Model σ (afterElim s1).g v2 := by
      rcases eliminate_sem (addFree s1).1.g (addFree s1).2 c2.model i2.ins with herr | ⟨h, _⟩
      · have : (afterElim s1).g.err = true := herr
        rw [hok] at this; cases this
      · exact h
    rcases (erel_eliminate (addFree s1).1.g (addFree s1).2).kinds (addFree s1).2 with e | ⟨e, _⟩ | ⟨_, e⟩
    · exact e.trans hk2
    · have hf : v2 (addFree s1).2 = false := hm3.none e
      rw [hv2, hσ] at hf; cases hf
    · rw [hk2] at e; cases e

/-- `HasParents` for every text whose phase-1 graph is acyclic and has successors at inner nodes only,
if the And root of phase 2 survives the elimination (any hash iteration order, sorted or not; no
assumption on the error flag) -/
theorem loadWith_hasParents_of_root (sorted : Bool) (h : List Nat → List Nat) (lines : List Line) (total : Nat)
    (hnode : ∃ k, Line.node k ∈ lines) (r : Nat → Nat) (hacyc : Acyclic (phase1 lines total).g r)
    (hsrc : SrcInner (phase1 lines total).g) (hroot : RootAlive (phase1 lines total)) :
    MS.HasParents (loadWith sorted h lines total).2.1 := by
  obtain ⟨r4, hacyc4⟩ := loadGraph_acyclic sorted h lines total hnode r hacyc
  have hs := loadGraph_spec sorted h lines total
  have hpos := lines_size_pos lines { total := total } (linv_init total) (Or.inr hnode)
  have hr : (loadGraph sorted h lines total).2 < (loadGraph sorted h lines total).1.kind.size := by
    rcases hs.2.2 with e | hlt
    · rw [e]; exact Nat.lt_of_lt_of_le hpos hs.2.1
    · exact hlt
  rw [loadWith_nodes]
  refine flattenGraph_hasParents _ _ r4 (loadGraph_edges sorted h lines total) hacyc4 hr ?_
  rw [loadGraph_eq]
  exact st4_srcInner sorted h _ hsrc hroot

/-- **Every node of the loaded array except the last one is a child of a later node**, for every d4
text that declares a node, whose phase-1 graph is acyclic, has successors at and / or nodes only and no
literal 0, that is satisfiable, and on which the loader does not raise its error flag. -/
theorem load_hasParents (lines : List Line) (total : Nat) (hnode : ∃ k, Line.node k ∈ lines)
    (r : Nat → Nat) (hacyc : Acyclic (phase1 lines total).g r)
    (hsrc : SrcInner (phase1 lines total).g) (hnz : LitNZ (phase1 lines total).g)
    (hok : (load lines total).2.2 = false) (hsat : ∃ σ, sem σ (phase1 lines total).g r 0 = true) :
    MS.HasParents (load lines total).2.1 := by
  obtain ⟨hp, htri⟩ := lines_p lines total
  have hpos : 0 < (phase1 lines total).g.kind.size :=
    lines_size_pos lines { total := total } (linv_init total) (Or.inr hnode)
  have hok' : (st4 true id (phase1 lines total)).g.err = false := hok
  rw [st4_err] at hok'
  exact loadWith_hasParents_of_root true id lines total hnode r hacyc hsrc
    (root_alive _ r hp htri hpos hacyc hnz hsrc hok' hsat)

/-- `load_litUnique'` with the hypotheses of `load_hasParents` that were asked for (they are not needed) -/
theorem load_litUnique (lines : List Line) (total : Nat) (_hnode : ∃ k, Line.node k ∈ lines)
    (hdecl : ∀ l, Line.node (.lit l) ∉ lines) (r : Nat → Nat)
    (_hacyc : Acyclic (phase1 lines total).g r) (_hok : (load lines total).2.2 = false) :
    LitUnique (load lines total).2.1 :=
  load_litUnique' lines total hdecl

/-! ### an executable check of `SrcInner` -/

/-- executable check of `SrcInner` -/
def srcInnerB (g : G) : Bool :=
  (List.range g.outs.size).all fun x =>
    (g.outs.getD x []).isEmpty || g.kindOf x == some .and || g.kindOf x == some .or

theorem srcInnerB_sound (g : G) (h : srcInnerB g = true) : SrcInner g := by
  intro x c hc
  have hx : x < g.outs.size := by
    apply Classical.byContradiction
    intro hn
    rw [outs_of_ge g x (by omega)] at hc
    cases hc
  have := List.all_eq_true.1 h x (List.mem_range.2 hx)
  have hne : (g.outs.getD x []).isEmpty = false := by
    cases hl : g.outs.getD x [] with
    | nil => rw [hl] at hc; cases hc
    | cons a l => rfl
  rw [hne, Bool.false_or, Bool.or_eq_true] at this
  rcases this with h1 | h1
  · exact Or.inl (by simpa using h1)
  · exact Or.inr (by simpa using h1)

/-! ### the extra assumptions are necessary -/

/-- a `t` node with an outgoing edge -/
def cexSrc : List Line := [.node .tru, .node .or, .edge 1 2 []]

theorem cexSrc_kind : (phase1 cexSrc 0).g.kind = #[some .tru, some .or] := by decide
theorem cexSrc_outs : (phase1 cexSrc 0).g.outs = #[[1], []] := by decide

theorem not_hasParents_or_tru : ¬ MS.HasParents [.or [], .tru] := by
  intro h
  obtain ⟨i, hi, hji, hm⟩ := h 0 (by decide)
  have hi' : i < 2 := hi
  have e : i = 1 := by omega
  subst e
  simp [children] at hm

/-- Without `SrcInner` the statement fails, even under all hypotheses of `load_wf'`: the text
`t 1; o 2; 1 2 0` loads (no error flag) to `[or [], tru]`, whose first node has no parent. -/
theorem hasParents_needs_srcInner :
    ∃ (lines : List Line) (total : Nat) (r : Nat → Nat), (∃ k, Line.node k ∈ lines) ∧
      (∀ l, Line.node (.lit l) ∉ lines) ∧ Acyclic (phase1 lines total).g r ∧
      LitNZ (phase1 lines total).g ∧ GDec (phase1 lines total).g ∧
      (∀ (σ : Assignment) (x : Nat), (phase1 lines total).g.kindOf x = some .or →
        ((phase1 lines total).g.outs.getD x []).countP (sem σ (phase1 lines total).g r) ≤ 1) ∧
      (load lines total).2.2 = false ∧ (∃ σ, sem σ (phase1 lines total).g r 0 = true) ∧
      ¬ MS.HasParents (load lines total).2.1 := by
  have hk : ∀ x, (phase1 cexSrc 0).g.kindOf x = (#[some .tru, some .or] : Array (Option GK)).getD x none := by
    intro x; unfold G.kindOf; rw [cexSrc_kind]
  have ho : ∀ x, (phase1 cexSrc 0).g.outs.getD x [] = (#[[1], []] : Array (List Nat)).getD x [] := by
    intro x; rw [cexSrc_outs]
  refine ⟨cexSrc, 0, fun x => if x = 0 then 1 else 0, ⟨.tru, by decide⟩, ?_, ?_, ?_, ?_, ?_, by decide, ?_, ?_⟩
  · intro l h; simp [cexSrc] at h
  · intro x c hc
    rw [ho] at hc
    match x with
    | 0 => simp at hc; subst hc; decide
    | 1 => simp at hc
    | n + 2 => simp at hc
  · intro x l h
    rw [hk] at h
    match x with
    | 0 => simp at h
    | 1 => simp at h
    | n + 2 => simp at h
  · intro x h
    rw [hk] at h
    match x with
    | 0 => simp at h
    | 1 => simp at h
    | n + 2 => simp at h
  · intro σ x h
    rw [hk] at h
    rw [ho]
    match x with
    | 0 => simp at h
    | 1 => simp
    | n + 2 => simp at h
  · exact ⟨fun _ => true, sem_tru _ _ _ 0 (by rw [hk]; rfl)⟩
  · have e : (load cexSrc 0).2.1 = [.or [], .tru] := by decide
    rw [e]; exact not_hasParents_or_tru

/-- an unsatisfiable text: the And root of phase 2 has a False child -/
def cexSat : List Line := [.node .fls, .node .or, .edge 2 1 [5]]

theorem cexSat_kind : (phase1 cexSat 6).g.kind = #[some .fls, some .or, some (.lit 5), some .and] := by decide
theorem cexSat_outs : (phase1 cexSat 6).g.outs = #[[], [3], [], [0, 2]] := by decide

theorem not_hasParents_tri_fls : ¬ MS.HasParents [.lit 5, .lit (-5), .or [1, 0], .fls] := by
  intro h
  obtain ⟨i, hi, hji, hm⟩ := h 2 (by decide)
  have hi' : i < 4 := hi
  have e : i = 3 := by omega
  subst e
  simp [children] at hm

theorem cexSat_load : load cexSat 6 = (6, [.lit 5, .lit (-5), .or [1, 0], .fls], false) := by
  decide +kernel

/-- Without satisfiability the statement fails: for `f 1; o 2; 2 1 5 0` with 6 features the elimination
removes the And root of phase 2, and the triangle of the vanished feature 5 is then hung under the
removed root: the loaded array is `[5, -5, or [1, 0], fls]` (no error flag). -/
theorem hasParents_needs_sat :
    ∃ (lines : List Line) (total : Nat) (r : Nat → Nat), (∃ k, Line.node k ∈ lines) ∧
      (∀ l, Line.node (.lit l) ∉ lines) ∧ Acyclic (phase1 lines total).g r ∧
      SrcInner (phase1 lines total).g ∧ LitNZ (phase1 lines total).g ∧
      (load lines total).2.2 = false ∧ ¬ MS.HasParents (load lines total).2.1 := by
  have hk : ∀ x, (phase1 cexSat 6).g.kindOf x =
      (#[some .fls, some .or, some (.lit 5), some .and] : Array (Option GK)).getD x none := by
    intro x; unfold G.kindOf; rw [cexSat_kind]
  have ho : ∀ x, (phase1 cexSat 6).g.outs.getD x [] = (#[[], [3], [], [0, 2]] : Array (List Nat)).getD x [] := by
    intro x; rw [cexSat_outs]
  refine ⟨cexSat, 6, fun x => if x = 1 then 2 else if x = 3 then 1 else 0, ⟨.fls, by decide⟩, ?_, ?_, ?_, ?_,
    by rw [cexSat_load], ?_⟩
  · intro l h; simp [cexSat] at h
  · intro x c hc
    rw [ho] at hc
    match x with
    | 0 => simp at hc
    | 1 => simp at hc; subst hc; decide
    | 2 => simp at hc
    | 3 => simp at hc; rcases hc with rfl | rfl <;> decide
    | n + 4 => simp at hc
  · intro x c hc
    rw [ho] at hc
    rw [hk]
    match x with
    | 0 => simp at hc
    | 1 => simp
    | 2 => simp at hc
    | 3 => simp
    | n + 4 => simp at hc
  · intro x l h
    rw [hk] at h
    match x with
    | 0 => simp at h
    | 1 => simp at h
    | 2 => simp at h; rw [← h]; decide
    | 3 => simp at h
    | n + 4 => simp at h
  · rw [cexSat_load]; exact not_hasParents_tri_fls

end Ddnnf.D4
