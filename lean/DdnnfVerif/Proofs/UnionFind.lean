/-
  The union-find structure of `Model/UnionFind.lean`, part 1: association lists, paths to the root,
  the invariant `WF` (the parent pointers form a forest: every node reaches a root), path
  compression and linking on parent functions, and `find`: with enough fuel it returns the root and
  re-points exactly the nodes of the path (`findF_spec`); under `WF` the fuel `parents.len() + 1` of
  the public `find` is always enough, so the fuel is not observable (`findF_fuel_irrel`,
  `findF_eq_find`); `find` keeps `WF`, the roots and `rank`.
  Parts 2-5: `equiv`/`union`, the abstraction to classes, `subsets`, end to end.
-/
import DdnnfVerif.Model.UnionFind

namespace Ddnnf.UF

/-! ### association lists -/

theorem lookup_cons_if {β} (a k : Int) (b : β) (es : List (Int × β)) :
    List.lookup a ((k, b) :: es) = if a = k then some b else List.lookup a es := by
  rw [List.lookup_cons]
  by_cases h : a = k
  · subst h; simp
  · have : (a == k) = false := by simpa using h
    rw [this]; simp [h]

theorem lookup_ains {β} (k : Int) (v : β) (m : List (Int × β)) (k' : Int) :
    (ains k v m).lookup k' = if k' = k then some v else m.lookup k' := by
  induction m with
  | nil => simp [ains, lookup_cons_if]
  | cons a t ih =>
    obtain ⟨k1, v1⟩ := a
    simp only [ains]
    by_cases h1 : k1 = k
    · subst h1
      simp only [BEq.rfl, if_true, lookup_cons_if]
      by_cases h : k' = k1 <;> simp [h]
    · have : (k1 == k) = false := by simpa using h1
      rw [this]
      simp only [Bool.false_eq_true, if_false, lookup_cons_if, ih]
      by_cases h : k' = k1
      · subst h
        simp [h1]
      · simp [h]

theorem keys_ains {β} (k : Int) (v : β) (m : List (Int × β)) :
    (ains k v m).map (·.1) = if k ∈ m.map (·.1) then m.map (·.1) else m.map (·.1) ++ [k] := by
  induction m with
  | nil => simp [ains]
  | cons a t ih =>
    obtain ⟨k1, v1⟩ := a
    simp only [ains]
    by_cases h1 : k1 = k
    · subst h1
      simp
    · have : (k1 == k) = false := by simpa using h1
      rw [this]
      simp only [Bool.false_eq_true, if_false, List.map_cons, ih, List.mem_cons]
      have h1' : ¬ k = k1 := fun h => h1 h.symm
      by_cases h : k ∈ t.map (·.1)
      · simp [h]
      · simp [h, h1']

theorem hasKey_iff {β} (k : Int) (m : List (Int × β)) : hasKey k m = true ↔ k ∈ m.map (·.1) := by
  unfold hasKey
  induction m with
  | nil => simp
  | cons a t ih =>
    obtain ⟨k1, v1⟩ := a
    rw [lookup_cons_if]
    by_cases h : k = k1
    · subst h
      simp
    · simp only [h, if_false, List.map_cons, List.mem_cons, false_or]
      exact ih

theorem lookup_none_of_not_hasKey {β} (k : Int) (m : List (Int × β)) (h : ¬ hasKey k m = true) :
    m.lookup k = none := by
  unfold hasKey at h
  cases h' : m.lookup k with
  | none => rfl
  | some v => rw [h'] at h; simp at h

/-! ### paths to the root -/

/-- `Path p x l r`: following the parent function `p` from `x` passes exactly the non-root nodes
`l` (starting with `x` unless `x` is a root) and ends in the root `r` -/
inductive Path (p : Int → Int) : Int → List Int → Int → Prop
  | root {r : Int} : p r = r → Path p r [] r
  | step {x : Int} {l : List Int} {r : Int} : p x ≠ x → Path p (p x) l r → Path p x (x :: l) r

/-- `r` is the root of `x` -/
def Root (p : Int → Int) (x r : Int) : Prop := ∃ l, Path p x l r

/-- the parent function is a forest: every node reaches a root -/
def PWF (p : Int → Int) : Prop := ∀ x, ∃ r, Root p x r

/-- `x` and `y` are in the same tree -/
def SameRoot (p : Int → Int) (x y : Int) : Prop := ∃ r, Root p x r ∧ Root p y r

theorem Path.det {p : Int → Int} {x : Int} {l : List Int} {r : Int} (h : Path p x l r) :
    ∀ {l' : List Int} {r' : Int}, Path p x l' r' → l = l' ∧ r = r' := by
  induction h with
  | root hr =>
    intro l' r' h'
    cases h' with
    | root _ => exact ⟨rfl, rfl⟩
    | step hne _ => exact absurd hr hne
  | step hne _ ih =>
    intro l' r' h'
    cases h' with
    | root hr => exact absurd hr hne
    | step _ h2 =>
      obtain ⟨rfl, rfl⟩ := ih h2
      exact ⟨rfl, rfl⟩

theorem Path.root_fix {p : Int → Int} {x : Int} {l : List Int} {r : Int} (h : Path p x l r) :
    p r = r := by
  induction h with
  | root hr => exact hr
  | step _ _ ih => exact ih

theorem Path.nonroot {p : Int → Int} {x : Int} {l : List Int} {r : Int} (h : Path p x l r) :
    ∀ z ∈ l, p z ≠ z := by
  induction h with
  | root _ => intro z hz; cases hz
  | step hne _ ih =>
    intro z hz
    rcases List.mem_cons.mp hz with rfl | hz
    · exact hne
    · exact ih z hz

/-- every node on the path has the same root, by a path that is not longer -/
theorem Path.suffix {p : Int → Int} {x : Int} {l : List Int} {r : Int} (h : Path p x l r) :
    ∀ z ∈ l, ∃ l2, Path p z l2 r ∧ l2.length ≤ l.length := by
  induction h with
  | root _ => intro z hz; cases hz
  | @step x l r hne h' ih =>
    intro z hz
    rcases List.mem_cons.mp hz with rfl | hz
    · exact ⟨_, Path.step hne h', Nat.le_refl _⟩
    · obtain ⟨l2, h2, hl⟩ := ih z hz
      exact ⟨l2, h2, by simp only [List.length_cons]; omega⟩

theorem Path.nodup {p : Int → Int} {x : Int} {l : List Int} {r : Int} (h : Path p x l r) :
    l.Nodup := by
  induction h with
  | root _ => exact List.nodup_nil
  | @step x l r hne h' ih =>
    rw [List.nodup_cons]
    refine ⟨?_, ih⟩
    intro hx
    obtain ⟨l2, h2, hl⟩ := h'.suffix x hx
    have := (h2.det (Path.step hne h')).1
    rw [this] at hl
    simp only [List.length_cons] at hl
    omega

theorem Path.congr {p q : Int → Int} {x : Int} {l : List Int} {r : Int} (h : Path p x l r)
    (hl : ∀ z ∈ l, q z = p z) (hr : q r = r) : Path q x l r := by
  induction h with
  | root _ => exact Path.root hr
  | @step x l r hne h' ih =>
    have hx : q x = p x := hl x (List.mem_cons_self ..)
    apply Path.step (by rw [hx]; exact hne)
    rw [hx]
    exact ih (fun z hz => hl z (List.mem_cons_of_mem _ hz)) hr

theorem Root.det {p : Int → Int} {x r r' : Int} (h : Root p x r) (h' : Root p x r') : r = r' := by
  obtain ⟨l, h⟩ := h
  obtain ⟨l', h'⟩ := h'
  exact (h.det h').2

theorem Root.fix {p : Int → Int} {x r : Int} (h : Root p x r) : p r = r := by
  obtain ⟨l, h⟩ := h
  exact h.root_fix

theorem Root.self {p : Int → Int} {r : Int} (h : p r = r) : Root p r r := ⟨[], Path.root h⟩

theorem Root.root {p : Int → Int} {x r : Int} (h : Root p x r) : Root p r r := Root.self h.fix

theorem Root.parent {p : Int → Int} {x r : Int} (h : Root p (p x) r) : Root p x r := by
  by_cases hx : p x = x
  · rw [hx] at h; exact h
  · obtain ⟨l, h⟩ := h
    exact ⟨_, Path.step hx h⟩

theorem SameRoot.symm {p : Int → Int} {x y : Int} (h : SameRoot p x y) : SameRoot p y x := by
  obtain ⟨r, h1, h2⟩ := h
  exact ⟨r, h2, h1⟩

theorem SameRoot.trans {p : Int → Int} {x y z : Int} (h : SameRoot p x y) (h' : SameRoot p y z) :
    SameRoot p x z := by
  obtain ⟨r, h1, h2⟩ := h
  obtain ⟨r', h3, h4⟩ := h'
  have := h2.det h3
  subst this
  exact ⟨r, h1, h4⟩

theorem SameRoot.refl {p : Int → Int} (hp : PWF p) (x : Int) : SameRoot p x x := by
  obtain ⟨r, h⟩ := hp x
  exact ⟨r, h, h⟩

theorem sameRoot_root {p : Int → Int} {x r : Int} (h : Root p x r) : SameRoot p x r :=
  ⟨r, h, h.root⟩

theorem sameRoot_iff {p : Int → Int} {x y rx ry : Int} (hx : Root p x rx) (hy : Root p y ry) :
    SameRoot p x y ↔ rx = ry := by
  constructor
  · rintro ⟨r, h1, h2⟩
    rw [hx.det h1, hy.det h2]
  · rintro rfl
    exact ⟨rx, hx, hy⟩

/-! ### path compression on parent functions -/

/-- re-point the nodes of `l` to `r` -/
def compress (p : Int → Int) (l : List Int) (r : Int) : Int → Int :=
  fun z => if z ∈ l then r else p z

theorem compress_path {p : Int → Int} {x : Int} {l : List Int} {r : Int} (hx : Path p x l r)
    {z : Int} {lz : List Int} {rz : Int} (hz : Path p z lz rz) :
    Root (compress p l r) z rz := by
  induction hz with
  | @root rz hr =>
    have : rz ∉ l := fun h => hx.nonroot rz h hr
    exact Root.self (by simp [compress, this, hr])
  | @step z lz rz hne hz' ih =>
    by_cases hzl : z ∈ l
    · -- `z` is on the path of `x`: its root is `r`, and it now points to `r`
      obtain ⟨l2, h2, _⟩ := hx.suffix z hzl
      have hr : rz = r := ((Path.step hne hz').det h2).2
      subst hr
      have hrr : p rz = rz := hx.root_fix
      have hrl : rz ∉ l := fun h => hx.nonroot rz h hrr
      have hzr : z ≠ rz := fun h => hne (h ▸ hrr)
      have hcz : compress p l rz z = rz := by simp [compress, hzl]
      have hcr : compress p l rz rz = rz := by simp [compress, hrl, hrr]
      exact ⟨[z], Path.step (by rw [hcz]; exact fun h => hzr h.symm) (by rw [hcz]; exact Path.root hcr)⟩
    · have hcz : compress p l r z = p z := by simp [compress, hzl]
      obtain ⟨l', h'⟩ := ih
      exact ⟨z :: l', Path.step (by rw [hcz]; exact hne) (by rw [hcz]; exact h')⟩

theorem compress_root_iff {p : Int → Int} (hp : PWF p) {x : Int} {l : List Int} {r : Int}
    (hx : Path p x l r) (z rz : Int) : Root (compress p l r) z rz ↔ Root p z rz := by
  constructor
  · intro h
    obtain ⟨r', l', h'⟩ := hp z
    have := (compress_path hx h').det h
    subst this
    exact ⟨l', h'⟩
  · rintro ⟨lz, hz⟩
    exact compress_path hx hz

theorem compress_pwf {p : Int → Int} (hp : PWF p) {x : Int} {l : List Int} {r : Int}
    (hx : Path p x l r) : PWF (compress p l r) := by
  intro z
  obtain ⟨rz, h⟩ := hp z
  exact ⟨rz, (compress_root_iff hp hx z rz).mpr h⟩

/-! ### linking two roots -/

/-- make the root `rx` a child of `ry` -/
def link (p : Int → Int) (rx ry : Int) : Int → Int := fun z => if z = rx then ry else p z

theorem link_path {p : Int → Int} {rx ry : Int} (hrx : p rx = rx) (hry : p ry = ry) (hne : rx ≠ ry)
    {z : Int} {lz : List Int} {rz : Int} (hz : Path p z lz rz) :
    Root (link p rx ry) z (if rz = rx then ry else rz) := by
  have hly : link p rx ry ry = ry := by simp [link, hry]
  have hlx : link p rx ry rx = ry := by simp [link]
  induction hz with
  | @root rz hr =>
    by_cases h : rz = rx
    · subst h
      rw [if_pos rfl]
      exact ⟨[rz], Path.step (by rw [hlx]; exact fun h => hne h.symm) (by rw [hlx]; exact Path.root hly)⟩
    · rw [if_neg h]
      exact Root.self (by simp [link, h, hr])
  | @step z lz rz hnz _ ih =>
    have hzx : z ≠ rx := fun h => hnz (h ▸ hrx)
    have hlz : link p rx ry z = p z := by simp [link, hzx]
    obtain ⟨l', h'⟩ := ih
    exact ⟨z :: l', Path.step (by rw [hlz]; exact hnz) (by rw [hlz]; exact h')⟩

theorem link_root_iff {p : Int → Int} (hp : PWF p) {rx ry : Int} (hrx : p rx = rx) (hry : p ry = ry)
    (hne : rx ≠ ry) (z r' : Int) :
    Root (link p rx ry) z r' ↔ ∃ rz, Root p z rz ∧ r' = if rz = rx then ry else rz := by
  constructor
  · intro h
    obtain ⟨rz, lz, hz⟩ := hp z
    exact ⟨rz, ⟨lz, hz⟩, h.det (link_path hrx hry hne hz)⟩
  · rintro ⟨rz, ⟨lz, hz⟩, rfl⟩
    exact link_path hrx hry hne hz

theorem link_pwf {p : Int → Int} (hp : PWF p) {rx ry : Int} (hrx : p rx = rx) (hry : p ry = ry)
    (hne : rx ≠ ry) : PWF (link p rx ry) := by
  intro z
  obtain ⟨rz, h⟩ := hp z
  exact ⟨_, (link_root_iff hp hrx hry hne z _).mpr ⟨rz, h, rfl⟩⟩

/-- linking the roots of `x` and `y` merges exactly their two trees -/
theorem link_sameRoot {p : Int → Int} (hp : PWF p) {x y rx ry : Int} (hx : Root p x rx)
    (hy : Root p y ry) (hne : rx ≠ ry) (a b : Int) :
    SameRoot (link p rx ry) a b ↔
      (SameRoot p a b ∨ (SameRoot p a x ∧ SameRoot p y b) ∨ (SameRoot p a y ∧ SameRoot p x b)) := by
  have hrx := hx.fix
  have hry := hy.fix
  obtain ⟨ra, ha⟩ := hp a
  obtain ⟨rb, hb⟩ := hp b
  have ha' := (link_root_iff hp hrx hry hne a _).mpr ⟨ra, ha, rfl⟩
  have hb' := (link_root_iff hp hrx hry hne b _).mpr ⟨rb, hb, rfl⟩
  rw [sameRoot_iff ha' hb', sameRoot_iff ha hb, sameRoot_iff ha hx, sameRoot_iff hy hb,
    sameRoot_iff ha hy, sameRoot_iff hx hb]
  by_cases h1 : ra = rx <;> by_cases h2 : rb = rx
  · subst h1; subst h2; simp
  · subst h1
    rw [if_pos rfl, if_neg h2]
    constructor
    · intro h; exact Or.inr (Or.inl ⟨rfl, h⟩)
    · rintro (h | ⟨_, h⟩ | ⟨h, _⟩)
      · exact absurd h.symm h2
      · exact h
      · exact absurd h hne
  · subst h2
    rw [if_neg h1, if_pos rfl]
    constructor
    · intro h; exact Or.inr (Or.inr ⟨h, rfl⟩)
    · rintro (h | ⟨h, _⟩ | ⟨h, _⟩)
      · exact absurd h h1
      · exact absurd h h1
      · exact h
  · rw [if_neg h1, if_neg h2]
    constructor
    · intro h; exact Or.inl h
    · rintro (h | ⟨h, _⟩ | ⟨_, h⟩)
      · exact h
      · exact absurd h h1
      · exact absurd h.symm h2

/-! ### `find` -/

/-- the invariant of the structure: the parent pointers form a forest -/
def WF (s : State) : Prop := PWF (parent s)

/-- the first statement of `find`: enter a missing node as its own parent -/
def touch (s : State) (x : Int) : State :=
  if hasKey x s.parents then s else { s with parents := ains x x s.parents, size := s.size + 1 }

/-- `self.parents.insert(x, v)` -/
def setParent (s : State) (x v : Int) : State := { s with parents := ains x v s.parents }

theorem findF_succ (f : Nat) (s : State) (x : Int) :
    findF (f + 1) s x =
      if parent (touch s x) x != x then
        (setParent (findF f (touch s x) (parent (touch s x) x)).1 x
            (findF f (touch s x) (parent (touch s x) x)).2,
          parent (setParent (findF f (touch s x) (parent (touch s x) x)).1 x
            (findF f (touch s x) (parent (touch s x) x)).2) x)
      else (touch s x, parent (touch s x) x) := rfl

theorem parent_touch (s : State) (x : Int) : parent (touch s x) = parent s := by
  funext z
  unfold touch
  by_cases h : hasKey x s.parents = true
  · rw [if_pos h]
  · rw [if_neg h]
    simp only [parent, lookup_ains]
    by_cases hz : z = x
    · subst hz
      rw [if_pos rfl, lookup_none_of_not_hasKey z _ h]
      rfl
    · rw [if_neg hz]

theorem rank_touch (s : State) (x : Int) : (touch s x).rank = s.rank := by
  unfold touch
  split <;> rfl

theorem parent_setParent (s : State) (x v : Int) :
    parent (setParent s x v) = fun z => if z = x then v else parent s z := by
  funext z
  simp only [parent, setParent, lookup_ains]
  by_cases hz : z = x
  · rw [if_pos hz, if_pos hz]; rfl
  · rw [if_neg hz, if_neg hz]

/-- **`find` with enough fuel**: if the path from `x` to its root `r` passes the non-root nodes
`l`, any fuel `> |l|` makes `find` return `r`, re-point exactly the nodes of `l` to `r`, leave
`rank` alone — and the result does not depend on the fuel -/
theorem findF_spec {p : Int → Int} {x : Int} {l : List Int} {r : Int} (hp : Path p x l r) :
    ∀ (f : Nat) (s : State), parent s = p → l.length < f →
      (findF f s x).2 = r ∧ parent (findF f s x).1 = compress p l r ∧
        (findF f s x).1.rank = s.rank ∧ findF f s x = findF (l.length + 1) s x := by
  induction hp with
  | @root r hr =>
    intro f s hs hf
    obtain ⟨f, rfl⟩ : ∃ f', f = f' + 1 := ⟨f - 1, by omega⟩
    have h1 : parent (touch s r) r = r := by rw [parent_touch, hs]; exact hr
    have hc : ¬ (parent (touch s r) r != r) = true := by simp [h1]
    rw [findF_succ f, findF_succ ([] : List Int).length, if_neg hc, if_neg hc]
    refine ⟨h1, ?_, rank_touch s r, rfl⟩
    show parent (touch s r) = compress p [] r
    rw [parent_touch, hs]
    funext z
    simp [compress]
  | @step x l r hne hp' ih =>
    intro f s hs hf
    obtain ⟨f, rfl⟩ : ∃ f', f = f' + 1 := ⟨f - 1, by omega⟩
    simp only [List.length_cons] at hf ⊢
    have h1 : parent (touch s x) x = p x := by rw [parent_touch, hs]
    have hc : (parent (touch s x) x != x) = true := by simp [h1, hne]
    obtain ⟨i1, i2, i3, i4⟩ := ih f (touch s x) (by rw [parent_touch, hs]) (by omega)
    have hc' : (p x != x) = true := by simp [hne]
    rw [findF_succ f, findF_succ (l.length + 1), h1, if_pos hc', if_pos hc', ← i4]
    have k1 : parent (setParent (findF f (touch s x) (p x)).1 x (findF f (touch s x) (p x)).2)
        = compress p (x :: l) r := by
      rw [parent_setParent, i1, i2]
      funext z
      simp only [compress, List.mem_cons]
      by_cases hz : z = x
      · simp [hz]
      · simp [hz]
    refine ⟨?_, k1, ?_, rfl⟩
    · show parent (setParent _ _ _) x = r
      rw [k1]; simp [compress]
    · show (setParent (findF f (touch s x) (p x)).1 x _).rank = s.rank
      rw [show ∀ (t : State) (a b : Int), (setParent t a b).rank = t.rank from fun _ _ _ => rfl,
        i3, rank_touch]

/-- the nodes on a path are keys of `parents`: the path is not longer than `parents` -/
theorem path_length_le (s : State) {x : Int} {l : List Int} {r : Int}
    (hp : Path (parent s) x l r) : l.length ≤ s.parents.length := by
  have hsub : ∀ z ∈ l, z ∈ s.parents.map (·.1) := by
    intro z hz
    have := hp.nonroot z hz
    rw [← hasKey_iff]
    cases h : hasKey z s.parents with
    | true => rfl
    | false =>
      exfalso
      apply this
      unfold parent
      rw [lookup_none_of_not_hasKey z _ (by simp [h])]
      rfl
  have hnd := hp.nodup
  have : ∀ (l ks : List Int), l.Nodup → (∀ z ∈ l, z ∈ ks) → l.length ≤ ks.length := by
    intro l
    induction l with
    | nil => intro ks _ _; simp
    | cons a l ih =>
      intro ks hnd hsub
      rw [List.nodup_cons] at hnd
      have ha : a ∈ ks := hsub a (List.mem_cons_self ..)
      have := ih (ks.erase a) hnd.2 (by
        intro z hz
        have hza : z ≠ a := fun h => hnd.1 (h ▸ hz)
        exact (List.mem_erase_of_ne hza).mpr (hsub z (List.mem_cons_of_mem _ hz)))
      rw [List.length_erase_of_mem ha] at this
      have hpos := List.length_pos_of_mem ha
      simp only [List.length_cons]
      omega
  have := this l _ hnd hsub
  simpa using this

/-- **the fuel of the public `find` is always sufficient**: under `WF` every fuel beyond the length
of the path (in particular every fuel `> parents.len()`) gives the same result as `find` -/
theorem findF_fuel_irrel (s : State) (hs : WF s) (x : Int) :
    ∃ l r, Path (parent s) x l r ∧ ∀ f, l.length < f → findF f s x = find s x := by
  obtain ⟨r, l, hp⟩ := hs x
  refine ⟨l, r, hp, ?_⟩
  intro f hf
  have hle := path_length_le s hp
  rw [find, (findF_spec hp f s rfl hf).2.2.2,
    (findF_spec hp (s.parents.length + 1) s rfl (by omega)).2.2.2]

theorem findF_eq_find (s : State) (hs : WF s) (x : Int) (f : Nat) (hf : s.parents.length < f) :
    findF f s x = find s x := by
  obtain ⟨l, r, hp, h⟩ := findF_fuel_irrel s hs x
  exact h f (by have := path_length_le s hp; omega)

/-- **`find`** returns the root, compresses the path, keeps `rank` -/
theorem find_spec (s : State) (hs : WF s) (x : Int) :
    ∃ l, Path (parent s) x l (find s x).2 ∧
      parent (find s x).1 = compress (parent s) l (find s x).2 ∧ (find s x).1.rank = s.rank := by
  obtain ⟨r, l, hp⟩ := hs x
  have hle := path_length_le s hp
  obtain ⟨h1, h2, h3, _⟩ := findF_spec hp (s.parents.length + 1) s rfl (by omega)
  refine ⟨l, ?_, ?_, h3⟩
  · rw [find, h1]; exact hp
  · rw [find, h1]; exact h2

theorem find_root (s : State) (hs : WF s) (x : Int) : Root (parent s) x (find s x).2 := by
  obtain ⟨l, h, _⟩ := find_spec s hs x
  exact ⟨l, h⟩

theorem find_wf (s : State) (hs : WF s) (x : Int) : WF (find s x).1 := by
  obtain ⟨l, h1, h2, _⟩ := find_spec s hs x
  unfold WF
  rw [h2]
  exact compress_pwf hs h1

/-- `find` does not change the roots -/
theorem find_root_iff (s : State) (hs : WF s) (x : Int) (z r : Int) :
    Root (parent (find s x).1) z r ↔ Root (parent s) z r := by
  obtain ⟨l, h1, h2, _⟩ := find_spec s hs x
  rw [h2]
  exact compress_root_iff hs h1 z r

theorem find_rank (s : State) (hs : WF s) (x : Int) : (find s x).1.rank = s.rank := by
  obtain ⟨l, _, _, h3⟩ := find_spec s hs x
  exact h3

theorem find_sameRoot_iff (s : State) (hs : WF s) (x : Int) (a b : Int) :
    SameRoot (parent (find s x).1) a b ↔ SameRoot (parent s) a b := by
  unfold SameRoot
  simp only [find_root_iff s hs x]

end Ddnnf.UF
