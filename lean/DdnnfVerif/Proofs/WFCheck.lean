/-
  Soundness of the executable well-formedness check `wfB` (Model/WFCheck.lean) that the driver
  runs on every circuit exported from the Rust implementation:  `wfB nodes n = true → WF nodes n`.
-/
import DdnnfVerif.Model.WFCheck
import DdnnfVerif.Proofs.Keystone

namespace Ddnnf

/-! ### list helpers -/

theorem getD_eq_getElem_of_lt (nodes : List NType) (i : Nat) (h : i < nodes.length) (d : NType) :
    nodes.getD i d = nodes[i] := by
  simp [List.getD_eq_getElem?_getD, List.getElem?_eq_getElem h]

theorem topoB_sound (nodes : List NType) : topoB nodes = true → Topo nodes := by
  intro hb i h c hc
  unfold topoB at hb
  rw [List.all_eq_true] at hb
  have := hb i (List.mem_range.mpr h)
  rw [getD_eq_getElem_of_lt nodes i h, List.all_eq_true] at this
  simpa using this c hc

theorem litnzB_sound (nodes : List NType) : litnzB nodes = true → LitNonzero nodes := by
  intro hb i h l hl
  unfold litnzB at hb
  rw [List.all_eq_true] at hb
  have := hb nodes[i] (List.getElem_mem h)
  rw [hl] at this
  simpa using this

theorem nodupB_iff (xs : List Nat) : nodupB xs = true ↔ xs.Nodup := by
  induction xs with
  | nil => simp [nodupB]
  | cons x xs ih =>
    simp only [nodupB, Bool.and_eq_true, Bool.not_eq_true', List.nodup_cons, ih]
    constructor
    · rintro ⟨h1, h2⟩
      refine ⟨?_, h2⟩
      intro hm
      have : xs.contains x = true := List.contains_iff_mem.mpr hm
      rw [this] at h1; cases h1
    · rintro ⟨h1, h2⟩
      refine ⟨?_, h2⟩
      cases hc : xs.contains x with
      | false => rfl
      | true => exact absurd (List.contains_iff_mem.mp hc) h1

/-- a duplicate free list that is contained in a duplicate free list of the same length is a
permutation of it -/
theorem perm_of_nodup_subset_length (a b : List Nat) (ha : a.Nodup) (hb : b.Nodup)
    (hlen : a.length = b.length) (hsub : ∀ x ∈ a, x ∈ b) : a.Perm b := by
  induction a generalizing b with
  | nil =>
    have : b = [] := by simpa using hlen.symm
    subst this; exact List.Perm.refl _
  | cons x a ih =>
    rw [List.nodup_cons] at ha
    have hxb : x ∈ b := hsub x (List.mem_cons_self ..)
    have hpb : b.Perm (x :: b.erase x) := List.perm_cons_erase hxb
    have hnd' : (x :: b.erase x).Nodup := hpb.nodup hb
    rw [List.nodup_cons] at hnd'
    have hl' : a.length = (b.erase x).length := by
      have := hpb.length_eq
      simp only [List.length_cons] at this hlen
      omega
    have hsub' : ∀ y ∈ a, y ∈ b.erase x := by
      intro y hy
      have hyb : y ∈ b := hsub y (List.mem_cons_of_mem _ hy)
      have hyx : y ≠ x := by intro e; subst e; exact ha.1 hy
      have := hpb.mem_iff.mp hyb
      rw [List.mem_cons] at this
      cases this with
      | inl h => exact absurd h hyx
      | inr h => exact h
    exact ((ih (b.erase x) ha.2 hnd'.2 hl' hsub').cons x).trans hpb.symm

theorem permB_sound (a b : List Nat) : permB a b = true → a.Perm b := by
  intro h
  unfold permB at h
  simp only [Bool.and_eq_true, beq_iff_eq, List.all_eq_true] at h
  obtain ⟨⟨⟨h1, h2⟩, h3⟩, h4⟩ := h
  exact perm_of_nodup_subset_length a b ((nodupB_iff a).mp h2) ((nodupB_iff b).mp h3) h1
    (fun x hx => List.contains_iff_mem.mp (h4 x hx))

/-! ### the tables used by the checks are the specification functions -/

theorem counts_getD (nodes : List NType) (c : Nat) : (counts nodes).getD c 0 = count nodes c := rfl

theorem varsTable_getD (nodes : List NType) (i : Nat) :
    (varsTable nodes).getD i [] = vars nodes i := rfl

theorem decomposableB_sound (nodes : List NType) :
    decomposableB nodes = true → Decomposable nodes := by
  intro hb i h cs hnd
  unfold decomposableB at hb
  simp only [List.all_eq_true] at hb
  have := hb nodes[i] (List.getElem_mem h)
  rw [hnd] at this
  simp only [varsTable_getD] at this
  exact (nodupB_iff _).mp this

theorem smoothB_sound (nodes : List NType) : smoothB nodes = true → Smooth nodes := by
  intro hb i h cs hnd c hc hcnt
  unfold smoothB at hb
  simp only [List.all_eq_true] at hb
  have := hb i (List.mem_range.mpr h)
  rw [getD_eq_getElem_of_lt nodes i h, hnd] at this
  simp only [List.all_eq_true, varsTable_getD, counts_getD, Bool.or_eq_true, beq_iff_eq] at this
  cases this c hc with
  | inl h0 => exact absurd h0 hcnt
  | inr hp => exact permB_sound _ _ hp

theorem rootCompleteB_sound (nodes : List NType) (n : Nat) :
    rootCompleteB nodes n = true → RootComplete nodes n := by
  intro hb
  unfold rootCompleteB at hb
  rw [varsTable_getD] at hb
  exact permB_sound _ _ hb

/-! ### determinism by truth table -/

/-- the bit vector of an assignment restricted to the features `1..n` -/
def bitsOf (σ : Assignment) (n : Nat) : List Bool := (List.range n).map (fun v => σ (v + 1))

theorem bitsOf_succ (σ : Assignment) (n : Nat) : bitsOf σ (n + 1) = bitsOf σ n ++ [σ (n + 1)] := by
  simp [bitsOf, List.range_succ]

theorem bitsOf_mem_allBits (σ : Assignment) (n : Nat) : bitsOf σ n ∈ allBits n := by
  induction n with
  | zero => simp [bitsOf, allBits]
  | succ n ih =>
    rw [bitsOf_succ]
    simp only [allBits, List.mem_flatMap, List.mem_cons, List.not_mem_nil, or_false]
    refine ⟨bitsOf σ n, ih, ?_⟩
    cases σ (n + 1) <;> simp

theorem assignOf_bitsOf (σ : Assignment) (n v : Nat) (h1 : 1 ≤ v) (h2 : v ≤ n) :
    assignOf (bitsOf σ n) v = σ v := by
  unfold assignOf bitsOf
  have hlt : v - 1 < n := by omega
  have hv : v - 1 + 1 = v := by omega
  simp [List.getD_eq_getElem?_getD, hlt, hv, h1]

theorem litRangeB_spec (nodes : List NType) (n : Nat) (hr : litRangeB nodes n = true) :
    ∀ nd ∈ nodes, ∀ l, nd = .lit l → l ≠ 0 ∧ l.natAbs ≤ n := by
  intro nd hnd l hl
  unfold litRangeB at hr
  rw [List.all_eq_true] at hr
  have := hr nd hnd
  rw [hl] at this
  simpa using this

/-- two assignments that agree on the literals of all leaves give the same value to every node -/
theorem eval_congr_leaves (σ τ : Assignment) (nodes : List NType)
    (h : ∀ nd ∈ nodes, ∀ l, nd = .lit l → litTrue σ l = litTrue τ l) (c : Nat) :
    eval σ nodes c = eval τ nodes c := by
  induction c using Nat.strongRecOn with
  | _ c ih =>
    by_cases hc : c < nodes.length
    · have e1 : eval σ nodes c
          = fEval σ nodes[c] (fun j => if j < c then eval σ nodes j else false) :=
        val_eq false (fEval σ) nodes c hc
      have e2 : eval τ nodes c
          = fEval τ nodes[c] (fun j => if j < c then eval τ nodes j else false) :=
        val_eq false (fEval τ) nodes c hc
      have hg : (fun j => if j < c then eval σ nodes j else false)
          = (fun j => if j < c then eval τ nodes j else false) := by
        funext j
        by_cases hj : j < c
        · simp only [hj, if_true]; exact ih j hj
        · simp only [hj, if_false]
      rw [e1, e2, hg]
      cases hnd : nodes[c] with
      | lit l =>
        show litTrue σ l = litTrue τ l
        exact h nodes[c] (List.getElem_mem hc) l hnd
      | and cs => rfl
      | or cs => rfl
      | tru => rfl
      | fls => rfl
    · have h1 : eval σ nodes c = false := val_of_ge _ _ _ _ (by omega)
      have h2 : eval τ nodes c = false := val_of_ge _ _ _ _ (by omega)
      rw [h1, h2]

/-- with all leaf literals in `1..n`, `eval` only looks at the features `1..n` -/
theorem eval_bitsOf (σ : Assignment) (nodes : List NType) (n : Nat)
    (hr : litRangeB nodes n = true) (c : Nat) :
    eval σ nodes c = eval (assignOf (bitsOf σ n)) nodes c := by
  apply eval_congr_leaves
  intro nd hnd l hl
  obtain ⟨h0, hle⟩ := litRangeB_spec nodes n hr nd hnd l hl
  apply litTrue_congr
  exact (assignOf_bitsOf σ n l.natAbs (by omega) hle).symm

/-- the truth-table check over the `2^n` bit vectors decides determinism for ALL assignments
`Nat → Bool`, because every leaf literal is a feature in `1..n` (`litRangeB`) so `eval` only looks
at the features `1..n` -/
theorem detB_sound (nodes : List NType) (n : Nat) (hr : litRangeB nodes n = true) :
    detB nodes n = true → Deterministic nodes := by
  intro hb i h cs hnd σ
  unfold detB at hb
  simp only [List.all_eq_true] at hb
  have := hb (bitsOf σ n) (bitsOf_mem_allBits σ n) nodes[i] (List.getElem_mem h)
  rw [hnd] at this
  simp only [decide_eq_true_eq] at this
  have e : cs.countP (fun c => eval σ nodes c)
      = cs.countP (fun c => (table false (fEval (assignOf (bitsOf σ n))) nodes).getD c false) := by
    congr 1
    funext c
    exact eval_bitsOf σ nodes n hr c
  rw [e]
  exact this

theorem wfB_sound (nodes : List NType) (n : Nat) : wfB nodes n = true → WF nodes n := by
  intro h
  unfold wfB structB at h
  simp only [Bool.and_eq_true, Bool.not_eq_true', List.isEmpty_eq_false_iff] at h
  obtain ⟨⟨⟨⟨⟨⟨⟨h1, h2⟩, h3⟩, h4⟩, h5⟩, h6⟩, h7⟩, h8⟩ := h
  exact
    { nonempty := h1
      topo := topoB_sound nodes h2
      litnz := litnzB_sound nodes h3
      decomposable := decomposableB_sound nodes h5
      smooth := smoothB_sound nodes h6
      deterministic := detB_sound nodes n h4 h8
      rootComplete := rootCompleteB_sound nodes n h7 }

/-! ### non-vacuity: the circuit of ddnnife's `small_ex_c2d.nnf` is well-formed -/

def smallEx : List NType :=
  [.lit 1, .lit 2, .lit (-3), .lit (-2), .lit 3, .lit 4, .lit (-4), .and [1, 2], .and [3, 4],
   .or [7, 8], .or [5, 6], .and [0, 9, 10]]

example : WF smallEx 4 := wfB_sound _ _ (by decide)

end Ddnnf
