/-
  Soundness of the executable checks of `Model/D4Conv.lean`: a d4 text that passes `conventionsB`
  satisfies every hypothesis of `load_wf'` / `load_count'`, so the loader yields a well-formed array
  whose count is the number of models of the text.

  The rank used for the semantics is not the array `ranks g` itself but the bounded rank
  `brank g x = 1 + #{y < size | ranks g y < ranks g x}` (for `x < size`, else `0`): it decreases along
  every edge as soon as `ranks g` does, and it is at most `size`, so the fuel `size + 1` of the
  checks is enough for every node.
-/
import DdnnfVerif.Model.D4Conv
import DdnnfVerif.Proofs.WFCheck
import DdnnfVerif.Proofs.LoadWF2_13

namespace Ddnnf.D4

theorem phase1B_eq (lines : List Line) (total : Nat) : phase1B lines total = phase1 lines total := rfl

/-! ### the rank array -/

theorem relax_size (g : G) (r : Array Nat) : (relax g r).size = r.size := by
  unfold relax
  generalize List.range g.kind.size = l
  suffices h : ∀ (acc : Array Nat), acc.size = r.size →
      (l.foldl (fun acc x => acc.setIfInBounds x
        (((g.outs.getD x []).map fun c => r.getD c 0 + 1).foldl max 0)) acc).size = r.size from h r rfl
  induction l with
  | nil => intro acc h; exact h
  | cons a l ih =>
    intro acc h
    rw [List.foldl_cons]
    exact ih _ (by rw [Array.size_setIfInBounds]; exact h)

theorem iter_relax_size (g : G) : ∀ (k : Nat) (r : Array Nat), (iter (relax g) k r).size = r.size := by
  intro k
  induction k with
  | zero => intro r; rfl
  | succ k ih => intro r; rw [iter, ih, relax_size]

theorem ranks_size (g : G) : (ranks g).size = g.kind.size := by
  unfold ranks
  rw [iter_relax_size, Array.size_replicate]

/-- the raw rank read off the array -/
def rrank (g : G) (x : Nat) : Nat := (ranks g).getD x 0

theorem rrank_of_ge (g : G) (x : Nat) (h : g.kind.size ≤ x) : rrank g x = 0 := by
  unfold rrank
  have : (ranks g).size ≤ x := by rw [ranks_size]; exact h
  simp [Array.getD_eq_getD_getElem?, Array.getElem?_eq_none this]

theorem acycB_raw (g : G) (h : acycB g = true) : Acyclic g (rrank g) := by
  intro x c hc
  by_cases hx : x < max g.kind.size g.outs.size
  · unfold acycB at h
    simp only [List.all_eq_true, decide_eq_true_eq] at h
    exact h x (List.mem_range.mpr hx) c hc
  · rw [outs_of_ge g x (by omega)] at hc
    cases hc

/-! ### the bounded rank -/

def brank (g : G) (x : Nat) : Nat :=
  if x < g.kind.size then (List.range g.kind.size).countP (fun y => decide (rrank g y < rrank g x)) + 1 else 0

theorem countP_lt_length {α} (p : α → Bool) (l : List α) (a : α) (ha : a ∈ l) (hp : p a = false) :
    l.countP p < l.length := by
  induction l with
  | nil => cases ha
  | cons b l ih =>
    rw [List.countP_cons, List.length_cons]
    rcases List.mem_cons.mp ha with rfl | h
    · have := List.countP_le_length (p := p) (l := l)
      simp [hp]; omega
    · have := ih h
      split <;> omega

theorem countP_lt_countP {α} (p q : α → Bool) (l : List α) (hpq : ∀ a, p a = true → q a = true)
    (a : α) (ha : a ∈ l) (hp : p a = false) (hq : q a = true) : l.countP p < l.countP q := by
  induction l with
  | nil => cases ha
  | cons b l ih =>
    rw [List.countP_cons, List.countP_cons]
    have hle : l.countP p ≤ l.countP q := List.countP_mono_left (fun x _ => hpq x)
    rcases List.mem_cons.mp ha with rfl | h
    · simp [hp, hq]; omega
    · have := ih h
      by_cases hb : p b = true
      · simp [hb, hpq b hb]; omega
      · simp [hb]; split <;> omega

theorem brank_le (g : G) (x : Nat) : brank g x ≤ g.kind.size := by
  unfold brank
  split
  · rename_i hx
    have := countP_lt_length (fun y => decide (rrank g y < rrank g x)) (List.range g.kind.size) x
      (List.mem_range.mpr hx) (by simp)
    rw [List.length_range] at this
    omega
  · omega

theorem brank_acyclic (g : G) (h : Acyclic g (rrank g)) : Acyclic g (brank g) := by
  intro x c hc
  have hlt := h x c hc
  have hx : x < g.kind.size := by
    by_cases hx : x < g.kind.size
    · exact hx
    · rw [rrank_of_ge g x (by omega)] at hlt; omega
  unfold brank
  rw [if_pos hx]
  split
  · rename_i hcs
    have := countP_lt_countP (fun y => decide (rrank g y < rrank g c))
      (fun y => decide (rrank g y < rrank g x)) (List.range g.kind.size)
      (fun a ha => by simp only [decide_eq_true_eq] at ha ⊢; omega) c (List.mem_range.mpr hcs)
      (by simp) (by simpa using hlt)
    omega
  · omega

theorem acycB_sound (g : G) (h : acycB g = true) : Acyclic g (brank g) :=
  brank_acyclic g (acycB_raw g h)

theorem brank_lt_fuel (g : G) (x : Nat) : brank g x < g.kind.size + 1 := by
  have := brank_le g x; omega

/-! ### kinds of nodes live inside the array -/

theorem kindOf_some_lt (g : G) (x : Nat) (k : GK) (h : g.kindOf x = some k) : x < g.kind.size := by
  by_cases hx : x < g.kind.size
  · exact hx
  · rw [kindOf_of_ge g x (by omega)] at h; cases h

theorem kindOf_mem (g : G) (x : Nat) (k : GK) (h : g.kindOf x = some k) : some k ∈ g.kind.toList := by
  have hx := kindOf_some_lt g x k h
  have : g.kind[x] = some k := by
    simpa [G.kindOf, Array.getD_eq_getD_getElem?, Array.getElem?_eq_getElem hx] using h
  rw [← this]
  exact Array.mem_toList_iff.mpr (Array.getElem_mem hx)

theorem litNZCheckB_sound (g : G) (h : litNZCheckB g = true) : LitNZ g := by
  intro x l hk
  unfold litNZCheckB at h
  rw [List.all_eq_true] at h
  have := h _ (kindOf_mem g x _ hk)
  simpa using this

theorem litRangeB_sound (g : G) (n : Nat) (h : litRangeB g n = true) :
    ∀ x l, g.kindOf x = some (.lit l) → 1 ≤ l.natAbs ∧ l.natAbs ≤ n := by
  intro x l hk
  unfold litRangeB at h
  rw [List.all_eq_true] at h
  have := h _ (kindOf_mem g x _ hk)
  simpa using this

theorem noDeclB_sound (lines : List Line) (h : noDeclB lines = true) :
    ∀ l, Line.node (.lit l) ∉ lines := by
  intro l hl
  unfold noDeclB at h
  rw [List.all_eq_true] at h
  have := h _ hl
  simp at this

theorem hasNode_sound (lines : List Line)
    (h : lines.any (fun l => match l with | .node _ => true | _ => false) = true) :
    ∃ k, Line.node k ∈ lines := by
  rw [List.any_eq_true] at h
  obtain ⟨l, hl, hm⟩ := h
  cases l with
  | node k => exact ⟨k, hl⟩
  | edge a b c => simp at hm

/-! ### decomposability -/

theorem mentionsL_complete (g : G) (r : Nat → Nat) (hacyc : Acyclic g r) (c f : Nat)
    (hm : Mentions g c f) : ∀ fuel, r c < fuel → f ∈ mentionsL g fuel c := by
  induction hm with
  | lit hk =>
    intro fuel hf
    obtain ⟨fuel, rfl⟩ : ∃ k, fuel = k + 1 := ⟨fuel - 1, by omega⟩
    rw [mentionsL, hk]
    exact List.mem_singleton.mpr rfl
  | @inner x c v hk hc _ ih =>
    intro fuel hf
    obtain ⟨fuel, rfl⟩ : ∃ k, fuel = k + 1 := ⟨fuel - 1, by omega⟩
    have hlt := hacyc x c hc
    have hin : v ∈ (g.outs.getD x []).flatMap (mentionsL g fuel) :=
      List.mem_flatMap.mpr ⟨c, hc, ih fuel (by omega)⟩
    rw [mentionsL]
    rcases hk with hk | hk <;> rw [hk] <;> exact hin

theorem pairwiseB_sound {α} (p : α → α → Bool) (l : List α) (h : pairwiseB p l = true) :
    l.Pairwise (fun a b => p a b = true) := by
  induction l with
  | nil => exact List.Pairwise.nil
  | cons a l ih =>
    rw [pairwiseB, Bool.and_eq_true, List.all_eq_true] at h
    exact List.Pairwise.cons h.1 (ih h.2)

theorem gdecB_sound (g : G) (r : Nat → Nat) (hacyc : Acyclic g r)
    (hr : ∀ x, r x < g.kind.size + 1) (h : gdecB g = true) : GDec g := by
  intro x hk
  have hx := kindOf_some_lt g x _ hk
  unfold gdecB at h
  simp only [List.all_eq_true] at h
  have hp := h x (List.mem_range.mpr hx)
  rw [hk] at hp
  simp only [beq_self_eq_true, if_true] at hp
  refine (pairwiseB_sound _ _ hp).imp ?_
  intro c d hcd f hcf hdf
  rw [List.all_eq_true] at hcd
  have h1 := hcd f (mentionsL_complete g r hacyc c f hcf _ (hr c))
  have h2 := mentionsL_complete g r hacyc d f hdf _ (hr d)
  simp only [Bool.not_eq_true', List.contains_eq_mem, decide_eq_false_iff_not] at h1
  exact h1 h2

/-! ### evaluation -/

theorem evalB_eq_evalG (σ : Assignment) (g : G) : ∀ fuel x, evalB σ g fuel x = evalG σ g fuel x := by
  intro fuel
  induction fuel with
  | zero => intro x; rfl
  | succ fuel ih =>
    intro x
    have hf : evalB σ g fuel = evalG σ g fuel := funext ih
    rw [evalB, evalG, hf]
    rcases g.kindOf x with _ | (_ | _ | _ | _ | _) <;> rfl

theorem evalB_eq_sem (σ : Assignment) (g : G) (r : Nat → Nat) (hacyc : Acyclic g r)
    (hr : ∀ x, r x < g.kind.size + 1) (x : Nat) : evalB σ g (g.kind.size + 1) x = sem σ g r x := by
  rw [evalB_eq_evalG]
  exact evalG_eq_sem σ g r hacyc x _ (hr x)

/-- the value of a node depends on the assignment only through the literals of the graph -/
theorem evalG_congr (σ τ : Assignment) (g : G)
    (h : ∀ x l, g.kindOf x = some (.lit l) → litTrue σ l = litTrue τ l) :
    ∀ fuel x, evalG σ g fuel x = evalG τ g fuel x := by
  intro fuel
  induction fuel with
  | zero => intro x; rfl
  | succ fuel ih =>
    intro x
    have hf : evalG σ g fuel = evalG τ g fuel := funext ih
    rw [evalG, evalG, hf]
    split
    · rfl
    · rfl
    · rename_i l hk; exact h x l hk
    · rfl
    · rfl

theorem litTrue_bitsOf (σ : Assignment) (n : Nat) (l : Int) (h1 : 1 ≤ l.natAbs) (h2 : l.natAbs ≤ n) :
    litTrue σ l = litTrue (assignOf (bitsOf σ n)) l := by
  unfold litTrue
  rw [assignOf_bitsOf σ n l.natAbs h1 h2]

theorem sem_bitsOf (σ : Assignment) (g : G) (r : Nat → Nat) (n : Nat)
    (hrange : ∀ x l, g.kindOf x = some (.lit l) → 1 ≤ l.natAbs ∧ l.natAbs ≤ n) :
    sem σ g r = sem (assignOf (bitsOf σ n)) g r := by
  funext x
  unfold sem
  exact evalG_congr σ _ g (fun y l hk => litTrue_bitsOf σ n l (hrange y l hk).1 (hrange y l hk).2) _ x

theorem detB_sound (g : G) (n : Nat) (r : Nat → Nat) (hacyc : Acyclic g r)
    (hr : ∀ x, r x < g.kind.size + 1)
    (hrange : ∀ x l, g.kindOf x = some (.lit l) → 1 ≤ l.natAbs ∧ l.natAbs ≤ n)
    (h : detB g n = true) :
    ∀ (σ : Assignment) (x : Nat), g.kindOf x = some .or →
      (g.outs.getD x []).countP (sem σ g r) ≤ 1 := by
  intro σ x hk
  have hx := kindOf_some_lt g x _ hk
  unfold detB at h
  simp only [List.all_eq_true] at h
  have hp := h (bitsOf σ n) (bitsOf_mem_allBits σ n) x (List.mem_range.mpr hx)
  rw [hk] at hp
  simp only [beq_self_eq_true, if_true, decide_eq_true_eq] at hp
  have hf : evalB (assignOf (bitsOf σ n)) g (g.kind.size + 1) = sem (assignOf (bitsOf σ n)) g r :=
    funext (evalB_eq_sem _ g r hacyc hr)
  rw [hf, ← sem_bitsOf σ g r n hrange] at hp
  exact hp

theorem satB_sound (g : G) (n : Nat) (r : Nat → Nat) (hacyc : Acyclic g r)
    (hr : ∀ x, r x < g.kind.size + 1) (h : satB g n = true) : ∃ σ, sem σ g r 0 = true := by
  unfold satB at h
  rw [List.any_eq_true] at h
  obtain ⟨b, _, hb⟩ := h
  exact ⟨assignOf b, by rw [← evalB_eq_sem _ g r hacyc hr]; exact hb⟩

/-! ### the main theorems -/

structure Conv (lines : List Line) (total : Nat) : Prop where
  node : ∃ k, Line.node k ∈ lines
  decl : ∀ l, Line.node (.lit l) ∉ lines
  acyc : Acyclic (phase1 lines total).g (brank (phase1 lines total).g)
  nz : LitNZ (phase1 lines total).g
  dec : GDec (phase1 lines total).g
  det : ∀ (σ : Assignment) (x : Nat), (phase1 lines total).g.kindOf x = some .or →
    ((phase1 lines total).g.outs.getD x []).countP
      (sem σ (phase1 lines total).g (brank (phase1 lines total).g)) ≤ 1
  ok : (load lines total).2.2 = false
  sat : ∃ σ, sem σ (phase1 lines total).g (brank (phase1 lines total).g) 0 = true

theorem conventionsB_conv (lines : List Line) (total : Nat) (h : conventionsB lines total = true) :
    Conv lines total := by
  unfold conventionsB at h
  simp only [Bool.and_eq_true, phase1B_eq] at h
  obtain ⟨⟨⟨⟨⟨⟨⟨⟨hnode, hdecl⟩, hacyc⟩, hnz⟩, hrange⟩, hdec⟩, hdet⟩, hok⟩, hsat⟩ := h
  have hac := acycB_sound _ hacyc
  have hr := brank_lt_fuel (phase1 lines total).g
  exact {
    node := hasNode_sound lines hnode
    decl := noDeclB_sound lines hdecl
    acyc := hac
    nz := litNZCheckB_sound _ hnz
    dec := gdecB_sound _ _ hac hr hdec
    det := detB_sound _ _ _ hac hr (litRangeB_sound _ _ hrange) hdet
    ok := by simpa using hok
    sat := satB_sound _ _ _ hac hr hsat }

/-- a text that passes the executable checks is loaded into a well-formed array -/
theorem conventionsB_sound (lines : List Line) (total : Nat) (h : conventionsB lines total = true) :
    WF (load lines total).2.1 (load lines total).1 := by
  have c := conventionsB_conv lines total h
  exact load_wf' lines total c.node c.decl _ c.acyc c.nz c.dec c.det c.ok c.sat

/-- … and the count of the array is the number of models of the text (by truth table) -/
theorem conventionsB_count (lines : List Line) (total : Nat) (h : conventionsB lines total = true) :
    count (load lines total).2.1 (rootIx (load lines total).2.1) =
      ((allBits (load lines total).1).filter fun b =>
        evalB (assignOf b) (phase1B lines total).g ((phase1B lines total).g.kind.size + 1) 0).length := by
  have c := conventionsB_conv lines total h
  rw [load_count' lines total c.node c.decl _ c.acyc c.nz c.dec c.det c.ok c.sat, phase1B_eq]
  congr 2
  funext b
  exact (evalB_eq_sem _ _ _ c.acyc (brank_lt_fuel _) 0).symm

/-! ### non-vacuity -/

example : conventionsB [.node .or, .node .tru, .edge 1 2 [1, 2], .edge 1 2 [-1]] 3 = true := by decide +kernel

end Ddnnf.D4
