/-
  C06 for well-formed circuits: the list a cursor key pages through (`enumList`, see
  `Proofs/Paging.lean`) has no duplicates, consists of the listed models of the root that avoid
  the complements of the assumptions, and its length is the answer of `execute_query`.
-/
import DdnnfVerif.Proofs.Paging
import DdnnfVerif.Proofs.ExecQuery

namespace Ddnnf

/-- the listed models of the root of a well-formed circuit are pairwise different -/
theorem models_root_nodup (nodes : List NType) (n : Nat) (h : WF nodes n) :
    (models nodes (rootIx nodes)).Nodup := by
  have hsat : ∀ c ∈ models nodes (rootIx nodes), ∃ b, satCfg (assignOf b) c = true := by
    intro c hc
    have hcomp := root_models_complete nodes n h c hc
    have h1 := countP_allBits_one n c hcomp.1 hcomp.2
    have hpos : 0 < (allBits n).countP (fun b => satCfg (assignOf b) c) := by omega
    obtain ⟨b, _, hb⟩ := List.countP_pos_iff.mp hpos
    exact ⟨b, hb⟩
  have hle : ∀ σ, (models nodes (rootIx nodes)).countP (satCfg σ) ≤ 1 := by
    intro σ
    rw [countP_models nodes h.deterministic σ]
    split <;> omega
  generalize models nodes (rootIx nodes) = ms at hsat hle
  induction ms with
  | nil => exact List.nodup_nil
  | cons c ms ih =>
    rw [List.nodup_cons]
    constructor
    · intro hmem
      obtain ⟨b, hb⟩ := hsat c (List.mem_cons_self ..)
      have := hle (assignOf b)
      rw [List.countP_cons_of_pos hb] at this
      have hpos : 0 < ms.countP (satCfg (assignOf b)) := List.countP_pos_iff.mpr ⟨c, hmem, hb⟩
      omega
    · apply ih (fun c' hc' => hsat c' (List.mem_cons_of_mem _ hc'))
      intro σ
      have := hle σ
      rw [List.countP_cons] at this
      omega

theorem enumList_eq_filter (nodes : List NType) (key : List Int) :
    enumList nodes key = (models nodes (rootIx nodes)).filter
      (fun c => c.all (fun l => !(key.map (fun f => -f)).contains l)) :=
  modelsA_eq_filter nodes _ _

/-- the list a cursor key pages through has no duplicates -/
theorem enumList_nodup (nodes : List NType) (n : Nat) (h : WF nodes n) (key : List Int) :
    (enumList nodes key).Nodup := by
  rw [enumList_eq_filter]
  exact List.Pairwise.filter _ (models_root_nodup nodes n h)

/-- … and `execute_query(key)` elements -/
theorem enumList_length (nodes : List NType) (n : Nat) (h : WF nodes n) (hpd : PDLeaf nodes)
    (key : List Int) (hA : InRange key n) :
    (enumList nodes key).length = execQuery nodes n key := by
  rw [execQuery_exact nodes n h hpd key hA]
  unfold enumList
  rw [← enum_countA_eq_length]
  apply countA_negs_exact nodes n h key hA
  · intro l hl
    rw [List.mem_map] at hl
    obtain ⟨a, ha, rfl⟩ := hl
    simpa using ha
  · intro a ha
    left
    exact List.mem_map.mpr ⟨a, ha, rfl⟩

end Ddnnf
