/-
  The side conditions of the enumeration theorems (`C06.EnumOK`) for the arrays the d4 loader produces,
  part 1: **after the True/False elimination no or-node the DFS emitted has a `True` successor**
  (`eliminate_noTru`), and the later phases create no `True` node (`TruSub`, `st4_truSub`).

  The elimination visits the nodes in DFS post-order.  When an or-node `nx` is visited, `elimNode.go`
  walks over its successors: a `True` successor resolves `nx` to `True` (it is no or-node any more), a
  `False` successor is cut off, and the others stay — none of them is `True`.  Later visits only turn
  *later* nodes of the post-order into `True`, and those are not successors of `nx` (successors come first).
-/
import DdnnfVerif.Proofs.LoadOK

namespace Ddnnf.D4

/-- no successor of the or-node `x` is a `True` node -/
def OrGood (g : G) (x : Nat) : Prop :=
  g.kindOf x = some .or → ∀ c ∈ g.outs.getD x [], g.kindOf c ≠ some .tru

/-- every `True` node of `g'` is a `True` node of `g` -/
def TruSub (g g' : G) : Prop := ∀ x, g'.kindOf x = some .tru → g.kindOf x = some .tru

theorem TruSub.refl (g : G) : TruSub g g := fun _ h => h

theorem TruSub.trans {g g' g'' : G} (h1 : TruSub g g') (h2 : TruSub g' g'') : TruSub g g'' :=
  fun x h => h1 x (h2 x h)

/-! ### one visit of the elimination -/

/-- `elimNode_go_closed` for properties that `makeTrue` only keeps at the visited node -/
theorem elimNode_go_closed' (P : G → Prop) (nx : Nat)
    (hre : ∀ g a b, P g → P (g.removeEdge a b))
    (hrn : ∀ g x, g.kindOf x = some .and → P g → P (g.removeNode x))
    (hmt : ∀ g, g.kindOf nx = some .or → P g → P (g.makeTrue nx))
    (herr : ∀ g, P g → P { g with err := true }) :
    ∀ (cs : List Nat) (g : G), P g → P (elimNode.go nx cs g) := by
  intro cs
  induction cs with
  | nil => intro g h; exact h
  | cons c cs ih =>
    intro g h
    unfold elimNode.go
    split
    · exact ih g h
    · split
      · exact ih _ (hre g nx c h)
      · rename_i hk; exact hmt g hk h
      · exact herr g h
      · exact herr g h
    · split
      · exact ih _ (hre g nx c h)
      · exact deleteChain_closed P hrn herr _ g nx [] h
      · exact herr g h
      · exact herr g h
    · exact ih g h

/-- a visit of `nx` turns no node but `nx` into `True` -/
theorem elimNode_tru (g : G) (nx : Nat) :
    ∀ y, y ≠ nx → (elimNode g nx).kindOf y = some .tru → g.kindOf y = some .tru := by
  refine elimNode_go_closed' (fun g' => ∀ y, y ≠ nx → g'.kindOf y = some .tru → g.kindOf y = some .tru) nx
    ?_ ?_ ?_ ?_ _ g (fun _ _ h => h)
  · intro g' a b h y hy hk; exact h y hy hk
  · intro g' x _ h y hy hk
    rw [removeNode_kindOf] at hk
    split at hk
    · cases hk
    · exact h y hy hk
  · intro g' hk' h y hy hk
    rw [makeTrue_kindOf g' nx y (kindOf_lt hk'), if_neg hy] at hk
    exact h y hy hk
  · intro g' h y hy hk; exact h y hy hk

/-- the walk over the successors of an or-node: what is left is not `True` -/
theorem go_orGood (nx : Nat) : ∀ (cs : List Nat) (g : G), g.kindOf nx = some .or →
    (∀ c ∈ g.outs.getD nx [], c ∈ cs ∨ g.kindOf c ≠ some .tru) → OrGood (elimNode.go nx cs g) nx := by
  intro cs
  induction cs with
  | nil =>
    intro g _ h _ c hc
    rcases h c hc with h | h
    · cases h
    · exact h
  | cons c cs ih =>
    intro g hnx h
    unfold elimNode.go
    split
    · rename_i hk
      apply ih g hnx
      intro c' hc'
      rcases h c' hc' with h' | h'
      · rcases List.mem_cons.1 h' with e | h'
        · right; rw [e, hk]; intro e'; cases e'
        · exact Or.inl h'
      · exact Or.inr h'
    · -- a `True` successor: `nx` is resolved
      rw [hnx]
      dsimp only
      intro hk
      rw [makeTrue_kindOf g nx nx (kindOf_lt hnx), if_pos rfl] at hk
      cases hk
    · -- a `False` successor: the edge is removed
      rename_i hk
      rw [hnx]
      dsimp only
      apply ih _ (by exact hnx)
      intro c' hc'
      have hc'' := mem_outs_removeEdge hc'
      show c' ∈ cs ∨ g.kindOf c' ≠ some .tru
      rcases h c' hc'' with h' | h'
      · rcases List.mem_cons.1 h' with e | h'
        · right; rw [e, hk]; intro e'; cases e'
        · exact Or.inl h'
      · exact Or.inr h'
    · rename_i hk1 hk2 hk3
      apply ih g hnx
      intro c' hc'
      rcases h c' hc' with h' | h'
      · rcases List.mem_cons.1 h' with e | h'
        · right; rw [e]; exact hk2
        · exact Or.inl h'
      · exact Or.inr h'

theorem elimNode_orGood_self (g : G) (nx : Nat) : OrGood (elimNode g nx) nx := by
  by_cases hnx : g.kindOf nx = some .or
  · exact go_orGood nx _ g hnx (fun c hc => Or.inl hc)
  · intro hk
    exact absurd ((erel_elimNode g nx).kind_back hk (by decide)) hnx

/-- a visit keeps `OrGood` at every node that does not have `nx` as a successor -/
theorem elimNode_orGood_other (g : G) (nx x : Nat) (_hx : x ≠ nx) (hnot : nx ∉ g.outs.getD x [])
    (h : OrGood g x) : OrGood (elimNode g nx) x := by
  intro hk c hc
  have rel := erel_elimNode g nx
  have hk0 : g.kindOf x = some .or := rel.kind_back hk (by decide)
  have hc0 : c ∈ g.outs.getD x [] := rel.outs x c hc
  intro htru
  have hcn : c ≠ nx := by intro e; rw [e] at hc0; exact hnot hc0
  exact h hk0 c hc0 (elimNode_tru g nx c hcn htru)

/-! ### the whole elimination -/

/-- **After the elimination, no or-node that the DFS emitted has a `True` successor.** -/
theorem eliminate_noTru (g : G) (root : Nat) (r : Nat → Nat)
    (hwf : ∀ x, ∀ c ∈ g.outs.getD x [], c < g.kind.size) (hacyc : Acyclic g r) :
    ∀ x ∈ postOrder g root, OrGood (eliminate g root) x := by
  have hnd := postOrder_nodup g root
  have key := foldl_inv_prefix
    (fun (pre : List Nat) (g' : G) => ERel g g' ∧ ∀ x ∈ pre, OrGood g' x) elimNode (postOrder g root)
    (by
      intro pre nx post b e ⟨hrel, hgood⟩
      refine ⟨hrel.trans (erel_elimNode b nx), ?_⟩
      have hnd' : (pre ++ nx :: post).Nodup := by rw [← e]; exact hnd
      have hnpre : nx ∉ pre := fun hm =>
        (List.nodup_append.1 hnd').2.2 nx hm nx (List.mem_cons_self ..) rfl
      intro x hx
      rcases List.mem_append.1 hx with hx | hx
      · -- an earlier node: `nx` is not among its successors
        have hne : x ≠ nx := by
          intro e'
          rw [e'] at hx
          exact hnpre hx
        have hnot : nx ∉ b.outs.getD x [] := by
          intro hmem
          have hmem0 := hrel.outs x nx hmem
          obtain ⟨p1, p2, ep⟩ := List.append_of_mem hx
          have e2 : postOrder g root = p1 ++ x :: (p2 ++ nx :: post) := by
            rw [e, ep]; simp
          have h1 := postOrder_children_before g root r hwf hacyc p1 x _ e2 nx hmem0
          exact hnpre (by rw [ep]; exact List.mem_append_left _ h1)
        exact elimNode_orGood_other b nx x hne hnot (hgood x hx)
      · rw [List.mem_singleton.1 hx]
        exact elimNode_orGood_self b nx)
    g ⟨ERel.refl g, fun x hx => (by cases hx)⟩
  exact key.2

/-! ### the later phases create no `True` node -/

theorem truSub_addNode (g : G) (k : GK) (hk : k ≠ .tru) : TruSub g (g.addNode k).1 := by
  intro x h
  rw [kindOf_addNode] at h
  split at h
  · cases h; exact absurd rfl hk
  · exact h

theorem truSub_addEdge (g : G) (a b : Nat) : TruSub g (g.addEdge a b) := fun _ h => h

theorem truSub_removeEdge (g : G) (a b : Nat) : TruSub g (g.removeEdge a b) := fun _ h => h

theorem getLit_truSub (s : LState) (l : Int) : TruSub s.g (s.getLit l).1.g := by
  cases hf : s.litNx.find? (·.1 == l) with
  | some e => rw [getLit_found s l e hf]; exact TruSub.refl _
  | none => rw [getLit_new s l hf]; exact truSub_addNode s.g _ (by intro e; cases e)

theorem addTriangle_truSub (s : LState) (f A : Nat) : TruSub s.g (s.addTriangle f A).g := by
  cases hfind : s.tri.find? (·.1 == f) with
  | some e => rw [addTriangle_found s f A e hfind]; exact truSub_addEdge _ _ _
  | none =>
    rw [addTriangle_new s f A hfind]
    unfold triNew
    dsimp only
    have h1 : TruSub s.g ({ s with g := (s.g.addNode .or).1, tri := (f, (s.g.addNode .or).2) :: s.tri } : LState).g :=
      truSub_addNode s.g .or (by decide)
    have h3 := (h1.trans (getLit_truSub _ (f : Int))).trans (getLit_truSub _ (-(f : Int)))
    exact ((h3.trans (truSub_addEdge _ _ _)).trans (truSub_addEdge _ _ _)).trans (truSub_addEdge _ _ _)

theorem addTriangles_truSub (A : Nat) : ∀ (order : List Nat) (s : LState),
    TruSub s.g (order.foldl (fun t f => t.addTriangle f A) s).g := by
  intro order
  induction order with
  | nil => intro s; exact TruSub.refl _
  | cons f fs ih =>
    intro s
    rw [List.foldl_cons]
    exact (addTriangle_truSub s f A).trans (ih _)

theorem wrapTri_truSub (s : LState) (root f : Nat) : TruSub s.g (wrapTri s root f).1.g := by
  by_cases h0 : root = 0
  · subst h0
    rw [wrapTri_zero]
    dsimp only
    have hw : TruSub s.g ({ s with g := (s.g.addNode .and).1.addEdge s.g.kind.size 0 } : LState).g :=
      (truSub_addNode s.g .and (by decide)).trans (truSub_addEdge _ _ _)
    exact hw.trans (addTriangle_truSub _ f _)
  · rw [wrapTri_ne s root f h0]
    exact addTriangle_truSub s f root

theorem wrapFold_truSub (skip : LState → Nat → Bool) (ks : List Nat) (s : LState) (root : Nat) :
    TruSub s.g (ks.foldl (wrapFoldStep skip) (s, root)).1.g := by
  refine foldl_inv (fun (acc : LState × Nat) => TruSub s.g acc.1.g) _ _ ?_ (s, root) (TruSub.refl _)
  intro acc k _ hacc
  unfold wrapFoldStep
  split
  · exact hacc
  · exact hacc.trans (wrapTri_truSub acc.1 acc.2 (k + 1))

theorem addVanished_truSub (s : LState) (root : Nat) : TruSub s.g (addVanished s root).1.g := by
  rw [addVanished_eq_fold]; exact wrapFold_truSub _ _ _ _

theorem insertAnd_truSub (g : G) (nx child : Nat) : TruSub g (insertAnd g nx child) := by
  unfold insertAnd
  exact (((truSub_addNode g .and (by decide)).trans (truSub_removeEdge _ _ _)).trans
    (truSub_addEdge _ _ _)).trans (truSub_addEdge _ _ _)

theorem balanceStep_truSub (sorted : Bool) (h : List Nat → List Nat) (nx : Nat) (s : LState)
    (w : Nat × List Nat) : TruSub s.g (balanceStep sorted h nx s w).g := by
  obtain ⟨child, miss⟩ := w
  rw [balanceStep_eq]
  have h1 : TruSub s.g ({ s with g := insertAnd s.g nx child } : LState).g := insertAnd_truSub s.g nx child
  exact h1.trans (addTriangles_truSub _ _ _)

theorem balance_truSub (sorted : Bool) (h : List Nat → List Nat) (s : LState) (nx : Nat)
    (work : List (Nat × List Nat)) : TruSub s.g (balance sorted h s nx work).g := by
  rw [balance_eq]
  exact foldl_inv (fun (acc : LState) => TruSub s.g acc.g) _ _
    (fun acc w _ hacc => hacc.trans (balanceStep_truSub sorted h nx acc w)) s (TruSub.refl _)

theorem smoothStep_truSub (sorted : Bool) (h : List Nat → List Nat) (vs : Array (List Nat))
    (acc : LState) (nx : Nat) : TruSub acc.g (smoothStep sorted h vs acc nx).g := by
  unfold smoothStep
  split
  · exact balance_truSub sorted h acc nx _
  · exact TruSub.refl _

theorem smooth_truSub (sorted : Bool) (h : List Nat → List Nat) (s : LState) (root : Nat) :
    TruSub s.g (smooth sorted h s root).g := by
  rw [smooth_eq]
  exact foldl_inv (fun (acc : LState) => TruSub s.g acc.g) _ _
    (fun acc nx _ hacc => hacc.trans (smoothStep_truSub sorted h _ acc nx)) s (TruSub.refl _)

/-! ### the facts about the phases that the proofs below use (as in `final_graph`) -/

structure Pipe (s1 : LState) : Prop where
  facts : ∃ ρ2 ρ3 r4 : Nat → Nat,
    Acyclic (addFree s1).1.g ρ2 ∧ WFG (addFree s1).1.g ∧
    ERel2 (addFree s1).1.g (afterElim s1).g ∧ WFG (afterElim s1).g ∧ Acyclic (afterElim s1).g ρ2 ∧
    (afterElim s1).g.kind.size = (addFree s1).1.g.kind.size ∧ 0 < (afterElim s1).g.kind.size ∧
    (addFree s1).2 < (afterElim s1).g.kind.size ∧ RootD (afterElim s1) (addFree s1).2 ∧
    (afterElim s1).total = s1.total ∧
    WrapStep (afterElim s1) (addFree s1).2 (st3 s1).1 (st3 s1).2 ∧ DInv (st3 s1).1 ∧
    RootD (st3 s1).1 (st3 s1).2 ∧ Acyclic (st3 s1).1.g ρ3 ∧ (st3 s1).2 < (st3 s1).1.g.kind.size ∧
    SmInv (st3 s1).1 (st3 s1).2 (postOrder (st3 s1).1.g (st3 s1).2) (st4 true id s1) ∧
    FCtx (st4 true id s1).g r4

theorem pipe_of (s1 : LState) (r : Nat → Nat) (hp : PInv s1) (htri : s1.tri = [])
    (hpos : 0 < s1.g.kind.size) (hwf : D4WF s1 r) (hsat : ∃ σ, sem σ s1.g r 0 = true)
    (hok : (st4 true id s1).g.err = false) : Pipe s1 := by
  obtain ⟨σ, hσ⟩ := hsat
  have hnz : LitNZ s1.g := by
    intro x l hk e
    have := (hwf.litRange x l hk).1
    rw [e] at this; simp at this
  -- phase 1
  have d1 : DInv s1 := ⟨⟨⟨hp.linv, hp.litK⟩, (by intro e he; rw [htri] at he; cases he), hwf.litRange,
    hwf.litSink⟩, hwf.decomposable⟩
  have gd1 : GDet s1.g := by
    intro σ' v hm x hk
    rw [List.countP_congr (fun c _ => by rw [hm.eq_sem r hwf.acyclic c])]
    exact hwf.deterministic σ' x hk
  have rk1 : RInv s1 (normRank s1 r) := normRank_rinv s1 r hp htri hwf.acyclic
    (fun e he => hwf.litSink _ _ (hp.litK e he))
  have c1 : CInv σ s1 (sem σ s1.g r) := ⟨hp.linv, sem_model σ s1.g r hwf.acyclic, hp.litK, hnz⟩
  have t1 : TriT s1 (sem σ s1.g r) := by intro e he; rw [htri] at he; cases he
  -- phase 2
  have H2 := wrapFold_dinv (fun t f => t.occurs.contains f) (fun f => s1.occurs.contains f) s1 0
    (List.range s1.total) (fun t ht f => by show t.occurs.contains f = _; rw [ht]) d1 hpos (Or.inl rfl)
    List.nodup_range (fun k hk => by have := List.mem_range.1 hk; omega)
    (fun f hm => by
      obtain ⟨y, l, hyl, e⟩ := hm.leaf
      rw [← e]; exact hwf.litOcc y l hyl)
  rw [← addFree_eq_fold] at H2
  obtain ⟨d2, rd2, w2, m2, nz2⟩ := H2
  have wf1 := hp.linv.wf
  have wf2 := d2.b.p.linv.wf
  have gd2 : GDet (addFree s1).1.g := gdet_wrapStep w2 d2.b wf1 (Or.inl rfl) gd1
  obtain ⟨ρ2, rk2, rh2, _⟩ := addFree_rank hpos rk1
  have i2 : IOK (addFree s1).1.g := addFree_iok s1 hp.linv hp.iok
  obtain ⟨v2, c2, t2, e2, _, hv2⟩ := addFree_sem hpos c1 t1
  have hpos2 : 0 < (addFree s1).1.g.kind.size := Nat.lt_of_lt_of_le hpos w2.size
  -- phase 3
  have herr3 : (afterElim s1).g.err = false := by rw [← st4_err true id s1]; exact hok
  have rel := erel2_eliminate (addFree s1).1.g (addFree s1).2
  have hsz3 : (afterElim s1).g.kind.size = (addFree s1).1.g.kind.size :=
    (eliminate_wfn _ (addFree s1).1.g (addFree s1).2 ⟨wf2, rfl⟩).2
  have d3 : DInv (afterElim s1) := elim_dinv (addFree s1).1 (addFree s1).2 d2
  have wf3 := d3.b.p.linv.wf
  have gd3 : GDet (afterElim s1).g := gdet_elim (addFree s1).2 ρ2 rk2.acyc i2.ins herr3 gd2
  have rk3 : RInv (afterElim s1) ρ2 := elim_rank (addFree s1).1 ρ2 (addFree s1).2 rk2
  have hm3 : Model σ (afterElim s1).g v2 := by
    rcases eliminate_sem (addFree s1).1.g (addFree s1).2 c2.model i2.ins with herr | ⟨h, _⟩
    · have : (afterElim s1).g.err = true := herr
      rw [herr3] at this; cases this
    · exact h
  have halive : (addFree s1).2 ≠ 0 → (afterElim s1).g.kindOf (addFree s1).2 = some .and := by
    intro h0
    have hk2 : (addFree s1).1.g.kindOf (addFree s1).2 = some .and := by
      rcases rd2 with e | h
      · exact absurd e h0
      · exact h.2.1
    rcases rel.base.kinds (addFree s1).2 with e | ⟨e, _⟩ | ⟨_, e⟩
    · exact e.trans hk2
    · have hf : v2 (addFree s1).2 = false := hm3.none e
      rw [hv2, hσ] at hf; cases hf
    · rw [hk2] at e; cases e
  have rd3 : RootD (afterElim s1) (addFree s1).2 := elim_rootD wf2 rd2 halive
  have hroot2 : (addFree s1).2 < (afterElim s1).g.kind.size := by
    rcases rd3 with e | h
    · rw [e, hsz3]; exact hpos2
    · exact h.1
  have hpos3 : 0 < (afterElim s1).g.kind.size := by rw [hsz3]; exact hpos2
  have htot3 : (afterElim s1).total = s1.total := w2.total
  have hpresent : ∀ f, ((varSets (afterElim s1).g (addFree s1).2).getD (addFree s1).2 []).contains f = true ↔
      Mentions (afterElim s1).g (addFree s1).2 f := by
    intro f
    rw [contains_iff_mem]
    exact mem_varSets_iff (afterElim s1).g (addFree s1).2 ρ2 wf3.edges rk3.acyc (addFree s1).2
      (postOrder_root _ _ hroot2) f
  -- phase 3b
  have H3 := wrapFold_dinv
    (fun t f => !(t.occurs.contains f) ||
      ((varSets (afterElim s1).g (addFree s1).2).getD (addFree s1).2 []).contains f)
    (fun f => !((afterElim s1).occurs.contains f) ||
      ((varSets (afterElim s1).g (addFree s1).2).getD (addFree s1).2 []).contains f)
    (afterElim s1) (addFree s1).2 (List.range (afterElim s1).total)
    (fun t ht f => by
      show (!(t.occurs.contains f) || _) = _
      rw [ht]) d3 hpos3 rd3 List.nodup_range
    (fun k hk => by have := List.mem_range.1 hk; omega)
    (fun f hm => by
      show (!((afterElim s1).occurs.contains f) || _) = true
      rw [(hpresent f).2 hm]; simp)
  rw [← addVanished_eq_fold] at H3
  obtain ⟨d3b, rd3b, w3b, m3b, _⟩ : DInv (st3 s1).1 ∧ RootD (st3 s1).1 (st3 s1).2 ∧
      WrapStep (afterElim s1) (addFree s1).2 (st3 s1).1 (st3 s1).2 ∧
      (∀ f', Mentions (st3 s1).1.g (st3 s1).2 f' ↔ Mentions (afterElim s1).g (addFree s1).2 f' ∨
        ∃ k ∈ List.range (afterElim s1).total,
          (!((afterElim s1).occurs.contains (k + 1)) ||
            ((varSets (afterElim s1).g (addFree s1).2).getD (addFree s1).2 []).contains (k + 1)) = false ∧
          f' = k + 1) ∧ _ := H3
  have hr3 : (addFree s1).2 = 0 ∨ ((addFree s1).2 < (afterElim s1).g.kind.size ∧
      (afterElim s1).g.kindOf (addFree s1).2 = some .and) := by
    rcases rd3 with e | h
    · exact Or.inl e
    · exact Or.inr ⟨h.1, h.2.1⟩
  have gd3b : GDet (st3 s1).1.g := gdet_wrapStep w3b d3b.b wf3 hr3 gd3
  have rh3 : RootHi (afterElim s1) ρ2 (addFree s1).2 := by
    rcases rh2 with e | h
    · exact Or.inl e
    · exact Or.inr ⟨by rw [hsz3]; exact h.1, h.2⟩
  obtain ⟨ρ3, rk3b, _, _⟩ := addVanished_rank (addFree s1).2 hpos3 rh3 rk3
  have rk3b' : RInv (st3 s1).1 ρ3 := rk3b
  have hroot3 : (st3 s1).2 < (st3 s1).1.g.kind.size := by
    rcases rd3b with e | h
    · rw [e]; exact Nat.lt_of_lt_of_le hpos3 w3b.size
    · exact h.1
  -- phase 4
  have K := smooth_fold_inv (st3 s1).1 (st3 s1).2 ρ3 d3b rk3b'.acyc gd3b
  obtain ⟨ρ4, rk4⟩ := smooth_rank true id (st3 s1).1 (st3 s1).2 ρ3 rk3b'
  have K' : SmInv (st3 s1).1 (st3 s1).2 (postOrder (st3 s1).1.g (st3 s1).2) (st4 true id s1) := K
  have rk4' : RInv (st4 true id s1) ρ4 := rk4
  exact ⟨ρ2, ρ3, ρ4, rk2.acyc, wf2, rel, wf3, rk3.acyc, hsz3, hpos3, hroot2, rd3, htot3, w3b, d3b, rd3b,
    rk3b'.acyc, hroot3, K', ⟨K'.dinv.b.p.linv.wf.edges, rk4'.acyc⟩⟩

end Ddnnf.D4
