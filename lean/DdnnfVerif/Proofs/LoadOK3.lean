/-
  The side conditions of the enumeration theorems (`C06.EnumOK`) and of the CNF-export theorems
  (`C19.CnfOK`) for the arrays the d4 loader produces, part 2: from the elimination to the array.

  * `st3_orGood`, `st4_orGood`: the nodes the final DFS emits are nodes the DFS before the elimination
    emitted, or new and-nodes / literal leaves / feature triangles; none of them is an or-node with a
    `True` successor (`eliminate_noTru`, `TruSub`);
  * `flattenGraph_noTruUnderOr`, `flattenGraph_litRange`: transfer to the array;
  * `conventions2B_enumOK`, `conventions2B_cnfOK`.
-/
import DdnnfVerif.Proofs.LoadOK2

namespace Ddnnf.D4

/-! ### phase 3b -/

theorem st3_orGood (s1 : LState) (P : Pipe s1) :
    ∀ x ∈ postOrder (st3 s1).1.g (st3 s1).2, OrGood (st3 s1).1.g x := by
  obtain ⟨ρ2, ρ3, r4, acyc2, wf2, rel, wf3, acyc3, hsz3, hpos3, hroot2, rd3, _, w3b, d3b, rd3b, _, _, _, _⟩ :=
    P.facts
  -- the DFS after the elimination stays inside the DFS before it
  have hroot2' : (addFree s1).2 < (addFree s1).1.g.kind.size := by rw [← hsz3]; exact hroot2
  have hS : ∀ x ∈ postOrder (afterElim s1).g (addFree s1).2, x ∈ postOrder (addFree s1).1.g (addFree s1).2 :=
    postOrder_closed (afterElim s1).g (addFree s1).2 (fun x => x ∈ postOrder (addFree s1).1.g (addFree s1).2)
      (postOrder_root _ _ hroot2')
      (fun x hx c hc => postOrder_succ_mem _ _ ρ2 wf2.edges acyc2 x hx c (rel.base.outs x c hc))
  have good3 : ∀ x ∈ postOrder (afterElim s1).g (addFree s1).2, OrGood (afterElim s1).g x :=
    fun x hx => eliminate_noTru (addFree s1).1.g (addFree s1).2 ρ2 wf2.edges acyc2 x (hS x hx)
  have hts : TruSub (afterElim s1).g (st3 s1).1.g := addVanished_truSub (afterElim s1) (addFree s1).2
  have hrootS : (addFree s1).2 ∈ postOrder (afterElim s1).g (addFree s1).2 := postOrder_root _ _ hroot2
  have hsucc : ∀ x ∈ postOrder (afterElim s1).g (addFree s1).2, ∀ c ∈ (afterElim s1).g.outs.getD x [],
      c ∈ postOrder (afterElim s1).g (addFree s1).2 :=
    fun x hx c hc => postOrder_succ_mem _ _ ρ2 wf3.edges acyc3 x hx c hc
  -- the new root is the old one or a new and-node
  have hroot3 : (st3 s1).2 ∈ postOrder (afterElim s1).g (addFree s1).2 ∨
      ((st3 s1).2 ≠ 0 ∧ (st3 s1).1.g.kindOf (st3 s1).2 = some .and) := by
    rcases w3b.rootEq with e | ⟨_, hN⟩
    · left; rw [e]; exact hrootS
    · right
      have h0 : (st3 s1).2 ≠ 0 := by omega
      rcases rd3b with e | h
      · exact absurd e h0
      · exact ⟨h0, h.2.1⟩
  -- the set the DFS of phase 3b stays in
  let Q : Nat → Prop := fun x => x ∈ postOrder (afterElim s1).g (addFree s1).2 ∨ x = (st3 s1).2 ∨
    (∃ l, (st3 s1).1.g.kindOf x = some (.lit l)) ∨ ∃ e ∈ (st3 s1).1.tri, e.2 = x
  have hrootOuts : ∀ c ∈ (st3 s1).1.g.outs.getD (st3 s1).2 [], Q c := by
    intro c hc
    by_cases h0 : (st3 s1).2 = 0
    · have hr0 : (addFree s1).2 = 0 := by
        rcases w3b.rootEq with e | ⟨e, hN⟩
        · rw [← e]; exact h0
        · exact e
      rw [h0, w3b.outs 0 hpos3 (Or.inl hr0)] at hc
      exact Or.inl (hsucc (addFree s1).2 hrootS c (by rw [hr0]; exact hc))
    · rcases w3b.rootOuts h0 c hc with ⟨_, h⟩ | ⟨e0, ec⟩ | h
      · exact Or.inl (hsucc _ hrootS c h)
      · left; rw [ec, ← e0]; exact hrootS
      · exact Or.inr (Or.inr (Or.inr h))
  have hQ := postOrder_closed (st3 s1).1.g (st3 s1).2 Q (Or.inr (Or.inl rfl)) (by
    intro x hx c hc
    rcases hx with hx | hx | ⟨l, hl⟩ | ⟨e, he, ex⟩
    · have hxN := postOrder_lt _ _ x hx
      by_cases hxr : (addFree s1).2 = 0 ∨ x ≠ (addFree s1).2
      · rw [w3b.outs x hxN hxr] at hc
        exact Or.inl (hsucc x hx c hc)
      · have h1 : (addFree s1).2 ≠ 0 := fun e => hxr (Or.inl e)
        have h2 : x = (addFree s1).2 := Classical.byContradiction fun e => hxr (Or.inr e)
        have h3 : (st3 s1).2 = (addFree s1).2 := by
          rcases w3b.rootEq with e | ⟨e, _⟩
          · exact e
          · exact absurd e h1
        rw [h2, ← h3] at hc
        exact hrootOuts c hc
    · rw [hx] at hc; exact hrootOuts c hc
    · rw [d3b.b.litSink x l hl] at hc; cases hc
    · have ht := d3b.b.tri e he
      rw [ex] at ht
      exact Or.inr (Or.inr (Or.inl (ht.litKids c hc))))
  -- none of them is an or-node with a True successor
  have hold : ∀ x ∈ postOrder (afterElim s1).g (addFree s1).2, OrGood (st3 s1).1.g x := by
    intro x hx hk c hc htru
    have hxN := postOrder_lt _ _ x hx
    have hk3 : (afterElim s1).g.kindOf x = some .or := by rw [← w3b.kinds x hxN]; exact hk
    have hxr : (addFree s1).2 = 0 ∨ x ≠ (addFree s1).2 := by
      rcases rd3 with e | h
      · exact Or.inl e
      · right; intro e; rw [e, h.2.1] at hk3; cases hk3
    rw [w3b.outs x hxN hxr] at hc
    exact good3 x hx hk3 c hc (hts c htru)
  intro x hx
  rcases hQ x hx with h | h | ⟨l, hl⟩ | ⟨e, he, ex⟩
  · exact hold x h
  · rcases hroot3 with h3 | ⟨_, h3⟩
    · rw [h]; exact hold _ h3
    · intro hk; rw [h, h3] at hk; cases hk
  · intro hk; rw [hl] at hk; cases hk
  · intro _ c hc htru
    have ht := d3b.b.tri e he
    rw [ex] at ht
    obtain ⟨l, hl⟩ := ht.litKids c hc
    rw [hl] at htru; cases htru

/-! ### phase 4 -/

theorem st4_orGood (s1 : LState) (P : Pipe s1) :
    ∀ x ∈ postOrder (st4 true id s1).g (st3 s1).2, OrGood (st4 true id s1).g x := by
  have good3 := st3_orGood s1 P
  obtain ⟨ρ2, ρ3, r4, _, _, _, _, _, _, _, _, _, _, _, d3b, _, acyc3b, hroot3, K, _⟩ := P.facts
  have hwf := d3b.b.p.linv.wf
  have hts : TruSub (st3 s1).1.g (st4 true id s1).g := smooth_truSub true id (st3 s1).1 (st3 s1).2
  -- the set of nodes the final DFS can reach (as in `smooth_dinv`)
  have hclosed := postOrder_closed (st4 true id s1).g (st3 s1).2
    (fun x => x ∈ postOrder (st3 s1).1.g (st3 s1).2 ∨ (st3 s1).1.g.kind.size ≤ x ∨
      (∃ l, (st4 true id s1).g.kindOf x = some (.lit l)) ∨ ∃ e ∈ (st4 true id s1).tri, e.2 = x)
    (Or.inl (postOrder_root (st3 s1).1.g (st3 s1).2 hroot3)) (by
      intro x hx c hc
      rcases hx with hx | hx | ⟨l, hl⟩ | ⟨e, he, ex⟩
      · have hxs : x < (st3 s1).1.g.kind.size := postOrder_lt _ _ x hx
        by_cases hkx : (st3 s1).1.g.kindOf x = some .or
        · rcases K.closedP x hx hkx c hc with h | h
          · exact Or.inr (Or.inl h)
          · exact Or.inl (postOrder_succ_mem _ _ ρ3 hwf.edges acyc3b x hx c h)
        · rw [K.outsU x hxs (Or.inr hkx)] at hc
          exact Or.inl (postOrder_succ_mem _ _ ρ3 hwf.edges acyc3b x hx c hc)
      · exact K.closedN x hx c hc
      · rw [K.dinv.b.litSink x l hl] at hc; cases hc
      · have ht := K.dinv.b.tri e he
        rw [ex] at ht
        obtain ⟨l, hl⟩ := ht.litKids c hc
        exact Or.inr (Or.inr (Or.inl ⟨l, hl⟩)))
  have htri : ∀ e ∈ (st4 true id s1).tri, ∀ c ∈ (st4 true id s1).g.outs.getD e.2 [],
      (st4 true id s1).g.kindOf c ≠ some .tru := by
    intro e he c hc htru
    obtain ⟨l, hl⟩ := (K.dinv.b.tri e he).litKids c hc
    rw [hl] at htru; cases htru
  intro x hx hk c hc htru
  rcases hclosed x hx with hxo | hxn | ⟨l, hl⟩ | ⟨e, he, ex⟩
  · have hxs : x < (st3 s1).1.g.kind.size := postOrder_lt _ _ x hxo
    have hk0 : (st3 s1).1.g.kindOf x = some .or := by rw [← K.kinds x hxs]; exact hk
    have htru0 := hts c htru
    rcases K.closedP x hxo hk0 c hc with h | h
    · have := kindOf_lt htru0
      omega
    · exact good3 x hxo hk0 c h htru0
  · obtain ⟨e, he, ex⟩ := K.newOr x hxn hk
    rw [← ex] at hc
    exact htri e he c hc htru
  · rw [hl] at hk; cases hk
  · rw [← ex] at hc
    exact htri e he c hc htru

/-! ### the array -/

theorem flatNode_eq_tru {g : G} {x : Nat} {newIx : Array Nat} (h : flatNode g newIx x = .tru) :
    g.kindOf x = some .tru := by
  unfold flatNode at h
  split at h <;> cases h
  rename_i hk
  exact hk

theorem flattenGraph_noTruUnderOr {g : G} {r : Nat → Nat} (hc : FCtx g r) (root : Nat)
    (h : ∀ x ∈ postOrder g root, OrGood g x) : NoTruUnderOr (flattenGraph g root) := by
  intro i hi cs hnode c hcm hlt htru
  have hi' : i < (postOrder g root).length := by rwa [flattenGraph_length] at hi
  rw [flattenGraph_getElem g root i hi] at hnode
  obtain ⟨hk, ecs⟩ := flatNode_eq_or hnode
  rw [ecs] at hcm
  obtain ⟨c0, hc0, e0⟩ := List.mem_map.1 hcm
  obtain ⟨hj, _, ej⟩ := flat_child hc root i hi' c0 hc0
  have e0' : ixOf g root c0 = c := e0
  rw [flattenGraph_getElem g root c hlt] at htru
  have hk0 := flatNode_eq_tru htru
  have : (postOrder g root)[c]'(by rwa [flattenGraph_length] at hlt) = c0 := by
    simp only [← e0']; exact ej
  rw [this] at hk0
  exact h _ (List.getElem_mem hi') hk c0 hc0 hk0

theorem flattenGraph_litRange (g : G) (root n : Nat)
    (h : ∀ x l, g.kindOf x = some (.lit l) → l ≠ 0 ∧ l.natAbs ≤ n) : LitRange (flattenGraph g root) n := by
  intro nd hnd l hl
  obtain ⟨i, hi, e⟩ := List.getElem_of_mem hnd
  rw [flattenGraph_getElem g root i hi, hl] at e
  exact h _ l (flatNode_eq_lit e)

/-! ### the loader -/

/-- the structural facts about the loaded array beyond `WF`: no `True` node below an or-node, all
literal leaves in range -/
theorem load_noTru_litRange (lines : List Line) (total : Nat) (hnode : ∃ k, Line.node k ∈ lines)
    (r : Nat → Nat) (h : D4WF (phase1 lines total) r) (hok : (load lines total).2.2 = false)
    (hsat : ∃ σ, sem σ (phase1 lines total).g r 0 = true) :
    NoTruUnderOr (load lines total).2.1 ∧ LitRange (load lines total).2.1 (load lines total).1 := by
  obtain ⟨hp, htri⟩ := lines_p lines total
  have hpos : 0 < (phase1 lines total).g.kind.size :=
    lines_size_pos lines { total := total } (linv_init total) (Or.inr hnode)
  have hok' : (st4 true id (phase1 lines total)).g.err = false := hok
  have P := pipe_of (phase1 lines total) r hp htri hpos h hsat hok'
  have good := st4_orGood _ P
  obtain ⟨ρ2, ρ3, r4, _, _, _, _, _, _, _, _, _, htot3, w3b, _, _, _, _, K, hc⟩ := P.facts
  rw [load_fst]
  show NoTruUnderOr (loadWith true id lines total).2.1 ∧ LitRange (loadWith true id lines total).2.1 _
  rw [loadWith_nodes, loadGraph_eq]
  refine ⟨flattenGraph_noTruUnderOr hc _ good, flattenGraph_litRange _ _ _ ?_⟩
  intro x l hk
  have := K.dinv.b.litR x l hk
  rw [K.total, w3b.total, htot3] at this
  refine ⟨?_, this.2⟩
  intro e; rw [e] at this; simp at this

/-- **`EnumOK` for every array the d4 loader model produces from a text that passes the executable
conventions check**, if it has at least one feature -/
theorem conventions2B_enumOK (lines : List Line) (total : Nat) (h : conventions2B lines total = true)
    (hn : 1 ≤ (load lines total).1) : C06.EnumOK (load lines total).2.1 := by
  have hwf := (conventions2B_sound lines total h).1
  unfold conventions2B at h
  rw [Bool.and_eq_true] at h
  have c := conventionsB_conv lines total h.1
  have hd := d4wf_of_graph lines total _ c.decl c.acyc c.nz c.dec c.det
  exact enumOK_of_wf _ _ hwf hn (load_noTru_litRange lines total c.node _ hd c.ok c.sat).1

/-- **`CnfOK` for every array the d4 loader model produces from a text that passes the executable
conventions check**, if it has at least two features -/
theorem conventions2B_cnfOK (lines : List Line) (total : Nat) (h : conventions2B lines total = true)
    (hn : 2 ≤ (load lines total).1) : C19.CnfOK (load lines total).2.1 (load lines total).1 := by
  obtain ⟨hwf, _, hpar⟩ := conventions2B_sound lines total h
  unfold conventions2B at h
  rw [Bool.and_eq_true] at h
  have c := conventionsB_conv lines total h.1
  have hd := d4wf_of_graph lines total _ c.decl c.acyc c.nz c.dec c.det
  exact cnfOK_of_struct _ _ hwf.topo hwf.nonempty (load_noTru_litRange lines total c.node _ hd c.ok c.sat).2
    hpar hwf.rootComplete hn

/-! ### the bounds on the number of features are needed -/

/-- without a feature the text `t 1` passes the check and loads to `[tru]`: the root is `True` -/
theorem enumOK_needs_feature :
    ∃ (lines : List Line) (total : Nat), conventions2B lines total = true ∧
      ¬ C06.EnumOK (load lines total).2.1 := by
  refine ⟨[.node .tru], 0, by decide +kernel, ?_⟩
  have e : (load [.node .tru] 0).2.1 = [.tru] := by decide +kernel
  intro h
  exact h.root (by rw [e]; rfl)

/-- with one feature the text `o 1; t 2; 1 2 1 0` passes the check and loads to `[1, and [0], or [1]]`:
no Tseitin variable is introduced -/
theorem cnfOK_needs_two_features :
    ∃ (lines : List Line) (total : Nat), conventions2B lines total = true ∧ (load lines total).1 = 1 ∧
      ¬ C19.CnfOK (load lines total).2.1 (load lines total).1 := by
  refine ⟨[.node .or, .node .tru, .edge 1 2 [1]], 1, by decide +kernel, by decide +kernel, ?_⟩
  have e : load [.node .or, .node .tru, .edge 1 2 [1]] 1 = (1, [.lit 1, .and [0], .or [1]], false) := by
    decide +kernel
  intro h
  have := h.new
  rw [e] at this
  exact this (by decide)

end Ddnnf.D4
