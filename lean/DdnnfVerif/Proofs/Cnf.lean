/-
  CNF export by Tseitin transformation (`Model/Cnf.lean`), part 1: the pass.

  * `bicond_clauses_iff` : the clauses of one biconditional say `X ↔ op(lits)`
  * `GoodBiconds n bs`   : the biconditionals define the variables `n+1, n+2, …` in this order and
                           each only mentions smaller variables
  * `extend σ bs`        : evaluate the biconditionals in order
  * `extend_satisfies`, `extend_unique` : the extension satisfies all biconditional clauses and is
                           the only assignment that does and agrees with `σ` on `1..n`
  * `tseitin_inv`        : the invariant of the pass (`TInv`)
  * `extension_satisfies`, `extension_unique`, `nodeLit_iff_eval` for `tseitin nodes n`
-/
import DdnnfVerif.Model.Cnf
import DdnnfVerif.Proofs.CountA
import DdnnfVerif.Proofs.WFCheck

namespace Ddnnf

/-- every literal leaf is a non-zero literal of a feature in `1..n` (Prop version of `litRangeB`) -/
def LitRange (nodes : List NType) (n : Nat) : Prop :=
  ∀ nd ∈ nodes, ∀ l, nd = .lit l → l ≠ 0 ∧ l.natAbs ≤ n

theorem litRange_of_litRangeB (nodes : List NType) (n : Nat) (h : litRangeB nodes n = true) :
    LitRange nodes n := litRangeB_spec nodes n h

/-! ### literals -/

theorem litTrue_ofNat (τ : Assignment) (x : Nat) (hx : 1 ≤ x) : litTrue τ (x : Int) = τ x := by
  unfold litTrue
  have : (x : Int) > 0 := by omega
  rw [if_pos this, Int.natAbs_natCast]

theorem litTrue_neg_ofNat (τ : Assignment) (x : Nat) (hx : 1 ≤ x) :
    litTrue τ (-(x : Int)) = !τ x := by
  rw [litTrue_neg τ _ (by omega), litTrue_ofNat τ x hx]

theorem any_map_neg (τ : Assignment) (lits : List Int) (h : ∀ l ∈ lits, l ≠ 0) :
    (lits.map (fun l => -l)).any (litTrue τ) = !lits.all (litTrue τ) := by
  induction lits with
  | nil => rfl
  | cons l ls ih =>
    have h1 := litTrue_neg τ l (h l (List.mem_cons_self ..))
    have h2 := ih (fun l' hl' => h l' (List.mem_cons_of_mem _ hl'))
    simp only [List.map_cons, List.any_cons, List.all_cons, h1, h2, Bool.not_and]

theorem all_map_pair (τ : Assignment) (a : Int) (f : Int → Int) (lits : List Int) :
    (lits.map (fun l => [a, f l])).all (satClause τ)
      = (litTrue τ a || lits.all (fun l => litTrue τ (f l))) := by
  induction lits with
  | nil => simp
  | cons l ls ih =>
    simp only [List.map_cons, List.all_cons, ih]
    simp only [satClause, List.any_cons, List.any_nil, Bool.or_false]
    cases litTrue τ a <;> simp

theorem all_neg (τ : Assignment) (lits : List Int) (h : ∀ l ∈ lits, l ≠ 0) :
    lits.all (fun l => litTrue τ (-l)) = !lits.any (litTrue τ) := by
  induction lits with
  | nil => rfl
  | cons l ls ih =>
    have h1 := litTrue_neg τ l (h l (List.mem_cons_self ..))
    have h2 := ih (fun l' hl' => h l' (List.mem_cons_of_mem _ hl'))
    simp only [List.any_cons, List.all_cons, h1, h2, Bool.not_or]

/-! ### one biconditional -/

/-- value of the right-hand side of a biconditional -/
def Bicond.val (τ : Assignment) (b : Bicond) : Bool :=
  if b.isAnd then b.lits.all (litTrue τ) else b.lits.any (litTrue τ)

/-- Boolean form: the clauses of `b` hold iff `τ b.index` equals the value of the operation -/
theorem bicond_clauses_eq (τ : Assignment) (b : Bicond) (hx : 1 ≤ b.index)
    (hl : ∀ l ∈ b.lits, l ≠ 0) :
    satCnf τ b.clauses = (τ b.index == b.val τ) := by
  obtain ⟨x, isAnd, lits⟩ := b
  simp only at hx hl
  cases isAnd with
  | true =>
    simp only [Bicond.clauses, Bicond.val, if_true, satCnf, List.all_cons]
    have e : (lits.map (fun l => [-(x : Int), l])).all (satClause τ)
        = (litTrue τ (-(x : Int)) || lits.all (fun l => litTrue τ l)) :=
      all_map_pair τ (-(x : Int)) (fun l => l) lits
    rw [e]
    simp only [satClause, List.any_cons, any_map_neg τ lits hl, litTrue_ofNat τ x hx,
      litTrue_neg_ofNat τ x hx]
    cases τ x <;> cases lits.all (litTrue τ) <;> rfl
  | false =>
    simp only [Bicond.clauses, Bicond.val, satCnf, List.all_cons, Bool.false_eq_true, if_false]
    have e : (lits.map (fun l => [(x : Int), -l])).all (satClause τ)
        = (litTrue τ (x : Int) || lits.all (fun l => litTrue τ (-l))) :=
      all_map_pair τ (x : Int) (fun l => -l) lits
    rw [e]
    simp only [satClause, List.any_cons, all_neg τ lits hl, litTrue_ofNat τ x hx,
      litTrue_neg_ofNat τ x hx]
    cases τ x <;> cases lits.any (litTrue τ) <;> rfl

/-- the clauses of `b` express `X ↔ op(lits)` (needs `b.index ≥ 1` and non-zero literals) -/
theorem bicond_clauses_iff (τ : Assignment) (b : Bicond) (hx : 1 ≤ b.index)
    (hl : ∀ l ∈ b.lits, l ≠ 0) :
    satCnf τ b.clauses = true ↔
      τ b.index = (if b.isAnd then b.lits.all (litTrue τ) else b.lits.any (litTrue τ)) := by
  rw [bicond_clauses_eq τ b hx hl]
  simp [Bicond.val]

theorem all_congr_mem {α} (p q : α → Bool) (xs : List α) (h : ∀ x ∈ xs, p x = q x) :
    xs.all p = xs.all q := by
  induction xs with
  | nil => rfl
  | cons x xs ih =>
    simp only [List.all_cons, h x (List.mem_cons_self ..),
      ih (fun y hy => h y (List.mem_cons_of_mem _ hy))]

theorem any_congr_mem {α} (p q : α → Bool) (xs : List α) (h : ∀ x ∈ xs, p x = q x) :
    xs.any p = xs.any q := by
  induction xs with
  | nil => rfl
  | cons x xs ih =>
    simp only [List.any_cons, h x (List.mem_cons_self ..),
      ih (fun y hy => h y (List.mem_cons_of_mem _ hy))]

theorem Bicond.val_congr (τ τ' : Assignment) (b : Bicond)
    (h : ∀ l ∈ b.lits, τ l.natAbs = τ' l.natAbs) : b.val τ = b.val τ' := by
  have e : ∀ l ∈ b.lits, litTrue τ l = litTrue τ' l := fun l hl => litTrue_congr τ τ' l (h l hl)
  unfold Bicond.val
  rw [all_congr_mem _ _ _ e, any_congr_mem _ _ _ e]

/-! ### satisfaction only depends on the variables that occur -/

theorem satClause_congr (τ τ' : Assignment) (c : List Int)
    (h : ∀ l ∈ c, τ l.natAbs = τ' l.natAbs) : satClause τ c = satClause τ' c :=
  any_congr_mem _ _ _ (fun l hl => litTrue_congr τ τ' l (h l hl))

theorem satCnf_congr (τ τ' : Assignment) (cs : List (List Int))
    (h : ∀ c ∈ cs, ∀ l ∈ c, τ l.natAbs = τ' l.natAbs) : satCnf τ cs = satCnf τ' cs :=
  all_congr_mem _ _ _ (fun c hc => satClause_congr τ τ' c (h c hc))

theorem satCnf_append (τ : Assignment) (a b : List (List Int)) :
    satCnf τ (a ++ b) = (satCnf τ a && satCnf τ b) := by
  simp [satCnf, List.all_append]

/-- every variable of a clause of `b` is `b.index` or the variable of a literal of `b` -/
theorem mem_bicond_clauses (b : Bicond) (c : List Int) (hc : c ∈ b.clauses) (l : Int) (hl : l ∈ c) :
    l.natAbs = b.index ∨ ∃ l' ∈ b.lits, l.natAbs = l'.natAbs := by
  obtain ⟨x, isAnd, lits⟩ := b
  cases isAnd with
  | true =>
    simp only [Bicond.clauses, if_true, List.mem_cons, List.mem_map] at hc
    rcases hc with rfl | ⟨l', hl', rfl⟩
    · simp only [List.mem_cons, List.mem_map] at hl
      rcases hl with rfl | ⟨l', hl', rfl⟩
      · left; simp
      · right; exact ⟨l', hl', by simp⟩
    · simp only [List.mem_cons, List.not_mem_nil, or_false] at hl
      rcases hl with rfl | rfl
      · left; simp
      · right; exact ⟨l, hl', rfl⟩
  | false =>
    simp only [Bicond.clauses, Bool.false_eq_true, if_false, List.mem_cons, List.mem_map] at hc
    rcases hc with rfl | ⟨l', hl', rfl⟩
    · simp only [List.mem_cons] at hl
      rcases hl with rfl | hl
      · left; simp
      · right; exact ⟨l, hl, rfl⟩
    · simp only [List.mem_cons, List.not_mem_nil, or_false] at hl
      rcases hl with rfl | rfl
      · left; simp
      · right; exact ⟨l', hl', by simp⟩

/-! ### the extension of a feature assignment to the Tseitin variables -/

def extendStep (τ : Assignment) (b : Bicond) : Assignment :=
  fun v => if v = b.index then b.val τ else τ v

/-- evaluate the biconditionals in order -/
def extend (σ : Assignment) (biconds : List Bicond) : Assignment := biconds.foldl extendStep σ

@[simp] theorem extend_nil (σ : Assignment) : extend σ [] = σ := rfl
@[simp] theorem extend_cons (σ : Assignment) (b : Bicond) (bs : List Bicond) :
    extend σ (b :: bs) = extend (extendStep σ b) bs := rfl
theorem extend_snoc (σ : Assignment) (bs : List Bicond) (b : Bicond) :
    extend σ (bs ++ [b]) = extendStep (extend σ bs) b := by
  simp [extend, List.foldl_append]

/-- the biconditionals define the variables `n+1, n+2, …` in this order and each one only
mentions non-zero literals over smaller variables -/
def GoodBiconds : Nat → List Bicond → Prop
  | _, [] => True
  | n, b :: bs => b.index = n + 1 ∧ (∀ l ∈ b.lits, l ≠ 0 ∧ l.natAbs ≤ n) ∧ GoodBiconds (n + 1) bs

theorem GoodBiconds.snoc {n : Nat} {bs : List Bicond} (h : GoodBiconds n bs) (b : Bicond)
    (hi : b.index = n + bs.length + 1) (hl : ∀ l ∈ b.lits, l ≠ 0 ∧ l.natAbs ≤ n + bs.length) :
    GoodBiconds n (bs ++ [b]) := by
  induction bs generalizing n with
  | nil => exact ⟨by simpa using hi, by simpa using hl, trivial⟩
  | cons b0 bs ih =>
    obtain ⟨h1, h2, h3⟩ := h
    refine ⟨h1, h2, ih h3 ?_ ?_⟩
    · rw [hi, List.length_cons]; omega
    · intro l hl'
      have := hl l hl'
      rw [List.length_cons] at this
      exact ⟨this.1, by omega⟩

theorem GoodBiconds.mem {n : Nat} {bs : List Bicond} (h : GoodBiconds n bs) {b : Bicond}
    (hb : b ∈ bs) :
    n < b.index ∧ b.index ≤ n + bs.length ∧ ∀ l ∈ b.lits, l ≠ 0 ∧ l.natAbs < b.index := by
  induction bs generalizing n with
  | nil => cases hb
  | cons b0 bs ih =>
    obtain ⟨h1, h2, h3⟩ := h
    rcases List.mem_cons.mp hb with rfl | hb'
    · refine ⟨by omega, by rw [List.length_cons]; omega, fun l hl => ⟨(h2 l hl).1, ?_⟩⟩
      have := (h2 l hl).2; omega
    · obtain ⟨i1, i2, i3⟩ := ih h3 hb'
      exact ⟨by omega, by rw [List.length_cons]; omega, i3⟩

theorem GoodBiconds.map_index {n : Nat} {bs : List Bicond} (h : GoodBiconds n bs) :
    bs.map Bicond.index = List.range' (n + 1) bs.length := by
  induction bs generalizing n with
  | nil => rfl
  | cons b0 bs ih =>
    obtain ⟨h1, _, h3⟩ := h
    simp only [List.map_cons, List.length_cons, List.range'_succ, h1, ih h3]

theorem GoodBiconds.exists_index {n : Nat} {bs : List Bicond} (h : GoodBiconds n bs) (v : Nat)
    (h1 : n < v) (h2 : v ≤ n + bs.length) : ∃ b ∈ bs, b.index = v := by
  have hm : v ∈ bs.map Bicond.index := by
    rw [h.map_index, List.mem_range'_1]; omega
  obtain ⟨b, hb, rfl⟩ := List.mem_map.mp hm
  exact ⟨b, hb, rfl⟩

/-- the extension does not touch the variables `≤ n` -/
theorem extend_le {n : Nat} {bs : List Bicond} (h : GoodBiconds n bs) (σ : Assignment) (v : Nat)
    (hv : v ≤ n) : extend σ bs v = σ v := by
  induction bs generalizing n σ with
  | nil => rfl
  | cons b bs ih =>
    obtain ⟨h1, _, h3⟩ := h
    rw [extend_cons, ih h3 _ (by omega)]
    unfold extendStep
    rw [if_neg (by omega)]

/-- the extension does not touch the variables above the defined ones either -/
theorem extend_gt {n : Nat} {bs : List Bicond} (h : GoodBiconds n bs) (σ : Assignment) (v : Nat)
    (hv : n + bs.length < v) : extend σ bs v = σ v := by
  induction bs generalizing n σ with
  | nil => rfl
  | cons b bs ih =>
    obtain ⟨h1, _, h3⟩ := h
    rw [List.length_cons] at hv
    rw [extend_cons, ih h3 _ (by omega)]
    unfold extendStep
    rw [if_neg (by omega)]

/-- the extension satisfies every biconditional -/
theorem extend_satisfies {n : Nat} {bs : List Bicond} (h : GoodBiconds n bs) (σ : Assignment) :
    satCnf (extend σ bs) (bs.flatMap Bicond.clauses) = true := by
  induction bs generalizing n σ with
  | nil => rfl
  | cons b bs ih =>
    obtain ⟨h1, h2, h3⟩ := h
    rw [extend_cons, List.flatMap_cons, satCnf_append, ih h3, Bool.and_true]
    rw [bicond_clauses_eq _ b (by omega) (fun l hl => (h2 l hl).1)]
    have e1 : extend (extendStep σ b) bs b.index = b.val σ := by
      rw [extend_le h3 _ _ (by omega)]
      unfold extendStep
      rw [if_pos rfl]
    have e2 : b.val (extend (extendStep σ b) bs) = b.val σ := by
      apply Bicond.val_congr
      intro l hl
      have := (h2 l hl).2
      rw [extend_le h3 _ _ (by omega)]
      unfold extendStep
      rw [if_neg (by omega)]
    rw [e1, e2]
    simp

/-- the value of a defined variable under the extension is the value of its operation -/
theorem extend_index {n : Nat} {bs : List Bicond} (h : GoodBiconds n bs) (σ : Assignment)
    {b : Bicond} (hb : b ∈ bs) : extend σ bs b.index = b.val (extend σ bs) := by
  have hs := extend_satisfies h σ
  have hb' : satCnf (extend σ bs) b.clauses = true := by
    unfold satCnf at hs ⊢
    rw [List.all_eq_true] at hs ⊢
    intro c hc
    exact hs c (List.mem_flatMap.mpr ⟨b, hb, hc⟩)
  obtain ⟨i1, _, i3⟩ := h.mem hb
  rw [bicond_clauses_eq _ b (by omega) (fun l hl => (i3 l hl).1)] at hb'
  simpa using hb'

/-- any assignment that agrees with `σ` on the features and satisfies the biconditionals is the
extension on the defined variables -/
theorem extend_unique {n : Nat} {bs : List Bicond} (h : GoodBiconds n bs) (σ τ : Assignment)
    (hagree : ∀ v, 1 ≤ v → v ≤ n → τ v = σ v)
    (hsat : satCnf τ (bs.flatMap Bicond.clauses) = true) :
    ∀ v, n < v → v ≤ n + bs.length → τ v = extend σ bs v := by
  induction bs generalizing n σ with
  | nil => intro v h1 h2; simp at h2; omega
  | cons b bs ih =>
    obtain ⟨h1, h2, h3⟩ := h
    rw [List.flatMap_cons, satCnf_append, Bool.and_eq_true] at hsat
    obtain ⟨hb, hrest⟩ := hsat
    rw [bicond_clauses_eq _ b (by omega) (fun l hl => (h2 l hl).1)] at hb
    have hτ : τ (n + 1) = b.val σ := by
      have e : b.val τ = b.val σ := by
        apply Bicond.val_congr
        intro l hl
        have := h2 l hl
        exact hagree _ (by omega) this.2
      rw [h1, e] at hb
      simpa using hb
    have hagree' : ∀ v, 1 ≤ v → v ≤ n + 1 → τ v = extendStep σ b v := by
      intro v hv1 hv2
      unfold extendStep
      by_cases hv : v = n + 1
      · rw [if_pos (by omega), hv, hτ]
      · rw [if_neg (by omega)]
        exact hagree v hv1 (by omega)
    intro v hv1 hv2
    rw [List.length_cons] at hv2
    rw [extend_cons]
    by_cases hv : v = n + 1
    · rw [extend_le h3 _ _ (by omega)]
      exact hagree' v (by omega) (by omega)
    · exact ih h3 _ hagree' hrest v (by omega) (by omega)

/-! ### the pass -/

/-- cache entry of a biconditional -/
def toEntry (b : Bicond) : (Bool × List Int) × Nat := ((b.isAnd, b.lits), b.index)

/-- the part of the invariant that does not mention the nodes: the fresh variables are exactly
`n+1 .. next-1`, introduced in increasing order, each biconditional only mentions non-zero
literals over smaller variables, and the cache lists exactly the biconditionals -/
structure TCore (n : Nat) (st : TState) : Prop where
  next_eq : st.next = n + 1 + st.biconds.length
  good : GoodBiconds n st.biconds
  cache_eq : st.cache = st.biconds.reverse.map toEntry

theorem Bicond.val_mk (τ : Assignment) (x y : Nat) (isAnd : Bool) (lits : List Int) :
    Bicond.val τ ⟨x, isAnd, lits⟩ = Bicond.val τ ⟨y, isAnd, lits⟩ := rfl

/-- specification of `transform_operation` -/
theorem transformOp_spec (n : Nat) (isAnd : Bool) (lits : List Int) (st : TState)
    (hc : TCore n st) (hl : ∀ l ∈ lits, l ≠ 0 ∧ l.natAbs < st.next) :
    TCore n (transformOp isAnd lits st).2
    ∧ (transformOp isAnd lits st).2.nodeLits = st.nodeLits
    ∧ st.next ≤ (transformOp isAnd lits st).2.next
    ∧ ((transformOp isAnd lits st).1 ≠ 0
        ∧ (transformOp isAnd lits st).1.natAbs < (transformOp isAnd lits st).2.next)
    ∧ (∀ σ v, v < st.next →
        extend σ (transformOp isAnd lits st).2.biconds v = extend σ st.biconds v)
    ∧ (∀ σ, litTrue (extend σ (transformOp isAnd lits st).2.biconds) (transformOp isAnd lits st).1
        = Bicond.val (extend σ st.biconds) ⟨0, isAnd, lits⟩) := by
  unfold transformOp
  split
  · -- a single literal
    rename_i l
    refine ⟨hc, rfl, Nat.le_refl _, hl l (List.mem_singleton.mpr rfl), fun _ _ _ => rfl, ?_⟩
    intro σ
    cases isAnd <;> simp [Bicond.val]
  · split
    · -- cache hit
      rename_i e he
      have hmem : e ∈ st.cache := List.mem_of_find?_eq_some he
      have hkey : (e.1 == (isAnd, lits)) = true := by
        have := List.find?_some he
        simpa using this
      rw [hc.cache_eq, List.mem_map] at hmem
      obtain ⟨b, hb, rfl⟩ := hmem
      have hb' : b ∈ st.biconds := List.mem_reverse.mp hb
      have hk : b.isAnd = isAnd ∧ b.lits = lits := by
        simpa [toEntry] using hkey
      obtain ⟨i1, i2, _⟩ := hc.good.mem hb'
      have hnext := hc.next_eq
      refine ⟨hc, rfl, Nat.le_refl _, ⟨?_, ?_⟩, fun _ _ _ => rfl, ?_⟩
      · show ((b.index : Nat) : Int) ≠ 0
        omega
      · show ((b.index : Nat) : Int).natAbs < st.next
        rw [Int.natAbs_natCast]; omega
      · intro σ
        show litTrue (extend σ st.biconds) ((b.index : Nat) : Int) = _
        rw [litTrue_ofNat _ _ (by omega), extend_index hc.good σ hb']
        obtain ⟨x, ia, ls⟩ := b
        simp only at hk
        rw [hk.1, hk.2]
        rfl
    · -- a new variable
      have hnext := hc.next_eq
      have hgood : GoodBiconds n (st.biconds ++ [⟨st.next, isAnd, lits⟩]) := by
        apply hc.good.snoc
        · show st.next = _; omega
        · intro l hl'
          have := hl l hl'
          exact ⟨this.1, by show l.natAbs ≤ _; omega⟩
      refine ⟨⟨?_, hgood, ?_⟩, rfl, by show st.next ≤ st.next + 1; omega, ⟨?_, ?_⟩, ?_, ?_⟩
      · show st.next + 1 = n + 1 + (st.biconds ++ [_]).length
        rw [List.length_append, List.length_singleton]; omega
      · show _ :: st.cache = _
        rw [List.reverse_append, hc.cache_eq]
        rfl
      · show ((st.next : Nat) : Int) ≠ 0
        omega
      · show ((st.next : Nat) : Int).natAbs < st.next + 1
        rw [Int.natAbs_natCast]; omega
      · intro σ v hv
        show extend σ (st.biconds ++ [_]) v = _
        rw [extend_snoc]
        unfold extendStep
        rw [if_neg (by show v ≠ st.next; omega)]
      · intro σ
        show litTrue (extend σ (st.biconds ++ [_])) ((st.next : Nat) : Int) = _
        rw [litTrue_ofNat _ _ (by omega), extend_snoc]
        unfold extendStep
        rw [if_pos rfl]
        rfl

/-- literal and state computed for one node (the `match` inside `tseitinStep`) -/
def stepRes (st : TState) (nd : NType) : Int × TState :=
  match nd with
  | .and cs => transformOp true (cs.map (fun c => st.nodeLits.getD c 0)) st
  | .or cs => transformOp false (cs.map (fun c => st.nodeLits.getD c 0)) st
  | .lit l => (l, st)
  | .tru => transformOp true [] st
  | .fls => transformOp false [] st

theorem tseitinStep_eq (st : TState) (nd : NType) :
    tseitinStep st nd
      = { (stepRes st nd).2 with nodeLits := (stepRes st nd).2.nodeLits.push (stepRes st nd).1 } := by
  cases nd <;> rfl

theorem fEval_congr_children (σ : Assignment) (nd : NType) (g g' : Nat → Bool)
    (h : ∀ c ∈ children nd, g c = g' c) : fEval σ nd g = fEval σ nd g' := by
  cases nd with
  | and cs => exact all_congr_mem _ _ _ h
  | or cs => exact any_congr_mem _ _ _ h
  | lit l => rfl
  | tru => rfl
  | fls => rfl

/-- specification of the node step, relative to the literals of the children -/
theorem stepRes_spec (n : Nat) (st : TState) (nd : NType) (hc : TCore n st)
    (hch : ∀ c ∈ children nd,
      st.nodeLits.getD c 0 ≠ 0 ∧ (st.nodeLits.getD c 0).natAbs < st.next)
    (hlit : ∀ l, nd = .lit l → l ≠ 0 ∧ l.natAbs ≤ n) :
    TCore n (stepRes st nd).2
    ∧ (stepRes st nd).2.nodeLits = st.nodeLits
    ∧ st.next ≤ (stepRes st nd).2.next
    ∧ ((stepRes st nd).1 ≠ 0 ∧ (stepRes st nd).1.natAbs < (stepRes st nd).2.next)
    ∧ (∀ σ v, v < st.next → extend σ (stepRes st nd).2.biconds v = extend σ st.biconds v)
    ∧ (∀ σ, litTrue (extend σ (stepRes st nd).2.biconds) (stepRes st nd).1
        = fEval σ nd (fun j => litTrue (extend σ st.biconds) (st.nodeLits.getD j 0))) := by
  have hlits : ∀ cs : List Nat, (∀ c ∈ cs, st.nodeLits.getD c 0 ≠ 0
      ∧ (st.nodeLits.getD c 0).natAbs < st.next) →
      ∀ l ∈ cs.map (fun c => st.nodeLits.getD c 0), l ≠ 0 ∧ l.natAbs < st.next := by
    intro cs h l hl
    obtain ⟨c, hc', rfl⟩ := List.mem_map.mp hl
    exact h c hc'
  cases nd with
  | and cs =>
    obtain ⟨a, b, c, d, e, f⟩ := transformOp_spec n true _ st hc (hlits cs hch)
    refine ⟨a, b, c, d, e, ?_⟩
    intro σ
    refine (f σ).trans ?_
    simp [Bicond.val, fEval, List.all_map, Function.comp_def]
  | or cs =>
    obtain ⟨a, b, c, d, e, f⟩ := transformOp_spec n false _ st hc (hlits cs hch)
    refine ⟨a, b, c, d, e, ?_⟩
    intro σ
    refine (f σ).trans ?_
    simp [Bicond.val, fEval, List.any_map, Function.comp_def]
  | lit l =>
    obtain ⟨h0, hle⟩ := hlit l rfl
    have hnext := hc.next_eq
    refine ⟨hc, rfl, Nat.le_refl _, ⟨h0, ?_⟩, fun _ _ _ => rfl, ?_⟩
    · show l.natAbs < st.next; omega
    · intro σ
      show litTrue (extend σ st.biconds) l = litTrue σ l
      exact litTrue_congr _ _ _ (extend_le hc.good σ _ hle)
  | tru =>
    obtain ⟨a, b, c, d, e, f⟩ := transformOp_spec n true [] st hc (by simp)
    refine ⟨a, b, c, d, e, ?_⟩
    intro σ
    refine (f σ).trans ?_
    rfl
  | fls =>
    obtain ⟨a, b, c, d, e, f⟩ := transformOp_spec n false [] st hc (by simp)
    refine ⟨a, b, c, d, e, ?_⟩
    intro σ
    refine (f σ).trans ?_
    rfl

/-- invariant of the pass after the first `k` nodes of `nodes` -/
structure TInv (nodes : List NType) (n k : Nat) (st : TState) : Prop extends TCore n st where
  size : st.nodeLits.size = k
  lits : ∀ i, i < k → st.nodeLits.getD i 0 ≠ 0 ∧ (st.nodeLits.getD i 0).natAbs < st.next
  sem : ∀ σ i, i < k → litTrue (extend σ st.biconds) (st.nodeLits.getD i 0) = eval σ nodes i

def tseitinInit (n : Nat) : TState := { next := n + 1, biconds := [], cache := [], nodeLits := #[] }

theorem tinv_init (nodes : List NType) (n : Nat) : TInv nodes n 0 (tseitinInit n) where
  next_eq := rfl
  good := trivial
  cache_eq := rfl
  size := rfl
  lits := fun i hi => by omega
  sem := fun σ i hi => by omega

theorem tinv_step (nodes : List NType) (n k : Nat) (st : TState) (htopo : Topo nodes)
    (hrange : LitRange nodes n) (hk : k < nodes.length) (h : TInv nodes n k st) :
    TInv nodes n (k + 1) (tseitinStep st nodes[k]) := by
  have hch : ∀ c ∈ children nodes[k],
      st.nodeLits.getD c 0 ≠ 0 ∧ (st.nodeLits.getD c 0).natAbs < st.next :=
    fun c hc => h.lits c (htopo k hk c hc)
  obtain ⟨a, b, c, d, e, f⟩ := stepRes_spec n st nodes[k] h.toTCore hch
    (fun l hl => hrange nodes[k] (List.getElem_mem hk) l hl)
  rw [tseitinStep_eq]
  have hsz : (stepRes st nodes[k]).2.nodeLits.size = k := by rw [b]; exact h.size
  refine ⟨⟨a.next_eq, a.good, a.cache_eq⟩, ?_, ?_, ?_⟩
  · show ((stepRes st nodes[k]).2.nodeLits.push _).size = k + 1
    rw [Array.size_push, hsz]
  · intro i hi
    show ((stepRes st nodes[k]).2.nodeLits.push _).getD i 0 ≠ 0
      ∧ (((stepRes st nodes[k]).2.nodeLits.push _).getD i 0).natAbs < (stepRes st nodes[k]).2.next
    by_cases hik : i < k
    · rw [getD_push_lt _ _ _ _ (by omega), b]
      have := h.lits i hik
      exact ⟨this.1, by omega⟩
    · have : i = (stepRes st nodes[k]).2.nodeLits.size := by omega
      rw [this, getD_push_eq]
      exact d
  · intro σ i hi
    show litTrue (extend σ (stepRes st nodes[k]).2.biconds)
      (((stepRes st nodes[k]).2.nodeLits.push _).getD i 0) = _
    by_cases hik : i < k
    · rw [getD_push_lt _ _ _ _ (by omega), b, ← h.sem σ i hik]
      apply litTrue_congr
      exact e σ _ (h.lits i hik).2
    · have hi' : i = (stepRes st nodes[k]).2.nodeLits.size := by omega
      have hik' : i = k := by omega
      rw [hi', getD_push_eq, f σ, hsz]
      have hev : eval σ nodes k
          = fEval σ nodes[k] (fun j => if j < k then eval σ nodes j else false) :=
        val_eq false (fEval σ) nodes k hk
      rw [hev]
      apply fEval_congr_children
      intro c hc
      have hck := htopo k hk c hc
      rw [if_pos hck]
      exact h.sem σ c hck

theorem tseitin_take_succ (nodes : List NType) (n k : Nat) (hk : k < nodes.length) :
    tseitin (nodes.take (k + 1)) n = tseitinStep (tseitin (nodes.take k) n) nodes[k] := by
  unfold tseitin
  rw [List.take_succ_eq_append_getElem hk, List.foldl_append]
  rfl

/-- **invariants of the pass**: after the first `k` nodes — the fresh variables are exactly
`n+1 .. next-1` introduced in increasing order (`next_eq`, `good` with `GoodBiconds.map_index`),
each biconditional only mentions non-zero literals over smaller variables (`good` with
`GoodBiconds.mem`), the cache lists exactly the biconditionals, every node literal is non-zero
with `|lit| < next`, and the literal of node `i` is true under the extension iff node `i` is. -/
theorem tseitin_inv_take (nodes : List NType) (n : Nat) (htopo : Topo nodes)
    (hrange : LitRange nodes n) (k : Nat) (hk : k ≤ nodes.length) :
    TInv nodes n k (tseitin (nodes.take k) n) := by
  induction k with
  | zero => exact tinv_init nodes n
  | succ k ih =>
    rw [tseitin_take_succ nodes n k (by omega)]
    exact tinv_step nodes n k _ htopo hrange (by omega) (ih (by omega))

theorem tseitin_inv (nodes : List NType) (n : Nat) (htopo : Topo nodes)
    (hrange : LitRange nodes n) : TInv nodes n nodes.length (tseitin nodes n) := by
  have := tseitin_inv_take nodes n htopo hrange nodes.length (Nat.le_refl _)
  rwa [List.take_length] at this

/-- the invariant in explicit form -/
theorem tseitin_inv_explicit (nodes : List NType) (n : Nat) (htopo : Topo nodes)
    (hrange : LitRange nodes n) :
    let st := tseitin nodes n
    n + 1 ≤ st.next
    ∧ st.biconds.map Bicond.index = List.range' (n + 1) (st.next - (n + 1))
    ∧ (∀ b ∈ st.biconds, n < b.index ∧ b.index < st.next
        ∧ ∀ l ∈ b.lits, l ≠ 0 ∧ l.natAbs < b.index)
    ∧ st.nodeLits.size = nodes.length
    ∧ (∀ i, i < nodes.length →
        st.nodeLits.getD i 0 ≠ 0 ∧ (st.nodeLits.getD i 0).natAbs < st.next) := by
  intro st
  have h : TInv nodes n nodes.length st := tseitin_inv nodes n htopo hrange
  have hn : st.next = n + 1 + st.biconds.length := h.next_eq
  refine ⟨by omega, ?_, ?_, h.size, h.lits⟩
  · rw [h.good.map_index]; congr 1; omega
  · intro b hb
    obtain ⟨i1, i2, i3⟩ := h.good.mem hb
    exact ⟨i1, by omega, i3⟩

/-! ### the requested statements about `tseitin nodes n` -/

theorem extension_satisfies (nodes : List NType) (n : Nat) (htopo : Topo nodes)
    (hrange : LitRange nodes n) (σ : Assignment) :
    satCnf (extend σ (tseitin nodes n).biconds)
      ((tseitin nodes n).biconds.flatMap Bicond.clauses) = true :=
  extend_satisfies (tseitin_inv nodes n htopo hrange).good σ

theorem extension_unique (nodes : List NType) (n : Nat) (htopo : Topo nodes)
    (hrange : LitRange nodes n) (σ τ : Assignment)
    (hagree : ∀ v, 1 ≤ v → v ≤ n → τ v = σ v)
    (hsat : satCnf τ ((tseitin nodes n).biconds.flatMap Bicond.clauses) = true) :
    ∀ v, n < v → v < (tseitin nodes n).next → τ v = extend σ (tseitin nodes n).biconds v := by
  have h := tseitin_inv nodes n htopo hrange
  intro v h1 h2
  have hn := h.next_eq
  exact extend_unique h.good σ τ hagree hsat v h1 (by omega)

/-- the literal representing node `i` is true under the extension iff the node evaluates to true -/
theorem nodeLit_iff_eval (nodes : List NType) (n : Nat) (htopo : Topo nodes)
    (hrange : LitRange nodes n) (σ : Assignment) (i : Nat) (hi : i < nodes.length) :
    litTrue (extend σ (tseitin nodes n).biconds) ((tseitin nodes n).nodeLits.getD i 0)
      = eval σ nodes i :=
  (tseitin_inv nodes n htopo hrange).sem σ i hi

end Ddnnf
