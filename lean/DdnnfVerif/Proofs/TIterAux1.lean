/-
  Helper for `Proofs/TIter.lean`: one `advance` of the index iterator computes the pure successor
  function `nextAux` on strictly decreasing tuples.
-/
import DdnnfVerif.Model.TIter
namespace Ddnnf.TI

/-! ### list helpers -/

theorem getD_app_len (Z : List Nat) (y : Nat) (R : List Nat) (d : Nat) :
    (Z ++ y :: R).getD Z.length d = y := by
  simp [List.getD_eq_getElem?_getD]

theorem getD_app_len1 (Z : List Nat) (y z : Nat) (R : List Nat) (d : Nat) :
    (Z ++ y :: z :: R).getD (Z.length + 1) d = z := by
  have := getD_app_len (Z ++ [y]) z R d
  simp

theorem set_app_len (Z : List Nat) (y v : Nat) (R : List Nat) :
    (Z ++ y :: R).set Z.length v = Z ++ v :: R := by
  simp

theorem set_app_len1 (Z : List Nat) (y z v : Nat) (R : List Nat) :
    (Z ++ y :: z :: R).set (Z.length + 1) v = Z ++ y :: v :: R := by
  have := set_app_len (Z ++ [y]) z v R
  simp

/-- `[a+k-1, …, a+1, a]` -/
def dec (k a : Nat) : List Nat := (List.range' a k).reverse

theorem dec_zero (a : Nat) : dec 0 a = [] := rfl

theorem dec_succ (k a : Nat) : dec (k + 1) a = dec k (a + 1) ++ [a] := by
  simp [dec, List.range'_succ]

theorem dec_succ' (k a : Nat) : dec (k + 1) a = (a + k) :: dec k a := by
  simp [dec, List.range'_concat]

theorem dec_length (k a : Nat) : (dec k a).length = k := by simp [dec]

/-! ### the pure versions -/

/-- the carry loop on lists: position `p` holds the already incremented `y`, `rest` are the positions above
it (without the marker); the result is the part of the tuple from position `p` on, with the marker -/
def carryL (n : Nat) : Nat → Nat → List Nat → List Nat
  | p, y, [] => if y + p < n then [y, 0] else [0, 1]
  | p, y, x :: rest => if y + p < n then y :: x :: rest ++ [0] else 0 :: carryL n (p + 1) (x + 1) rest

/-- the successor of a decreasing tuple (from position `p` on, the positions below `p` being at their
maximum) -/
def nextAux (n : Nat) : Nat → List Nat → Option (List Nat)
  | _, [] => none
  | p, x :: rest => if x + 1 + p < n then some (dec p (x + 2) ++ (x + 1) :: rest) else nextAux n (p + 1) rest

theorem getD_toArray' (l : List Nat) (i d : Nat) : l.toArray.getD i d = l.getD i d := by
  simp [Array.getD, List.getD_eq_getElem?_getD]
  split <;> simp_all

theorem carry_spec (n t : Nat) : ∀ (rest Z : List Nat) (y fuel : Nat),
    t = Z.length + 1 + rest.length → rest.length + 2 ≤ fuel →
    carry n t fuel (Z ++ y :: (rest ++ [0])).toArray Z.length = (Z ++ carryL n Z.length y rest).toArray := by
  intro rest
  induction rest with
  | nil =>
    intro Z y fuel ht hf
    obtain ⟨f, rfl⟩ : ∃ f, fuel = f + 2 := ⟨fuel - 2, by simp at hf; omega⟩
    have ht' : t = Z.length + 1 := by simpa using ht
    subst ht'
    unfold carry
    simp only [List.nil_append]
    simp only [getD_toArray', List.setIfInBounds_toArray, getD_app_len, getD_app_len1,
      set_app_len, set_app_len1, carryL]
    by_cases hy : y + Z.length < n
    · have : ¬ (y ≥ n - Z.length) := by omega
      simp [this, hy]
    · have : y ≥ n - Z.length := by omega
      simp only [this, hy, decide_true, BEq.rfl, Bool.and_self, if_true, if_false]
      unfold carry
      simp
  | cons x rest ih =>
    intro Z y fuel ht hf
    obtain ⟨f, rfl⟩ : ∃ f, fuel = f + 1 := ⟨fuel - 1, by omega⟩
    have hm : (Z ++ y :: x :: (rest ++ [0])).getD t 0 = 0 := by
      have := getD_app_len (Z ++ y :: x :: rest) 0 [] 0
      simp only [List.length_append, List.length_cons, List.append_assoc, List.cons_append] at this
      have e : t = Z.length + (rest.length + 1 + 1) := by rw [ht]; simp only [List.length_cons]; omega
      rw [e]; exact this
    unfold carry
    simp only [List.cons_append]
    simp only [getD_toArray', List.setIfInBounds_toArray, hm]
    simp only [getD_app_len, getD_app_len1, set_app_len, set_app_len1, carryL]
    by_cases hy : y + Z.length < n
    · have : ¬ (y ≥ n - Z.length) := by omega
      simp [this, hy]
    · have : y ≥ n - Z.length := by omega
      simp only [this, hy, decide_true, BEq.rfl, Bool.and_self, if_true, if_false]
      have := ih (Z ++ [0]) (x + 1) f (by simp at ht ⊢; omega) (by simp at hf; omega)
      simpa using this

/-! ### the repair loop -/

theorem fixup_append (l1 l2 : List Nat) : ∀ (tu : Array Nat),
    fixup tu (l1 ++ l2) = fixup (fixup tu l1) l2 := by
  induction l1 with
  | nil => intro tu; rfl
  | cons j js ih => intro tu; simp only [List.cons_append, fixup]; exact ih _

theorem fixup_id (tu : Array Nat) (js : List Nat)
    (h : ∀ j ∈ js, ¬ tu.getD j 0 < tu.getD (j + 1) 0) : fixup tu js = tu := by
  induction js with
  | nil => rfl
  | cons j js ih =>
    simp only [fixup]
    rw [if_neg (h j (by simp))]
    exact ih (fun j hj => h j (by simp [hj]))

theorem getD_set_ne (tu : Array Nat) (j t v : Nat) (h : j ≠ t) :
    (tu.setIfInBounds j v).getD t 0 = tu.getD t 0 := by
  simp [Array.getD_eq_getD_getElem?, Array.getElem?_setIfInBounds_ne h]

theorem fixup_getD (t : Nat) (js : List Nat) : ∀ (tu : Array Nat), t ∉ js →
    (fixup tu js).getD t 0 = tu.getD t 0 := by
  induction js with
  | nil => intro tu _; rfl
  | cons j js ih =>
    intro tu h
    simp only [List.mem_cons, not_or] at h
    simp only [fixup]
    rw [ih _ h.2]
    split
    · exact getD_set_ne _ _ _ _ (fun e => h.1 e.symm)
    · rfl

theorem fixup_zeros : ∀ (p b : Nat) (R : List Nat), 0 < b →
    fixup (List.replicate p 0 ++ b :: R).toArray (List.range p).reverse
      = (dec p (b + 1) ++ b :: R).toArray := by
  intro p
  induction p with
  | zero => intro b R _; simp [fixup, dec]
  | succ p ih =>
    intro b R hb
    have hl : (List.replicate p 0).length = p := by simp
    have h1 := getD_app_len (List.replicate p 0) 0 (b :: R) 0
    have h2 := getD_app_len1 (List.replicate p 0) 0 b R 0
    have h3 := set_app_len (List.replicate p 0) 0 (b + 1) (b :: R)
    rw [hl] at h1 h2 h3
    rw [List.range_succ, List.reverse_append, List.reverse_singleton, List.singleton_append,
      List.replicate_succ', List.append_assoc, List.singleton_append]
    simp only [fixup, getD_toArray', h1, h2, hb, if_true, List.setIfInBounds_toArray, h3]
    rw [ih (b + 1) (b :: R) (by omega), dec_succ p (b + 1)]
    simp

theorem getD_mid (Z A B : List Nat) (i : Nat) (h : i < A.length) :
    (Z ++ (A ++ B)).getD (Z.length + i) 0 = A[i] := by
  rw [List.getD_eq_getElem?_getD, List.getElem?_append_right (Nat.le_add_right _ _),
    Nat.add_sub_cancel_left, List.getElem?_append_left h]
  simp [h]

theorem fix_base (p y t : Nat) (rest : List Nat) (hv : (y :: rest).Pairwise (· > ·)) (hy : 0 < y)
    (ht : t = p + 1 + rest.length) :
    fixup (List.replicate p 0 ++ y :: (rest ++ [0])).toArray (List.range (t - 1)).reverse
      = (dec p (y + 1) ++ y :: rest ++ [0]).toArray := by
  have e : t - 1 = p + rest.length := by omega
  rw [e, List.range_add, List.reverse_append, fixup_append,
    fixup_id _ (List.map (fun x => p + x) (List.range rest.length)).reverse, fixup_zeros p y _ hy]
  · simp
  · intro j hj
    simp only [List.mem_reverse, List.mem_map, List.mem_range] at hj
    obtain ⟨i, hi, rfl⟩ := hj
    have hl : (List.replicate p 0).length = p := by simp
    have h1 := getD_mid (List.replicate p 0) (y :: rest) [0] i (by simp; omega)
    have h2 := getD_mid (List.replicate p 0) (y :: rest) [0] (i + 1) (by simp; omega)
    rw [hl] at h1 h2
    simp only [getD_toArray']
    rw [show y :: (rest ++ [0]) = (y :: rest) ++ [0] from rfl, h1, Nat.add_assoc, h2]
    have := (List.pairwise_iff_getElem.1 hv) i (i + 1) (by simp; omega) (by simp; omega) (by omega)
    omega

theorem carry_fix (n : Nat) : ∀ (rest : List Nat) (p x t : Nat), (x :: rest).Pairwise (· > ·) →
    t = p + 1 + rest.length →
    match nextAux n p (x :: rest) with
    | some d' => fixup (List.replicate p 0 ++ carryL n p (x + 1) rest).toArray (List.range (t - 1)).reverse
        = (d' ++ [0]).toArray
    | none => (fixup (List.replicate p 0 ++ carryL n p (x + 1) rest).toArray
        (List.range (t - 1)).reverse).getD t 0 = 1 := by
  intro rest
  induction rest with
  | nil =>
    intro p x t hv ht
    simp only [nextAux, carryL]
    by_cases h : x + 1 + p < n
    · simp only [h, if_true]
      have := fix_base p (x + 1) t [] (by simp) (by omega) ht
      simpa using this
    · simp only [h, if_false]
      rw [fixup_getD _ _ _ (by simp), getD_toArray']
      have hl : (List.replicate p 0).length = p := by simp
      have := getD_app_len1 (List.replicate p 0) 0 1 [] 0
      rw [hl] at this
      simp only [List.length_nil] at ht
      rw [ht]; exact this
  | cons x' rest ih =>
    intro p x t hv ht
    simp only [nextAux, carryL]
    by_cases h : x + 1 + p < n
    · simp only [h, if_true]
      have hv' : ((x + 1) :: x' :: rest).Pairwise (· > ·) := by
        rw [List.pairwise_cons] at hv ⊢
        exact ⟨fun a ha => by have := hv.1 a ha; omega, hv.2⟩
      have := fix_base p (x + 1) t (x' :: rest) hv' (by omega) ht
      simpa using this
    · simp only [h, if_false]
      have := ih (p + 1) x' t (List.pairwise_cons.1 hv).2 (by simp at ht; omega)
      rw [List.replicate_succ', List.append_assoc, List.singleton_append] at this
      exact this

/-! ### one step -/

/-- the iterator state (after the first `advance`) holding the tuple `d` -/
def st (n t : Nat) (d : List Nat) : St := ⟨n, t, false, (d ++ [0]).toArray⟩

theorem fixup_if (t : Nat) (tu : Array Nat) :
    (if t ≥ 2 then fixup tu (List.range (t - 1)).reverse else tu) = fixup tu (List.range (t - 1)).reverse := by
  split
  · rfl
  · have : t - 1 = 0 := by omega
    rw [this]; rfl

theorem advance_spec (n t : Nat) (d : List Nat) (hv : d.Pairwise (· > ·)) (hl : d.length = t) :
    match nextAux n 0 d with
    | some d' => advance (st n t d) = st n t d'
    | none => ∃ tu, advance (st n t d) = ⟨n, t, false, tu⟩ ∧ tu.getD t 0 = 1 := by
  cases d with
  | nil =>
    simp only [List.length_nil] at hl
    subst hl
    simp only [nextAux]
    refine ⟨#[1], ?_, by simp⟩
    unfold advance
    simp [st, carry]
  | cons x rest =>
    have ht : t = 0 + 1 + rest.length := by simp at hl; omega
    have hcf := carry_fix n rest 0 x t hv ht
    have hcs := carry_spec n t rest [] (x + 1) (t + 1) (by simpa using ht) (by omega)
    simp only [List.replicate_zero, List.nil_append, List.length_nil] at hcf hcs
    unfold advance
    simp only [st, Bool.false_eq_true, if_false, List.cons_append, getD_toArray',
      List.setIfInBounds_toArray, List.set_cons_zero, List.getD_cons_zero, fixup_if]
    by_cases h : x + 1 ≥ n
    · simp only [h, if_true, hcs]
      cases hnx : nextAux n 0 (x :: rest) with
      | some d' => rw [hnx] at hcf; simp only at hcf ⊢; rw [hcf]
      | none => rw [hnx] at hcf; simp only at hcf ⊢; exact ⟨_, rfl, hcf⟩
    · have h' : x + 1 + 0 < n := by omega
      simp only [h, if_false, nextAux, h', if_true, dec_zero, List.nil_append, List.cons_append]

/-! ### draining along a chain of successors -/

/-- `l` lists the successive `f`-successors of `x`, the last of them being `y` -/
def Seg {α} (f : α → Option α) : α → List α → α → Prop
  | x, [], y => x = y
  | x, z :: l, y => f x = some z ∧ Seg f z l y

theorem Seg.append {α} {f : α → Option α} : ∀ {l1 : List α} {x y z : α} {l2 : List α},
    Seg f x l1 y → Seg f y l2 z → Seg f x (l1 ++ l2) z := by
  intro l1
  induction l1 with
  | nil => intro x y z l2 h1 h2; simp only [Seg] at h1; subst h1; exact h2
  | cons a l1 ih => intro x y z l2 h1 h2; exact ⟨h1.1, ih h1.2 h2⟩

theorem get_st (n t : Nat) (d : List Nat) (hl : d.length = t) : get (st n t d) = some d := by
  have h1 := getD_app_len d 0 [] 0
  rw [hl] at h1
  simp [get, st, ← hl]

theorem drain_seg (n t : Nat) : ∀ (l : List (List Nat)) (d e : List Nat) (fuel : Nat),
    Seg (nextAux n 0) d l e → nextAux n 0 e = none →
    (∀ x ∈ d :: l, x.Pairwise (· > ·) ∧ x.length = t) → l.length < fuel →
    drain fuel (st n t d) = l := by
  intro l
  induction l with
  | nil =>
    intro d e fuel hs he hv hf
    simp only [Seg] at hs
    subst hs
    obtain ⟨f, rfl⟩ : ∃ f, fuel = f + 1 := ⟨fuel - 1, by simp at hf; omega⟩
    have := advance_spec n t d (hv d (by simp)).1 (hv d (by simp)).2
    rw [he] at this
    obtain ⟨tu, h1, h2⟩ := this
    simp only [drain, h1, get, h2]
    simp
  | cons z l ih =>
    intro d e fuel hs he hv hf
    obtain ⟨f, rfl⟩ : ∃ f, fuel = f + 1 := ⟨fuel - 1, by simp at hf; omega⟩
    have := advance_spec n t d (hv d (by simp)).1 (hv d (by simp)).2
    rw [hs.1] at this
    simp only at this
    simp only [drain, this, get_st n t z (hv z (by simp)).2]
    rw [ih z e f hs.2 he (fun x hx => hv x (by simp at hx ⊢; exact Or.inr hx)) (by simp at hf; omega)]

theorem drain_new (n t fuel : Nat) :
    drain (fuel + 1) (new n t) = dec t 0 :: drain fuel (st n t (dec t 0)) := by
  have e : (List.range t).reverse = dec t 0 := by simp [dec, List.range_eq_range']
  have h : advance (new n t) = st n t (dec t 0) := by simp [advance, new, st, e]
  simp only [drain, h, get_st n t _ (dec_length t 0)]

end Ddnnf.TI
