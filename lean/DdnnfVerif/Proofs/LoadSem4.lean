/-
  Denotation of the graphs of the d4 loader (part 4, phase 4): smoothing keeps all values.

  * `balanceStep_sem`: replacing the child `c` of `nx` by a fresh `and(c, triangles…)` keeps all values;
  * `balance_sem`, `smooth_sem`.
-/
import DdnnfVerif.Proofs.LoadSem3

namespace Ddnnf.D4

/-- replacing one occurrence of the successor `c` by a node with the same value -/
theorem stepV_replaceChild (σ : Assignment) (g g' : G) (v v' : Nat → Bool) (x c n : Nat)
    (hk : g'.kindOf x = g.kindOf x) (ho : g'.outs.getD x [] = n :: (g.outs.getD x []).erase c)
    (hc : c ∈ g.outs.getD x []) (hvn : v' n = v c) (hag : ∀ d ∈ g.outs.getD x [], v' d = v d) :
    stepV σ g' v' x = stepV σ g v x := by
  have hag' : ∀ d ∈ (g.outs.getD x []).erase c, v' d = v d :=
    fun d hd => hag d (List.mem_of_mem_erase hd)
  unfold stepV
  rw [hk, ho]
  cases hkx : g.kindOf x with
  | none => rfl
  | some k =>
    cases k with
    | and => simp only [List.all_cons, hvn]; rw [all_congr_mem hag', ← all_erase_mem hc]
    | or => simp only [List.any_cons, hvn]; rw [any_congr_mem hag', ← any_erase_mem hc]
    | tru => rfl
    | fls => rfl
    | lit l => rfl

/-- the body of the fold of `balance` -/
def balanceStep (sorted : Bool) (h : List Nat → List Nat) (nx : Nat) : LState → Nat × List Nat → LState :=
  fun s (child, miss) =>
    let (g, andN) := s.g.addNode .and
    let g := g.removeEdge nx child
    let g := g.addEdge nx andN
    let g := g.addEdge andN child
    let order := if sorted then sortNat (h miss) else h miss
    order.foldl (fun s f => s.addTriangle f andN) { s with g := g }

theorem balance_eq (sorted : Bool) (h : List Nat → List Nat) (s : LState) (nx : Nat)
    (work : List (Nat × List Nat)) : balance sorted h s nx work = work.foldl (balanceStep sorted h nx) s := rfl

/-- the graph after the new `and` node was inserted between `nx` and `child` -/
def insertAnd (g : G) (nx child : Nat) : G :=
  (((g.addNode .and).1.removeEdge nx child).addEdge nx g.kind.size).addEdge g.kind.size child

theorem balanceStep_eq (sorted : Bool) (h : List Nat → List Nat) (nx : Nat) (s : LState) (child : Nat)
    (miss : List Nat) :
    balanceStep sorted h nx s (child, miss) =
      (if sorted then sortNat (h miss) else h miss).foldl (fun t f => t.addTriangle f s.g.kind.size)
        { s with g := insertAnd s.g nx child } := rfl

theorem insertAnd_kindOf (g : G) (nx child x : Nat) :
    (insertAnd g nx child).kindOf x = if x = g.kind.size then some .and else g.kindOf x :=
  kindOf_addNode g .and x

theorem insertAnd_size (g : G) (nx child : Nat) : (insertAnd g nx child).kind.size = g.kind.size + 1 :=
  addNode_size g .and

theorem insertAnd_outs (g : G) (nx child x : Nat) (hw : WFG g) (hnx : nx < g.kind.size) :
    (insertAnd g nx child).outs.getD x [] =
      if x = g.kind.size then [child]
      else if x = nx then g.kind.size :: (g.outs.getD nx []).erase child
      else g.outs.getD x [] := by
  have hne : nx ≠ g.kind.size := Nat.ne_of_lt hnx
  unfold insertAnd
  by_cases h1 : x = g.kind.size
  · subst h1
    rw [if_pos rfl, outs_addEdge,
      if_pos ⟨rfl, by rw [outsSize_addEdge, outsSize_removeEdge, outsSize_addNode, hw.osz]; exact Nat.lt_succ_self _⟩,
      outs_addEdge, if_neg (fun h => hne h.1), outs_removeEdge, if_neg (fun h => hne h.1), outs_addNode,
      outs_of_ge g _ (by rw [hw.osz]; exact Nat.le_refl _)]
  · rw [if_neg h1, outs_addEdge, if_neg (fun h => h1 h.1.symm)]
    by_cases h2 : x = nx
    · subst h2
      rw [if_pos rfl, outs_addEdge,
        if_pos ⟨rfl, by rw [outsSize_removeEdge, outsSize_addNode, hw.osz]; omega⟩,
        outs_removeEdge, if_pos ⟨rfl, by rw [outsSize_addNode, hw.osz]; omega⟩, outs_addNode]
    · rw [if_neg h2, outs_addEdge, if_neg (fun h => h2 h.1.symm), outs_removeEdge,
        if_neg (fun h => h2 h.1.symm), outs_addNode]

/-- inserting `and(child)` between `nx` and `child` keeps all values; the new node has the value of `child` -/
theorem insertAnd_sem {σ : Assignment} {s : LState} {v : Nat → Bool} (nx child : Nat)
    (hnx : nx < s.g.kind.size) (hc : child ∈ s.g.outs.getD nx []) (hs : CInv σ s v) :
    CInv σ { s with g := insertAnd s.g nx child } (upd v s.g.kind.size (v child)) ∧
      CExt s v { s with g := insertAnd s.g nx child } (upd v s.g.kind.size (v child)) := by
  have hchild : child < s.g.kind.size := hs.linv.wf.edges nx child hc
  have hsz := addNode_size s.g .and
  have w1 : WFn (s.g.kind.size + 1) (s.g.addNode .and).1 := ⟨addNode_wf _ _ hs.linv.wf, hsz⟩
  have w2 : WFn (s.g.kind.size + 1) ((s.g.addNode .and).1.removeEdge nx child) :=
    ⟨removeEdge_wf _ _ _ w1.1, w1.2⟩
  have w3 := addEdge_wfn _ _ nx s.g.kind.size w2 (Nat.lt_succ_self _)
  have w4 := addEdge_wfn _ _ s.g.kind.size child w3 (by omega)
  have h1 : LInv { s with g := insertAnd s.g nx child } :=
    hs.linv.setG _ w4.1 (by
      show s.g.kind.size ≤ (insertAnd s.g nx child).kind.size
      rw [insertAnd_size]; exact Nat.le_succ _)
  refine ⟨⟨h1, ?_, ?_, ?_⟩, ⟨?_, ?_, ?_, rfl⟩⟩
  · refine model_frame hs.model (fun x => x = s.g.kind.size ∨ x = nx) ?_ ?_
    · intro x hx
      have hx1 : x ≠ s.g.kind.size := fun e => hx (Or.inl e)
      have hx2 : x ≠ nx := fun e => hx (Or.inr e)
      refine ⟨upd_ne _ _ _ _ hx1, by rw [insertAnd_kindOf, if_neg hx1], ?_, ?_⟩
      · rw [insertAnd_outs _ _ _ _ hs.linv.wf hnx, if_neg hx1, if_neg hx2]
      · intro c hc'; exact upd_ne _ _ _ _ (Nat.ne_of_lt (hs.linv.wf.edges x c hc'))
    · intro x hx
      by_cases hx1 : x = s.g.kind.size
      · subst hx1
        rw [upd_self]
        simp only [stepV, insertAnd_kindOf, if_true, insertAnd_outs _ _ _ _ hs.linv.wf hnx, List.all_cons,
          List.all_nil, Bool.and_true]
        rw [upd_ne _ _ _ _ (Nat.ne_of_lt hchild)]
      · have hx2 : x = nx := by
          rcases hx with hx | hx
          · exact absurd hx hx1
          · exact hx
        subst hx2
        rw [upd_ne _ _ _ _ hx1, hs.model x]
        symm
        refine stepV_replaceChild σ s.g _ v _ x child s.g.kind.size ?_ ?_ hc (upd_self _ _ _) ?_
        · rw [insertAnd_kindOf, if_neg hx1]
        · rw [insertAnd_outs _ _ _ _ hs.linv.wf hnx, if_neg hx1, if_pos rfl]
        · intro d hd; exact upd_ne _ _ _ _ (Nat.ne_of_lt (hs.linv.wf.edges x d hd))
  · intro e he
    show (insertAnd s.g nx child).kindOf e.2 = _
    rw [insertAnd_kindOf, if_neg (Nat.ne_of_lt (hs.linv.lit e he))]; exact hs.litK e he
  · intro x l hkx
    have hk' : (insertAnd s.g nx child).kindOf x = some (.lit l) := hkx
    rw [insertAnd_kindOf] at hk'
    split at hk'
    · cases hk'
    · exact hs.litnz x l hk'
  · intro x hx; exact upd_ne _ _ _ _ (Nat.ne_of_lt hx)
  · intro x hx
    show (insertAnd s.g nx child).kindOf x = _
    rw [insertAnd_kindOf, if_neg (Nat.ne_of_lt hx)]
  · show s.g.kind.size ≤ (insertAnd s.g nx child).kind.size
    rw [insertAnd_size]; exact Nat.le_succ _

/-- hanging triangles under the node `a` (not an `or`) -/
theorem addTriangles_sem {σ : Assignment} (a : Nat) (order : List Nat) (hord : ∀ f ∈ order, 1 ≤ f) :
    ∀ (s : LState) (v : Nat → Bool), a < s.g.kind.size → s.g.kindOf a ≠ some .or → CInv σ s v → TriT s v →
    ∃ v', CInv σ (order.foldl (fun s f => s.addTriangle f a) s) v' ∧
      TriT (order.foldl (fun s f => s.addTriangle f a) s) v' ∧
      CExt s v (order.foldl (fun s f => s.addTriangle f a) s) v' ∧
      (∀ x, x < s.g.kind.size → x ≠ a →
        (order.foldl (fun s f => s.addTriangle f a) s).g.outs.getD x [] = s.g.outs.getD x []) := by
  induction order with
  | nil => intro s v _ _ hs ht; exact ⟨v, hs, ht, CExt.refl s v, fun _ _ _ => rfl⟩
  | cons f fs ih =>
    intro s v ha hk hs ht
    obtain ⟨v1, c1, t1, e1, o1⟩ := addTriangle_sem f a (hord f (List.mem_cons_self ..)) ha hk hs ht
    obtain ⟨v2, c2, t2, e2, o2⟩ := ih (fun f' hf' => hord f' (List.mem_cons_of_mem _ hf')) _ v1
      (Nat.lt_of_lt_of_le ha e1.size) (by rw [e1.kinds _ ha]; exact hk) c1 t1
    refine ⟨v2, c2, t2, e1.trans e2, ?_⟩
    intro x hx hxa
    rw [List.foldl_cons, o2 x (Nat.lt_of_lt_of_le hx e1.size) hxa, o1 x hx hxa]

/-- one step of `balance` -/
theorem balanceStep_sem {σ : Assignment} {s : LState} {v : Nat → Bool} (sorted : Bool)
    (h : List Nat → List Nat) (hh : ∀ xs f, f ∈ h xs → f ∈ xs) (nx child : Nat) (miss : List Nat)
    (hmiss : ∀ f ∈ miss, 1 ≤ f) (hnx : nx < s.g.kind.size) (hc : child ∈ s.g.outs.getD nx [])
    (hs : CInv σ s v) (ht : TriT s v) :
    ∃ v', CInv σ (balanceStep sorted h nx s (child, miss)) v' ∧
      TriT (balanceStep sorted h nx s (child, miss)) v' ∧
      CExt s v (balanceStep sorted h nx s (child, miss)) v' ∧
      (balanceStep sorted h nx s (child, miss)).g.outs.getD nx [] =
        s.g.kind.size :: (s.g.outs.getD nx []).erase child := by
  rw [balanceStep_eq]
  obtain ⟨c1, e1⟩ := insertAnd_sem nx child hnx hc hs
  have t1 : TriT { s with g := insertAnd s.g nx child } (upd v s.g.kind.size (v child)) := ht.ext hs.linv e1 rfl
  have hord : ∀ f ∈ (if sorted then sortNat (h miss) else h miss), 1 ≤ f := by
    intro f hf
    apply hmiss f
    cases sorted
    · exact hh _ _ hf
    · simp only [if_true] at hf
      exact hh _ _ ((mem_sortNat _ _).1 hf)
  have hsz : ({ s with g := insertAnd s.g nx child } : LState).g.kind.size = s.g.kind.size + 1 :=
    insertAnd_size s.g nx child
  obtain ⟨v2, c2, t2, e2, o2⟩ := addTriangles_sem s.g.kind.size _ hord
    { s with g := insertAnd s.g nx child } _ (by rw [hsz]; exact Nat.lt_succ_self _)
    (by
      show (insertAnd s.g nx child).kindOf s.g.kind.size ≠ _
      rw [insertAnd_kindOf, if_pos rfl]; simp) c1 t1
  refine ⟨v2, c2, t2, e1.trans e2, ?_⟩
  rw [o2 nx (by rw [hsz]; omega) (Nat.ne_of_lt hnx)]
  show (insertAnd s.g nx child).outs.getD nx [] = _
  rw [insertAnd_outs _ _ _ _ hs.linv.wf hnx, if_neg (Nat.ne_of_lt hnx), if_pos rfl]

/-- `balance` keeps all values: every listed child occurs (often enough) among the successors of `nx`
and all the missing variables are `≥ 1` -/
theorem balance_sem {σ : Assignment} (sorted : Bool) (h : List Nat → List Nat)
    (hh : ∀ xs f, f ∈ h xs → f ∈ xs) (nx : Nat) (work : List (Nat × List Nat)) :
    ∀ (s : LState) (v : Nat → Bool), (∀ w ∈ work, ∀ f ∈ w.2, 1 ≤ f) → nx < s.g.kind.size →
      (∀ c, (work.map Prod.fst).count c ≤ (s.g.outs.getD nx []).count c) → CInv σ s v → TriT s v →
      ∃ v', CInv σ (balance sorted h s nx work) v' ∧ TriT (balance sorted h s nx work) v' ∧
        CExt s v (balance sorted h s nx work) v' := by
  induction work with
  | nil => intro s v _ _ _ hs ht; exact ⟨v, hs, ht, CExt.refl s v⟩
  | cons w ws ih =>
    intro s v hw hnx hcnt hs ht
    obtain ⟨child, miss⟩ := w
    have hc : child ∈ s.g.outs.getD nx [] := by
      apply List.count_pos_iff.1
      have := hcnt child
      simp only [List.map_cons, List.count_cons_self] at this
      omega
    obtain ⟨v1, c1, t1, e1, o1⟩ := balanceStep_sem sorted h hh nx child miss
      (hw _ (List.mem_cons_self ..)) hnx hc hs ht
    obtain ⟨v2, c2, t2, e2⟩ := ih (balanceStep sorted h nx s (child, miss)) v1
      (fun w' hw' => hw w' (List.mem_cons_of_mem _ hw')) (Nat.lt_of_lt_of_le hnx e1.size)
      (by
        intro c
        rw [o1]
        have h0 := hcnt c
        simp only [List.map_cons, List.count_cons] at h0
        have h1 : ((s.g.outs.getD nx []).erase child).count c ≤
            (s.g.kind.size :: (s.g.outs.getD nx []).erase child).count c := List.count_le_count_cons
        rw [List.count_erase] at h1
        by_cases hcc : child = c
        · have hb : (child == c) = true := by simpa using hcc
          simp only [hb, if_true] at h0 h1
          omega
        · have hb : (child == c) = false := by simpa using hcc
          simp only [hb, Bool.false_eq_true, if_false] at h0 h1
          omega) c1 t1
    rw [balance_eq, List.foldl_cons, ← balance_eq]
    exact ⟨v2, c2, t2, e1.trans e2⟩

/-! ### `smooth` -/

/-- all variables in the variable sets are `≥ 1` when no literal leaf carries 0 -/
theorem varSets_pos (g : G) (root : Nat) (hnz : ∀ x l, g.kindOf x = some (.lit l) → l ≠ 0) :
    ∀ x, ∀ f ∈ (varSets g root).getD x [], 1 ≤ f := by
  rw [varSets_eq_foldl]
  refine foldl_inv (fun vs : Array (List Nat) => ∀ x, ∀ f ∈ vs.getD x [], 1 ≤ f) _ _ ?_ _ ?_
  · intro vs y _ hvs x f hf
    rw [getD_setIfInBounds] at hf
    split at hf
    · rw [mem_nodeV] at hf
      rcases hf with ⟨l, hl, rfl⟩ | ⟨_, c, _, hc⟩
      · have := hnz y l hl; omega
      · exact hvs c f hc
    · exact hvs x f hf
  · intro x f hf
    rw [getD_replicate] at hf
    split at hf <;> cases hf

theorem filterMap_map_sublist {α β γ : Type} (l : List α) (f : α → Option β) (g : β → γ) (h : α → γ)
    (hfg : ∀ a b, f a = some b → g b = h a) : ((l.filterMap f).map g).Sublist (l.map h) := by
  induction l with
  | nil => simp
  | cons a l ih =>
    cases hfa : f a with
    | none =>
      simp only [List.filterMap_cons, hfa, List.map_cons]
      exact List.Sublist.cons _ ih
    | some b =>
      simp only [List.filterMap_cons, hfa, List.map_cons, hfg a b hfa]
      exact List.Sublist.cons_cons _ ih

theorem getD_map_pair (l : List Nat) (F : Nat → List Nat) (i : Nat) (hi : i < l.length) :
    (l.map fun c => (c, F c)).getD i (0, []) = (l[i], F l[i]) := by
  rw [List.getD_eq_getElem?_getD, List.getElem?_map, List.getElem?_eq_getElem hi]; rfl

/-- the children listed by `missing` form a sublist of the children -/
theorem missing_fst_sublist (cs : List (Nat × List Nat)) :
    ((missing cs).map Prod.fst).Sublist (cs.map Prod.fst) := by
  have e : cs.map Prod.fst = (List.range cs.length).map (fun i => (cs.getD i (0, [])).1) := by
    apply List.ext_getElem
    · simp
    · intro i h1 h2
      have hi : i < cs.length := by simpa using h1
      simp [List.getD_eq_getElem?_getD, List.getElem?_eq_getElem hi]
  rw [e, missing_eq]
  apply filterMap_map_sublist
  intro i b hb
  split at hb
  · cases hb
  · cases hb; rfl

/-- phase 4: smoothing keeps all values -/
theorem smooth_sem {σ : Assignment} {s : LState} {v : Nat → Bool} (sorted : Bool) (h : List Nat → List Nat)
    (hh : ∀ xs f, f ∈ h xs → f ∈ xs) (root : Nat) (hs : CInv σ s v) (ht : TriT s v) :
    ∃ v', CInv σ (smooth sorted h s root) v' ∧ TriT (smooth sorted h s root) v' ∧
      CExt s v (smooth sorted h s root) v' := by
  unfold smooth
  dsimp only
  refine foldl_inv (fun acc => ∃ v', CInv σ acc v' ∧ TriT acc v' ∧ CExt s v acc v') _ _ ?_ s
    ⟨v, hs, ht, CExt.refl s v⟩
  intro acc nx hnx hacc
  obtain ⟨v', c', t', e'⟩ := hacc
  have hnx' : nx < acc.g.kind.size := Nat.lt_of_lt_of_le (postOrder_lt _ _ nx hnx) e'.size
  split
  · obtain ⟨v'', c'', t'', e''⟩ := balance_sem sorted h hh nx
      (missing ((acc.g.outs.getD nx []).map fun c => (c, (varSets s.g root).getD c []))) acc v' (by
        intro w hw f hf
        rw [mem_missing] at hw
        obtain ⟨i, _, _, rfl⟩ := hw
        rw [mem_missOf] at hf
        obtain ⟨_, j, hj, _, hfj⟩ := hf
        rw [List.length_map] at hj
        rw [getD_map_pair _ _ j hj] at hfj
        exact varSets_pos s.g root hs.litnz _ f hfj) hnx' (by
        intro c
        have hsub := missing_fst_sublist ((acc.g.outs.getD nx []).map fun c => (c, (varSets s.g root).getD c []))
        have hm : ((acc.g.outs.getD nx []).map fun c => (c, (varSets s.g root).getD c [])).map Prod.fst
            = acc.g.outs.getD nx [] := by
          rw [List.map_map]
          exact List.map_id' _
        rw [hm] at hsub
        exact hsub.count_le c) c' t'
    exact ⟨v'', c'', t'', e'.trans e''⟩
  · exact ⟨v', c', t', e'⟩

end Ddnnf.D4
