/-
  Validity of uniform random sampling (model: `Model/Sample.lean`, ddnnife `sample_node` /
  `uniform_random_sampling`): FOR EVERY EVENT LIST, i.e. for every behaviour of the random source
  (the split of the amount at an or-node, the result of every shuffle), an accepted run

    * returns exactly `amount` samples,
    * every sample is (a permutation of) a listed model of the node that is compatible with the
      assumptions (`modelsA`),

  `sampleAlong` reports "unsatisfiable" exactly when `execute_query` answers 0, and the answer is a
  function of the node array, the request and the random decisions.

  Nothing is said here about the distribution of the samples; the routing weights are the subject of
  `Proofs/Uniform.lean`.
-/
import DdnnfVerif.Model.Sample
import DdnnfVerif.Proofs.CountA
import DdnnfVerif.Proofs.Enum
import DdnnfVerif.Proofs.ExecQuery

namespace Ddnnf

/-! ### the `temp` values seen by `sample_node` -/

/-- `temp` of a node as `sample_node` sees it: the count under the assumptions, except that True
nodes are hidden (`preprocess_config_creation`) -/
def sTemp (nodes : List NType) (negs : List Int) (c : Nat) : Nat :=
  match nodes.getD c .fls with
  | .tru => 0
  | _ => countA nodes negs c

theorem getD_fls_eq (nodes : List NType) (i : Nat) (hi : i < nodes.length) :
    nodes.getD i .fls = nodes[i] := by
  simp [List.getD_eq_getElem?_getD, hi]

theorem sTemp_eq (nodes : List NType) (negs : List Int) (c : Nat) (hc : c < nodes.length) :
    sTemp nodes negs c = if nodes[c] = .tru then 0 else countA nodes negs c := by
  unfold sTemp
  rw [getD_fls_eq nodes c hc]
  split
  · next h => simp [h]
  · next h =>
    have : nodes[c] ≠ .tru := fun e => h e
    simp [this]

theorem sTemp_pos (nodes : List NType) (negs : List Int) (c : Nat) (h : 0 < sTemp nodes negs c) :
    ∃ hc : c < nodes.length, nodes[c] ≠ .tru ∧ 0 < countA nodes negs c := by
  have hc : c < nodes.length := by
    apply Classical.byContradiction
    intro hn
    have h0 : countA nodes negs c = 0 := val_of_ge _ _ _ _ (by omega)
    unfold sTemp at h
    split at h <;> omega
  refine ⟨hc, ?_⟩
  rw [sTemp_eq nodes negs c hc] at h
  by_cases ht : nodes[c] = .tru
  · simp [ht] at h
  · simp only [ht, if_false] at h
    exact ⟨ht, h⟩

/-! ### the bottom-up passes at a node of a topologically ordered array -/

/-- in a topologically ordered array a pass that only reads the children of a node satisfies the
unguarded recursion equation -/
theorem val_eq_topo {α} (d : α) (f : NType → (Nat → α) → α) (nodes : List NType)
    (htopo : Topo nodes)
    (hf : ∀ nd g g', (∀ c ∈ children nd, g c = g' c) → f nd g = f nd g')
    (i : Nat) (hi : i < nodes.length) :
    val d f nodes i = f nodes[i] (val d f nodes) := by
  rw [val_eq d f nodes i hi]
  apply hf
  intro c hc
  simp [htopo i hi c hc]

theorem fModelsA_congr (negs : List Int) (nd : NType) (g g' : Nat → List Config)
    (h : ∀ c ∈ children nd, g c = g' c) : fModelsA negs nd g = fModelsA negs nd g' := by
  cases nd with
  | and cs =>
    have h' : ∀ c ∈ cs, g c = g' c := h
    show prodConfigs (cs.map g) = prodConfigs (cs.map g')
    rw [List.map_congr_left h']
  | or cs =>
    have h' : ∀ c ∈ cs, g c = g' c := h
    show (cs.map g).flatten = (cs.map g').flatten
    rw [List.map_congr_left h']
  | lit l => rfl
  | tru => rfl
  | fls => rfl

theorem fCountA_congr (negs : List Int) (nd : NType) (g g' : Nat → Nat)
    (h : ∀ c ∈ children nd, g c = g' c) : fCountA negs nd g = fCountA negs nd g' := by
  cases nd with
  | and cs =>
    have h' : ∀ c ∈ cs, g c = g' c := h
    show prodNat (cs.map g) = prodNat (cs.map g')
    rw [List.map_congr_left h']
  | or cs =>
    have h' : ∀ c ∈ cs, g c = g' c := h
    show sumNat (cs.map g) = sumNat (cs.map g')
    rw [List.map_congr_left h']
  | lit l => rfl
  | tru => rfl
  | fls => rfl

theorem modelsA_node (nodes : List NType) (negs : List Int) (htopo : Topo nodes) (i : Nat)
    (hi : i < nodes.length) :
    modelsA nodes negs i = fModelsA negs nodes[i] (modelsA nodes negs) :=
  val_eq_topo [] (fModelsA negs) nodes htopo (fModelsA_congr negs) i hi

theorem countA_node (nodes : List NType) (negs : List Int) (htopo : Topo nodes) (i : Nat)
    (hi : i < nodes.length) :
    countA nodes negs i = fCountA negs nodes[i] (countA nodes negs) :=
  val_eq_topo 0 (fCountA negs) nodes htopo (fCountA_congr negs) i hi

/-! ### shuffles and stitching -/

/-- the executable permutation test accepts permutations only -/
theorem permCfgB_perm (a b : List Config) (h : permCfgB a b = true) : a.Perm b := by
  induction a generalizing b with
  | nil =>
    simp only [permCfgB, List.isEmpty_iff] at h
    subst h
    exact List.Perm.nil
  | cons x xs ih =>
    simp only [permCfgB, Bool.and_eq_true, List.contains_iff_mem] at h
    have h1 := ih _ h.2
    exact ((List.perm_cons_erase h.1).trans (List.Perm.cons x h1.symm)).symm

theorem stitch_nil_left (r : List Config) : stitch [] r = [] := by
  cases r <;> rfl

theorem stitch_nil_right (acc : List Config) : stitch acc [] = acc := by
  cases acc <;> rfl

theorem stitch_length (acc r : List Config) : (stitch acc r).length = acc.length := by
  induction acc generalizing r with
  | nil => rw [stitch_nil_left]
  | cons a acc ih =>
    cases r with
    | nil => rw [stitch_nil_right]
    | cons x r => simp only [stitch, List.length_cons, ih]

/-- `stitch` appends pointwise -/
theorem stitch_getD (acc r : List Config) (k : Nat) (hk : k < acc.length) :
    (stitch acc r).getD k [] = acc.getD k [] ++ r.getD k [] := by
  induction acc generalizing r k with
  | nil => simp at hk
  | cons a acc ih =>
    cases r with
    | nil => rw [stitch_nil_right]; simp
    | cons x r =>
      cases k with
      | zero => simp [stitch]
      | succ k =>
        simp only [stitch, List.getD_cons_succ]
        exact ih r k (by simpa using hk)

theorem getD_mem {α} (l : List α) (d : α) (k : Nat) (hk : k < l.length) : l.getD k d ∈ l := by
  rw [List.getD_eq_getElem?_getD, List.getElem?_eq_getElem hk]
  exact List.getElem_mem hk

theorem exists_getD_of_mem {α} (l : List α) (d : α) (x : α) (hx : x ∈ l) :
    ∃ k, k < l.length ∧ l.getD k d = x := by
  obtain ⟨k, hk, rfl⟩ := List.getElem_of_mem hx
  exact ⟨k, hk, by rw [List.getD_eq_getElem?_getD, List.getElem?_eq_getElem hk]; rfl⟩

/-! ### the three mutually recursive functions, one level of fuel at a time -/

/-- the statement about `replay` with a fixed fuel -/
def ReplayOK (nodes : List NType) (negs : List Int) (fuel : Nat) : Prop :=
  ∀ amount i evs out rest, 0 < sTemp nodes negs i →
    replay nodes (sTemp nodes negs) fuel amount i evs = some (out, rest) →
    out.length = amount ∧ ∀ c ∈ out, ∃ m ∈ modelsA nodes negs i, c.Perm m

/-- a True node never produces samples -/
theorem replay_tru (nodes : List NType) (temp : Nat → Nat) (fuel amount c : Nat) (evs : List SEv)
    (out : List Config) (rest : List SEv) (hc : nodes.getD c .fls = .tru)
    (h : replay nodes temp fuel amount c evs = some (out, rest)) : out = [] := by
  cases fuel with
  | zero => rw [replay.eq_1] at h; cases h
  | succ fuel =>
    cases amount with
    | zero => rw [replay.eq_2] at h; cases h; rfl
    | succ amount =>
      rw [replay.eq_3, hc] at h
      cases h; rfl

/-- and-node: after the children `cs` the `k`-th accumulated configuration has grown by (a
permutation of) an element of the product of the children's models -/
theorem replayAnd_valid (nodes : List NType) (negs : List Int) (htopo : Topo nodes) (fuel : Nat)
    (IH : ReplayOK nodes negs fuel) (amount i : Nat) :
    ∀ (cs : List Nat) (acc : List Config) (evs : List SEv) (out : List Config) (rest : List SEv),
      (∀ c ∈ cs, nodes.getD c .fls = .tru ∨ 0 < sTemp nodes negs c) →
      acc.length = amount →
      replayAnd nodes (sTemp nodes negs) fuel amount i cs acc evs = some (out, rest) →
      out.length = amount ∧ ∀ k, k < amount →
        ∃ m ∈ prodConfigs (cs.map (modelsA nodes negs)), (out.getD k []).Perm (acc.getD k [] ++ m) := by
  intro cs
  induction cs with
  | nil =>
    intro acc evs out rest _ hacc h
    rw [replayAnd.eq_1] at h
    cases h
    refine ⟨hacc, fun k _ => ⟨[], by simp [prodConfigs], by simp⟩⟩
  | cons c cs ih =>
    intro acc evs out rest hcs hacc h
    rw [replayAnd.eq_2] at h
    split at h
    · next childOut evs' hrep =>
      split at h
      · next node child result rest' =>
        split at h
        · next hcond =>
          simp only [Bool.and_eq_true] at hcond
          have hperm := permCfgB_perm _ _ hcond.2
          obtain ⟨hlen, hout⟩ := ih (stitch acc result) rest' out rest
            (fun c' hc' => hcs c' (List.mem_cons_of_mem _ hc'))
            (by rw [stitch_length, hacc]) h
          refine ⟨hlen, fun k hk => ?_⟩
          obtain ⟨m, hm, hpm⟩ := hout k hk
          rw [stitch_getD acc result k (by omega)] at hpm
          rcases hcs c (List.mem_cons_self ..) with htru | hpos
          · -- True child: no samples, the shuffle result is empty
            have hco : childOut = [] := replay_tru _ _ _ _ _ _ _ _ htru hrep
            subst hco
            have hres : result = [] := List.perm_nil.mp hperm
            subst hres
            have hclt : c < nodes.length := by
              apply Classical.byContradiction
              intro hn
              rw [List.getD_eq_getElem?_getD, List.getElem?_eq_none (by omega)] at htru
              cases htru
            have hmc : modelsA nodes negs c = [[]] := by
              rw [modelsA_node nodes negs htopo c hclt]
              rw [getD_fls_eq nodes c hclt] at htru
              rw [htru]; rfl
            refine ⟨m ++ [], ?_, ?_⟩
            · rw [List.map_cons, mem_prodConfigs_cons]
              exact ⟨m, hm, [], by simp [hmc], rfl⟩
            · simpa using hpm
          · obtain ⟨hcl, hcv⟩ := IH amount c evs childOut _ hpos hrep
            have hrl : result.length = amount := by rw [hperm.length_eq, hcl]
            have hmem : result.getD k [] ∈ childOut :=
              hperm.mem_iff.mp (getD_mem result [] k (by omega))
            obtain ⟨hd, hhd, hphd⟩ := hcv _ hmem
            refine ⟨m ++ hd, ?_, ?_⟩
            · rw [List.map_cons, mem_prodConfigs_cons]
              exact ⟨m, hm, hd, hhd, rfl⟩
            · refine hpm.trans ?_
              rw [List.append_assoc]
              apply List.Perm.append_left
              exact List.perm_append_comm.trans (List.Perm.append_left _ hphd)
        · cases h
      · cases h
    · cases h

/-- or-node: the chosen children deliver as many samples as they were asked for, each one a
(permuted) model of the child it comes from -/
theorem replayOr_valid (nodes : List NType) (negs : List Int) (fuel : Nat)
    (IH : ReplayOK nodes negs fuel) :
    ∀ (zs : List (Nat × Nat)) (evs : List SEv) (out : List Config) (rest : List SEv),
      (∀ z ∈ zs, sTemp nodes negs z.1 ≠ 0 ∨ z.2 = 0) →
      replayOr nodes (sTemp nodes negs) fuel zs evs = some (out, rest) →
      out.length = sumNat (zs.map (·.2)) ∧
        ∀ x ∈ out, ∃ z ∈ zs, ∃ m ∈ modelsA nodes negs z.1, x.Perm m := by
  intro zs
  induction zs with
  | nil =>
    intro evs out rest _ h
    rw [replayOr.eq_1] at h
    cases h
    simp
  | cons z zs ih =>
    obtain ⟨c, p⟩ := z
    intro evs out rest hzs h
    have hzs' : ∀ z ∈ zs, sTemp nodes negs z.1 ≠ 0 ∨ z.2 = 0 :=
      fun z hz => hzs z (List.mem_cons_of_mem _ hz)
    rw [replayOr.eq_2] at h
    split at h
    · next h0 =>
      have h0' : sTemp nodes negs c = 0 := by simpa using h0
      have hp : p = 0 := by
        rcases hzs (c, p) (List.mem_cons_self ..) with h1 | h1
        · exact absurd h0' h1
        · exact h1
      obtain ⟨hl, hv⟩ := ih evs out rest hzs' h
      refine ⟨by simp [hl, hp], fun x hx => ?_⟩
      obtain ⟨z, hz, hm⟩ := hv x hx
      exact ⟨z, List.mem_cons_of_mem _ hz, hm⟩
    · next h0 =>
      have hpos : 0 < sTemp nodes negs c := by
        have : sTemp nodes negs c ≠ 0 := by simpa using h0
        omega
      split at h
      · next o evs' hrep =>
        split at h
        · next o' evs'' hrep' =>
          cases h
          obtain ⟨hl1, hv1⟩ := IH p c evs o evs' hpos hrep
          obtain ⟨hl2, hv2⟩ := ih evs' o' _ hzs' hrep'
          refine ⟨by simp [hl1, hl2], fun x hx => ?_⟩
          rcases List.mem_append.mp hx with hx | hx
          · exact ⟨(c, p), List.mem_cons_self .., hv1 x hx⟩
          · obtain ⟨z, hz, hm⟩ := hv2 x hx
            exact ⟨z, List.mem_cons_of_mem _ hz, hm⟩
        · cases h
      · cases h

theorem sumNat_pos_mem (xs : List Nat) (h : 0 < sumNat xs) : ∃ x ∈ xs, 0 < x := by
  induction xs with
  | nil => simp at h
  | cons x xs ih =>
    by_cases hx : 0 < x
    · exact ⟨x, List.mem_cons_self .., hx⟩
    · simp only [sumNat_cons] at h
      obtain ⟨y, hy, hy0⟩ := ih (by omega)
      exact ⟨y, List.mem_cons_of_mem _ hy, hy0⟩

theorem replayOK_all (nodes : List NType) (negs : List Int) (htopo : Topo nodes) (fuel : Nat) :
    ReplayOK nodes negs fuel := by
  induction fuel with
  | zero =>
    intro amount i evs out rest _ h
    rw [replay.eq_1] at h
    cases h
  | succ fuel IH =>
    intro amount i evs out rest hpos h
    obtain ⟨hi, hnt, hcnt⟩ := sTemp_pos nodes negs i hpos
    cases amount with
    | zero =>
      rw [replay.eq_2] at h
      cases h
      simp
    | succ amount =>
      rw [replay.eq_3, getD_fls_eq nodes i hi] at h
      have hM := modelsA_node nodes negs htopo i hi
      have hC := countA_node nodes negs htopo i hi
      split at h
      · next l hnd =>
        -- literal leaf
        cases h
        rw [hnd] at hM hC
        have hl : negs.contains l = false := by
          cases hb : negs.contains l with
          | false => rfl
          | true =>
            have : fCountA negs (.lit l) (countA nodes negs) = 0 := by
              show (if negs.contains l = true then 0 else 1) = 0
              rw [hb]; rfl
            omega
        have hM' : modelsA nodes negs i = [[l]] := by
          rw [hM]
          show (if negs.contains l = true then [] else [[l]]) = [[l]]
          rw [hl]; rfl
        refine ⟨by simp, fun c hc => ?_⟩
        rw [List.mem_replicate] at hc
        exact ⟨[l], by simp [hM'], by rw [hc.2]⟩
      · next hnd => exact absurd hnd hnt
      · next hnd =>
        rw [hnd] at hC
        have : fCountA negs .fls (countA nodes negs) = 0 := rfl
        omega
      · next cs hnd =>
        -- and-node
        rw [hnd] at hM hC
        have hM' : modelsA nodes negs i = prodConfigs (cs.map (modelsA nodes negs)) := hM
        have hC' : countA nodes negs i = prodNat (cs.map (countA nodes negs)) := hC
        have hcs : ∀ c ∈ cs, nodes.getD c .fls = .tru ∨ 0 < sTemp nodes negs c := by
          intro c hc
          have hne : countA nodes negs c ≠ 0 :=
            prodNat_ne_zero _ (by omega) _ (List.mem_map.mpr ⟨c, hc, rfl⟩)
          unfold sTemp
          cases nodes.getD c .fls with
          | tru => exact Or.inl rfl
          | and _ => exact Or.inr (by simp only; omega)
          | or _ => exact Or.inr (by simp only; omega)
          | lit _ => exact Or.inr (by simp only; omega)
          | fls => exact Or.inr (by simp only; omega)
        obtain ⟨hl, hv⟩ := replayAnd_valid nodes negs htopo fuel IH (amount + 1) i cs
          (List.replicate (amount + 1) []) evs out rest hcs (by simp) h
        refine ⟨hl, fun c hc => ?_⟩
        obtain ⟨k, hk, rfl⟩ := exists_getD_of_mem out [] c hc
        obtain ⟨m, hm, hp⟩ := hv k (by omega)
        refine ⟨m, by rw [hM']; exact hm, ?_⟩
        have : (List.replicate (amount + 1) ([] : Config)).getD k [] = [] := by
          rw [List.getD_eq_getElem?_getD]
          cases hr : (List.replicate (amount + 1) ([] : Config))[k]? with
          | none => rfl
          | some v =>
            have := List.mem_of_getElem? hr
            rw [List.mem_replicate] at this
            simp [this.2]
        rw [this] at hp
        simpa using hp
      · next cs hnd =>
        -- or-node
        rw [hnd] at hM
        have hM' : modelsA nodes negs i = (cs.map (modelsA nodes negs)).flatten := hM
        split at h
        · next node picks evs' =>
          split at h
          · next hcond =>
            simp only [Bool.and_eq_true, beq_iff_eq, List.all_eq_true, Bool.or_eq_true,
              bne_iff_ne] at hcond
            obtain ⟨⟨⟨_, hplen⟩, hsum⟩, hall⟩ := hcond
            split at h
            · next o evs'' hrep =>
              obtain ⟨hl, hv⟩ := replayOr_valid nodes negs fuel IH (cs.zip picks) evs' o evs''
                (fun z hz => hall z hz) hrep
              rw [List.map_snd_zip (by omega), hsum] at hl
              simp only [hl, Nat.sub_self, List.replicate_zero, List.append_nil] at h
              split at h
              · next node' result rest' =>
                split at h
                · next hc2 =>
                  cases h
                  simp only [Bool.and_eq_true] at hc2
                  have hperm := permCfgB_perm _ _ hc2.2
                  refine ⟨by rw [hperm.length_eq, hl], fun c hc => ?_⟩
                  obtain ⟨z, hz, m, hm, hpm⟩ := hv c (hperm.mem_iff.mp hc)
                  refine ⟨m, ?_, hpm⟩
                  rw [hM', List.mem_flatten]
                  exact ⟨_, List.mem_map.mpr ⟨z.1, (List.of_mem_zip hz).1, rfl⟩, hm⟩
                · cases h
              · cases h
            · cases h
          · cases h
        · cases h

/-! ### the theorems -/

/-- every accepted run from a node with `temp > 0` returns exactly `amount` samples, each of which
is (a permutation of) a listed model of the node compatible with the assumptions.  This holds for
every event list, i.e. for every behaviour of the random source, and for every fuel. -/
theorem replay_valid (nodes : List NType) (negs : List Int) (htopo : Topo nodes)
    (fuel amount i : Nat) (evs : List SEv) (out : List Config) (rest : List SEv)
    (hpos : 0 < sTemp nodes negs i)
    (h : replay nodes (sTemp nodes negs) fuel amount i evs = some (out, rest)) :
    out.length = amount ∧ ∀ c ∈ out, ∃ m ∈ modelsA nodes negs i, c.Perm m :=
  replayOK_all nodes negs htopo fuel amount i evs out rest hpos h

/-- the same with the hypotheses spelled out as in the task: `i` is a node, not a True node, and its
count under the assumptions is positive -/
theorem replay_valid' (nodes : List NType) (negs : List Int) (htopo : Topo nodes)
    (fuel amount i : Nat) (evs : List SEv) (out : List Config) (rest : List SEv)
    (hi : i < nodes.length) (hpos : 0 < countA nodes negs i) (hnotTru : nodes[i] ≠ .tru)
    (h : replay nodes (sTemp nodes negs) fuel amount i evs = some (out, rest)) :
    out.length = amount ∧ ∀ c ∈ out, ∃ m ∈ modelsA nodes negs i, c.Perm m := by
  apply replay_valid nodes negs htopo fuel amount i evs out rest _ h
  rw [sTemp_eq nodes negs i hi]
  simp [hnotTru, hpos]

/-- `sampleAlong` with the `temp` function named -/
theorem sampleAlong_eq (nodes : List NType) (n : Nat) (A : List Int) (amount : Nat)
    (evs : List SEv) :
    sampleAlong nodes n A amount evs =
      if A.any (fun f => f.natAbs > n) then some none
      else if execQuery nodes n A > 0 then
        match replay nodes (sTemp nodes (A.map (fun f => -f))) (nodes.length + 1) amount
            (rootIx nodes) evs with
        | some (out, []) => some (some out)
        | _ => none
      else some none := rfl

/-- an accepted sampling run returns `amount` samples, each a (permuted) listed model of the root
compatible with the assumptions.  `hpos` (the count under the assumptions is positive) follows from
the test `execute_query > 0` of `uniform_random_sampling` for well-formed circuits, see
`sampleAlong_valid_wf`. -/
theorem sampleAlong_valid (nodes : List NType) (n : Nat) (A : List Int) (amount : Nat)
    (evs : List SEv) (samples : List Config) (htopo : Topo nodes)
    (hroot : nodes.getLast? ≠ some .tru) (hne : nodes ≠ [])
    (hpos : 0 < countA nodes (A.map (fun f => -f)) (rootIx nodes))
    (h : sampleAlong nodes n A amount evs = some (some samples)) :
    samples.length = amount ∧
      ∀ c ∈ samples, ∃ m ∈ modelsA nodes (A.map (fun f => -f)) (rootIx nodes), c.Perm m := by
  rw [sampleAlong_eq] at h
  split at h
  · cases h
  · split at h
    · split at h
      · next out hrep =>
        cases h
        refine replay_valid' nodes _ htopo _ amount _ evs samples [] (rootIx_lt nodes hne) hpos ?_ hrep
        intro ht
        apply hroot
        rw [getElem_rootIx nodes hne, ht]
      · cases h
    · cases h

/-- for well-formed circuits the positivity of the count is what `uniform_random_sampling` tests -/
theorem sampleAlong_valid_wf (nodes : List NType) (n : Nat) (A : List Int) (amount : Nat)
    (evs : List SEv) (samples : List Config) (hwf : WF nodes n) (hpd : PDLeaf nodes)
    (hA : InRange A n) (hroot : nodes.getLast? ≠ some .tru)
    (h : sampleAlong nodes n A amount evs = some (some samples)) :
    samples.length = amount ∧
      ∀ c ∈ samples, ∃ m ∈ modelsA nodes (A.map (fun f => -f)) (rootIx nodes), c.Perm m := by
  apply sampleAlong_valid nodes n A amount evs samples hwf.topo hroot hwf.nonempty _ h
  rw [countA_exact nodes n hwf A hA, ← execQuery_exact nodes n hwf hpd A hA]
  rw [sampleAlong_eq] at h
  split at h
  · cases h
  · split at h
    · assumption
    · cases h

/-- "unsatisfiable" is reported exactly when `execute_query` says that no model contains `A` -/
theorem sampleAlong_none_iff (nodes : List NType) (n : Nat) (A : List Int) (amount : Nat)
    (evs : List SEv) (hin : ∀ f ∈ A, f.natAbs ≤ n) :
    sampleAlong nodes n A amount evs = some none ↔ execQuery nodes n A = 0 := by
  have hany : A.any (fun f => decide (f.natAbs > n)) = false := by
    rw [List.any_eq_false]
    intro f hf
    have := hin f hf
    simp; omega
  rw [sampleAlong_eq, hany]
  simp only [Bool.false_eq_true, if_false]
  split
  · next hq =>
    constructor
    · intro h
      split at h <;> cases h
    · intro h; omega
  · next hq =>
    constructor
    · intro _; omega
    · intro _; rfl

/-- out-of-range assumptions are answered "unsatisfiable" without looking at the circuit -/
theorem sampleAlong_out_of_range (nodes : List NType) (n : Nat) (A : List Int) (amount : Nat)
    (evs : List SEv) (f : Int) (hf : f ∈ A) (hn : f.natAbs > n) :
    sampleAlong nodes n A amount evs = some none := by
  have hany : A.any (fun f => decide (f.natAbs > n)) = true :=
    List.any_eq_true.mpr ⟨f, hf, by simpa using hn⟩
  rw [sampleAlong_eq, hany]
  rfl

/-- the answer is a function of the node array, the request and the random decisions: two runs
that take the same decisions return the same samples (the only other input of
`uniform_random_sampling` is the seed, which acts through the decisions only) -/
theorem sampleAlong_deterministic (nodes nodes' : List NType) (n n' : Nat) (A A' : List Int)
    (amount amount' : Nat) (evs evs' : List SEv)
    (h1 : nodes = nodes') (h2 : n = n') (h3 : A = A') (h4 : amount = amount') (h5 : evs = evs') :
    sampleAlong nodes n A amount evs = sampleAlong nodes' n' A' amount' evs' := by
  subst h1 h2 h3 h4 h5
  rfl

/-- an accepted run consumes its event list completely and both the samples and the consumed events
are determined by the events: `replay` is a function -/
theorem replay_deterministic (nodes : List NType) (temp : Nat → Nat) (fuel amount i : Nat)
    (evs : List SEv) (r r' : Option (List Config × List SEv))
    (h : replay nodes temp fuel amount i evs = r) (h' : replay nodes temp fuel amount i evs = r') :
    r = r' := h.symm.trans h'

end Ddnnf
