/-
  Well-formedness of the array the d4 loader produces (part 4): decomposability is kept when triangles
  are hung under an and-node.

  `GDec g`: every and-node of the graph has successors that mention pairwise disjoint variables.
  `DInv s = BInv s ∧ GDec s.g`.

  * `addTriangle_dinv`:  the triangle of a feature `f` that the and-node `A` does not mention yet is hung
    under `A`, and every predecessor of `A` is not an and-node and mentions `f` already: `DInv` is kept,
    among the old nodes only `A` gains the variable `f`.
  * `addTriangles_dinv`: the same for a duplicate-free list of features (`AddStep` describes the frame).
-/
import DdnnfVerif.Proofs.LoadWF2_3

namespace Ddnnf.D4

/-- the successors of every and-node mention pairwise disjoint variables -/
def GDec (g : G) : Prop :=
  ∀ x, g.kindOf x = some .and →
    (g.outs.getD x []).Pairwise (fun c d => ∀ f, Mentions g c f → ¬ Mentions g d f)

structure DInv (s : LState) : Prop where
  b : BInv s
  dec : GDec s.g

/-- the frame of "something was hung under `A`" -/
structure AddStep (s s' : LState) (A : Nat) : Prop where
  size : s.g.kind.size ≤ s'.g.kind.size
  kinds : ∀ x, x < s.g.kind.size → s'.g.kindOf x = s.g.kindOf x
  outs : ∀ x, x < s.g.kind.size → x ≠ A → s'.g.outs.getD x [] = s.g.outs.getD x []
  attachSub : ∀ c ∈ s'.g.outs.getD A [], c ∈ s.g.outs.getD A [] ∨ ∃ e ∈ s'.tri, e.2 = c
  attachSup : ∀ c ∈ s.g.outs.getD A [], c ∈ s'.g.outs.getD A []
  newOr : ∀ x, s.g.kind.size ≤ x → s'.g.kindOf x = some .or → ∃ e ∈ s'.tri, e.2 = x
  newKind : ∀ x, s.g.kind.size ≤ x → ∀ k, s'.g.kindOf x = some k → k = .or ∨ ∃ l, k = .lit l
  newOuts : ∀ x, s.g.kind.size ≤ x → ∀ c ∈ s'.g.outs.getD x [], ∃ l, s'.g.kindOf c = some (.lit l)
  triMono : ∀ e ∈ s.tri, e ∈ s'.tri
  total : s'.total = s.total
  occurs : s'.occurs = s.occurs
  err : s'.g.err = s.g.err

theorem AddStep.refl (s : LState) (A : Nat) (hw : WFG s.g) : AddStep s s A := by
  refine ⟨Nat.le_refl _, fun _ _ => rfl, fun _ _ _ => rfl, fun c hc => Or.inl hc, fun c hc => hc, ?_, ?_, ?_,
    fun _ he => he, rfl, rfl, rfl⟩
  · intro x hx hk; rw [kindOf_of_ge s.g x hx] at hk; cases hk
  · intro x hx k hk; rw [kindOf_of_ge s.g x hx] at hk; cases hk
  · intro x hx c hc; rw [outs_of_ge s.g x (by rw [hw.osz]; exact hx)] at hc; cases hc

theorem TriStep.addStep {s s' : LState} {f A : Nat} (h : TriStep s s' f A) : AddStep s s' A := by
  obtain ⟨o, hoA, hsh, hreg⟩ := h.attach
  refine ⟨h.size, h.kinds, h.outs, ?_, ?_, h.newOr, h.newKind, h.newOuts, h.triMono, h.total, h.occurs, h.err⟩
  · intro c hc
    rw [hoA] at hc
    rcases List.mem_cons.1 hc with e | hc
    · right; exact ⟨(_, o), hreg, e.symm⟩
    · exact Or.inl hc
  · intro c hc; rw [hoA]; exact List.mem_cons_of_mem _ hc

theorem AddStep.trans {s s' s'' : LState} {A : Nat} (hA : A < s.g.kind.size) (h1 : AddStep s s' A)
    (h2 : AddStep s' s'' A) : AddStep s s'' A := by
  have hA' : A < s'.g.kind.size := Nat.lt_of_lt_of_le hA h1.size
  refine ⟨Nat.le_trans h1.size h2.size, ?_, ?_, ?_, ?_, ?_, ?_, ?_, fun e he => h2.triMono e (h1.triMono e he),
    h2.total.trans h1.total, h2.occurs.trans h1.occurs, h2.err.trans h1.err⟩
  · intro x hx; rw [h2.kinds x (Nat.lt_of_lt_of_le hx h1.size), h1.kinds x hx]
  · intro x hx hxa; rw [h2.outs x (Nat.lt_of_lt_of_le hx h1.size) hxa, h1.outs x hx hxa]
  · intro c hc
    rcases h2.attachSub c hc with hc | hk
    · rcases h1.attachSub c hc with hc | ⟨e, he, ex⟩
      · exact Or.inl hc
      · exact Or.inr ⟨e, h2.triMono e he, ex⟩
    · exact Or.inr hk
  · intro c hc; exact h2.attachSup c (h1.attachSup c hc)
  · intro x hx hk
    by_cases hx' : s'.g.kind.size ≤ x
    · exact h2.newOr x hx' hk
    · have hlt : x < s'.g.kind.size := by omega
      rw [h2.kinds x hlt] at hk
      obtain ⟨e, he, ex⟩ := h1.newOr x hx hk
      exact ⟨e, h2.triMono e he, ex⟩
  · intro x hx k hk
    by_cases hx' : s'.g.kind.size ≤ x
    · exact h2.newKind x hx' k hk
    · have hlt : x < s'.g.kind.size := by omega
      rw [h2.kinds x hlt] at hk
      exact h1.newKind x hx k hk
  · intro x hx c hc
    by_cases hx' : s'.g.kind.size ≤ x
    · exact h2.newOuts x hx' c hc
    · have hlt : x < s'.g.kind.size := by omega
      rw [h2.outs x hlt (by omega)] at hc
      obtain ⟨l, hl⟩ := h1.newOuts x hx c hc
      exact ⟨l, by rw [h2.kinds c (kindOf_lt hl)]; exact hl⟩

/-- hanging one triangle under the and-node `A` -/
theorem addTriangle_dinv (s : LState) (f A : Nat) (hd : DInv s) (hf : 1 ≤ f ∧ f ≤ s.total)
    (hA : A < s.g.kind.size) (hAk : s.g.kindOf A = some .and) (hnm : ¬ Mentions s.g A f)
    (habs : ∀ y, A ∈ s.g.outs.getD y [] → s.g.kindOf y ≠ some .and ∧ Mentions s.g y f) :
    DInv (s.addTriangle f A) ∧ AddStep s (s.addTriangle f A) A ∧
    (∀ x, x < s.g.kind.size → ∀ f', Mentions (s.addTriangle f A).g x f' ↔
      Mentions s.g x f' ∨ (x = A ∧ f' = f)) := by
  have ts := addTriangle_struct s f A hd.b hf hA hAk
  obtain ⟨o, hoA, hsh, _⟩ := ts.attach
  have hedges : ∀ x, x < s.g.kind.size → ∀ c ∈ s.g.outs.getD x [], c < s.g.kind.size :=
    fun x _ c hc => hd.b.p.linv.wf.edges x c hc
  have hm := mentions_attach (g := s.g) (g' := (s.addTriangle f A).g) hedges ts.kinds ts.outs hA (Or.inl hAk) hoA
    (mentions_tri hsh) (fun y _ hy => (habs y hy).2)
  have hAself : A ∉ s.g.outs.getD A [] := fun hh => (habs A hh).1 hAk
  refine ⟨⟨ts.binv, ?_⟩, ts.addStep, hm⟩
  intro x hk
  have hx : x < s.g.kind.size := by
    apply Classical.byContradiction
    intro hx
    rcases ts.newKind x (by omega) _ hk with e | ⟨l, e⟩ <;> cases e
  rw [ts.kinds x hx] at hk
  have hdx := hd.dec x hk
  by_cases hxa : x = A
  · subst hxa
    rw [hoA, List.pairwise_cons]
    constructor
    · intro d hdm f' h1 h2
      have e := (mentions_tri hsh f').1 h1
      subst e
      rcases (hm d (hedges _ hx d hdm) f').1 h2 with h3 | ⟨e1, _⟩
      · exact hnm (.inner (Or.inl hk) hdm h3)
      · subst e1; exact hAself hdm
    · refine List.Pairwise.imp_of_mem ?_ hdx
      intro c d hcm hdm hdis f' h1 h2
      rcases (hm c (hedges _ hx c hcm) f').1 h1 with h3 | ⟨e1, _⟩
      · rcases (hm d (hedges _ hx d hdm) f').1 h2 with h4 | ⟨e2, _⟩
        · exact hdis f' h3 h4
        · subst e2; exact hAself hdm
      · subst e1; exact hAself hcm
  · rw [ts.outs x hx hxa]
    refine List.Pairwise.imp_of_mem ?_ hdx
    intro c d hcm hdm hdis f' h1 h2
    rcases (hm c (hedges _ hx c hcm) f').1 h1 with h3 | ⟨e1, _⟩
    · rcases (hm d (hedges _ hx d hdm) f').1 h2 with h4 | ⟨e2, _⟩
      · exact hdis f' h3 h4
      · subst e2; exact (habs x hdm).1 hk
    · subst e1; exact (habs x hcm).1 hk

/-- hanging the triangles of a duplicate-free list of features under the and-node `A` -/
theorem addTriangles_dinv (A : Nat) : ∀ (order : List Nat) (s : LState), DInv s →
    (∀ f ∈ order, 1 ≤ f ∧ f ≤ s.total) → A < s.g.kind.size → s.g.kindOf A = some .and → order.Nodup →
    (∀ f ∈ order, ¬ Mentions s.g A f) →
    (∀ y, A ∈ s.g.outs.getD y [] → s.g.kindOf y ≠ some .and ∧ ∀ f ∈ order, Mentions s.g y f) →
    DInv (order.foldl (fun t f => t.addTriangle f A) s) ∧
    AddStep s (order.foldl (fun t f => t.addTriangle f A) s) A ∧
    (∀ x, x < s.g.kind.size → ∀ f', Mentions (order.foldl (fun t f => t.addTriangle f A) s).g x f' ↔
      Mentions s.g x f' ∨ (x = A ∧ f' ∈ order)) := by
  intro order
  induction order with
  | nil =>
    intro s hd _ _ _ _ _ _
    exact ⟨hd, AddStep.refl s A hd.b.p.linv.wf, fun x _ f' => by simp⟩
  | cons f fs ih =>
    intro s hd hf hA hAk hnd hnm habs
    rw [List.foldl_cons]
    have hnd' := List.nodup_cons.1 hnd
    obtain ⟨d1, a1, m1⟩ := addTriangle_dinv s f A hd (hf f (List.mem_cons_self ..)) hA hAk
      (hnm f (List.mem_cons_self ..)) (fun y hy => ⟨(habs y hy).1, (habs y hy).2 f (List.mem_cons_self ..)⟩)
    have hA1 : A < (s.addTriangle f A).g.kind.size := Nat.lt_of_lt_of_le hA a1.size
    have hAk1 : (s.addTriangle f A).g.kindOf A = some .and := by rw [a1.kinds A hA]; exact hAk
    have hAself : A ∉ s.g.outs.getD A [] := fun hh => (habs A hh).1 hAk
    -- the predecessors of `A` are the old ones
    have hpred : ∀ y, A ∈ (s.addTriangle f A).g.outs.getD y [] → y < s.g.kind.size ∧ y ≠ A ∧
        A ∈ s.g.outs.getD y [] := by
      intro y hy
      by_cases hys : y < s.g.kind.size
      · by_cases hya : y = A
        · subst hya
          rcases a1.attachSub _ hy with h1 | ⟨e, he, ex⟩
          · exact absurd h1 hAself
          · have := (d1.b.tri e he).2.1
            rw [ex, hAk1] at this; cases this
        · rw [a1.outs y hys hya] at hy; exact ⟨hys, hya, hy⟩
      · obtain ⟨l, hl⟩ := a1.newOuts y (by omega) A hy
        rw [hAk1] at hl; cases hl
    obtain ⟨d2, a2, m2⟩ := ih (s.addTriangle f A) d1
      (fun f' hf' => by rw [a1.total]; exact hf f' (List.mem_cons_of_mem _ hf')) hA1 hAk1 hnd'.2
      (fun f' hf' hm => by
        rcases (m1 A hA f').1 hm with h1 | ⟨_, e⟩
        · exact hnm f' (List.mem_cons_of_mem _ hf') h1
        · subst e; exact hnd'.1 hf')
      (fun y hy => by
        obtain ⟨hys, hya, hy'⟩ := hpred y hy
        refine ⟨by rw [a1.kinds y hys]; exact (habs y hy').1, fun f' hf' => ?_⟩
        exact (m1 y hys f').2 (Or.inl ((habs y hy').2 f' (List.mem_cons_of_mem _ hf'))))
    refine ⟨d2, AddStep.trans hA a1 a2, ?_⟩
    intro x hx f'
    rw [m2 x (Nat.lt_of_lt_of_le hx a1.size) f', m1 x hx f', List.mem_cons]
    constructor
    · rintro ((h | ⟨h1, h2⟩) | ⟨h1, h2⟩)
      · exact Or.inl h
      · exact Or.inr ⟨h1, Or.inl h2⟩
      · exact Or.inr ⟨h1, Or.inr h2⟩
    · rintro (h | ⟨h1, h2 | h2⟩)
      · exact Or.inl (Or.inl h)
      · exact Or.inl (Or.inr ⟨h1, h2⟩)
      · exact Or.inr ⟨h1, h2⟩

end Ddnnf.D4
