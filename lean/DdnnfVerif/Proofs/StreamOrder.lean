/-
  The reader / workers / printer protocol of `Ddnnf::init_stream` (model: `Model/Concurrency.lean`,
  namespace `Ddnnf.Stream`): answers are printed in input order without gaps, every accepted line
  is in exactly one place (queue, worker, channel, heap, printed), the process only exits after
  everything accepted was printed, and it is never stuck while something accepted is unanswered.
-/
import DdnnfVerif.Model.Concurrency

namespace Ddnnf
namespace Stream

/-- the invariant of the protocol -/
structure Inv (s : S) : Prop where
  /-- answers are printed in input order, without gaps -/
  printed_eq : s.printed = List.range s.outputId
  out_le : s.outputId ≤ s.nextId
  /-- `remaining_answers` counts what is queued, being worked on, or in the channel -/
  remaining_eq : s.remaining = s.queue.length + s.inflight.length + s.channel.length
  /-- every accepted line is in exactly one place -/
  partition :
    (s.queue ++ s.inflight ++ s.channel ++ s.heap ++ s.printed).Perm (List.range s.nextId)
  /-- the waiting loop is only left after input ended and everything accepted was printed -/
  fin : s.finished = true → s.stopped = true ∧ s.remaining = 0 ∧ s.outputId = s.nextId

theorem inv_init : Inv {} :=
  ⟨rfl, Nat.le_refl _, rfl, List.Perm.refl _, fun h => by cases h⟩

/-! ### auxiliary facts -/

private theorem count_range (a n : Nat) : (List.range n).count a = if a < n then 1 else 0 := by
  induction n with
  | zero => simp
  | succ n ih =>
    rw [List.range_succ, List.count_append, ih]
    simp only [List.count_cons, List.count_nil]
    by_cases h1 : a < n
    · have : (n == a) = false := by simp; omega
      simp [h1, this]; omega
    · by_cases h2 : a = n
      · subst h2; simp
      · have : (n == a) = false := by simp; omega
        have h3 : ¬ a < n + 1 := by omega
        simp [h1, this, h3]

/-- the partition in terms of multiplicities -/
private theorem partition_count {s : S} (h : Inv s) (a : Nat) :
    s.queue.count a + s.inflight.count a + s.channel.count a + s.heap.count a + s.printed.count a
      = if a < s.nextId then 1 else 0 := by
  have := h.partition.count_eq a
  rw [count_range] at this
  simp only [List.count_append] at this
  exact this

private theorem count_pos_of_contains {l : List Nat} {a : Nat} (h : l.contains a = true) :
    0 < l.count a := by
  rw [List.count_pos_iff]; simpa using h

private theorem length_pos_of_contains {l : List Nat} {a : Nat} (h : l.contains a = true) :
    0 < l.length := by
  have : a ∈ l := by simpa using h
  exact List.length_pos_of_mem this

private theorem length_erase_contains {l : List Nat} {a : Nat} (h : l.contains a = true) :
    (l.erase a).length = l.length - 1 := by
  have : a ∈ l := by simpa using h
  exact List.length_erase_of_mem this

/-- an id that is somewhere in the system was accepted -/
private theorem lt_nextId_of_count {s : S} (h : Inv s) (a : Nat)
    (hc : 0 < s.queue.count a + s.inflight.count a + s.channel.count a + s.heap.count a
            + s.printed.count a) : a < s.nextId := by
  have := partition_count h a
  by_cases hlt : a < s.nextId
  · exact hlt
  · rw [if_neg hlt] at this; omega

/-- in a state that satisfies the invariant and whose places outside `heap`/`printed` are empty,
`heap` holds exactly the ids `outputId .. nextId - 1` -/
private theorem heap_count_of_idle {s : S} (h : Inv s) (hrem : s.remaining = 0) (a : Nat) :
    s.heap.count a = if s.outputId ≤ a ∧ a < s.nextId then 1 else 0 := by
  have hr := h.remaining_eq
  have hq : s.queue = [] := List.eq_nil_of_length_eq_zero (by omega)
  have hi : s.inflight = [] := List.eq_nil_of_length_eq_zero (by omega)
  have hc : s.channel = [] := List.eq_nil_of_length_eq_zero (by omega)
  have hp := partition_count h a
  rw [hq, hi, hc, h.printed_eq, count_range] at hp
  have hle := h.out_le
  simp only [List.count_nil] at hp
  by_cases h1 : a < s.outputId
  · have h2 : a < s.nextId := by omega
    have h3 : ¬ (s.outputId ≤ a ∧ a < s.nextId) := by omega
    rw [if_pos h1, if_pos h2] at hp; rw [if_neg h3]; omega
  · rw [if_neg h1] at hp
    by_cases h2 : a < s.nextId
    · rw [if_pos h2] at hp; rw [if_pos ⟨by omega, h2⟩]; omega
    · have h3 : ¬ (s.outputId ≤ a ∧ a < s.nextId) := by omega
      rw [if_neg h2] at hp; rw [if_neg h3]; omega

/-- after the waiting loop was left nothing is anywhere but in `printed` -/
private theorem heap_nil_of_finished {s : S} (h : Inv s) (hf : s.finished = true) :
    s.heap = [] := by
  obtain ⟨_, hrem, hout⟩ := h.fin hf
  apply List.eq_nil_iff_forall_not_mem.mpr
  intro a ha
  have h1 : 0 < s.heap.count a := List.count_pos_iff.mpr ha
  have h2 := heap_count_of_idle h hrem a
  have h3 : ¬ (s.outputId ≤ a ∧ a < s.nextId) := by omega
  rw [if_neg h3] at h2; omega

/-! ### the invariant is inductive -/

set_option linter.unusedSimpArgs false in
theorem inv_step (s s' : S) (e : Ev) (h : Inv s) (hs : step s e = some s') : Inv s' := by
  have hpc := partition_count h
  have hpr := h.printed_eq
  have hle := h.out_le
  have hrem := h.remaining_eq
  have hfin := h.fin
  cases e with
  | push id =>
    simp only [step] at hs
    split at hs
    · rename_i hc
      simp only [Bool.and_eq_true, Bool.not_eq_eq_eq_not, Bool.not_true, beq_iff_eq] at hc
      obtain ⟨hst, rfl⟩ := hc
      cases hs
      refine ⟨hpr, ?_, ?_, ?_, ?_⟩
      · dsimp only; omega
      · dsimp only; rw [List.length_append, List.length_singleton]; omega
      · dsimp only
        rw [List.perm_iff_count]
        intro a
        have := hpc a
        rw [count_range]
        simp only [List.count_append, List.count_cons, List.count_erase, List.count_nil, beq_iff_eq]
        grind
      · intro hf
        have := (hfin hf).1
        rw [hst] at this; cases this
    · cases hs
  | pull id =>
    simp only [step] at hs
    split at hs
    · rename_i hc
      cases hs
      have hpos := count_pos_of_contains hc
      have hlen := length_pos_of_contains hc
      refine ⟨hpr, hle, ?_, ?_, ?_⟩
      · dsimp only; rw [length_erase_contains hc, List.length_cons]; omega
      · dsimp only
        rw [List.perm_iff_count]
        intro a
        have := hpc a
        rw [count_range]
        simp only [List.count_append, List.count_cons, List.count_erase, List.count_nil, beq_iff_eq]
        grind
      · intro hf
        have := (hfin hf).2.1
        omega
    · cases hs
  | send id =>
    simp only [step] at hs
    split at hs
    · rename_i hc
      cases hs
      have hpos := count_pos_of_contains hc
      have hlen := length_pos_of_contains hc
      refine ⟨hpr, hle, ?_, ?_, ?_⟩
      · dsimp only
        rw [length_erase_contains hc, List.length_append, List.length_singleton]; omega
      · dsimp only
        rw [List.perm_iff_count]
        intro a
        have := hpc a
        rw [count_range]
        simp only [List.count_append, List.count_cons, List.count_erase, List.count_nil, beq_iff_eq]
        grind
      · intro hf
        have := (hfin hf).2.1
        omega
    · cases hs
  | recv id =>
    simp only [step] at hs
    split at hs
    · rename_i hc
      simp only [Bool.and_eq_true, decide_eq_true_eq] at hc
      obtain ⟨hc, hr0⟩ := hc
      cases hs
      have hpos := count_pos_of_contains hc
      have hlen := length_pos_of_contains hc
      refine ⟨hpr, hle, ?_, ?_, ?_⟩
      · dsimp only; rw [length_erase_contains hc]; omega
      · dsimp only
        rw [List.perm_iff_count]
        intro a
        have := hpc a
        rw [count_range]
        simp only [List.count_append, List.count_cons, List.count_erase, List.count_nil, beq_iff_eq]
        grind
      · intro hf
        have := (hfin hf).2.1
        omega
    · cases hs
  | print id =>
    simp only [step] at hs
    split at hs
    · rename_i hc
      simp only [Bool.and_eq_true, beq_iff_eq] at hc
      obtain ⟨rfl, hc⟩ := hc
      cases hs
      have hpos := count_pos_of_contains hc
      have hlt : s.outputId < s.nextId := lt_nextId_of_count h s.outputId (by omega)
      refine ⟨?_, hlt, hrem, ?_, ?_⟩
      · dsimp only; rw [List.range_succ, hpr]
      · dsimp only
        rw [List.perm_iff_count]
        intro a
        have := hpc a
        rw [count_range]
        simp only [List.count_append, List.count_cons, List.count_erase, List.count_nil, beq_iff_eq]
        grind
      · intro hf
        have hnil := heap_nil_of_finished h hf
        rw [hnil] at hc; simp at hc
    · cases hs
  | stop id =>
    simp only [step] at hs
    split at hs
    · rename_i hc
      simp only [Bool.and_eq_true, Bool.not_eq_eq_eq_not, Bool.not_true, beq_iff_eq] at hc
      cases hs
      refine ⟨hpr, hle, hrem, h.partition, ?_⟩
      intro hf
      have := (hfin hf).1
      rw [hc.1] at this; cases this
    · cases hs
  | park =>
    simp only [step] at hs
    cases hs
    exact h
  | unpark =>
    simp only [step] at hs
    split at hs
    · cases hs; exact h
    · cases hs
  | done id =>
    simp only [step] at hs
    split at hs
    · rename_i hc
      simp only [Bool.and_eq_true, Bool.not_eq_eq_eq_not, Bool.not_true, beq_iff_eq] at hc
      obtain ⟨⟨⟨hst, hr0⟩, hnc⟩, rfl⟩ := hc
      cases hs
      refine ⟨hpr, hle, hrem, h.partition, ?_⟩
      intro _
      refine ⟨hst, hr0, ?_⟩
      dsimp only
      have hcnt := heap_count_of_idle h hr0 s.outputId
      have hz : s.heap.count s.outputId = 0 := by
        rw [List.count_eq_zero]; simpa using hnc
      by_cases hlt : s.outputId < s.nextId
      · rw [if_pos ⟨Nat.le_refl _, hlt⟩] at hcnt; omega
      · omega
    · cases hs

theorem inv_run (s s' : S) (es : List Ev) (h : Inv s) (hr : run s es = some s') : Inv s' := by
  induction es generalizing s with
  | nil => simp only [run] at hr; cases hr; exact h
  | cons e es ih =>
    simp only [run] at hr
    split at hr
    · rename_i s1 hs1
      exact ih s1 (inv_step s s1 e h hs1) hr
    · cases hr

theorem inv_reachable (es : List Ev) (s : S) (hr : run {} es = some s) : Inv s :=
  inv_run {} s es inv_init hr

/-! ### consequences -/

/-- the i-th output line is the answer to the i-th input line: in every reachable state the printed
ids are 0,1,…,outputId-1 in this order -/
theorem outputs_in_input_order (es : List Ev) (s : S) (hr : run {} es = some s) :
    s.printed = List.range s.outputId :=
  (inv_reachable es s hr).printed_eq

/-- every accepted line is answered before the process exits: once `done` happened (at any point
of the trace, not necessarily as the last event) everything accepted has been printed -/
theorem all_answered_at_exit (es : List Ev) (s : S) (hr : run {} es = some s)
    (hf : s.finished = true) : s.outputId = s.nextId ∧ s.printed = List.range s.nextId := by
  have h := inv_reachable es s hr
  obtain ⟨_, _, hout⟩ := h.fin hf
  exact ⟨hout, hout ▸ h.printed_eq⟩

/-- after the exit nothing is left anywhere, and no further line is accepted -/
theorem nothing_left_at_exit (es : List Ev) (s : S) (hr : run {} es = some s)
    (hf : s.finished = true) :
    s.queue = [] ∧ s.inflight = [] ∧ s.channel = [] ∧ s.heap = [] ∧ s.stopped = true := by
  have h := inv_reachable es s hr
  obtain ⟨hst, hrem, _⟩ := h.fin hf
  have hr := h.remaining_eq
  exact ⟨List.eq_nil_of_length_eq_zero (by omega), List.eq_nil_of_length_eq_zero (by omega),
    List.eq_nil_of_length_eq_zero (by omega), heap_nil_of_finished h hf, hst⟩

/-- safety form of progress: while something accepted is unanswered, some event is enabled (the
system is never stuck with work pending), namely pull/send/recv/print of the next id to print -/
theorem pending_enables_progress (es : List Ev) (s : S) (hr : run {} es = some s)
    (hp : s.outputId < s.nextId) :
    ∃ e, (∃ id, e = .pull id ∨ e = .send id ∨ e = .recv id ∨ e = .print id) ∧ (step s e).isSome := by
  have h := inv_reachable es s hr
  have hc := partition_count h s.outputId
  rw [if_pos hp, h.printed_eq, count_range, if_neg (Nat.lt_irrefl _)] at hc
  have hrem := h.remaining_eq
  by_cases h1 : s.outputId ∈ s.queue
  · refine ⟨.pull s.outputId, ⟨_, .inl rfl⟩, ?_⟩
    simp [step, h1]
  by_cases h2 : s.outputId ∈ s.inflight
  · refine ⟨.send s.outputId, ⟨_, .inr (.inl rfl)⟩, ?_⟩
    simp [step, h2]
  by_cases h3 : s.outputId ∈ s.channel
  · refine ⟨.recv s.outputId, ⟨_, .inr (.inr (.inl rfl))⟩, ?_⟩
    have : 0 < s.channel.length := List.length_pos_of_mem h3
    have : 0 < s.remaining := by omega
    simp [step, h3, this]
  · refine ⟨.print s.outputId, ⟨_, .inr (.inr (.inr rfl))⟩, ?_⟩
    have hq := List.count_eq_zero.mpr h1
    have hi := List.count_eq_zero.mpr h2
    have hch := List.count_eq_zero.mpr h3
    have : s.outputId ∈ s.heap := List.count_pos_iff.mp (by omega)
    simp [step, this]

/-- more precisely: the enabled event concerns the next id to be printed, so the next output line
can always be brought one step closer -/
theorem next_output_can_advance (es : List Ev) (s : S) (hr : run {} es = some s)
    (hp : s.outputId < s.nextId) :
    (step s (.pull s.outputId)).isSome ∨ (step s (.send s.outputId)).isSome
      ∨ (step s (.recv s.outputId)).isSome ∨ (step s (.print s.outputId)).isSome := by
  have h := inv_reachable es s hr
  have hc := partition_count h s.outputId
  rw [if_pos hp, h.printed_eq, count_range, if_neg (Nat.lt_irrefl _)] at hc
  have hrem := h.remaining_eq
  by_cases h1 : s.outputId ∈ s.queue
  · left; simp [step, h1]
  by_cases h2 : s.outputId ∈ s.inflight
  · right; left; simp [step, h2]
  by_cases h3 : s.outputId ∈ s.channel
  · right; right; left
    have : 0 < s.channel.length := List.length_pos_of_mem h3
    have : 0 < s.remaining := by omega
    simp [step, h3, this]
  · right; right; right
    have hq := List.count_eq_zero.mpr h1
    have hi := List.count_eq_zero.mpr h2
    have hch := List.count_eq_zero.mpr h3
    have : s.outputId ∈ s.heap := List.count_pos_iff.mp (by omega)
    simp [step, this]

/-! ### non-vacuity -/

/-- two workers, three lines; the answers to lines 1 and 2 arrive before the answer to line 0, and
are held back in the heap until 0 has been printed -/
def demoTrace : List Ev :=
  [.push 0, .push 1, .pull 0, .pull 1, .send 1, .recv 1, .push 2, .pull 2, .send 2, .stop 3,
   .recv 2, .park, .send 0, .unpark, .recv 0, .print 0, .print 1, .print 2, .done 3]

example : run {} demoTrace =
    some { nextId := 3, outputId := 3, printed := [0, 1, 2], stopped := true, finished := true } := by
  decide

/-- out of order printing is rejected -/
example : run {} [.push 0, .push 1, .pull 0, .pull 1, .send 1, .recv 1, .print 1] = none := by
  decide

/-- leaving the waiting loop while an answer is outstanding is rejected -/
example : run {} [.push 0, .pull 0, .stop 1, .done 0] = none := by decide

end Stream
end Ddnnf
