/-
  Generic facts about the bottom-up pass `tableAux` / `table` / `val` of `Model/Basic.lean`:
  size, stability of already computed entries, the recursion equation `val_eq`, and the logical
  relation `table_rel` between two passes over the same node list.
-/
import DdnnfVerif.Model.Basic

namespace Ddnnf

/-! ### `Array.getD` helpers -/

theorem getD_push_lt {α} (acc : Array α) (x d : α) (j : Nat) (h : j < acc.size) :
    (acc.push x).getD j d = acc.getD j d := by
  have hne : j ≠ acc.size := by omega
  simp [Array.getD_eq_getD_getElem?, Array.getElem?_push, hne]

theorem getD_push_eq {α} (acc : Array α) (x d : α) :
    (acc.push x).getD acc.size d = x := by
  simp [Array.getD_eq_getD_getElem?]

theorem getD_of_ge {α} (acc : Array α) (d : α) (j : Nat) (h : acc.size ≤ j) :
    acc.getD j d = d := by
  simp [Array.getD_eq_getD_getElem?, Array.getElem?_eq_none h]

/-! ### size -/

theorem tableAux_size {α} (d : α) (f) (acc : Array α) (nodes : List NType) :
    (tableAux d f acc nodes).size = acc.size + nodes.length := by
  induction nodes generalizing acc with
  | nil => simp [tableAux]
  | cons nd rest ih => simp only [tableAux, ih, Array.size_push, List.length_cons]; omega

theorem table_size {α} (d : α) (f) (nodes : List NType) : (table d f nodes).size = nodes.length := by
  simp [table, tableAux_size]

theorem val_of_ge {α} (d : α) (f) (nodes : List NType) (i : Nat) (h : nodes.length ≤ i) :
    val d f nodes i = d := by
  unfold val
  exact getD_of_ge _ _ _ (by rw [table_size]; exact h)

/-! ### entries already computed never change -/

theorem tableAux_getD_acc {α} (d : α) (f) (acc : Array α) (nodes : List NType) (j : Nat)
    (h : j < acc.size) : (tableAux d f acc nodes).getD j d = acc.getD j d := by
  induction nodes generalizing acc with
  | nil => simp [tableAux]
  | cons nd rest ih =>
    simp only [tableAux]
    rw [ih _ (by simp only [Array.size_push]; omega)]
    exact getD_push_lt _ _ _ _ h

theorem tableAux_append {α} (d : α) (f) (acc : Array α) (pre post : List NType) :
    tableAux d f acc (pre ++ post) = tableAux d f (tableAux d f acc pre) post := by
  induction pre generalizing acc with
  | nil => simp [tableAux]
  | cons p ps ih => simp only [List.cons_append, tableAux, ih]

theorem val_append_left {α} (d : α) (f) (pre post : List NType) (i : Nat) (h : i < pre.length) :
    val d f (pre ++ post) i = val d f pre i := by
  unfold val table
  rw [tableAux_append]
  exact tableAux_getD_acc _ _ _ _ _ (by rw [tableAux_size]; simpa using h)

/-- value of the node directly after the prefix `pre` -/
theorem val_unfold {α} (d : α) (f) (pre : List NType) (nd : NType) (post : List NType) :
    val d f (pre ++ nd :: post) pre.length = f nd (fun j => val d f pre j) := by
  unfold val table
  rw [tableAux_append]
  simp only [tableAux]
  have hl : (tableAux d f #[] pre).size = pre.length := by simp [tableAux_size]
  rw [tableAux_getD_acc _ _ _ _ _ (by simp only [Array.size_push]; omega)]
  rw [← hl]
  exact getD_push_eq _ _ _

/-- recursion equation of the pass -/
theorem val_eq {α} (d : α) (f) (nodes : List NType) (i : Nat) (h : i < nodes.length) :
    val d f nodes i = f nodes[i] (fun j => if j < i then val d f nodes j else d) := by
  have hsplit : nodes = nodes.take i ++ nodes[i] :: nodes.drop (i + 1) := by
    rw [List.getElem_cons_drop, List.take_append_drop]
  have hlen : (nodes.take i).length = i := by simp; omega
  have h1 : val d f nodes i = f nodes[i] (fun j => val d f (nodes.take i) j) := by
    have := val_unfold d f (nodes.take i) nodes[i] (nodes.drop (i + 1))
    rw [← hsplit, hlen] at this
    exact this
  rw [h1]
  congr 1
  funext j
  by_cases hj : j < i
  · simp only [hj, if_true]
    have := val_append_left d f (nodes.take i) (nodes[i] :: nodes.drop (i + 1)) j (by omega)
    rw [← hsplit] at this
    exact this.symm
  · simp only [hj, if_false]
    exact val_of_ge _ _ _ _ (by omega)

/-! ### logical relation between two passes -/

theorem tableAux_rel {α β} (R : α → β → Prop) (da : α) (db : β)
    (fa : NType → (Nat → α) → α) (fb : NType → (Nat → β) → β) (hd : R da db)
    (hf : ∀ nd ga gb, (∀ j, R (ga j) (gb j)) → R (fa nd ga) (fb nd gb))
    (nodes : List NType) (accA : Array α) (accB : Array β) (hlen : accA.size = accB.size)
    (hacc : ∀ j, R (accA.getD j da) (accB.getD j db)) :
    ∀ j, R ((tableAux da fa accA nodes).getD j da) ((tableAux db fb accB nodes).getD j db) := by
  induction nodes generalizing accA accB with
  | nil => simpa [tableAux] using hacc
  | cons nd rest ih =>
    simp only [tableAux]
    apply ih
    · simp [hlen]
    · intro j
      have hnew := hf nd (fun j => accA.getD j da) (fun j => accB.getD j db) hacc
      by_cases h : j < accA.size
      · rw [getD_push_lt _ _ _ _ h, getD_push_lt _ _ _ _ (hlen ▸ h)]
        exact hacc j
      · by_cases h2 : j = accA.size
        · subst h2
          rw [getD_push_eq]
          rw [hlen, getD_push_eq]
          exact hnew
        · rw [getD_of_ge _ _ _ (by simp only [Array.size_push]; omega),
            getD_of_ge _ _ _ (by simp only [Array.size_push]; omega)]
          exact hd

/-- logical relation between two passes over the same node list -/
theorem table_rel {α β} (R : α → β → Prop) (da : α) (db : β)
    (fa : NType → (Nat → α) → α) (fb : NType → (Nat → β) → β) (hd : R da db)
    (hf : ∀ nd ga gb, (∀ j, R (ga j) (gb j)) → R (fa nd ga) (fb nd gb)) (nodes : List NType) :
    ∀ j, R (val da fa nodes j) (val db fb nodes j) := by
  unfold val table
  apply tableAux_rel R da db fa fb hd hf nodes #[] #[] rfl
  intro j
  simpa [Array.getD_eq_getD_getElem?] using hd

/-- a pointwise property of one pass (unary version of `table_rel`) -/
theorem table_inv {α} (P : α → Prop) (d : α) (f : NType → (Nat → α) → α) (hd : P d)
    (hf : ∀ nd g, (∀ j, P (g j)) → P (f nd g)) (nodes : List NType) : ∀ j, P (val d f nodes j) :=
  table_rel (fun a _ => P a) d d f f hd (fun nd ga _ h => hf nd ga h) nodes

/-- like `table_inv`, but the step only has to be shown for nodes that occur in the list -/
theorem table_inv_mem {α} (P : α → Prop) (d : α) (f : NType → (Nat → α) → α) (hd : P d)
    (nodes : List NType) (hf : ∀ nd ∈ nodes, ∀ g, (∀ j, P (g j)) → P (f nd g)) :
    ∀ j, P (val d f nodes j) := by
  intro j
  induction j using Nat.strongRecOn with
  | _ j ih =>
    by_cases h : j < nodes.length
    · rw [val_eq d f nodes j h]
      apply hf _ (List.getElem_mem h)
      intro k
      by_cases hk : k < j
      · simp only [hk, if_true]; exact ih k hk
      · simp only [hk, if_false]; exact hd
    · rw [val_of_ge d f nodes j (by omega)]; exact hd

/-- strong induction along the pass for topologically ordered circuits is available through
`val_eq`; this is the convenient packaged form: the value at `i` only depends on `nodes[i]` and
the values at smaller indices. -/
theorem val_congr_lt {α} (d : α) (f) (nodes : List NType) (i : Nat) (h : i < nodes.length)
    (g : Nat → α) (hg : ∀ j, j < i → g j = val d f nodes j) (hg' : ∀ j, i ≤ j → g j = d) :
    val d f nodes i = f nodes[i] g := by
  rw [val_eq d f nodes i h]
  congr 1
  funext j
  by_cases hj : j < i
  · simp [hj, hg j hj]
  · simp [hj, hg' j (by omega)]

end Ddnnf
