/-
  The character-level lexers read back what the writer writes (c2d) and the normal form of d4 lines.
-/
import DdnnfVerif.Model.Lex
import DdnnfVerif.Proofs.Persist
namespace Ddnnf.Lex

/-- the numbers of a node fit the integer types the lexer parses them into (`usize` for child indices
and the child count, `i32` for literals) -/
def NodeInRange : NType → Prop
  | .and cs => cs.length < 2 ^ 64 ∧ ∀ c ∈ cs, c < 2 ^ 64
  | .or cs => cs.length < 2 ^ 64 ∧ ∀ c ∈ cs, c < 2 ^ 64
  | .lit l => -(2 ^ 31 : Int) ≤ l ∧ l < 2 ^ 31
  | _ => True

def LineInRange : D4.Line → Prop
  | .node (.lit _) => False
  | .node _ => True
  | .edge a b fs => 1 ≤ a ∧ a < 2 ^ 31 ∧ 1 ≤ b ∧ b < 2 ^ 31 ∧ ∀ f ∈ fs, -(2 ^ 31 : Int) ≤ f ∧ f < 2 ^ 31

/-- decimal rendering of a natural number: non-empty, digits only, read back by `natOf` -/
theorem renderNat_spec (k : Nat) :
    renderNat k ≠ [] ∧ (∀ c ∈ renderNat k, c.isDigit = true) ∧ natOf (renderNat k) = k := by
  sorry

/-- **every node line the writer emits lexes back** (character level) to the node it was written from
(childless inner nodes come back as the constants they denote) -/
theorem lexC2d_writeNode (nd : NType) (h : NodeInRange nd) :
    lexC2d (renderTokLine (writeNode nd)) = .ok (.node (normalizeNode nd)) := by
  sorry

/-- the header line lexes back, also through the `trim` of `distribute_building` -/
theorem lexC2d_header (N n : Nat) (hN : N < 2 ^ 64) (hn : n < 2 ^ 64) :
    lexC2d (trimAscii (renderTokLine [.kw "nnf", natTk N, natTk 0, natTk n])) = .ok (.header N 0 n) := by
  sorry

/-- **the saved file read back at character level**: the lines `write_ddnnf_to_file` writes for a node
array parse (header test on the trimmed first line, lexer on every node line) to the feature count and
the nodes, exactly as the token-level `parseFile` of the C10 theorems -/
theorem parseC2dText_writeFile (nodes : List NType) (n : Nat) (hr : ∀ nd ∈ nodes, NodeInRange nd)
    (hlen : nodes.length < 2 ^ 64) (hn : n < 2 ^ 64) :
    parseC2dText ((writeFile nodes n).map renderTokLine) = some (n, nodes.map normalizeNode) := by
  sorry

theorem parseC2dText_eq_parseFile (nodes : List NType) (n : Nat) (hr : ∀ nd ∈ nodes, NodeInRange nd)
    (hlen : nodes.length < 2 ^ 64) (hn : n < 2 ^ 64) :
    parseC2dText ((writeFile nodes n).map renderTokLine) = parseFile (writeFile nodes n) := by
  sorry

/-- **a d4 line in normal form lexes to the line it denotes** -/
theorem lexD4_render (l : D4.Line) (k : Nat) (h : LineInRange l) : lexD4 (renderD4 l k) = .ok l := by
  sorry

/-- … hence a d4 text in normal form parses to its list of lines -/
theorem parseD4Text_render (ls : List (D4.Line × Nat)) (h : ∀ p ∈ ls, LineInRange p.1) :
    parseD4Text (ls.map fun p => renderD4 p.1 p.2) = some (ls.map (·.1)) := by
  sorry

end Ddnnf.Lex
