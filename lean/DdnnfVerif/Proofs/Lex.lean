/-
  The character-level lexers read back what the writer writes (c2d) and the normal form of d4 lines.
  Helper lemmas: Proofs/Lex0.lean (decimal rendering, token lines as characters), Lex1.lean (c2d
  combinators), Lex2.lean (d4 combinators).
-/
import DdnnfVerif.Model.Lex
import DdnnfVerif.Proofs.Persist
import DdnnfVerif.Proofs.Lex2
namespace Ddnnf.Lex

/-- the numbers of a node fit the integer types the lexer parses them into (`usize` for child indices
and the child count, `i32` for literals) -/
def NodeInRange : NType → Prop
  | .and cs => cs.length < 2 ^ 64 ∧ ∀ c ∈ cs, c < 2 ^ 64
  | .or cs => cs.length < 2 ^ 64 ∧ ∀ c ∈ cs, c < 2 ^ 64
  | .lit l => -(2 ^ 31 : Int) ≤ l ∧ l < 2 ^ 31
  | _ => True

def LineInRange : D4.Line → Prop
  | .node (.lit _) => False
  | .node _ => True
  | .edge a b fs => 1 ≤ a ∧ a < 2 ^ 31 ∧ 1 ≤ b ∧ b < 2 ^ 31 ∧ ∀ f ∈ fs, -(2 ^ 31 : Int) ≤ f ∧ f < 2 ^ 31

/-- decimal rendering of a natural number: non-empty, digits only, read back by `natOf` -/
theorem renderNat_spec (k : Nat) :
    renderNat k ≠ [] ∧ (∀ c ∈ renderNat k, c.isDigit = true) ∧ natOf (renderNat k) = k :=
  ⟨renderNat_ne_nil k, renderNat_digits k, natOf_renderNat k⟩

/-! ### c2d node lines -/

theorem zero_prefix (k : Nat) (rest : List Char) :
    ['0'].isPrefixOf (renderNat k ++ rest) = decide (k = 0) := by
  obtain ⟨c, r, h1, _, h3⟩ := renderNat_head k
  by_cases hk : k = 0
  · subst hk; rw [renderNat_zero]; simp [List.isPrefixOf]
  · have : ¬ ('0' = c) := fun e => hk (h3 e.symm)
    rw [h1]; simp [List.isPrefixOf, hk, this]

theorem A0_prefix (k : Nat) (rest : List Char) :
    "A 0".toList.isPrefixOf ('A' :: ' ' :: (renderNat k ++ rest)) = decide (k = 0) := by
  rw [← zero_prefix k rest]; rfl

theorem O00_prefix (k : Nat) (rest : List Char) :
    "O 0 0".toList.isPrefixOf ('O' :: ' ' :: '0' :: ' ' :: (renderNat k ++ rest)) = decide (k = 0) := by
  rw [← zero_prefix k rest]; rfl

theorem A0_prefix_ne (c : Char) (cs : List Char) (h : c ≠ 'A') : "A 0".toList.isPrefixOf (c :: cs) = false := by
  have e : "A 0".toList = ['A', ' ', '0'] := rfl
  rw [e]; simp [List.isPrefixOf, Ne.symm h]

theorem O00_prefix_ne (c : Char) (cs : List Char) (h : c ≠ 'O') : "O 0 0".toList.isPrefixOf (c :: cs) = false := by
  have e : "O 0 0".toList = ['O', ' ', '0', ' ', '0'] := rfl
  rw [e]; simp [List.isPrefixOf, Ne.symm h]

theorem line_and (cs : List Nat) : renderTokLine (writeNode (.and cs)) = 'A' :: spaced (cs.length :: cs) := by
  show renderTokLine (Tk.kw "A" :: natTk cs.length :: cs.map natTk) = _
  rw [renderTokLine_cons, List.flatMap_cons, flatMap_natTk, render_natTk, spaced_cons]
  rfl

theorem line_or (cs : List Nat) :
    renderTokLine (writeNode (.or cs)) = 'O' :: spaced (0 :: cs.length :: cs) := by
  show renderTokLine (Tk.kw "O" :: natTk 0 :: natTk cs.length :: cs.map natTk) = _
  rw [renderTokLine_cons, List.flatMap_cons, List.flatMap_cons, flatMap_natTk, render_natTk, render_natTk,
    spaced_cons, spaced_cons]
  simp [spaced]; rfl

theorem line_lit (l : Int) : renderTokLine (writeNode (.lit l)) = 'L' :: ' ' :: renderInt l := by
  show renderTokLine [Tk.kw "L", Tk.num l] = _
  rw [renderTokLine_cons]; simp [render_num]; rfl


theorem lexC2d_and (cs : List Nat) (h : NodeInRange (.and cs)) :
    lexC2d ('A' :: spaced (cs.length :: cs)) = .ok (.node (normalizeNode (.and cs))) := by
  have hr : ∀ x ∈ cs.length :: cs, x < 2 ^ 64 := by
    intro x hx; rcases List.mem_cons.1 hx with rfl | hx
    · exact h.1
    · exact h.2 x hx
  unfold lexC2d
  rw [lexHeader_fail _ _ (by decide), O00_prefix_ne _ _ (by decide)]
  simp only
  cases cs with
  | nil => rw [spaced_cons, A0_prefix]; rfl
  | cons c cs =>
    have hl : ¬ ((c :: cs).length = 0) := by simp
    rw [spaced_cons, A0_prefix, ← spaced_cons]
    simp only [hl, decide_false, Bool.false_eq_true, if_false, lexAnd, numbersAfter_spaced _ _ hr]
    rfl

theorem lexC2d_or (cs : List Nat) (h : NodeInRange (.or cs)) :
    lexC2d ('O' :: spaced (0 :: cs.length :: cs)) = .ok (.node (normalizeNode (.or cs))) := by
  have hr : ∀ x ∈ 0 :: cs.length :: cs, x < 2 ^ 64 := by
    intro x hx; rcases List.mem_cons.1 hx with rfl | hx
    · decide
    · rcases List.mem_cons.1 hx with rfl | hx
      · exact h.1
      · exact h.2 x hx
  have e : 'O' :: spaced (0 :: cs.length :: cs) = 'O' :: ' ' :: '0' :: ' ' :: (renderNat cs.length ++ spaced cs) := by
    rw [spaced_cons, spaced_cons, renderNat_zero]; rfl
  unfold lexC2d
  rw [lexHeader_fail _ _ (by decide), A0_prefix_ne _ _ (by decide), lexAnd_fail _ _ (by decide)]
  simp only
  cases cs with
  | nil => rw [e, O00_prefix]; rfl
  | cons c cs =>
    have hl : ¬ ((c :: cs).length = 0) := by simp
    rw [e, O00_prefix, ← e]
    simp only [hl, decide_false, Bool.false_eq_true, if_false, lexOr, numbersAfter_spaced _ _ hr]
    rfl

theorem lexC2d_lit (l : Int) (h : NodeInRange (.lit l)) :
    lexC2d ('L' :: ' ' :: renderInt l) = .ok (.node (.lit l)) := by
  unfold lexC2d
  rw [lexHeader_fail _ _ (by decide), A0_prefix_ne _ _ (by decide), O00_prefix_ne _ _ (by decide),
    lexAnd_fail _ _ (by decide), lexOr_fail _ _ (by decide)]
  exact lexLit_render l h

/-- **every node line the writer emits lexes back** (character level) to the node it was written from
(childless inner nodes come back as the constants they denote) -/
theorem lexC2d_writeNode (nd : NType) (h : NodeInRange nd) :
    lexC2d (renderTokLine (writeNode nd)) = .ok (.node (normalizeNode nd)) := by
  cases nd with
  | and cs => rw [line_and]; exact lexC2d_and cs h
  | or cs => rw [line_or]; exact lexC2d_or cs h
  | lit l => rw [line_lit]; exact lexC2d_lit l h
  | tru =>
    have : writeNode .tru = writeNode (.and []) := rfl
    rw [this, line_and]; exact lexC2d_and [] ⟨by decide, by simp⟩
  | fls =>
    have : writeNode .fls = writeNode (.or []) := rfl
    rw [this, line_or]; exact lexC2d_or [] ⟨by decide, by simp⟩

/-! ### the header -/

theorem not_whitespace_of_digit {c : Char} (h : c.isDigit = true) : c.isWhitespace = false := by
  cases hb : c.isWhitespace with
  | false => rfl
  | true =>
    simp only [Char.isWhitespace, Bool.or_eq_true, decide_eq_true_eq] at hb
    rcases hb with ((rfl | rfl) | rfl) | rfl <;> revert h <;> decide

theorem trimAscii_id (c d : Char) (mid : List Char) (hc : c.isWhitespace = false) (hd : d.isWhitespace = false) :
    trimAscii (c :: (mid ++ [d])) = c :: (mid ++ [d]) := by
  unfold trimAscii
  simp [List.dropWhile, hc, hd]

theorem line_header (N n : Nat) :
    renderTokLine [.kw "nnf", natTk N, natTk 0, natTk n] = 'n' :: 'n' :: 'f' :: spaced [N, 0, n] := by
  show renderTokLine (Tk.kw "nnf" :: [N, 0, n].map natTk) = _
  rw [renderTokLine_cons, flatMap_natTk]
  rfl

theorem trimAscii_header (N n : Nat) :
    trimAscii ('n' :: 'n' :: 'f' :: spaced [N, 0, n]) = 'n' :: 'n' :: 'f' :: spaced [N, 0, n] := by
  have hne := renderNat_ne_nil n
  obtain ⟨ini, d, hnd, hd⟩ : ∃ ini d, renderNat n = ini ++ [d] ∧ d.isDigit = true :=
    ⟨_, _, (List.dropLast_concat_getLast hne).symm, renderNat_digits n _ (List.getLast_mem hne)⟩
  have e : 'n' :: 'n' :: 'f' :: spaced [N, 0, n]
      = 'n' :: (('n' :: 'f' :: ' ' :: (renderNat N ++ ' ' :: (renderNat 0 ++ ' ' :: ini))) ++ [d]) := by
    simp [spaced_cons, spaced_nil, hnd]
  rw [e]
  exact trimAscii_id _ _ _ (by decide) (not_whitespace_of_digit hd)

theorem lexHeader_spaced (N n : Nat) (hN : N < 2 ^ 64) (hn : n < 2 ^ 64) :
    lexHeader ('n' :: 'n' :: 'f' :: spaced [N, 0, n]) = .ok (.header N 0 n) := by
  have hs : stripPrefix "nnf".toList ('n' :: 'n' :: 'f' :: spaced [N, 0, n]) = some (spaced [N, 0, n]) := by
    simp [stripPrefix, List.isPrefixOf]
  have hr : ∀ x ∈ [N, 0, n], x < 2 ^ 64 := by
    intro x hx; simp at hx; rcases hx with rfl | rfl | rfl <;> first | assumption | decide
  unfold lexHeader
  rw [hs]
  simp only [numbersAfter_spaced _ _ hr]

/-- the header line lexes back, also through the `trim` of `distribute_building` -/
theorem lexC2d_header (N n : Nat) (hN : N < 2 ^ 64) (hn : n < 2 ^ 64) :
    lexC2d (trimAscii (renderTokLine [.kw "nnf", natTk N, natTk 0, natTk n])) = .ok (.header N 0 n) := by
  rw [line_header, trimAscii_header]
  unfold lexC2d
  rw [lexHeader_spaced N n hN hn]

theorem mapM_writeNode (f : List Char → Option NType) (nodes : List NType)
    (hf : ∀ nd ∈ nodes, f (renderTokLine (writeNode nd)) = some (normalizeNode nd)) :
    ((nodes.map writeNode).map renderTokLine).mapM f = some (nodes.map normalizeNode) := by
  induction nodes with
  | nil => rfl
  | cons nd nodes ih =>
    have h1 := hf nd (by simp)
    have h2 := ih fun x hx => hf x (by simp [hx])
    simp only [List.map_cons, List.mapM_cons, h1, h2]
    rfl

/-- **the saved file read back at character level**: the lines `write_ddnnf_to_file` writes for a node
array parse (header test on the trimmed first line, lexer on every node line) to the feature count and
the nodes, exactly as the token-level `parseFile` of the C10 theorems -/
theorem parseC2dText_writeFile (nodes : List NType) (n : Nat) (hr : ∀ nd ∈ nodes, NodeInRange nd)
    (hlen : nodes.length < 2 ^ 64) (hn : n < 2 ^ 64) :
    parseC2dText ((writeFile nodes n).map renderTokLine) = some (n, nodes.map normalizeNode) := by
  unfold writeFile parseC2dText
  simp only [List.map_cons, lexC2d_header _ _ hlen hn]
  rw [mapM_writeNode _ nodes fun nd hnd => by simp only [lexC2d_writeNode nd (hr nd hnd)]]
  rfl

theorem parseC2dText_eq_parseFile (nodes : List NType) (n : Nat) (hr : ∀ nd ∈ nodes, NodeInRange nd)
    (hlen : nodes.length < 2 ^ 64) (hn : n < 2 ^ 64) :
    parseC2dText ((writeFile nodes n).map renderTokLine) = parseFile (writeFile nodes n) := by
  rw [parseC2dText_writeFile nodes n hr hlen hn, parse_write]

/-! ### d4 -/

theorem renderD4_edge (a b : Nat) (fs : List Int) (k : Nat) :
    renderD4 (.edge a b fs) k = edgeChars ((a : Int) :: (b : Int) :: fs) := by
  simp [renderD4, edgeChars, renderInt_natCast]

/-- **a d4 line in normal form lexes to the line it denotes** -/
theorem lexD4_render (l : D4.Line) (k : Nat) (h : LineInRange l) : lexD4 (renderD4 l k) = .ok l := by
  cases l with
  | edge a b fs =>
    obtain ⟨ha, ha', hb, hb', hf⟩ := h
    have hr : ∀ x ∈ (a : Int) :: (b : Int) :: fs, I32 x := by
      intro x hx
      rcases List.mem_cons.1 hx with rfl | hx
      · constructor <;> omega
      · rcases List.mem_cons.1 hx with rfl | hx
        · constructor <;> omega
        · exact hf x hx
    rw [renderD4_edge]
    unfold lexD4
    rw [lexEdge_edgeChars _ _ _ hr (by omega) (by omega)]
    simp
  | node g =>
    cases g with
    | lit l => exact absurd h (by simp [LineInRange])
    | or =>
      show lexD4 ('o' :: ' ' :: (renderNat k ++ [' ', '0'])) = _
      unfold lexD4
      rw [lexEdge_letter _ _ (by decide) (by decide)]
      simp [lexNodeLine_render]
    | and =>
      show lexD4 ('a' :: ' ' :: (renderNat k ++ [' ', '0'])) = _
      unfold lexD4
      rw [lexEdge_letter _ _ (by decide) (by decide)]
      simp [lexNodeLine_render]
    | tru =>
      show lexD4 ('t' :: ' ' :: (renderNat k ++ [' ', '0'])) = _
      unfold lexD4
      rw [lexEdge_letter _ _ (by decide) (by decide)]
      simp [lexNodeLine_render]
    | fls =>
      show lexD4 ('f' :: ' ' :: (renderNat k ++ [' ', '0'])) = _
      unfold lexD4
      rw [lexEdge_letter _ _ (by decide) (by decide)]
      simp [lexNodeLine_render]

/-- … hence a d4 text in normal form parses to its list of lines -/
theorem parseD4Text_render (ls : List (D4.Line × Nat)) (h : ∀ p ∈ ls, LineInRange p.1) :
    parseD4Text (ls.map fun p => renderD4 p.1 p.2) = some (ls.map (·.1)) := by
  unfold parseD4Text
  induction ls with
  | nil => rfl
  | cons p ls ih =>
    have h1 := lexD4_render p.1 p.2 (h p (by simp))
    have h2 := ih fun x hx => h x (by simp [hx])
    simp only [List.map_cons, List.mapM_cons, h1, h2]
    rfl

end Ddnnf.Lex
