/-
  The union-find abstraction of `Model/Atomic.lean` (`classOf`, `equivC`, `unionC`) behaves like a
  partition, the fold over pairs/groups maintains the class invariant `Good`, and the classes with
  at least two members, sorted, are exactly the equivalence classes with at least two members
  (`mem_sorted_classes`); in cross mode `dedupFirstAbs` keeps of every mirrored pair of classes
  the one whose first literal is negative (`mem_cross_out`).

  Everything here is relative to an abstract equivalence relation `R` on literals and a set `L` of
  admissible literals; `Proofs/Atomic.lean` instantiates `R` with "same value in every model
  containing the assumptions".
-/
import DdnnfVerif.Proofs.AtomicLists

namespace Ddnnf

/-- the relation a list of classes stands for: equal, or members of a common class -/
def Rel (cl : Classes) (x y : Int) : Prop := x = y ∨ ∃ c ∈ cl, x ∈ c ∧ y ∈ c

theorem Rel.symm {cl : Classes} {x y : Int} (h : Rel cl x y) : Rel cl y x := by
  rcases h with rfl | ⟨c, hc, hx, hy⟩
  · exact Or.inl rfl
  · exact Or.inr ⟨c, hc, hy, hx⟩

/-- the class invariant: the classes are pairwise disjoint, duplicate free, consist of admissible
literals that are pairwise related, and have at least two members -/
structure Good (R : Int → Int → Prop) (L : Int → Prop) (cl : Classes) : Prop where
  disj : cl.Pairwise (fun a b => ∀ x ∈ a, x ∉ b)
  nodup : ∀ c ∈ cl, c.Nodup
  mem : ∀ c ∈ cl, ∀ x ∈ c, L x
  rel : ∀ c ∈ cl, ∀ x ∈ c, ∀ y ∈ c, R x y
  two : ∀ c ∈ cl, 2 ≤ c.length

theorem good_nil (R : Int → Int → Prop) (L : Int → Prop) : Good R L [] :=
  ⟨List.Pairwise.nil, fun _ h => (by cases h), fun _ h => (by cases h), fun _ h => (by cases h),
    fun _ h => (by cases h)⟩

/-- in a list of pairwise disjoint classes a literal is a member of at most one class -/
theorem disj_uniq {cl : Classes} (h : cl.Pairwise (fun a b => ∀ x ∈ a, x ∉ b)) {c c' : List Int}
    (hc : c ∈ cl) (hc' : c' ∈ cl) {x : Int} (hx : x ∈ c) (hx' : x ∈ c') : c = c' := by
  induction cl with
  | nil => cases hc
  | cons a l ih =>
    rw [List.pairwise_cons] at h
    rcases List.mem_cons.mp hc with rfl | hcl <;> rcases List.mem_cons.mp hc' with rfl | hcl'
    · rfl
    · exact absurd hx' (h.1 c' hcl' x hx)
    · exact absurd hx (h.1 c hcl x hx')
    · exact ih h.2 hcl hcl'

/-! ### `classOf`, `equivC` -/

theorem classOf_cases (cl : Classes) (x : Int) :
    (classOf cl x ∈ cl ∧ x ∈ classOf cl x) ∨ (classOf cl x = [x] ∧ ∀ c ∈ cl, x ∉ c) := by
  unfold classOf
  cases h : cl.find? (fun c => c.contains x) with
  | some c =>
    left
    exact ⟨List.mem_of_find?_eq_some h, by simpa using List.find?_some h⟩
  | none =>
    right
    refine ⟨rfl, ?_⟩
    rw [List.find?_eq_none] at h
    intro c hc
    simpa using h c hc

theorem mem_classOf_self (cl : Classes) (x : Int) : x ∈ classOf cl x := by
  rcases classOf_cases cl x with h | h
  · exact h.2
  · rw [h.1]; exact List.mem_singleton.mpr rfl

theorem equivC_iff_mem (cl : Classes) (x y : Int) : equivC cl x y = true ↔ y ∈ classOf cl x := by
  simp [equivC]

theorem equivC_self (cl : Classes) (x : Int) : equivC cl x x = true :=
  (equivC_iff_mem cl x x).mpr (mem_classOf_self cl x)

theorem rel_of_equivC {cl : Classes} {x y : Int} (h : equivC cl x y = true) : Rel cl x y := by
  rw [equivC_iff_mem] at h
  rcases classOf_cases cl x with h1 | h1
  · exact Or.inr ⟨_, h1.1, h1.2, h⟩
  · rw [h1.1, List.mem_singleton] at h
    exact Or.inl h.symm

/-- any class of the list that meets `classOf cl x` is `classOf cl x` -/
theorem classOf_absorb {cl : Classes} (hd : cl.Pairwise (fun a b => ∀ x ∈ a, x ∉ b)) (x : Int)
    {c : List Int} (hc : c ∈ cl) {z : Int} (hz : z ∈ c) (hz' : z ∈ classOf cl x) :
    c = classOf cl x := by
  rcases classOf_cases cl x with h1 | h1
  · exact disj_uniq hd hc h1.1 hz hz'
  · rw [h1.1, List.mem_singleton] at hz'
    subst hz'
    exact absurd hz (h1.2 c hc)

theorem equivC_of_rel {cl : Classes} (hd : cl.Pairwise (fun a b => ∀ x ∈ a, x ∉ b)) {x y : Int}
    (h : Rel cl x y) : equivC cl x y = true := by
  rcases h with rfl | ⟨c, hc, hx, hy⟩
  · exact equivC_self cl x
  · rw [equivC_iff_mem, ← classOf_absorb hd x hc hx (mem_classOf_self cl x)]
    exact hy

/-- with the invariant, `equivC` decides the relation of the classes -/
theorem equivC_iff_rel {R : Int → Int → Prop} {L : Int → Prop} {cl : Classes} (hg : Good R L cl)
    (x y : Int) : equivC cl x y = true ↔ Rel cl x y :=
  ⟨rel_of_equivC, equivC_of_rel hg.disj⟩

theorem classOf_props {R : Int → Int → Prop} {L : Int → Prop} (hR : Equivalence R) {cl : Classes}
    (hg : Good R L cl) {x : Int} (hx : L x) :
    (classOf cl x).Nodup ∧ (∀ z ∈ classOf cl x, L z) ∧ (∀ z ∈ classOf cl x, R x z) := by
  rcases classOf_cases cl x with h1 | h1
  · exact ⟨hg.nodup _ h1.1, hg.mem _ h1.1, fun z hz => hg.rel _ h1.1 x h1.2 z hz⟩
  · rw [h1.1]
    refine ⟨by simp, ?_, ?_⟩
    · intro z hz; rw [List.mem_singleton] at hz; subst hz; exact hx
    · intro z hz; rw [List.mem_singleton] at hz; subst hz; exact hR.refl _

/-! ### `unionC` -/

/-- uniting two related admissible literals keeps the invariant, only enlarges the relation of
the classes, and relates the two literals -/
theorem unionC_good {R : Int → Int → Prop} {L : Int → Prop} (hR : Equivalence R) {cl : Classes}
    (hg : Good R L cl) {x y : Int} (hx : L x) (hy : L y) (hxy : R x y) :
    Good R L (unionC cl x y) ∧ (∀ a b, Rel cl a b → Rel (unionC cl x y) a b) ∧
      Rel (unionC cl x y) x y := by
  unfold unionC
  by_cases he : equivC cl x y = true
  · rw [if_pos he]
    exact ⟨hg, fun _ _ h => h, rel_of_equivC he⟩
  · rw [if_neg he]
    have hd := hg.disj
    obtain ⟨hxn, hxL, hxR⟩ := classOf_props hR hg hx
    obtain ⟨hyn, hyL, hyR⟩ := classOf_props hR hg hy
    have hxs := mem_classOf_self cl x
    have hys := mem_classOf_self cl y
    -- the two classes are disjoint
    have hdis : ∀ z ∈ classOf cl x, z ∉ classOf cl y := by
      intro z hzx hzy
      apply he
      rw [equivC_iff_mem]
      rcases classOf_cases cl x with h1 | h1
      · rw [classOf_absorb hd y h1.1 hzx hzy]
        exact hys
      · rw [h1.1, List.mem_singleton] at hzx
        subst hzx
        rcases classOf_cases cl y with h2 | h2
        · exact absurd hzy (h1.2 _ h2.1)
        · rw [h2.1, List.mem_singleton] at hzy
          subst hzy
          exact hxs
    have hrest : ∀ c, c ∈ cl.filter (fun c => !(c.contains x) && !(c.contains y)) ↔
        c ∈ cl ∧ x ∉ c ∧ y ∉ c := by
      intro c
      simp [List.mem_filter]
    -- the new class is disjoint from the remaining classes
    have hnew : ∀ c ∈ cl.filter (fun c => !(c.contains x) && !(c.contains y)),
        ∀ z ∈ classOf cl x ++ classOf cl y, z ∉ c := by
      intro c hc z hz hzc
      obtain ⟨hccl, hxc, hyc⟩ := (hrest c).mp hc
      rcases List.mem_append.mp hz with hz | hz
      · have := classOf_absorb hd x hccl hzc hz
        rw [this] at hxc
        exact hxc hxs
      · have := classOf_absorb hd y hccl hzc hz
        rw [this] at hyc
        exact hyc hys
    have hRx : ∀ z ∈ classOf cl x ++ classOf cl y, R x z := by
      intro z hz
      rcases List.mem_append.mp hz with hz | hz
      · exact hxR z hz
      · exact hR.trans hxy (hyR z hz)
    refine ⟨⟨?_, ?_, ?_, ?_, ?_⟩, ?_, ?_⟩
    · rw [List.pairwise_cons]
      exact ⟨fun c hc z hz => hnew c hc z hz, hd.filter _⟩
    · intro c hc
      rcases List.mem_cons.mp hc with rfl | hc
      · rw [List.nodup_append]
        exact ⟨hxn, hyn, fun a ha b hb hab => hdis a ha (hab ▸ hb)⟩
      · exact hg.nodup c ((hrest c).mp hc).1
    · intro c hc z hz
      rcases List.mem_cons.mp hc with rfl | hc
      · rcases List.mem_append.mp hz with hz | hz
        · exact hxL z hz
        · exact hyL z hz
      · exact hg.mem c ((hrest c).mp hc).1 z hz
    · intro c hc a ha b hb
      rcases List.mem_cons.mp hc with rfl | hc
      · exact hR.trans (hR.symm (hRx a ha)) (hRx b hb)
      · exact hg.rel c ((hrest c).mp hc).1 a ha b hb
    · intro c hc
      rcases List.mem_cons.mp hc with rfl | hc
      · rw [List.length_append]
        have h1 := List.length_pos_of_mem hxs
        have h2 := List.length_pos_of_mem hys
        omega
      · exact hg.two c ((hrest c).mp hc).1
    · intro a b hab
      rcases hab with rfl | ⟨c, hc, ha, hb⟩
      · exact Or.inl rfl
      · right
        by_cases hxc : x ∈ c
        · have := classOf_absorb hd x hc hxc hxs
          subst this
          exact ⟨_, List.mem_cons_self .., List.mem_append_left _ ha, List.mem_append_left _ hb⟩
        · by_cases hyc : y ∈ c
          · have := classOf_absorb hd y hc hyc hys
            subst this
            exact ⟨_, List.mem_cons_self .., List.mem_append_right _ ha,
              List.mem_append_right _ hb⟩
          · exact ⟨c, List.mem_cons_of_mem _ ((hrest c).mpr ⟨hc, hxc, hyc⟩), ha, hb⟩
    · exact Or.inr ⟨_, List.mem_cons_self .., List.mem_append_left _ hxs,
        List.mem_append_right _ hys⟩

/-! ### folds that maintain the invariant -/

/-- a fold whose steps keep the invariant, only enlarge the relation of the classes and relate
the related pairs of `T a`: so does the fold -/
theorem foldl_classes_inv {α} {R : Int → Int → Prop} {L : Int → Prop}
    (f : Classes → α → Classes) (T : α → List (Int × Int)) :
    ∀ (l : List α),
    (∀ a ∈ l, ∀ cl, Good R L cl → Good R L (f cl a) ∧ (∀ x y, Rel cl x y → Rel (f cl a) x y) ∧
      (∀ p ∈ T a, R p.1 p.2 → Rel (f cl a) p.1 p.2)) →
    ∀ cl, Good R L cl →
      Good R L (l.foldl f cl) ∧ (∀ x y, Rel cl x y → Rel (l.foldl f cl) x y) ∧
        (∀ a ∈ l, ∀ p ∈ T a, R p.1 p.2 → Rel (l.foldl f cl) p.1 p.2) := by
  intro l
  induction l with
  | nil =>
    intro _ cl hg
    exact ⟨hg, fun _ _ h => h, fun a ha => by cases ha⟩
  | cons a l ih =>
    intro hf cl hg
    obtain ⟨h1, h2, h3⟩ := hf a (List.mem_cons_self ..) cl hg
    obtain ⟨i1, i2, i3⟩ := ih (fun b hb => hf b (List.mem_cons_of_mem _ hb)) (f cl a) h1
    rw [List.foldl_cons]
    refine ⟨i1, fun x y h => i2 x y (h2 x y h), ?_⟩
    intro b hb p hp hr
    rcases List.mem_cons.mp hb with rfl | hb
    · exact i2 _ _ (h3 p hp hr)
    · exact i3 b hb p hp hr

/-- the fold over pairs with a step function that unites exactly the related pairs -/
theorem foldPairs_inv {R : Int → Int → Prop} {L : Int → Prop} (hR : Equivalence R)
    (f : Classes → Int × Int → Classes) (ps : List (Int × Int))
    (hL : ∀ p ∈ ps, L p.1 ∧ L p.2)
    (hf : ∀ cl, ∀ p ∈ ps,
      (R p.1 p.2 → f cl p = unionC cl p.1 p.2) ∧ (¬ R p.1 p.2 → f cl p = cl))
    (cl : Classes) (hg : Good R L cl) :
    Good R L (ps.foldl f cl) ∧ (∀ x y, Rel cl x y → Rel (ps.foldl f cl) x y) ∧
      (∀ p ∈ ps, R p.1 p.2 → Rel (ps.foldl f cl) p.1 p.2) := by
  have := foldl_classes_inv (R := R) (L := L) f (fun p => [p]) ps (by
    intro p hp cl hg
    by_cases hr : R p.1 p.2
    · rw [(hf cl p hp).1 hr]
      obtain ⟨h1, h2, h3⟩ := unionC_good hR hg (hL p hp).1 (hL p hp).2 hr
      refine ⟨h1, h2, ?_⟩
      intro q hq _
      rw [List.mem_singleton] at hq
      subst hq
      exact h3
    · rw [(hf cl p hp).2 hr]
      refine ⟨hg, fun _ _ h => h, ?_⟩
      intro q hq hrq
      rw [List.mem_singleton] at hq
      subst hq
      exact absurd hrq hr) cl hg
  refine ⟨this.1, this.2.1, ?_⟩
  intro p hp hr
  exact this.2.2 p hp p (List.mem_singleton.mpr rfl) hr

/-! ### the reported sets are the sorted equivalence classes -/

/-- `S` is the list of an equivalence class with at least two members, strictly sorted by `key` -/
def IsClass (R : Int → Int → Prop) (L : Int → Prop) (key : Int → Int) (S : List Int) : Prop :=
  S.Pairwise (fun a b => key a < key b) ∧ 2 ≤ S.length ∧ (∀ x ∈ S, L x) ∧
    (∀ x ∈ S, ∀ y ∈ S, R x y) ∧ ∀ y, L y → (∃ x ∈ S, R x y) → y ∈ S

theorem sortBy'_key_pairwise {R : Int → Int → Prop} {L : Int → Prop} (key : Int → Int)
    (lt : Int → Int → Bool) (hlt : ∀ a b, lt a b = true ↔ key a < key b)
    (hinj : ∀ x y, L x → L y → R x y → key x = key y → x = y)
    (c : List Int) (hn : c.Nodup) (hm : ∀ x ∈ c, L x) (hr : ∀ x ∈ c, ∀ y ∈ c, R x y) :
    (sortBy' lt c).Pairwise (fun a b => key a < key b) := by
  have h1 : (sortBy' lt c).Pairwise (fun a b => key a ≤ key b) := by
    apply sortBy'_pairwise lt (fun a b => key a ≤ key b)
    · intro a b c h1 h2; exact Int.le_trans h1 h2
    · intro a b h; have := (hlt a b).mp h; omega
    · intro a b h
      have : ¬ key a < key b := fun h' => by rw [(hlt a b).mpr h'] at h; cases h
      omega
  apply pairwise_strict_of_nodup _ _ _ _ h1 ((sortBy'_perm lt c).nodup_iff.mpr hn)
  intro a ha b hb hab hne
  rw [mem_sortBy'] at ha hb
  have : key a ≠ key b := fun h => hne (hinj a b (hm a ha) (hm b hb) (hr a ha b hb) h)
  omega

/-- the classes with at least two members, each sorted by `key`, are exactly the equivalence
classes of `R` on `L` with at least two members — provided the classes are complete (`hcomp`) -/
theorem mem_sorted_classes {R : Int → Int → Prop} {L : Int → Prop}
    (key : Int → Int) (lt : Int → Int → Bool) (hlt : ∀ a b, lt a b = true ↔ key a < key b)
    (hinj : ∀ x y, L x → L y → R x y → key x = key y → x = y)
    (cl : Classes) (hg : Good R L cl) (hcomp : ∀ x y, L x → L y → R x y → Rel cl x y)
    (S : List Int) :
    S ∈ (cl.filter (fun c => c.length ≥ 2)).map (sortBy' lt) ↔ IsClass R L key S := by
  have hsorted : ∀ c ∈ cl, (sortBy' lt c).Pairwise (fun a b => key a < key b) := fun c hc =>
    sortBy'_key_pairwise key lt hlt hinj c (hg.nodup c hc) (hg.mem c hc) (hg.rel c hc)
  constructor
  · intro h
    rw [List.mem_map] at h
    obtain ⟨c, hc, rfl⟩ := h
    rw [List.mem_filter] at hc
    obtain ⟨hc, hlen⟩ := hc
    refine ⟨hsorted c hc, ?_, ?_, ?_, ?_⟩
    · rw [length_sortBy']; simpa using hlen
    · intro x hx; rw [mem_sortBy'] at hx; exact hg.mem c hc x hx
    · intro x hx y hy; rw [mem_sortBy'] at hx hy; exact hg.rel c hc x hx y hy
    · rintro y hy ⟨x, hx, hxy⟩
      rw [mem_sortBy'] at hx ⊢
      rcases hcomp x y (hg.mem c hc x hx) hy hxy with rfl | ⟨c', hc', hx', hy'⟩
      · exact hx
      · rw [disj_uniq hg.disj hc hc' hx hx']; exact hy'
  · rintro ⟨hs, hlen, hL, hRS, hmax⟩
    match S, hs, hlen, hL, hRS, hmax with
    | x :: y :: rest, hs, hlen, hL, hRS, hmax =>
      have hxS : x ∈ x :: y :: rest := List.mem_cons_self ..
      have hyS : y ∈ x :: y :: rest := List.mem_cons_of_mem _ (List.mem_cons_self ..)
      have hne : x ≠ y := by
        rw [List.pairwise_cons] at hs
        have := hs.1 y (List.mem_cons_self ..)
        rintro rfl
        omega
      rcases hcomp x y (hL x hxS) (hL y hyS) (hRS x hxS y hyS) with h | ⟨c, hc, hxc, hyc⟩
      · exact absurd h hne
      · rw [List.mem_map]
        refine ⟨c, List.mem_filter.mpr ⟨hc, by simpa using hg.two c hc⟩, ?_⟩
        apply eq_of_pairwise_strict (fun a b => key a < key b) (fun a => by omega)
          (fun a b c h1 h2 => by omega) _ _ (hsorted c hc) hs
        intro z
        rw [mem_sortBy']
        constructor
        · intro hz
          exact hmax z (hg.mem c hc z hz) ⟨x, hxS, hg.rel c hc x hxc z hz⟩
        · intro hz
          rcases hcomp x z (hL x hxS) (hL z hz) (hRS x hxS z hz) with rfl | ⟨c', hc', hx', hz'⟩
          · exact hxc
          · rw [disj_uniq hg.disj hc hc' hxc hx']; exact hz'

/-- the sorted classes have pairwise distinct first elements -/
theorem sorted_classes_heads {R : Int → Int → Prop} {L : Int → Prop} (lt : Int → Int → Bool)
    (cl : Classes) (hg : Good R L cl) :
    ((cl.filter (fun c => c.length ≥ 2)).map (sortBy' lt)).Pairwise
      (fun a b => a.headD 0 ≠ b.headD 0) := by
  rw [List.pairwise_map]
  apply (hg.disj.filter _).imp_of_mem
  intro a b ha hb hab
  have ha' := hg.two a (List.mem_filter.mp ha).1
  have hb' := hg.two b (List.mem_filter.mp hb).1
  have h1 : (sortBy' lt a).headD 0 ∈ a := by
    rw [← mem_sortBy' lt]
    apply headD_mem
    intro h
    have := length_sortBy' lt a
    rw [h] at this
    simp at this
    omega
  have h2 : (sortBy' lt b).headD 0 ∈ b := by
    rw [← mem_sortBy' lt]
    apply headD_mem
    intro h
    have := length_sortBy' lt b
    rw [h] at this
    simp at this
    omega
  intro h
  rw [h] at h1
  exact hab _ h1 h2

/-! ### plain mode: the sets are sorted lexicographically, without repetition -/

theorem sortBy'_lexLt_pairwise (l : List (List Int)) (hnd : l.Nodup) :
    (sortBy' lexLt l).Pairwise (fun a b => lexLt a b = true) := by
  have h1 : (sortBy' lexLt l).Pairwise (fun a b => lexLt b a = false) :=
    sortBy'_pairwise lexLt (fun a b => lexLt b a = false)
      (fun a b c h1 h2 => lexLe_trans a b c h1 h2) (fun a b h => lexLt_asymm a b h)
      (fun a b h => h) l
  apply pairwise_strict_of_nodup _ _ _ _ h1 ((sortBy'_perm lexLt l).nodup_iff.mpr hnd)
  intro a _ b _ hab hne
  cases h : lexLt a b with
  | true => rfl
  | false => exact absurd (lexLt_total a b h hab) hne

/-! ### cross mode -/

theorem isClass_neg {R : Int → Int → Prop} {L : Int → Prop}
    (hLneg : ∀ x, L x → L (-x)) (hRneg : ∀ x y, L x → L y → R x y → R (-x) (-y))
    (S : List Int) (h : IsClass R L (fun a => (a.natAbs : Int)) S) :
    IsClass R L (fun a => (a.natAbs : Int)) (S.map (fun a => -a)) := by
  obtain ⟨hs, hlen, hL, hRS, hmax⟩ := h
  refine ⟨?_, ?_, ?_, ?_, ?_⟩
  · rw [List.pairwise_map]
    exact hs.imp (fun h => by simpa using h)
  · simpa using hlen
  · intro x hx
    rw [List.mem_map] at hx
    obtain ⟨a, ha, rfl⟩ := hx
    exact hLneg a (hL a ha)
  · intro x hx y hy
    rw [List.mem_map] at hx hy
    obtain ⟨a, ha, rfl⟩ := hx
    obtain ⟨b, hb, rfl⟩ := hy
    exact hRneg a b (hL a ha) (hL b hb) (hRS a ha b hb)
  · rintro y hy ⟨x, hx, hxy⟩
    rw [List.mem_map] at hx
    obtain ⟨a, ha, rfl⟩ := hx
    rw [List.mem_map]
    refine ⟨-y, hmax (-y) (hLneg y hy) ⟨a, ha, ?_⟩, by simp⟩
    have := hRneg (-a) y (hLneg a (hL a ha)) hy hxy
    simpa using this

theorem headD_map_neg (S : List Int) : (S.map (fun a => -a)).headD 0 = -(S.headD 0) := by
  cases S <;> simp

theorem sortBy'_headLt_pairwise (l : List (List Int))
    (hh : l.Pairwise (fun a b => a.headD 0 ≠ b.headD 0)) :
    (sortBy' headLt l).Pairwise (fun a b => headLt a b = true) := by
  have h1 : (sortBy' headLt l).Pairwise (fun a b => headLt b a = false) := by
    apply sortBy'_pairwise headLt (fun a b => headLt b a = false)
    · intro a b c h1 h2
      have e1 := headLt_iff b a
      have e2 := headLt_iff c b
      have e3 := headLt_iff c a
      rw [h1] at e1
      rw [h2] at e2
      cases h : headLt c a with
      | false => rfl
      | true =>
        rw [h] at e3
        simp only [Bool.false_eq_true, false_iff, true_iff] at e1 e2 e3
        omega
    · intro a b h
      have e1 := headLt_iff a b
      have e2 := headLt_iff b a
      rw [h] at e1
      cases h' : headLt b a with
      | false => rfl
      | true =>
        rw [h'] at e2
        simp only [true_iff] at e1 e2
        omega
    · intro a b h; exact h
  have h2 : (sortBy' headLt l).Pairwise (fun a b => a.headD 0 ≠ b.headD 0) :=
    (sortBy'_perm headLt l).symm.pairwise hh (fun h => Ne.symm h)
  apply (h1.and h2).imp
  intro a b hab
  have e1 := headLt_iff a b
  have e2 := headLt_iff b a
  rw [hab.1] at e2
  cases h : headLt a b with
  | true => rfl
  | false =>
    rw [h] at e1
    simp only [Bool.false_eq_true, false_iff] at e1 e2
    have := hab.2
    omega

/-- cross mode: after sorting the classes by `|·|`, sorting the sets by `(|first|, first)` and
`dedupFirstAbs`, a set is reported iff it is an equivalence class with at least two members whose
first literal (the one with the least `|·|`) is negative -/
theorem mem_cross_out {R : Int → Int → Prop} {L : Int → Prop}
    (hL0 : ¬ L 0) (hLneg : ∀ x, L x → L (-x))
    (hRneg : ∀ x y, L x → L y → R x y → R (-x) (-y)) (hnn : ∀ x, L x → ¬ R x (-x))
    (lt : Int → Int → Bool) (hlt : ∀ a b, lt a b = true ↔ a.natAbs < b.natAbs)
    (cl : Classes) (hg : Good R L cl) (hcomp : ∀ x y, L x → L y → R x y → Rel cl x y)
    (S : List Int) :
    S ∈ dedupFirstAbs (sortBy' headLt ((cl.filter (fun c => c.length ≥ 2)).map (sortBy' lt))) ↔
      (IsClass R L (fun a => (a.natAbs : Int)) S ∧ S.headD 0 < 0) := by
  have hinj : ∀ x y, L x → L y → R x y → ((x.natAbs : Int) = y.natAbs) → x = y := by
    intro x y hx _ hxy hk
    by_cases h : x = y
    · exact h
    · have : y = -x := by omega
      subst this
      exact absurd hxy (hnn x hx)
  have hmem := mem_sorted_classes (fun a => (a.natAbs : Int)) lt
    (fun a b => by rw [hlt]; omega) hinj cl hg hcomp
  have hsort := sortBy'_headLt_pairwise _ (sorted_classes_heads lt cl hg)
  rw [mem_dedupFirstAbs _ _ rfl hsort S]
  simp only [mem_sortBy', hmem]
  constructor
  · rintro ⟨hS, hfirst⟩
    refine ⟨hS, ?_⟩
    have hne : S ≠ [] := by
      intro h; have := hS.2.1; rw [h] at this; simp at this
    have hh : L (S.headD 0) := hS.2.2.1 _ (headD_mem S 0 hne)
    have h0 : S.headD 0 ≠ 0 := fun h => hL0 (h ▸ hh)
    by_cases hneg : S.headD 0 < 0
    · exact hneg
    · exfalso
      have := hfirst (S.map (fun a => -a)) (isClass_neg hLneg hRneg S hS)
      rw [headD_map_neg] at this
      exact this (by omega) (by omega)
  · rintro ⟨hS, hneg⟩
    refine ⟨hS, ?_⟩
    intro T _ habs hlt'
    omega

/-- of an equivalence class and its mirror image exactly one has a negative first literal -/
theorem isClass_head_neg_xor {R : Int → Int → Prop} {L : Int → Prop} (hL0 : ¬ L 0)
    (S : List Int) (hS : IsClass R L (fun a => (a.natAbs : Int)) S) :
    (S.headD 0 < 0 ∧ ¬ (S.map (fun a => -a)).headD 0 < 0) ∨
      (¬ S.headD 0 < 0 ∧ (S.map (fun a => -a)).headD 0 < 0) := by
  have hne : S ≠ [] := by
    intro h; have := hS.2.1; rw [h] at this; simp at this
  have hh : L (S.headD 0) := hS.2.2.1 _ (headD_mem S 0 hne)
  have h0 : S.headD 0 ≠ 0 := fun h => hL0 (h ▸ hh)
  rw [headD_map_neg]
  omega

end Ddnnf
