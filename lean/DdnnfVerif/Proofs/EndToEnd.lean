/-
  End to end for d4 input: text -> loader model -> query, stated over the denotation of the text.
-/
import DdnnfVerif.Proofs.LoadAll
import DdnnfVerif.Props.C02
import DdnnfVerif.Props.C03
import DdnnfVerif.Props.C04
import DdnnfVerif.Props.C05
namespace Ddnnf.D4

/-- the number of assignments to 1..n under which the text is true and all literals of `A` hold -/
def textCount (lines : List Line) (total : Nat) (A : List Int) : Nat :=
  ((allBits (load lines total).1).filter fun b =>
    evalB (assignOf b) (phase1B lines total).g ((phase1B lines total).g.kind.size + 1) 0 &&
      A.all (litTrue (assignOf b))).length

/-- the loaded array evaluates like the text, under every assignment -/
theorem conventions_eval (lines : List Line) (total : Nat) (h : conventionsB lines total = true)
    (σ : Assignment) :
    eval σ (load lines total).2.1 (rootIx (load lines total).2.1) =
      evalB σ (phase1B lines total).g ((phase1B lines total).g.kind.size + 1) 0 := by
  have c := conventionsB_conv lines total h
  have h1 := load_preserves_denotation lines total c.node c.nz _ c.acyc c.ok σ
  rw [h1, phase1B_eq]
  exact (evalB_eq_sem σ _ _ c.acyc (brank_lt_fuel _) 0).symm

theorem specCount_eq_textCount (lines : List Line) (total : Nat) (h : conventionsB lines total = true)
    (A : List Int) :
    specCount (load lines total).2.1 (load lines total).1 A = textCount lines total A := by
  have hp : ∀ b : List Bool,
      (eval (assignOf b) (load lines total).2.1 (rootIx (load lines total).2.1) &&
          A.all (litTrue (assignOf b))) =
        (evalB (assignOf b) (phase1B lines total).g ((phase1B lines total).g.kind.size + 1) 0 &&
          A.all (litTrue (assignOf b))) := fun b => by
    rw [conventions_eval lines total h (assignOf b)]
  exact congrArg List.length (List.filter_congr fun b _ => hp b)

theorem conventions2B_left (lines : List Line) (total : Nat) (h : conventions2B lines total = true) :
    conventionsB lines total = true := by
  unfold conventions2B at h
  rw [Bool.and_eq_true] at h
  exact h.1

/-- the text has a model among the assignments to 1..n -/
theorem textCount_nil_pos (lines : List Line) (total : Nat) (h : conventionsB lines total = true) :
    0 < textCount lines total [] := by
  have hs : satB (phase1B lines total).g (load lines total).1 = true := by
    unfold conventionsB at h
    simp only [Bool.and_eq_true] at h
    exact h.2
  unfold satB at hs
  rw [List.any_eq_true] at hs
  obtain ⟨b, hb, he⟩ := hs
  unfold textCount
  apply List.length_pos_of_mem (a := b)
  rw [List.mem_filter]
  exact ⟨hb, by rw [he]; rfl⟩

/-- **text → loader → `count`** -/
theorem loaded_count (lines : List Line) (total : Nat) (h : conventions2B lines total = true) :
    count (load lines total).2.1 (rootIx (load lines total).2.1) = textCount lines total [] := by
  rw [count_eq_specCount _ _ (conventions2B_sound lines total h).1,
    specCount_eq_textCount lines total (conventions2B_left lines total h)]

/-- **text → loader → `execute_query`**: for every d4 text that passes the conventions check and every
in-range assumption list, the count the loaded model reports is the number of assignments under which
the text is true and the assumptions hold -/
theorem loaded_execQuery (lines : List Line) (total : Nat) (h : conventions2B lines total = true)
    (A : List Int) (hA : InRange A (load lines total).1) :
    execQuery (load lines total).2.1 (load lines total).1 A = textCount lines total A := by
  obtain ⟨hwf, hu, _⟩ := conventions2B_sound lines total h
  rw [C02.count_under_assumptions_exact _ _ hwf hu A hA,
    specCount_eq_textCount lines total (conventions2B_left lines total h)]

/-- **text → loader → `sat`** -/
theorem loaded_satQuery (lines : List Line) (total : Nat) (h : conventions2B lines total = true)
    (A : List Int) (hA : InRange A (load lines total).1) :
    satQuery (load lines total).2.1 (load lines total).1 A = decide (0 < textCount lines total A) := by
  obtain ⟨hwf, hu, _⟩ := conventions2B_sound lines total h
  have hc := conventions2B_left lines total h
  have hpos : 0 < count (load lines total).2.1 (rootIx (load lines total).2.1) := by
    rw [loaded_count lines total h]; exact textCount_nil_pos lines total hc
  rw [C03.sat_agrees_with_models _ _ hwf hu hpos A hA, specCount_eq_textCount lines total hc]

/-- **text → loader → per-feature table**: row f of `card_of_each_feature` is the number of
assignments under which the text is true and feature f is selected -/
theorem loaded_feature_rows (lines : List Line) (total : Nat) (h : conventions2B lines total = true)
    (k : Nat) (hk : k < (load lines total).1) :
    (cardPD (load lines total).2.1 (load lines total).1).getD k 0 =
      textCount lines total [((k : Int) + 1)] := by
  obtain ⟨hwf, hu, _⟩ := conventions2B_sound lines total h
  rw [C04.row_is_single_literal_count _ _ hwf hu k hk,
    specCount_eq_textCount lines total (conventions2B_left lines total h)]

/-- one row per feature -/
theorem loaded_feature_rows_length (lines : List Line) (total : Nat) :
    (cardPD (load lines total).2.1 (load lines total).1).length = (load lines total).1 :=
  C04.one_row_per_feature _ _

/-- **text → loader → core / dead under assumptions**: literal l is reported exactly when adding it to
the (non-empty, in-range) assumption list leaves the number of models of the text unchanged -/
theorem loaded_core (lines : List Line) (total : Nat) (h : conventions2B lines total = true)
    (A : List Int) (hA : InRange A (load lines total).1) (hne : A ≠ []) (l : Int) :
    l ∈ coreDeadA (load lines total).2.1 (load lines total).1 A ↔
      (l ≠ 0 ∧ l.natAbs ≤ (load lines total).1 ∧
        textCount lines total (A ++ [l]) = textCount lines total A) := by
  obtain ⟨hwf, hu, _⟩ := conventions2B_sound lines total h
  have hc := conventions2B_left lines total h
  rw [C05.core_with_assumptions_exact _ _ hwf hu A hA hne l,
    specCount_eq_textCount lines total hc, specCount_eq_textCount lines total hc]

/-- every listed model contains l  iff  adding l to the empty assumption list leaves the count unchanged -/
theorem specCount_single_eq_iff (nodes : List NType) (n : Nat) (hwf : WF nodes n) (l : Int)
    (hl : l ≠ 0 ∧ l.natAbs ≤ n) :
    (∀ c ∈ models nodes (rootIx nodes), l ∈ c) ↔ specCount nodes n [l] = specCount nodes n [] := by
  have hA : InRange [l] n := by
    intro a ha; simp only [List.mem_singleton] at ha; subst ha; exact hl
  rw [specCount_eq_filter nodes n hwf [l] hA, specCount_eq_filter nodes n hwf [] (by intro a ha; cases ha)]
  have e : (models nodes (rootIx nodes)).filter (fun _ => true)
      = models nodes (rootIx nodes) := List.filter_eq_self.mpr (fun _ _ => rfl)
  simp only [List.all_cons, List.all_nil, Bool.and_true]
  rw [e, ← List.countP_eq_length_filter, List.countP_eq_length]
  simp

/-- **text → loader → core / dead without assumptions** (`C05.core_exact`, whose right-hand side "every
model contains l" is restated as "adding l leaves the number of models of the text unchanged") -/
theorem loaded_core_nil (lines : List Line) (total : Nat) (h : conventions2B lines total = true)
    (l : Int) :
    l ∈ coreDeadA (load lines total).2.1 (load lines total).1 [] ↔
      (l ≠ 0 ∧ l.natAbs ≤ (load lines total).1 ∧
        textCount lines total [l] = textCount lines total []) := by
  obtain ⟨hwf, hu, _⟩ := conventions2B_sound lines total h
  have hc := conventions2B_left lines total h
  have hpos : 0 < count (load lines total).2.1 (rootIx (load lines total).2.1) := by
    rw [loaded_count lines total h]; exact textCount_nil_pos lines total hc
  rw [coreDeadA_nil, C05.core_exact _ _ hwf hu hpos l, ← specCount_eq_textCount lines total hc,
    ← specCount_eq_textCount lines total hc]
  constructor
  · rintro ⟨h1, h2, h3⟩
    exact ⟨h1, h2, (specCount_single_eq_iff _ _ hwf l ⟨h1, h2⟩).mp h3⟩
  · rintro ⟨h1, h2, h3⟩
    exact ⟨h1, h2, (specCount_single_eq_iff _ _ hwf l ⟨h1, h2⟩).mpr h3⟩

/-- core / dead report for every in-range assumption list, empty or not -/
theorem loaded_core_any (lines : List Line) (total : Nat) (h : conventions2B lines total = true)
    (A : List Int) (hA : InRange A (load lines total).1) (l : Int) :
    l ∈ coreDeadA (load lines total).2.1 (load lines total).1 A ↔
      (l ≠ 0 ∧ l.natAbs ≤ (load lines total).1 ∧
        textCount lines total (A ++ [l]) = textCount lines total A) := by
  cases A with
  | nil => exact loaded_core_nil lines total h l
  | cons a A => exact loaded_core lines total h (a :: A) hA (by simp) l

end Ddnnf.D4
