/-
  End to end for d4 input: text -> loader model -> query, stated over the denotation of the text.
-/
import DdnnfVerif.Proofs.LoadAll
import DdnnfVerif.Props.C02
import DdnnfVerif.Props.C03
namespace Ddnnf.D4

/-- the number of assignments to 1..n under which the text is true and all literals of `A` hold -/
def textCount (lines : List Line) (total : Nat) (A : List Int) : Nat :=
  ((allBits (load lines total).1).filter fun b =>
    evalB (assignOf b) (phase1B lines total).g ((phase1B lines total).g.kind.size + 1) 0 &&
      A.all (litTrue (assignOf b))).length

/-- the loaded array evaluates like the text, under every assignment -/
theorem conventions_eval (lines : List Line) (total : Nat) (h : conventionsB lines total = true)
    (σ : Assignment) :
    eval σ (load lines total).2.1 (rootIx (load lines total).2.1) =
      evalB σ (phase1B lines total).g ((phase1B lines total).g.kind.size + 1) 0 := by
  have c := conventionsB_conv lines total h
  have h1 := load_preserves_denotation lines total c.node c.nz _ c.acyc c.ok σ
  rw [h1, phase1B_eq]
  exact (evalB_eq_sem σ _ _ c.acyc (brank_lt_fuel _) 0).symm

theorem specCount_eq_textCount (lines : List Line) (total : Nat) (h : conventionsB lines total = true)
    (A : List Int) :
    specCount (load lines total).2.1 (load lines total).1 A = textCount lines total A := by
  sorry

/-- **text → loader → `execute_query`**: for every d4 text that passes the conventions check and every
in-range assumption list, the count the loaded model reports is the number of assignments under which
the text is true and the assumptions hold -/
theorem loaded_execQuery (lines : List Line) (total : Nat) (h : conventions2B lines total = true)
    (A : List Int) (hA : InRange A (load lines total).1) :
    execQuery (load lines total).2.1 (load lines total).1 A = textCount lines total A := by
  sorry

/-- **text → loader → `sat`** -/
theorem loaded_satQuery (lines : List Line) (total : Nat) (h : conventions2B lines total = true)
    (A : List Int) (hA : InRange A (load lines total).1) :
    satQuery (load lines total).2.1 (load lines total).1 A = decide (0 < textCount lines total A) := by
  sorry

end Ddnnf.D4
