/-
  Incremental edit by a unit clause (`Model/Edit.lean`):
  * `reflatten` keeps the value and the count of the root;
  * `models_prune`: deleting the leaf `-f` with its chains of and-ancestors keeps exactly the listed
    models without `-f`;
  * `addUnitOld_eval`, `addUnitOld_count`, `removed_root_unsat`: old feature;
  * `addUnitNew_spec`: new feature.
-/
import DdnnfVerif.Model.Edit
import DdnnfVerif.Proofs.CountA
import DdnnfVerif.Proofs.Flatten

namespace Ddnnf

/-! ### a pass over a node-wise mapped array -/

theorem tableAux_map_inv {α} (d : α) (f : NType → (Nat → α) → α) (φ : NType → NType)
    (hf : ∀ nd g, f (φ nd) g = f nd g) (nodes : List NType) (acc : Array α) :
    tableAux d f acc (nodes.map φ) = tableAux d f acc nodes := by
  induction nodes generalizing acc with
  | nil => rfl
  | cons nd rest ih => simp only [List.map_cons, tableAux, hf, ih]

theorem val_map_inv {α} (d : α) (f : NType → (Nat → α) → α) (φ : NType → NType)
    (hf : ∀ nd g, f (φ nd) g = f nd g) (nodes : List NType) (i : Nat) :
    val d f (nodes.map φ) i = val d f nodes i := by
  unfold val table
  rw [tableAux_map_inv d f φ hf]

theorem rootIx_map (φ : NType → NType) (nodes : List NType) :
    rootIx (nodes.map φ) = rootIx nodes := by
  simp [rootIx]

/-- a node-wise map that does not add children keeps the topological order -/
theorem topo_map (φ : NType → NType) (hφ : ∀ nd, ∀ c ∈ children (φ nd), c ∈ children nd)
    (nodes : List NType) (htopo : Topo nodes) : Topo (nodes.map φ) := by
  intro i hi c hc
  have hi' : i < nodes.length := by simpa using hi
  rw [List.getElem_map] at hc
  exact htopo i hi' c (hφ _ c hc)

/-! ### `reflatten` -/

theorem fEval_revCh (σ : Assignment) (nd : NType) (g : Nat → Bool) :
    fEval σ (revCh nd) g = fEval σ nd g := by
  cases nd with
  | and cs => exact (fEval_reverse σ cs g).1
  | or cs => exact (fEval_reverse σ cs g).2
  | lit l => rfl
  | tru => rfl
  | fls => rfl

theorem fCount_revCh (nd : NType) (g : Nat → Nat) : fCount (revCh nd) g = fCount nd g := by
  cases nd with
  | and cs => exact (fCount_reverse cs g).1
  | or cs => exact (fCount_reverse cs g).2
  | lit l => rfl
  | tru => rfl
  | fls => rfl

theorem children_revCh (nd : NType) : children (revCh nd) = (children nd).reverse := by
  cases nd <;> rfl

theorem topo_revCh (nodes : List NType) (htopo : Topo nodes) : Topo (nodes.map revCh) :=
  topo_map revCh (fun nd c hc => by rw [children_revCh] at hc; exact List.mem_reverse.mp hc)
    nodes htopo

theorem reflatten_eval (nodes : List NType) (htopo : Topo nodes) (hne : nodes ≠ [])
    (σ : Assignment) :
    eval σ (reflatten nodes) (rootIx (reflatten nodes)) = eval σ nodes (rootIx nodes) := by
  unfold reflatten
  rw [flatten_eval _ (topo_revCh nodes htopo) (fun h => hne (List.map_eq_nil_iff.mp h)) σ,
    rootIx_map]
  exact val_map_inv false (fEval σ) revCh (fEval_revCh σ) nodes _

theorem reflatten_count (nodes : List NType) (htopo : Topo nodes) (hne : nodes ≠ []) :
    count (reflatten nodes) (rootIx (reflatten nodes)) = count nodes (rootIx nodes) := by
  unfold reflatten
  rw [flatten_count _ (topo_revCh nodes htopo) (fun h => hne (List.map_eq_nil_iff.mp h)),
    rootIx_map]
  exact val_map_inv 0 fCount revCh fCount_revCh nodes _

/-! ### the models of a removed node all contain `-f` -/

/-- every configuration of a product contains a configuration of every factor -/
theorem prodConfigs_sub (ls : List (List Config)) (L : List Config) (hL : L ∈ ls) :
    ∀ c ∈ prodConfigs ls, ∃ d ∈ L, ∀ x ∈ d, x ∈ c := by
  induction ls with
  | nil => cases hL
  | cons l rest ih =>
    intro c hc
    obtain ⟨tl, htl, hd, hhd, rfl⟩ := (mem_prodConfigs_cons _ _ _).mp hc
    rcases List.mem_cons.mp hL with rfl | hL'
    · exact ⟨hd, hhd, fun x hx => List.mem_append.mpr (Or.inr hx)⟩
    · obtain ⟨d, hd', hsub⟩ := ih hL' tl htl
      exact ⟨d, hd', fun x hx => List.mem_append.mpr (Or.inl (hsub x hx))⟩

theorem removed_models (nodes : List NType) (f : Int) (i : Nat)
    (hr : removedBy nodes f i = true) : ∀ c ∈ models nodes i, -f ∈ c := by
  revert hr
  unfold removedBy models
  apply table_rel (fun (b : Bool) (ms : List Config) => b = true → ∀ c ∈ ms, -f ∈ c)
    false [] (fRemoved f) fModels (by intro h; cases h)
  intro nd ga gb h
  cases nd with
  | and cs =>
    intro hany c hc
    change cs.any ga = true at hany
    change c ∈ prodConfigs (cs.map gb) at hc
    rw [List.any_eq_true] at hany
    obtain ⟨x, hx, hgx⟩ := hany
    obtain ⟨d, hd, hsub⟩ := prodConfigs_sub (cs.map gb) (gb x) (List.mem_map.mpr ⟨x, hx, rfl⟩) c hc
    exact hsub _ (h x hgx d hd)
  | or cs => intro hh; cases hh
  | lit l =>
    intro hl c hc
    change (l == -f) = true at hl
    change c ∈ [[l]] at hc
    rw [List.mem_singleton] at hc
    subst hc
    have : l = -f := by simpa using hl
    rw [this]
    exact List.mem_singleton.mpr rfl
  | tru => intro hh; cases hh
  | fls => intro hh; cases hh

/-! ### filtering a product of configuration lists -/

/-- the filter "does not contain `x`" -/
def lacks (x : Int) (c : Config) : Bool := !c.contains x

theorem lacks_append (x : Int) (a b : Config) : lacks x (a ++ b) = (lacks x a && lacks x b) := by
  unfold lacks
  by_cases ha : x ∈ a <;> by_cases hb : x ∈ b <;> simp [ha, hb]

theorem filter_lacks_map_append (x : Int) (t : Config) (l : List Config) :
    (l.map (fun hd => t ++ hd)).filter (lacks x)
      = if lacks x t then (l.filter (lacks x)).map (fun hd => t ++ hd) else [] := by
  induction l with
  | nil => simp
  | cons a l ih =>
    rw [List.map_cons, List.filter_cons, ih, lacks_append, List.filter_cons]
    by_cases ht : lacks x t = true <;> by_cases ha : lacks x a = true <;> simp [ht, ha]

theorem filter_prodConfigs (x : Int) (ls : List (List Config)) :
    (prodConfigs ls).filter (lacks x) = prodConfigs (ls.map (List.filter (lacks x))) := by
  induction ls with
  | nil => simp [prodConfigs, lacks]
  | cons l rest ih =>
    simp only [List.map_cons, prodConfigs]
    rw [← ih]
    generalize prodConfigs rest = P
    induction P with
    | nil => simp
    | cons t P ihP =>
      rw [List.flatMap_cons, List.filter_append, ihP, filter_lacks_map_append, List.filter_cons]
      by_cases ht : lacks x t = true
      · simp [ht]
      · simp [ht]

theorem flatten_map_filter_nil {β} (cs : List Nat) (q : Nat → Bool) (h : Nat → List β)
    (hnil : ∀ c ∈ cs, q c = false → h c = []) :
    ((cs.filter q).map h).flatten = (cs.map h).flatten := by
  induction cs with
  | nil => rfl
  | cons c cs ih =>
    have ih' := ih (fun x hx => hnil x (List.mem_cons_of_mem _ hx))
    rw [List.filter_cons]
    by_cases hq : q c = true
    · simp [hq, ih']
    · have hq' : q c = false := by simpa using hq
      simp [hq', ih', hnil c (List.mem_cons_self ..) hq']

/-! ### pruning keeps exactly the models without `-f` -/

theorem children_pruneNode (r : Nat → Bool) (nd : NType) :
    ∀ c ∈ children (pruneNode r nd), c ∈ children nd := by
  cases nd with
  | and cs => intro c hc; exact (List.mem_filter.mp hc).1
  | or cs => intro c hc; exact (List.mem_filter.mp hc).1
  | lit l => intro c hc; exact hc
  | tru => intro c hc; exact hc
  | fls => intro c hc; exact hc

theorem models_prune (nodes : List NType) (htopo : Topo nodes) (f : Int) (i : Nat)
    (hi : removedBy nodes f i = false) :
    models (nodes.map (pruneNode (removedBy nodes f))) i =
      (models nodes i).filter (fun c => !c.contains (-f)) := by
  show _ = (models nodes i).filter (lacks (-f))
  induction i using Nat.strongRecOn with
  | _ i ih =>
    by_cases h : i < nodes.length
    · have h' : i < (nodes.map (pruneNode (removedBy nodes f))).length := by simpa using h
      have hP : models (nodes.map (pruneNode (removedBy nodes f))) i
          = fModels (pruneNode (removedBy nodes f) nodes[i])
              (fun j => if j < i then models (nodes.map (pruneNode (removedBy nodes f))) j
                else []) := by
        have := val_eq [] fModels (nodes.map (pruneNode (removedBy nodes f))) i h'
        rw [List.getElem_map] at this
        exact this
      have hm : models nodes i
          = fModels nodes[i] (fun j => if j < i then models nodes j else []) :=
        val_eq [] fModels nodes i h
      have hr : removedBy nodes f i
          = fRemoved f nodes[i] (fun j => if j < i then removedBy nodes f j else false) :=
        val_eq false (fRemoved f) nodes i h
      have hlt : ∀ x ∈ children nodes[i], x < i := htopo i h
      rw [hr] at hi
      rw [hP, hm]
      cases hnd : nodes[i] with
      | and cs =>
        rw [hnd] at hi hlt
        change cs.any _ = false at hi
        have hnr : ∀ x ∈ cs, removedBy nodes f x = false := by
          intro x hx
          have := List.any_eq_false.mp hi x hx
          simpa [hlt x hx] using this
        have hfil : cs.filter (fun c => !removedBy nodes f c) = cs := by
          rw [List.filter_eq_self]
          intro x hx
          simp [hnr x hx]
        show prodConfigs ((cs.filter _).map _) = (prodConfigs (cs.map _)).filter _
        rw [hfil, filter_prodConfigs, List.map_map]
        congr 1
        apply List.map_congr_left
        intro x hx
        simp only [Function.comp, hlt x hx, if_true]
        exact ih x (hlt x hx) (hnr x hx)
      | or cs =>
        rw [hnd] at hlt
        show (((cs.filter _).map _).flatten) = ((cs.map _).flatten).filter _
        rw [List.filter_flatten, List.map_map]
        have e1 : (cs.filter (fun c => !removedBy nodes f c)).map
              (fun j => if j < i then models (nodes.map (pruneNode (removedBy nodes f))) j else [])
            = (cs.filter (fun c => !removedBy nodes f c)).map
              (List.filter (lacks (-f)) ∘ fun j => if j < i then models nodes j else []) := by
          apply List.map_congr_left
          intro x hx
          obtain ⟨hx1, hx2⟩ := List.mem_filter.mp hx
          simp only [Function.comp, hlt x hx1, if_true]
          exact ih x (hlt x hx1) (by simpa using hx2)
        rw [e1]
        apply flatten_map_filter_nil
        intro x hx hq
        have hrx : removedBy nodes f x = true := by simpa using hq
        simp only [Function.comp, hlt x hx, if_true]
        rw [List.filter_eq_nil_iff]
        intro c hc
        have := removed_models nodes f x hrx c hc
        simp [lacks, this]
      | lit l =>
        rw [hnd] at hi
        change (l == -f) = false at hi
        show [[l]] = ([[l]] : List Config).filter _
        have : lacks (-f) [l] = true := by
          have hne : ¬ l = -f := by simpa using hi
          have hne' : ¬ -f = l := fun h => hne h.symm
          simp [lacks, hne']
        simp [this]
      | tru =>
        show [[]] = ([[]] : List Config).filter _
        simp [lacks]
      | fls =>
        show [] = ([] : List Config).filter _
        rfl
    · have h1 : models nodes i = [] := val_of_ge _ _ _ _ (by omega)
      have h2 : models (nodes.map (pruneNode (removedBy nodes f))) i = [] :=
        val_of_ge _ _ _ _ (by simp; omega)
      rw [h1, h2]
      rfl

/-! ### unit clause over an old feature -/

theorem topo_prune (nodes : List NType) (htopo : Topo nodes) (r : Nat → Bool) :
    Topo (nodes.map (pruneNode r)) :=
  topo_map (pruneNode r) (children_pruneNode r) nodes htopo

theorem addUnit_old (nodes : List NType) (n : Nat) (f : Int) (hf : f.natAbs ≤ n) :
    addUnit nodes n f = (n, addUnitOld nodes f) := by
  unfold addUnit
  rw [if_pos hf]

theorem Complete.neg_mem_iff' {n : Nat} {c : Config} (hc : Complete n c) {f : Int}
    (hf : f ≠ 0 ∧ f.natAbs ≤ n) : -f ∈ c ↔ f ∉ c :=
  ⟨fun h1 h2 => hc.not_both h2 h1, fun h => (hc.mem_or hf.1 hf.2).resolve_left h⟩

theorem Complete.lacks_neg {n : Nat} {c : Config} (hc : Complete n c) {f : Int}
    (hf : f ≠ 0 ∧ f.natAbs ≤ n) : lacks (-f) c = c.contains f := by
  unfold lacks
  by_cases h : f ∈ c
  · have : ¬ -f ∈ c := fun h' => (hc.neg_mem_iff' hf).mp h' h
    simp [h, this]
  · have : -f ∈ c := (hc.neg_mem_iff' hf).mpr h
    simp [h, this]

theorem addUnitOld_eval (nodes : List NType) (n : Nat) (h : WF nodes n) (f : Int)
    (hf : f ≠ 0 ∧ f.natAbs ≤ n) (hroot : removedBy nodes f (rootIx nodes) = false)
    (σ : Assignment) :
    eval σ (addUnit nodes n f).2 (rootIx (addUnit nodes n f).2) =
      (eval σ nodes (rootIx nodes) && litTrue σ f) := by
  rw [addUnit_old nodes n f hf.2]
  show eval σ (addUnitOld nodes f) (rootIx (addUnitOld nodes f)) = _
  unfold addUnitOld
  rw [reflatten_eval _ (topo_prune nodes h.topo _)
    (fun he => h.nonempty (List.map_eq_nil_iff.mp he)) σ, rootIx_map]
  rw [Bool.eq_iff_iff, Bool.and_eq_true, eval_iff_models, eval_iff_models,
    models_prune nodes h.topo f _ hroot]
  constructor
  · rintro ⟨c, hc, hs⟩
    obtain ⟨hc1, hc2⟩ := List.mem_filter.mp hc
    have hcomp := root_models_complete nodes n h c hc1
    have hl : lacks (-f) c = true := hc2
    rw [hcomp.lacks_neg hf] at hl
    have hfc : f ∈ c := by simpa using hl
    exact ⟨⟨c, hc1, hs⟩, (litTrue_iff_mem_complete hcomp σ hs hf.1 hf.2).mpr hfc⟩
  · rintro ⟨⟨c, hc, hs⟩, ht⟩
    have hcomp := root_models_complete nodes n h c hc
    have hfc : f ∈ c := (litTrue_iff_mem_complete hcomp σ hs hf.1 hf.2).mp ht
    have hl : lacks (-f) c = true := by
      rw [hcomp.lacks_neg hf]
      simpa using hfc
    exact ⟨c, List.mem_filter.mpr ⟨hc, hl⟩, hs⟩

theorem addUnitOld_count (nodes : List NType) (n : Nat) (h : WF nodes n) (f : Int)
    (hf : f ≠ 0 ∧ f.natAbs ≤ n) (hroot : removedBy nodes f (rootIx nodes) = false) :
    count (addUnit nodes n f).2 (rootIx (addUnit nodes n f).2) = specCount nodes n [f] ∧
      (addUnit nodes n f).1 = n := by
  rw [addUnit_old nodes n f hf.2]
  refine ⟨?_, rfl⟩
  show count (addUnitOld nodes f) (rootIx (addUnitOld nodes f)) = _
  unfold addUnitOld
  have hA : InRange [f] n := by
    intro a ha
    rw [List.mem_singleton] at ha
    subst ha
    exact hf
  rw [reflatten_count _ (topo_prune nodes h.topo _)
    (fun he => h.nonempty (List.map_eq_nil_iff.mp he)), rootIx_map, count_eq_length_models,
    models_prune nodes h.topo f _ hroot, specCount_eq_filter nodes n h [f] hA]
  congr 1
  apply List.filter_congr
  intro c hc
  have hcomp := root_models_complete nodes n h c hc
  show lacks (-f) c = _
  rw [hcomp.lacks_neg hf]
  simp

theorem removed_root_unsat (nodes : List NType) (n : Nat) (h : WF nodes n) (f : Int)
    (hf : f ≠ 0 ∧ f.natAbs ≤ n) (hroot : removedBy nodes f (rootIx nodes) = true) :
    specCount nodes n [f] = 0 := by
  have hA : InRange [f] n := by
    intro a ha
    rw [List.mem_singleton] at ha
    subst ha
    exact hf
  rw [specCount_eq_filter nodes n h [f] hA, List.length_eq_zero_iff, List.filter_eq_nil_iff]
  intro c hc hall
  have hfc : f ∈ c := by simpa using hall
  exact (root_models_complete nodes n h c hc).not_both hfc
    (removed_models nodes f _ hroot c hc)

/-! ### unit clause over a new feature -/

theorem topo_snoc (xs : List NType) (nd : NType) :
    Topo (xs ++ [nd]) ↔ Topo xs ∧ ∀ c ∈ children nd, c < xs.length := by
  constructor
  · intro h
    refine ⟨?_, ?_⟩
    · intro i hi c hc
      refine h i (by simp; omega) c ?_
      rw [List.getElem_append_left hi]
      exact hc
    · intro c hc
      refine h xs.length (by simp) c ?_
      simpa using hc
  · rintro ⟨h1, h2⟩ i hi c hc
    have hi' : i < xs.length + 1 := by simpa using hi
    by_cases hlt : i < xs.length
    · rw [List.getElem_append_left hlt] at hc
      exact h1 i hlt c hc
    · have : i = xs.length := by omega
      subst this
      exact h2 c (by simpa using hc)

/-- the or-triangles of the features `n+1 .. n+k`, placed at index `b` -/
def triNodes (b n k : Nat) : List NType :=
  (List.range k).flatMap fun j =>
    [.lit ((n + 1 + j : Nat) : Int), .lit (-((n + 1 + j : Nat) : Int)),
      .or [b + 3 * j + 1, b + 3 * j]]

theorem triNodes_succ (b n k : Nat) :
    triNodes b n (k + 1) = triNodes b n k ++
      [.lit ((n + 1 + k : Nat) : Int), .lit (-((n + 1 + k : Nat) : Int)),
        .or [b + 3 * k + 1, b + 3 * k]] := by
  simp [triNodes, List.range_succ]

theorem triNodes_length (b n k : Nat) : (triNodes b n k).length = 3 * k := by
  induction k with
  | zero => rfl
  | succ k ih =>
    rw [triNodes_succ, List.length_append, ih]
    simp
    omega

theorem topo_tri (pre : List NType) (htopo : Topo pre) (n k : Nat) :
    Topo (pre ++ triNodes pre.length n k) := by
  induction k with
  | zero => simpa [triNodes] using htopo
  | succ k ih =>
    have e : pre ++ triNodes pre.length n (k + 1)
        = (((pre ++ triNodes pre.length n k) ++ [.lit ((n + 1 + k : Nat) : Int)])
            ++ [.lit (-((n + 1 + k : Nat) : Int))])
            ++ [.or [pre.length + 3 * k + 1, pre.length + 3 * k]] := by
      rw [triNodes_succ]
      simp
    rw [e, topo_snoc, topo_snoc, topo_snoc]
    refine ⟨⟨⟨ih, ?_⟩, ?_⟩, ?_⟩
    · intro c hc; cases hc
    · intro c hc; cases hc
    · intro c hc
      simp only [children, List.mem_cons, List.not_mem_nil, or_false] at hc
      simp only [List.length_append, triNodes_length, List.length_cons, List.length_nil]
      omega

/-- the value of the `j`-th or-triangle -/
theorem val_tri {α} (d : α) (F : NType → (Nat → α) → α) (pre : List NType) (n k j : Nat)
    (hj : j < k) :
    ∃ G G1 G0 : Nat → α,
      val d F (pre ++ triNodes pre.length n k) (pre.length + 3 * j + 2)
        = F (.or [pre.length + 3 * j + 1, pre.length + 3 * j]) G ∧
      G (pre.length + 3 * j + 1) = F (.lit (-((n + 1 + j : Nat) : Int))) G1 ∧
      G (pre.length + 3 * j) = F (.lit ((n + 1 + j : Nat) : Int)) G0 := by
  induction k with
  | zero => omega
  | succ k ih =>
    rw [triNodes_succ]
    by_cases hjk : j < k
    · obtain ⟨G, G1, G0, h1, h2, h3⟩ := ih hjk
      refine ⟨G, G1, G0, ?_, h2, h3⟩
      rw [← List.append_assoc, val_append_left _ _ _ _ _
        (by simp only [List.length_append, triNodes_length]; omega)]
      exact h1
    · have hjk' : j = k := by omega
      subst hjk'
      obtain ⟨T, hT⟩ : ∃ T, T = pre ++ triNodes pre.length n j := ⟨_, rfl⟩
      have hTl : T.length = pre.length + 3 * j := by
        rw [hT, List.length_append, triNodes_length]
      rw [← List.append_assoc, ← hT]
      refine ⟨fun x => val d F (T ++ [.lit ((n + 1 + j : Nat) : Int),
            .lit (-((n + 1 + j : Nat) : Int))]) x,
          fun x => val d F (T ++ [.lit ((n + 1 + j : Nat) : Int)]) x,
          fun x => val d F T x, ?_, ?_, ?_⟩
      · have := val_unfold d F (T ++ [.lit ((n + 1 + j : Nat) : Int),
            .lit (-((n + 1 + j : Nat) : Int))])
          (.or [pre.length + 3 * j + 1, pre.length + 3 * j]) []
        have hl : (T ++ [NType.lit ((n + 1 + j : Nat) : Int),
            NType.lit (-((n + 1 + j : Nat) : Int))]).length = pre.length + 3 * j + 2 := by
          simp [hTl]
        rw [hl, List.append_assoc] at this
        exact this
      · have := val_unfold d F (T ++ [.lit ((n + 1 + j : Nat) : Int)])
          (.lit (-((n + 1 + j : Nat) : Int))) []
        have hl : (T ++ [NType.lit ((n + 1 + j : Nat) : Int)]).length
            = pre.length + 3 * j + 1 := by
          simp [hTl]
        rw [hl, List.append_assoc] at this
        exact this
      · have := val_unfold d F T (.lit ((n + 1 + j : Nat) : Int))
          [.lit (-((n + 1 + j : Nat) : Int))]
        rw [hTl] at this
        exact this

/-- the edited array before `rebuild`: `pre`, the or-triangles, the new literal and the and-root -/
def newArr (pre : List NType) (n k : Nat) (f : Int) (old : List Nat) : List NType :=
  pre ++ triNodes pre.length n k ++ [.lit f] ++
    [.and ([pre.length + 3 * k]
      ++ ((List.range k).map fun j => pre.length + 3 * j + 2).reverse ++ old)]

theorem newArr_ne (pre : List NType) (n k : Nat) (f : Int) (old : List Nat) :
    newArr pre n k f old ≠ [] := by
  simp [newArr]

theorem newArr_topo (pre : List NType) (htopo : Topo pre) (n k : Nat) (f : Int) (old : List Nat)
    (hold : ∀ c ∈ old, c < pre.length) : Topo (newArr pre n k f old) := by
  unfold newArr
  rw [topo_snoc, topo_snoc]
  refine ⟨⟨topo_tri pre htopo n k, fun c hc => by cases hc⟩, ?_⟩
  intro c hc
  simp only [children, List.mem_append, List.mem_cons, List.not_mem_nil, or_false,
    List.mem_reverse, List.mem_map, List.mem_range] at hc
  simp only [List.length_append, triNodes_length, List.length_cons, List.length_nil]
  rcases hc with (rfl | ⟨j, hj, rfl⟩) | hc
  · omega
  · omega
  · have := hold c hc
    omega

theorem rootIx_newArr (pre : List NType) (n k : Nat) (f : Int) (old : List Nat) :
    rootIx (newArr pre n k f old) = pre.length + 3 * k + 1 := by
  simp only [rootIx, newArr, List.length_append, triNodes_length, List.length_cons,
    List.length_nil]
  omega

theorem val_newArr_root {α} (d : α) (F : NType → (Nat → α) → α) (pre : List NType) (n k : Nat)
    (f : Int) (old : List Nat) :
    val d F (newArr pre n k f old) (rootIx (newArr pre n k f old))
      = F (.and ([pre.length + 3 * k]
          ++ ((List.range k).map fun j => pre.length + 3 * j + 2).reverse ++ old))
        (fun x => val d F (pre ++ triNodes pre.length n k ++ [.lit f]) x) := by
  rw [rootIx_newArr]
  have := val_unfold d F (pre ++ triNodes pre.length n k ++ [.lit f])
    (.and ([pre.length + 3 * k]
      ++ ((List.range k).map fun j => pre.length + 3 * j + 2).reverse ++ old)) []
  have hl : (pre ++ triNodes pre.length n k ++ [NType.lit f]).length
      = pre.length + 3 * k + 1 := by
    simp only [List.length_append, triNodes_length, List.length_cons, List.length_nil]
  rw [hl] at this
  exact this

theorem val_newArr_lit {α} (d : α) (F : NType → (Nat → α) → α) (pre : List NType) (n k : Nat)
    (f : Int) :
    val d F (pre ++ triNodes pre.length n k ++ [.lit f]) (pre.length + 3 * k)
      = F (.lit f) (fun x => val d F (pre ++ triNodes pre.length n k) x) := by
  have := val_unfold d F (pre ++ triNodes pre.length n k) (.lit f) []
  have hl : (pre ++ triNodes pre.length n k).length = pre.length + 3 * k := by
    simp [triNodes_length]
  rw [hl] at this
  exact this

theorem val_newArr_tri {α} (d : α) (F : NType → (Nat → α) → α) (pre : List NType) (n k : Nat)
    (f : Int) (j : Nat) (hj : j < k) :
    val d F (pre ++ triNodes pre.length n k ++ [.lit f]) (pre.length + 3 * j + 2)
      = val d F (pre ++ triNodes pre.length n k) (pre.length + 3 * j + 2) :=
  val_append_left _ _ _ _ _ (by simp only [List.length_append, triNodes_length]; omega)

theorem val_newArr_old {α} (d : α) (F : NType → (Nat → α) → α) (pre : List NType) (n k : Nat)
    (f : Int) (c : Nat) (hc : c < pre.length) :
    val d F (pre ++ triNodes pre.length n k ++ [.lit f]) c = val d F pre c := by
  rw [List.append_assoc]
  exact val_append_left _ _ _ _ _ hc

theorem eval_newArr (pre : List NType) (n k : Nat) (f : Int) (old : List Nat)
    (hold : ∀ c ∈ old, c < pre.length) (σ : Assignment) :
    eval σ (newArr pre n k f old) (rootIx (newArr pre n k f old))
      = (litTrue σ f && old.all (eval σ pre)) := by
  unfold eval
  rw [val_newArr_root]
  show ([pre.length + 3 * k]
      ++ ((List.range k).map fun j => pre.length + 3 * j + 2).reverse ++ old).all _ = _
  rw [List.all_append, List.all_append]
  have h1 : ((List.range k).map fun j => pre.length + 3 * j + 2).reverse.all
      (fun x => val false (fEval σ) (pre ++ triNodes pre.length n k ++ [.lit f]) x) = true := by
    rw [List.all_eq_true]
    intro x hx
    rw [List.mem_reverse, List.mem_map] at hx
    obtain ⟨j, hj, rfl⟩ := hx
    rw [List.mem_range] at hj
    rw [val_newArr_tri _ _ _ _ _ _ _ hj]
    obtain ⟨G, G1, G0, e1, e2, e3⟩ := val_tri false (fEval σ) pre n k j hj
    rw [e1]
    show [pre.length + 3 * j + 1, pre.length + 3 * j].any G = true
    simp only [List.any_cons, List.any_nil, e2, e3]
    show (litTrue σ (-((n + 1 + j : Nat) : Int)) || (litTrue σ ((n + 1 + j : Nat) : Int) || false))
      = true
    rw [litTrue_neg σ _ (by omega)]
    cases litTrue σ ((n + 1 + j : Nat) : Int) <;> rfl
  have h2 : old.all (fun x => val false (fEval σ) (pre ++ triNodes pre.length n k ++ [.lit f]) x)
      = old.all (val false (fEval σ) pre) :=
    flat_all_congr _ _ _ (fun c hc => val_newArr_old _ _ _ _ _ _ _ (hold c hc))
  rw [h1, h2]
  simp only [List.all_cons, List.all_nil, Bool.and_true]
  rw [val_newArr_lit]
  rfl

theorem prodNat_map_two (xs : List Nat) (G : Nat → Nat) (h : ∀ x ∈ xs, G x = 2) :
    prodNat (xs.map G) = 2 ^ xs.length := by
  induction xs with
  | nil => rfl
  | cons x xs ih =>
    rw [List.map_cons, prodNat_cons, h x (List.mem_cons_self ..),
      ih (fun y hy => h y (List.mem_cons_of_mem _ hy)), List.length_cons, Nat.pow_succ,
      Nat.mul_comm]

theorem count_newArr (pre : List NType) (n k : Nat) (f : Int) (old : List Nat)
    (hold : ∀ c ∈ old, c < pre.length) :
    count (newArr pre n k f old) (rootIx (newArr pre n k f old))
      = 2 ^ k * prodNat (old.map (count pre)) := by
  unfold count
  rw [val_newArr_root]
  show prodNat (([pre.length + 3 * k]
      ++ ((List.range k).map fun j => pre.length + 3 * j + 2).reverse ++ old).map _) = _
  rw [List.map_append, List.map_append, prodNat_append, prodNat_append]
  have h1 : prodNat (((List.range k).map fun j => pre.length + 3 * j + 2).reverse.map
      (fun x => val 0 fCount (pre ++ triNodes pre.length n k ++ [.lit f]) x)) = 2 ^ k := by
    rw [prodNat_map_two]
    · simp
    · intro x hx
      rw [List.mem_reverse, List.mem_map] at hx
      obtain ⟨j, hj, rfl⟩ := hx
      rw [List.mem_range] at hj
      rw [val_newArr_tri _ _ _ _ _ _ _ hj]
      obtain ⟨G, G1, G0, e1, e2, e3⟩ := val_tri 0 fCount pre n k j hj
      rw [e1]
      show sumNat ([pre.length + 3 * j + 1, pre.length + 3 * j].map G) = 2
      simp only [List.map_cons, List.map_nil, sumNat_cons, sumNat_nil, e2, e3]
      rfl
  have h2 : old.map (fun x => val 0 fCount (pre ++ triNodes pre.length n k ++ [.lit f]) x)
      = old.map (val 0 fCount pre) :=
    List.map_congr_left (fun c hc => val_newArr_old _ _ _ _ _ _ _ (hold c hc))
  rw [h1, h2]
  simp only [List.map_cons, List.map_nil, prodNat_cons, prodNat_nil]
  rw [val_newArr_lit]
  show 1 * 1 * 2 ^ k * _ = _
  simp

theorem addUnitNew_eq_and (nodes : List NType) (n : Nat) (f : Int) (cs : List Nat)
    (h : nodes.getLast? = some (.and cs)) :
    addUnitNew nodes n f = reflatten (newArr nodes.dropLast n (f.natAbs - 1 - n) f cs) := by
  unfold addUnitNew
  simp only [h]
  simp [newArr, triNodes]

theorem addUnitNew_eq_other (nodes : List NType) (n : Nat) (f : Int)
    (h : ∀ cs, nodes.getLast? ≠ some (.and cs)) :
    addUnitNew nodes n f
      = reflatten (newArr nodes n (f.natAbs - 1 - n) f [nodes.length - 1]) := by
  unfold addUnitNew
  cases hg : nodes.getLast? with
  | none => simp [newArr, triNodes]
  | some nd =>
    cases nd with
    | and cs => exact absurd hg (h cs)
    | or cs => simp [newArr, triNodes]
    | lit l => simp [newArr, triNodes]
    | tru => simp [newArr, triNodes]
    | fls => simp [newArr, triNodes]

theorem addUnitNew_spec (nodes : List NType) (n : Nat) (htopo : Topo nodes) (hne : nodes ≠ [])
    (f : Int) (hf : n < f.natAbs) :
    (addUnit nodes n f).1 = f.natAbs ∧
      (∀ σ : Assignment, eval σ (addUnit nodes n f).2 (rootIx (addUnit nodes n f).2) =
        (eval σ nodes (rootIx nodes) && litTrue σ f)) ∧
      count (addUnit nodes n f).2 (rootIx (addUnit nodes n f).2) =
        count nodes (rootIx nodes) * 2 ^ (f.natAbs - 1 - n) := by
  have hadd : addUnit nodes n f = (f.natAbs, addUnitNew nodes n f) := by
    unfold addUnit
    rw [if_neg (by omega)]
  rw [hadd]
  refine ⟨rfl, ?_⟩
  show (∀ σ : Assignment, eval σ (addUnitNew nodes n f) (rootIx (addUnitNew nodes n f)) = _) ∧
    count (addUnitNew nodes n f) (rootIx (addUnitNew nodes n f)) = _
  -- it is enough to describe the old root by a list `old` of nodes of a prefix `pre`
  suffices hmain : ∃ pre old, addUnitNew nodes n f
        = reflatten (newArr pre n (f.natAbs - 1 - n) f old) ∧ Topo pre ∧
      (∀ c ∈ old, c < pre.length) ∧
      (∀ σ, old.all (eval σ pre) = eval σ nodes (rootIx nodes)) ∧
      prodNat (old.map (count pre)) = count nodes (rootIx nodes) by
    obtain ⟨pre, old, he, hpre, hold, hev, hcnt⟩ := hmain
    rw [he]
    constructor
    · intro σ
      rw [reflatten_eval _ (newArr_topo pre hpre _ _ _ old hold) (newArr_ne _ _ _ _ _) σ,
        eval_newArr pre _ _ _ old hold σ, hev σ, Bool.and_comm]
    · rw [reflatten_count _ (newArr_topo pre hpre _ _ _ old hold) (newArr_ne _ _ _ _ _),
        count_newArr pre _ _ _ old hold, hcnt, Nat.mul_comm]
  by_cases hlast : ∃ cs, nodes.getLast? = some (.and cs)
  · obtain ⟨cs, hcs⟩ := hlast
    obtain ⟨ys, hys⟩ := List.getLast?_eq_some_iff.mp hcs
    have hdl : nodes.dropLast = ys := by rw [hys]; simp
    refine ⟨ys, cs, ?_, ?_, ?_, ?_, ?_⟩
    · rw [addUnitNew_eq_and nodes n f cs hcs, hdl]
    · rw [hys, topo_snoc] at htopo
      exact htopo.1
    · rw [hys, topo_snoc] at htopo
      exact htopo.2
    · intro σ
      have hr : rootIx nodes = ys.length := by rw [hys]; simp [rootIx]
      rw [hr, hys]
      exact (val_unfold false (fEval σ) ys (.and cs) []).symm
    · have hr : rootIx nodes = ys.length := by rw [hys]; simp [rootIx]
      rw [hr, hys]
      exact (val_unfold 0 fCount ys (.and cs) []).symm
  · have hlast' : ∀ cs, nodes.getLast? ≠ some (.and cs) := fun cs hcs => hlast ⟨cs, hcs⟩
    have hpos : 0 < nodes.length := List.length_pos_iff.mpr hne
    refine ⟨nodes, [nodes.length - 1], addUnitNew_eq_other nodes n f hlast', htopo, ?_, ?_, ?_⟩
    · intro c hc
      rw [List.mem_singleton] at hc
      omega
    · intro σ
      simp [rootIx]
    · simp [rootIx]

/-! ### non-vacuity -/

example :
    removedBy [.lit 1, .lit (-1), .or [1, 0], .lit 2, .lit (-2), .or [4, 3], .and [5, 2]] (-1) 6
        = false ∧
      count (addUnit [.lit 1, .lit (-1), .or [1, 0], .lit 2, .lit (-2), .or [4, 3], .and [5, 2]]
          2 (-1)).2
        (rootIx (addUnit [.lit 1, .lit (-1), .or [1, 0], .lit 2, .lit (-2), .or [4, 3],
          .and [5, 2]] 2 (-1)).2) = 2 := by
  decide

end Ddnnf
