/-
  The side conditions of the CNF-export theorems (`C19.CnfOK`) from structural properties of the array.

  `cnfOK_of_struct`: for an array with children before parents (`Topo`), all literal leaves in range
  (`LitRange`), in which every node but the last has a parent (`MS.HasParents`), and whose root mentions
  the features `1..n` with `2 ≤ n` (`RootComplete`): the Tseitin pass introduces at least one variable
  and the root is represented by the variable introduced last.

  The argument is static (on the final state of the pass): the *height* of a node (literal leaves 0,
  an operation over one child the height of the child, any other operation 1 + the maximum over the
  children) only depends on the literal that represents the node (`ht_eq_of_lit_eq`).  With `HasParents`
  the array ends in a chain of one-child operations above a *core* node; every node before the core is a
  proper descendant of it and hence of smaller height, so the operation of the core is not cached, the
  core gets a fresh variable and the chain above hands it up to the root.

  `HasParents` and `LitRange` do not follow from `WF` (`cnfOK_needs_hasParents`, `wf_not_litRange`).
-/
import DdnnfVerif.Props.C06
import DdnnfVerif.Props.C19
import DdnnfVerif.Proofs.LoadAll

namespace Ddnnf

/-! ### heights -/

def maxList (xs : List Nat) : Nat := xs.foldr max 0

theorem le_maxList {xs : List Nat} {x : Nat} (h : x ∈ xs) : x ≤ maxList xs := by
  induction xs with
  | nil => cases h
  | cons y ys ih =>
    simp only [maxList, List.foldr_cons]
    rcases List.mem_cons.1 h with e | h
    · subst e; exact Nat.le_max_left ..
    · exact Nat.le_trans (ih h) (Nat.le_max_right ..)

/-- height of an operation over children of heights `hs` -/
def opHt : List Nat → Nat
  | [h] => h
  | hs => 1 + maxList hs

theorem opHt_single (h : Nat) : opHt [h] = h := rfl

theorem opHt_proper (hs : List Nat) (h : hs.length ≠ 1) : opHt hs = 1 + maxList hs := by
  unfold opHt
  split
  · simp at h
  · rfl

theorem le_opHt {hs : List Nat} {x : Nat} (h : x ∈ hs) : x ≤ opHt hs := by
  by_cases hl : hs.length = 1
  · match hs, hl with
    | [y], _ => simp at h; subst h; exact Nat.le_refl _
  · rw [opHt_proper hs hl]
    have := le_maxList h
    omega

def fHt : NType → (Nat → Nat) → Nat
  | .and cs, g => opHt (cs.map g)
  | .or cs, g => opHt (cs.map g)
  | .lit _, _ => 0
  | .tru, _ => 1
  | .fls, _ => 1

/-- height of node `i` -/
def ht (nodes : List NType) (i : Nat) : Nat := val 0 fHt nodes i

theorem fHt_congr (nd : NType) (a b : Nat → Nat) (h : ∀ c ∈ children nd, a c = b c) :
    fHt nd a = fHt nd b := by
  cases nd with
  | and cs =>
    have h' : ∀ c ∈ cs, a c = b c := h
    simp only [fHt]; rw [List.map_congr_left h']
  | or cs =>
    have h' : ∀ c ∈ cs, a c = b c := h
    simp only [fHt]; rw [List.map_congr_left h']
  | lit l => rfl
  | tru => rfl
  | fls => rfl

theorem ht_eq (nodes : List NType) (htopo : Topo nodes) (i : Nat) (hi : i < nodes.length) :
    ht nodes i = fHt nodes[i] (ht nodes) :=
  D4.val_eq_topo' 0 fHt nodes htopo fHt_congr i hi

/-- `fHt` in terms of `children` -/
theorem fHt_children (nd : NType) (g : Nat → Nat) (hl : ∀ l, nd ≠ .lit l) :
    fHt nd g = opHt ((children nd).map g) := by
  cases nd with
  | and cs => rfl
  | or cs => rfl
  | lit l => exact absurd rfl (hl l)
  | tru => rfl
  | fls => rfl

theorem ht_child_le (nodes : List NType) (htopo : Topo nodes) (i : Nat) (hi : i < nodes.length)
    (c : Nat) (hc : c ∈ children nodes[i]) : ht nodes c ≤ ht nodes i := by
  rw [ht_eq nodes htopo i hi]
  have hl : ∀ l, nodes[i] ≠ .lit l := by
    intro l e; rw [e] at hc; simp [children] at hc
  rw [fHt_children _ _ hl]
  exact le_opHt (List.mem_map.2 ⟨c, hc, rfl⟩)

/-! ### the shape of a node -/

/-- an operation over exactly one child -/
def Single (nd : NType) (c : Nat) : Prop := nd = .and [c] ∨ nd = .or [c]

/-- an operation over no or at least two children (or a constant) -/
def Proper (nd : NType) : Prop := (∀ l, nd ≠ .lit l) ∧ (children nd).length ≠ 1

theorem node_cases (nd : NType) : (∃ l, nd = .lit l) ∨ (∃ c, Single nd c) ∨ Proper nd := by
  cases nd with
  | and cs =>
    by_cases h : cs.length = 1
    · match cs, h with
      | [c], _ => exact Or.inr (Or.inl ⟨c, Or.inl rfl⟩)
    · exact Or.inr (Or.inr ⟨fun l e => (by cases e), h⟩)
  | or cs =>
    by_cases h : cs.length = 1
    · match cs, h with
      | [c], _ => exact Or.inr (Or.inl ⟨c, Or.inr rfl⟩)
    · exact Or.inr (Or.inr ⟨fun l e => (by cases e), h⟩)
  | lit l => exact Or.inl ⟨l, rfl⟩
  | tru => exact Or.inr (Or.inr ⟨fun l e => (by cases e), by simp [children]⟩)
  | fls => exact Or.inr (Or.inr ⟨fun l e => (by cases e), by simp [children]⟩)

theorem Single.children {nd : NType} {c : Nat} (h : Single nd c) : children nd = [c] := by
  rcases h with h | h <;> rw [h] <;> rfl

theorem Single.not_proper {nd : NType} {c : Nat} (h : Single nd c) : ¬ Proper nd := by
  intro hp; exact hp.2 (by rw [h.children]; rfl)

theorem ht_single (nodes : List NType) (htopo : Topo nodes) (i : Nat) (hi : i < nodes.length) (c : Nat)
    (h : Single nodes[i] c) : ht nodes i = ht nodes c := by
  rw [ht_eq nodes htopo i hi]
  rcases h with h | h <;> rw [h] <;> rfl

theorem ht_lit (nodes : List NType) (htopo : Topo nodes) (i : Nat) (hi : i < nodes.length) (l : Int)
    (h : nodes[i] = .lit l) : ht nodes i = 0 := by
  rw [ht_eq nodes htopo i hi, h]; rfl

theorem ht_proper (nodes : List NType) (htopo : Topo nodes) (i : Nat) (hi : i < nodes.length)
    (h : Proper nodes[i]) : ht nodes i = 1 + maxList ((children nodes[i]).map (ht nodes)) := by
  rw [ht_eq nodes htopo i hi, fHt_children _ _ h.1, opHt_proper]
  rw [List.length_map]; exact h.2

theorem ht_child_lt (nodes : List NType) (htopo : Topo nodes) (i : Nat) (hi : i < nodes.length)
    (h : Proper nodes[i]) (c : Nat) (hc : c ∈ children nodes[i]) : ht nodes c < ht nodes i := by
  rw [ht_proper nodes htopo i hi h]
  have := le_maxList (List.mem_map.2 ⟨c, hc, rfl⟩ : ht nodes c ∈ (children nodes[i]).map (ht nodes))
  omega

/-! ### the literal that represents a node, read off the final state of the pass -/

/-- the literal of node `i` -/
abbrev nlit (nodes : List NType) (n : Nat) (i : Nat) : Int := (tseitin nodes n).nodeLits.getD i 0

theorem nlit_step (nodes : List NType) (n : Nat) (htopo : Topo nodes) (hrange : LitRange nodes n)
    (i : Nat) (hi : i < nodes.length) :
    nlit nodes n i = (stepRes (tseitin (nodes.take i) n) nodes[i]).1 := by
  have hinv := tseitin_inv_take nodes n htopo hrange i (by omega)
  show (tseitin nodes n).nodeLits.getD i 0 = _
  rw [nodeLits_final nodes n htopo hrange (i + 1) (by omega) i (by omega),
    tseitin_take_succ nodes n i hi, tseitinStep_nodeLits]
  have hget : ∀ (A : Array Int) (x : Int), A.size = i → (A.push x).getD i 0 = x := by
    intro A x hA; rw [← hA]; exact getD_push_eq A x 0
  exact hget _ _ hinv.size

theorem nlit_single (nodes : List NType) (n : Nat) (htopo : Topo nodes) (hrange : LitRange nodes n)
    (i : Nat) (hi : i < nodes.length) (c : Nat) (h : Single nodes[i] c) :
    nlit nodes n i = nlit nodes n c := by
  have hc : c < i := htopo i hi c (by rw [h.children]; exact List.mem_singleton.2 rfl)
  rw [nlit_step nodes n htopo hrange i hi]
  have e : (stepRes (tseitin (nodes.take i) n) nodes[i]).1
      = (tseitin (nodes.take i) n).nodeLits.getD c 0 := by
    rcases h with h | h <;> rw [h] <;> rfl
  rw [e]
  exact (nodeLits_final nodes n htopo hrange i (by omega) c hc).symm

theorem nlit_lit (nodes : List NType) (n : Nat) (htopo : Topo nodes) (hrange : LitRange nodes n)
    (i : Nat) (hi : i < nodes.length) (l : Int) (h : nodes[i] = .lit l) : nlit nodes n i = l :=
  (nodeLit_def nodes n htopo hrange i hi).1 l h

theorem nodeOp_of_not_lit (L : Array Int) (nd : NType) (hl : ∀ l, nd ≠ .lit l) :
    ∃ k, nodeOp L nd = some (k, (children nd).map (fun c => L.getD c 0)) := by
  cases nd with
  | and cs => exact ⟨true, rfl⟩
  | or cs => exact ⟨false, rfl⟩
  | lit l => exact absurd rfl (hl l)
  | tru => exact ⟨true, rfl⟩
  | fls => exact ⟨false, rfl⟩

/-- a proper operation is represented by the index of a biconditional over the literals of its children -/
theorem nlit_proper (nodes : List NType) (n : Nat) (htopo : Topo nodes) (hrange : LitRange nodes n)
    (i : Nat) (hi : i < nodes.length) (h : Proper nodes[i]) :
    ∃ b ∈ (tseitin nodes n).biconds, b.lits = (children nodes[i]).map (nlit nodes n)
      ∧ nlit nodes n i = (b.index : Int) := by
  obtain ⟨k, hk⟩ := nodeOp_of_not_lit (tseitin nodes n).nodeLits nodes[i] h.1
  rcases (nodeLit_def nodes n htopo hrange i hi).2 _ hk with ⟨l, hl, _⟩ | ⟨b, hb, hbo, hbi⟩
  · exfalso
    apply h.2
    have := congrArg List.length hl
    simpa using this
  · refine ⟨b, hb, ?_, hbi⟩
    have := congrArg Prod.snd hbo
    exact this

theorem inj_of_nodup_map {α β : Type} (f : α → β) : ∀ (l : List α), (l.map f).Nodup →
    ∀ x ∈ l, ∀ y ∈ l, f x = f y → x = y := by
  intro l
  induction l with
  | nil => intro _ x hx; cases hx
  | cons a l ih =>
    intro hnd x hx y hy e
    rw [List.map_cons, List.nodup_cons] at hnd
    rcases List.mem_cons.1 hx with ex | hx' <;> rcases List.mem_cons.1 hy with ey | hy'
    · rw [ex, ey]
    · exact absurd (List.mem_map.2 ⟨y, hy', by rw [← e, ex]⟩) hnd.1
    · exact absurd (List.mem_map.2 ⟨x, hx', by rw [e, ey]⟩) hnd.1
    · exact ih hnd.2 x hx' y hy' e

theorem bicond_index_inj (nodes : List NType) (n : Nat) (htopo : Topo nodes) (hrange : LitRange nodes n)
    (b b' : Bicond) (hb : b ∈ (tseitin nodes n).biconds) (hb' : b' ∈ (tseitin nodes n).biconds)
    (e : b.index = b'.index) : b = b' := by
  have hnd : ((tseitin nodes n).biconds.map Bicond.index).Nodup := by
    rw [(tseitin_inv_explicit nodes n htopo hrange).2.1]
    exact List.nodup_range'
  exact inj_of_nodup_map Bicond.index _ hnd b hb b' hb' e

theorem map_eq_of_rel (L : Nat → Int) (h : Nat → Nat) : ∀ (as bs : List Nat), as.map L = bs.map L →
    (∀ a ∈ as, ∀ b ∈ bs, L a = L b → h a = h b) → as.map h = bs.map h := by
  intro as
  induction as with
  | nil => intro bs e _; cases bs with
    | nil => rfl
    | cons b bs => cases e
  | cons a as ih =>
    intro bs e hr
    cases bs with
    | nil => cases e
    | cons b bs =>
      simp only [List.map_cons, List.cons.injEq] at e ⊢
      exact ⟨hr a (List.mem_cons_self ..) b (List.mem_cons_self ..) e.1,
        ih bs e.2 (fun a' ha' b' hb' => hr a' (List.mem_cons_of_mem _ ha') b' (List.mem_cons_of_mem _ hb'))⟩

/-- **the height of a node only depends on the literal that represents it** -/
theorem ht_eq_of_lit_eq (nodes : List NType) (n : Nat) (htopo : Topo nodes) (hrange : LitRange nodes n) :
    ∀ (s i j : Nat), i + j ≤ s → i < nodes.length → j < nodes.length →
      nlit nodes n i = nlit nodes n j → ht nodes i = ht nodes j := by
  intro s
  induction s with
  | zero =>
    intro i j hs hi hj _
    have : i = j := by omega
    rw [this]
  | succ s ih =>
    intro i j hs hi hj e
    have hexp := tseitin_inv_explicit nodes n htopo hrange
    rcases node_cases nodes[i] with ⟨l, hl⟩ | ⟨c, hc⟩ | hp
    · rcases node_cases nodes[j] with ⟨l', hl'⟩ | ⟨c', hc'⟩ | hp'
      · rw [ht_lit nodes htopo i hi l hl, ht_lit nodes htopo j hj l' hl']
      · have hlt : c' < j := htopo j hj c' (by rw [hc'.children]; exact List.mem_singleton.2 rfl)
        rw [ht_single nodes htopo j hj c' hc']
        rw [nlit_single nodes n htopo hrange j hj c' hc'] at e
        exact ih i c' (by omega) hi (by omega) e
      · exfalso
        obtain ⟨b, hb, _, hbi⟩ := nlit_proper nodes n htopo hrange j hj hp'
        rw [nlit_lit nodes n htopo hrange i hi l hl, hbi] at e
        have h1 := (hexp.2.2.1 b hb).1
        have h2 := (hrange nodes[i] (List.getElem_mem hi) l hl).2
        omega
    · have hlt : c < i := htopo i hi c (by rw [hc.children]; exact List.mem_singleton.2 rfl)
      rw [ht_single nodes htopo i hi c hc]
      rw [nlit_single nodes n htopo hrange i hi c hc] at e
      exact ih c j (by omega) (by omega) hj e
    · rcases node_cases nodes[j] with ⟨l', hl'⟩ | ⟨c', hc'⟩ | hp'
      · exfalso
        obtain ⟨b, hb, _, hbi⟩ := nlit_proper nodes n htopo hrange i hi hp
        rw [nlit_lit nodes n htopo hrange j hj l' hl', hbi] at e
        have h1 := (hexp.2.2.1 b hb).1
        have h2 := (hrange nodes[j] (List.getElem_mem hj) l' hl').2
        omega
      · have hlt : c' < j := htopo j hj c' (by rw [hc'.children]; exact List.mem_singleton.2 rfl)
        rw [ht_single nodes htopo j hj c' hc']
        rw [nlit_single nodes n htopo hrange j hj c' hc'] at e
        exact ih i c' (by omega) hi (by omega) e
      · obtain ⟨b, hb, hbl, hbi⟩ := nlit_proper nodes n htopo hrange i hi hp
        obtain ⟨b', hb', hbl', hbi'⟩ := nlit_proper nodes n htopo hrange j hj hp'
        rw [hbi, hbi'] at e
        have eb : b = b' := bicond_index_inj nodes n htopo hrange b b' hb hb' (by omega)
        subst eb
        rw [ht_proper nodes htopo i hi hp, ht_proper nodes htopo j hj hp']
        congr 2
        apply map_eq_of_rel (nlit nodes n) (ht nodes) _ _ (hbl.symm.trans hbl')
        intro a ha a' ha' ea
        have h1 := htopo i hi a ha
        have h2 := htopo j hj a' ha'
        exact ih a a' (by omega) (by omega) (by omega) ea

/-! ### an array that ends in a proper operation -/

/-- every node before a proper root is lower than the root -/
theorem ht_lt_root (ns : List NType) (htopo : Topo ns) (hne : ns ≠ []) (hpar : MS.HasParents ns)
    (hp : Proper (ns[rootIx ns]'(rootIx_lt _ hne))) :
    ∀ (d j : Nat), rootIx ns - j ≤ d → j < rootIx ns → ht ns j < ht ns (rootIx ns) := by
  have hr := rootIx_lt _ hne
  intro d
  induction d with
  | zero => intro j h1 h2; omega
  | succ d ih =>
    intro j h1 h2
    obtain ⟨p, hp', hjp, hmem⟩ := hpar j (by unfold rootIx at h2; omega)
    by_cases e : p = rootIx ns
    · subst e
      exact ht_child_lt ns htopo _ hr hp j hmem
    · have hlt : p < rootIx ns := by unfold rootIx at e ⊢; omega
      have := ht_child_le ns htopo p hp' j hmem
      have := ih p (by omega) hlt
      omega

theorem proper_of_nodeOp_eq (L : Array Int) (nd nd' : NType) (hp : Proper nd) (op : Bool × List Int)
    (h : nodeOp L nd = some op) (h' : nodeOp L nd' = some op) :
    Proper nd' ∧ (children nd').map (fun c => L.getD c 0) = (children nd).map (fun c => L.getD c 0) := by
  have hl' : ∀ l, nd' ≠ .lit l := by
    intro l e; rw [e] at h'; simp [nodeOp] at h'
  obtain ⟨k, hk⟩ := nodeOp_of_not_lit L nd hp.1
  obtain ⟨k', hk'⟩ := nodeOp_of_not_lit L nd' hl'
  rw [h] at hk; rw [h'] at hk'
  have e : (children nd').map (fun c => L.getD c 0) = (children nd).map (fun c => L.getD c 0) := by
    have h1 := congrArg Prod.snd (Option.some.inj hk)
    have h2 := congrArg Prod.snd (Option.some.inj hk')
    exact h2.symm.trans h1
  refine ⟨⟨hl', ?_⟩, e⟩
  have := congrArg List.length e
  rw [List.length_map, List.length_map] at this
  rw [this]; exact hp.2

/-- if the last node is a proper operation (and every other node has a parent), it introduces the last
variable -/
theorem proper_root_last_var (ns : List NType) (n : Nat) (htopo : Topo ns) (hrange : LitRange ns n)
    (hne : ns ≠ []) (hpar : MS.HasParents ns) (hp : Proper (ns[rootIx ns]'(rootIx_lt _ hne))) :
    (tseitin ns n).next ≠ n + 1
    ∧ nlit ns n (rootIx ns) = (((tseitin ns n).next - 1 : Nat) : Int) := by
  have hr := rootIx_lt _ hne
  obtain ⟨k, hk⟩ := nodeOp_of_not_lit (tseitin ns n).nodeLits ns[rootIx ns] hp.1
  refine root_is_last_var ns n htopo hrange hne _ hk ?_ ?_
  · show ((children ns[rootIx ns]).map _).length ≠ 1
    rw [List.length_map]; exact hp.2
  · intro j hj hjr hop
    obtain ⟨hpj, hmap⟩ := proper_of_nodeOp_eq _ _ _ hp _ hk hop
    have hlt := ht_lt_root ns htopo hne hpar hp _ j (Nat.le_refl _) hjr
    have heq : ht ns j = ht ns (rootIx ns) := by
      rw [ht_proper ns htopo j hj hpj, ht_proper ns htopo _ hr hp]
      congr 2
      apply map_eq_of_rel (nlit ns n) (ht ns) _ _ hmap
      intro a ha a' ha' ea
      have h1 := htopo j hj a ha
      have h2 := htopo _ hr a' ha'
      exact ht_eq_of_lit_eq ns n htopo hrange _ a a' (Nat.le_refl _) (by omega) (by omega) ea
    omega

/-! ### the chain of one-child operations at the end of the array -/

/-- the nodes after `m` are one-child operations over their predecessor -/
def ChainAbove (nodes : List NType) (m : Nat) : Prop :=
  ∀ k (hk : k < nodes.length), m < k → Single nodes[k] (k - 1)

theorem exists_core (nodes : List NType) (htopo : Topo nodes) (hpar : MS.HasParents nodes) :
    ∀ (k : Nat), k < nodes.length → ChainAbove nodes k →
      ∃ m, ∃ hm : m < nodes.length, ChainAbove nodes m ∧ ¬ ∃ c, Single nodes[m] c := by
  intro k
  induction k with
  | zero =>
    intro hk hch
    refine ⟨0, hk, hch, ?_⟩
    rintro ⟨c, hc⟩
    have := htopo 0 hk c (by rw [hc.children]; exact List.mem_singleton.2 rfl)
    omega
  | succ k ih =>
    intro hk hch
    by_cases hs : ∃ c, Single nodes[k + 1] c
    · obtain ⟨c, hc⟩ := hs
      have hck : c < k + 1 := htopo _ hk c (by rw [hc.children]; exact List.mem_singleton.2 rfl)
      have e : c = k := by
        apply Classical.byContradiction
        intro hne
        obtain ⟨p, hp, hkp, hmem⟩ := hpar k (by omega)
        by_cases e : p = k + 1
        · subst e
          rw [hc.children, List.mem_singleton] at hmem
          omega
        · have := hch p hp (by omega)
          rw [this.children, List.mem_singleton] at hmem
          omega
      subst e
      apply ih (by omega)
      intro j hj hcj
      by_cases e : j = c + 1
      · subst e; exact hc
      · exact hch j hj (by omega)
    · exact ⟨k + 1, hk, hch, hs⟩

theorem hasParents_take (nodes : List NType) (hpar : MS.HasParents nodes) (m : Nat) (_hm : m < nodes.length)
    (hch : ChainAbove nodes m) : MS.HasParents (nodes.take (m + 1)) := by
  intro j hj
  rw [List.length_take] at hj
  obtain ⟨p, hp, hjp, hmem⟩ := hpar j (by omega)
  by_cases hpm : p ≤ m
  · refine ⟨p, by rw [List.length_take]; omega, hjp, ?_⟩
    rw [List.getElem_take]; exact hmem
  · exfalso
    have := hch p hp (by omega)
    rw [this.children, List.mem_singleton] at hmem
    omega

theorem topo_take (nodes : List NType) (htopo : Topo nodes) (k : Nat) : Topo (nodes.take k) := by
  intro i hi c hc
  rw [List.getElem_take] at hc
  rw [List.length_take] at hi
  exact htopo i (by omega) c hc

theorem litRange_take (nodes : List NType) (n : Nat) (h : LitRange nodes n) (k : Nat) :
    LitRange (nodes.take k) n :=
  fun nd hnd l hl => h nd (List.mem_of_mem_take hnd) l hl

theorem stepRes_single (st : TState) (nd : NType) (c : Nat) (h : Single nd c) :
    stepRes st nd = (st.nodeLits.getD c 0, st) := by
  rcases h with h | h <;> rw [h] <;> rfl

/-- the chain hands the literal of the core up to the root and introduces no variable -/
theorem chain_tseitin (nodes : List NType) (n : Nat) (htopo : Topo nodes) (hrange : LitRange nodes n)
    (m : Nat) (_hm : m < nodes.length) (hch : ChainAbove nodes m) :
    ∀ (d : Nat), m + d < nodes.length →
      (tseitin (nodes.take (m + d + 1)) n).next = (tseitin (nodes.take (m + 1)) n).next
      ∧ (tseitin (nodes.take (m + d + 1)) n).nodeLits.getD (m + d) 0
          = (tseitin (nodes.take (m + 1)) n).nodeLits.getD m 0 := by
  intro d
  induction d with
  | zero => intro _; exact ⟨rfl, rfl⟩
  | succ d ih =>
    intro hd
    obtain ⟨ih1, ih2⟩ := ih (by omega)
    have hs := hch (m + d + 1) (by omega) (by omega)
    have e1 : m + d + 1 - 1 = m + d := by omega
    rw [e1] at hs
    have hinv := tseitin_inv_take nodes n htopo hrange (m + d + 1) (by omega)
    have hstep : tseitin (nodes.take (m + (d + 1) + 1)) n
        = tseitinStep (tseitin (nodes.take (m + d + 1)) n) nodes[m + d + 1] :=
      tseitin_take_succ nodes n (m + d + 1) (by omega)
    rw [hstep, tseitinStep_eq, stepRes_single _ _ _ hs]
    refine ⟨ih1, ?_⟩
    show ((tseitin (nodes.take (m + d + 1)) n).nodeLits.push _).getD (m + (d + 1)) 0 = _
    have hget : ∀ (A : Array Int) (x : Int) (i : Nat), A.size = i → (A.push x).getD i 0 = x := by
      intro A x i hA; rw [← hA]; exact getD_push_eq A x 0
    rw [hget _ _ _ (by rw [hinv.size]; omega)]
    exact ih2

/-! ### variables along the chain -/

theorem vars_eq (nodes : List NType) (htopo : Topo nodes) (i : Nat) (hi : i < nodes.length) :
    vars nodes i = fVars (count nodes) nodes[i] (vars nodes) :=
  D4.val_eq_topo' [] (fVars (count nodes)) nodes htopo (D4.fVars_congr' _) i hi

theorem fVars_single_len (cnt : Nat → Nat) (nd : NType) (c : Nat) (g : Nat → List Nat)
    (h : Single nd c) : (fVars cnt nd g).length ≤ (g c).length := by
  rcases h with h | h <;> rw [h]
  · simp [fVars]
  · simp only [fVars]
    split
    · simp
    · rename_i c' _ hf
      have : c' ∈ [c].filter (fun c => cnt c != 0) := by rw [hf]; exact List.mem_cons_self ..
      have := (List.mem_filter.1 this).1
      rw [List.mem_singleton] at this
      rw [this]; exact Nat.le_refl _

theorem vars_chain_len (nodes : List NType) (htopo : Topo nodes) (m : Nat) (hch : ChainAbove nodes m) :
    ∀ (d : Nat), m + d < nodes.length → (vars nodes (m + d)).length ≤ (vars nodes m).length := by
  intro d
  induction d with
  | zero => intro _; exact Nat.le_refl _
  | succ d ih =>
    intro hd
    have hs := hch (m + (d + 1)) hd (by omega)
    have e1 : m + (d + 1) - 1 = m + d := by omega
    rw [e1] at hs
    rw [vars_eq nodes htopo _ hd]
    exact Nat.le_trans (fVars_single_len _ _ _ _ hs) (ih (by omega))

/-! ### the theorem -/

/-- **`CnfOK` from the structure of the array.** -/
theorem cnfOK_of_struct (nodes : List NType) (n : Nat) (htopo : Topo nodes) (hne : nodes ≠ [])
    (hrange : LitRange nodes n) (hpar : MS.HasParents nodes) (hrc : RootComplete nodes n) (hn : 2 ≤ n) :
    C19.CnfOK nodes n := by
  have hr := rootIx_lt _ hne
  have hlen : rootIx nodes + 1 = nodes.length := by unfold rootIx at hr ⊢; omega
  obtain ⟨m, hm, hch, hns⟩ := exists_core nodes htopo hpar (rootIx nodes) hr
    (fun k hk hlt => by unfold rootIx at hlt; omega)
  -- the core is a proper operation
  have hp : Proper nodes[m] := by
    rcases node_cases nodes[m] with ⟨l, hl⟩ | hs | hp
    · exfalso
      have h1 := vars_chain_len nodes htopo m hch (rootIx nodes - m) (by omega)
      rw [show m + (rootIx nodes - m) = rootIx nodes by omega] at h1
      have h2 : (vars nodes m).length = 1 := by rw [vars_eq nodes htopo m hm, hl]; rfl
      have h3 := hrc.length_eq
      rw [List.length_map, List.length_range] at h3
      omega
    · exact absurd hs hns
    · exact hp
  -- the prefix that ends in the core
  have hne' : nodes.take (m + 1) ≠ [] := by
    intro e
    have := congrArg List.length e
    rw [List.length_take, List.length_nil] at this
    omega
  have hrix : rootIx (nodes.take (m + 1)) = m := by
    unfold rootIx; rw [List.length_take]; omega
  have hp' : Proper ((nodes.take (m + 1))[rootIx (nodes.take (m + 1))]'(rootIx_lt _ hne')) := by
    rw [List.getElem_take]
    simp only [hrix]
    exact hp
  obtain ⟨hnew, hroot⟩ := proper_root_last_var (nodes.take (m + 1)) n (topo_take nodes htopo _)
    (litRange_take nodes n hrange _) hne' (hasParents_take nodes hpar m hm hch) hp'
  obtain ⟨c1, c2⟩ := chain_tseitin nodes n htopo hrange m hm hch (rootIx nodes - m) (by omega)
  rw [show m + (rootIx nodes - m) = rootIx nodes by omega, hlen, List.take_length] at c1 c2
  refine ⟨hrange, ?_, ?_⟩
  · rw [c1]; exact hnew
  · rw [c2, c1]
    rw [hrix] at hroot
    exact hroot

/-! ### `EnumOK` from `WF` and `NoTruUnderOr` -/

theorem root_ne_tru (nodes : List NType) (n : Nat) (h : WF nodes n) (hn : 1 ≤ n) :
    nodes.getLast? ≠ some .tru := by
  intro e
  have hr := rootIx_lt _ h.nonempty
  rw [List.getLast?_eq_getElem?] at e
  have e' : nodes[rootIx nodes] = .tru := by
    have : nodes[rootIx nodes]? = some .tru := e
    rw [List.getElem?_eq_getElem hr] at this
    exact Option.some.inj this
  have hv : vars nodes (rootIx nodes) = [] := by
    rw [vars_eq nodes h.topo _ hr, e']; rfl
  have := h.rootComplete.length_eq
  rw [hv, List.length_map, List.length_range] at this
  simp at this; omega

/-- a well-formed array over at least one feature without a `True` node below an or-node satisfies the
side conditions of the enumeration theorems -/
theorem enumOK_of_wf (nodes : List NType) (n : Nat) (h : WF nodes n) (hn : 1 ≤ n)
    (ht : NoTruUnderOr nodes) : C06.EnumOK nodes :=
  ⟨h.topo, ht, root_ne_tru nodes n h hn, h.nonempty⟩

/-! ### what does not follow from `WF` -/

/-- `NoTruUnderOr` does not follow from `WF` (nor from `WF`, `LitUnique` and `HasParents`): an or-node
whose only child is `True` is smooth, deterministic, … -/
theorem wf_not_noTruUnderOr :
    ∃ (nodes : List NType) (n : Nat), 1 ≤ n ∧ WF nodes n ∧ LitUnique nodes ∧ MS.HasParents nodes ∧
      ¬ NoTruUnderOr nodes := by
  refine ⟨[.tru, .or [0], .lit 1, .and [1, 2]], 1, Nat.le_refl _, wfB_sound _ _ (by decide), ?_, ?_, ?_⟩
  · intro i j hi hj l ei ej
    have hi' : i < 4 := hi
    have hj' : j < 4 := hj
    match i, j, hi', hj' with
    | 2, 2, _, _ => rfl
    | 0, _, _, _ => simp at ei
    | 1, _, _, _ => simp at ei
    | 3, _, _, _ => simp at ei
    | 2, 0, _, _ => simp at ej
    | 2, 1, _, _ => simp at ej
    | 2, 3, _, _ => simp at ej
  · intro j hj
    have hj' : j + 1 < 4 := hj
    match j, hj' with
    | 0, _ => exact ⟨1, by decide, by decide, by simp [children]⟩
    | 1, _ => exact ⟨3, by decide, by decide, by simp [children]⟩
    | 2, _ => exact ⟨3, by decide, by decide, by simp [children]⟩
  · intro h
    exact h 1 (by decide) [0] rfl 0 (List.mem_singleton.2 rfl) (by decide) rfl

/-- `HasParents` cannot be dropped from `cnfOK_of_struct`: in `[1, 2, and [0,1], and [1,0], and [0,1]]`
(well formed over 2 features, literals in range) the root re-uses the variable of node 2, but node 3
introduced a later one. -/
theorem cnfOK_needs_hasParents :
    ∃ (nodes : List NType) (n : Nat), 2 ≤ n ∧ WF nodes n ∧ LitRange nodes n ∧ ¬ C19.CnfOK nodes n := by
  refine ⟨[.lit 1, .lit 2, .and [0, 1], .and [1, 0], .and [0, 1]], 2, Nat.le_refl _,
    wfB_sound _ _ (by decide), litRange_of_litRangeB _ _ (by decide), ?_⟩
  intro h
  have := h.root
  revert this
  decide

/-- a literal leaf of feature 5 below an unsatisfiable and-node -/
def cexRange : List NType := [.lit 5, .or [], .and [0, 1], .lit 1, .lit 2, .and [3, 4], .or [2, 5]]

theorem cexRange_eval2 (σ : Assignment) : eval σ cexRange 2 = false := by
  simp [eval, val, table, tableAux, fEval, cexRange]

theorem cexRange_wf : WF cexRange 2 := by
  refine ⟨by decide, topoB_sound _ (by decide), litnzB_sound _ (by decide), decomposableB_sound _ (by decide),
    smoothB_sound _ (by decide), ?_, rootCompleteB_sound _ _ (by decide)⟩
  intro i hi cs hcs σ
  have hi' : i < 7 := hi
  match i, hi' with
  | 0, _ => simp [cexRange] at hcs
  | 1, _ =>
    simp [cexRange] at hcs; subst hcs; simp
  | 2, _ => simp [cexRange] at hcs
  | 3, _ => simp [cexRange] at hcs
  | 4, _ => simp [cexRange] at hcs
  | 5, _ => simp [cexRange] at hcs
  | 6, _ =>
    simp [cexRange] at hcs; subst hcs
    simp [List.countP_cons, cexRange_eval2]
    split <;> omega

/-- `LitRange` does not follow from `WF` (not even with `HasParents`): a literal leaf below an
unsatisfiable child of an or-node is invisible to `Smooth` and `RootComplete`. -/
theorem wf_not_litRange :
    ∃ (nodes : List NType) (n : Nat), 2 ≤ n ∧ WF nodes n ∧ MS.HasParents nodes ∧ ¬ LitRange nodes n := by
  refine ⟨cexRange, 2, Nat.le_refl _, cexRange_wf, ?_, ?_⟩
  · intro j hj
    have hj' : j + 1 < 7 := hj
    match j, hj' with
    | 0, _ => exact ⟨2, by decide, by decide, by simp [children, cexRange]⟩
    | 1, _ => exact ⟨2, by decide, by decide, by simp [children, cexRange]⟩
    | 2, _ => exact ⟨6, by decide, by decide, by simp [children, cexRange]⟩
    | 3, _ => exact ⟨5, by decide, by decide, by simp [children, cexRange]⟩
    | 4, _ => exact ⟨5, by decide, by decide, by simp [children, cexRange]⟩
    | 5, _ => exact ⟨6, by decide, by decide, by simp [children, cexRange]⟩
  · intro h
    have := (h (.lit 5) (by simp [cexRange]) 5 rfl).2
    revert this; decide

end Ddnnf
