/-
  Proofs about the stream protocol model (`Model/StreamMsg.lean`): error codes, preservation of the
  state (cursor and clause cache) by `handleC` — with the statements about `handle` (nnf-loaded model)
  as corollaries —, the link between an accepted `clause-update` and `CC.update`, inclusive ranges,
  per-variable answers, and independence of the order of the parameter groups.
-/
import DdnnfVerif.Model.StreamMsg
namespace Ddnnf.Msg

/-! ### error codes -/

/-- a reply is a result or an error with a documented code E2..E6 -/
def Reply.CodeOK : Reply → Prop
  | .ok _ => True
  | .err c _ => 2 ≤ c ∧ c ≤ 6

@[simp] theorem Reply.codeOK_ok (t : Option String) : (Reply.ok t).CodeOK := trivial
@[simp] theorem Reply.codeOK_err (c : Nat) (t : Option String) :
    (Reply.err c t).CodeOK ↔ 2 ≤ c ∧ c ≤ 6 := Iff.rfl

/-- an error reply with a documented code E2..E6 (what the parsers return when they reject) -/
def Reply.ErrOK : Reply → Prop
  | .ok _ => False
  | .err c _ => 2 ≤ c ∧ c ≤ 6

@[simp] theorem Reply.errOK_ok (t : Option String) : (Reply.ok t).ErrOK ↔ False := Iff.rfl
@[simp] theorem Reply.errOK_err (c : Nat) (t : Option String) :
    (Reply.err c t).ErrOK ↔ 2 ≤ c ∧ c ≤ 6 := Iff.rfl

theorem Reply.ErrOK.codeOK {r : Reply} (h : r.ErrOK) : r.CodeOK := by
  cases r with
  | ok t => trivial
  | err c t => exact h

theorem Reply.ErrOK.not_ok {r : Reply} (h : r.ErrOK) (t : Option String) : r ≠ .ok t := by
  rintro rfl; exact h

theorem boundaryErr_errOK (b : Nat) : (boundaryErr b).ErrOK := by
  simp [boundaryErr, E]

theorem getNumbers_boundaryCheck_errOK (b : Nat) (nums : List Int) (k : Nat) (r : Reply)
    (h : getNumbers.boundaryCheck b nums k = .fail r) : r.ErrOK := by
  unfold getNumbers.boundaryCheck at h
  split at h
  · cases h; exact boundaryErr_errOK b
  · cases h

theorem getNumbers_finish_errOK (b : Nat) (nums : List Int) (k : Nat) (r : Reply)
    (h : getNumbers.finish b nums k = .fail r) : r.ErrOK := by
  unfold getNumbers.finish at h
  split at h
  · cases h; simp [E]
  · exact getNumbers_boundaryCheck_errOK b nums k r h

theorem getNumbers_go_errOK (b : Nat) (ps : List String) (nums : List Int) (k : Nat) (r : Reply)
    (h : getNumbers.go b ps nums k = .fail r) : r.ErrOK := by
  fun_induction getNumbers.go b ps nums k with
  | case1 nums k => exact getNumbers_finish_errOK b nums k r h
  | case2 w rest nums k hw => exact getNumbers_boundaryCheck_errOK b nums k r h
  | case3 w rest nums k hw hp => cases h; simp
  | case4 w rest nums k hw x y hp hb => cases h; exact boundaryErr_errOK b
  | case5 w rest nums k hw x y hp hb ih => exact ih h

theorem getNumbers_errOK (b : Nat) (ps : List String) (r : Reply)
    (h : getNumbers b ps = .fail r) : r.ErrOK :=
  getNumbers_go_errOK b ps [] 0 r h

theorem getFloats_go_errOK (ps : List String) (k : Nat) (r : Reply)
    (h : getFloats.go ps k = .inr r) : r.ErrOK := by
  fun_induction getFloats.go ps k <;> first | (cases h; simp [E]; done) | (cases h; done) | simp_all

theorem getFloats_errOK (ps : List String) (r : Reply) (h : getFloats ps = .inr r) : r.ErrOK :=
  getFloats_go_errOK ps 0 r h

theorem parseClauses_each_errOK (total : Nat) (args : List String) (cs : List (List String)) (k : Nat)
    (acc : List (List Int)) (r : Reply) (h : parseClauses.each total args cs k acc = .inr r) :
    r.ErrOK := by
  induction cs generalizing k acc with
  | nil => simp [parseClauses.each] at h
  | cons c cs ih =>
      simp only [parseClauses.each] at h
      split at h
      · rename_i hg; cases h; exact getNumbers_errOK total _ _ hg
      · exact ih _ _ h

theorem parseClauses_errOK (total : Nat) (args : List String) (r : Reply)
    (h : parseClauses total args = .inr r) : r.ErrOK := by
  simp only [parseClauses] at h
  split at h
  · cases h; simp [E]
  · cases h; simp [E]
  · exact parseClauses_each_errOK _ _ _ _ _ _ h

theorem paramLoop_errOK (total fuel : Nat) (ts : List String) (p : Params) (r : Reply)
    (h : paramLoop total fuel ts p = .inr r) : r.ErrOK := by
  fun_induction paramLoop total fuel ts p <;> first
    | (cases h; done)
    | (cases h; simp [E]; done)
    | (rename_i ih; exact ih h)
    | (cases h; rename_i hg; first | exact getNumbers_errOK _ _ _ hg | exact getFloats_errOK _ _ hg | exact parseClauses_errOK _ _ _ hg)

/-! ### the handler -/

theorem enumerate_none_cursor (nodes : List NType) (n : Nat) (cur : Cursor) (A : List Int) (amount : Nat)
    (h : (enumerate nodes n cur A amount).2 = none) : (enumerate nodes n cur A amount).1 = cur := by
  simp only [enumerate] at *
  repeat' split
  all_goals first | rfl | simp_all

/-- what one message does to the state of the handler: the reply carries a documented code, and either
the state is the old one (and then a result is not the answer to `clause-update` / `undo-update`), or
the reply is a result and the command is `enum` (cache kept), an accepted `clause-update` (the cache
is the updated one) or `undo-update` (there is a cache) -/
def Step (st : HState) (hd : String) (x : HState × Reply) : Prop :=
  x.2.CodeOK ∧
    ((x.1 = st ∧ ((∃ t, x.2 = .ok t) → hd ≠ "clause-update" ∧ hd ≠ "undo-update")) ∨
     ((∃ t, x.2 = .ok t) ∧
      ((hd = "enum" ∧ x.1.cache = st.cache) ∨
       (hd = "clause-update" ∧ ∃ c total adds rmvs, st.cache = some c ∧
          (CC.update c (some total) adds rmvs).2 = .ok ∧
          x.1.cache = some (CC.update c (some total) adds rmvs).1) ∨
       (hd = "undo-update" ∧ st.cache ≠ none))))

theorem step_ok (st : HState) (hd : String) (t : Option String)
    (h1 : hd ≠ "clause-update") (h2 : hd ≠ "undo-update") : Step st hd (st, .ok t) :=
  ⟨trivial, Or.inl ⟨rfl, fun _ => ⟨h1, h2⟩⟩⟩

theorem step_err (st : HState) (hd : String) (r : Reply) (h : r.ErrOK) : Step st hd (st, r) :=
  ⟨h.codeOK, Or.inl ⟨rfl, fun ⟨t, ht⟩ => absurd ht (h.not_ok t)⟩⟩

theorem step_E (st : HState) (hd : String) (c : Nat) (s : String) (h : 2 ≤ c ∧ c ≤ 6) :
    Step st hd (st, E c s) :=
  step_err st hd (E c s) h

theorem step_ite {st : HState} {hd : String} {c : Prop} [Decidable c] {a b : HState × Reply}
    (ha : Step st hd a) (hb : Step st hd b) : Step st hd (if c then a else b) := by
  split <;> assumption

/-- the arms of the dispatch that do not touch the state (the command is neither `clause-update` nor
`undo-update`: both facts are in the context) -/
macro "easy_steps" : tactic =>
  `(tactic| repeat first
      | exact step_ok _ _ _ (by assumption) (by assumption)
      | exact step_E _ _ _ _ ⟨by decide, by decide⟩
      | apply step_ite
      | split)

theorem enum_branch (nodes : List NType) (n : Nat) (st : HState) (A : List Int) (lim : Nat)
    (f : List Config → Option String) (s : String) :
    let e := enumerate nodes n st.cur A lim
    let x : HState × Reply := match e.2 with
      | some cs => ({ st with cur := e.1 }, .ok (f cs))
      | none => ({ st with cur := e.1 }, E 5 s)
    Step st "enum" x := by
  intro e x
  have hn := enumerate_none_cursor nodes n st.cur A lim
  cases he : e.2 with
  | none =>
      have : x = (st, E 5 s) := by
        have h1 : e.1 = st.cur := hn he
        simp only [x, he, h1]
      rw [this]
      exact step_E _ _ _ _ ⟨by decide, by decide⟩
  | some cs =>
      have : x = ({ st with cur := e.1 }, .ok (f cs)) := by simp only [x, he]
      rw [this]
      exact ⟨trivial, Or.inr ⟨⟨_, rfl⟩, Or.inl ⟨rfl, rfl⟩⟩⟩

theorem update_branch (st : HState) (c : CC.Cache) (hc : st.cache = some c) (total : Nat)
    (adds rmvs : List (List Int)) (s : String) :
    let u := CC.update c (some total) adds rmvs
    let x : HState × Reply :=
      if u.2 == .ok then ({ st with cache := some u.1, cur := [] }, .ok (some "")) else (st, E 5 s)
    Step st "clause-update" x := by
  intro u x
  by_cases hv : (u.2 == .ok) = true
  · have : x = ({ st with cache := some u.1, cur := [] }, .ok (some "")) := by simp only [x, hv, if_true]
    rw [this]
    exact ⟨trivial, Or.inr ⟨⟨_, rfl⟩, Or.inr (Or.inl ⟨rfl, c, total, adds, rmvs, hc, by simpa using hv, rfl⟩)⟩⟩
  · have : x = (st, E 5 s) := by simp only [x, hv]; rfl
    rw [this]
    exact step_E _ _ _ _ ⟨by decide, by decide⟩

/-- the handler: see `Step` -/
theorem handleC_spec (nodes : List NType) (n : Nat) (st : HState) (line : String) :
    Step st ((tokens line).head?.getD "") (handleC nodes n st line) := by
  simp only [handleC]
  split
  · exact step_E _ _ _ _ ⟨by decide, by decide⟩
  · rename_i cmd tail htok
    split
    · exact step_E _ _ _ _ ⟨by decide, by decide⟩
    · split
      · rename_i r heq
        apply step_err
        repeat' split at heq
        all_goals first | (cases heq; simp [E]; done) | (cases heq; done)
      · rename_i total args heq
        clear heq
        split
        · rename_i r hr
          exact step_err _ _ _ (paramLoop_errOK _ _ _ _ _ hr)
        · rename_i p hp
          have hhd : (tokens line).head?.getD "" = cmd := by rw [htok]; rfl
          rw [hhd]
          clear hp htok hhd
          by_cases h8 : cmd = "clause-update"
          · subst h8
            iterate 7 rw [if_neg (by decide)]
            rw [if_pos (by decide)]
            split
            · exact step_E _ _ _ _ ⟨by decide, by decide⟩
            · rename_i c hc
              exact update_branch st c hc total p.adds p.rmvs _
          by_cases h9 : cmd = "undo-update"
          · subst h9
            iterate 8 rw [if_neg (by decide)]
            rw [if_pos (by decide)]
            split
            · exact step_E _ _ _ _ ⟨by decide, by decide⟩
            · rename_i c hc
              exact ⟨trivial, Or.inr ⟨⟨_, rfl⟩, Or.inr (Or.inr ⟨rfl, by simp [hc]⟩)⟩⟩
          iterate 3 apply step_ite (step_ok _ _ _ h8 h9)
          by_cases h4 : (cmd == "enum") = true
          · rw [if_pos h4]
            obtain rfl : cmd = "enum" := by simpa using h4
            exact enum_branch nodes n st p.params _ _ _
          rw [if_neg h4]
          have h8' : ¬(cmd == "clause-update") = true := by simpa using h8
          have h9' : ¬(cmd == "undo-update") = true := by simpa using h9
          rw [if_neg h8', if_neg h9']
          easy_steps

/-! #### the statements about the CNF-loaded handler -/

theorem handleC_code_ok (nodes : List NType) (n : Nat) (st : HState) (line : String) :
    match (handleC nodes n st line).2 with
    | .ok _ => True
    | .err c _ => 2 ≤ c ∧ c ≤ 6 :=
  (handleC_spec nodes n st line).1

/-- a rejected line changes neither the cursor nor the clause cache -/
theorem handleC_err_keeps_state (nodes : List NType) (n : Nat) (st : HState) (line : String)
    (c : Nat) (t : Option String) (h : (handleC nodes n st line).2 = .err c t) :
    (handleC nodes n st line).1 = st := by
  rcases (handleC_spec nodes n st line).2 with ⟨h', _⟩ | ⟨⟨t', h'⟩, _⟩
  · exact h'
  · rw [h] at h'; cases h'

theorem handleC_err_keeps_cursor_and_cache (nodes : List NType) (n : Nat) (st : HState) (line : String)
    (c : Nat) (t : Option String) (h : (handleC nodes n st line).2 = .err c t) :
    (handleC nodes n st line).1.cur = st.cur ∧ (handleC nodes n st line).1.cache = st.cache := by
  rw [handleC_err_keeps_state nodes n st line c t h]; exact ⟨rfl, rfl⟩

theorem head_of_getD {l : List String} {s : String} (hs : s ≠ "") (h : l.head?.getD "" = s) :
    l.head? = some s := by
  cases l with
  | nil => exact absurd h.symm hs
  | cons a t => exact congrArg some h

/-- the clause cache changes at most by `clause-update` and `undo-update` -/
theorem handleC_cache_changes_only_by_update_or_undo (nodes : List NType) (n : Nat) (st : HState)
    (line : String) (h : (tokens line).head? ≠ some "clause-update")
    (h' : (tokens line).head? ≠ some "undo-update") :
    (handleC nodes n st line).1.cache = st.cache := by
  rcases (handleC_spec nodes n st line).2 with ⟨hs, _⟩ | ⟨_, ⟨_, hc⟩ | ⟨hd, _⟩ | ⟨hd, _⟩⟩
  · rw [hs]
  · exact hc
  · exact absurd (head_of_getD (by decide) hd) h
  · exact absurd (head_of_getD (by decide) hd) h'

/-- every command other than `enum`, `clause-update` and `undo-update` leaves the whole state alone -/
theorem handleC_other_keeps_state (nodes : List NType) (n : Nat) (st : HState) (line : String)
    (h : (tokens line).head? ≠ some "enum") (h' : (tokens line).head? ≠ some "clause-update")
    (h'' : (tokens line).head? ≠ some "undo-update") : (handleC nodes n st line).1 = st := by
  rcases (handleC_spec nodes n st line).2 with ⟨hs, _⟩ | ⟨_, ⟨hd, _⟩ | ⟨hd, _⟩ | ⟨hd, _⟩⟩
  · exact hs
  · exact absurd (head_of_getD (by decide) hd) h
  · exact absurd (head_of_getD (by decide) hd) h'
  · exact absurd (head_of_getD (by decide) hd) h''

/-- an accepted `clause-update` on a CNF-loaded model is an accepted `CC.update` of the clause cache,
and the new cache is the one that update produces (the bridge to `CC.run_refines`) -/
theorem handleC_update_is_cache_update (nodes : List NType) (n : Nat) (st : HState) (line : String)
    (c : CC.Cache) (t : Option String) (hcmd : (tokens line).head? = some "clause-update")
    (hc : st.cache = some c) (hok : (handleC nodes n st line).2 = .ok t) :
    ∃ total adds rmvs, (CC.update c (some total) adds rmvs).2 = .ok ∧
      (handleC nodes n st line).1.cache = some (CC.update c (some total) adds rmvs).1 := by
  have hhd : (tokens line).head?.getD "" = "clause-update" := by rw [hcmd]; rfl
  have hs := (handleC_spec nodes n st line).2
  rw [hhd] at hs
  rcases hs with ⟨_, hne⟩ | ⟨_, ⟨hd, _⟩ | ⟨_, c', total, adds, rmvs, hc', hv, hn⟩ | ⟨hd, _⟩⟩
  · exact absurd rfl (hne ⟨t, hok⟩).1
  · exact absurd hd (by decide)
  · have : c' = c := by rw [hc] at hc'; exact (Option.some.inj hc').symm
    subst this
    exact ⟨total, adds, rmvs, hv, hn⟩
  · exact absurd hd (by decide)

/-- an answered `clause-update` / `undo-update` means the model was loaded from a CNF -/
theorem handleC_update_or_undo_ok_has_cache (nodes : List NType) (n : Nat) (st : HState) (line : String)
    (t : Option String)
    (hcmd : (tokens line).head? = some "clause-update" ∨ (tokens line).head? = some "undo-update")
    (hok : (handleC nodes n st line).2 = .ok t) : st.cache ≠ none := by
  have hs := (handleC_spec nodes n st line).2
  rcases hcmd with hcmd | hcmd <;> rw [hcmd] at hs <;>
    rcases hs with ⟨_, hne⟩ | ⟨_, ⟨hd, _⟩ | ⟨hd, c', _, _, _, hc', _⟩ | ⟨hd, hc'⟩⟩
  all_goals first
    | exact absurd rfl (hne ⟨t, hok⟩).1
    | exact absurd rfl (hne ⟨t, hok⟩).2
    | exact absurd hd (by decide)
    | exact hc'
    | (rw [hc']; exact Option.some_ne_none _)

/-! #### the handler of a model loaded from an nnf file: corollaries -/

theorem handle_code_ok (nodes : List NType) (n : Nat) (cur : Cursor) (line : String) :
    match (handle nodes n cur line).2 with
    | .ok _ => True
    | .err c _ => 2 ≤ c ∧ c ≤ 6 :=
  handleC_code_ok nodes n { cur := cur, cache := none } line

theorem handle_err_keeps_cursor (nodes : List NType) (n : Nat) (cur : Cursor) (line : String)
    (c : Nat) (t : Option String) (h : (handle nodes n cur line).2 = .err c t) :
    (handle nodes n cur line).1 = cur :=
  congrArg HState.cur (handleC_err_keeps_state nodes n { cur := cur, cache := none } line c t h)

theorem handle_non_enum_keeps_cursor (nodes : List NType) (n : Nat) (cur : Cursor) (line : String)
    (h : (tokens line).head? ≠ some "enum") : (handle nodes n cur line).1 = cur := by
  show (handleC nodes n { cur := cur, cache := none } line).1.cur = cur
  rcases (handleC_spec nodes n { cur := cur, cache := none } line).2 with
    ⟨hs, _⟩ | ⟨_, ⟨hd, _⟩ | ⟨_, _, _, _, _, hc, _⟩ | ⟨_, hc⟩⟩
  · rw [hs]
  · exact absurd (head_of_getD (by decide) hd) h
  · cases hc
  · exact absurd rfl hc

/-! ### ranges and per-variable answers -/

theorem mem_rangeIncl (a b x : Int) : x ∈ rangeIncl a b ↔ a ≤ x ∧ x ≤ b := by
  unfold rangeIncl
  split
  · simp; omega
  · simp only [List.mem_map, List.mem_range]
    constructor
    · rintro ⟨k, hk, rfl⟩; omega
    · rintro ⟨h1, h2⟩
      exact ⟨(x - a).toNat, by omega, by omega⟩

theorem opWithVars_vars (op : List Int → Bool → Option String) (A V : List Int) (hV : V ≠ []) :
    opWithVars op A V = joinSemi (V.filterMap fun v => op (A ++ [v]) true) := by
  cases V with
  | nil => exact absurd rfl hV
  | cons v vs => simp [opWithVars]

/-! ### parameter groups and independence of their order -/

/-- a parameter group of the protocol: a keyword followed by its value tokens -/
inductive Group where
  | assumptions (vals : List String)
  | variables (vals : List String)
  | fitness (vals : List String)
  | seed (v : String)
  | limit (v : String)
  | path (v : String)

/-- which field of `Params` the group sets -/
def Group.kind : Group → Nat
  | .assumptions _ => 0
  | .variables _ => 1
  | .fitness _ => 2
  | .seed _ => 3
  | .limit _ => 4
  | .path _ => 5

/-- the tokens of the group: keyword (short spelling) and value tokens -/
def Group.render : Group → List String
  | .assumptions vs => "a" :: vs
  | .variables vs => "v" :: vs
  | .fitness vs => "f" :: vs
  | .seed v => ["s", v]
  | .limit v => ["l", v]
  | .path v => ["p", v]

def renderGroups (gs : List Group) : List String := gs.flatMap Group.render

/-- the answer of `get_numbers` / `get_floats` for a keyword at the end of the line without value -/
def noValueErr : Reply := E 4 "E4 error: option used but there was no value supplied"

/-- The value tokens of a number group end exactly where the next keyword starts: there is at least
one value token and none contains a letter.  For assumptions / variables the group must moreover not
be one that `get_numbers` rejects as "no value supplied" when it stands at the end of the line (this
happens when all its tokens denote only `0`, e.g. `a 0`: in the middle of a line such a group is
accepted with an empty list, at the end it is rejected — the order matters for such a group). -/
def Group.WellDelimited (total : Nat) : Group → Prop
  | .assumptions vs => vs ≠ [] ∧ (∀ w ∈ vs, hasAlpha w = false) ∧ getNumbers total vs ≠ .fail noValueErr
  | .variables vs => vs ≠ [] ∧ (∀ w ∈ vs, hasAlpha w = false) ∧ getNumbers total vs ≠ .fail noValueErr
  | .fitness vs => vs ≠ [] ∧ (∀ w ∈ vs, hasAlpha w = false)
  | .seed _ => True
  | .limit _ => True
  | .path _ => True

/-- the effect of one group on the parameter record: a field update, or the line is rejected.
Whether the group is rejected depends only on the group (and the number of features). -/
def Group.effect (total : Nat) : Group → (Params → Params) ⊕ Reply
  | .assumptions vs =>
      match getNumbers total vs with
      | .ok nums _ => .inl fun p => { p with params := nums }
      | .fail r => .inr r
  | .variables vs =>
      match getNumbers total vs with
      | .ok nums _ => .inl fun p => { p with values := nums }
      | .fail r => .inr r
  | .fitness vs =>
      match getFloats vs with
      | .inl (some (cnt, _)) => .inl fun p => { p with fitness := cnt }
      | .inl none => .inl id
      | .inr r => .inr r
  | .seed v =>
      if isNatTok v 18446744073709551615 then .inl fun p => { p with seed := parseNatTok v }
      else .inr (.err 3 none)
  | .limit v =>
      if isNatTok v 18446744073709551615 then .inl fun p => { p with limit := some (parseNatTok v) }
      else .inr (.err 3 none)
  | .path v => .inl fun p => { p with path := v }

def applyGroup (total : Nat) (p : Params) (g : Group) : Params ⊕ Reply :=
  match g.effect total with
  | .inl f => .inl (f p)
  | .inr r => .inr r

/-- the groups applied one after the other -/
def runGroups (total : Nat) : List Group → Params → Params ⊕ Reply
  | [], p => .inl p
  | g :: gs, p =>
      match applyGroup total p g with
      | .inl p' => runGroups total gs p'
      | .inr r => .inr r

/-- both lines are rejected, or both are accepted with the same parameter record -/
def ParamsAgree : Params ⊕ Reply → Params ⊕ Reply → Prop
  | .inl p, .inl q => p = q
  | .inr _, .inr _ => True
  | _, _ => False

theorem ParamsAgree.refl (x : Params ⊕ Reply) : ParamsAgree x x := by
  cases x <;> simp [ParamsAgree]

theorem ParamsAgree.symm {x y : Params ⊕ Reply} (h : ParamsAgree x y) : ParamsAgree y x := by
  cases x <;> cases y <;> simp_all [ParamsAgree]

theorem ParamsAgree.trans {x y z : Params ⊕ Reply} (h1 : ParamsAgree x y) (h2 : ParamsAgree y z) :
    ParamsAgree x z := by
  cases x <;> cases y <;> cases z <;> simp_all [ParamsAgree]

/-- the rest of the line after a group: nothing, or something starting with a word with a letter -/
def Starts (rest : List String) : Prop := rest = [] ∨ ∃ w r, rest = w :: r ∧ hasAlpha w = true

theorem starts_renderGroups (gs : List Group) : Starts (renderGroups gs) := by
  cases gs with
  | nil => exact Or.inl rfl
  | cons g gs =>
      refine Or.inr ?_
      cases g <;> simp only [renderGroups, List.flatMap_cons, Group.render, List.cons_append]
      all_goals exact ⟨_, _, rfl, by decide⟩

/-! #### `get_numbers` on the value tokens of a group -/

theorem getNumbers_go_append (b : Nat) (w : String) (rest : List String) (hw : hasAlpha w = true) :
    ∀ (vs : List String) (nums : List Int) (k : Nat), (∀ v ∈ vs, hasAlpha v = false) →
      getNumbers.go b vs nums k ≠ .fail noValueErr →
      getNumbers.go b (vs ++ w :: rest) nums k = getNumbers.go b vs nums k := by
  intro vs
  induction vs with
  | nil =>
      intro nums k _ hne
      simp only [List.nil_append, getNumbers.go, hw, if_true]
      simp only [getNumbers.go] at hne
      unfold getNumbers.finish at *
      split
      · rename_i he
        rw [if_pos he] at hne
        exact absurd rfl hne
      · rfl
  | cons v vs ih =>
      intro nums k hvs hne
      have hv : hasAlpha v = false := hvs v (List.mem_cons_self)
      simp only [List.cons_append, getNumbers.go, hv, Bool.false_eq_true, if_false] at hne ⊢
      split
      · rfl
      · split
        · rfl
        · rename_i hp hb
          simp only [hp, hb] at hne
          exact ih _ _ (fun x hx => hvs x (List.mem_cons_of_mem _ hx)) hne

theorem getNumbers_go_consumed (b : Nat) (vs : List String) (nums : List Int) (k : Nat)
    (nums' : List Int) (k' : Nat) (hvs : ∀ v ∈ vs, hasAlpha v = false)
    (h : getNumbers.go b vs nums k = .ok nums' k') : k' = k + vs.length := by
  fun_induction getNumbers.go b vs nums k with
  | case1 nums k =>
      simp only [getNumbers.finish, getNumbers.boundaryCheck] at h
      split at h
      · cases h
      · split at h
        · cases h
        · cases h; rfl
  | case2 w rest nums k hw => simp [hvs w (List.mem_cons_self)] at hw
  | case3 w rest nums k hw hp => cases h
  | case4 w rest nums k hw x y hp hb => cases h
  | case5 w rest nums k hw x y hp hb ih =>
      have := ih (fun x hx => hvs x (List.mem_cons_of_mem _ hx)) h
      simp only [List.length_cons]; omega

theorem getNumbers_group (total : Nat) (vs rest : List String) (hvs : ∀ v ∈ vs, hasAlpha v = false)
    (hne : getNumbers total vs ≠ .fail noValueErr) (hr : Starts rest) :
    getNumbers total (vs ++ rest) = getNumbers total vs := by
  rcases hr with rfl | ⟨w, r, rfl, hw⟩
  · rw [List.append_nil]
  · exact getNumbers_go_append total w r hw vs [] 0 hvs hne

theorem getNumbers_consumed (total : Nat) (vs : List String) (nums : List Int) (k : Nat)
    (hvs : ∀ v ∈ vs, hasAlpha v = false) (h : getNumbers total vs = .ok nums k) : k = vs.length := by
  have := getNumbers_go_consumed total vs [] 0 nums k hvs h
  omega

/-! #### `get_floats` on the value tokens of a group -/

theorem getFloats_go_append (w : String) (rest : List String) (hw : hasAlpha w = true) :
    ∀ (vs : List String) (k : Nat), (∀ v ∈ vs, hasAlpha v = false) → (vs ≠ [] ∨ k ≠ 0) →
      getFloats.go (vs ++ w :: rest) k = getFloats.go vs k := by
  intro vs
  induction vs with
  | nil =>
      intro k _ hk
      have hk' : k ≠ 0 := by simpa using hk
      simp [getFloats.go, hw, hk']
  | cons v vs ih =>
      intro k hvs _
      have hv : hasAlpha v = false := hvs v (List.mem_cons_self)
      simp only [List.cons_append, getFloats.go, hv, Bool.false_eq_true, if_false]
      split
      · exact ih _ (fun x hx => hvs x (List.mem_cons_of_mem _ hx)) (Or.inr (by omega))
      · rfl

theorem getFloats_go_consumed (vs : List String) (k : Nat) (hvs : ∀ v ∈ vs, hasAlpha v = false)
    (x : Option (Nat × Nat)) (h : getFloats.go vs k = .inl x) : x = some (k + vs.length, k + vs.length) := by
  fun_induction getFloats.go vs k with
  | case1 k hk => cases h
  | case2 k hk => cases h; rfl
  | case3 w rest k hw => simp [hvs w (List.mem_cons_self)] at hw
  | case4 w rest k hw hf ih =>
      have := ih (fun x hx => hvs x (List.mem_cons_of_mem _ hx)) h
      simp only [List.length_cons]; rw [this]; congr 2 <;> omega
  | case5 w rest k hw hf => cases h

theorem getFloats_group (vs rest : List String) (hvs : ∀ v ∈ vs, hasAlpha v = false) (hne : vs ≠ [])
    (hr : Starts rest) : getFloats (vs ++ rest) = getFloats vs := by
  rcases hr with rfl | ⟨w, r, rfl, hw⟩
  · rw [List.append_nil]
  · exact getFloats_go_append w r hw vs 0 hvs (Or.inl hne)

theorem getFloats_consumed (vs : List String) (hvs : ∀ v ∈ vs, hasAlpha v = false)
    (x : Option (Nat × Nat)) (h : getFloats vs = .inl x) : x = some (vs.length, vs.length) := by
  have := getFloats_go_consumed vs 0 hvs x h
  simpa using this

/-! #### one group in the parameter loop -/

theorem paramLoop_a (total fuel : Nat) (rest : List String) (p : Params) :
    paramLoop total (fuel + 1) ("a" :: rest) p =
      match getNumbers total rest with
      | .ok nums len => paramLoop total fuel (rest.drop len) { p with params := nums }
      | .fail r => .inr r := by
  simp only [paramLoop]; rfl

theorem paramLoop_v (total fuel : Nat) (rest : List String) (p : Params) :
    paramLoop total (fuel + 1) ("v" :: rest) p =
      match getNumbers total rest with
      | .ok nums len => paramLoop total fuel (rest.drop len) { p with values := nums }
      | .fail r => .inr r := by
  simp only [paramLoop]; rfl

theorem paramLoop_f (total fuel : Nat) (rest : List String) (p : Params) :
    paramLoop total (fuel + 1) ("f" :: rest) p =
      match getFloats rest with
      | .inl (some (cnt, len)) => paramLoop total fuel (rest.drop len) { p with fitness := cnt }
      | .inl none => .inl p
      | .inr r => .inr r := by
  simp only [paramLoop]; rfl

theorem paramLoop_s (total fuel : Nat) (v : String) (rest : List String) (p : Params) :
    paramLoop total (fuel + 1) ("s" :: v :: rest) p =
      if isNatTok v 18446744073709551615 then paramLoop total fuel rest { p with seed := parseNatTok v }
      else .inr (.err 3 none) := by
  simp only [paramLoop]; rfl

theorem paramLoop_l (total fuel : Nat) (v : String) (rest : List String) (p : Params) :
    paramLoop total (fuel + 1) ("l" :: v :: rest) p =
      if isNatTok v 18446744073709551615 then
        paramLoop total fuel rest { p with limit := some (parseNatTok v) }
      else .inr (.err 3 none) := by
  simp only [paramLoop]; rfl

theorem paramLoop_p (total fuel : Nat) (v : String) (rest : List String) (p : Params) :
    paramLoop total (fuel + 1) ("p" :: v :: rest) p = paramLoop total fuel rest { p with path := v } := by
  simp only [paramLoop]; rfl

/-- a well-delimited group at the front of the remaining tokens is consumed entirely and has the
effect `applyGroup`, whatever follows it (nothing or the next keyword) -/
theorem paramLoop_group (total : Nat) (g : Group) (rest : List String) (fuel : Nat) (p : Params)
    (hg : g.WellDelimited total) (hr : Starts rest) (hf : (g.render ++ rest).length ≤ fuel) :
    paramLoop total fuel (g.render ++ rest) p =
      match applyGroup total p g with
      | .inl p' => paramLoop total (fuel - 1) rest p'
      | .inr r => .inr r := by
  cases fuel with
  | zero => cases g <;> simp [Group.render] at hf
  | succ fuel =>
    cases g with
    | assumptions vs =>
        obtain ⟨_, hvs, hne⟩ := hg
        simp only [Group.render, List.cons_append, paramLoop_a, applyGroup, Group.effect]
        rw [getNumbers_group total vs rest hvs hne hr]
        cases hn : getNumbers total vs with
        | fail r => rfl
        | ok nums len =>
            have := getNumbers_consumed total vs nums len hvs hn
            subst this
            simp only [List.drop_left, Nat.add_sub_cancel]
    | variables vs =>
        obtain ⟨_, hvs, hne⟩ := hg
        simp only [Group.render, List.cons_append, paramLoop_v, applyGroup, Group.effect]
        rw [getNumbers_group total vs rest hvs hne hr]
        cases hn : getNumbers total vs with
        | fail r => rfl
        | ok nums len =>
            have := getNumbers_consumed total vs nums len hvs hn
            subst this
            simp only [List.drop_left, Nat.add_sub_cancel]
    | fitness vs =>
        obtain ⟨hne, hvs⟩ := hg
        simp only [Group.render, List.cons_append, paramLoop_f, applyGroup, Group.effect]
        rw [getFloats_group vs rest hvs hne hr]
        cases hn : getFloats vs with
        | inr r => rfl
        | inl x =>
            have := getFloats_consumed vs hvs x hn
            subst this
            simp only [List.drop_left, Nat.add_sub_cancel]
    | seed v =>
        simp only [Group.render, List.cons_append, List.nil_append, paramLoop_s, applyGroup, Group.effect]
        split <;> simp
    | limit v =>
        simp only [Group.render, List.cons_append, List.nil_append, paramLoop_l, applyGroup, Group.effect]
        split <;> simp
    | path v =>
        simp only [Group.render, List.cons_append, List.nil_append, paramLoop_p, applyGroup, Group.effect,
          Nat.add_sub_cancel]

theorem paramLoop_nil (total fuel : Nat) (p : Params) : paramLoop total fuel [] p = .inl p := by
  cases fuel <;> rfl

/-- the parameter loop on a line of well-delimited groups applies the groups one after the other -/
theorem paramLoop_render (total : Nat) (gs : List Group) (hw : ∀ g ∈ gs, g.WellDelimited total) :
    ∀ (fuel : Nat) (p : Params), (renderGroups gs).length ≤ fuel →
      paramLoop total fuel (renderGroups gs) p = runGroups total gs p := by
  induction gs with
  | nil => intro fuel p _; exact paramLoop_nil total fuel p
  | cons g gs ih =>
      intro fuel p hf
      have hcons : renderGroups (g :: gs) = g.render ++ renderGroups gs := by
        simp [renderGroups]
      rw [hcons] at hf ⊢
      rw [paramLoop_group total g _ fuel p (hw g (List.mem_cons_self)) (starts_renderGroups gs) hf]
      simp only [runGroups]
      have hlen : 1 ≤ g.render.length := by cases g <;> simp [Group.render]
      cases applyGroup total p g with
      | inr r => rfl
      | inl p' =>
          exact ih (fun x hx => hw x (List.mem_cons_of_mem _ hx)) (fuel - 1) p'
            (by simp only [List.length_append] at hf; omega)

/-! #### groups of different kinds commute -/

theorem effect_comm (total : Nat) (g₁ g₂ : Group) (hk : g₁.kind ≠ g₂.kind) (f₁ f₂ : Params → Params)
    (h₁ : g₁.effect total = .inl f₁) (h₂ : g₂.effect total = .inl f₂) (p : Params) :
    f₁ (f₂ p) = f₂ (f₁ p) := by
  cases g₁ <;> cases g₂ <;> first
    | exact absurd rfl hk
    | (simp only [Group.effect] at h₁ h₂
       repeat' split at h₁
       all_goals repeat' split at h₂
       all_goals first
         | (cases h₁; done)
         | (cases h₂; done)
         | (cases h₁; cases h₂; rfl))

theorem runGroups_swap (total : Nat) (x y : Group) (l : List Group) (hk : x.kind ≠ y.kind) (p : Params) :
    ParamsAgree (runGroups total (y :: x :: l) p) (runGroups total (x :: y :: l) p) := by
  simp only [runGroups, applyGroup]
  cases hx : x.effect total with
  | inr rx =>
      cases hy : y.effect total with
      | inr ry => simp [ParamsAgree]
      | inl fy => simp [ParamsAgree]
  | inl fx =>
      cases hy : y.effect total with
      | inr ry => simp [ParamsAgree]
      | inl fy =>
          simp only []
          rw [effect_comm total x y hk fx fy hx hy p]
          exact ParamsAgree.refl _

theorem runGroups_perm (total : Nat) (gs gs' : List Group) (hp : gs.Perm gs')
    (hk : (gs.map Group.kind).Nodup) :
    ∀ p, ParamsAgree (runGroups total gs p) (runGroups total gs' p) := by
  induction hp with
  | nil => intro p; exact ParamsAgree.refl _
  | cons x _ ih =>
      intro p
      simp only [runGroups]
      cases applyGroup total p x with
      | inr r => simp [ParamsAgree]
      | inl p' => exact ih (by simp only [List.map_cons, List.nodup_cons] at hk; exact hk.2) p'
  | swap x y l =>
      intro p
      refine runGroups_swap total x y l ?_ p
      simp only [List.map_cons, List.nodup_cons, List.mem_cons] at hk
      intro h; exact hk.1 (Or.inl h.symm)
  | trans h₁ _ ih₁ ih₂ =>
      intro p
      exact (ih₁ hk p).trans (ih₂ ((h₁.map Group.kind).nodup_iff.mp hk) p)

/-- The result of the parameter loop does not depend on the order of the parameter groups: for
well-delimited groups of pairwise different kinds, a permutation of the groups is rejected as well or
yields the same parameter record. -/
theorem paramLoop_perm (total : Nat) (gs gs' : List Group) (hp : gs.Perm gs')
    (hk : (gs.map Group.kind).Nodup) (hw : ∀ g ∈ gs, g.WellDelimited total) :
    ParamsAgree (paramLoop total (renderGroups gs).length.succ (renderGroups gs) {})
                (paramLoop total (renderGroups gs').length.succ (renderGroups gs') {}) := by
  rw [paramLoop_render total gs hw _ _ (Nat.le_succ _),
    paramLoop_render total gs' (fun g hg => hw g (hp.mem_iff.mpr hg)) _ _ (Nat.le_succ _)]
  exact runGroups_perm total gs gs' hp hk _

/-- the hypotheses are satisfiable (and the line is accepted): `a 1 -2 v 3 s 7` -/
example :
    let gs := [Group.assumptions ["1", "-2"], Group.variables ["3"], Group.seed "7"]
    (gs.map Group.kind).Nodup ∧ (∀ g ∈ gs, g.WellDelimited 3) ∧
      paramLoop 3 (renderGroups gs).length.succ (renderGroups gs) {} =
        .inl { params := [1, -2], values := [3], seed := 7 } := by
  intro gs
  refine ⟨by decide, ?_, rfl⟩
  intro g hg
  simp only [gs, List.mem_cons, List.not_mem_nil, or_false] at hg
  rcases hg with rfl | rfl | rfl
  · refine ⟨by simp, by decide, ?_⟩
    have : getNumbers 3 ["1", "-2"] = .ok [1, -2] 2 := by rfl
    rw [this]; nofun
  · refine ⟨by simp, by decide, ?_⟩
    have : getNumbers 3 ["3"] = .ok [3] 1 := by rfl
    rw [this]; nofun
  · trivial

/-- the side condition on number groups is needed: `a 0` is accepted (with no assumptions) before
another group and rejected ("no value supplied") at the end of the line -/
example :
    paramLoop 3 5 ["a", "0", "s", "7"] {} = .inl { params := [], seed := 7 } ∧
    paramLoop 3 5 ["s", "7", "a", "0"] {} = .inr noValueErr :=
  ⟨rfl, rfl⟩

end Ddnnf.Msg
