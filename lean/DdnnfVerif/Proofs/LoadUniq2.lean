/-
  Two structural facts about the array the d4 loader produces (part 2): **one leaf per literal**.

  `LitKeys s`: every literal leaf of the graph is registered in the literal table `litNx`, and the table
  has at most one entry per literal.  Phase 1 establishes it when no node line declares a literal node
  (`lines_litKeys`); `getLit` keeps it (a literal is added only after `find?` failed), so do all the
  later phases, which create literal leaves only through `getLit` (`st4_litKeys`).  Hence the graph that
  is flattened has at most one node per literal, and the flattened array at most one leaf
  (`load_litUnique`).  No assumption on acyclicity, the error flag, or the semantics is needed.
-/
import DdnnfVerif.Proofs.LoadUniq

namespace Ddnnf.D4

/-- every literal leaf is in the literal table, which has one entry per literal -/
structure LitKeys (s : LState) : Prop where
  reg : ∀ x l, s.g.kindOf x = some (.lit l) → (l, x) ∈ s.litNx
  nodup : (s.litNx.map Prod.fst).Nodup

theorem keys_inj : ∀ (L : List (Int × Nat)), (L.map Prod.fst).Nodup →
    ∀ l x y, (l, x) ∈ L → (l, y) ∈ L → x = y := by
  intro L
  induction L with
  | nil => intro _ l x y hx; cases hx
  | cons e L ih =>
    intro hnd l x y hx hy
    rw [List.map_cons, List.nodup_cons] at hnd
    rcases List.mem_cons.1 hx with ex | hx <;> rcases List.mem_cons.1 hy with ey | hy
    · have := ex.trans ey.symm
      exact (Prod.mk.inj this).2
    · exact absurd (List.mem_map.2 ⟨(l, y), hy, by rw [← ex]⟩) hnd.1
    · exact absurd (List.mem_map.2 ⟨(l, x), hx, by rw [← ey]⟩) hnd.1
    · exact ih hnd.2 l x y hx hy

/-- at most one node per literal -/
theorem LitKeys.once {s : LState} (h : LitKeys s) : LitOnce s.g :=
  fun x y l hx hy => keys_inj _ h.nodup l x y (h.reg x l hx) (h.reg y l hy)

/-- a change of the graph that creates no literal leaf (and leaves the table alone) -/
theorem LitKeys.congr {s s' : LState} (h : LitKeys s) (hl : s'.litNx = s.litNx)
    (hk : ∀ x l, s'.g.kindOf x = some (.lit l) → s.g.kindOf x = some (.lit l)) : LitKeys s' :=
  ⟨fun x l hx => by rw [hl]; exact h.reg x l (hk x l hx), by rw [hl]; exact h.nodup⟩

theorem kindOf_addNode_lit {g : G} {k : GK} (hk : ∀ l, k ≠ .lit l) {x : Nat} {l : Int}
    (h : (g.addNode k).1.kindOf x = some (.lit l)) : g.kindOf x = some (.lit l) := by
  rw [kindOf_addNode] at h
  split at h
  · cases h; exact absurd rfl (hk l)
  · exact h

/-! ### `getLit` -/

theorem getLit_litKeys (s : LState) (l : Int) (h : LitKeys s) : LitKeys (s.getLit l).1 := by
  cases hf : s.litNx.find? (·.1 == l) with
  | some e => rw [getLit_found s l e hf]; exact h
  | none =>
    rw [getLit_new s l hf]
    refine ⟨?_, ?_⟩
    · intro x l' hk
      have hk' : (s.g.addNode (.lit l)).1.kindOf x = some (.lit l') := hk
      rw [kindOf_addNode] at hk'
      show (l', x) ∈ (l, s.g.kind.size) :: s.litNx
      split at hk'
      · rename_i hx
        cases hk'
        rw [hx]; exact List.mem_cons_self ..
      · exact List.mem_cons_of_mem _ (h.reg x l' hk')
    · show (((l, s.g.kind.size) :: s.litNx).map Prod.fst).Nodup
      rw [List.map_cons, List.nodup_cons]
      refine ⟨?_, h.nodup⟩
      intro hm
      obtain ⟨e, he, e1⟩ := List.mem_map.1 hm
      have := List.find?_eq_none.1 hf e he
      apply this
      simpa using e1

theorem getLits_litKeys (s : LState) (ls : List Int) (h : LitKeys s) : LitKeys (s.getLits ls).1 := by
  unfold LState.getLits
  refine foldl_inv (fun (acc : LState × List Nat) => LitKeys acc.1) _ _ ?_ (s, []) h
  intro acc l _ hacc
  exact getLit_litKeys acc.1 l hacc

/-! ### phase 1 -/

theorem edgeStep_litKeys (s : LState) (a b : Nat) (lits : List Int) (h : LitKeys s) :
    LitKeys (edgeStep s a b lits) := by
  unfold edgeStep
  dsimp only
  split
  · exact h.congr rfl (fun _ _ hk => hk)
  · have ht := getLits_litKeys s lits h
    show LitKeys { (s.getLits lits).1 with g :=
        (((s.getLits lits).2.foldl (fun (g : G) (x : Nat) => g.addEdge ((s.getLits lits).1.g.addNode .and).2 x)
          ((((s.getLits lits).1.g.addNode .and).1).addEdge (s.indices.getD (a - 1) 0)
            ((s.getLits lits).1.g.addNode .and).2)).addEdge ((s.getLits lits).1.g.addNode .and).2
              (s.indices.getD (b - 1) 0)) }
    generalize s.getLits lits = p at ht ⊢
    obtain ⟨s1, litNodes⟩ := p
    dsimp only at ht ⊢
    refine ht.congr rfl ?_
    intro x l hk
    have hk' : (litNodes.foldl (fun (g : G) (y : Nat) => g.addEdge (s1.g.addNode .and).2 y)
        ((s1.g.addNode .and).1.addEdge (s.indices.getD (a - 1) 0) (s1.g.addNode .and).2)).kindOf x
        = some (.lit l) := hk
    rw [fold_addEdge_kindOf, kindOf_addEdge] at hk'
    exact kindOf_addNode_lit (by intro l e; cases e) hk'

theorem stepLine_litKeys (s : LState) (line : Line) (h : LitKeys s)
    (hdecl : ∀ l, line ≠ .node (.lit l)) : LitKeys (stepLine s line) := by
  cases line with
  | node k =>
    refine ⟨?_, h.nodup⟩
    intro x l hk
    have hk' : (s.g.addNode k).1.kindOf x = some (.lit l) := hk
    exact h.reg x l (kindOf_addNode_lit (fun l e => hdecl l (by rw [e])) hk')
  | edge a b lits =>
    rw [stepLine_edge]
    apply edgeStep_litKeys
    exact ⟨h.reg, h.nodup⟩

/-- phase 1 of a text without declared literal nodes -/
theorem lines_litKeys (lines : List Line) (total : Nat) (hdecl : ∀ l, Line.node (.lit l) ∉ lines) :
    LitKeys (phase1 lines total) := by
  unfold phase1
  refine foldl_inv (fun (acc : LState) => LitKeys acc) stepLine lines ?_ { total := total } ⟨?_, ?_⟩
  · intro acc line hm hacc
    refine stepLine_litKeys acc line hacc ?_
    intro l e
    exact hdecl l (e ▸ hm)
  · intro x l hk
    have : ({ total := total } : LState).g.kindOf x = none := by
      simp [G.kindOf, Array.getD_eq_getD_getElem?]
    rw [this] at hk; cases hk
  · exact List.nodup_nil

/-! ### triangles (phases 2, 3b, 4) -/

theorem addTriangle_litKeys (s : LState) (f A : Nat) (h : LitKeys s) : LitKeys (s.addTriangle f A) := by
  cases hfind : s.tri.find? (·.1 == f) with
  | some e =>
    rw [addTriangle_found s f A e hfind]
    exact h.congr rfl (fun _ _ hk => hk)
  | none =>
    rw [addTriangle_new s f A hfind]
    unfold triNew
    dsimp only
    have h1 : LitKeys ({ s with g := (s.g.addNode .or).1, tri := (f, (s.g.addNode .or).2) :: s.tri } : LState) := by
      refine h.congr rfl ?_
      intro x l hk
      have hk' : (s.g.addNode .or).1.kindOf x = some (.lit l) := hk
      exact kindOf_addNode_lit (by intro l e; cases e) hk'
    have h3 := getLit_litKeys _ (-(f : Int)) (getLit_litKeys _ (f : Int) h1)
    exact h3.congr rfl (fun _ _ hk => hk)

theorem addTriangles_litKeys (A : Nat) : ∀ (order : List Nat) (s : LState), LitKeys s →
    LitKeys (order.foldl (fun t f => t.addTriangle f A) s) := by
  intro order
  induction order with
  | nil => intro s h; exact h
  | cons f fs ih => intro s h; rw [List.foldl_cons]; exact ih _ (addTriangle_litKeys s f A h)

theorem wrapTri_litKeys (s : LState) (root f : Nat) (h : LitKeys s) : LitKeys (wrapTri s root f).1 := by
  by_cases h0 : root = 0
  · subst h0
    rw [wrapTri_zero]
    apply addTriangle_litKeys
    refine h.congr rfl ?_
    intro x l hk
    have hk' : (s.g.addNode .and).1.kindOf x = some (.lit l) := hk
    exact kindOf_addNode_lit (by intro l e; cases e) hk'
  · rw [wrapTri_ne s root f h0]
    exact addTriangle_litKeys s f root h

theorem wrapFold_litKeys (skip : LState → Nat → Bool) (ks : List Nat) (s : LState) (root : Nat)
    (h : LitKeys s) : LitKeys (ks.foldl (wrapFoldStep skip) (s, root)).1 := by
  refine foldl_inv (fun (acc : LState × Nat) => LitKeys acc.1) _ _ ?_ (s, root) h
  intro acc k _ hacc
  unfold wrapFoldStep
  split
  · exact hacc
  · exact wrapTri_litKeys _ _ _ hacc

theorem addFree_litKeys (s : LState) (h : LitKeys s) : LitKeys (addFree s).1 := by
  rw [addFree_eq_fold]; exact wrapFold_litKeys _ _ _ _ h

theorem addVanished_litKeys (s : LState) (root : Nat) (h : LitKeys s) : LitKeys (addVanished s root).1 := by
  rw [addVanished_eq_fold]; exact wrapFold_litKeys _ _ _ _ h

/-! ### phase 3 -/

theorem elim_litKeys (s : LState) (root : Nat) (h : LitKeys s) :
    LitKeys { s with g := eliminate s.g root } := by
  refine h.congr rfl ?_
  intro x l hk
  exact (erel_eliminate s.g root).kind_back hk (by intro e; cases e)

/-! ### phase 4 -/

theorem balanceStep_litKeys (sorted : Bool) (h : List Nat → List Nat) (nx : Nat) (s : LState)
    (w : Nat × List Nat) (hs : LitKeys s) : LitKeys (balanceStep sorted h nx s w) := by
  obtain ⟨child, miss⟩ := w
  rw [balanceStep_eq]
  apply addTriangles_litKeys
  refine hs.congr rfl ?_
  intro x l hk
  have hk' : (s.g.addNode .and).1.kindOf x = some (.lit l) := hk
  exact kindOf_addNode_lit (by intro l e; cases e) hk'

theorem balance_litKeys (sorted : Bool) (h : List Nat → List Nat) (s : LState) (nx : Nat)
    (work : List (Nat × List Nat)) (hs : LitKeys s) : LitKeys (balance sorted h s nx work) := by
  rw [balance_eq]
  exact foldl_inv LitKeys _ _ (fun acc w _ hacc => balanceStep_litKeys sorted h nx acc w hacc) s hs

theorem smoothStep_litKeys (sorted : Bool) (h : List Nat → List Nat) (vs : Array (List Nat))
    (acc : LState) (nx : Nat) (hs : LitKeys acc) : LitKeys (smoothStep sorted h vs acc nx) := by
  unfold smoothStep
  split
  · exact balance_litKeys sorted h acc nx _ hs
  · exact hs

theorem smooth_litKeys (sorted : Bool) (h : List Nat → List Nat) (s : LState) (root : Nat)
    (hs : LitKeys s) : LitKeys (smooth sorted h s root) := by
  rw [smooth_eq]
  exact foldl_inv LitKeys _ _ (fun acc nx _ hacc => smoothStep_litKeys sorted h _ acc nx hacc) s hs

/-! ### the pipeline -/

theorem st4_litKeys (sorted : Bool) (h : List Nat → List Nat) (s1 : LState) (h1 : LitKeys s1) :
    LitKeys (st4 sorted h s1) := by
  unfold st4 st3
  apply smooth_litKeys
  apply addVanished_litKeys
  unfold afterElim
  exact elim_litKeys _ _ (addFree_litKeys s1 h1)

/-- **One leaf per literal** in every array the d4 loader produces from a text without declared
literal nodes (any hash iteration order, sorted or not). -/
theorem loadWith_litUnique (sorted : Bool) (h : List Nat → List Nat) (lines : List Line) (total : Nat)
    (hdecl : ∀ l, Line.node (.lit l) ∉ lines) : LitUnique (loadWith sorted h lines total).2.1 := by
  rw [loadWith_nodes, loadGraph_eq]
  exact flattenGraph_litUnique _ _ (st4_litKeys sorted h _ (lines_litKeys lines total hdecl)).once

/-- `loadWith_litUnique` for the loader of the current code -/
theorem load_litUnique' (lines : List Line) (total : Nat) (hdecl : ∀ l, Line.node (.lit l) ∉ lines) :
    LitUnique (load lines total).2.1 :=
  loadWith_litUnique true id lines total hdecl

end Ddnnf.D4
