/-
  The union-find structure of `Model/UnionFind.lean`, part 5: end to end.  `get_atomic_sets` with
  the real union-find structure (`atomicSetsUF`) computes the same report as the model with a list
  of classes (`atomicSets`, `Model/Atomic.lean`), about which C08 is proved.

  * `atomicSetsUF_eq_plain`   plain mode: equal, no side condition (arbitrary node list,
                              candidates with repetitions, arbitrary samples);
  * `atomicSetsUF_eq`         both modes; in cross mode under the hypothesis that no class of the
                              abstract run contains a literal together with its complement (the
                              clean-up sorts every set by `|·|`, and for a set with `x` and `-x` the
                              result of that sort depends on the order the members are stored in);
  * `atomicSetsUF_eq_of_wf`   that hypothesis holds for a well-formed circuit with satisfiable
                              assumptions (the hypotheses of C08 in cross mode);
  * `atomicSetsUF_eq_of_samples`  and whenever the prefilter has at least one sample.
-/
import DdnnfVerif.Proofs.UnionFind4
import DdnnfVerif.Proofs.AtomicCross

namespace Ddnnf.UF

/-! ### sorting permuted lists of sets -/

theorem lexLt_trans (a b c : List Int) (h1 : lexLt a b = true) (h2 : lexLt b c = true) :
    lexLt a c = true := by
  cases h : lexLt a c with
  | true => rfl
  | false =>
    have := lexLe_trans c a b h (lexLt_asymm a b h1)
    rw [this] at h2
    cases h2

theorem sortBy'_lexLt_perm {l1 l2 : List (List Int)} (hp : l1.Perm l2) (hnd : l1.Nodup) :
    sortBy' lexLt l1 = sortBy' lexLt l2 := by
  apply eq_of_pairwise_strict (fun a b => lexLt a b = true)
    (fun a h => by rw [lexLt_irrefl] at h; cases h) lexLt_trans _ _
    (sortBy'_lexLt_pairwise l1 hnd) (sortBy'_lexLt_pairwise l2 (hp.nodup_iff.mp hnd))
  intro z
  rw [mem_sortBy', mem_sortBy']
  exact hp.mem_iff

theorem sortBy'_headLt_perm {l1 l2 : List (List Int)} (hp : l1.Perm l2)
    (hh : l1.Pairwise (fun a b => a.headD 0 ≠ b.headD 0)) :
    sortBy' headLt l1 = sortBy' headLt l2 := by
  apply eq_of_pairwise_strict (fun a b => headLt a b = true) _ _ _ _
    (sortBy'_headLt_pairwise l1 hh)
    (sortBy'_headLt_pairwise l2 (hp.pairwise hh (fun h => Ne.symm h)))
  · intro z
    rw [mem_sortBy', mem_sortBy']
    exact hp.mem_iff
  · intro a h
    rw [headLt_iff] at h
    omega
  · intro a b c h1 h2
    rw [headLt_iff] at h1 h2 ⊢
    omega

/-! ### the structure after all groups -/

/-- the union-find structure `get_atomic_sets` has built when all groups are processed -/
def atomicUF (nodes : List NType) (n : Nat) (cands : List Nat) (A : List Int) (cross : Bool)
    (samples : List Config) : State :=
  let combos : List (Nat × Int) := cands.flatMap fun (f : Nat) =>
    let sf : Int := (f : Int)
    (execQuery nodes n ([sf] ++ A), sf) ::
      (if cross then [(execQuery nodes n ([-sf] ++ A), -sf)] else [])
  let sorted := sortBy' (fun (a b : Nat × Int) => a.1 < b.1 || (a.1 == b.1 && a.2 < b.2)) combos
  (groupByCount sorted).foldl (fun s (k, g) => subsetCheckUF nodes n A samples k g s) empty

theorem atomicSetsUF_unfold (nodes : List NType) (n : Nat) (cands : List Nat) (A : List Int)
    (cross : Bool) (samples : List Config) :
    atomicSetsUF nodes n cands A cross samples =
      if cross then
        dedupFirstAbs (sortBy' headLt
          ((subsets (atomicUF nodes n cands A cross samples)).2.map
            (sortBy' (fun a b => a.natAbs < b.natAbs))))
      else sortBy' lexLt (subsets (atomicUF nodes n cands A cross samples)).2 := by
  cases cands with
  | nil =>
    cases cross <;>
      simp [atomicSetsUF, atomicUF, sortBy', groupByCount, dedupFirstAbs, subsets, subsetsLoop, empty]
  | cons f fs => rfl

/-- **the structure after all groups is abstracted by the classes of the abstract run** -/
theorem atomicUF_abs (nodes : List NType) (n : Nat) (cands : List Nat) (A : List Int)
    (cross : Bool) (samples : List Config) :
    Abs (atomicUF nodes n cands A cross samples) (atomicClasses nodes n cands A cross samples) := by
  unfold atomicUF atomicClasses
  simp only
  generalize groupByCount _ = G
  have : ∀ (s : State) (cl : Classes), Abs s cl →
      Abs (G.foldl (fun s (kg : Nat × List Int) =>
            match kg with
            | (k, g) => subsetCheckUF nodes n A samples k g s) s)
        (G.foldl (fun cl (kg : Nat × List Int) =>
            match kg with
            | (k, g) => subsetCheck nodes n A samples k g cl) cl) := by
    induction G with
    | nil => intro s cl h; exact h
    | cons kg G ih =>
      intro s cl h
      rw [List.foldl_cons, List.foldl_cons]
      apply ih
      obtain ⟨k, g⟩ := kg
      exact subsetCheckUF_abs nodes n A samples k g h
  exact this empty [] abs_empty

/-- the sets reported by `subsets` at the end are, up to their order, the sorted classes with at
least two members of the abstract run -/
theorem atomic_subsets_perm (nodes : List NType) (n : Nat) (cands : List Nat) (A : List Int)
    (cross : Bool) (samples : List Config) :
    (subsets (atomicUF nodes n cands A cross samples)).2.Perm
      (((atomicClasses nodes n cands A cross samples).filter (fun c => c.length ≥ 2)).map
        (sortBy' (fun a b => decide (a < b)))) :=
  subsets_perm (atomicUF_abs nodes n cands A cross samples)

/-! ### end to end -/

/-- **plain mode: the model with the real union-find structure and the model with classes compute
the same report** -/
theorem atomicSetsUF_eq_plain (nodes : List NType) (n : Nat) (cands : List Nat) (A : List Int)
    (samples : List Config) :
    atomicSetsUF nodes n cands A false samples = atomicSets nodes n cands A false samples := by
  rw [atomicSetsUF_unfold, atomicSets_eq]
  simp only [Bool.false_eq_true, if_false]
  exact sortBy'_lexLt_perm (atomic_subsets_perm nodes n cands A false samples)
    (subsets_nodup _ (atomicUF_abs nodes n cands A false samples).wf)

/-- no class contains a literal together with its complement -/
def NoMirror (cl : Classes) : Prop := ∀ c ∈ cl, ∀ x ∈ c, ∀ y ∈ c, x.natAbs = y.natAbs → x = y

/-- **cross mode**, when no class of the abstract run contains a literal and its complement -/
theorem atomicSetsUF_eq_cross (nodes : List NType) (n : Nat) (cands : List Nat) (A : List Int)
    (samples : List Config) (hm : NoMirror (atomicClasses nodes n cands A true samples)) :
    atomicSetsUF nodes n cands A true samples = atomicSets nodes n cands A true samples := by
  have habs := atomicUF_abs nodes n cands A true samples
  have hperm := atomic_subsets_perm nodes n cands A true samples
  rw [atomicSetsUF_unfold, atomicSets_eq]
  simp only [if_true]
  congr 1
  have hmap := hperm.map (sortBy' (fun (a b : Int) => decide (a.natAbs < b.natAbs)))
  have hcongr : (((atomicClasses nodes n cands A true samples).filter (fun c => c.length ≥ 2)).map
        (sortBy' (fun a b => decide (a < b)))).map
          (sortBy' (fun (a b : Int) => decide (a.natAbs < b.natAbs)))
      = ((atomicClasses nodes n cands A true samples).filter (fun c => c.length ≥ 2)).map
          (sortBy' (fun (a b : Int) => decide (a.natAbs < b.natAbs))) := by
    rw [List.map_map]
    apply List.map_congr_left
    intro c hc
    have hc' := (List.mem_filter.mp hc).1
    simp only [Function.comp]
    apply sortBy'_eq_of_mem_iff (fun a => (a.natAbs : Int)) _ (by intro a b; simp)
    · exact (sortBy'_perm _ c).nodup_iff.mpr (habs.good.nodup c hc')
    · exact habs.good.nodup c hc'
    · intro x hx y hy hk
      rw [mem_sortBy'] at hx hy
      exact hm c hc' x hx y hy (by omega)
    · intro z
      exact mem_sortBy' _ c z
  rw [hcongr] at hmap
  rw [sortBy'_headLt_perm hmap.symm (sorted_classes_heads _ _ habs.good)]

/-- **`get_atomic_sets` with the real union-find structure = `get_atomic_sets` with classes** -/
theorem atomicSetsUF_eq (nodes : List NType) (n : Nat) (cands : List Nat) (A : List Int)
    (cross : Bool) (samples : List Config)
    (hm : cross = true → NoMirror (atomicClasses nodes n cands A cross samples)) :
    atomicSetsUF nodes n cands A cross samples = atomicSets nodes n cands A cross samples := by
  cases cross with
  | false => exact atomicSetsUF_eq_plain nodes n cands A samples
  | true => exact atomicSetsUF_eq_cross nodes n cands A samples (hm rfl)

/-- for a well-formed circuit with satisfiable assumptions no class contains a literal and its
complement -/
theorem noMirror_of_wf (nodes : List NType) (n : Nat) (h : Ddnnf.WF nodes n) (hu : LitUnique nodes)
    (A : List Int) (hA : InRange A n) (hsat : 0 < specCount nodes n A) (cands : List Nat)
    (hc : ∀ f ∈ cands, 1 ≤ f ∧ f ≤ n) (samples : List Config) (hs : SamplesOK nodes A samples)
    (cross : Bool) : NoMirror (atomicClasses nodes n cands A cross samples) := by
  obtain ⟨hg, _⟩ := atomicClasses_good nodes n h hu A hA cands hc samples hs cross
  intro c hcc x hx y hy hk
  by_cases hxy : x = y
  · exact hxy
  · have : y = -x := by omega
    subst this
    exact absurd (hg.rel c hcc x hx _ hy)
      (not_alwaysEqual_neg nodes n h A hA hsat x (atomicLits_ok cands n hc cross x (hg.mem c hcc x hx)))

/-- **under the hypotheses of C08** (in cross mode: with satisfiable assumptions) the two models
of `get_atomic_sets` agree -/
theorem atomicSetsUF_eq_of_wf (nodes : List NType) (n : Nat) (h : Ddnnf.WF nodes n)
    (hu : LitUnique nodes) (A : List Int) (hA : InRange A n) (cands : List Nat)
    (hc : ∀ f ∈ cands, 1 ≤ f ∧ f ≤ n) (samples : List Config) (hs : SamplesOK nodes A samples)
    (cross : Bool) (hsat : cross = true → 0 < specCount nodes n A) :
    atomicSetsUF nodes n cands A cross samples = atomicSets nodes n cands A cross samples :=
  atomicSetsUF_eq nodes n cands A cross samples
    (fun hcr => noMirror_of_wf nodes n h hu A hA (hsat hcr) cands hc samples hs cross)

/-! ### a second sufficient condition: the prefilter has at least one sample -/

/-- the truth value of the literal `x` in the sample `s` -/
def valIn (s : Config) (x : Int) : Bool :=
  if x > 0 then selectedIn s x.natAbs else !selectedIn s x.natAbs

/-- the prefilter lets a pair pass iff the two literals have the same value in every sample -/
theorem differInSample_eq_false_iff (samples : List Config) (x y : Int) :
    ¬ differInSample samples x y = true ↔ ∀ s ∈ samples, valIn s x = valIn s y := by
  simp only [differInSample, List.any_eq_true, not_exists, not_and, valIn]
  apply forall_congr'
  intro s
  apply imp_congr_right
  intro _
  by_cases hx : x > 0 <;> by_cases hy : y > 0 <;>
    cases selectedIn s x.natAbs <;> cases selectedIn s y.natAbs <;> simp [hx, hy]

theorem foldl_preserves {α β} (P : β → Prop) (f : β → α → β) (h : ∀ b a, P b → P (f b a)) :
    ∀ (l : List α) (b : β), P b → P (l.foldl f b)
  | [], _, hb => hb
  | a :: l, b, hb => foldl_preserves P f h l (f b a) (h b a hb)

/-- the members of a class have the same value in every sample -/
theorem atomicClasses_sameVal (nodes : List NType) (n : Nat) (cands : List Nat) (A : List Int)
    (cross : Bool) (samples : List Config) :
    Good (fun x y => ∀ s ∈ samples, valIn s x = valIn s y) (fun _ => True)
      (atomicClasses nodes n cands A cross samples) := by
  have hR : Equivalence (fun (x y : Int) => ∀ s ∈ samples, valIn s x = valIn s y) :=
    ⟨fun _ _ _ => rfl, fun h s hs => (h s hs).symm, fun h1 h2 s hs => (h1 s hs).trans (h2 s hs)⟩
  unfold atomicClasses
  simp only
  apply foldl_preserves _ _ _ _ _ (good_nil _ _)
  rintro cl ⟨k, g⟩ hcl
  simp only [subsetCheck]
  apply foldl_preserves _ _ _ _ _ hcl
  rintro cl ⟨x, y⟩ hcl
  simp only
  split
  · exact hcl
  · split
    · exact hcl
    · rename_i hd
      split
      · exact (unionC_good hR hcl (x := x) (y := y) trivial trivial
          ((differInSample_eq_false_iff samples x y).mp hd)).1
      · exact hcl

/-- with at least one sample no class contains a literal and its complement (the prefilter never
lets such a pair pass, and all members of a class agree in every sample) -/
theorem noMirror_of_samples (nodes : List NType) (n : Nat) (cands : List Nat) (A : List Int)
    (cross : Bool) (samples : List Config) (hs : samples ≠ []) :
    NoMirror (atomicClasses nodes n cands A cross samples) := by
  have hg := atomicClasses_sameVal nodes n cands A cross samples
  intro c hc x hx y hy hk
  by_cases hxy : x = y
  · exact hxy
  · exfalso
    have : y = -x := by omega
    subst this
    obtain ⟨s, hsm⟩ := List.exists_mem_of_ne_nil _ hs
    have := hg.rel c hc x hx _ hy s hsm
    have h0 : x ≠ 0 := by omega
    unfold valIn at this
    by_cases hpos : x > 0
    · have hneg : ¬ (-x > 0) := by omega
      rw [if_pos hpos, if_neg hneg, Int.natAbs_neg] at this
      cases h : selectedIn s x.natAbs <;> simp [h] at this
    · have hneg : -x > 0 := by omega
      rw [if_neg hpos, if_pos hneg, Int.natAbs_neg] at this
      cases h : selectedIn s x.natAbs <;> simp [h] at this

/-- **the two models of `get_atomic_sets` agree whenever the prefilter has at least one sample**
(arbitrary node list, candidates, assumptions; both modes) -/
theorem atomicSetsUF_eq_of_samples (nodes : List NType) (n : Nat) (cands : List Nat)
    (A : List Int) (cross : Bool) (samples : List Config) (hs : samples ≠ []) :
    atomicSetsUF nodes n cands A cross samples = atomicSets nodes n cands A cross samples :=
  atomicSetsUF_eq nodes n cands A cross samples
    (fun _ => noMirror_of_samples nodes n cands A cross samples hs)

end Ddnnf.UF
