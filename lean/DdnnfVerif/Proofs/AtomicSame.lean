/-
  C08 / C10 - the atomic-set report depends only on the denoted function: two well-formed arrays
  (unique leaves) over the same features with the same function report the same list of atomic
  sets, in plain and in cross mode, whatever admissible sample prefilter each of them uses.
  Route: `AlwaysEqual` over the listed models containing `A` is the same relation for both arrays
  (the listed complete configurations coincide up to the order of the literals); by the exactness
  theorems the reports have the same members; both are strictly sorted by the same order, hence
  equal.  Corollary: save / reload leaves the report unchanged.
-/
import DdnnfVerif.Proofs.AtomicCross
import DdnnfVerif.Proofs.SameFunction
import DdnnfVerif.Proofs.Flatten

namespace Ddnnf

/-! ### two strictly sorted lists with the same members are equal -/

/-- two lists that are `Pairwise` related by an asymmetric relation and have the same members are
equal -/
theorem eq_of_pairwise_same_members {α} (r : α → α → Prop) (hasym : ∀ x y, r x y → ¬ r y x) :
    ∀ (l₁ l₂ : List α), l₁.Pairwise r → l₂.Pairwise r → (∀ x, x ∈ l₁ ↔ x ∈ l₂) → l₁ = l₂
  | [], [], _, _, _ => rfl
  | [], y :: _, _, _, hm => by
    have := (hm y).mpr (List.mem_cons_self ..)
    cases this
  | x :: _, [], _, _, hm => by
    have := (hm x).mp (List.mem_cons_self ..)
    cases this
  | x :: t₁, y :: t₂, h₁, h₂, hm => by
    rw [List.pairwise_cons] at h₁ h₂
    have hxy : x = y := by
      rcases List.mem_cons.mp ((hm x).mp (List.mem_cons_self ..)) with e | hx
      · exact e
      · rcases List.mem_cons.mp ((hm y).mpr (List.mem_cons_self ..)) with e | hy
        · exact e.symm
        · exact absurd (h₁.1 y hy) (hasym _ _ (h₂.1 x hx))
    subst hxy
    have ht : t₁ = t₂ := by
      apply eq_of_pairwise_same_members r hasym t₁ t₂ h₁.2 h₂.2
      intro z
      constructor
      · intro hz
        rcases List.mem_cons.mp ((hm z).mp (List.mem_cons_of_mem _ hz)) with e | hz'
        · subst e
          exact absurd (h₁.1 z hz) (hasym _ _ (h₁.1 z hz))
        · exact hz'
      · intro hz
        rcases List.mem_cons.mp ((hm z).mpr (List.mem_cons_of_mem _ hz)) with e | hz'
        · subst e
          exact absurd (h₂.1 z hz) (hasym _ _ (h₂.1 z hz))
        · exact hz'
    rw [ht]

/-- two lists strictly sorted by a key with the same members are equal -/
theorem eq_of_sorted_same_members {α} (key : α → Nat) (l₁ l₂ : List α)
    (h₁ : l₁.Pairwise (fun x y => key x < key y)) (h₂ : l₂.Pairwise (fun x y => key x < key y))
    (hm : ∀ x, x ∈ l₁ ↔ x ∈ l₂) : l₁ = l₂ :=
  eq_of_pairwise_same_members (fun x y => key x < key y) (fun _ _ h h' => by omega) l₁ l₂ h₁ h₂ hm

/-- two lists strictly sorted by `lexLt` with the same members are equal -/
theorem eq_of_lexSorted_same_members (l₁ l₂ : List (List Int))
    (h₁ : l₁.Pairwise (fun x y => lexLt x y = true))
    (h₂ : l₂.Pairwise (fun x y => lexLt x y = true))
    (hm : ∀ x, x ∈ l₁ ↔ x ∈ l₂) : l₁ = l₂ :=
  eq_of_pairwise_same_members (fun x y => lexLt x y = true)
    (fun x y h h' => by rw [lexLt_asymm x y h] at h'; cases h') l₁ l₂ h₁ h₂ hm

/-! ### `AlwaysEqual` depends only on the function -/

theorem SameFunction.symm {a b : List NType} (h : SameFunction a b) : SameFunction b a :=
  fun σ => (h σ).symm

theorem same_function_alwaysEqual_imp (a b : List NType) (n : Nat) (ha : WF a n) (hb : WF b n)
    (heq : SameFunction a b) (A : List Int) (x y : Int)
    (hxy : AlwaysEqual (modelsWith a A) x y) : AlwaysEqual (modelsWith b A) x y := by
  intro c hc
  obtain ⟨hcm, hcA⟩ := List.mem_filter.mp hc
  have hcomp := root_models_complete b n hb c hcm
  obtain ⟨m, hm, hp⟩ := (same_function_model_set a b n ha hb heq c hcomp).mpr ⟨c, hcm, List.Perm.refl c⟩
  have hmA : m ∈ modelsWith a A := by
    refine List.mem_filter.mpr ⟨hm, ?_⟩
    rw [List.all_eq_true] at hcA ⊢
    intro l hl
    have := hcA l hl
    rw [List.contains_iff_mem] at this ⊢
    exact hp.mem_iff.mpr this
  have := hxy m hmA
  rw [hp.mem_iff, hp.mem_iff] at this
  exact this

/-- the relation "same value in every listed model containing `A`" is the same for two well-formed
arrays with the same function -/
theorem same_function_alwaysEqual (a b : List NType) (n : Nat) (ha : WF a n) (hb : WF b n)
    (heq : SameFunction a b) (A : List Int) (x y : Int) :
    AlwaysEqual (modelsWith a A) x y ↔ AlwaysEqual (modelsWith b A) x y :=
  ⟨same_function_alwaysEqual_imp a b n ha hb heq A x y,
    same_function_alwaysEqual_imp b a n hb ha heq.symm A x y⟩

theorem same_function_alwaysEqual_eq (a b : List NType) (n : Nat) (ha : WF a n) (hb : WF b n)
    (heq : SameFunction a b) (A : List Int) :
    AlwaysEqual (modelsWith a A) = AlwaysEqual (modelsWith b A) := by
  funext x y
  exact propext (same_function_alwaysEqual a b n ha hb heq A x y)

theorem samplesOK_nil (nodes : List NType) (A : List Int) : SamplesOK nodes A [] := by
  intro s hs
  cases hs

/-! ### the report depends only on the function -/

/-- **the atomic-set report depends only on the function** (plain and cross mode), with any
admissible sample prefilters on both sides -/
theorem same_function_atomicSets_samples (a b : List NType) (n : Nat) (ha : WF a n) (hb : WF b n)
    (hua : LitUnique a) (hub : LitUnique b) (heq : SameFunction a b)
    (A : List Int) (hA : InRange A n) (hsat : 0 < specCount a n A)
    (cands : List Nat) (hc : ∀ f ∈ cands, 1 ≤ f ∧ f ≤ n) (cross : Bool)
    (sa sb : List Config) (hsa : SamplesOK a A sa) (hsb : SamplesOK b A sb) :
    atomicSets a n cands A cross sa = atomicSets b n cands A cross sb := by
  have hae := same_function_alwaysEqual_eq a b n ha hb heq A
  have hsatb : 0 < specCount b n A := by
    rw [← same_function_specCount a b n heq A]; exact hsat
  cases cross with
  | false =>
    apply eq_of_lexSorted_same_members
    · exact (atomicSets_plain_nodup_sorted a n ha hua A hA cands hc sa hsa).2
    · exact (atomicSets_plain_nodup_sorted b n hb hub A hA cands hc sb hsb).2
    · intro S
      rw [atomicSets_plain_exact a n ha hua A hA cands hc sa hsa S,
        atomicSets_plain_exact b n hb hub A hA cands hc sb hsb S, hae]
  | true =>
    apply eq_of_sorted_same_members (fun S : List Int => (S.headD 0).natAbs)
    · exact (atomicSets_cross_nodup_sorted a n ha hua A hA cands hc sa hsa).2
    · exact (atomicSets_cross_nodup_sorted b n hb hub A hA cands hc sb hsb).2
    · intro S
      rw [atomicSets_cross_exact a n ha hua A hA hsat cands hc sa hsa S,
        atomicSets_cross_exact b n hb hub A hA hsatb cands hc sb hsb S]
      unfold IsCrossClass
      rw [hae]

/-- the same without a sample prefilter -/
theorem same_function_atomicSets (a b : List NType) (n : Nat) (ha : WF a n) (hb : WF b n)
    (hua : LitUnique a) (hub : LitUnique b) (heq : SameFunction a b)
    (A : List Int) (hA : InRange A n) (hsat : 0 < specCount a n A)
    (cands : List Nat) (hc : ∀ f ∈ cands, 1 ≤ f ∧ f ≤ n) (cross : Bool) :
    atomicSets a n cands A cross [] = atomicSets b n cands A cross [] :=
  same_function_atomicSets_samples a b n ha hb hua hub heq A hA hsat cands hc cross [] []
    (samplesOK_nil a A) (samplesOK_nil b A)

/-- **C10**: the reloaded array reports the same atomic sets as the original -/
theorem saveReload_atomicSets (nodes : List NType) (n : Nat) (h : WF nodes n) (hu : LitUnique nodes)
    (A : List Int) (hA : InRange A n) (hsat : 0 < specCount nodes n A)
    (cands : List Nat) (hc : ∀ f ∈ cands, 1 ≤ f ∧ f ≤ n) (cross : Bool) :
    ∃ out, saveReload nodes n = some (n, out) ∧
      atomicSets out n cands A cross [] = atomicSets nodes n cands A cross [] := by
  obtain ⟨out, he, hw, huo, hsf⟩ := saveReload_sameFunction nodes n h hu
  exact ⟨out, he, (same_function_atomicSets nodes out n h hw hu huo hsf.symm A hA hsat cands hc
    cross).symm⟩

end Ddnnf
