/-
  All structural hypotheses of the property theorems, for every array the d4 loader model produces from
  a text that passes the executable conventions check: `WF`, `LitUnique`, `MS.HasParents`.
-/
import DdnnfVerif.Proofs.D4Conv
import DdnnfVerif.Proofs.LoadUniq3
namespace Ddnnf.D4

theorem srcInnerCheckB_eq (g : G) : srcInnerCheckB g = srcInnerB g := rfl

/-- a text that passes `conventions2B` loads to an array that is well formed, has every literal in at
most one leaf, and in which every node but the root has a parent -/
theorem conventions2B_sound (lines : List Line) (total : Nat) (h : conventions2B lines total = true) :
    WF (load lines total).2.1 (load lines total).1 ∧ LitUnique (load lines total).2.1 ∧
      MS.HasParents (load lines total).2.1 := by
  unfold conventions2B at h
  rw [Bool.and_eq_true] at h
  obtain ⟨h1, h2⟩ := h
  have c := conventionsB_conv lines total h1
  have hsrc : SrcInner (phase1 lines total).g := by
    apply srcInnerB_sound
    rw [← srcInnerCheckB_eq, ← phase1B_eq]; exact h2
  exact ⟨conventionsB_sound lines total h1, load_litUnique' lines total c.decl,
    load_hasParents lines total c.node _ c.acyc hsrc c.nz c.ok c.sat⟩

end Ddnnf.D4
