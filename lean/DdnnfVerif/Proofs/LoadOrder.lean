/-
  C18: the loaded node array does not depend on the iteration order of the `HashSet` of missing
  variables in `balance_or_children` (repaired code: the collected variables are sorted), and a
  concrete witness that it did depend on it before the repair.
-/
import DdnnfVerif.Model.D4Load

namespace Ddnnf.D4

theorem getD_setIfInBounds {α : Type} (a : Array α) (i j : Nat) (v d : α) :
    (a.setIfInBounds i v).getD j d = if i = j ∧ j < a.size then v else a.getD j d := by
  simp only [Array.getD_eq_getD_getElem?, Array.getElem?_setIfInBounds]
  by_cases h : i = j
  · subst h; by_cases h2 : i < a.size <;> simp [h2]
  · simp [h]

theorem getD_replicate {α : Type} (n j : Nat) (v d : α) :
    (Array.replicate n v).getD j d = if j < n then v else d := by
  simp only [Array.getD_eq_getD_getElem?, Array.getElem?_replicate]
  split <;> rfl

/-! ### `insertNat`, `sortNat`, `unionNat` -/

theorem mem_insertNat (x : Nat) (l : List Nat) (y : Nat) : y ∈ insertNat x l ↔ y = x ∨ y ∈ l := by
  induction l with
  | nil => simp [insertNat]
  | cons z zs ih =>
    unfold insertNat
    split
    · simp
    · split
      · rename_i _ h
        have : x = z := by simpa using h
        subst this; simp
      · simp only [List.mem_cons, ih]
        constructor
        · rintro (h | h | h) <;> simp [h]
        · rintro (h | h | h) <;> simp [h]

theorem insertNat_sorted (x : Nat) (l : List Nat) (hl : l.Pairwise (· < ·)) :
    (insertNat x l).Pairwise (· < ·) := by
  induction l with
  | nil => simp [insertNat]
  | cons z zs ih =>
    have hz := List.pairwise_cons.1 hl
    unfold insertNat
    split
    · rename_i hxz
      refine List.pairwise_cons.2 ⟨?_, hl⟩
      intro a ha
      rcases List.mem_cons.1 ha with rfl | ha
      · exact hxz
      · exact Nat.lt_trans hxz (hz.1 a ha)
    · split
      · exact hl
      · rename_i h1 h2
        have hne : x ≠ z := by simpa using h2
        refine List.pairwise_cons.2 ⟨?_, ih hz.2⟩
        intro a ha
        rcases (mem_insertNat x zs a).1 ha with rfl | ha
        · omega
        · exact hz.1 a ha

theorem sortNat_sorted (xs : List Nat) : (sortNat xs).Pairwise (· < ·) := by
  induction xs with
  | nil => simp [sortNat]
  | cons x xs ih => exact insertNat_sorted x _ ih

/-- strictly ascending lists are determined by their members -/
theorem sorted_ext : ∀ (a b : List Nat), a.Pairwise (· < ·) → b.Pairwise (· < ·) →
    (∀ x, x ∈ a ↔ x ∈ b) → a = b
  | [], [], _, _, _ => rfl
  | [], y :: ys, _, _, h => by have := (h y).2 (List.mem_cons_self ..); simp at this
  | x :: xs, [], _, _, h => by have := (h x).1 (List.mem_cons_self ..); simp at this
  | x :: xs, y :: ys, ha, hb, h => by
    have ha' := List.pairwise_cons.1 ha
    have hb' := List.pairwise_cons.1 hb
    have hxy : x = y := by
      have h1 := (h x).1 (List.mem_cons_self ..)
      have h2 := (h y).2 (List.mem_cons_self ..)
      rcases List.mem_cons.1 h1 with e | h1
      · exact e
      · rcases List.mem_cons.1 h2 with e | h2
        · exact e.symm
        · have := hb'.1 x h1; have := ha'.1 y h2; omega
    subst hxy
    congr 1
    refine sorted_ext xs ys ha'.2 hb'.2 fun z => ⟨fun hz => ?_, fun hz => ?_⟩
    · have := ha'.1 z hz
      rcases List.mem_cons.1 ((h z).1 (List.mem_cons_of_mem _ hz)) with e | h1
      · omega
      · exact h1
    · have := hb'.1 z hz
      rcases List.mem_cons.1 ((h z).2 (List.mem_cons_of_mem _ hz)) with e | h1
      · omega
      · exact h1

theorem mem_sortNat (xs : List Nat) (y : Nat) : y ∈ sortNat xs ↔ y ∈ xs := by
  induction xs with
  | nil => simp [sortNat]
  | cons x xs ih =>
    show y ∈ insertNat x (sortNat xs) ↔ _
    rw [mem_insertNat, ih, List.mem_cons]

/-- `sortNat` only depends on the set of members -/
theorem sortNat_congr (xs ys : List Nat) (h : ∀ x, x ∈ ys ↔ x ∈ xs) : sortNat ys = sortNat xs :=
  sorted_ext _ _ (sortNat_sorted _) (sortNat_sorted _) fun x => by rw [mem_sortNat, mem_sortNat, h]

theorem sortNat_perm_eq (xs ys : List Nat) (hp : ys.Perm xs) : sortNat ys = sortNat xs :=
  sortNat_congr xs ys fun _ => hp.mem_iff

theorem sortNat_eq_self (xs : List Nat) (hs : xs.Pairwise (· < ·)) : sortNat xs = xs :=
  sorted_ext _ _ (sortNat_sorted _) hs (mem_sortNat xs)

/-- for a strictly ascending `xs`, sorting any permutation of it gives `xs` back -/
theorem sortNat_of_perm (xs ys : List Nat) (hs : xs.Pairwise (· < ·)) (hp : ys.Perm xs) :
    sortNat ys = xs := by
  rw [sortNat_perm_eq xs ys hp, sortNat_eq_self xs hs]

theorem unionNat_sorted (a b : List Nat) (hb : b.Pairwise (· < ·)) :
    (unionNat a b).Pairwise (· < ·) := by
  unfold unionNat
  induction a generalizing b with
  | nil => exact hb
  | cons x xs ih => exact ih _ (insertNat_sorted x b hb)

theorem mem_unionNat (a b : List Nat) (y : Nat) : y ∈ unionNat a b ↔ y ∈ a ∨ y ∈ b := by
  unfold unionNat
  induction a generalizing b with
  | nil => simp
  | cons x xs ih =>
    rw [List.foldl_cons, ih, mem_insertNat, List.mem_cons]
    constructor
    · rintro (h | h | h) <;> simp [h]
    · rintro ((h | h) | h) <;> simp [h]

/-- a fold of unions into a strictly ascending accumulator stays strictly ascending -/
theorem foldl_unionNat_sorted {α : Type} (l : List α) (f : α → List Nat → List Nat)
    (hf : ∀ a acc, acc.Pairwise (· < ·) → (f a acc).Pairwise (· < ·))
    (init : List Nat) (hi : init.Pairwise (· < ·)) :
    (l.foldl (fun acc a => f a acc) init).Pairwise (· < ·) := by
  induction l generalizing init with
  | nil => exact hi
  | cons a l ih => exact ih _ (hf a init hi)

/-- the missing-variable lists are strictly ascending (no hypothesis on the children needed) -/
theorem missing_sorted' (cs : List (Nat × List Nat)) : ∀ w ∈ missing cs, w.2.Pairwise (· < ·) := by
  intro w hw
  unfold missing at hw
  rw [List.mem_filterMap] at hw
  obtain ⟨i, _, hi⟩ := hw
  simp only at hi
  split at hi
  · cases hi
  · cases hi
    refine List.Pairwise.filter _ ?_
    refine foldl_unionNat_sorted _ (fun j acc => if j == i then acc else unionNat (cs.getD j (0, [])).2 acc)
      ?_ [] List.Pairwise.nil
    intro j acc hacc
    split
    · exact hacc
    · exact unionNat_sorted _ _ hacc

theorem missing_sorted (cs : List (Nat × List Nat)) (_h : ∀ c ∈ cs, c.2.Pairwise (· < ·)) :
    ∀ w ∈ missing cs, w.2.Pairwise (· < ·) := missing_sorted' cs

theorem varSets_sorted (g : G) (root : Nat) : ∀ x, ((varSets g root).getD x []).Pairwise (· < ·) := by
  unfold varSets
  generalize postOrder g root = order
  generalize hinit : Array.replicate g.kind.size ([] : List Nat) = init
  have hi : ∀ x, (init.getD x []).Pairwise (· < ·) := by
    intro x; subst hinit
    rw [getD_replicate]; split <;> exact List.Pairwise.nil
  clear hinit
  induction order generalizing init with
  | nil => exact hi
  | cons y ys ih =>
    rw [List.foldl_cons]
    apply ih
    intro x
    have hv : ∀ v : List Nat, v.Pairwise (· < ·) → ((init.setIfInBounds y v).getD x []).Pairwise (· < ·) := by
      intro v hv
      rw [getD_setIfInBounds]
      split
      · exact hv
      · exact hi x
    apply hv
    split
    · simp
    · exact foldl_unionNat_sorted _ (fun c acc => unionNat (init.getD c []) acc)
        (fun c acc hacc => unionNat_sorted _ _ hacc) [] List.Pairwise.nil
    · exact foldl_unionNat_sorted _ (fun c acc => unionNat (init.getD c []) acc)
        (fun c acc hacc => unionNat_sorted _ _ hacc) [] List.Pairwise.nil
    · exact List.Pairwise.nil

/-! ### C18 -/

theorem balance_sorted_eq (h : List Nat → List Nat) (hperm : ∀ xs, (h xs).Perm xs)
    (s : LState) (nx : Nat) (work : List (Nat × List Nat)) :
    balance true h s nx work = balance true id s nx work := by
  unfold balance
  simp only [if_true, id, sortNat_perm_eq _ _ (hperm _)]

theorem smooth_sorted_eq (h : List Nat → List Nat) (hperm : ∀ xs, (h xs).Perm xs)
    (s : LState) (root : Nat) : smooth true h s root = smooth true id s root := by
  unfold smooth
  simp only [balance_sorted_eq h hperm]

/-- C18: with the repaired (sorting) code the loaded node array does not depend on the hash
iteration order -/
theorem load_independent_of_hash_order (h : List Nat → List Nat) (hperm : ∀ xs, (h xs).Perm xs)
    (lines : List Line) (total : Nat) :
    loadWith true h lines total = loadWith true id lines total := by
  unfold loadWith
  simp only [smooth_sorted_eq h hperm]

/-- every choice of iteration order gives the result of `load` -/
theorem loadWith_eq_load (h : List Nat → List Nat) (hperm : ∀ xs, (h xs).Perm xs)
    (lines : List Line) (total : Nat) : loadWith true h lines total = load lines total :=
  load_independent_of_hash_order h hperm lines total

/-- the witness file `o 1 0 / t 2 0 / 1 2 1 2 3 4 5 0 / 1 2 -1 0` -/
def witnessLines : List Line := [.node .or, .node .tru, .edge 1 2 [1, 2, 3, 4, 5], .edge 1 2 [-1]]

/-- before the repair the loaded node array did depend on the iteration order -/
theorem unsorted_depends_on_hash_order :
    ∃ (h₁ h₂ : List Nat → List Nat) (lines : List Line) (total : Nat),
      (∀ xs, (h₁ xs).Perm xs) ∧ (∀ xs, (h₂ xs).Perm xs) ∧
      loadWith false h₁ lines total ≠ loadWith false h₂ lines total := by
  refine ⟨id, List.reverse, witnessLines, 5, fun _ => List.Perm.refl _, fun xs => List.reverse_perm xs, ?_⟩
  decide

end Ddnnf.D4
