/-
  Two structural facts about the array the d4 loader produces (part 1): the facts about `postOrder` and
  `flattenGraph`, for every graph.

  * `postOrder_parent`          every emitted node other than the root is a successor of an emitted node
                                (it was discovered through an edge);
  * `flattenGraph_hasParents`   hence, if only inner nodes (and / or) have successors, every position of the
                                flattened array except the last one is a child of a later position;
  * `flattenGraph_litUnique`    if the graph has at most one node per literal, no literal occurs in two
                                leaves of the flattened array;
  * `eliminate_closed`          a property of graphs that the four primitive operations of the True/False
                                elimination keep is kept by `eliminate`.
-/
import DdnnfVerif.Proofs.LoadWF2_13
import DdnnfVerif.Proofs.PDLeaf
import DdnnfVerif.Proofs.MarkState

namespace Ddnnf.D4

/-! ### every discovered node was reached through an edge -/

/-- every discovered node other than the root is a successor of a discovered node; so is every stack
entry; finished nodes are discovered -/
structure Inv3 (outs : Array (List Nat)) (n root : Nat) (d : Dfs) : Prop where
  stk : ∀ x ∈ d.stack, x = root ∨ ∃ y, y < n ∧ d.discovered.getD y true = true ∧ x ∈ outs.getD y []
  par : ∀ x, x < n → d.discovered.getD x true = true →
    x = root ∨ ∃ y, y < n ∧ d.discovered.getD y true = true ∧ x ∈ outs.getD y []
  fin : ∀ x, x < n → d.finished.getD x true = true → d.discovered.getD x true = true

theorem inv3_init (outs : Array (List Nat)) (n root : Nat) : Inv3 outs n root (dfsInit n root) := by
  refine ⟨?_, ?_, ?_⟩
  · intro x hx
    left
    simpa [dfsInit] using hx
  · intro x hx hd
    simp [dfsInit, hx] at hd
  · intro x hx hf
    simp [dfsInit, hx] at hf

theorem inv3_step (outs : Array (List Nat)) (n root : Nat) (d : Dfs) (nx : Nat) (rest : List Nat)
    (hs : d.stack = nx :: rest) (h1 : Inv1 n d) (h3 : Inv3 outs n root d) :
    Inv3 outs n root (dfsStep outs d) := by
  rcases dfsStep_cases outs d nx rest hs with ⟨hw, e⟩ | ⟨hd, _, e⟩ | ⟨_, _, e⟩ <;> rw [e]
  · -- `nx` is discovered
    have hnx : nx < n := by have := getD_lt_of_ne (b := true) hw; rw [h1.dsz] at this; exact this
    have hnew : (d.discovered.setIfInBounds nx true).getD nx true = true := by
      rw [getD_setIfInBounds, if_pos ⟨rfl, by rw [h1.dsz]; exact hnx⟩]
    have hmono : ∀ y, d.discovered.getD y true = true →
        (d.discovered.setIfInBounds nx true).getD y true = true := by
      intro y hy
      rw [getD_setIfInBounds]
      split
      · rfl
      · exact hy
    have hlift : ∀ x, (x = root ∨ ∃ y, y < n ∧ d.discovered.getD y true = true ∧ x ∈ outs.getD y []) →
        (x = root ∨ ∃ y, y < n ∧ (d.discovered.setIfInBounds nx true).getD y true = true ∧
          x ∈ outs.getD y []) := by
      rintro x (h | ⟨y, hy, hyd, hxy⟩)
      · exact Or.inl h
      · exact Or.inr ⟨y, hy, hmono y hyd, hxy⟩
    refine ⟨?_, ?_, ?_⟩
    · intro x hx
      dsimp only at hx ⊢
      rcases List.mem_append.1 hx with hx | hx
      · right
        exact ⟨nx, hnx, hnew, ((mem_pushed ..).1 hx).1⟩
      · exact hlift x (h3.stk x (by rw [hs]; exact hx))
    · intro x hx hxd
      dsimp only at hxd ⊢
      by_cases hxn : x = nx
      · subst hxn
        exact hlift x (h3.stk x (by rw [hs]; exact List.mem_cons_self ..))
      · rw [getD_setIfInBounds, if_neg (fun hh => hxn hh.1.symm)] at hxd
        exact hlift x (h3.par x hx hxd)
    · intro x hx hf
      exact hmono x (h3.fin x hx hf)
  · -- `nx` is emitted
    refine ⟨?_, h3.par, ?_⟩
    · intro x hx
      exact h3.stk x (by rw [hs]; exact List.mem_cons_of_mem _ hx)
    · intro x hx hf
      dsimp only at hf ⊢
      by_cases hxn : x = nx
      · subst hxn; exact hd
      · rw [getD_setIfInBounds, if_neg (fun hh => hxn hh.1.symm)] at hf
        exact h3.fin x hx hf
  · -- a stale stack entry is dropped
    refine ⟨?_, h3.par, h3.fin⟩
    intro x hx
    exact h3.stk x (by rw [hs]; exact List.mem_cons_of_mem _ hx)

/-- For an acyclic graph whose edges stay inside the node array: every emitted node other than the root
is a successor of an emitted node. -/
theorem postOrder_parent (g : G) (root : Nat) (r : Nat → Nat)
    (hwf : ∀ x, ∀ c ∈ g.outs.getD x [], c < g.kind.size)
    (hacyc : ∀ x, ∀ c ∈ g.outs.getD x [], r c < r x) :
    ∀ x ∈ postOrder g root, x = root ∨ ∃ y ∈ postOrder g root, x ∈ g.outs.getD y [] := by
  have key := dfsLoop_inv g.outs
    (fun d => Inv1 g.kind.size d ∧ Inv2 g.outs r d ∧ Inv3 g.outs g.kind.size root d)
    (fun d nx rest hs h => ⟨inv1_step g.outs _ d nx rest hs h.1,
      inv2_step g.outs _ r hwf hacyc d nx rest hs h.1 h.2.1,
      inv3_step g.outs _ root d nx rest hs h.1 h.2.2⟩)
    (2 * (g.kind.size + edgeCount g) + 2) (dfsInit g.kind.size root)
    ⟨inv1_init _ _, inv2_init _ _ _ _, inv3_init _ _ _⟩
  obtain ⟨k1, k2, k3⟩ := key
  have hst := postOrder_stack_empty g root
  intro x hx
  rw [postOrder_eq] at hx
  obtain ⟨hxn, hxf⟩ := (k1.ord_iff x).1 hx
  rcases k3.par x hxn (k3.fin x hxn hxf) with h | ⟨y, hy, hyd, hxy⟩
  · exact Or.inl h
  · right
    refine ⟨y, ?_, hxy⟩
    rw [postOrder_eq]
    refine (k1.ord_iff y).2 ⟨hy, ?_⟩
    cases hyf : (dfsLoop g.outs (2 * (g.kind.size + edgeCount g) + 2)
        (dfsInit g.kind.size root)).finished.getD y true with
    | true => rfl
    | false =>
      have := k2.gray_stack y ⟨hyd, hyf⟩
      rw [hst] at this
      cases this

/-! ### `HasParents` of the flattened array -/

/-- only inner nodes have successors -/
def SrcInner (g : G) : Prop :=
  ∀ x c, c ∈ g.outs.getD x [] → g.kindOf x = some .and ∨ g.kindOf x = some .or

theorem flattenGraph_hasParents (g : G) (root : Nat) (r : Nat → Nat)
    (hwf : ∀ x, ∀ c ∈ g.outs.getD x [], c < g.kind.size) (hacyc : Acyclic g r)
    (hroot : root < g.kind.size) (hsrc : SrcInner g) : MS.HasParents (flattenGraph g root) := by
  intro j hj
  rw [flattenGraph_length] at hj
  have hj' : j < (postOrder g root).length := by omega
  have hnd := postOrder_nodup g root
  obtain ⟨hlast, elast⟩ := postOrder_last_getElem g root hroot
  have hne : (postOrder g root)[j] ≠ root := by
    intro e
    have := (List.getElem_inj (h₀ := hj') (h₁ := hlast) hnd).1 (e.trans elast.symm)
    omega
  rcases postOrder_parent g root r hwf hacyc _ (List.getElem_mem hj') with h | ⟨y, hy, hxy⟩
  · exact absurd h hne
  · obtain ⟨i, hi, ei⟩ := List.getElem_of_mem hy
    subst ei
    obtain ⟨j', hj'', hji, ej⟩ := postOrder_children_index g root r hwf hacyc i hi _ hxy
    have hjj : j' = j := (List.getElem_inj (h₀ := hj'') (h₁ := hj') hnd).1 ej
    subst hjj
    have hi' : i < (flattenGraph g root).length := by rw [flattenGraph_length]; exact hi
    refine ⟨i, hi', hji, ?_⟩
    rw [flattenGraph_getElem g root i hi']
    have hix : (newIxOf g root).getD (postOrder g root)[j'] 0 = j' :=
      newIx_spec _ _ hnd (postOrder_lt g root) j' hj'
    have hmem : j' ∈ ((g.outs.getD (postOrder g root)[i] []).map fun c => (newIxOf g root).getD c 0) :=
      List.mem_map.2 ⟨_, hxy, hix⟩
    rcases hsrc _ _ hxy with hk | hk
    · rw [flatNode_and _ hk]; exact hmem
    · rw [flatNode_or _ hk]; exact hmem

/-! ### `LitUnique` of the flattened array -/

/-- at most one node per literal -/
def LitOnce (g : G) : Prop :=
  ∀ x y l, g.kindOf x = some (.lit l) → g.kindOf y = some (.lit l) → x = y

theorem flattenGraph_litUnique (g : G) (root : Nat) (h : LitOnce g) : LitUnique (flattenGraph g root) := by
  intro i j hi hj l ei ej
  have hi' : i < (postOrder g root).length := by rwa [flattenGraph_length] at hi
  have hj' : j < (postOrder g root).length := by rwa [flattenGraph_length] at hj
  rw [flattenGraph_getElem g root i hi] at ei
  rw [flattenGraph_getElem g root j hj] at ej
  have := h _ _ l (flatNode_eq_lit ei) (flatNode_eq_lit ej)
  exact (List.getElem_inj (h₀ := hi') (h₁ := hj') (postOrder_nodup g root)).1 this

/-! ### properties the elimination keeps -/

theorem deleteChain_closed (P : G → Prop)
    (hrn : ∀ g x, g.kindOf x = some .and → P g → P (g.removeNode x))
    (herr : ∀ g, P g → P { g with err := true }) :
    ∀ (fuel : Nat) (g : G) (current : Nat) (pending : List Nat), P g → P (deleteChain g fuel current pending) := by
  intro fuel
  induction fuel with
  | zero => intro g _ _ h; exact h
  | succ fuel ih =>
    intro g current pending h
    unfold deleteChain
    split
    · exact herr g h
    · rename_i k hk
      by_cases hand : (k == GK.and) = true
      · have hk' : g.kindOf current = some .and := by
          rw [hk]; simpa using hand
        simp only [hand, if_true]
        split
        · exact hrn g current hk' h
        · exact ih _ _ _ (hrn g current hk' h)
      · simp only [hand]
        split
        · exact h
        · exact ih _ _ _ h

theorem elimNode_go_closed (P : G → Prop)
    (hre : ∀ g a b, P g → P (g.removeEdge a b))
    (hrn : ∀ g x, g.kindOf x = some .and → P g → P (g.removeNode x))
    (hmt : ∀ g x, g.kindOf x = some .or → P g → P (g.makeTrue x))
    (herr : ∀ g, P g → P { g with err := true }) (nx : Nat) :
    ∀ (cs : List Nat) (g : G), P g → P (elimNode.go nx cs g) := by
  intro cs
  induction cs with
  | nil => intro g h; exact h
  | cons c cs ih =>
    intro g h
    unfold elimNode.go
    split
    · exact ih g h
    · split
      · exact ih _ (hre g nx c h)
      · rename_i hk; exact hmt g nx hk h
      · exact herr g h
      · exact herr g h
    · split
      · exact ih _ (hre g nx c h)
      · exact deleteChain_closed P hrn herr _ g nx [] h
      · exact herr g h
      · exact herr g h
    · exact ih g h

/-- a property that `removeEdge`, `removeNode` (of an and-node), `makeTrue` (of an or-node) and raising
the error flag keep is kept by the True/False elimination -/
theorem eliminate_closed (P : G → Prop)
    (hre : ∀ g a b, P g → P (g.removeEdge a b))
    (hrn : ∀ g x, g.kindOf x = some .and → P g → P (g.removeNode x))
    (hmt : ∀ g x, g.kindOf x = some .or → P g → P (g.makeTrue x))
    (herr : ∀ g, P g → P { g with err := true }) (g : G) (root : Nat) (h : P g) : P (eliminate g root) :=
  foldl_inv P elimNode _ (fun g' nx _ hg' => elimNode_go_closed P hre hrn hmt herr nx _ g' hg') g h

end Ddnnf.D4
