/-
  Denotation of the graphs of the d4 loader (part 12): in an acyclic phase-1 graph the literal leaves of
  the literal table are sinks.

  An edge line can use node 0 as its source by default (unknown node number).  If node 0 is a literal
  leaf at that moment (the file started with a labelled edge line), the same line closes the cycle
  `0 → and → 0`, which stays (`Cyc`, phase 1 only adds edges).  Otherwise edge sources are declared nodes,
  which are never literal leaves of the table (`SinkOK`).
-/
import DdnnfVerif.Proofs.LoadSem11

namespace Ddnnf.D4

/-- a cycle through node 0 -/
def Cyc (g : G) : Prop := ∃ a, a ∈ g.outs.getD 0 [] ∧ 0 ∈ g.outs.getD a []

theorem Cyc.not_acyclic {g : G} (h : Cyc g) (r : Nat → Nat) (ha : Acyclic g r) : False := by
  obtain ⟨a, h1, h2⟩ := h
  have := ha 0 a h1
  have := ha a 0 h2
  omega

def OutsMono (g g' : G) : Prop := ∀ x c, c ∈ g.outs.getD x [] → c ∈ g'.outs.getD x []

theorem OutsMono.refl (g : G) : OutsMono g g := fun _ _ h => h
theorem OutsMono.trans {g g' g'' : G} (h1 : OutsMono g g') (h2 : OutsMono g' g'') : OutsMono g g'' :=
  fun x c h => h2 x c (h1 x c h)

theorem outsMono_addNode (g : G) (k : GK) : OutsMono g (g.addNode k).1 :=
  fun x c h => by rw [outs_addNode]; exact h

theorem outsMono_addEdge (g : G) (a b : Nat) : OutsMono g (g.addEdge a b) := by
  intro x c h
  rw [outs_addEdge]
  split
  · rename_i hh; rw [hh.1]; exact List.mem_cons_of_mem _ h
  · exact h

theorem Cyc.mono {g g' : G} (h : Cyc g) (hm : OutsMono g g') : Cyc g' := by
  obtain ⟨a, h1, h2⟩ := h
  exact ⟨a, hm 0 a h1, hm a 0 h2⟩

theorem outsMono_getLit (s : LState) (l : Int) : OutsMono s.g (s.getLit l).1.g :=
  fun x c h => by rw [getLit_outs]; exact h

theorem getLit_indices (s : LState) (l : Int) : (s.getLit l).1.indices = s.indices := by
  cases hf : s.litNx.find? (·.1 == l) with
  | some e => rw [getLit_found s l e hf]
  | none => rw [getLit_new s l hf]

/-- what `getLits` keeps -/
structure LitsInv (s t : LState) : Prop where
  linv : LInv t
  sink : ∀ e ∈ t.litNx, t.g.outs.getD e.2 [] = []
  fresh : ∀ e ∈ t.litNx, e.2 ∉ t.indices.toList
  idx : t.indices = s.indices
  outs : ∀ x, t.g.outs.getD x [] = s.g.outs.getD x []
  size : s.g.kind.size ≤ t.g.kind.size

theorem getLit_litsInv (s t : LState) (l : Int) (h : LitsInv s t) : LitsInv s (t.getLit l).1 := by
  have hsp := getLit_spec t l h.linv
  refine ⟨hsp.1, ?_, ?_, (getLit_indices t l).trans h.idx, fun x => (getLit_outs t l x).trans (h.outs x),
    Nat.le_trans h.size hsp.2.1⟩
  · cases hf : t.litNx.find? (·.1 == l) with
    | some e => rw [getLit_found t l e hf]; exact h.sink
    | none =>
      rw [getLit_new t l hf]
      intro e he
      show (t.g.addNode (.lit l)).1.outs.getD e.2 [] = []
      rw [outs_addNode]
      rcases List.mem_cons.1 he with e' | he
      · rw [e']; exact outs_of_ge t.g _ (by rw [h.linv.wf.osz]; exact Nat.le_refl _)
      · exact h.sink e he
  · cases hf : t.litNx.find? (·.1 == l) with
    | some e => rw [getLit_found t l e hf]; exact h.fresh
    | none =>
      rw [getLit_new t l hf]
      intro e he hm
      have hm' : e.2 ∈ t.indices.toList := hm
      rcases List.mem_cons.1 he with e' | he
      · have := h.linv.idx _ hm'
        rw [e'] at this
        exact Nat.lt_irrefl _ this
      · exact h.fresh e he hm'

theorem getLits_litsInv (s : LState) (ls : List Int) (h : LitsInv s s) : LitsInv s (s.getLits ls).1 := by
  unfold LState.getLits
  refine foldl_inv (fun (acc : LState × List Nat) => LitsInv s acc.1) _ _ ?_ (s, []) h
  intro acc l _ hacc
  show LitsInv s (acc.1.getLit l).1
  exact getLit_litsInv s acc.1 l hacc

/-- successor lists after a fold of `addEdge` with a fixed source -/
theorem fold_addEdge_outs (a : Nat) (l : List Nat) : ∀ g : G,
    OutsMono g (l.foldl (fun (g : G) (x : Nat) => g.addEdge a x) g) ∧
    (∀ x, x ≠ a → (l.foldl (fun (g : G) (x : Nat) => g.addEdge a x) g).outs.getD x [] = g.outs.getD x []) ∧
    (l.foldl (fun (g : G) (x : Nat) => g.addEdge a x) g).outs.size = g.outs.size := by
  induction l with
  | nil => intro g; exact ⟨OutsMono.refl g, fun _ _ => rfl, rfl⟩
  | cons y l ih =>
    intro g
    obtain ⟨h1, h2, h3⟩ := ih (g.addEdge a y)
    refine ⟨(outsMono_addEdge g a y).trans h1, ?_, h3.trans (outsSize_addEdge g a y)⟩
    intro x hx
    rw [List.foldl_cons, h2 x hx, outs_addEdge, if_neg (fun h => hx h.1.symm)]

structure SinkOK (s : LState) : Prop where
  sink : ∀ e ∈ s.litNx, s.g.outs.getD e.2 [] = []
  fresh : ∀ e ∈ s.litNx, e.2 ∉ s.indices.toList
  zero : s.g.kind.size = 0 ∨ 0 ∈ s.indices.toList

theorem edgeStep_outsMono (s : LState) (a b : Nat) (lits : List Int) : OutsMono s.g (edgeStep s a b lits).g := by
  unfold edgeStep
  dsimp only
  split
  · exact outsMono_addEdge _ _ _
  · have hm : OutsMono s.g (s.getLits lits).1.g := by
      unfold LState.getLits
      refine foldl_inv (fun (acc : LState × List Nat) => OutsMono s.g acc.1.g) _ _ ?_ (s, []) (OutsMono.refl _)
      intro acc l _ hacc
      show OutsMono s.g (acc.1.getLit l).1.g
      exact hacc.trans (outsMono_getLit acc.1 l)
    show OutsMono s.g
      (((s.getLits lits).2.foldl (fun (g : G) (x : Nat) => g.addEdge ((s.getLits lits).1.g.addNode .and).2 x)
          ((((s.getLits lits).1.g.addNode .and).1).addEdge (s.indices.getD (a - 1) 0)
            ((s.getLits lits).1.g.addNode .and).2)).addEdge ((s.getLits lits).1.g.addNode .and).2
              (s.indices.getD (b - 1) 0))
    exact hm.trans ((outsMono_addNode _ _).trans ((outsMono_addEdge _ _ _).trans
      ((fold_addEdge_outs _ _ _).1.trans (outsMono_addEdge _ _ _))))

theorem edgeStep_sink (s : LState) (a b : Nat) (lits : List Int) (hl : LInv s) (h : SinkOK s) :
    SinkOK (edgeStep s a b lits) ∨ Cyc (edgeStep s a b lits).g := by
  -- the source is a declared node, or node 0 by default
  have hfromN : s.indices.getD (a - 1) 0 = 0 ∨ s.indices.getD (a - 1) 0 ∈ s.indices.toList :=
    getD_mem_or_default s.indices (a - 1) 0
  unfold edgeStep
  dsimp only
  split
  · -- no literals: one new edge
    left
    refine ⟨?_, h.fresh, h.zero⟩
    intro e he
    show (s.g.addEdge (s.indices.getD (a - 1) 0) (s.indices.getD (b - 1) 0)).outs.getD e.2 [] = []
    rw [outs_addEdge, if_neg, h.sink e he]
    intro hh
    have he2 : s.indices.getD (a - 1) 0 = e.2 := hh.1
    rcases hfromN with e0 | hm
    · rcases h.zero with hz | hz
      · rw [hl.wf.osz, hz] at hh; exact Nat.not_lt_zero _ hh.2
      · apply h.fresh e he
        rw [← he2, e0]; exact hz
    · apply h.fresh e he
      rw [← he2]; exact hm
  · have hli := getLits_litsInv s lits ⟨hl, h.sink, h.fresh, rfl, fun _ => rfl, Nat.le_refl _⟩
    show SinkOK { (s.getLits lits).1 with g :=
        (((s.getLits lits).2.foldl (fun (g : G) (x : Nat) => g.addEdge ((s.getLits lits).1.g.addNode .and).2 x)
          ((((s.getLits lits).1.g.addNode .and).1).addEdge (s.indices.getD (a - 1) 0)
            ((s.getLits lits).1.g.addNode .and).2)).addEdge ((s.getLits lits).1.g.addNode .and).2
              (s.indices.getD (b - 1) 0)) } ∨ Cyc _
    generalize s.getLits lits = p at hli ⊢
    obtain ⟨s1, litNodes⟩ := p
    dsimp only at hli ⊢
    rw [addNode_snd]
    have hosz : (s1.g.addNode .and).1.outs.size = s1.g.kind.size + 1 := by
      rw [outsSize_addNode, hli.linv.wf.osz]
    obtain ⟨f1, f2, f3⟩ := fold_addEdge_outs s1.g.kind.size litNodes
      ((s1.g.addNode .and).1.addEdge (s.indices.getD (a - 1) 0) s1.g.kind.size)
    by_cases hz : s.g.kind.size = 0
    · -- the file starts with a labelled edge line: a cycle through node 0
      right
      have hnil : s.indices.toList = [] := by
        apply List.eq_nil_iff_forall_not_mem.2
        intro i hi
        have := hl.idx i hi
        omega
      have hdef : ∀ j, s.indices.getD j 0 = 0 := by
        intro j
        rcases getD_mem_or_default s.indices j 0 with e | hm
        · exact e
        · rw [hnil] at hm; cases hm
      rw [hdef (a - 1)] at f1 f3
      rw [hdef (a - 1), hdef (b - 1)]
      refine ⟨s1.g.kind.size, ?_, ?_⟩
      · apply outsMono_addEdge
        apply f1
        rw [outs_addEdge, if_pos ⟨rfl, by rw [hosz]; exact Nat.succ_pos _⟩]
        exact List.mem_cons_self ..
      · rw [outs_addEdge, if_pos ⟨rfl, by rw [f3, outsSize_addEdge, hosz]; exact Nat.lt_succ_self _⟩]
        exact List.mem_cons_self ..
    · left
      have h0 : 0 ∈ s.indices.toList := by
        rcases h.zero with e | h0
        · exact absurd e hz
        · exact h0
      have hfrom : s.indices.getD (a - 1) 0 ∈ s.indices.toList := by
        rcases hfromN with e | hm
        · rw [e]; exact h0
        · exact hm
      refine ⟨?_, ?_, Or.inr (by rw [hli.idx]; exact h0)⟩
      · intro e he
        have he' : e ∈ s1.litNx := he
        have hne1 : e.2 ≠ s1.g.kind.size := Nat.ne_of_lt (hli.linv.lit e he')
        have hne2 : e.2 ≠ s.indices.getD (a - 1) 0 := by
          intro ee
          apply hli.fresh e he'
          rw [hli.idx, ee]; exact hfrom
        show ((litNodes.foldl (fun (g : G) (x : Nat) => g.addEdge s1.g.kind.size x)
          ((s1.g.addNode .and).1.addEdge (s.indices.getD (a - 1) 0) s1.g.kind.size)).addEdge s1.g.kind.size
            (s.indices.getD (b - 1) 0)).outs.getD e.2 [] = []
        rw [outs_addEdge, if_neg (fun hh => hne1 hh.1.symm), f2 e.2 hne1, outs_addEdge,
          if_neg (fun hh => hne2 hh.1.symm), outs_addNode]
        exact hli.sink e he'
      · intro e he
        exact hli.fresh e he

/-- the invariant of phase 1: literal leaves are sinks, or there is a cycle through node 0 -/
theorem stepLine_sink (s : LState) (line : Line) (hl : LInv s) (h : SinkOK s ∨ Cyc s.g) :
    SinkOK (stepLine s line) ∨ Cyc (stepLine s line).g := by
  cases line with
  | node k =>
    rcases h with h | h
    · left
      refine ⟨?_, ?_, ?_⟩
      · intro e he
        show (s.g.addNode k).1.outs.getD e.2 [] = []
        rw [outs_addNode]; exact h.sink e he
      · intro e he hm
        have hm' : e.2 ∈ (s.indices.push (s.g.addNode k).2).toList := hm
        rw [Array.toList_push, List.mem_append, List.mem_singleton] at hm'
        rcases hm' with hm' | hm'
        · exact h.fresh e he hm'
        · have := hl.lit e he
          rw [hm', addNode_snd] at this
          exact Nat.lt_irrefl _ this
      · right
        show 0 ∈ (s.indices.push (s.g.addNode k).2).toList
        rw [Array.toList_push, List.mem_append, List.mem_singleton, addNode_snd]
        rcases h.zero with e | h0
        · right; exact e.symm
        · left; exact h0
    · right; exact h.mono (outsMono_addNode s.g k)
  | edge a b lits =>
    rw [stepLine_edge]
    rcases h with h | h
    · exact edgeStep_sink _ a b lits ⟨hl.wf, hl.idx, hl.lit, hl.tri⟩ ⟨h.sink, h.fresh, h.zero⟩
    · right
      exact Cyc.mono (g := s.g) h (edgeStep_outsMono { s with
        occurs := lits.foldl (fun (o : List Nat) (l : Int) =>
          if o.contains l.natAbs then o else l.natAbs :: o) s.occurs,
        total := lits.foldl (fun (t : Nat) (l : Int) => max t l.natAbs) s.total } a b lits)

/-- phase 1, every input -/
theorem lines_sink (lines : List Line) (total : Nat) :
    SinkOK (lines.foldl stepLine { total := total }) ∨ Cyc (lines.foldl stepLine { total := total }).g := by
  have key := foldl_inv (fun (acc : LState) => LInv acc ∧ (SinkOK acc ∨ Cyc acc.g)) stepLine lines
    (fun acc line _ hacc => ⟨(stepLine_spec acc line hacc.1).1, stepLine_sink acc line hacc.1 hacc.2⟩)
    { total := total } ⟨linv_init total, Or.inl ⟨fun e he => (by cases he), fun e he => (by cases he), Or.inl rfl⟩⟩
  exact key.2

/-- in an acyclic phase-1 graph the literal leaves of the table are sinks -/
theorem lines_leaf_sink (lines : List Line) (total : Nat) (r : Nat → Nat)
    (hacyc : Acyclic (lines.foldl stepLine { total := total }).g r) :
    ∀ e ∈ (lines.foldl stepLine { total := total }).litNx,
      (lines.foldl stepLine { total := total }).g.outs.getD e.2 [] = [] := by
  rcases lines_sink lines total with h | h
  · exact h.sink
  · exact absurd hacyc (fun ha => h.not_acyclic r ha)

end Ddnnf.D4
