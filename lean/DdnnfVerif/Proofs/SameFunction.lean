/-
  Answers depend only on the denoted Boolean function: two well-formed node arrays over the same
  features whose roots evaluate equally under every assignment give the same counts (with and
  without assumptions), SAT answers, core / dead features, per-feature cardinalities and the same
  SET of enumerated complete configurations.  Every statement is a consequence of the exactness
  theorems (each answer equals a quantity that is defined from `eval` only).
-/
import DdnnfVerif.Proofs.Core
import DdnnfVerif.Proofs.Sat
import DdnnfVerif.Proofs.Features

namespace Ddnnf

/-- the two arrays denote the same function at their roots -/
def SameFunction (a b : List NType) : Prop :=
  ∀ σ : Assignment, eval σ a (rootIx a) = eval σ b (rootIx b)

/-- the specification count is defined from `eval` only (no well-formedness needed) -/
theorem same_function_specCount (a b : List NType) (n : Nat) (heq : SameFunction a b)
    (A : List Int) : specCount a n A = specCount b n A := by
  unfold specCount
  simp only [heq _]

theorem same_function_count (a b : List NType) (n : Nat) (ha : WF a n) (hb : WF b n)
    (heq : SameFunction a b) : count a (rootIx a) = count b (rootIx b) := by
  rw [count_eq_specCount a n ha, count_eq_specCount b n hb]
  exact same_function_specCount a b n heq []

theorem same_function_execQuery (a b : List NType) (n : Nat) (ha : WF a n) (hb : WF b n)
    (hua : LitUnique a) (hub : LitUnique b) (heq : SameFunction a b)
    (A : List Int) (hA : InRange A n) : execQuery a n A = execQuery b n A := by
  rw [execQuery_exact a n ha (pdLeaf_of_WF a n ha hua) A hA,
    execQuery_exact b n hb (pdLeaf_of_WF b n hb hub) A hA]
  exact same_function_specCount a b n heq A

theorem same_function_satQuery (a b : List NType) (n : Nat) (ha : WF a n) (hb : WF b n)
    (hua : LitUnique a) (hub : LitUnique b) (heq : SameFunction a b)
    (hpos : 0 < count a (rootIx a)) (A : List Int) (hA : InRange A n) :
    satQuery a n A = satQuery b n A := by
  have hposb : 0 < count b (rootIx b) := by
    rw [← same_function_count a b n ha hb heq]; exact hpos
  rw [satQuery_exact a n ha (pdLeaf_of_WF a n ha hua) hpos A hA,
    satQuery_exact b n hb (pdLeaf_of_WF b n hb hub) hposb A hA,
    same_function_specCount a b n heq A]

/-- "`l` is contained in every listed model of the root" is a statement about the specification
count -/
theorem all_models_mem_iff (nodes : List NType) (n : Nat) (h : WF nodes n) (l : Int)
    (h0 : l ≠ 0) (hn : l.natAbs ≤ n) :
    (∀ c ∈ models nodes (rootIx nodes), l ∈ c)
      ↔ specCount nodes n [l] = specCount nodes n [] := by
  have hA : InRange [l] n := by
    intro x hx
    rw [List.mem_singleton] at hx
    subst hx
    exact ⟨h0, hn⟩
  have hN : InRange [] n := by intro x hx; cases hx
  rw [specCount_eq_filter nodes n h [l] hA, specCount_eq_filter nodes n h [] hN]
  have e : ((models nodes (rootIx nodes)).filter
      (fun c => ([] : List Int).all (fun a => c.contains a))).length
        = (models nodes (rootIx nodes)).length := by
    rw [List.length_filter_eq_length_iff]
    intro c _; rfl
  rw [e, List.length_filter_eq_length_iff]
  simp only [List.all_cons, List.all_nil, Bool.and_true, List.contains_iff_mem]

theorem same_function_core (a b : List NType) (n : Nat) (ha : WF a n) (hb : WF b n)
    (hua : LitUnique a) (hub : LitUnique b) (heq : SameFunction a b)
    (hpos : 0 < count a (rootIx a)) (l : Int) : l ∈ coreOf a n ↔ l ∈ coreOf b n := by
  have hposb : 0 < count b (rootIx b) := by
    rw [← same_function_count a b n ha hb heq]; exact hpos
  rw [coreOf_exact a n ha (pdLeaf_of_WF a n ha hua) hpos l,
    coreOf_exact b n hb (pdLeaf_of_WF b n hb hub) hposb l]
  constructor
  · rintro ⟨h0, hn, hall⟩
    refine ⟨h0, hn, ?_⟩
    rw [all_models_mem_iff b n hb l h0 hn, ← same_function_specCount a b n heq,
      ← same_function_specCount a b n heq, ← all_models_mem_iff a n ha l h0 hn]
    exact hall
  · rintro ⟨h0, hn, hall⟩
    refine ⟨h0, hn, ?_⟩
    rw [all_models_mem_iff a n ha l h0 hn, same_function_specCount a b n heq,
      same_function_specCount a b n heq, ← all_models_mem_iff b n hb l h0 hn]
    exact hall

theorem same_function_coreDeadA (a b : List NType) (n : Nat) (ha : WF a n) (hb : WF b n)
    (hua : LitUnique a) (hub : LitUnique b) (heq : SameFunction a b)
    (A : List Int) (hA : InRange A n) (hne : A ≠ []) (l : Int) :
    l ∈ coreDeadA a n A ↔ l ∈ coreDeadA b n A := by
  rw [coreDeadA_exact a n ha (pdLeaf_of_WF a n ha hua) A hA hne l,
    coreDeadA_exact b n hb (pdLeaf_of_WF b n hb hub) A hA hne l,
    same_function_specCount a b n heq, same_function_specCount a b n heq]

theorem same_function_cardPD (a b : List NType) (n : Nat) (ha : WF a n) (hb : WF b n)
    (hua : LitUnique a) (hub : LitUnique b) (heq : SameFunction a b) :
    cardPD a n = cardPD b n := by
  apply List.ext_getElem
  · rw [cardPD_length, cardPD_length]
  · intro k h1 h2
    have hk : k < n := by rw [cardPD_length] at h1; exact h1
    have e1 := cardPD_exact a n ha hua k hk
    have e2 := cardPD_exact b n hb hub k hk
    rw [List.getD_eq_getElem?_getD, List.getElem?_eq_getElem h1, Option.getD_some] at e1
    rw [List.getD_eq_getElem?_getD, List.getElem?_eq_getElem h2, Option.getD_some] at e2
    rw [e1, e2]
    exact same_function_specCount a b n heq _

/-! ### the enumeration set -/

/-- the assignment described by a configuration -/
def cfgAssign (c : Config) : Assignment := fun v => c.contains (v : Int)

theorem satCfg_cfgAssign (n : Nat) (c : Config) (hc : Complete n c) :
    satCfg (cfgAssign c) c = true := by
  unfold satCfg
  rw [List.all_eq_true]
  intro l hl
  have h0 : l ≠ 0 := hc.2 l hl
  unfold litTrue cfgAssign
  by_cases hpos : l > 0
  · rw [if_pos hpos]
    have e : ((l.natAbs : Nat) : Int) = l := by omega
    rw [e, List.contains_iff_mem]
    exact hl
  · rw [if_neg hpos, if_pos (by omega : l < 0)]
    have e : ((l.natAbs : Nat) : Int) = -l := by omega
    rw [e]
    cases hcon : c.contains (-l) with
    | false => rfl
    | true =>
      rw [List.contains_iff_mem] at hcon
      exact (hc.not_both hl hcon).elim

theorem Complete.nodup {n : Nat} {c : Config} (hc : Complete n c) : c.Nodup := by
  have hnd : (c.map Int.natAbs).Nodup := hc.1.nodup_iff.mpr (nodup_range_succ n)
  rw [List.Nodup, List.pairwise_map] at hnd
  exact hnd.imp (fun h e => h (by rw [e]))

/-- two complete configurations satisfied by the same assignment agree up to the order of the
literals -/
theorem perm_of_complete_sat {n : Nat} {m c : Config} (hm : Complete n m) (hc : Complete n c)
    (σ : Assignment) (hsm : satCfg σ m = true) (hsc : satCfg σ c = true) : m.Perm c := by
  rw [List.perm_ext_iff_of_nodup hm.nodup hc.nodup]
  intro l
  constructor
  · intro hl
    have h0 := hm.2 l hl
    have hn := hm.natAbs_le hl
    exact (litTrue_iff_mem_complete hc σ hsc h0 hn).mp
      ((litTrue_iff_mem_complete hm σ hsm h0 hn).mpr hl)
  · intro hl
    have h0 := hc.2 l hl
    have hn := hc.natAbs_le hl
    exact (litTrue_iff_mem_complete hm σ hsm h0 hn).mp
      ((litTrue_iff_mem_complete hc σ hsc h0 hn).mpr hl)

/-- a complete configuration is listed (up to the order of its literals) iff the assignment it
describes satisfies the root -/
theorem listed_iff_eval (nodes : List NType) (n : Nat) (h : WF nodes n) (c : Config)
    (hc : Complete n c) :
    (∃ m ∈ models nodes (rootIx nodes), m.Perm c)
      ↔ eval (cfgAssign c) nodes (rootIx nodes) = true := by
  rw [eval_iff_models]
  constructor
  · rintro ⟨m, hm, hp⟩
    refine ⟨m, hm, ?_⟩
    unfold satCfg
    rw [hp.all_eq]
    exact satCfg_cfgAssign n c hc
  · rintro ⟨m, hm, hs⟩
    exact ⟨m, hm, perm_of_complete_sat (root_models_complete nodes n h m hm) hc (cfgAssign c) hs
      (satCfg_cfgAssign n c hc)⟩

/-- enumeration SET: the two arrays list the same complete configurations (up to the order of the
literals inside a configuration) -/
theorem same_function_model_set (a b : List NType) (n : Nat) (ha : WF a n) (hb : WF b n)
    (heq : SameFunction a b) (c : Config) (hc : Complete n c) :
    (∃ m ∈ models a (rootIx a), m.Perm c) ↔ (∃ m ∈ models b (rootIx b), m.Perm c) := by
  rw [listed_iff_eval a n ha c hc, listed_iff_eval b n hb c hc, heq]

/-- the two enumerations have the same length -/
theorem same_function_model_count (a b : List NType) (n : Nat) (ha : WF a n) (hb : WF b n)
    (heq : SameFunction a b) :
    (models a (rootIx a)).length = (models b (rootIx b)).length := by
  rw [← count_eq_length_models, ← count_eq_length_models]
  exact same_function_count a b n ha hb heq

end Ddnnf
