/-
  Well-formedness of the array the d4 loader produces (part 13): the bookkeeping fields of `D4WF` follow
  from the text.

  If no node line declares a literal node (d4 has no such lines: `o`, `a`, `t`, `f` only) then after
  phase 1 every literal leaf is registered in the literal table, its variable was recorded in `occurs`
  and is at most `total` (`lines_litTable`).  For an acyclic graph the leaves of the table are sinks
  (`lines_leaf_sink`).  So `D4WF` reduces to conditions on the graph alone (`d4wf_of_graph`):
  acyclic, no literal 0, decomposable, deterministic; and `load_wf'` / `load_count'` are the final
  theorems in that form.
-/
import DdnnfVerif.Proofs.LoadWF2_12

namespace Ddnnf.D4

/-- every literal leaf is in the table, with its variable recorded -/
structure LitTable (s : LState) : Prop where
  reg : ∀ x l, s.g.kindOf x = some (.lit l) → (l, x) ∈ s.litNx
  occ : ∀ e ∈ s.litNx, s.occurs.contains e.1.natAbs = true ∧ e.1.natAbs ≤ s.total

def occFold (lits : List Int) (o : List Nat) : List Nat :=
  lits.foldl (fun (o : List Nat) (l : Int) => if o.contains l.natAbs then o else l.natAbs :: o) o

def totFold (lits : List Int) (t : Nat) : Nat := lits.foldl (fun (t : Nat) (l : Int) => max t l.natAbs) t

theorem occFold_mono (lits : List Int) : ∀ (o : List Nat) (x : Nat), x ∈ o → x ∈ occFold lits o := by
  induction lits with
  | nil => intro o x h; exact h
  | cons l ls ih =>
    intro o x h
    show x ∈ occFold ls (if o.contains l.natAbs then o else l.natAbs :: o)
    apply ih
    split
    · exact h
    · exact List.mem_cons_of_mem _ h

theorem occFold_mem (lits : List Int) : ∀ (o : List Nat), ∀ l ∈ lits, l.natAbs ∈ occFold lits o := by
  induction lits with
  | nil => intro o l h; cases h
  | cons l0 ls ih =>
    intro o l h
    show l.natAbs ∈ occFold ls (if o.contains l0.natAbs then o else l0.natAbs :: o)
    rcases List.mem_cons.1 h with e | h
    · subst e
      apply occFold_mono
      split
      · rename_i hc; simpa using hc
      · exact List.mem_cons_self ..
    · exact ih _ l h

theorem totFold_mono (lits : List Int) : ∀ (t : Nat), t ≤ totFold lits t := by
  induction lits with
  | nil => intro t; exact Nat.le_refl _
  | cons l ls ih =>
    intro t
    show t ≤ totFold ls (max t l.natAbs)
    exact Nat.le_trans (Nat.le_max_left _ _) (ih _)

theorem totFold_mem (lits : List Int) : ∀ (t : Nat), ∀ l ∈ lits, l.natAbs ≤ totFold lits t := by
  induction lits with
  | nil => intro t l h; cases h
  | cons l0 ls ih =>
    intro t l h
    show l.natAbs ≤ totFold ls (max t l0.natAbs)
    rcases List.mem_cons.1 h with e | h
    · subst e; exact Nat.le_trans (Nat.le_max_right _ _) (totFold_mono ls _)
    · exact ih _ l h

/-- `getLit` of a literal whose variable is recorded keeps the table -/
theorem getLit_litTable (s : LState) (l : Int) (_hl : LInv s) (h : LitTable s)
    (hocc : s.occurs.contains l.natAbs = true ∧ l.natAbs ≤ s.total) : LitTable (s.getLit l).1 := by
  cases hf : s.litNx.find? (·.1 == l) with
  | some e => rw [getLit_found s l e hf]; exact h
  | none =>
    rw [getLit_new s l hf]
    refine ⟨?_, ?_⟩
    · intro x l' hk
      have hk' : (s.g.addNode (.lit l)).1.kindOf x = some (.lit l') := hk
      rw [kindOf_addNode] at hk'
      show (l', x) ∈ (l, s.g.kind.size) :: s.litNx
      split at hk'
      · rename_i hx
        cases hk'
        rw [hx]; exact List.mem_cons_self ..
      · exact List.mem_cons_of_mem _ (h.reg x l' hk')
    · intro e he
      have he' : e ∈ (l, s.g.kind.size) :: s.litNx := he
      rcases List.mem_cons.1 he' with e1 | he'
      · rw [e1]; exact hocc
      · exact h.occ e he'

theorem getLits_litTable (s : LState) (ls : List Int) (hl : LInv s) (h : LitTable s)
    (hocc : ∀ l ∈ ls, s.occurs.contains l.natAbs = true ∧ l.natAbs ≤ s.total) :
    LitTable (s.getLits ls).1 ∧ (s.getLits ls).1.occurs = s.occurs ∧ (s.getLits ls).1.total = s.total := by
  unfold LState.getLits
  refine (foldl_inv (fun (acc : LState × List Nat) => LInv acc.1 ∧ LitTable acc.1 ∧ acc.1.occurs = s.occurs ∧
    acc.1.total = s.total) _ _ ?_ (s, []) ⟨hl, h, rfl, rfl⟩).2
  intro acc l hlm hacc
  show LInv (acc.1.getLit l).1 ∧ LitTable (acc.1.getLit l).1 ∧ (acc.1.getLit l).1.occurs = s.occurs ∧
    (acc.1.getLit l).1.total = s.total
  refine ⟨(getLit_spec acc.1 l hacc.1).1, getLit_litTable acc.1 l hacc.1 hacc.2.1 ?_,
    (getLit_occurs acc.1 l).trans hacc.2.2.1, (getLit_total acc.1 l).trans hacc.2.2.2⟩
  rw [hacc.2.2.1, hacc.2.2.2]; exact hocc l hlm

theorem fold_addEdge_kindOf (a : Nat) (l : List Nat) : ∀ (g : G) (x : Nat),
    (l.foldl (fun (g : G) (y : Nat) => g.addEdge a y) g).kindOf x = g.kindOf x := by
  induction l with
  | nil => intro g x; rfl
  | cons y l ih => intro g x; rw [List.foldl_cons, ih]; rfl

theorem edgeStep_litTable (s : LState) (a b : Nat) (lits : List Int) (hl : LInv s) (h : LitTable s)
    (hocc : ∀ l ∈ lits, s.occurs.contains l.natAbs = true ∧ l.natAbs ≤ s.total) :
    LitTable (edgeStep s a b lits) := by
  unfold edgeStep
  dsimp only
  split
  · exact ⟨h.reg, h.occ⟩
  · obtain ⟨ht, hoc, hto⟩ := getLits_litTable s lits hl h hocc
    show LitTable { (s.getLits lits).1 with g :=
        (((s.getLits lits).2.foldl (fun (g : G) (x : Nat) => g.addEdge ((s.getLits lits).1.g.addNode .and).2 x)
          ((((s.getLits lits).1.g.addNode .and).1).addEdge (s.indices.getD (a - 1) 0)
            ((s.getLits lits).1.g.addNode .and).2)).addEdge ((s.getLits lits).1.g.addNode .and).2
              (s.indices.getD (b - 1) 0)) }
    generalize s.getLits lits = p at ht hoc hto ⊢
    obtain ⟨s1, litNodes⟩ := p
    dsimp only at ht hoc hto ⊢
    refine ⟨?_, ht.occ⟩
    intro x l hk
    have hk' : (litNodes.foldl (fun (g : G) (y : Nat) => g.addEdge (s1.g.addNode .and).2 y)
        ((s1.g.addNode .and).1.addEdge (s.indices.getD (a - 1) 0) (s1.g.addNode .and).2)).kindOf x
        = some (.lit l) := hk
    rw [fold_addEdge_kindOf, kindOf_addEdge, kindOf_addNode] at hk'
    split at hk'
    · cases hk'
    · exact ht.reg x l hk'

theorem stepLine_litTable (s : LState) (line : Line) (hl : LInv s) (h : LitTable s)
    (hdecl : ∀ l, line ≠ .node (.lit l)) : LitTable (stepLine s line) := by
  cases line with
  | node k =>
    refine ⟨?_, h.occ⟩
    intro x l hk
    have hk' : (s.g.addNode k).1.kindOf x = some (.lit l) := hk
    rw [kindOf_addNode] at hk'
    split at hk'
    · cases hk'; exact absurd rfl (hdecl l)
    · exact h.reg x l hk'
  | edge a b lits =>
    rw [stepLine_edge]
    apply edgeStep_litTable
    · exact ⟨hl.wf, hl.idx, hl.lit, hl.tri⟩
    · refine ⟨h.reg, ?_⟩
      intro e he
      obtain ⟨h1, h2⟩ := h.occ e he
      refine ⟨?_, Nat.le_trans h2 (totFold_mono lits s.total)⟩
      have : e.1.natAbs ∈ s.occurs := (contains_iff_mem _ _).1 h1
      exact (contains_iff_mem _ _).2 (occFold_mono lits s.occurs _ this)
    · intro l hlm
      refine ⟨?_, totFold_mem lits s.total l hlm⟩
      exact (contains_iff_mem _ _).2 (occFold_mem lits s.occurs l hlm)

/-- phase 1 of a text without declared literal nodes: every literal leaf is in the literal table -/
theorem lines_litTable (lines : List Line) (total : Nat) (hdecl : ∀ l, Line.node (.lit l) ∉ lines) :
    LitTable (phase1 lines total) := by
  unfold phase1
  refine (foldl_inv (fun (acc : LState) => LInv acc ∧ LitTable acc) stepLine lines ?_ { total := total }
    ⟨linv_init total, ⟨?_, ?_⟩⟩).2
  · intro acc line hm hacc
    refine ⟨(stepLine_spec acc line hacc.1).1, stepLine_litTable acc line hacc.1 hacc.2 ?_⟩
    intro l e
    exact hdecl l (e ▸ hm)
  · intro x l hk
    have : ({ total := total } : LState).g.kindOf x = none := by
      simp [G.kindOf, Array.getD_eq_getD_getElem?]
    rw [this] at hk; cases hk
  · intro e he; cases he

/-- **`D4WF` from conditions on the text and its graph alone**: no literal node is declared by a node
line, and the graph of phase 1 is acyclic, has no literal 0, is decomposable and deterministic. -/
theorem d4wf_of_graph (lines : List Line) (total : Nat) (r : Nat → Nat)
    (hdecl : ∀ l, Line.node (.lit l) ∉ lines)
    (hacyc : Acyclic (phase1 lines total).g r) (hnz : LitNZ (phase1 lines total).g)
    (hdec : GDec (phase1 lines total).g)
    (hdet : ∀ (σ : Assignment) (x : Nat), (phase1 lines total).g.kindOf x = some .or →
      ((phase1 lines total).g.outs.getD x []).countP (sem σ (phase1 lines total).g r) ≤ 1) :
    D4WF (phase1 lines total) r := by
  have ht := lines_litTable lines total hdecl
  have hsink := lines_leaf_sink lines total r hacyc
  refine ⟨hacyc, ?_, ?_, ?_, hdec, hdet⟩
  · intro x l hk
    refine ⟨?_, (ht.occ _ (ht.reg x l hk)).2⟩
    have := hnz x l hk
    omega
  · intro x l hk; exact (ht.occ _ (ht.reg x l hk)).1
  · intro x l hk; exact hsink _ (ht.reg x l hk)

/-- `load_wf` with the hypotheses on the text and its graph alone -/
theorem load_wf' (lines : List Line) (total : Nat) (hnode : ∃ k, Line.node k ∈ lines)
    (hdecl : ∀ l, Line.node (.lit l) ∉ lines) (r : Nat → Nat)
    (hacyc : Acyclic (phase1 lines total).g r) (hnz : LitNZ (phase1 lines total).g)
    (hdec : GDec (phase1 lines total).g)
    (hdet : ∀ (σ : Assignment) (x : Nat), (phase1 lines total).g.kindOf x = some .or →
      ((phase1 lines total).g.outs.getD x []).countP (sem σ (phase1 lines total).g r) ≤ 1)
    (hok : (load lines total).2.2 = false) (hsat : ∃ σ, sem σ (phase1 lines total).g r 0 = true) :
    WF (load lines total).2.1 (load lines total).1 :=
  load_wf lines total hnode r (d4wf_of_graph lines total r hdecl hacyc hnz hdec hdet) hok hsat

/-- `load_count` with the hypotheses on the text and its graph alone -/
theorem load_count' (lines : List Line) (total : Nat) (hnode : ∃ k, Line.node k ∈ lines)
    (hdecl : ∀ l, Line.node (.lit l) ∉ lines) (r : Nat → Nat)
    (hacyc : Acyclic (phase1 lines total).g r) (hnz : LitNZ (phase1 lines total).g)
    (hdec : GDec (phase1 lines total).g)
    (hdet : ∀ (σ : Assignment) (x : Nat), (phase1 lines total).g.kindOf x = some .or →
      ((phase1 lines total).g.outs.getD x []).countP (sem σ (phase1 lines total).g r) ≤ 1)
    (hok : (load lines total).2.2 = false) (hsat : ∃ σ, sem σ (phase1 lines total).g r 0 = true) :
    count (load lines total).2.1 (rootIx (load lines total).2.1) =
      ((allBits (load lines total).1).filter fun b =>
        sem (assignOf b) (phase1 lines total).g r 0).length :=
  load_count lines total hnode r (d4wf_of_graph lines total r hdecl hacyc hnz hdec hdet) hok hsat

end Ddnnf.D4
