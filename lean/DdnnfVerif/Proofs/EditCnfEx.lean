/-
  Non-vacuity of the statements in Proofs/EditCnfMachine.lean: a concrete history through three of the
  strategies (recompile, undo, unit clause), and the hypotheses of `history_inv` hold for it.
-/
import DdnnfVerif.Proofs.EditCnfMachine
namespace Ddnnf.EC

/-- add the clause ¬1 ∨ ¬2 (recompiled), take it back (the graph-dependent choice is irrelevant:
the cache answers), add the unit clause 3 -/
def exReqs : List (List (Clause × App) × Choice) :=
  [ ([([-1, -2], .add)], .recompile),
    ([([-1, -2], .rmv)], .splice),
    ([([3], .add)], .splice) ]

def exStart : State := init [[1, 2]] 3

def exS1 : State := (step exStart [([-1, -2], .add)] .recompile).1
def exS2 : State := (step exS1 [([-1, -2], .rmv)] .splice).1
def exS3 : State := (step exS2 [([3], .add)] .splice).1

/-- the strategies taken -/
example : (step exStart [([-1, -2], .add)] .recompile).2 = .recompile := by decide
example : (step exS1 [([-1, -2], .rmv)] .splice).2 = .undo := by decide
example : (step exS2 [([3], .add)] .splice).2 = .unitClause := by decide

/-- the second request is the inverse of the first -/
example : prepare [([-1, -2], .rmv)] = (prepare [([-1, -2], .add)]).inv := rfl

/-- stored clauses, denotation, cache size and taint along the history -/
example :
    (runAll exStart exReqs).map (fun t => (t.cur.clauses, t.cur.den, t.cur.nvars, t.cache.length, t.tainted)) =
      [ ([[1, 2]], [[1, 2]], 3, 0, false),
        ([[1, 2], [-1, -2], [-1, -2]], [[1, 2], [-1, -2], [-1, -2]], 3, 1, false),
        ([[1, 2]], [[1, 2]], 3, 1, false),
        ([[1, 2], [3]], [[1, 2], [3]], 3, 1, false) ] := by decide

/-- the undo brings back the stored clauses and the denotation of the start -/
example : exS2.cur.clauses = exStart.cur.clauses ∧ exS2.cur.den = exStart.cur.den ∧
    exS2.cur.nvars = exStart.cur.nvars := by decide

theorem ex_nz : NZ [[1, 2]] := by
  show ∀ c ∈ [[1, 2]], ∀ l ∈ c, l ≠ (0 : Int)
  decide

/-- feature 1 and feature 3 selected, feature 2 not -/
def exσ : Assignment := fun v => v == 1 || v == 3

theorem ex_sat : Sat [[1, 2]] := ⟨exσ, by decide⟩

theorem ex_ops : ∀ r ∈ exReqs, OpsNZ r.1 := by
  show ∀ r ∈ exReqs, ∀ p ∈ r.1, ∀ l ∈ p.1, l ≠ (0 : Int)
  decide

theorem ex_all : ∀ t ∈ runAll (init [[1, 2]] 3) exReqs, t.tainted = false ∧ Sat t.cur.den := by
  have h : ∀ t ∈ runAll (init [[1, 2]] 3) exReqs, t.tainted = false ∧ satCnf exσ t.cur.den = true := by
    decide
  exact fun t ht => ⟨(h t ht).1, exσ, (h t ht).2⟩

/-- the hypotheses of `history_inv` are satisfiable: its conclusion for the example history -/
example : ∀ t ∈ runAll (init [[1, 2]] 3) exReqs, Inv t ∧ t.cache.length ≤ 1 :=
  history_inv [[1, 2]] 3 ex_nz ex_sat exReqs ex_ops ex_all

/-- `inverse_restores` applies to the first step -/
example : (applyEdit exS1 (prepare [([-1, -2], .add)]).inv .splice).2 = .undo ∧
    (applyEdit exS1 (prepare [([-1, -2], .add)]).inv .splice).1.cur = exStart.cur :=
  have h := inverse_restores exStart exS1 (prepare [([-1, -2], .add)]) .splice rfl
  ⟨h.1, h.2.1⟩

end Ddnnf.EC
