/-
  Top-k configurations, part 3: the pass `fTopK` (`calc_top_k_configs`).  At every node the
  result is a top-k selection (`IsTopK`, Proofs/TopKBase.lean) of the list of all models of the
  node that are compatible with the assumptions, each with its objective value.  Unconditional:
  no well-formedness of the circuit is needed.

  The proof compares `fTopK` with the list `modelsF` of all compatible models in which the
  literals of an and-node are concatenated in child order (as `OC.unify` does); `modelsF` and
  `modelsA` agree entry by entry up to the order of the literals inside a configuration.
-/
import DdnnfVerif.Model.Query
import DdnnfVerif.Proofs.Table
import DdnnfVerif.Proofs.TopKAnd

namespace Ddnnf

/-- a configuration together with its objective value -/
def mkOC (vals : Nat → Int) : Config → OC := fun c => ⟨cfgValue vals c, c⟩

/-! ### pointwise relations -/

theorem PW.append {α β} {R : α → β → Prop} {a a' : List α} {b b' : List β} (h1 : PW R a b)
    (h2 : PW R a' b') : PW R (a ++ a') (b ++ b') := by
  induction h1 with
  | nil => exact h2
  | cons hr _ ih => exact .cons hr ih

theorem PW.map {α β γ δ} {R : α → β → Prop} {S : γ → δ → Prop} {a : List α} {b : List β}
    (f : α → γ) (g : β → δ) (h : PW R a b) (hfg : ∀ x y, R x y → S (f x) (g y)) :
    PW S (a.map f) (b.map g) := by
  induction h with
  | nil => exact .nil
  | cons hr _ ih => exact .cons (hfg _ _ hr) ih

theorem PW.flatMap {α β γ δ} {R : α → β → Prop} {S : γ → δ → Prop} {a : List α} {b : List β}
    (f : α → List γ) (g : β → List δ) (h : PW R a b) (hfg : ∀ x y, R x y → PW S (f x) (g y)) :
    PW S (a.flatMap f) (b.flatMap g) := by
  induction h with
  | nil => exact .nil
  | cons hr _ ih =>
    simp only [List.flatMap_cons]
    exact (hfg _ _ hr).append ih

theorem PW.exists_right {α β} {R : α → β → Prop} {a : List α} {b : List β} (h : PW R a b) {x : α}
    (hx : x ∈ a) : ∃ y ∈ b, R x y := by
  induction h with
  | nil => cases hx
  | cons hr _ ih =>
    rcases List.mem_cons.mp hx with rfl | hx
    · exact ⟨_, List.mem_cons_self, hr⟩
    · obtain ⟨y, hy, hxy⟩ := ih hx
      exact ⟨y, List.mem_cons_of_mem _ hy, hxy⟩

/-! ### the models with the literals in child order -/

/-- like `prodConfigs`, same enumeration order, but a product element is `x₁ ++ x₂ ++ …` -/
def prodF : List (List Config) → List Config
  | [] => [[]]
  | l :: rest => (prodF rest).flatMap (fun tl => l.map (fun hd => hd ++ tl))

def fModelsF (negs : List Int) : NType → (Nat → List Config) → List Config
  | .and cs, g => prodF (cs.map g)
  | .or cs, g => (cs.map g).flatten
  | .lit l, _ => if negs.contains l then [] else [[l]]
  | .tru, _ => [[]]
  | .fls, _ => []

def modelsF (nodes : List NType) (negs : List Int) (i : Nat) : List Config :=
  val [] (fModelsF negs) nodes i

theorem prodF_prodConfigs (cs : List Nat) (ga gb : Nat → List Config)
    (h : ∀ c, PW List.Perm (ga c) (gb c)) :
    PW List.Perm (prodF (cs.map ga)) (prodConfigs (cs.map gb)) := by
  induction cs with
  | nil => exact .cons (List.Perm.refl _) .nil
  | cons c cs ih =>
    simp only [List.map_cons, prodF, prodConfigs]
    apply PW.flatMap _ _ ih
    intro tl tl' htl
    apply PW.map _ _ (h c)
    intro hd hd' hhd
    exact List.perm_append_comm.trans (htl.append hhd)

theorem modelsF_modelsA (nodes : List NType) (negs : List Int) (i : Nat) :
    PW List.Perm (modelsF nodes negs i) (modelsA nodes negs i) := by
  unfold modelsF modelsA
  apply table_rel (PW List.Perm) [] [] (fModelsF negs) (fModelsA negs) .nil
  intro nd ga gb h
  cases nd with
  | and cs => exact prodF_prodConfigs cs ga gb h
  | or cs =>
    show PW List.Perm (cs.map ga).flatten (cs.map gb).flatten
    induction cs with
    | nil => exact .nil
    | cons c cs ih =>
      simp only [List.map_cons, List.flatten_cons]
      exact (h c).append ih
  | lit l =>
    show PW List.Perm (if negs.contains l then [] else [[l]]) (if negs.contains l then [] else [[l]])
    by_cases hl : negs.contains l = true
    · rw [if_pos hl]; exact .nil
    · rw [if_neg hl]; exact .cons (List.Perm.refl _) .nil
  | tru => exact .cons (List.Perm.refl _) .nil
  | fls => exact .nil

theorem mkOC_append (vals : Nat → Int) (a b : Config) :
    mkOC vals (a ++ b) = (mkOC vals a).unify (mkOC vals b) := by
  simp [mkOC, OC.unify, cfgValue_append]

theorem map_mkOC_prodF (vals : Nat → Int) (ls : List (List Config)) :
    (prodF ls).map (mkOC vals) = prodOC (ls.map (List.map (mkOC vals))) := by
  induction ls with
  | nil => rfl
  | cons l rest ih =>
    simp only [prodF, List.map_cons, prodOC, pairOC, List.map_flatMap, List.map_map]
    rw [← ih, List.flatMap_map]
    congr 1
    funext tl
    apply List.map_congr_left
    intro hd _
    simp [Function.comp, mkOC_append]

/-! ### the invariant of the pass -/

theorem fTopK_rel (vals : Nat → Int) (A : List Int) (k : Nat) (hk : 0 < k) (nd : NType)
    (ga : Nat → List OC) (gb : Nat → List Config) (h : ∀ j, IsTopKS k ((gb j).map (mkOC vals)) (ga j)) :
    IsTopKS k ((fModelsF (A.map (fun f => -f)) nd gb).map (mkOC vals)) (fTopK vals A k nd ga) := by
  cases nd with
  | tru =>
    show IsTopKS k [mkOC vals []] [OC.empty]
    exact ⟨List.pairwise_singleton _ _, by simp only [List.length_singleton]; omega, [],
      by simp [mkOC, OC.empty], by intro x _ y hy; cases hy⟩
  | fls => exact isTopKS_nil _
  | lit l =>
    show IsTopKS k ((if (A.map (fun f => -f)).contains l then [] else [[l]]).map (mkOC vals))
      (if A.contains (-l) then [] else [⟨litValue vals l, [l]⟩])
    rw [contains_neg_eq]
    by_cases hl : (A.map (fun f => -f)).contains l = true
    · rw [if_pos hl, if_pos hl]; exact isTopKS_nil _
    · rw [if_neg hl, if_neg hl]
      exact ⟨List.pairwise_singleton _ _,
        by simp only [List.map_cons, List.map_nil, List.length_singleton]; omega, [],
        by simp [mkOC], by intro x _ y hy; cases hy⟩
  | and cs =>
    show IsTopKS k ((prodF (cs.map gb)).map (mkOC vals)) (mergeAnd (cs.map ga) k)
    rw [map_mkOC_prodF, List.map_map]
    have hd : ∀ l ∈ cs.map ga, Desc l := by
      intro l hl
      rw [List.mem_map] at hl
      obtain ⟨c, _, rfl⟩ := hl
      exact (h c).desc
    exact (Dom.prod cs (fun c => (gb c).map (mkOC vals)) ga (fun c _ => (h c).dom)).isTopKS
      (mergeAnd_correct (cs.map ga) k hd)
  | or cs =>
    show IsTopKS k (((cs.map gb).flatten).map (mkOC vals))
      (mergeOr (min k (sumNat ((cs.map ga).map List.length))) (cs.map ga))
    rw [List.map_flatten, List.map_map]
    have hd : ∀ l ∈ cs.map ga, Desc l := by
      intro l hl
      rw [List.mem_map] at hl
      obtain ⟨c, _, rfl⟩ := hl
      exact (h c).desc
    have h1 := mergeOr_correct (min k (sumNat ((cs.map ga).map List.length))) (cs.map ga) hd
    have h2 : IsTopKS k (cs.map ga).flatten
        (mergeOr (min k (sumNat ((cs.map ga).map List.length))) (cs.map ga)) := by
      apply h1.of_min
      rw [List.length_flatten, sumNat_eq_sum]
      omega
    exact (Dom.flatten cs (fun c => (gb c).map (mkOC vals)) ga (fun c _ => (h c).dom)).isTopKS h2

theorem topK_rel (nodes : List NType) (vals : Nat → Int) (A : List Int) (k i : Nat) (hk : 0 < k) :
    IsTopKS k ((modelsF nodes (A.map (fun f => -f)) i).map (mkOC vals))
      (val [] (fTopK vals A k) nodes i) := by
  unfold modelsF
  exact table_rel (fun (out : List OC) (ms : List Config) => IsTopKS k (ms.map (mkOC vals)) out)
    [] [] (fTopK vals A k) (fModelsF (A.map (fun f => -f))) (isTopKS_nil k)
    (fun nd ga gb h => fTopK_rel vals A k hk nd ga gb h) nodes i

/-! ### the theorems -/

/-- the result of the top-k pass at node `i` is a top-k selection of the compatible models of the
node (with their objective values) -/
theorem topK_correct (nodes : List NType) (vals : Nat → Int) (A : List Int) (k i : Nat) (hk : 0 < k) :
    IsTopK k ((modelsA nodes (A.map (fun f => -f)) i).map (fun c => ⟨cfgValue vals c, c⟩))
      (val [] (fTopK vals A k) nodes i) := by
  apply (topK_rel nodes vals A k i hk).transfer
  apply PW.map _ _ (modelsF_modelsA nodes (A.map (fun f => -f)) i)
  intro x y hxy
  exact ⟨cfgValue_perm vals hxy, hxy⟩

/-- the value sequence of the result is exactly the sequence of the k largest objective values
of the compatible models, in non-increasing order -/
theorem topK_values (nodes : List NType) (vals : Nat → Int) (A : List Int) (k i : Nat) (hk : 0 < k) :
    (val [] (fTopK vals A k) nodes i).map (·.value)
      = (sortDesc ((modelsA nodes (A.map (fun f => -f)) i).map (cfgValue vals))).take k := by
  have := (topK_correct nodes vals A k i hk).values
  rw [List.map_map] at this
  exact this

theorem topK_length (nodes : List NType) (vals : Nat → Int) (A : List Int) (k i : Nat) (hk : 0 < k) :
    (val [] (fTopK vals A k) nodes i).length
      = min k (modelsA nodes (A.map (fun f => -f)) i).length := by
  have := (topK_correct nodes vals A k i hk).2.1
  rw [List.length_map] at this
  exact this

theorem topK_sorted (nodes : List NType) (vals : Nat → Int) (A : List Int) (k i : Nat) (hk : 0 < k) :
    (val [] (fTopK vals A k) nodes i).Pairwise (fun a b => b.value ≤ a.value) :=
  (topK_correct nodes vals A k i hk).1

/-- every entry of the result is (up to the order of its literals) a compatible model of the node
and carries its objective value -/
theorem topK_mem_is_model (nodes : List NType) (vals : Nat → Int) (A : List Int) (k i : Nat)
    (hk : 0 < k) (o : OC) (ho : o ∈ val [] (fTopK vals A k) nodes i) :
    o.value = cfgValue vals o.cfg ∧ ∃ m ∈ modelsA nodes (A.map (fun f => -f)) i, o.cfg.Perm m := by
  obtain ⟨_, _, rest, ⟨b', hp, hpw⟩, _⟩ := topK_correct nodes vals A k i hk
  have hmem : o ∈ b' := hp.subset (List.mem_append_left _ ho)
  obtain ⟨y, hy, hv, hc⟩ := hpw.exists_right hmem
  rw [List.mem_map] at hy
  obtain ⟨m, hm, rfl⟩ := hy
  refine ⟨?_, m, hm, hc⟩
  rw [hv]
  exact (cfgValue_perm vals hc).symm

/-- `0 < k` is needed: the leaves return their single entry even for `k = 0` (only the merges of
the inner nodes cut to `k` entries), so for the one-node circuit `[⊤]` and `k = 0` the result has
length 1 instead of 0. -/
theorem topK_zero_counterexample :
    ¬ IsTopK 0 ((modelsA [.tru] (([] : List Int).map (fun f => -f)) 0).map
        (fun c => ⟨cfgValue (fun _ => 0) c, c⟩)) (val [] (fTopK (fun _ => 0) [] 0) [.tru] 0) := by
  intro h
  have hlen := h.2.1
  rw [Nat.zero_min] at hlen
  have hv : val [] (fTopK (fun _ => 0) [] 0) [.tru] 0 = [OC.empty] := by
    rw [val_eq _ _ _ 0 (by simp)]
    rfl
  rw [hv] at hlen
  simp at hlen

/-! ### corollaries for `topK` (the value at the root) -/

theorem topK_root_correct (nodes : List NType) (vals : Nat → Int) (A : List Int) (k : Nat) (hk : 0 < k) :
    IsTopK k ((modelsA nodes (A.map (fun f => -f)) (rootIx nodes)).map
        (fun c => ⟨cfgValue vals c, c⟩)) (topK nodes vals A k) :=
  topK_correct nodes vals A k (rootIx nodes) hk

theorem topK_root_values (nodes : List NType) (vals : Nat → Int) (A : List Int) (k : Nat) (hk : 0 < k) :
    (topK nodes vals A k).map (·.value)
      = (sortDesc ((modelsA nodes (A.map (fun f => -f)) (rootIx nodes)).map (cfgValue vals))).take k :=
  topK_values nodes vals A k (rootIx nodes) hk

end Ddnnf
