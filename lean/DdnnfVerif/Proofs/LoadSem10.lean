/-
  Denotation of the graphs of the d4 loader (part 10): `balance` keeps the graph acyclic.

  The ranks are rescaled by `psi` (0 ↦ 0, 1 ↦ 1, k ↦ 3k): literal leaves stay at 0, triangles at 1, and
  the new `and` between an `or` of rank `≥ 2` and its child `c` fits in at `psi (ρ c) + 2`.
  Also the frame facts of the adding operations (kinds of old nodes, successor lists of the nodes that
  are not touched), without any invariant.
-/
import DdnnfVerif.Proofs.LoadSem4
import DdnnfVerif.Proofs.LoadSem9

namespace Ddnnf.D4

/-! ### frame facts -/

theorem getLit_outs (s : LState) (l : Int) (x : Nat) :
    (s.getLit l).1.g.outs.getD x [] = s.g.outs.getD x [] := by
  cases hf : s.litNx.find? (·.1 == l) with
  | some e => rw [getLit_found s l e hf]
  | none => rw [getLit_new s l hf]; exact outs_addNode s.g (.lit l) x

theorem getLit_kindOf_old (s : LState) (l : Int) (x : Nat) (hx : x < s.g.kind.size) :
    (s.getLit l).1.g.kindOf x = s.g.kindOf x := by
  cases hf : s.litNx.find? (·.1 == l) with
  | some e => rw [getLit_found s l e hf]
  | none =>
    rw [getLit_new s l hf]
    show (s.g.addNode (.lit l)).1.kindOf x = _
    rw [kindOf_addNode, if_neg (Nat.ne_of_lt hx)]

theorem addTriangle_frame (s : LState) (f attach : Nat) :
    s.g.kind.size ≤ (s.addTriangle f attach).g.kind.size ∧
    (∀ x, x < s.g.kind.size → (s.addTriangle f attach).g.kindOf x = s.g.kindOf x) ∧
    (∀ x, x < s.g.kind.size → x ≠ attach →
      (s.addTriangle f attach).g.outs.getD x [] = s.g.outs.getD x []) := by
  cases hfind : s.tri.find? (·.1 == f) with
  | some e =>
    rw [addTriangle_found s f attach e hfind]
    refine ⟨Nat.le_refl _, fun _ _ => rfl, ?_⟩
    intro x _ hxa
    show (s.g.addEdge attach e.2).outs.getD x [] = _
    rw [outs_addEdge, if_neg (fun h => hxa h.1.symm)]
  | none =>
    rw [addTriangle_new s f attach hfind]
    unfold triNew
    dsimp only
    rw [addNode_snd]
    have hsz := addNode_size s.g .or
    generalize hs1 : ({ s with g := (s.g.addNode .or).1, tri := (f, s.g.kind.size) :: s.tri } : LState) = s1
    have s1sz : s1.g.kind.size = s.g.kind.size + 1 := by rw [← hs1]; exact hsz
    have s1k : ∀ x, x < s.g.kind.size → s1.g.kindOf x = s.g.kindOf x := by
      intro x hx; rw [← hs1]
      show (s.g.addNode .or).1.kindOf x = _
      rw [kindOf_addNode, if_neg (Nat.ne_of_lt hx)]
    have s1o : ∀ x, s1.g.outs.getD x [] = s.g.outs.getD x [] := by
      intro x; rw [← hs1]; exact outs_addNode s.g .or x
    have z2 := getLit_size_le s1 (f : Int)
    have k2 := getLit_kindOf_old s1 (f : Int)
    have o2 := getLit_outs s1 (f : Int)
    have z3 := getLit_size_le (s1.getLit (f : Int)).1 (-(f : Int))
    have k3 := getLit_kindOf_old (s1.getLit (f : Int)).1 (-(f : Int))
    have o3 := getLit_outs (s1.getLit (f : Int)).1 (-(f : Int))
    generalize s1.getLit (f : Int) = p2 at z2 k2 o2 z3 k3 o3 ⊢
    obtain ⟨s2, pos⟩ := p2
    dsimp only at z2 k2 o2 z3 k3 o3 ⊢
    generalize s2.getLit (-(f : Int)) = p3 at z3 k3 o3 ⊢
    obtain ⟨s3, neg⟩ := p3
    dsimp only at z3 k3 o3 ⊢
    refine ⟨?_, ?_, ?_⟩
    · show s.g.kind.size ≤ s3.g.kind.size
      omega
    · intro x hx
      show s3.g.kindOf x = _
      rw [k3 x (by omega), k2 x (by omega), s1k x hx]
    · intro x hx hxa
      rw [outs_addEdge, if_neg (fun h => Nat.ne_of_lt hx h.1.symm), outs_addEdge,
        if_neg (fun h => Nat.ne_of_lt hx h.1.symm), outs_addEdge, if_neg (fun h => hxa h.1.symm),
        o3, o2, s1o]

theorem addTriangles_frame (a : Nat) (order : List Nat) : ∀ s : LState,
    s.g.kind.size ≤ (order.foldl (fun t f => t.addTriangle f a) s).g.kind.size ∧
    (∀ x, x < s.g.kind.size → (order.foldl (fun t f => t.addTriangle f a) s).g.kindOf x = s.g.kindOf x) ∧
    (∀ x, x < s.g.kind.size → x ≠ a →
      (order.foldl (fun t f => t.addTriangle f a) s).g.outs.getD x [] = s.g.outs.getD x []) := by
  induction order with
  | nil => intro s; exact ⟨Nat.le_refl _, fun _ _ => rfl, fun _ _ _ => rfl⟩
  | cons f fs ih =>
    intro s
    obtain ⟨z1, k1, o1⟩ := addTriangle_frame s f a
    obtain ⟨z2, k2, o2⟩ := ih (s.addTriangle f a)
    rw [List.foldl_cons]
    exact ⟨Nat.le_trans z1 z2, fun x hx => (k2 x (Nat.lt_of_lt_of_le hx z1)).trans (k1 x hx),
      fun x hx hxa => (o2 x (Nat.lt_of_lt_of_le hx z1) hxa).trans (o1 x hx hxa)⟩

theorem balanceStep_frame (sorted : Bool) (h : List Nat → List Nat) (nx : Nat) (s : LState) (child : Nat)
    (miss : List Nat) (hw : WFG s.g) (hnx : nx < s.g.kind.size) :
    s.g.kind.size ≤ (balanceStep sorted h nx s (child, miss)).g.kind.size ∧
    (∀ x, x < s.g.kind.size → (balanceStep sorted h nx s (child, miss)).g.kindOf x = s.g.kindOf x) ∧
    (∀ x, x < s.g.kind.size → x ≠ nx →
      (balanceStep sorted h nx s (child, miss)).g.outs.getD x [] = s.g.outs.getD x []) ∧
    (balanceStep sorted h nx s (child, miss)).g.outs.getD nx [] =
      s.g.kind.size :: (s.g.outs.getD nx []).erase child := by
  rw [balanceStep_eq]
  obtain ⟨z, k, o⟩ := addTriangles_frame s.g.kind.size (if sorted then sortNat (h miss) else h miss)
    { s with g := insertAnd s.g nx child }
  have hsz : ({ s with g := insertAnd s.g nx child } : LState).g.kind.size = s.g.kind.size + 1 :=
    insertAnd_size s.g nx child
  refine ⟨by omega, ?_, ?_, ?_⟩
  · intro x hx
    rw [k x (by omega)]
    show (insertAnd s.g nx child).kindOf x = _
    rw [insertAnd_kindOf, if_neg (Nat.ne_of_lt hx)]
  · intro x hx hxn
    rw [o x (by omega) (Nat.ne_of_lt hx)]
    show (insertAnd s.g nx child).outs.getD x [] = _
    rw [insertAnd_outs _ _ _ _ hw hnx, if_neg (Nat.ne_of_lt hx), if_neg hxn]
  · rw [o nx (by omega) (Nat.ne_of_lt hnx)]
    show (insertAnd s.g nx child).outs.getD nx [] = _
    rw [insertAnd_outs _ _ _ _ hw hnx, if_neg (Nat.ne_of_lt hnx), if_pos rfl]

/-! ### rescaling -/

def psi (k : Nat) : Nat := if k ≤ 1 then k else 3 * k

theorem psi_lt {a b : Nat} (h : a < b) : psi a < psi b := by
  unfold psi; split <;> split <;> omega

theorem psi_le_one {k : Nat} (h : psi k ≤ 1) : k ≤ 1 := by
  unfold psi at h; split at h <;> omega

theorem psi_gap {c n : Nat} (hn : 2 ≤ n) (hc : c < n) : psi c + 2 < psi n := by
  unfold psi; split <;> split <;> omega

theorem psi_two {n : Nat} (hn : 2 ≤ n) : 2 ≤ psi n := by
  unfold psi; split <;> omega

theorem RInv.scale {s : LState} {ρ : Nat → Nat} (h : RInv s ρ) : RInv s (fun x => psi (ρ x)) :=
  ⟨h.linv, h.litK, fun x c hc => psi_lt (h.acyc x c hc),
    fun e he => by show psi (ρ e.2) = 0; rw [h.leaf e he]; rfl,
    fun e he => by show psi (ρ e.2) = 1; rw [h.tri e he]; rfl,
    fun x hx => h.low x (psi_le_one hx), h.triOuts⟩

/-! ### `balance` -/

theorem addTriangles_rank (a : Nat) (order : List Nat) : ∀ (s : LState) (ρ : Nat → Nat),
    a < s.g.kind.size → 2 ≤ ρ a → RInv s ρ →
    ∃ ρ', RInv (order.foldl (fun t f => t.addTriangle f a) s) ρ' ∧ (∀ x, x < s.g.kind.size → ρ' x = ρ x) := by
  induction order with
  | nil => intro s ρ _ _ h; exact ⟨ρ, h, fun _ _ => rfl⟩
  | cons f fs ih =>
    intro s ρ ha hr h
    obtain ⟨ρ1, r1, a1, z1⟩ := addTriangle_rank f a ha hr h
    obtain ⟨ρ2, r2, a2⟩ := ih _ ρ1 (Nat.lt_of_lt_of_le ha z1) (by rw [a1 a ha]; exact hr) r1
    exact ⟨ρ2, r2, fun x hx => (a2 x (Nat.lt_of_lt_of_le hx z1)).trans (a1 x hx)⟩

/-- one step of `balance`: the new `and` fits between the child and the `or` node -/
theorem balanceStep_rank {s : LState} {ρ : Nat → Nat} (sorted : Bool) (h : List Nat → List Nat)
    (nx child : Nat) (miss : List Nat) (hnx : nx < s.g.kind.size) (hc : child ∈ s.g.outs.getD nx [])
    (hr : 2 ≤ ρ nx) (hs : RInv s ρ) :
    ∃ ρ', RInv (balanceStep sorted h nx s (child, miss)) ρ' ∧ 2 ≤ ρ' nx := by
  have hchild : child < s.g.kind.size := hs.linv.wf.edges nx child hc
  have hcn : ρ child < ρ nx := hs.acyc nx child hc
  have h1 := hs.scale
  have h2 := h1.addNodeHigh .and (psi (ρ child) + 2) (by omega)
  have hsz : ({ s with g := (s.g.addNode .and).1 } : LState).g.kind.size = s.g.kind.size + 1 :=
    addNode_size s.g .and
  have e_n : updN (fun x => psi (ρ x)) s.g.kind.size (psi (ρ child) + 2) s.g.kind.size
      = psi (ρ child) + 2 := updN_self _ _ _
  have e_nx : updN (fun x => psi (ρ x)) s.g.kind.size (psi (ρ child) + 2) nx = psi (ρ nx) :=
    updN_ne _ _ _ _ (Nat.ne_of_lt hnx)
  have e_c : updN (fun x => psi (ρ x)) s.g.kind.size (psi (ρ child) + 2) child = psi (ρ child) :=
    updN_ne _ _ _ _ (Nat.ne_of_lt hchild)
  have hlt : s.g.kind.size < (s.g.addNode .and).1.kind.size := by
    rw [addNode_size]; exact Nat.lt_succ_self _
  have h3 : RInv { s with g := (s.g.addNode .and).1.removeEdge nx child }
      (updN (fun x => psi (ρ x)) s.g.kind.size (psi (ρ child) + 2)) := h2.removeEdge nx child
  have h4 : RInv { s with g := ((s.g.addNode .and).1.removeEdge nx child).addEdge nx s.g.kind.size }
      (updN (fun x => psi (ρ x)) s.g.kind.size (psi (ρ child) + 2)) :=
    h3.addEdge nx s.g.kind.size hlt
      (by rw [e_n, e_nx]; exact psi_gap hr hcn)
      (fun e he heq => absurd heq (h3.not_tri (by rw [e_nx]; exact psi_two hr) e he))
  have h5 : RInv { s with g := insertAnd s.g nx child }
      (updN (fun x => psi (ρ x)) s.g.kind.size (psi (ρ child) + 2)) :=
    h4.addEdge s.g.kind.size child (Nat.lt_trans hchild hlt) (by rw [e_n, e_c]; omega)
      (fun e he heq => absurd heq (h4.not_tri (by rw [e_n]; omega) e he))
  have hsz' : ({ s with g := insertAnd s.g nx child } : LState).g.kind.size = s.g.kind.size + 1 :=
    insertAnd_size s.g nx child
  rw [balanceStep_eq]
  obtain ⟨ρ', r', a'⟩ := addTriangles_rank s.g.kind.size (if sorted then sortNat (h miss) else h miss) _ _
    (by rw [hsz']; exact Nat.lt_succ_self _) (by rw [e_n]; omega) h5
  refine ⟨ρ', r', ?_⟩
  rw [a' nx (by rw [hsz']; omega), e_nx]
  exact psi_two hr

/-- `balance` on an `or` node of rank `≥ 2`: acyclicity is kept; kinds and successor lists of the other
old nodes do not change -/
theorem balance_rank (sorted : Bool) (h : List Nat → List Nat) (nx : Nat) (work : List (Nat × List Nat)) :
    ∀ (s : LState) (ρ : Nat → Nat), nx < s.g.kind.size → 2 ≤ ρ nx →
      (∀ c, (work.map Prod.fst).count c ≤ (s.g.outs.getD nx []).count c) → RInv s ρ →
      ∃ ρ', RInv (balance sorted h s nx work) ρ' ∧
        s.g.kind.size ≤ (balance sorted h s nx work).g.kind.size ∧
        (∀ x, x < s.g.kind.size → (balance sorted h s nx work).g.kindOf x = s.g.kindOf x) ∧
        (∀ x, x < s.g.kind.size → x ≠ nx →
          (balance sorted h s nx work).g.outs.getD x [] = s.g.outs.getD x []) := by
  induction work with
  | nil => intro s ρ _ _ _ hs; exact ⟨ρ, hs, Nat.le_refl _, fun _ _ => rfl, fun _ _ _ => rfl⟩
  | cons w ws ih =>
    intro s ρ hnx hr hcnt hs
    obtain ⟨child, miss⟩ := w
    have hc : child ∈ s.g.outs.getD nx [] := by
      apply List.count_pos_iff.1
      have := hcnt child
      simp only [List.map_cons, List.count_cons_self] at this
      omega
    obtain ⟨ρ1, r1, hr1⟩ := balanceStep_rank sorted h nx child miss hnx hc hr hs
    obtain ⟨z1, k1, o1, on1⟩ := balanceStep_frame sorted h nx s child miss hs.linv.wf hnx
    obtain ⟨ρ2, r2, z2, k2, o2⟩ := ih (balanceStep sorted h nx s (child, miss)) ρ1
      (Nat.lt_of_lt_of_le hnx z1) hr1 (by
        intro c
        rw [on1]
        have h0 := hcnt c
        simp only [List.map_cons, List.count_cons] at h0
        have h1 : ((s.g.outs.getD nx []).erase child).count c ≤
            (s.g.kind.size :: (s.g.outs.getD nx []).erase child).count c := List.count_le_count_cons
        rw [List.count_erase] at h1
        by_cases hcc : child = c
        · have hb : (child == c) = true := by simpa using hcc
          simp only [hb, if_true] at h0 h1
          omega
        · have hb : (child == c) = false := by simpa using hcc
          simp only [hb, Bool.false_eq_true, if_false] at h0 h1
          omega) r1
    rw [balance_eq, List.foldl_cons, ← balance_eq]
    exact ⟨ρ2, r2, Nat.le_trans z1 z2, fun x hx => (k2 x (Nat.lt_of_lt_of_le hx z1)).trans (k1 x hx),
      fun x hx hxn => (o2 x (Nat.lt_of_lt_of_le hx z1) hxn).trans (o1 x hx hxn)⟩

end Ddnnf.D4
