/-
  The d4 loader preserves the denotation of the graph built in phase 1: top-level statements.

  Parts:
    LoadSem1   semantics of graph nodes: `evalG`, `Acyclic`, fuel independence, `sem`, `Model`
    LoadSem2   phase 5: `flattenGraph_root` (the DFS emits its root last; values in the flattened array)
    LoadSem3   phases 2 / 3b: triangles, the new root (`addFree_sem`, `addVanished_sem`)
    LoadSem4   phase 4: `balance_sem`, `smooth_sem`
    LoadSem5/6 phase 3: `deleteChain_sem` (fuel `deleteFuel` suffices), `elimNode_res`, `eliminate_sem`
    LoadSem7   structural invariants of phases 1 and 2 (literal table, predecessor lists)
    LoadSem8   composition for a given acyclic final graph (`loadWith_denotation_of_acyclic`)
    LoadSem9-13 acyclicity of the final graph from acyclicity of the phase-1 graph, with explicit ranks
               (`loadGraph_acyclic`)

  Hypotheses of the final theorem:
    * `hnode`  the file declares a node (otherwise node 0 does not exist);
    * `hnz`    no literal of the phase-1 graph is 0 (`litTrue σ 0 = false`: the "triangle" of variable 0 would
               be false; d4 files end every literal list with 0, so 0 is not a literal);
    * `hacyc`  the phase-1 graph is acyclic, witnessed by the rank `r`;
    * `hok`    the loader does not raise its error flag.
  It is *not* needed that the root survives the elimination: a removed root was false under every
  assignment, and `flattenGraph` turns removed nodes into `.fls`.
-/
import DdnnfVerif.Proofs.LoadSem13

namespace Ddnnf.D4

/-- executable form of `LitNZ` -/
def litNZB (g : G) : Bool := g.kind.toList.all fun k => k != some (.lit 0)

theorem litNZ_of_litNZB (g : G) (h : litNZB g = true) : LitNZ g := by
  intro x l hk hl
  subst hl
  have hx : x < g.kind.size := kindOf_lt hk
  have hm : g.kind[x] ∈ g.kind.toList := Array.mem_toList_iff.2 (Array.getElem_mem hx)
  have := List.all_eq_true.1 h _ hm
  have hk' : g.kind[x] = some (.lit 0) := by
    have : g.kind.getD x none = some (.lit 0) := hk
    rw [Array.getD_eq_getD_getElem?, Array.getElem?_eq_getElem hx] at this
    exact this
  rw [hk'] at this
  simp at this

/-- The loader (any hash iteration order that only permutes/filters its input, sorted or not) preserves
the denotation: the root of the loaded array has the value of the file's first node in the graph built
in phase 1. -/
theorem loadWith_preserves_denotation (sorted : Bool) (h : List Nat → List Nat)
    (hh : ∀ xs f, f ∈ h xs → f ∈ xs) (lines : List Line) (total : Nat)
    (hnode : ∃ k, Line.node k ∈ lines)
    (hnz : LitNZ (lines.foldl stepLine { total := total }).g)
    (r : Nat → Nat) (hacyc : Acyclic (lines.foldl stepLine { total := total }).g r)
    (hok : (loadWith sorted h lines total).2.2 = false) (σ : Assignment) :
    eval σ (loadWith sorted h lines total).2.1 (rootIx (loadWith sorted h lines total).2.1) =
      sem σ (lines.foldl stepLine { total := total }).g r 0 := by
  obtain ⟨r4, hacyc4⟩ := loadGraph_acyclic sorted h lines total hnode r hacyc
  exact loadWith_sem_of_acyclic sorted h hh lines total hnode hnz r hacyc r4 hacyc4 hok σ

/-- **The d4 loader preserves the denotation of the graph built in phase 1.** -/
theorem load_preserves_denotation (lines : List Line) (total : Nat)
    (hnode : ∃ k, Line.node k ∈ lines)
    (hnz : LitNZ (lines.foldl stepLine { total := total }).g)
    (r : Nat → Nat) (hacyc : Acyclic (lines.foldl stepLine { total := total }).g r)
    (hok : (load lines total).2.2 = false) (σ : Assignment) :
    eval σ (load lines total).2.1 (rootIx (load lines total).2.1) =
      sem σ (lines.foldl stepLine { total := total }).g r 0 :=
  loadWith_preserves_denotation true id (fun _ _ h => h) lines total hnode hnz r hacyc hok σ

/-- the same for an arbitrary model of the phase-1 graph instead of `sem` -/
theorem load_preserves_model (lines : List Line) (total : Nat)
    (hnode : ∃ k, Line.node k ∈ lines)
    (hnz : LitNZ (lines.foldl stepLine { total := total }).g)
    (r : Nat → Nat) (hacyc : Acyclic (lines.foldl stepLine { total := total }).g r)
    (hok : (load lines total).2.2 = false) (σ : Assignment) (v : Nat → Bool)
    (hm : Model σ (lines.foldl stepLine { total := total }).g v) :
    eval σ (load lines total).2.1 (rootIx (load lines total).2.1) = v 0 := by
  rw [hm.eq_sem r hacyc 0]
  exact load_preserves_denotation lines total hnode hnz r hacyc hok σ

/-- C01 from phase-1 acyclicity alone: children precede parents in the loaded array -/
theorem load_topo_of_phase1 (sorted : Bool) (h : List Nat → List Nat) (lines : List Line) (total : Nat)
    (hnode : ∃ k, Line.node k ∈ lines) (r : Nat → Nat)
    (hacyc : Acyclic (lines.foldl stepLine { total := total }).g r) :
    Topo (loadWith sorted h lines total).2.1 := by
  obtain ⟨r4, hacyc4⟩ := loadGraph_acyclic sorted h lines total hnode r hacyc
  exact load_topo sorted h lines total r4 hacyc4

end Ddnnf.D4
