/-
  The d4 loader preserves the denotation of the graph built in phase 1 (top-level statements).

  Parts: LoadSem1 (semantics `evalG`/`sem`/`Model`), LoadSem2 (phase 5, `flattenGraph`),
  LoadSem3 (phases 2, 3b), LoadSem4 (phase 4), LoadSem5/6 (phase 3), LoadSem7 (structural invariants of
  phases 1, 2), LoadSem8 (composition).
-/
import DdnnfVerif.Proofs.LoadSem8

namespace Ddnnf.D4

/-- `load` (sorted, identity hash order): the root of the loaded array has the denotation of the first
node of the file, provided the flattened graph is acyclic. -/
theorem load_preserves_denotation_of_acyclic (lines : List Line) (total : Nat)
    (hnode : ∃ k, Line.node k ∈ lines)
    (hnz : LitNZ (lines.foldl stepLine { total := total }).g)
    (r : Nat → Nat) (hacyc : Acyclic (lines.foldl stepLine { total := total }).g r)
    (r4 : Nat → Nat) (hacyc4 : Acyclic (loadGraph true id lines total).1 r4)
    (hok : (load lines total).2.2 = false) (σ : Assignment) :
    eval σ (load lines total).2.1 (rootIx (load lines total).2.1) =
      sem σ (lines.foldl stepLine { total := total }).g r 0 :=
  loadWith_sem_of_acyclic true id (fun _ _ h => h) lines total hnode hnz r hacyc r4 hacyc4 hok σ

end Ddnnf.D4
