/-
  Correctness of the per-feature cardinalities computed with partial derivatives (`cardPD`,
  model of ddnnife's `card_of_each_feature`).  The reverse-mode pass itself is verified in
  `Proofs/PDLeaf.lean` (`pdLeaf_of_WF`).
-/
import DdnnfVerif.Proofs.PDLeaf
import DdnnfVerif.Proofs.CountA
import DdnnfVerif.Proofs.WFCheck

namespace Ddnnf

/-- `card_of_each_feature` via partial derivatives is exact on well-formed circuits in which
every literal has at most one leaf -/
theorem cardPD_exact (nodes : List NType) (n : Nat) (h : WF nodes n) (hu : LitUnique nodes)
    (k : Nat) (hk : k < n) :
    (cardPD nodes n).getD k 0 = specCount nodes n [((k : Int) + 1)] := by
  rw [cardPD_getD nodes n k hk,
    cardPD_entry nodes _ h.nonempty h.topo h.decomposable h.smooth hu]
  have hA : InRange [((k : Int) + 1)] n := by
    intro a ha
    rw [List.mem_singleton] at ha
    subst ha
    constructor <;> omega
  rw [specCount_eq_filter nodes n h _ hA, count_eq_length_models, ← List.countP_eq_length_filter]
  unfold bcount
  have hcomp := root_models_complete nodes n h
  have hcongr : (models nodes (rootIx nodes)).countP
        (fun c => [((k : Int) + 1)].all (fun a => c.contains a))
      = (models nodes (rootIx nodes)).countP (fun c => !c.contains (-((k : Int) + 1))) := by
    apply List.countP_congr
    intro c hc
    have hC := hcomp c hc
    have hor := hC.mem_or (a := (k : Int) + 1) (by omega) (by omega)
    have hnb := fun h1 h2 => hC.not_both (a := (k : Int) + 1) h1 h2
    simp only [List.all_cons, List.all_nil, Bool.and_true, List.contains_iff_mem,
      Bool.not_eq_true']
    constructor
    · intro h1
      cases hc2 : c.contains (-((k : Int) + 1)) with
      | false => rfl
      | true => exact absurd (List.contains_iff_mem.mp hc2) (fun h2 => hnb h1 h2)
    · intro h2
      rcases hor with h1 | h1
      · exact h1
      · have := List.contains_iff_mem.mpr h1
        rw [this] at h2; cases h2
  rw [hcongr]
  have := List.length_eq_countP_add_countP (fun c : Config => c.contains (-((k : Int) + 1)))
    (l := models nodes (rootIx nodes))
  have e : (models nodes (rootIx nodes)).countP (fun a => decide ¬ (a.contains (-((k : Int) + 1)) = true))
      = (models nodes (rootIx nodes)).countP (fun c => !c.contains (-((k : Int) + 1))) := by
    apply List.countP_congr
    intro c _
    simp
  rw [e] at this
  omega

/-! ### non-vacuity: the circuit of ddnnife's `small_ex_c2d.nnf` -/

example : LitUnique smallEx := litUniqueB_sound _ (by decide)

example : cardPD smallEx 4 = [4, 2, 2, 2] := by decide

example : ∀ k, k < 4 → (cardPD smallEx 4).getD k 0 = specCount smallEx 4 [((k : Int) + 1)] :=
  fun k hk => cardPD_exact smallEx 4 (wfB_sound _ _ (by decide)) (litUniqueB_sound _ (by decide)) k hk

end Ddnnf
