/-
  Best configuration (`calc_best_config`): the value of the pass `fBest` at a node is `none` iff
  the node has no listed model compatible with the assumptions; otherwise it is (a permutation of)
  a listed model, its value is its objective value, and no listed model has a larger objective
  value.  Everything here is unconditional (no well-formedness of the circuit is needed).
-/
import DdnnfVerif.Model.Query
import DdnnfVerif.Model.Optimal
import DdnnfVerif.Proofs.Table
import DdnnfVerif.Proofs.Semantics
import DdnnfVerif.Proofs.CountA

namespace Ddnnf

/-! ### `cfgValue` -/

@[simp] theorem cfgValue_nil (vals : Nat → Int) : cfgValue vals [] = 0 := rfl

@[simp] theorem cfgValue_cons (vals : Nat → Int) (l : Int) (c : Config) :
    cfgValue vals (l :: c) = litValue vals l + cfgValue vals c := rfl

theorem cfgValue_singleton (vals : Nat → Int) (l : Int) : cfgValue vals [l] = litValue vals l := by
  simp

theorem cfgValue_append (vals : Nat → Int) (a b : Config) :
    cfgValue vals (a ++ b) = cfgValue vals a + cfgValue vals b := by
  induction a with
  | nil => simp
  | cons x a ih => simp only [List.cons_append, cfgValue_cons, ih]; omega

theorem cfgValue_perm (vals : Nat → Int) {a b : Config} (h : a.Perm b) :
    cfgValue vals a = cfgValue vals b := by
  induction h with
  | nil => rfl
  | cons x _ ih => simp only [cfgValue_cons, ih]
  | swap x y l => simp only [cfgValue_cons]; omega
  | trans _ _ ih1 ih2 => exact ih1.trans ih2

/-- the test `A.contains (-l)` of the Rust code is membership in the list of complements -/
theorem contains_neg_eq (A : List Int) (l : Int) :
    A.contains (-l) = (A.map (fun f => -f)).contains l := by
  rw [Bool.eq_iff_iff]
  simp only [List.contains_iff_mem, List.mem_map]
  constructor
  · intro h; exact ⟨-l, h, by omega⟩
  · rintro ⟨a, ha, rfl⟩; simpa using ha

/-! ### `lastMax` -/

theorem foldl_max_spec (xs : List OC) (x : OC) :
    let r := xs.foldl (fun best y => if best.value ≤ y.value then y else best) x
    (r = x ∨ r ∈ xs) ∧ x.value ≤ r.value ∧ ∀ y ∈ xs, y.value ≤ r.value := by
  induction xs generalizing x with
  | nil => simp
  | cons y ys ih =>
    simp only [List.foldl_cons]
    by_cases hxy : x.value ≤ y.value
    · rw [if_pos hxy]
      obtain ⟨h1, h2, h3⟩ := ih y
      refine ⟨?_, by omega, ?_⟩
      · rcases h1 with h | h
        · right; rw [h]; exact List.mem_cons_self
        · right; exact List.mem_cons_of_mem _ h
      · intro z hz
        rcases List.mem_cons.mp hz with rfl | hz
        · exact h2
        · exact h3 z hz
    · rw [if_neg hxy]
      obtain ⟨h1, h2, h3⟩ := ih x
      refine ⟨?_, h2, ?_⟩
      · rcases h1 with h | h
        · left; exact h
        · right; exact List.mem_cons_of_mem _ h
      · intro z hz
        rcases List.mem_cons.mp hz with rfl | hz
        · omega
        · exact h3 z hz

theorem lastMax_eq_none (l : List OC) : lastMax l = none ↔ l = [] := by
  cases l <;> simp [lastMax]

theorem lastMax_spec (l : List OC) (o : OC) (h : lastMax l = some o) :
    o ∈ l ∧ ∀ y ∈ l, y.value ≤ o.value := by
  cases l with
  | nil => simp [lastMax] at h
  | cons x xs =>
    simp only [lastMax, Option.some.injEq] at h
    obtain ⟨h1, h2, h3⟩ := foldl_max_spec xs x
    rw [h] at h1 h2 h3
    refine ⟨?_, ?_⟩
    · rcases h1 with h | h
      · rw [h]; exact List.mem_cons_self
      · exact List.mem_cons_of_mem _ h
    · intro y hy
      rcases List.mem_cons.mp hy with rfl | hy
      · exact h2
      · exact h3 y hy

/-! ### the product of configuration lists -/

theorem prodConfigs_eq_nil (ls : List (List Config)) :
    prodConfigs ls = [] ↔ ∃ l ∈ ls, l = [] := by
  induction ls with
  | nil => simp [prodConfigs]
  | cons l rest ih =>
    constructor
    · intro h
      by_cases hl : l = []
      · exact ⟨l, List.mem_cons_self, hl⟩
      · by_cases hr : prodConfigs rest = []
        · obtain ⟨l', hl', he⟩ := ih.mp hr
          exact ⟨l', List.mem_cons_of_mem _ hl', he⟩
        · exfalso
          obtain ⟨tl, htl⟩ := List.exists_mem_of_ne_nil _ hr
          obtain ⟨hd, hhd⟩ := List.exists_mem_of_ne_nil _ hl
          have : tl ++ hd ∈ prodConfigs (l :: rest) :=
            (mem_prodConfigs_cons _ _ _).mpr ⟨tl, htl, hd, hhd, rfl⟩
          rw [h] at this
          cases this
    · rintro ⟨l', hl', he⟩
      rw [List.eq_nil_iff_forall_not_mem]
      intro c hc
      obtain ⟨tl, htl, hd, hhd, rfl⟩ := (mem_prodConfigs_cons _ _ _).mp hc
      rcases List.mem_cons.mp hl' with rfl | hl''
      · rw [he] at hhd; cases hhd
      · have := ih.mpr ⟨l', hl'', he⟩
        rw [this] at htl; cases htl

/-! ### the invariant of the pass -/

/-- relation between the value of `fBest` and the list of compatible models of a node -/
def BestRel (vals : Nat → Int) (b : Option OC) (ms : List Config) : Prop :=
  (b = none ↔ ms = []) ∧
  ∀ o, b = some o →
    o.value = cfgValue vals o.cfg ∧ (∃ m ∈ ms, o.cfg.Perm m) ∧ ∀ m ∈ ms, cfgValue vals m ≤ o.value

theorem foldl_unify_spec (vals : Nat → Int) (ga : Nat → Option OC) (gb : Nat → List Config)
    (cs : List Nat) (h : ∀ c ∈ cs, ∃ o, ga c = some o ∧ o.value = cfgValue vals o.cfg ∧
      (∃ m ∈ gb c, o.cfg.Perm m) ∧ ∀ m ∈ gb c, cfgValue vals m ≤ o.value) (acc : OC) :
    ∃ c' : Config,
      ((cs.filterMap ga).foldl OC.unify acc).cfg = acc.cfg ++ c' ∧
      ((cs.filterMap ga).foldl OC.unify acc).value = acc.value + cfgValue vals c' ∧
      (∃ m ∈ prodConfigs (cs.map gb), c'.Perm m) ∧
      ∀ m ∈ prodConfigs (cs.map gb), cfgValue vals m ≤ cfgValue vals c' := by
  induction cs generalizing acc with
  | nil =>
    refine ⟨[], by simp, by simp, ⟨[], by simp [prodConfigs], List.Perm.refl _⟩, ?_⟩
    intro m hm
    simp only [List.map_nil, prodConfigs, List.mem_singleton] at hm
    subst hm
    simp
  | cons c cs ih =>
    obtain ⟨o, hgo, hov, ⟨mo, hmo, hpo⟩, hopt⟩ := h c List.mem_cons_self
    obtain ⟨c', hc1, hc2, ⟨m', hm', hp'⟩, hopt'⟩ :=
      ih (fun x hx => h x (List.mem_cons_of_mem _ hx)) (acc.unify o)
    rw [List.filterMap_cons, hgo]
    simp only [List.foldl_cons]
    refine ⟨o.cfg ++ c', ?_, ?_, ?_, ?_⟩
    · rw [hc1]; simp [OC.unify]
    · rw [hc2, cfgValue_append, ← hov]; simp only [OC.unify]; omega
    · refine ⟨m' ++ mo, ?_, ?_⟩
      · rw [List.map_cons]
        exact (mem_prodConfigs_cons _ _ _).mpr ⟨m', hm', mo, hmo, rfl⟩
      · exact List.perm_append_comm.trans (hp'.append hpo)
    · intro m hm
      rw [List.map_cons] at hm
      obtain ⟨tl, htl, hd, hhd, rfl⟩ := (mem_prodConfigs_cons _ _ _).mp hm
      have h1 := hopt' tl htl
      have h2 := hopt hd hhd
      rw [cfgValue_append, cfgValue_append, ← hov]
      omega

theorem fBest_rel (vals : Nat → Int) (A : List Int) (nd : NType) (ga : Nat → Option OC)
    (gb : Nat → List Config) (h : ∀ j, BestRel vals (ga j) (gb j)) :
    BestRel vals (fBest vals A nd ga) (fModelsA (A.map (fun f => -f)) nd gb) := by
  cases nd with
  | tru =>
    show BestRel vals (some OC.empty) [[]]
    refine ⟨by simp, ?_⟩
    intro o ho
    simp only [Option.some.injEq] at ho
    subst ho
    simp [OC.empty]
  | fls =>
    show BestRel vals none []
    exact ⟨by simp, by intro o ho; cases ho⟩
  | lit l =>
    show BestRel vals (if A.contains (-l) then none else some ⟨litValue vals l, [l]⟩)
      (if (A.map (fun f => -f)).contains l then [] else [[l]])
    rw [contains_neg_eq]
    by_cases hl : (A.map (fun f => -f)).contains l = true
    · rw [if_pos hl, if_pos hl]
      exact ⟨by simp, by intro o ho; cases ho⟩
    · rw [if_neg hl, if_neg hl]
      refine ⟨by simp, ?_⟩
      intro o ho
      simp only [Option.some.injEq] at ho
      subst ho
      simp
  | or cs =>
    show BestRel vals (lastMax (cs.filterMap ga)) ((cs.map gb).flatten)
    constructor
    · rw [lastMax_eq_none, List.filterMap_eq_nil_iff, List.flatten_eq_nil_iff]
      constructor
      · intro h1 l hl
        rw [List.mem_map] at hl
        obtain ⟨c, hc, rfl⟩ := hl
        exact (h c).1.mp (h1 c hc)
      · intro h1 c hc
        exact (h c).1.mpr (h1 _ (List.mem_map.mpr ⟨c, hc, rfl⟩))
    · intro o ho
      obtain ⟨hmem, hmax⟩ := lastMax_spec _ _ ho
      rw [List.mem_filterMap] at hmem
      obtain ⟨c, hc, hgc⟩ := hmem
      obtain ⟨hv, ⟨m, hm, hp⟩, _⟩ := (h c).2 o hgc
      refine ⟨hv, ⟨m, ?_, hp⟩, ?_⟩
      · rw [List.mem_flatten]
        exact ⟨gb c, List.mem_map.mpr ⟨c, hc, rfl⟩, hm⟩
      · intro m' hm'
        rw [List.mem_flatten] at hm'
        obtain ⟨L, hL, hmL⟩ := hm'
        rw [List.mem_map] at hL
        obtain ⟨c', hc', rfl⟩ := hL
        have hne : ga c' ≠ none := by
          intro hn
          have := (h c').1.mp hn
          rw [this] at hmL; cases hmL
        obtain ⟨o', ho'⟩ := Option.ne_none_iff_exists'.mp hne
        have h1 := ((h c').2 o' ho').2.2 m' hmL
        have h2 := hmax o' (List.mem_filterMap.mpr ⟨c', hc', ho'⟩)
        omega
  | and cs =>
    show BestRel vals
      (if cs.any (fun c => (ga c).isNone) then none
       else some ((cs.filterMap ga).foldl OC.unify OC.empty))
      (prodConfigs (cs.map gb))
    by_cases hany : cs.any (fun c => (ga c).isNone) = true
    · rw [if_pos hany]
      have hnil : prodConfigs (cs.map gb) = [] := by
        rw [prodConfigs_eq_nil]
        rw [List.any_eq_true] at hany
        obtain ⟨c, hc, hn⟩ := hany
        refine ⟨gb c, List.mem_map.mpr ⟨c, hc, rfl⟩, ?_⟩
        exact (h c).1.mp (by simpa using hn)
      exact ⟨by simp [hnil], by intro o ho; cases ho⟩
    · rw [if_neg hany]
      have hall : ∀ c ∈ cs, ∃ o, ga c = some o ∧ o.value = cfgValue vals o.cfg ∧
          (∃ m ∈ gb c, o.cfg.Perm m) ∧ ∀ m ∈ gb c, cfgValue vals m ≤ o.value := by
        intro c hc
        have hne : ga c ≠ none := by
          intro hn
          apply hany
          rw [List.any_eq_true]
          exact ⟨c, hc, by simp [hn]⟩
        obtain ⟨o, ho⟩ := Option.ne_none_iff_exists'.mp hne
        exact ⟨o, ho, (h c).2 o ho⟩
      obtain ⟨c', hc1, hc2, ⟨m, hm, hp⟩, hopt⟩ := foldl_unify_spec vals ga gb cs hall OC.empty
      change _ = ([] : Config) ++ c' at hc1
      change _ = (0 : Int) + _ at hc2
      rw [List.nil_append] at hc1
      rw [Int.zero_add] at hc2
      constructor
      · constructor
        · intro hn; cases hn
        · intro hn
          rw [hn] at hm; cases hm
      · intro o ho
        simp only [Option.some.injEq] at ho
        subst ho
        refine ⟨?_, ⟨m, hm, ?_⟩, ?_⟩
        · rw [hc2, hc1]
        · rw [hc1]; exact hp
        · intro m' hm'
          rw [hc2]
          exact hopt m' hm'

theorem best_rel (nodes : List NType) (vals : Nat → Int) (A : List Int) (i : Nat) :
    BestRel vals (val none (fBest vals A) nodes i) (modelsA nodes (A.map (fun f => -f)) i) := by
  unfold modelsA
  exact table_rel (BestRel vals) none [] (fBest vals A) (fModelsA (A.map (fun f => -f)))
    ⟨by simp, by intro o ho; cases ho⟩ (fBest_rel vals A) nodes i

/-! ### the theorems -/

/-- no best configuration iff the node has no listed model compatible with the assumptions -/
theorem best_none_iff (nodes : List NType) (vals : Nat → Int) (A : List Int) (i : Nat) :
    val none (fBest vals A) nodes i = none ↔ modelsA nodes (A.map (fun f => -f)) i = [] :=
  (best_rel nodes vals A i).1

/-- the best configuration is (up to the order of its literals) a listed model compatible with
the assumptions and its value is its objective value -/
theorem best_is_model (nodes : List NType) (vals : Nat → Int) (A : List Int) (i : Nat) (o : OC)
    (h : val none (fBest vals A) nodes i = some o) :
    o.value = cfgValue vals o.cfg ∧ ∃ m ∈ modelsA nodes (A.map (fun f => -f)) i, o.cfg.Perm m :=
  ⟨((best_rel nodes vals A i).2 o h).1, ((best_rel nodes vals A i).2 o h).2.1⟩

/-- no listed model compatible with the assumptions has a larger objective value -/
theorem best_optimal (nodes : List NType) (vals : Nat → Int) (A : List Int) (i : Nat) (o : OC)
    (h : val none (fBest vals A) nodes i = some o) :
    ∀ m ∈ modelsA nodes (A.map (fun f => -f)) i, cfgValue vals m ≤ o.value :=
  ((best_rel nodes vals A i).2 o h).2.2

/-! ### corollaries for `bestConfig` (the value at the root) -/

theorem bestConfig_none_iff (nodes : List NType) (vals : Nat → Int) (A : List Int) :
    bestConfig nodes vals A = none ↔ modelsA nodes (A.map (fun f => -f)) (rootIx nodes) = [] :=
  best_none_iff nodes vals A (rootIx nodes)

theorem bestConfig_is_model (nodes : List NType) (vals : Nat → Int) (A : List Int) (o : OC)
    (h : bestConfig nodes vals A = some o) :
    o.value = cfgValue vals o.cfg ∧
      ∃ m ∈ modelsA nodes (A.map (fun f => -f)) (rootIx nodes), o.cfg.Perm m :=
  best_is_model nodes vals A (rootIx nodes) o h

theorem bestConfig_optimal (nodes : List NType) (vals : Nat → Int) (A : List Int) (o : OC)
    (h : bestConfig nodes vals A = some o) :
    ∀ m ∈ modelsA nodes (A.map (fun f => -f)) (rootIx nodes), cfgValue vals m ≤ o.value :=
  best_optimal nodes vals A (rootIx nodes) o h

/-- the value of the best configuration is attained by a listed model and bounds all of them:
it is the maximum of the objective over the listed models compatible with the assumptions -/
theorem bestConfig_value_is_max (nodes : List NType) (vals : Nat → Int) (A : List Int) (o : OC)
    (h : bestConfig nodes vals A = some o) :
    (∃ m ∈ modelsA nodes (A.map (fun f => -f)) (rootIx nodes), cfgValue vals m = o.value) ∧
    ∀ m ∈ modelsA nodes (A.map (fun f => -f)) (rootIx nodes), cfgValue vals m ≤ o.value := by
  obtain ⟨hv, m, hm, hp⟩ := bestConfig_is_model nodes vals A o h
  exact ⟨⟨m, hm, by rw [hv]; exact (cfgValue_perm vals hp).symm⟩, bestConfig_optimal nodes vals A o h⟩

/-- in terms of the unrestricted list `models`: the best configuration is (a permutation of) a
listed model of the node and contains no complement of an assumption -/
theorem best_cfg_compatible (nodes : List NType) (vals : Nat → Int) (A : List Int) (i : Nat) (o : OC)
    (h : val none (fBest vals A) nodes i = some o) :
    (∃ m ∈ models nodes i, o.cfg.Perm m) ∧ ∀ l ∈ o.cfg, -l ∉ A := by
  obtain ⟨_, m, hm, hp⟩ := best_is_model nodes vals A i o h
  rw [modelsA_eq_filter, List.mem_filter, List.all_eq_true] at hm
  refine ⟨⟨m, hm.1, hp⟩, ?_⟩
  intro l hl hA
  have := hm.2 l (hp.mem_iff.mp hl)
  rw [← contains_neg_eq] at this
  simp [hA] at this

end Ddnnf
