/-
  The root of the fitness-guided variant and the two statements of C09 about it.
  (Statements fixed; proofs to be filled in.)
-/
import DdnnfVerif.Proofs.TW.NodesA
import DdnnfVerif.Proofs.TW.EndToEnd
import DdnnfVerif.Proofs.TW.RootAAux
namespace Ddnnf.TW

variable (nodes : List NType) (n : Nat)

/-- `trim_and_resample` needs only the coverage of interactions of exactly `t` literals -/
theorem trimAndResampleEq_spec (h : WF nodes n) (hu : LitUnique nodes) (hpos : 0 < count nodes (rootIx nodes))
    (t : Nat) (ht : 1 ≤ t) (s : Sample)
    (hs : SampleInv nodes n (rootIx nodes) (vars nodes (rootIx nodes)) s) (hne : s.all ≠ [])
    (hcov : CoversEq t (vars nodes (rootIx nodes)) (SatAt nodes (rootIx nodes)) s) (q : Queue) :
    SampleInv nodes n (rootIx nodes) (vars nodes (rootIx nodes))
      (trimAndResample (ctxOf nodes n) (rootIx nodes) s t q).1 ∧
    CoversEq t (vars nodes (rootIx nodes)) (SatAt nodes (rootIx nodes))
      (trimAndResample (ctxOf nodes n) (rootIx nodes) s t q).1 := by
  have hroot := Root.root_lt nodes n h
  have hV : ∀ v ∈ vars nodes (rootIx nodes), 1 ≤ v ∧ v ≤ n := fun v hv => (mem_vars_root nodes n h v).mp hv
  have hPs : SampleInv nodes n (rootIx nodes) (vars nodes (rootIx nodes)) s ∧
      CoversEq t (vars nodes (rootIx nodes)) (SatAt nodes (rootIx nodes)) s := ⟨hs, hcov⟩
  rw [Root.trimAndResample_fst]
  split
  · exact hPs
  split
  case isFalse => exact hPs
  generalize hdrop : (pickDrop s.len q).1 = drop
  generalize (pickDrop s.len q).2 = q1
  have hs1 := Root.trimSample_inv nodes n _ _ s hs drop
  obtain ⟨_, _, _, a4, a5⟩ := Root.trimSample_spec s drop
  have hshuf := pickShuf_mem (trimSample s drop).2 q1
  generalize hls' : (pickShuf (trimSample s drop).2 q1).1 = ls' at hshuf
  -- the variables are not empty
  have hvars : 1 ≤ s.vars.length := by
    obtain ⟨c, hc⟩ := List.exists_mem_of_ne_nil _ hne
    obtain ⟨l, hl⟩ := List.exists_mem_of_ne_nil _ (hs.cfgs c hc).nonempty
    have := (hs.vars_mem _).mpr ((hs.cfgs c hc).within l hl).2
    exact List.length_pos_of_mem this
  have hInR : ∀ I, Within (vars nodes (rootIx nodes)) I → InRangeL n I :=
    fun I hW l hl _ => (hV _ (hW l hl).2).2
  by_cases hnil : ls' = []
  · -- nothing was dropped
    subst hnil
    have hall : ∀ c ∈ s.all, c ∈ (trimSample s drop).1.all := by
      intro c hc
      rcases a4 c hc with h1 | h1
      · exact h1
      · exfalso
        obtain ⟨l, hl⟩ := List.exists_mem_of_ne_nil _ (hs.cfgs c hc).nonempty
        have := (hshuf l).mpr (h1 l hl)
        cases this
    have hne1 : (trimSample s drop).1.all ≠ [] := by
      obtain ⟨c, hc⟩ := List.exists_mem_of_ne_nil _ hne
      exact List.ne_nil_of_mem (hall c hc)
    have hfold : (tIter ([] : List Int) (min (min s.vars.length t) ([] : List Int).length)).foldl
        (coverChecked (ctxOf nodes n) (rootIx nodes)) (trimSample s drop).1 = (trimSample s drop).1 := by
      have e1 : min (min s.vars.length t) ([] : List Int).length = 0 := by simp
      rw [e1]
      show coverChecked (ctxOf nodes n) (rootIx nodes) (trimSample s drop).1 [] = _
      unfold coverChecked
      have : (trimSample s drop).1.covers [] = true := by
        obtain ⟨c, hc⟩ := List.exists_mem_of_ne_nil _ hne1
        exact Root.covers_of_mem _ c hc [] rfl
      rw [if_pos this]
    rw [hfold]
    refine ⟨hs1, fun I hlen hI hW hS => ?_⟩
    obtain ⟨c, hc, hcov⟩ := Root.exists_of_covers s I (hPs.2 I hlen hI hW hS)
    exact Root.covers_of_mem _ c (hall c hc) I hcov
  · have hlen' : 1 ≤ ls'.length := by
      cases ls' with
      | nil => exact absurd rfl hnil
      | cons a l => simp
    generalize hk : min (min s.vars.length t) ls'.length = k
    have hk1 : 1 ≤ k := by omega
    have hIs : ∀ I ∈ tIter ls' k, I ≠ [] ∧ Within (vars nodes (rootIx nodes)) I := by
      intro I hI
      refine ⟨fun he => ?_, fun l hl => ?_⟩
      · have := ((mem_tIter ls' I k).mp hI).2
        rw [he] at this
        simp at this
        omega
      · have hl' := (hshuf l).mp (mem_of_mem_tIter hI l hl)
        obtain ⟨c, hc, hlc⟩ := a5 l hl'
        exact (hs.cfgs c hc).within l hlc
    obtain ⟨d1, d2, d3⟩ := Root.resampleFold_spec nodes n h hu hpos (tIter ls' k) _ hIs hs1
    refine ⟨d1, fun I hlen hI hW hS => ?_⟩
    obtain ⟨c, hc, hcov⟩ := Root.exists_of_covers s I (hPs.2 I hlen hI hW hS)
    rcases a4 c hc with hin | hdropped
    · exact d2 I (hInR I hW) (Root.covers_of_mem _ c hin I hcov)
    · have hsub : ∀ l ∈ I, l ∈ ls' := by
        intro l hl
        apply (hshuf l).mpr
        apply hdropped
        exact (covers_iff n c (hs.cfgs c hc).ok I (hInR I hW)).mp hcov l hl (hI.1 l hl)
      have hnd : I.Nodup := nodup_of_map_nodup Int.natAbs I hI.2
      obtain ⟨J, hJ, hsame⟩ := exists_tIter_same ls' I hnd hsub
      have hJ' := (mem_tIter ls' J I.length).mp hJ
      have h1 : t ≤ ls'.length := by
        have := hJ'.1.length_le
        rw [List.length_reverse, hJ'.2] at this
        omega
      have h2 : t ≤ s.vars.length := by
        have := Root.length_le_of_nodup_subset (I.map Int.natAbs) s.vars hI.2 (fun v hv => by
          rw [List.mem_map] at hv
          obtain ⟨l, hl, rfl⟩ := hv
          exact (hs.vars_mem _).mpr (hW l hl).2)
        rw [List.length_map] at this
        omega
      have hkt : k = I.length := by omega
      rw [← hkt] at hJ
      have hWJ : Within (vars nodes (rootIx nodes)) J := (hIs J hJ).2
      have hSJ : SatAt nodes (rootIx nodes) J := (satAt_congr nodes _ J I hsame).mpr hS
      have hcovJ := d3 J hJ hSJ (noAC_of_satAt_root nodes n h hu hpos J hWJ hSJ)
      exact covers_subset n _ (fun c hc => (d1.cfgs c hc).ok) J I (hInR J hWJ) (hInR I hW)
        (fun l hl _ => (hsame l).mpr hl) hcovJ

namespace RootA

theorem runA_cases (t : Nat) (q : Queue) :
    ((∀ s, (sampleNodesA (ctxOf nodes n) t nodes #[] q).1.getD (rootIx nodes) .void ≠ .sample s) ∧
      runA nodes n t q = (sampleNodesA (ctxOf nodes n) t nodes #[] q).1.getD (rootIx nodes) .void) ∨
    ∃ s, (sampleNodesA (ctxOf nodes n) t nodes #[] q).1.getD (rootIx nodes) .void = .sample s ∧
      ∃ q1 q2, runA nodes n t q = .sample (completePartialsA (ctxOf nodes n) (rootIx nodes)
        (trimAndResample (ctxOf nodes n) (rootIx nodes) s t q1).1.partials.reverse
        { (trimAndResample (ctxOf nodes n) (rootIx nodes) s t q1).1 with partials := [] } q2).1 := by
  have e : runA nodes n t q =
      (match (sampleNodesA (ctxOf nodes n) t nodes #[] q).1.getD (rootIx nodes) .void with
        | .sample s =>
            (Res.sample (completePartialsA (ctxOf nodes n) (rootIx nodes)
              (trimAndResample (ctxOf nodes n) (rootIx nodes) s t
                (sampleNodesA (ctxOf nodes n) t nodes #[] q).2).1.partials.reverse
              { (trimAndResample (ctxOf nodes n) (rootIx nodes) s t
                (sampleNodesA (ctxOf nodes n) t nodes #[] q).2).1 with partials := [] }
              (trimAndResample (ctxOf nodes n) (rootIx nodes) s t
                (sampleNodesA (ctxOf nodes n) t nodes #[] q).2).2).1,
             (completePartialsA (ctxOf nodes n) (rootIx nodes)
              (trimAndResample (ctxOf nodes n) (rootIx nodes) s t
                (sampleNodesA (ctxOf nodes n) t nodes #[] q).2).1.partials.reverse
              { (trimAndResample (ctxOf nodes n) (rootIx nodes) s t
                (sampleNodesA (ctxOf nodes n) t nodes #[] q).2).1 with partials := [] }
              (trimAndResample (ctxOf nodes n) (rootIx nodes) s t
                (sampleNodesA (ctxOf nodes n) t nodes #[] q).2).2).2)
        | r => (r, (sampleNodesA (ctxOf nodes n) t nodes #[] q).2)).1 := rfl
  rw [e]
  cases hr : (sampleNodesA (ctxOf nodes n) t nodes #[] q).1.getD (rootIx nodes) .void with
  | empty => exact Or.inl ⟨fun s hs => (by cases hs), rfl⟩
  | void => exact Or.inl ⟨fun s hs => (by cases hs), rfl⟩
  | sample s => exact Or.inr ⟨s, rfl, _, _, rfl⟩

/-- the satisfiable case of `runA_valid` -/
theorem runA_valid_pos (h : WF nodes n) (hu : LitUnique nodes) (hpos : 0 < count nodes (rootIx nodes))
    (t : Nat) (ht : 1 ≤ t) (q : Queue) :
    ∀ c ∈ (runA nodes n t q).configs, Complete n c ∧ ∃ m ∈ models nodes (rootIx nodes), m.Perm c := by
  have hroot := Root.root_lt nodes n h
  intro c hc
  rcases runA_cases nodes n t q with ⟨hno, hrun⟩ | ⟨s, hr, q1, q2, hrun⟩
  · rw [hrun] at hc
    exfalso
    cases hr : (sampleNodesA (ctxOf nodes n) t nodes #[] q).1.getD (rootIx nodes) .void with
    | sample s => exact hno s hr
    | empty => rw [hr] at hc; cases hc
    | void => rw [hr] at hc; cases hc
  · rw [hrun] at hc
    have hres := (sampleNodesA_spec nodes n h hu hpos t ht q).2 (rootIx nodes) hroot
    have hsamp := hres.sample s hr (live_root nodes)
    obtain ⟨inv1, _⟩ := trimAndResampleEq_spec nodes n h hu hpos t ht s hsamp.inv hsamp.nonempty
      hsamp.cover q1
    obtain ⟨hall, _⟩ := completeRoot_spec nodes n h hu hpos _ inv1 q2
    unfold Res.configs at hc
    rw [List.mem_map] at hc
    obtain ⟨c0, hc0, rfl⟩ := hc
    exact good_final nodes n h c0 (hall c0 hc0)

/-- an unsatisfiable model yields no configuration -/
theorem runA_void (h : WF nodes n) (hzero : count nodes (rootIx nodes) = 0) (t : Nat) (q : Queue) :
    (runA nodes n t q).configs = [] := by
  have hroot := Root.root_lt nodes n h
  have hv := (sampleNodesA_void nodes n h.topo t q (rootIx nodes) hroot).mpr hzero
  rcases runA_cases nodes n t q with ⟨_, hrun⟩ | ⟨s, hr, _⟩
  · rw [hrun]
    cases hr : (sampleNodesA (ctxOf nodes n) t nodes #[] q).1.getD (rootIx nodes) .void with
    | sample s => rw [hr] at hv; cases hv
    | empty => rfl
    | void => rfl
  · rw [hr] at hv
    cases hv

end RootA

/-- every configuration the fitness-guided construction returns is a complete model, whatever the
fitness values (i.e. whatever the comparisons and `calc_best_config` answer) -/
theorem runA_valid (h : WF nodes n) (hu : LitUnique nodes) (t : Nat) (ht : 1 ≤ t) (q : Queue) :
    ∀ c ∈ (runA nodes n t q).configs, Complete n c ∧ ∃ m ∈ models nodes (rootIx nodes), m.Perm c := by
  by_cases hpos : 0 < count nodes (rootIx nodes)
  · exact RootA.runA_valid_pos nodes n h hu hpos t ht q
  · intro c hc
    rw [RootA.runA_void nodes n h (by omega) t q] at hc
    cases hc

/-- … and every set of `t` literals over distinct features that is contained in a model is contained
in a configuration it returns -/
theorem runA_covers (h : WF nodes n) (hu : LitUnique nodes) (t : Nat) (ht : 1 ≤ t) (q : Queue)
    (I : List Int) (hlen : I.length = t) (hrange : ∀ l ∈ I, l ≠ 0 ∧ l.natAbs ≤ n)
    (hdistinct : (I.map Int.natAbs).Nodup) (hsat : 0 < specCount nodes n I) :
    ∃ c ∈ (runA nodes n t q).configs, ∀ l ∈ I, l ∈ c := by
  have hpos := E2E.count_pos_of_specCount nodes n h I hsat
  have hroot := Root.root_lt nodes n h
  have hres := (sampleNodesA_spec nodes n h hu hpos t ht q).2 (rootIx nodes) hroot
  rcases RootA.runA_cases nodes n t q with ⟨hno, _⟩ | ⟨s, hr, q1, q2, hrun⟩
  · exfalso
    cases hr : (sampleNodesA (ctxOf nodes n) t nodes #[] q).1.getD (rootIx nodes) .void with
    | sample s => exact hno s hr
    | empty =>
      have hv := hres.empty_vars hr
      have hn : n = 0 := by rw [← Root.vars_root_length nodes n h, hv]; rfl
      cases I with
      | nil => simp at hlen; omega
      | cons l I =>
        have := hrange l (List.mem_cons_self ..)
        have h0 : l.natAbs ≠ 0 := fun h0 => this.1 (Int.natAbs_eq_zero.mp h0)
        omega
    | void =>
      have := hres.void_iff.mp (by rw [hr]; rfl)
      omega
  · rw [hrun]
    have hsamp := hres.sample s hr (live_root nodes)
    obtain ⟨inv1, cov1⟩ := trimAndResampleEq_spec nodes n h hu hpos t ht s hsamp.inv hsamp.nonempty
      hsamp.cover q1
    obtain ⟨_, hkeep⟩ := RootA.completeRoot_spec nodes n h hu hpos _ inv1 q2
    have hI : Inter I := ⟨fun l hl => (hrange l hl).1, hdistinct⟩
    have hW : Within (vars nodes (rootIx nodes)) I := by
      intro l hl
      have := hrange l hl
      have h0 : l.natAbs ≠ 0 := fun h0 => this.1 (Int.natAbs_eq_zero.mp h0)
      exact ⟨this.1, (mem_vars_root nodes n h _).mpr ⟨by omega, this.2⟩⟩
    have hS := satAt_root_of_specCount nodes n h I hrange hsat
    have hcov := hkeep I (fun l hl _ => (hrange l hl).2) (cov1 I hlen hI hW hS)
    obtain ⟨c, hc, hcc⟩ := Root.exists_of_covers _ I hcov
    refine ⟨c.lits.toList, List.mem_map_of_mem hc, fun l hl => ?_⟩
    have hl0 := (hrange l hl).1
    apply Root.has_mem c l hl0
    unfold Cfg.covers at hcc
    rw [List.all_eq_true] at hcc
    exact hcc l (List.mem_filter.mpr ⟨hl, by simpa using hl0⟩)

/-- an unsatisfiable model yields no configuration -/
theorem runA_void_of_unsat (h : WF nodes n) (hzero : count nodes (rootIx nodes) = 0) (t : Nat) (q : Queue) :
    (runA nodes n t q).configs = [] := by
  exact RootA.runA_void nodes n h hzero t q

end Ddnnf.TW

namespace Ddnnf.D4

/-- end to end for d4 texts that pass the executable conventions check -/
theorem loaded_twiseA_only_models (lines : List Line) (total : Nat)
    (h : conventions2B lines total = true) (t : Nat) (ht : 1 ≤ t) (q : TW.Queue) :
    ∀ c ∈ (TW.runA (load lines total).2.1 (load lines total).1 t q).configs,
      Complete (load lines total).1 c ∧ textCount lines total c = 1 := by
  obtain ⟨hwf, hu, _⟩ := conventions2B_sound lines total h
  intro c hc
  obtain ⟨h1, h2⟩ := TW.runA_valid _ _ hwf hu t ht q c hc
  refine ⟨h1, ?_⟩
  rw [← specCount_eq_textCount lines total (conventions2B_left lines total h)]
  exact TW.E2E.specCount_complete_model _ _ c h1 h2

theorem loaded_twiseA_covers (lines : List Line) (total : Nat)
    (h : conventions2B lines total = true) (t : Nat) (ht : 1 ≤ t) (q : TW.Queue)
    (I : List Int) (hlen : I.length = t)
    (hrange : ∀ l ∈ I, l ≠ 0 ∧ l.natAbs ≤ (load lines total).1)
    (hdistinct : (I.map Int.natAbs).Nodup) (hsat : 0 < textCount lines total I) :
    ∃ c ∈ (TW.runA (load lines total).2.1 (load lines total).1 t q).configs, ∀ l ∈ I, l ∈ c := by
  obtain ⟨hwf, hu, _⟩ := conventions2B_sound lines total h
  rw [← specCount_eq_textCount lines total (conventions2B_left lines total h)] at hsat
  exact TW.runA_covers _ _ hwf hu t ht q I hlen hrange hdistinct hsat

end Ddnnf.D4
